// Package yqx wraps the real yqlib entry points (the same ones the CLI uses) with recover().
package yqx

import (
	"fmt"
	"runtime"
	"strings"
	"sync"

	"github.com/mikefarah/yq/v4/pkg/yqlib"
	logging "gopkg.in/op/go-logging.v1"
)

var once sync.Once

// Init silences yq's logger and builds the expression parser once.
func Init() {
	once.Do(func() {
		logging.SetLevel(logging.ERROR, "")
		logging.SetLevel(logging.CRITICAL, "yq-lib")
		yqlib.InitExpressionParser()
	})
}

// Panic describes a recovered panic from inside yq.
type Panic struct {
	Value string // panic value text
	Func  string // innermost frame inside github.com/mikefarah/yq (function name, no line)
	Stack string
}

func (p *Panic) Sig() string { return p.Func + ": " + classify(p.Value) }

// classify reduces a panic message to its class (numbers stripped).
func classify(v string) string {
	switch {
	case strings.Contains(v, "index out of range"):
		return "index out of range"
	case strings.Contains(v, "slice bounds out of range"):
		return "slice bounds out of range"
	case strings.Contains(v, "nil pointer dereference"):
		return "nil pointer dereference"
	case strings.Contains(v, "interface conversion"):
		return "interface conversion"
	case strings.Contains(v, "strconv."):
		return "strconv error panic"
	}
	if len(v) > 60 {
		v = v[:60]
	}
	return v
}

// Guard runs f and converts a panic into a *Panic.
func Guard(f func()) (p *Panic) {
	defer func() {
		if x := recover(); x != nil {
			p = &Panic{Value: fmt.Sprint(x)}
			pcs := make([]uintptr, 64)
			n := runtime.Callers(3, pcs)
			frames := runtime.CallersFrames(pcs[:n])
			var sb strings.Builder
			for {
				fr, more := frames.Next()
				if p.Func == "" && strings.Contains(fr.Function, "mikefarah/yq") {
					p.Func = fr.Function[strings.LastIndex(fr.Function, "/")+1:]
				}
				fmt.Fprintf(&sb, "%s (%s:%d)\n", fr.Function, fr.File, fr.Line)
				if !more {
					break
				}
			}
			if p.Func == "" {
				p.Func = "(outside yq)"
			}
			p.Stack = sb.String()
		}
	}()
	f()
	return nil
}

// Formats known to the harness.
func Decoder(name string) yqlib.Decoder {
	switch name {
	case "yaml", "":
		p := yqlib.NewDefaultYamlPreferences()
		return yqlib.NewYamlDecoder(p)
	case "json":
		return yqlib.NewJSONDecoder()
	case "props":
		return yqlib.NewPropertiesDecoder()
	case "csv":
		return yqlib.NewCSVObjectDecoder(yqlib.NewDefaultCsvPreferences())
	case "tsv":
		return yqlib.NewCSVObjectDecoder(yqlib.NewDefaultTsvPreferences())
	case "xml":
		return yqlib.NewXMLDecoder(yqlib.NewDefaultXmlPreferences())
	case "base64":
		return yqlib.NewBase64Decoder()
	case "uri":
		return yqlib.NewUriDecoder()
	case "toml":
		return yqlib.NewTomlDecoder()
	case "lua":
		return yqlib.NewLuaDecoder(yqlib.NewDefaultLuaPreferences())
	}
	return nil
}

func Encoder(name string) yqlib.Encoder {
	switch name {
	case "yaml", "":
		p := yqlib.NewDefaultYamlPreferences()
		return yqlib.NewYamlEncoder(p)
	case "json": // -o=json -I0 : one compact JSON text per result, scalars not unwrapped
		return yqlib.NewJSONEncoder(yqlib.JsonPreferences{Indent: 0, ColorsEnabled: false, UnwrapScalar: false})
	case "json2":
		return yqlib.NewJSONEncoder(yqlib.JsonPreferences{Indent: 2, ColorsEnabled: false, UnwrapScalar: true})
	case "props":
		return yqlib.NewPropertiesEncoder(yqlib.NewDefaultPropertiesPreferences())
	case "csv":
		return yqlib.NewCsvEncoder(yqlib.NewDefaultCsvPreferences())
	case "tsv":
		return yqlib.NewCsvEncoder(yqlib.NewDefaultTsvPreferences())
	case "xml":
		return yqlib.NewXMLEncoder(yqlib.NewDefaultXmlPreferences())
	case "base64":
		return yqlib.NewBase64Encoder()
	case "uri":
		return yqlib.NewUriEncoder()
	case "toml":
		return yqlib.NewTomlEncoder()
	case "shell":
		return yqlib.NewShellVariablesEncoder()
	case "sh":
		return yqlib.NewShEncoder()
	case "lua":
		return yqlib.NewLuaEncoder(yqlib.NewDefaultLuaPreferences())
	}
	return nil
}

// Eval runs expr over input exactly as `yq -p=in -o=out expr` does (stream evaluator,
// one evaluation per document) and returns the printed text.
func Eval(expr, input, in, out string) (text string, err error, pan *Panic) {
	Init()
	dec, enc := Decoder(in), Encoder(out)
	if dec == nil || enc == nil {
		return "", fmt.Errorf("harness: unknown format %q/%q", in, out), nil
	}
	pan = Guard(func() {
		text, err = yqlib.NewStringEvaluator().Evaluate(expr, input, enc, dec)
	})
	return
}

// EvalAll is `yq ea`.
func EvalAll(expr, input, in, out string) (text string, err error, pan *Panic) {
	Init()
	dec, enc := Decoder(in), Encoder(out)
	if dec == nil || enc == nil {
		return "", fmt.Errorf("harness: unknown format %q/%q", in, out), nil
	}
	pan = Guard(func() {
		text, err = yqlib.NewStringEvaluator().EvaluateAll(expr, input, enc, dec)
	})
	return
}

// Parse parses an expression.
func Parse(expr string) (node *yqlib.ExpressionNode, err error, pan *Panic) {
	Init()
	pan = Guard(func() {
		node, err = yqlib.ExpressionParser.ParseExpression(expr)
	})
	return
}
