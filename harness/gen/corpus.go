package gen

import (
	"math/rand/v2"
	"os"
	"path/filepath"
	"strings"
	"sync"
)

// Corpus of small well-formed texts per input format; byte mutators work from these.
var Corpus = map[string][]string{
	"yaml": {
		"a: 1\nb: [1, 2, 3]\nc: {x: y}\n",
		"# head\na: &anc\n  x: 1 # line\n  y: [a, b]\nb: *anc\nc:\n  <<: *anc\n  z: 3\n# foot\n",
		"- a\n- b: 1\n  c: 2\n- [1, [2, [3]]]\n- !!str 12\n- !custom {k: v}\n",
		"---\na: 1\n---\n# only comment\n---\nb: |\n  literal\n  text\nc: >-\n  folded\n  text\n...\n",
		"a: 'single'\nb: \"double \\n \\u263A\"\nc: 0x1F\nd: 1e3\ne: .inf\nf: ~\ng: 2001-12-14t21:59:43.10-05:00\nh: !!binary aGVsbG8=\n",
		"? [complex, key]\n: value\n? {a: b}\n: 2\n",
		"a: &x [1, 2]\nb: *x\nc: &y {k: *x}\nd: [*y, *x]\n<<: [*y]\n",
		"\"\": empty\n\" \": space\n1: int\ntrue: bool\nnull: nil\n1.5: float\n",
		"a:\n  - b:\n      - c:\n          - d: {e: [f, {g: h}]}\n",
		"- 9223372036854775807\n- -9223372036854775808\n- 18446744073709551616\n- 0o17\n- 0b101\n- +12\n- 1_000\n",
		"",
		"# just a comment\n",
		"--- \n",
		"a: 1\na: 2\n",
		"[a, b\n",
		// anchored nodes that contain themselves (valid YAML: the anchor is defined before its content)
		"a: &x {<<: *x}\nb: 1\n",
		"a: &x [*x, 1]\nb: {k: *x}\n",
		"&x {k: *x, j: [1, 2]}\n",
		"a: &x {b: {<<: *x}, c: 1}\nd: *x\n",
		"a: &x {<<: [*x]}\n",
		"base: &b {k: 1, self: *b}\nuse: {<<: *b, own: 2}\nlist: [*b, *b]\n",
		// keys with the same text: repeated, or differing in type only
		"b: 1\na: 2\nb: 3\n", "{1: a, \"1\": b, c: 0}\n", "x: {k: 1, k: 2, j: 0}\ny: [{true: 1, \"true\": 2}]\n", "~: 1\nnull: 2\n\"\": 3\n\"\": 4\n",
		// empty containers; comments that are nothing but the indicator
		"a: []\nb: {}\nc: [[]]\n", "[]\n", "- []\n- [1]\n", "a: [1]\n---\na: []\n",
		"#\na: 1\n", "# \n#\n---\n#\nb: 2 #\n", "a: 1 #\nb: #\n  - 1\n#\n",
		// strings that are expressions (eval), also ones that eval themselves
		"a: \"eval(.a)\"\nb: \".c\"\nc: [1, 2]\nx: &x {k: 1}\n",
		"a: \"eval(.a) + 1\"\nb: \"eval(eval(.b))\"\nc: \"[eval(.c)]\"\nd: \"select(eval(.d))\"\n",
		"a: &a {k: 1, b: [1]}\nb: *a\nc: {d: *a}\n", "- &s [1, 2]\n- *s\n- {a: *s, b: 1}\n",
		"a: \".. | eval(.a)\"\nb: \"eval(.b) , .\"\n",
		"- \"eval(.[0])\"\n- \".[1]\"\n- \"load(.[2])\"\n",
	},
	"json": {
		`{"a":1,"b":[1,2,3],"c":{"x":"y"},"d":null,"e":true,"f":1.5e10}`,
		`{"b":1,"a":2,"b":3}`, `{"x":{"k":1,"k":2},"k":[{"":1,"":2}]}`,
		`[1,"two",[3,[4,{"five":5}]],{},[],""]`,
		`{"a":9007199254740993,"b":-0.0,"c":1E400,"d":"\ud83d\ude00 \u0000 \"q\" \\ \/"}`,
		"{\"a\":1}\n{\"b\":2}\n[3]\n\"s\"\n4\nnull\n",
		`"just a string"`, `42`, `null`, ``, `{"a":{"a":{"a":{"a":{"a":{}}}}}}`,
		`{"":"","k":"<&>"}`,
	},
	"xml": {
		`<?xml version="1.0" encoding="UTF-8"?><root><a id="1">text</a><a>two</a><b><c/></b></root>`,
		`<!DOCTYPE note SYSTEM "Note.dtd"><?proc inst?><r x="1" y="2"><!-- c -->t1<k>v</k>t2<![CDATA[ <raw> ]]></r>`,
		`<a xmlns:h="http://x/" h:attr="1"><h:b>1</h:b><h:b>2</h:b></a>`,
		`<cat>&lt;&amp;&#x263A;</cat>`, `<a/>`, ``, `<a><b></a>`, `text only`, `<a b="1" b="2"/>`,
		`<r><e></e><e>  </e><e> x </e></r>`,
	},
	"toml": {
		"title = \"x\"\n[owner]\nname = 'n'\ndob = 1979-05-27T07:32:00-08:00\n[[items]]\na = 1\n[[items]]\na = 2\n[items.sub]\nk = [1, 2, [3]]\n",
		"a.b.c = 1\na.b.d = {x = 1, y = [\"s\"]}\ne = 1.5\nf = true\ng = 0x1F\nh = inf\ni = \"\"\"multi\nline\"\"\"\n",
		"[a]\n[a.b]\n[a]\n", "x = 1\nx = 2\n", "", "# c\n", "k = [ {a = 1}, {a = 2} ]\n", "d = 1979-05-27\nt = 07:32:00\n",
		"[[a]]\n[[a.b]]\nc = 1\n[[a.b]]\nc = 2\n[[a]]\n[[a.b]]\nc = 3\n", "= 1\n", "a = [1, \"s\"]\n", "a = \n",
		// headers without content, also as the very last thing of the input
		"[[a]]", "x = 1\n[[a]]\nb = 1\n[[a]]", "[t]", "[[a]]\n[[a]]\n[b]\n[[c]]\n", "[a]\nx = 1\n[[a.l]]\n[[a.l]]",
	},
	"csv": {
		"name,age,note\nann,30,\"x, y\"\nbob,,\"multi\nline\"\n",
		"a,b\n1,2\n3\n4,5,6\n", "\"q\"\"q\",b\n1,true\n", "a\n", "", "a,a\n1,2\n", ",\n,\n", "1,2,3\n4,5,6\n", "a,b\n\"unterminated,2\n",
		"x;y\n1;2\n",
	},
	"tsv": {
		"name\tage\nann\t30\nbob\t\n", "a\tb\n\"q\tq\"\t2\n", "", "a\n1\t2\n",
	},
	"props": {
		"a.b = 1\na.c : two\n# c\n! d\nlist.0 = x\nlist.1 = y\nk\\ ey = v\\u0041\\n\nlong = a\\\n   b\n",
		"a = 1\na.b = 2\n", "x.0.y = 1\nx.2.y = 3\n", "", "=v\n", "k\n", "a..b = 1\n", ".a = 1\n", "a.-1 = 2\na.99 = 3\n", "a = ${a}\n", "a = ${b}\nb = ${a}\n",
		// brackets in keys: the array form a properties writer may use, and the broken shapes around it
		"pets[0] = cat\npets[1][0] = dog\n", "a.5] = 1\n7]=v\n", "a[ = 1\nb[] = 2\n[0] = 3\n", "x[1 = 1\ny]0[ = 2\n", "k.[2].j = 1\n9] = 2\n]=3\n", "a.0].b = 1\n",
	},
	"lua": {
		"return {\n\t[\"a\"] = 1;\n\tb = {1, 2, 3};\n\t[\"c d\"] = {x = true, y = nil, z = \"s\"};\n};\n",
		"return {1, 2, [5] = 3, k = function() end}\n", "return 1\n", "return \"s\"\n", "return nil", "", "x = 1", "return {{{{}}}}", "return {[1.5]=1, [true]=2}\n",
		"return setmetatable({}, {__index=function() error('x') end})", "return {string.rep('x', 10)}", "local t = {a=1} local u = {t, t} return u",
	},
	"base64": {"aGVsbG8=", "aGVsbG8", "", "!!!!", "YQ==\n", "////", "-_-_"},
	"uri":    {"a%20b", "%zz", "%", "", "a+b%2B", "%e6%97%a5", "%00"},
}

// Lua inputs that diverge (known finding C11-lua-input-is-executed); drawn rarely because each
// costs a full CPU budget.
var luaDiverging = []string{"while true do end", "local t = {} t.t = t return t", "repeat until false", "local function f() return f() end return f()"}

var InputFormats = []string{"yaml", "json", "xml", "toml", "csv", "tsv", "props", "lua", "base64", "uri"}
var OutputFormats = []string{"yaml", "json", "json2", "xml", "toml", "csv", "tsv", "props", "lua", "base64", "uri", "shell", "sh"}

var repoSeedsOnce sync.Once
var repoSeeds map[string][]string

// RepoSeeds loads examples/ of the repository under test as extra seeds (optional).
func RepoSeeds(repo string) map[string][]string {
	repoSeedsOnce.Do(func() {
		repoSeeds = map[string][]string{}
		ext := map[string]string{".yaml": "yaml", ".yml": "yaml", ".json": "json", ".xml": "xml", ".toml": "toml", ".csv": "csv", ".tsv": "tsv", ".properties": "props", ".lua": "lua"}
		files, _ := filepath.Glob(filepath.Join(repo, "examples", "*"))
		for _, f := range files {
			if fm, ok := ext[strings.ToLower(filepath.Ext(f))]; ok {
				if b, err := os.ReadFile(f); err == nil && len(b) < 8192 {
					repoSeeds[fm] = append(repoSeeds[fm], string(b))
				}
			}
		}
	})
	return repoSeeds
}

// InputText returns (possibly corrupted) text for a format.
func InputText(r *rand.Rand, format, repo string) string {
	pool := Corpus[format]
	if format == "lua" && r.IntN(400) == 0 {
		return luaDiverging[r.IntN(len(luaDiverging))]
	}
	if extra := RepoSeeds(repo)[format]; len(extra) > 0 && r.IntN(3) == 0 {
		pool = extra
	}
	s := pool[r.IntN(len(pool))]
	switch r.IntN(10) {
	case 0, 1, 2: // valid
		return s
	case 3: // truncated: anywhere, at the end of a line, or just the final newline gone
		if len(s) > 0 {
			switch r.IntN(3) {
			case 0:
				return strings.TrimRight(s, "\n")
			case 1:
				lines := strings.SplitAfter(s, "\n")
				k := 1 + r.IntN(len(lines))
				return strings.TrimRight(strings.Join(lines[:k], ""), "\n")
			}
			return s[:r.IntN(len(s))]
		}
		return s
	case 4: // spliced with another sample (maybe another format)
		of := InputFormats[r.IntN(len(InputFormats))]
		o := Corpus[of][r.IntN(len(Corpus[of]))]
		if len(s) > 0 && len(o) > 0 {
			return s[:r.IntN(len(s))] + o[r.IntN(len(o)):]
		}
		return s + o
	case 5:
		return RandomBytes(r, 64)
	default:
		return Mutate(r, s, 1+r.IntN(4))
	}
}
