package gen

import (
	"math/rand/v2"
	"strconv"
	"strings"
)

// Vocabulary of expression tokens: every keyword family of the lexer rule table, flag
// variants, brackets and literals. No env/load/now/shuffle/eval tokens that reach outside
// the process (load is given scratch-relative names only).
var soupTokens = []string{
	".", "..", "...", ".a", ".b", ".c", ".x", ".[", "[", "]", "]?", "(", ")", "{", "}", ":", ",", "|", ";",
	".a?", `."k y"`, ".[0]", ".[-1]", ".[1:]", ".[:2]", ".[-5:]", ".[1:-1]", ".[3:1]", ".[-1:1]", ".[2:-4]", ".[1:0]", ".[5:2]", ".[-1:-3]", ".[]", ".a[]", ".a[0]", ".a.b", ".[\"a\"]",
	"+", "-", "*", "/", "%", "//", "==", "!=", "<", "<=", ">", ">=", "=", "|=", "+=", "-=", "*=", "*+", "*d", "*?", "*n", "*+d?n", "*=+", "=c", "|=c",
	"and", "or", "not", "length", "keys", "key", "is_key", "has", "select", "map", "map_values", "filter", "pick", "omit",
	"flatten", "flatten(1)", "flatten(0)", "reverse", "sort", "sort_by", "sort_keys", "unique", "unique_by", "group_by",
	"any", "all", "any_c", "all_c", "contains", "join", "split", "sub", "match", "capture", "test", "trim", "upcase", "downcase",
	"to_string", "to_number", "to_entries", "from_entries", "with_entries", "with", "collect", "del", "delpaths", "setpath", "path",
	"parent", "parent(2)", "parent(0)", "explode", "anchor", "alias", "style", "tag", "kind", "type", "line", "column",
	"line_comment", "head_comment", "foot_comment", "comments =", "comments |=", "document_index", "di", "file_index", "filename",
	"to_yaml", "to_json", "to_json(0)", "to_xml", "to_props", "to_csv", "to_tsv", "@yaml", "@json", "@xml", "@props", "@csv", "@tsv",
	"@base64", "@base64d", "@uri", "@urid", "@sh", "from_yaml", "from_json", "from_xml", "from_props", "from_csv", "from_tsv",
	"@yamld", "@jsond", "@xmld", "@propsd", "@csvd", "@tsvd", "to_yaml(4)", "to_xml(1)",
	"min", "max", "pivot", "array_to_map", "split_doc", "ireduce", "as", "ref", "$x", "$i", "$y", "error", "eval",
	"format_datetime", "tz", "from_unix", "to_unix", "with_dtf", "envsubst", "envsubst(ne)", "envsubst(nu,ff)", "strenv(NOPE)", "env(NOPE)",
	"0", "1", "2", "-1", "3.5", "1e3", "0x10", "-0", "99999999999", "true", "false", "null", "~", `"s"`, `""`, `"a b"`, `"\(.a)"`, `"\("`, `"x\n"`, `"*"`,
	`"2006-01-02"`, `"(a)(b)?"`, `"["`, `"(?P<n>a)"`, "#c\n", " ", "\n",
}

// Soup returns a random token sequence (not necessarily well-formed).
func Soup(r *rand.Rand, maxTokens int) string {
	n := 1 + r.IntN(maxTokens)
	var sb strings.Builder
	for i := 0; i < n; i++ {
		if i > 0 && r.IntN(4) != 0 {
			sb.WriteByte(' ')
		}
		sb.WriteString(soupTokens[r.IntN(len(soupTokens))])
	}
	return sb.String()
}

// --- structured (mostly well-formed) expressions over the full vocabulary --------------

var unaryFns = []string{"length", "keys", "reverse", "sort", "unique", "flatten", "flatten(1)", "any", "all", "not",
	"to_entries", "from_entries", "explode(.)", "to_string", "to_number", "trim", "upcase", "downcase", "path", "parent",
	"key", "kind", "tag", "style", "anchor", "alias", "line", "column", "min", "max", "pivot", "array_to_map", "sort_keys(.)", "sort_keys(..)",
	"to_yaml", "to_json", "@json", "to_xml", "to_props", "@csv", "@tsv", "@base64", "@base64d", "@uri", "@urid", "@sh",
	"from_yaml", "from_json", "from_xml", "from_props", "from_csv", "from_tsv", "document_index", "file_index", "filename",
	"line_comment", "head_comment", "foot_comment", "collect", "splitDoc", "to_unix", "from_unix", "tz(\"UTC\")", "is_key", "envsubst",
	". - .", ".a - .a", ".[0] - .[1]", "[.[]] - [.[0]]", "[.a] - [.b]", "[.a, .b] | unique", "[.a] | contains([.a])", "(.a, .b) as $x | [.a] - [$x]",
	"[.[]] | unique", ".list - .list", "[.use] - [.base]", ". as $d | [$d] - [$d]", "[.a] | unique_by(.)", "[.a, .a] | group_by(.)",
	"del(.[0])", "del(.a[0])", "del(.[0]) | del(.[0])", "del(.a[0]) | del(.a[0]) | del(.a[0])", "del(.[-1])", "del(.a[], .a[0])", "del(.[] | .[0])",
	"delpaths([[0]])", "delpaths([[\"a\", 0]])", "del(.. | select(. == 1))", "del(.[0], .[0])", "del(.a.b[0])", "with(.a; del(.[0]))",
	"shuffle | length", "..", "...", ".[]", ".[0]", ".[-1]", ".[1:]", ".[:-1]", ".[-3:]", ".[2:1]", ".[3:1]", ".[-1:1]", ".[2:-4]", ".[1:0]", ".[-1:-2]", ".[4:2]", ".a", ".b", ".a[]", ".x?", ".[\"a\",\"b\"]"}

var argFns = []string{"select", "map", "map_values", "filter", "sort_by", "group_by", "unique_by", "any_c", "all_c", "has",
	"contains", "join", "split", "pick", "omit", "with_entries", "del", "delpaths", "test", "match", "capture", "error", "collect", "eval", "load_str"}

var binOps = []string{"|", ",", "+", "-", "*", "/", "%", "//", "==", "!=", "<", "<=", ">", ">=", "and", "or", "=", "|=", "+=", "-=", "*=", "*+", "*d", "*?", "*n", "*+d"}

var atoms = []string{".", ".a", ".b", ".c", ".x", ".a.b", ".[0]", ".[]", "..", "0", "1", "-1", "2", "3.5", "0x1F", "true", "false", "null",
	`"a"`, `"b"`, `""`, `"a,b"`, `","`, `"\(.a) x"`, "[]", "{}", "[1,2,3]", `{"a":1}`, `["a","b"]`, `[["a"]]`,
	`[{"a":"b"}]`, `[{"b":"a"}]`, `{"a":"b","b":"a"}`, `[{"a":"a"},{"b":"b","a":"b"}]`, `{"x":{"a":"b"},"y":{"b":"a"}}`, "$x", `"(a+)"`, `"2006-01-02"`,
	// records of unequal width (for the row-wise encoders), the context itself in a union under a binding / eval
	`("a.5] = 1" | from_props)`, `("7]=v" | from_props)`, `("p[0] = x" | from_props)`,
	`(.a head_comment = "\n")`, `(. head_comment = "")`, `(.a line_comment = "\n")`, `(. head_comment = "#")`, `(.a foot_comment = "\n")`, `(.[0] head_comment = "\n")`,
	`eval(.a)`, `eval(.b)`, `eval(.c)`, `eval(.d)`,
	`(.a = .b)`, `(.a = .b | .a.k)`, `(.[0] = .[1] | .[0][0])`, `(.a |= .c.d)`, `(.a = .c.d | .a)`,
	`{.a, .b}`, `{.[]}`, `{.b, .a}`, `{(.a, .b)}`, `{.. }`,
	`[{"a":1,"b":2},{"a":3}]`, `[{"a":1,"b":2,"c":3},{"c":4},{}]`, `[[1,2,3],[4]]`, `(., 1)`, `(., .a)`, `"., .a"`, `". , 1"`, `. as $x | (., 1)`, `eval("., .a")`, `eval(". , 1")`}

// Structured builds a random expression tree of the given depth over the full vocabulary.
func Structured(r *rand.Rand, depth int) string {
	if depth <= 0 || r.IntN(5) == 0 {
		return atoms[r.IntN(len(atoms))]
	}
	if r.IntN(14) == 0 {
		// a node attribute is rewritten first (alias by name, anchor, tag that contradicts the kind, style), then
		// the node is traversed, compared, exploded or encoded in the same expression
		tgt := []string{".a", ".b", ".", ".[0]", ".a.b", ".[]", ".a[0]", "..", ".c"}[r.IntN(9)]
		attr := []string{`alias = "x"`, `alias = "nope"`, `alias |= "a"`, `anchor = "x"`, `anchor = ""`, `tag = "!!map"`, `tag = "!!seq"`, `tag = "!!int"`,
			`tag = "!!null"`, `tag = "!!merge"`, `tag = "!!binary"`, `tag = "!!timestamp"`, `tag = ""`, `style = "flow"`, `style = "literal"`, `style = "nope"`,
			`line_comment = "\n"`, `head_comment = "#"`, `head_comment = "\n\n"`, `foot_comment = "a\n#b"`, `line_comment |= .`, `key = "k"`,
			// attribute texts that are not valid UTF-8
			`line_comment = ("/w==" | @base64d)`, `tag = ("/w==" | @base64d)`, `head_comment = ("gICA" | @base64d)`, `anchor = ("/w==" | @base64d)`, `foot_comment |= ("wyg=" | @base64d)`,
			`style = ("/w==" | @base64d)`, `alias = ("/w==" | @base64d)`}[r.IntN(29)]
		if r.IntN(3) == 0 {
			// ... or compared with itself / others (deep equality follows what the node points at)
			return "(" + tgt + " " + attr + ") | " + []string{". - .", "[.a] - [.a]", "[.[]] | unique", "[.a, .b] - [.a]", ".a - .a", "[.] - [.]", "[.[]] - [.[0]]", ". == .", "[.a] | contains([.a])"}[r.IntN(9)]
		}
		return "(" + tgt + " " + attr + ") | " + Structured(r, depth-1)
	}
	switch r.IntN(12) {
	case 0, 1, 2, 3:
		op := binOps[r.IntN(len(binOps))]
		return Structured(r, depth-1) + " " + op + " " + Structured(r, depth-1)
	case 4, 5:
		return Structured(r, depth-1) + " | " + unaryFns[r.IntN(len(unaryFns))]
	case 6, 7:
		f := argFns[r.IntN(len(argFns))]
		return Structured(r, depth-1) + " | " + f + "(" + Structured(r, depth-1) + ")"
	case 8:
		return "[" + Structured(r, depth-1) + "]"
	case 9:
		return "{" + atoms[r.IntN(len(atoms))] + ": " + Structured(r, depth-1) + "}"
	case 10:
		return "(" + Structured(r, depth-1) + ") as $x | " + Structured(r, depth-1)
	default:
		switch r.IntN(5) {
		case 0:
			return Structured(r, depth-1) + " as $i ireduce (" + atoms[r.IntN(len(atoms))] + "; " + Structured(r, depth-1) + ")"
		case 1:
			return "with(" + Structured(r, depth-1) + "; " + Structured(r, depth-1) + ")"
		case 2:
			return "sub(" + Structured(r, depth-1) + "; " + Structured(r, depth-1) + ")"
		case 3:
			return "setpath(" + Structured(r, depth-1) + "; " + Structured(r, depth-1) + ")"
		default:
			return "(" + Structured(r, depth-1) + ")" + []string{"[0]", "[]", ".a", "[1:]", "[-9:]", "[\"a\"]", "?"}[r.IntN(7)]
		}
	}
}

// Mutate applies n random byte/substring mutations.
func Mutate(r *rand.Rand, s string, n int) string {
	b := []byte(s)
	for i := 0; i < n; i++ {
		if len(b) == 0 {
			b = append(b, byte(r.IntN(256)))
			continue
		}
		switch r.IntN(8) {
		case 0: // flip a bit
			p := r.IntN(len(b))
			b[p] ^= 1 << uint(r.IntN(8))
		case 1: // delete a byte
			p := r.IntN(len(b))
			b = append(b[:p], b[p+1:]...)
		case 2: // insert an interesting byte
			p := r.IntN(len(b) + 1)
			pool := []byte("()[]{}.,|:;\"'\\#*&!<>=-+?%@~$ \n\t0\x00\xff")
			c := pool[r.IntN(len(pool))]
			b = append(b[:p], append([]byte{c}, b[p:]...)...)
		case 3: // truncate
			b = b[:r.IntN(len(b)+1)]
		case 4: // duplicate a span
			p := r.IntN(len(b))
			q := p + r.IntN(len(b)-p+1)
			span := append([]byte{}, b[p:q]...)
			b = append(b[:q], append(span, b[q:]...)...)
		case 5: // swap two spans' first bytes
			p, q := r.IntN(len(b)), r.IntN(len(b))
			b[p], b[q] = b[q], b[p]
		case 6: // insert a token
			p := r.IntN(len(b) + 1)
			t := soupTokens[r.IntN(len(soupTokens))]
			b = append(b[:p], append([]byte(t), b[p:]...)...)
		case 7: // replace a digit run with an extreme number
			p := r.IntN(len(b))
			if b[p] >= '0' && b[p] <= '9' {
				x := []string{"99999999999999999999", "-9223372036854775808", "9223372036854775807", "1e999", "0x7fffffffffffffff", "-0"}[r.IntN(6)]
				b = append(b[:p], append([]byte(x), b[p+1:]...)...)
			}
		}
		if len(b) > 4096 {
			b = b[:4096]
		}
	}
	return string(b)
}

// Respace stretches the layout of an expression: blanks, tabs, newlines and CRLF after opening
// brackets and separators, before closing brackets and in place of existing blanks (also inside the
// parenthesised number of flatten(1), parent(2), to_json(0) ...).
func Respace(r *rand.Rand, s string) string {
	ws := []string{" ", "\t", "\n", "\r\n", "  ", "\t ", " \n ", "\v", "\f"}
	var sb strings.Builder
	for i := 0; i < len(s); i++ {
		c := s[i]
		switch {
		case c == ' ' && r.IntN(2) == 0:
			sb.WriteString(ws[r.IntN(len(ws))])
			continue
		case (c == ')' || c == ']' || c == '}') && r.IntN(3) == 0:
			sb.WriteString(ws[r.IntN(len(ws))])
		}
		sb.WriteByte(c)
		if (c == '(' || c == '[' || c == '{' || c == ',' || c == ';' || c == ':' || c == '|') && r.IntN(3) == 0 {
			sb.WriteString(ws[r.IntN(len(ws))])
		}
	}
	return sb.String()
}

// RandomBytes returns raw random bytes.
func RandomBytes(r *rand.Rand, max int) string {
	n := r.IntN(max + 1)
	b := make([]byte, n)
	for i := range b {
		b[i] = byte(r.IntN(256))
	}
	return string(b)
}

func itoa(i int) string { return strconv.Itoa(i) }
