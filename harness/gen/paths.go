package gen

import (
	"math/rand/v2"

	"verifharness/ref"
)

// PathOpts tunes RandomPath.
type PathOpts struct {
	AllowCreate bool // may end in 1..3 steps that do not exist yet
	AllowMulti  bool // splats, multi-key, recursive-descent+predicate selections
	NoRoot      bool // never address the root itself
	MultiIdx    bool // may end in a multi-index step that pads: .[5, -2]
}

type nodeAt struct {
	path []any
	v    *ref.V
}

func allNodes(doc *ref.V) []nodeAt {
	var out []nodeAt
	doc.Walk(nil, func(p []any, n *ref.V) { out = append(out, nodeAt{append([]any{}, p...), n}) })
	return out
}

func pathOK(p []any) bool {
	for _, k := range p {
		if s, ok := k.(string); ok && !okKey(s) {
			return false
		}
	}
	return true
}

// RandomPath builds an addressable path expression following doc's structure.
func RandomPath(r *rand.Rand, doc *ref.V, o PathOpts) ref.PathExpr {
	nodes := allNodes(doc)
	var cands []nodeAt
	for _, n := range nodes {
		if pathOK(n.path) && !(o.NoRoot && len(n.path) == 0) {
			cands = append(cands, n)
		}
	}
	if len(cands) == 0 {
		return ref.PathExpr{Steps: []ref.Step{{Kind: "key", Key: "a"}}}
	}
	if o.AllowMulti && r.IntN(8) == 0 {
		// .. | select(pred) over scalars equal to some existing scalar
		var scal []*ref.V
		for _, n := range nodes {
			if n.v.IsScalar() && (n.v.K != ref.Str || (ref.ExprStringOK(n.v.S) && okKey(n.v.S))) && (n.v.K != ref.Float || ref.Lit(n.v).String() == n.v.Text()) {
				scal = append(scal, n.v)
			}
		}
		if len(scal) > 0 {
			lit := scal[r.IntN(len(scal))]
			var pred *ref.Expr
			if lit.K == ref.Null {
				pred = ref.Bin("==", ref.Self(), ref.Lit(ref.NullV()))
			} else {
				pred = ref.Bin("==", ref.Self(), ref.Lit(lit.Copy()))
			}
			return ref.PathExpr{Steps: []ref.Step{{Kind: "rdesc"}}, Pred: pred}
		}
	}
	if o.AllowMulti && r.IntN(12) == 0 {
		// nested multi-match selections: every node, or every node below some container,
		// optionally only the non-empty containers
		p := ref.PathExpr{Steps: []ref.Step{{Kind: "rdesc"}}}
		if r.IntN(2) == 0 {
			c := cands[r.IntN(len(cands))]
			if !c.v.IsScalar() && len(c.path) > 0 && len(c.path) < 3 {
				p.Steps = nil
				for _, k := range c.path {
					switch kk := k.(type) {
					case string:
						p.Steps = append(p.Steps, ref.Step{Kind: "key", Key: kk})
					case int:
						p.Steps = append(p.Steps, ref.Step{Kind: "idx", Idx: kk})
					}
				}
				p.Steps = append(p.Steps, ref.Step{Kind: "rdesc"})
			}
		}
		if r.IntN(2) == 0 {
			p.Pred = ref.Bin(">", ref.Fn0("length"), ref.Lit(ref.IntV(int64(r.IntN(2)))))
		}
		return p
	}
	n := cands[r.IntN(len(cands))]
	// walk down again to know the container sizes for negative indices / splats
	var steps []ref.Step
	cur := doc
	for _, k := range n.path {
		switch kk := k.(type) {
		case string:
			st := ref.Step{Kind: "key", Key: kk, Brack: r.IntN(5) == 0}
			if o.AllowMulti && r.IntN(10) == 0 && cur.K == ref.Map {
				st = ref.Step{Kind: "splat"}
			} else if o.AllowMulti && r.IntN(12) == 0 && cur.K == ref.Map && len(cur.M) > 1 {
				other := cur.M[r.IntN(len(cur.M))].K
				if okKey(other) && other != kk {
					st = ref.Step{Kind: "multi", Keys: []string{kk, other}}
				}
			}
			steps = append(steps, st)
			cur, _ = cur.Get(kk)
		case int:
			st := ref.Step{Kind: "idx", Idx: kk}
			if r.IntN(4) == 0 {
				st.Idx = kk - len(cur.A) // the same element from the end
			}
			if o.AllowMulti && r.IntN(6) == 0 {
				st = ref.Step{Kind: "splat"}
			}
			steps = append(steps, st)
			cur = cur.A[kk]
		}
	}
	p := ref.PathExpr{Steps: steps}
	if o.MultiIdx && n.v.K == ref.Seq && r.IntN(2) == 0 {
		// .[i, j]: an index at or beyond the end (pads) next to one counted from the end, in either order,
		// chosen so that the two resolve to different positions
		ln := len(n.v.A)
		pad := ln + r.IntN(3)
		if pad == 0 {
			pad = 1
		}
		j := 2 + r.IntN(pad) // counted from the end of the padded sequence (length pad+1): pad+1-j in 0..pad-1
		if r.IntN(4) > 0 {
			p.Steps = append(p.Steps, ref.Step{Kind: "midx", Idxs: []int{pad, -j}})
		} else if ln > 0 {
			p.Steps = append(p.Steps, ref.Step{Kind: "midx", Idxs: []int{-(1 + r.IntN(ln)), pad}})
		}
		return p
	}
	if o.AllowCreate && r.IntN(3) == 0 && (n.v.K == ref.Map || n.v.K == ref.Null || n.v.K == ref.Seq) {
		// a to-be-created suffix of length 1..3
		k := 1 + r.IntN(3)
		at := n.v
		for i := 0; i < k; i++ {
			switch {
			case at != nil && at.K == ref.Seq:
				p.Steps = append(p.Steps, ref.Step{Kind: "idx", Idx: len(at.A) + r.IntN(3)})
			case at != nil && at.K == ref.Map, at != nil && at.K == ref.Null && r.IntN(2) == 0, at == nil && r.IntN(3) > 0:
				key := []string{"new", "n2", "zz", "q"}[r.IntN(4)]
				if at != nil && at.K == ref.Map {
					if _, exists := at.Get(key); exists {
						key = "new_" + key
					}
				}
				p.Steps = append(p.Steps, ref.Step{Kind: "key", Key: key})
			default:
				p.Steps = append(p.Steps, ref.Step{Kind: "idx", Idx: r.IntN(3)})
			}
			at = nil
		}
	}
	return p
}

// SimpleValue returns a replacement value that can be written as an expression literal.
func SimpleValue(r *rand.Rand, depth int) *ref.V {
	if depth <= 0 || r.IntN(3) > 0 {
		switch r.IntN(8) {
		case 0:
			return ref.NullV()
		case 1:
			return ref.BoolV(r.IntN(2) == 0)
		case 2, 3:
			return ref.IntV(int64(r.IntN(200) - 50))
		case 4:
			return ref.FloatV([]float64{0.5, 1.5, -2.25, 100.0}[r.IntN(4)])
		default:
			return ref.StrV([]string{"new", "v1", "v2", "", "a b", "x", "true", "12", "é"}[r.IntN(9)])
		}
	}
	if r.IntN(2) == 0 {
		s := &ref.V{K: ref.Seq, A: []*ref.V{}}
		for i := 0; i < r.IntN(3); i++ {
			s.A = append(s.A, SimpleValue(r, depth-1))
		}
		return s
	}
	m := &ref.V{K: ref.Map, M: []ref.KV{}}
	for i := 0; i < r.IntN(3); i++ {
		k := []string{"k", "j", "m"}[i]
		m.M = append(m.M, ref.KV{K: k, V: SimpleValue(r, depth-1)})
	}
	return m
}
