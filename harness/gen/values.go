// Package gen holds the seeded generators: values, YAML with presentation, expressions,
// format texts and byte mutators. Everything is a function of the *rand.Rand handed in.
package gen

import (
	"math"
	"math/big"
	"math/rand/v2"
	"strings"

	"verifharness/ref"
)

// Profile tunes the value generator.
type Profile struct {
	MaxDepth   int
	MaxWidth   int
	Keys       []string // key pool (few distinct keys reused across levels so paths collide)
	NoFloat    bool
	NoNull     bool
	NoBigInt   bool // keep ints inside int64
	SmallInts  bool // ints in a small range only (arithmetic stays exact and in range)
	PlainStr   bool // strings from a tame alphabet only
	NoEmptyKey bool
	OnlyMaps   bool // root and nested containers are maps (C04)
	ScalarBias int  // 0..100: percentage of scalar children below the root
}

var DefaultKeys = []string{"a", "b", "c", "d", "x", "y", "k", "id", "name", "v"}

func Default() Profile {
	return Profile{MaxDepth: 4, MaxWidth: 4, Keys: DefaultKeys, ScalarBias: 55}
}

var tortureStrings = []string{
	"", " ", "a", "b", "abc", "hello world", "true", "false", "null", "~", "1", "0", "-1", "1.5", "0x10", "0o7", "1e3",
	"yes", "no", "on", "off", "Null", "TRUE", "a: b", "- a", "# c", "a #b", "'q'", "\"dq\"", "it's", "back\\slash",
	"line1\nline2", "tab\there", "trailing ", " leading", "a,b", "[x]", "{y}", "*star", "&amp", "!bang", "%pct", "@at", "`tick`",
	"é", "日本語", "😀", "a😀b", " nbsp", "x\ry", "?", "-", "--- ", "...", "|", ">", "<<", "=", ".inf", ".nan", "2001-01-01",
	"12:30:45", "0777", "+1", "1_000", "s*", "a?c", "a.b", "a/b", "$x", "${HOME}", "$(id)", "\\n", "\x01", "\x7f", " ",
}

var plainStrings = []string{"a", "b", "c", "abc", "foo", "bar", "hello", "x y", "cat", "dog", "zed", "Apple", "apple", "s1", "s2", "k9"}

// Str returns a string: from the torture list, or random unicode.
func Str(r *rand.Rand, plain bool) string {
	if plain {
		return plainStrings[r.IntN(len(plainStrings))]
	}
	switch r.IntN(10) {
	case 0, 1, 2, 3, 4:
		return tortureStrings[r.IntN(len(tortureStrings))]
	case 5, 6:
		return plainStrings[r.IntN(len(plainStrings))]
	default:
		n := r.IntN(12)
		var sb strings.Builder
		for i := 0; i < n; i++ {
			sb.WriteRune(Rune(r))
		}
		return sb.String()
	}
}

// Rune returns a random valid non-NUL scalar value weighted to interesting ranges.
func Rune(r *rand.Rand) rune {
	switch r.IntN(10) {
	case 0:
		return rune(1 + r.IntN(31)) // control
	case 1, 2, 3, 4:
		return rune(0x20 + r.IntN(0x5f)) // printable ASCII
	case 5:
		return rune(0x80 + r.IntN(0x780))
	case 6:
		c := rune(0x800 + r.IntN(0xF000))
		if c >= 0xD800 && c <= 0xDFFF || c == 0xFFFE || c == 0xFFFF {
			return 'x'
		}
		return c
	case 7:
		return rune(0x10000 + r.IntN(0xFFFF)) // non-BMP
	default:
		return []rune{'\'', '"', '\\', '$', '`', '\n', ' ', '*', '?', '#', ':', '-', '&', '!', '|', '>', '%', '@', '{', '[', ',', '='}[r.IntN(22)]
	}
}

var interestingInts = []int64{0, 1, -1, 2, 3, 7, 10, 42, 100, -5, 255, 1000, 65536,
	1 << 31, -(1 << 31), 1<<53 - 1, 1 << 53, 1<<53 + 1, math.MaxInt64, math.MinInt64, math.MaxInt64 - 1, math.MinInt64 + 1}

func IntVal(r *rand.Rand, p Profile) *ref.V {
	if p.SmallInts {
		return ref.IntV(int64(r.IntN(21) - 5))
	}
	switch r.IntN(10) {
	case 0, 1, 2, 3, 4:
		return ref.IntV(int64(r.IntN(21) - 5))
	case 5, 6, 7:
		return ref.IntV(interestingInts[r.IntN(len(interestingInts))])
	case 8:
		return ref.IntV(r.Int64() >> uint(r.IntN(60)))
	default:
		if p.NoBigInt {
			return ref.IntV(int64(r.IntN(1000)))
		}
		b := new(big.Int).Lsh(big.NewInt(1), uint(63+r.IntN(40)))
		b.Add(b, big.NewInt(int64(r.IntN(1000))))
		if r.IntN(2) == 0 {
			b.Neg(b)
		}
		return ref.BigV(b)
	}
}

var interestingFloats = []float64{0.5, 1.5, -2.25, 3.0, 1e3, 1e-3, 0.1, 1e21, 1e-7, 123456.789, -0.0, 2.5e10, 1.7976931348623157e308, 5e-324, 0.30000000000000004}

func FloatVal(r *rand.Rand) *ref.V {
	switch r.IntN(4) {
	case 0, 1:
		return ref.FloatV(interestingFloats[r.IntN(len(interestingFloats))])
	case 2:
		return ref.FloatV(float64(r.IntN(2000)-1000) / 8)
	default:
		return ref.FloatV(r.NormFloat64() * math.Pow(10, float64(r.IntN(30)-10)))
	}
}

func Scalar(r *rand.Rand, p Profile) *ref.V {
	for {
		switch r.IntN(10) {
		case 0:
			if p.NoNull {
				continue
			}
			return ref.NullV()
		case 1:
			return ref.BoolV(r.IntN(2) == 0)
		case 2, 3, 4:
			return IntVal(r, p)
		case 5:
			if p.NoFloat {
				continue
			}
			return FloatVal(r)
		default:
			return ref.StrV(Str(r, p.PlainStr))
		}
	}
}

func (p Profile) key(r *rand.Rand) string {
	if !p.PlainStr && r.IntN(12) == 0 {
		s := Str(r, false)
		if s == "" && p.NoEmptyKey {
			return "e"
		}
		if s == "<<" {
			return "lt" // `<<` as a key is a merge key (property C13), not plain data
		}
		return s
	}
	return p.Keys[r.IntN(len(p.Keys))]
}

// Value generates a value of depth <= p.MaxDepth.
func Value(r *rand.Rand, p Profile) *ref.V {
	return value(r, p, 0)
}

func value(r *rand.Rand, p Profile, depth int) *ref.V {
	if depth >= p.MaxDepth || (depth > 0 && r.IntN(100) < p.ScalarBias) {
		return Scalar(r, p)
	}
	w := r.IntN(p.MaxWidth + 1)
	if depth == 0 && w == 0 && r.IntN(4) != 0 {
		w = 1 + r.IntN(p.MaxWidth)
	}
	if p.OnlyMaps || r.IntN(2) == 0 {
		m := &ref.V{K: ref.Map, M: []ref.KV{}}
		for i := 0; i < w; i++ {
			k := p.key(r)
			if _, dup := m.Get(k); dup {
				continue
			}
			m.M = append(m.M, ref.KV{K: k, V: value(r, p, depth+1)})
		}
		return m
	}
	s := &ref.V{K: ref.Seq, A: []*ref.V{}}
	for i := 0; i < w; i++ {
		if i > 0 && r.IntN(5) == 0 {
			s.A = append(s.A, s.A[r.IntN(len(s.A))].Copy()) // duplicates on purpose
		} else {
			s.A = append(s.A, value(r, p, depth+1))
		}
	}
	return s
}

// Pick returns one element.
func Pick[T any](r *rand.Rand, xs []T) T { return xs[r.IntN(len(xs))] }

// Exported views for generators living in other packages.
func TortureStrings() []string { return tortureStrings }
func PlainStrings() []string   { return plainStrings }
