package gen

// C09 — typed expression AST -> token list -> text, for the precedence / grouping / layout /
// rejection monitor (props/c09.go). Everything here is harness-side knowledge: the FROZEN
// operator table (spec as of the pinned commit, read off pkg/yqlib/operation.go), the token
// grammar of the documented lexer (which adjacent token pairs need a separator), the minimal-
// parenthesis rule of the property, and the generators. Nothing in this file imports yqlib.

import (
	"fmt"
	"hash/fnv"
	"math/rand/v2"
	"strings"
)

// ---------------------------------------------------------------------------------------
// Frozen operator table: {variable in operation.go, NumArgs, Precedence, CheckForPostTraverse}
// ---------------------------------------------------------------------------------------

type C09FrozenOp struct {
	Var          string
	NumArgs      uint
	Prec         uint
	PostTraverse bool
}

var C09Frozen = []C09FrozenOp{
	{"addAssignOpType", 2, 40, false},
	{"addOpType", 2, 42, false},
	{"allConditionOpType", 1, 50, false},
	{"allOpType", 0, 50, false},
	{"alternativeOpType", 2, 42, false},
	{"andOpType", 2, 20, false},
	{"anyConditionOpType", 1, 50, false},
	{"anyOpType", 0, 50, false},
	{"assignAliasOpType", 2, 40, false},
	{"assignAnchorOpType", 2, 40, false},
	{"assignAttributesOpType", 2, 40, false},
	{"assignCommentOpType", 2, 40, false},
	{"assignOpType", 2, 40, false},
	{"assignStyleOpType", 2, 40, false},
	{"assignTagOpType", 2, 40, false},
	{"assignVariableOpType", 2, 40, false},
	{"blockOpType", 2, 10, false},
	{"captureOpType", 1, 50, false},
	{"changeCaseOpType", 0, 50, false},
	{"collectObjectOpType", 0, 50, false},
	{"collectOpType", 1, 50, false},
	{"columnOpType", 0, 50, false},
	{"compareOpType", 2, 40, false},
	{"containsOpType", 1, 50, false},
	{"createMapOpType", 2, 15, false},
	{"decodeOpType", 0, 50, false},
	{"delPathsOpType", 1, 52, true},
	{"deleteChildOpType", 1, 40, false},
	{"divideOpType", 2, 42, false},
	{"emptyOpType", 0, 50, false},
	{"encodeOpType", 0, 50, false},
	{"envOpType", 0, 52, true},
	{"envsubstOpType", 0, 50, false},
	{"equalsOpType", 2, 40, false},
	{"errorOpType", 1, 50, false},
	{"evalOpType", 1, 52, true},
	{"explodeOpType", 1, 52, true},
	{"expressionOpType", 0, 50, false},
	{"filterOpType", 1, 52, true},
	{"flattenOpType", 0, 52, true},
	{"formatDateTimeOpType", 1, 50, false},
	{"fromEntriesOpType", 0, 50, false},
	{"fromUnixOpType", 0, 50, false},
	{"getAliasOpType", 0, 50, false},
	{"getAnchorOpType", 0, 50, false},
	{"getCommentOpType", 0, 50, false},
	{"getDocumentIndexOpType", 0, 50, false},
	{"getFileIndexOpType", 0, 50, false},
	{"getFilenameOpType", 0, 50, false},
	{"getKeyOpType", 0, 50, false},
	{"getKindOpType", 0, 50, false},
	{"getParentOpType", 0, 50, false},
	{"getPathOpType", 0, 52, true},
	{"getStyleOpType", 0, 50, false},
	{"getTagOpType", 0, 50, false},
	{"getVariableOpType", 0, 55, false},
	{"groupByOpType", 1, 52, true},
	{"hasOpType", 1, 50, false},
	{"isKeyOpType", 0, 50, false},
	{"joinStringOpType", 1, 50, false},
	{"keysOpType", 0, 52, true},
	{"lengthOpType", 0, 50, false},
	{"lineOpType", 0, 50, false},
	{"loadOpType", 1, 52, true},
	{"loadStringOpType", 1, 52, false},
	{"mapOpType", 1, 52, true},
	{"mapValuesOpType", 1, 52, true},
	{"matchOpType", 1, 50, false},
	{"maxOpType", 0, 50, false},
	{"minOpType", 0, 50, false},
	{"moduloOpType", 2, 42, false},
	{"multiplyAssignOpType", 2, 42, false},
	{"multiplyOpType", 2, 42, false},
	{"notEqualsOpType", 2, 40, false},
	{"notOpType", 0, 50, false},
	{"nowOpType", 0, 50, false},
	{"omitOpType", 1, 52, true},
	{"orOpType", 2, 20, false},
	{"pickOpType", 1, 52, true},
	{"pipeOpType", 2, 30, false},
	{"pivotOpType", 0, 52, true},
	{"recursiveDescentOpType", 0, 50, false},
	{"reduceOpType", 2, 35, false},
	{"referenceOpType", 0, 50, false},
	{"reverseOpType", 0, 52, true},
	{"selectOpType", 1, 52, true},
	{"selfReferenceOpType", 0, 55, false},
	{"setPathOpType", 1, 50, false},
	{"shortPipeOpType", 2, 45, false},
	{"shuffleOpType", 0, 52, true},
	{"sortByOpType", 1, 52, true},
	{"sortKeysOpType", 1, 52, true},
	{"sortOpType", 0, 52, true},
	{"splitDocumentOpType", 0, 52, true},
	{"splitStringOpType", 1, 52, true},
	{"stringInterpolationOpType", 0, 50, false},
	{"subStringOpType", 1, 50, false},
	{"subtractAssignOpType", 2, 40, false},
	{"subtractOpType", 2, 42, false},
	{"testOpType", 1, 50, false},
	{"toEntriesOpType", 0, 52, true},
	{"toNumberOpType", 0, 50, false},
	{"toStringOpType", 0, 50, false},
	{"toUnixOpType", 0, 50, false},
	{"traverseArrayOpType", 2, 50, false},
	{"traversePathOpType", 0, 55, false},
	{"trimOpType", 0, 50, false},
	{"tzOpType", 1, 50, false},
	{"unionOpType", 2, 10, false},
	{"uniqueByOpType", 1, 52, true},
	{"uniqueOpType", 0, 52, true},
	{"valueOpType", 0, 50, false},
	{"withDtFormatOpType", 1, 50, false},
	{"withEntriesOpType", 1, 50, false},
	{"withOpType", 1, 52, true},
}

var c09PrecByVar = func() map[string]int {
	m := map[string]int{}
	for _, o := range C09Frozen {
		m[o.Var] = int(o.Prec)
	}
	return m
}()

func c09Prec(v string) int {
	p, ok := c09PrecByVar[v]
	if !ok {
		panic("c09: no frozen precedence for " + v)
	}
	return p
}

// ---------------------------------------------------------------------------------------
// Tokens and the separator rule
// ---------------------------------------------------------------------------------------

type C09TokKind uint8

const (
	C09Other C09TokKind = iota
	C09OpenParen
	C09CloseParen
	C09OpenCollect
	C09CloseCollect
	C09OpenObj
	C09CloseObj
	C09TravOpen // ".["
	C09BinTok   // infix operator
	C09Path     // .a  .a?  ."k"
	C09Self     // .
	C09Recurse  // ..
	C09Var      // $x
	C09Num
	C09Word // keyword, function name, true/false/null
	C09Str
	C09Punct // , ; :
)

type C09Tok struct {
	Text  string
	Kind  C09TokKind
	Tight bool // canonical layout puts no space before this token
}

func (t C09Tok) IsOpener() bool {
	return t.Kind == C09OpenParen || t.Kind == C09OpenCollect || t.Kind == C09OpenObj || t.Kind == C09TravOpen
}
func (t C09Tok) IsCloser() bool {
	return t.Kind == C09CloseParen || t.Kind == C09CloseCollect || t.Kind == C09CloseObj
}

// Greedy reports whether the lexer rule of this token keeps eating every character that is not
// one of the path terminators (so a TAB or '#' or an operator character glued to it becomes part
// of the key).
func (t C09Tok) Greedy() bool {
	if t.Kind == C09Self {
		return true
	}
	return t.Kind == C09Path && !strings.HasPrefix(t.Text, `."`)
}

// the characters that end yq's PathElement token: [^ ;\}\{\:\[\],\|\.\[\(\)=\n!]
func c09PathTerminator(c byte) bool {
	return strings.IndexByte(" ;}{:[],|.()=\n!", c) >= 0
}

func c09WordByte(c byte) bool {
	return c == '_' || (c >= '0' && c <= '9') || (c >= 'a' && c <= 'z') || (c >= 'A' && c <= 'Z')
}

// C09SepRequired says whether tokens a and b must be separated by white space for the lexer rule
// table to cut the text into exactly these two tokens. It is deliberately conservative: where the
// outcome of gluing is not evident from the documented token grammar, a separator is required
// (so no layout variant is generated there).
func C09SepRequired(a, b C09Tok) bool {
	la, fb := a.Text[len(a.Text)-1], b.Text[0]
	if c09WordByte(la) && c09WordByte(fb) {
		return true
	}
	switch a.Kind {
	case C09Path:
		if a.Greedy() {
			return !c09PathTerminator(fb)
		}
		return false
	case C09Self:
		return !c09PathTerminator(fb) || fb == '.' || fb == '['
	case C09Recurse:
		return fb == '.'
	case C09Var: // \$[a-zA-Z_\-0-9]+
		return c09WordByte(fb) || fb == '-'
	case C09Num:
		return c09WordByte(fb) || fb == '.'
	case C09BinTok:
		switch {
		case a.Text == "-":
			return fb == '-' || (fb >= '0' && fb <= '9')
		case a.Text[0] == '*': // \*=?[\+|\?cdn]*
			return strings.IndexByte("+|?cdn=", fb) >= 0
		case a.Text == "=" || a.Text == "|=": // =[c]*
			return fb == 'c' || fb == '='
		case a.Text == "/":
			return fb == '/'
		case a.Text == "<" || a.Text == ">" || a.Text == "|" || a.Text == "+":
			return fb == '='
		}
	}
	return false
}

// C09Canonical renders the token list in the conventional layout: one space around infix
// operators, none inside brackets, none before , ; : and postfix suffixes.
func C09Canonical(toks []C09Tok) string {
	return C09Render(toks, C09CanonicalSeps(toks))
}

func C09CanonicalSeps(toks []C09Tok) []string {
	seps := make([]string, len(toks)+1)
	for i := 1; i < len(toks); i++ {
		a, b := toks[i-1], toks[i]
		s := " "
		if b.Tight || a.IsOpener() {
			s = ""
		}
		if s == "" && C09SepRequired(a, b) {
			s = " "
		}
		seps[i] = s
	}
	return seps
}

// C09Render joins tokens with seps: seps[0] leads, seps[i] sits before token i, seps[n] trails.
func C09Render(toks []C09Tok, seps []string) string {
	var sb strings.Builder
	for i, t := range toks {
		sb.WriteString(seps[i])
		sb.WriteString(t.Text)
	}
	sb.WriteString(seps[len(toks)])
	return sb.String()
}

var c09Comments = []string{"# see C:\\data\\", "# x \\", "#\\", "# c", "#", "# ) ] }", "# ( [ {", `# "q`, "# | .a + 1", "## x # y", "# and or", "#\t tab", "# .a = 1 | del(.b)"}

// C09Layouts: the kinds of layout variants.
var C09Layouts = []string{"dense", "spacey", "newlines", "tabs", "comments", "mixed"}

// C09Layout builds the separators of one layout variant of kind k.
func C09Layout(r *rand.Rand, toks []C09Tok, k string) []string {
	seps := make([]string, len(toks)+1)
	ws := func(kind string, afterGreedy bool) string {
		pick := func(xs ...string) string { return xs[r.IntN(len(xs))] }
		switch kind {
		case "spacey":
			return pick(" ", "  ", "   ")
		case "newlines":
			return pick("\n", " \n", "\n  ", "\n\n")
		case "tabs":
			if afterGreedy {
				return pick(" \t", "\n\t", " \t\t ")
			}
			return pick("\t", "\t\t", " \t", "\t ")
		case "comments":
			c := c09Comments[r.IntN(len(c09Comments))]
			return pick(" ", "\n", "  ") + c + "\n" + pick("", " ", "\t")
		}
		return " "
	}
	for i := 0; i <= len(toks); i++ {
		kind := k
		if k == "mixed" {
			kind = []string{"dense", "spacey", "newlines", "tabs", "comments"}[r.IntN(5)]
		}
		if i == 0 || i == len(toks) {
			// leading / trailing layout
			if kind != "dense" && r.IntN(3) == 0 {
				g := i == len(toks) && len(toks) > 0 && toks[len(toks)-1].Greedy()
				seps[i] = ws(kind, g)
				if i == len(toks) && kind == "comments" && r.IntN(2) == 0 {
					seps[i] = strings.TrimRight(seps[i], "\n\t ") // comment up to end of text
					if g && seps[i] == "" {
						seps[i] = " "
					}
				}
			}
			continue
		}
		a, b := toks[i-1], toks[i]
		req := C09SepRequired(a, b)
		switch {
		case kind == "dense":
			if req {
				seps[i] = " "
			}
		case req || r.IntN(4) != 0:
			seps[i] = ws(kind, a.Greedy())
		}
	}
	return seps
}

// C09TabAfterGreedy builds the canonical layout with a TAB glued directly behind n of the
// greedy tokens (path elements and the bare `.`). It returns the separators, the same separators
// with those tabs turned into spaces (the "repaired" spelling) and how many tabs were placed.
func C09TabAfterGreedy(r *rand.Rand, toks []C09Tok) (tabbed, repaired []string, n int) {
	tabbed = C09CanonicalSeps(toks)
	repaired = append([]string{}, tabbed...)
	var sites []int
	for i := 1; i <= len(toks); i++ {
		if toks[i-1].Greedy() {
			sites = append(sites, i)
		}
	}
	if len(sites) == 0 {
		return tabbed, repaired, 0
	}
	r.Shuffle(len(sites), func(i, j int) { sites[i], sites[j] = sites[j], sites[i] })
	k := 1 + r.IntN(2)
	if k > len(sites) {
		k = len(sites)
	}
	for _, i := range sites[:k] {
		rest := strings.TrimLeft(tabbed[i], " ")
		tabbed[i] = "\t" + rest
		repaired[i] = " " + rest
	}
	return tabbed, repaired, k
}

// ---------------------------------------------------------------------------------------
// Operators, functions, AST
// ---------------------------------------------------------------------------------------

type C09Op struct {
	Name  string // name used in tags
	Tok   string
	Var   string // variable in operation.go that carries its precedence
	Assoc bool   // chains of this one operator may be grouped either way (checked semantically)
	Free  bool   // takes part in the pairwise matrix
	Class string // arith | cmp | eq | bool | alt | pipe | union | assign | update | merge | special
}

func (o *C09Op) Prec() int { return c09Prec(o.Var) }

// The binary operators of the pairwise matrix. Associativity: `|` and `,` are associative by
// construction of the stream semantics; `and`, `or`, `//` were checked on 2187 operand triples
// (single, multiple and empty streams, truthy/falsy/null) with both groupings giving the same
// output. `+` and `*` are NOT associative in yq ([1] + 2 + 3, float rounding) and `- / %`,
// comparisons and assignments are not associative at all.
var C09Ops = []*C09Op{
	{"PIPE", "|", "pipeOpType", true, true, "pipe"},
	{"UNION", ",", "unionOpType", true, true, "union"},
	{"ALT", "//", "alternativeOpType", true, true, "alt"},
	{"OR", "or", "orOpType", true, true, "bool"},
	{"AND", "and", "andOpType", true, true, "bool"},
	{"EQ", "==", "equalsOpType", false, true, "eq"},
	{"NE", "!=", "notEqualsOpType", false, true, "eq"},
	{"LT", "<", "compareOpType", false, true, "cmp"},
	{"LE", "<=", "compareOpType", false, true, "cmp"},
	{"GT", ">", "compareOpType", false, true, "cmp"},
	{"GE", ">=", "compareOpType", false, true, "cmp"},
	{"ADD", "+", "addOpType", false, true, "arith"},
	{"SUB", "-", "subtractOpType", false, true, "arith"},
	{"MUL", "*", "multiplyOpType", false, true, "arith"},
	{"DIV", "/", "divideOpType", false, true, "arith"},
	{"MOD", "%", "moduloOpType", false, true, "arith"},
	{"ASSIGN", "=", "assignOpType", false, true, "assign"},
	{"UPDATE", "|=", "assignOpType", false, true, "update"},
	{"ADDA", "+=", "addAssignOpType", false, true, "assign"},
	{"SUBA", "-=", "subtractAssignOpType", false, true, "assign"},
	{"MULA", "*=", "multiplyAssignOpType", false, true, "merge"},
}

var (
	c09OpAs     = &C09Op{"AS", "as", "assignVariableOpType", false, false, "special"}
	c09OpBind   = &C09Op{"BIND", "|", "pipeOpType", false, false, "special"}
	c09OpReduce = &C09Op{"REDUCE", "ireduce", "reduceOpType", false, false, "special"}
	c09OpBlock  = &C09Op{"BLOCK", ";", "blockOpType", false, false, "special"}
	c09OpCMap   = &C09Op{"CMAP", ":", "createMapOpType", false, false, "special"}
)

func C09OpByName(n string) *C09Op {
	for _, o := range C09Ops {
		if o.Name == n {
			return o
		}
	}
	return nil
}

type C09Fn struct {
	Name  string
	Var   string
	NArgs int
	Fresh bool // creates a new result list (matters only for the union-aliasing exclusion)
}

func (f *C09Fn) Prec() int { return c09Prec(f.Var) }

var c09Fns = map[string]*C09Fn{}

func init() {
	for _, f := range []*C09Fn{
		{"select", "selectOpType", 1, true}, {"map", "mapOpType", 1, true}, {"map_values", "mapValuesOpType", 1, false},
		{"filter", "filterOpType", 1, false}, {"has", "hasOpType", 1, true}, {"contains", "containsOpType", 1, true},
		{"join", "joinStringOpType", 1, true}, {"split", "splitStringOpType", 1, true}, {"test", "testOpType", 1, true},
		{"sort_by", "sortByOpType", 1, true}, {"group_by", "groupByOpType", 1, true}, {"unique_by", "uniqueByOpType", 1, true},
		{"any_c", "anyConditionOpType", 1, true}, {"all_c", "allConditionOpType", 1, true},
		{"with_entries", "withEntriesOpType", 1, false}, {"del", "deleteChildOpType", 1, false},
		{"sort_keys", "sortKeysOpType", 1, false}, {"pick", "pickOpType", 1, false}, {"collect", "collectOpType", 1, false},
		{"with", "withOpType", 2, false}, {"sub", "subStringOpType", 2, true},
	} {
		c09Fns[f.Name] = f
	}
}

type C09Kind uint8

const (
	C09Atom    C09Kind = iota // Toks: literal, path chain, variable, nullary function, [] {}
	C09Bin                    // L Op R
	C09Call                   // Fn ( L )      (two-argument functions: L is a BLOCK)
	C09Collect                // [ L ]
	C09Object                 // { L }         (L: CMAP entry or UNION of entries)
	C09Postfix                // L Toks...     (L bracketed per rule, Toks = .k / [n] suffixes)
	C09Group                  // ( L )         mandatory parentheses (ireduce block)
)

type C09Expr struct {
	Kind   C09Kind
	Op     *C09Op
	Fn     *C09Fn
	L, R   *C09Expr
	Toks   []C09Tok
	Low    bool // atom whose own operation type has a precedence number below infix operators (min, max)
	NoWrap bool // never gets redundant parentheses (variable of `as`, object keys, blocks)
	Alias  bool // atom that may hand back an existing result list (., $x, flatten, {})
	id     int
}

func (e *C09Expr) prec() int {
	switch e.Kind {
	case C09Bin:
		return e.Op.Prec()
	case C09Call:
		return e.Fn.Prec()
	}
	return 1000
}

func c09SameOp(a, b *C09Op) bool { return a.Name == b.Name && a.Tok == b.Tok }

// c09NeedParens is the property's minimal-parenthesis rule, evaluated on the FROZEN table: a
// child is bracketed iff it binds looser than its parent, or equally with a different operator,
// or equally with the same non-associative operator. Prefix functions count as operators with
// their own precedence (del is 40). Documented exception: the body of `e as $x | body` extends
// to the right as far as possible, so a pipe chain in body position is not bracketed.
func c09NeedParens(child *C09Expr, parent *C09Op, right bool) bool {
	switch child.Kind {
	case C09Call:
		return child.prec() <= parent.Prec()
	case C09Bin:
	default:
		return false
	}
	cp, pp := child.prec(), parent.Prec()
	if cp != pp {
		return cp < pp
	}
	if parent.Name == "BIND" && right && (child.Op.Name == "PIPE" || child.Op.Name == "BIND") {
		return false
	}
	if c09SameOp(child.Op, parent) && parent.Assoc {
		return false
	}
	return true
}

// c09TieRightOK: the right operand is an application of a binary operator of the SAME level as its parent
// (arithmetic next to arithmetic, comparison next to comparison ...): written without brackets the pair
// groups to the right, `a - b - c` == `a - (b - c)`, `a * b - c` == `a * (b - c)` (operators of one level are
// taken off the stack only by an operator that binds strictly looser). Binding forms keep their own rules.
func c09TieRightOK(child *C09Expr, parent *C09Op) bool {
	if child.Kind != C09Bin || child.NoWrap || child.prec() != parent.Prec() {
		return false
	}
	for _, o := range []*C09Op{child.Op, parent} {
		switch o.Name {
		case "BIND", "AS", "CMAP", "REDUCE", "BLOCK", "PIPE", "UNION":
			return false
		}
	}
	return true
}

// ---------------------------------------------------------------------------------------
// Printing
// ---------------------------------------------------------------------------------------

// C09Site is a place where a rejection mutant can be derived.
type C09Site struct {
	Kind     string // "bin" | "call"
	Name     string
	OpIdx    int  // token index of the operator / function name
	LF, LT   int  // span of the left operand (bin) — including its brackets
	RF, RT   int  // span of the right operand (bin) / of the "( args )" group (call)
	Adjacent bool // call is the base of a postfix chain (an operand-like token follows the group)
}

type C09Mode struct {
	Full     bool             // fully parenthesised spelling
	TieRight bool             // a RIGHT operand of equal precedence is left unbracketed: equal levels group to the right (frozen tie rule)
	WrapLow  bool             // bracket min/max atoms that sit under an operator of precedence >= 40
	Extra    map[int]int      // node id -> redundant parenthesis layers
	Special  map[*C09Expr]int // 1 = operator printed AFTER its operands, 2 = reference spelling of the same
}

type C09Printed struct {
	Toks  []C09Tok
	Sites []C09Site
	Ties  int
}

type c09Printer struct {
	ties   int
	follow int // precedence of the operator that follows the node being printed at the same bracket level (0: none)
	m      C09Mode
	toks   []C09Tok
	sites  []C09Site
	n      int
}

func C09Print(e *C09Expr, m C09Mode) C09Printed {
	p := &c09Printer{m: m}
	p.node(e, m.Full && e.Kind != C09Atom, nil)
	return C09Printed{p.toks, p.sites, p.ties}
}

func (p *c09Printer) tok(text string, k C09TokKind, tight bool) {
	p.toks = append(p.toks, C09Tok{text, k, tight})
}

// node prints e, bracketed `need` times plus its redundant layers; returns the token span.
func (p *c09Printer) node(e *C09Expr, need bool, parent *C09Op) (from, to int) {
	layers := 0
	if need {
		layers = 1
	}
	if !e.NoWrap {
		layers += p.m.Extra[e.id]
		if p.m.Full && layers == 0 {
			switch {
			case e.Kind != C09Atom && e.Kind != C09Group:
				layers = 1
			case e.Kind == C09Atom && (e.Low || (e.id%4 == 1 && parent != nil)):
				layers = 1
			}
		}
		if p.m.WrapLow && layers == 0 && e.Kind == C09Atom && e.Low && parent != nil && parent.Prec() >= 40 {
			layers = 1
		}
	}
	from = len(p.toks)
	for i := 0; i < layers; i++ {
		p.tok("(", C09OpenParen, false)
	}
	saveFollow := p.follow
	if layers > 0 || e.Kind != C09Bin {
		p.follow = 0 // brackets of any kind end the level
	}
	p.bare(e)
	p.follow = saveFollow
	for i := 0; i < layers; i++ {
		p.tok(")", C09CloseParen, true)
	}
	return from, len(p.toks)
}

func (p *c09Printer) opTok(o *C09Op) int {
	k := C09BinTok
	tight := false
	switch o.Name {
	case "AS", "REDUCE", "OR", "AND":
		k = C09Word
	case "UNION", "BLOCK", "CMAP":
		k, tight = C09Punct, true
	}
	p.tok(o.Tok, k, tight)
	return len(p.toks) - 1
}

func (p *c09Printer) bare(e *C09Expr) {
	switch e.Kind {
	case C09Atom:
		p.toks = append(p.toks, e.Toks...)
	case C09Bin:
		switch p.m.Special[e] {
		case 1: // ( (L) (R) op )
			p.tok("(", C09OpenParen, false)
			p.tok("(", C09OpenParen, false)
			p.node(e.L, false, nil)
			p.tok(")", C09CloseParen, true)
			p.tok("(", C09OpenParen, false)
			p.node(e.R, false, nil)
			p.tok(")", C09CloseParen, true)
			p.opTok(e.Op)
			p.tok(")", C09CloseParen, true)
			return
		case 2: // ( (L) op (R) )
			p.tok("(", C09OpenParen, false)
			p.tok("(", C09OpenParen, false)
			p.node(e.L, false, nil)
			p.tok(")", C09CloseParen, true)
			p.opTok(e.Op)
			p.tok("(", C09OpenParen, false)
			p.node(e.R, false, nil)
			p.tok(")", C09CloseParen, true)
			p.tok(")", C09CloseParen, true)
			return
		}
		outerFollow := p.follow
		p.follow = e.Op.Prec()
		lf, lt := p.node(e.L, c09NeedParens(e.L, e.Op, false), e.Op)
		p.follow = outerFollow
		oi := p.opTok(e.Op)
		needR := c09NeedParens(e.R, e.Op, true)
		// (only when no operator of this level or a tighter one follows the pair at the same bracket level: it would
		// join the right-hand group)
		if needR && p.m.TieRight && outerFollow < e.Op.Prec() && c09TieRightOK(e.R, e.Op) {
			needR = false
			p.ties++
		}
		rf, rt := p.node(e.R, needR, e.Op)
		p.sites = append(p.sites, C09Site{Kind: "bin", Name: e.Op.Name, OpIdx: oi, LF: lf, LT: lt, RF: rf, RT: rt})
	case C09Call:
		switch p.m.Special[e] {
		case 1: // ( (arg) f )
			p.tok("(", C09OpenParen, false)
			p.tok("(", C09OpenParen, false)
			p.node(e.L, false, nil)
			p.tok(")", C09CloseParen, true)
			p.tok(e.Fn.Name, C09Word, false)
			p.tok(")", C09CloseParen, true)
			return
		case 2: // ( f((arg)) )
			p.tok("(", C09OpenParen, false)
			p.tok(e.Fn.Name, C09Word, false)
			p.tok("(", C09OpenParen, true)
			p.tok("(", C09OpenParen, false)
			p.node(e.L, false, nil)
			p.tok(")", C09CloseParen, true)
			p.tok(")", C09CloseParen, true)
			p.tok(")", C09CloseParen, true)
			return
		}
		p.tok(e.Fn.Name, C09Word, false)
		oi := len(p.toks) - 1
		p.tok("(", C09OpenParen, true)
		p.node(e.L, false, nil)
		p.tok(")", C09CloseParen, true)
		p.sites = append(p.sites, C09Site{Kind: "call", Name: e.Fn.Name, OpIdx: oi, RF: oi + 1, RT: len(p.toks)})
	case C09Collect:
		p.tok("[", C09OpenCollect, false)
		p.node(e.L, false, nil)
		p.tok("]", C09CloseCollect, true)
	case C09Object:
		p.tok("{", C09OpenObj, false)
		p.node(e.L, false, nil)
		p.tok("}", C09CloseObj, true)
	case C09Group:
		p.tok("(", C09OpenParen, false)
		p.node(e.L, false, nil)
		p.tok(")", C09CloseParen, true)
	case C09Postfix:
		need := false
		sp := 45 // SHORT_PIPE
		if e.Toks[0].Kind == C09OpenCollect {
			sp = 50 // TRAVERSE_ARRAY
		}
		switch e.L.Kind {
		case C09Bin:
			need = true
		case C09Call:
			need = e.L.prec() <= sp
		}
		ns := len(p.sites)
		p.node(e.L, need, nil)
		if e.L.Kind == C09Call && !need && p.m.Extra[e.L.id] == 0 && !p.m.Full {
			for i := ns; i < len(p.sites); i++ {
				if p.sites[i].Kind == "call" && p.sites[i].RT == len(p.toks) {
					p.sites[i].Adjacent = true
				}
			}
		}
		p.toks = append(p.toks, e.Toks...)
	}
}

// ---------------------------------------------------------------------------------------
// AST utilities
// ---------------------------------------------------------------------------------------

func (e *C09Expr) Walk(f func(n, parent *C09Expr, right bool)) { e.walk(nil, false, f) }
func (e *C09Expr) walk(parent *C09Expr, right bool, f func(n, parent *C09Expr, right bool)) {
	f(e, parent, right)
	if e.L != nil {
		e.L.walk(e, false, f)
	}
	if e.R != nil {
		e.R.walk(e, true, f)
	}
}

// Number assigns node ids (pre-order) and returns the node count.
func (e *C09Expr) Number() int {
	n := 0
	e.Walk(func(x, _ *C09Expr, _ bool) { x.id = n; n++ })
	return n
}

func (e *C09Expr) ID() int { return e.id }

// Skeleton is the AST shape with literals collapsed; Sig hashes it.
func (e *C09Expr) Skeleton() string {
	switch e.Kind {
	case C09Atom:
		switch e.Toks[0].Kind {
		case C09Path, C09Self, C09TravOpen, C09Recurse:
			return "p"
		case C09Var:
			return "v"
		case C09Word:
			return e.Toks[0].Text
		}
		return "l"
	case C09Bin:
		name := e.Op.Name
		if name == "MUL" {
			name += e.Op.Tok[1:]
		}
		return "(" + e.L.Skeleton() + " " + name + " " + e.R.Skeleton() + ")"
	case C09Call:
		return e.Fn.Name + "(" + e.L.Skeleton() + ")"
	case C09Collect:
		return "[" + e.L.Skeleton() + "]"
	case C09Object:
		return "{" + e.L.Skeleton() + "}"
	case C09Group:
		return "<" + e.L.Skeleton() + ">"
	}
	return e.L.Skeleton() + ".sfx"
}

func (e *C09Expr) Sig() string {
	h := fnv.New64a()
	h.Write([]byte(e.Skeleton()))
	return fmt.Sprintf("%016x", h.Sum64())
}

// Stats: operator pairs, distinct precedences, depth, features.
type C09Stats struct {
	Pairs    []string // "pair:ADD<PIPE:L"
	Precs    map[int]bool
	Ops      int
	Depth    int
	Fns      []string
	LowSites int // min/max atoms directly under an operator of precedence >= 40
	Postfix  int
	Binds    int
}

func (e *C09Expr) Stats() C09Stats {
	st := C09Stats{Precs: map[int]bool{}}
	var depth func(x *C09Expr) int
	depth = func(x *C09Expr) int {
		d := 0
		if x.L != nil {
			d = depth(x.L)
		}
		if x.R != nil {
			if r := depth(x.R); r > d {
				d = r
			}
		}
		return d + 1
	}
	st.Depth = depth(e)
	e.Walk(func(n, parent *C09Expr, right bool) {
		switch n.Kind {
		case C09Bin:
			st.Ops++
			st.Precs[n.prec()] = true
			if n.Op.Name == "BIND" {
				st.Binds++
			}
			if parent != nil && parent.Kind == C09Bin && n.Op.Free && parent.Op.Free {
				side := "L"
				if right {
					side = "R"
				}
				st.Pairs = append(st.Pairs, "pair:"+n.Op.Name+"<"+parent.Op.Name+":"+side)
			}
		case C09Call:
			st.Ops++
			st.Precs[n.prec()] = true
			st.Fns = append(st.Fns, n.Fn.Name)
		case C09Postfix:
			st.Postfix++
		case C09Atom:
			if n.Low && parent != nil && parent.Kind == C09Bin && parent.Op.Prec() >= 40 {
				st.LowSites++
			}
		}
	})
	return st
}

// ---------------------------------------------------------------------------------------
// Generator (type-biased so that most expressions evaluate without a type error on the
// documents of C09Docs; a fixed share is "wild" so that every operator meets every operand)
// ---------------------------------------------------------------------------------------

type c09Sort uint8

const (
	c09N c09Sort = iota // number
	c09B                // bool
	c09S                // string
	c09Q                // sequence of ints
	c09M                // map
	c09Any
)

type c09Ctx uint8

const (
	c09Doc  c09Ctx = iota // the document root of C09Docs
	c09CNum               // . is a number
	c09CStr
	c09CBool
	c09CSeq // . is a sequence of ints
	c09CMap // . is {b: int, c: int}
	c09CElt // . is {id: int, nm: str}
)

func c09CtxOf(s c09Sort) c09Ctx {
	switch s {
	case c09N:
		return c09CNum
	case c09B:
		return c09CBool
	case c09S:
		return c09CStr
	case c09Q:
		return c09CSeq
	case c09M:
		return c09CMap
	}
	return c09CNum
}

type c09Var struct {
	name string
	s    c09Sort
}

type c09Gen struct {
	r    *rand.Rand
	vars []c09Var
	nv   int
}

func c09P(text string) C09Tok { return C09Tok{Text: text, Kind: C09Path} }

// c09Chain turns ".x[0].id" style text into the token sequence of a postfix chain.
func c09Chain(s string) []C09Tok {
	var out []C09Tok
	i := 0
	for i < len(s) {
		switch {
		case strings.HasPrefix(s[i:], ".["):
			out = append(out, C09Tok{".[", C09TravOpen, len(out) > 0})
			i += 2
		case s[i] == '[':
			out = append(out, C09Tok{"[", C09OpenCollect, true})
			i++
		case s[i] == ']':
			out = append(out, C09Tok{"]", C09CloseCollect, true})
			i++
		case s[i] == '.':
			j := i + 1
			if j < len(s) && s[j] == '"' {
				j = strings.IndexByte(s[j+1:], '"') + j + 2
			} else {
				for j < len(s) && s[j] != '.' && s[j] != '[' && s[j] != ']' {
					j++
				}
			}
			if j == i+1 {
				out = append(out, C09Tok{".", C09Self, len(out) > 0})
			} else {
				out = append(out, C09Tok{s[i:j], C09Path, len(out) > 0})
			}
			i = j
		case s[i] == '$':
			j := i + 1
			for j < len(s) && c09WordByte(s[j]) {
				j++
			}
			out = append(out, C09Tok{s[i:j], C09Var, len(out) > 0})
			i = j
		default: // number inside [ ]
			j := i
			for j < len(s) && s[j] != ']' {
				j++
			}
			out = append(out, C09Tok{s[i:j], C09Num, true})
			i = j
		}
	}
	return out
}

// c09Suffix hangs a postfix chain behind base; a chain behind a chain is ONE chain (a bracket
// inside a postfix chain re-hangs it, which is outside this monitor).
func c09Suffix(base *C09Expr, chain string) *C09Expr {
	toks := c09Chain(chain)
	toks[0].Tight = true
	if base.Kind == C09Postfix {
		base.Toks = append(base.Toks, toks...)
		return base
	}
	if base.Kind == C09Atom {
		k := base.Toks[0].Kind
		if !base.Low && (k == C09Path || k == C09Self || k == C09TravOpen || k == C09Var) {
			base.Toks = append(base.Toks, toks...)
			return base
		}
		base = &C09Expr{Kind: C09Group, L: base}
	}
	return &C09Expr{Kind: C09Postfix, L: base, Toks: toks}
}

func c09PathAtom(s string) *C09Expr {
	e := &C09Expr{Kind: C09Atom, Toks: c09Chain(s)}
	if s == "." {
		e.Alias = true
	}
	return e
}

func c09Lit(text string) *C09Expr {
	k := C09Word
	switch {
	case text[0] == '"':
		k = C09Str
	case text[0] == '-' || (text[0] >= '0' && text[0] <= '9'):
		k = C09Num
	}
	return &C09Expr{Kind: C09Atom, Toks: []C09Tok{{text, k, false}}}
}

func c09Word(text string) *C09Expr {
	e := &C09Expr{Kind: C09Atom, Toks: []C09Tok{{text, C09Word, false}}}
	switch text {
	case "min", "max":
		e.Low = true
	case "flatten", "flatten(1)":
		e.Alias = true
	}
	return e
}

func c09Empty(open string) *C09Expr {
	if open == "[" {
		return &C09Expr{Kind: C09Atom, Toks: []C09Tok{{"[", C09OpenCollect, false}, {"]", C09CloseCollect, true}}}
	}
	return &C09Expr{Kind: C09Atom, Alias: true, Toks: []C09Tok{{"{", C09OpenObj, false}, {"}", C09CloseObj, true}}}
}

func c09BinE(op *C09Op, l, r *C09Expr) *C09Expr { return &C09Expr{Kind: C09Bin, Op: op, L: l, R: r} }

func (g *c09Gen) pick(xs ...string) string { return xs[g.r.IntN(len(xs))] }

var c09NumLits = []string{"0", "1", "2", "3", "7", "10", "-1", "1.5", "1e3", "2.5e1", "1e-2"}
var c09StrLits = []string{`"a"`, `"b c"`, `"#x"`, `"p)q"`, `""`, `"a|b"`, `"x,y"`}

func (g *c09Gen) atom(s c09Sort, c c09Ctx) *C09Expr {
	r := g.r
	if s == c09Any {
		s = c09Sort(r.IntN(5))
	}
	// a bound variable of the right sort
	if len(g.vars) > 0 && r.IntN(3) == 0 {
		var cand []c09Var
		for _, v := range g.vars {
			if v.s == s {
				cand = append(cand, v)
			}
		}
		if len(cand) > 0 {
			v := cand[r.IntN(len(cand))]
			e := &C09Expr{Kind: C09Atom, Alias: true, Toks: []C09Tok{{"$" + v.name, C09Var, false}}}
			return e
		}
	}
	lit := r.IntN(3) == 0
	switch s {
	case c09N:
		if !lit {
			switch c {
			case c09Doc:
				return c09PathAtom(g.pick(".n", ".k", ".a.b", ".a.c", ".x[0]", ".x[1]", ".y[0]", ".m[0].id", ".x[]", `."n"`, ".a?.b", ".x.[1]"))
			case c09CNum:
				return c09PathAtom(".")
			case c09CSeq:
				if r.IntN(4) == 0 {
					return c09Word(g.pick("min", "max", "length"))
				}
				return c09PathAtom(g.pick(".[0]", ".[1]", ".[-1]", ".[]"))
			case c09CMap:
				return c09PathAtom(g.pick(".b", ".c"))
			case c09CElt:
				return c09PathAtom(".id")
			case c09CStr:
				return c09Word("length")
			}
		}
		return c09Lit(c09NumLits[r.IntN(len(c09NumLits))])
	case c09B:
		if !lit {
			switch c {
			case c09Doc:
				return c09PathAtom(g.pick(".t", ".f"))
			case c09CBool:
				return c09PathAtom(".")
			}
		}
		return c09Lit(g.pick("true", "false"))
	case c09S:
		if !lit {
			switch c {
			case c09Doc:
				return c09PathAtom(g.pick(".s", ".w", ".m[0].nm"))
			case c09CStr:
				return c09PathAtom(".")
			case c09CElt:
				return c09PathAtom(".nm")
			}
		}
		return c09Lit(c09StrLits[r.IntN(len(c09StrLits))])
	case c09Q:
		switch c {
		case c09Doc:
			return c09PathAtom(g.pick(".x", ".y"))
		case c09CSeq:
			return c09PathAtom(".")
		}
		if r.IntN(2) == 0 {
			return c09Empty("[")
		}
		return &C09Expr{Kind: C09Collect, L: c09BinE(C09OpByName("UNION"), c09Lit("1"), c09Lit("2"))}
	default:
		switch c {
		case c09Doc:
			return c09PathAtom(g.pick(".a", ".", ".m[0]"))
		case c09CMap, c09CElt:
			return c09PathAtom(".")
		}
		if r.IntN(2) == 0 {
			return c09Empty("{")
		}
		return g.object(c, 0)
	}
}

func (g *c09Gen) call(name string, arg *C09Expr) *C09Expr {
	return &C09Expr{Kind: C09Call, Fn: c09Fns[name], L: arg}
}

func (g *c09Gen) pipe(l, r *C09Expr) *C09Expr { return c09BinE(C09OpByName("PIPE"), l, r) }

func (g *c09Gen) object(c c09Ctx, d int) *C09Expr {
	entry := func(k string) *C09Expr {
		key := c09Lit(`"` + k + `"`)
		key.NoWrap = true
		e := c09BinE(c09OpCMap, key, g.gen(c09Sort(g.r.IntN(3)), c, d-1))
		e.NoWrap = true
		return e
	}
	inner := entry("p")
	if g.r.IntN(2) == 0 {
		inner = c09BinE(C09OpByName("UNION"), inner, entry("q"))
		inner.NoWrap = true
	}
	return &C09Expr{Kind: C09Object, L: inner}
}

// bind builds `e as $v | body` with a fresh variable name (no shadowing).
func (g *c09Gen) bind(s c09Sort, c c09Ctx, d int) *C09Expr {
	vs := c09Sort(g.r.IntN(3))
	src := g.gen(vs, c, d-1)
	g.nv++
	name := fmt.Sprintf("v%d", g.nv)
	va := &C09Expr{Kind: C09Atom, NoWrap: true, Toks: []C09Tok{{"$" + name, C09Var, false}}}
	as := c09BinE(c09OpAs, src, va)
	as.NoWrap = true
	g.vars = append(g.vars, c09Var{name, vs})
	body := g.gen(s, c, d-1)
	if g.r.IntN(3) == 0 { // documented shape: the binding scopes over a whole pipe chain
		body = g.pipe(body, g.gen(s, c09CtxOf(s), d-2))
	}
	g.vars = g.vars[:len(g.vars)-1]
	return c09BinE(c09OpBind, as, body)
}

// reduce builds `q[] as $i ireduce (init; . + $i)`.
func (g *c09Gen) reduce(c c09Ctx, d int) *C09Expr {
	src := c09PathAtom(".x[]")
	switch c {
	case c09CSeq:
		src = c09PathAtom(".[]")
	case c09Doc:
		if g.r.IntN(3) == 0 {
			src = g.gen(c09N, c, d-1)
		}
	default:
		src = g.gen(c09N, c, d-1)
	}
	g.nv++
	name := fmt.Sprintf("v%d", g.nv)
	va := &C09Expr{Kind: C09Atom, NoWrap: true, Toks: []C09Tok{{"$" + name, C09Var, false}}}
	as := c09BinE(c09OpAs, src, va)
	as.NoWrap = true
	g.vars = append(g.vars, c09Var{name, c09N})
	body := g.gen(c09N, c09CNum, d-1)
	g.vars = g.vars[:len(g.vars)-1]
	blk := c09BinE(c09OpBlock, c09Lit(g.pick("0", "1")), body)
	blk.NoWrap = true
	return c09BinE(c09OpReduce, as, &C09Expr{Kind: C09Group, NoWrap: true, L: blk})
}

func (g *c09Gen) bin(name string, l, r *C09Expr) *C09Expr {
	op := C09OpByName(name)
	if name == "MUL" && g.r.IntN(4) == 0 {
		o := *op
		o.Tok = g.pick("*+", "*d", "*?", "*n", "*+d")
		op = &o
	}
	return c09BinE(op, l, r)
}

// lhs returns an assignable path of the context and the sort of what lives there.
func (g *c09Gen) lhs(c c09Ctx) (*C09Expr, c09Sort) {
	switch c {
	case c09Doc:
		switch g.r.IntN(8) {
		case 0:
			return c09PathAtom(".n"), c09N
		case 1:
			return c09PathAtom(".a.b"), c09N
		case 2:
			return c09PathAtom(".x[0]"), c09N
		case 3:
			return c09PathAtom(".x[]"), c09N
		case 4:
			return c09PathAtom(".s"), c09S
		case 5:
			return c09PathAtom(".t"), c09B
		case 6:
			return c09PathAtom(".m[].id"), c09N
		default:
			return c09PathAtom(".new"), c09N
		}
	case c09CMap:
		return c09PathAtom(g.pick(".b", ".c")), c09N
	case c09CElt:
		return c09PathAtom(".id"), c09N
	case c09CSeq:
		return c09PathAtom(g.pick(".[0]", ".[]")), c09N
	}
	return c09PathAtom("."), c09N
}

// opExpr builds one application of the named operator with operands of its preferred sorts.
func (g *c09Gen) opExpr(name string, c c09Ctx, d int) *C09Expr {
	op := C09OpByName(name)
	switch op.Class {
	case "arith":
		if name == "ADD" && g.r.IntN(4) == 0 {
			s := c09S
			if g.r.IntN(2) == 0 {
				s = c09Q
			}
			return g.bin(name, g.gen(s, c, d-1), g.gen(s, c, d-1))
		}
		return g.bin(name, g.gen(c09N, c, d-1), g.gen(c09N, c, d-1))
	case "cmp":
		return g.bin(name, g.gen(c09N, c, d-1), g.gen(c09N, c, d-1))
	case "eq":
		s := c09Sort(g.r.IntN(3))
		return g.bin(name, g.gen(s, c, d-1), g.gen(s, c, d-1))
	case "bool":
		return g.bin(name, g.gen(c09B, c, d-1), g.gen(c09B, c, d-1))
	case "alt":
		s := c09Sort(g.r.IntN(3))
		return g.bin(name, g.gen(s, c, d-1), g.gen(s, c, d-1))
	case "union":
		s := c09Sort(g.r.IntN(3))
		return g.bin(name, g.gen(s, c, d-1), g.gen(s, c, d-1))
	case "pipe":
		ls := c09Sort(g.r.IntN(5))
		return g.bin(name, g.gen(ls, c, d-1), g.gen(c09Sort(g.r.IntN(3)), c09CtxOf(ls), d-1))
	case "assign":
		l, s := g.lhs(c)
		if name != "ASSIGN" {
			s = c09N
		}
		return g.bin(name, l, g.gen(s, c, d-1))
	case "update":
		l, s := g.lhs(c)
		return g.bin(name, l, g.gen(s, c09CtxOf(s), d-1))
	default: // merge: *=
		if c == c09Doc && g.r.IntN(2) == 0 {
			return g.bin(name, c09PathAtom(".a"), g.object(c, d-1))
		}
		l, _ := g.lhs(c)
		return g.bin(name, l, g.gen(c09N, c, d-1))
	}
}

// gen produces an expression that (mostly) yields a value of sort s when evaluated in context c.
func (g *c09Gen) gen(s c09Sort, c c09Ctx, d int) *C09Expr {
	r := g.r
	if d <= 0 || r.IntN(7) == 0 {
		return g.atom(s, c)
	}
	if r.IntN(6) == 0 { // wild: any operator, whatever the sort wanted
		return g.opExpr(C09Ops[r.IntN(len(C09Ops))].Name, c, d)
	}
	if s == c09Any {
		s = c09Sort(r.IntN(5))
	}
	switch r.IntN(12) {
	case 0:
		return g.bind(s, c, d)
	case 1:
		return g.bin("ALT", g.gen(s, c, d-1), g.gen(s, c, d-1))
	case 2:
		return g.bin("UNION", g.gen(s, c, d-1), g.gen(s, c, d-1))
	case 3: // pipe through a context of another sort
		ls := c09Sort(r.IntN(5))
		return g.pipe(g.gen(ls, c, d-1), g.gen(s, c09CtxOf(ls), d-1))
	}
	switch s {
	case c09N:
		switch r.IntN(9) {
		case 0, 1, 2, 3:
			return g.opExpr(g.pick("ADD", "SUB", "MUL", "DIV", "MOD", "ADD", "SUB", "MUL"), c, d)
		case 4:
			return g.pipe(g.gen(c09Q, c, d-1), c09Word(g.pick("length", "min", "max", "length")))
		case 5:
			return g.reduce(c, d)
		case 6:
			if r.IntN(3) == 0 { // nullary min/max as an operand
				o := g.bin(g.pick("ADD", "SUB", "MUL", "LT", "EQ", "ALT"), c09Word(g.pick("min", "max")), g.atom(c09N, c09CNum))
				if r.IntN(2) == 0 {
					o.L, o.R = o.R, o.L
				}
				return g.pipe(g.gen(c09Q, c, d-1), o)
			}
			return g.pipe(g.gen(c09S, c, d-1), c09Word("length"))
		case 7: // (seq-valued expression)[0]  /  [a, b][1]  /  f(e)[0]
			var base *C09Expr
			switch r.IntN(3) {
			case 0:
				base = &C09Expr{Kind: C09Collect, L: g.bin("UNION", g.gen(c09N, c, d-1), g.gen(c09N, c, d-1))}
			case 1:
				base = g.pipe(g.gen(c09Q, c, d-1), g.call("map", g.gen(c09N, c09CNum, d-2)))
			default:
				if c == c09CSeq {
					base = g.call(g.pick("map", "sort_by", "unique_by"), g.gen(c09N, c09CNum, d-2))
				} else {
					base = g.bin("ADD", g.gen(c09Q, c, d-1), g.gen(c09Q, c, d-1))
				}
			}
			return c09Suffix(base, g.pick("[0]", "[1]", "[-1]", ".[0]"))
		default:
			return g.pipe(g.gen(c09M, c, d-1), c09PathAtom(g.pick(".b", ".c")))
		}
	case c09B:
		switch r.IntN(10) {
		case 0, 1, 2:
			return g.opExpr(g.pick("LT", "LE", "GT", "GE"), c, d)
		case 3, 4:
			return g.opExpr(g.pick("EQ", "NE"), c, d)
		case 5, 6:
			return g.opExpr(g.pick("AND", "OR"), c, d)
		case 7:
			return g.pipe(g.gen(c09B, c, d-1), c09Word("not"))
		case 8:
			return g.pipe(g.gen(c09M, c, d-1), g.call("has", c09Lit(g.pick(`"b"`, `"z"`))))
		default:
			q := g.gen(c09Q, c, d-1)
			if r.IntN(2) == 0 {
				return g.pipe(q, g.call(g.pick("any_c", "all_c"), g.gen(c09B, c09CNum, d-2)))
			}
			return g.pipe(g.pipe(q, g.call("map", g.gen(c09B, c09CNum, d-2))), c09Word(g.pick("any", "all")))
		}
	case c09S:
		switch r.IntN(6) {
		case 0, 1:
			return g.bin("ADD", g.gen(c09S, c, d-1), g.gen(c09S, c, d-1))
		case 2:
			return g.pipe(g.gen(c09S, c, d-1), c09Word(g.pick("upcase", "downcase", "trim", "to_string")))
		case 3:
			blk := c09BinE(c09OpBlock, c09Lit(g.pick(`"a"`, `"b"`)), g.gen(c09S, c09CStr, d-2))
			blk.NoWrap = true
			return g.pipe(g.gen(c09S, c, d-1), g.call("sub", blk))
		case 4:
			return g.pipe(g.pipe(g.gen(c09Q, c, d-1), g.call("map", c09Word("to_string"))), g.call("join", c09Lit(`","`)))
		default:
			return g.pipe(g.gen(c09N, c, d-1), c09Word(g.pick("to_string", "type", "kind")))
		}
	case c09Q:
		switch r.IntN(9) {
		case 0, 1:
			return &C09Expr{Kind: C09Collect, L: g.gen(c09N, c, d-1)}
		case 2:
			return g.pipe(g.gen(c09Q, c, d-1), g.call(g.pick("map", "map", "sort_by", "group_by", "unique_by", "filter"), g.gen(c09N, c09CNum, d-1)))
		case 3:
			return g.pipe(g.gen(c09Q, c, d-1), c09Word(g.pick("sort", "reverse", "unique", "flatten", "keys", "flatten(1)")))
		case 4:
			return g.bin(g.pick("ADD", "SUB"), g.gen(c09Q, c, d-1), g.gen(c09Q, c, d-1))
		case 5:
			return g.pipe(g.gen(c09M, c, d-1), c09Word(g.pick("keys", "to_entries")))
		case 6:
			return g.pipe(g.gen(c09S, c, d-1), g.call("split", c09Lit(g.pick(`" "`, `"a"`))))
		case 7:
			if c == c09Doc {
				return g.pipe(c09PathAtom(".m"), g.call(g.pick("map", "sort_by", "group_by"), g.gen(g.pickSort(c09N, c09S), c09CElt, d-1)))
			}
			return &C09Expr{Kind: C09Collect, L: g.gen(c09N, c, d-1)}
		default:
			return g.pipe(g.gen(c09Q, c, d-1), g.call("map", g.call("select", g.gen(c09B, c09CNum, d-2))))
		}
	default: // map / whole document
		switch r.IntN(9) {
		case 0, 1, 2:
			return g.opExpr(g.pick("ASSIGN", "UPDATE", "ADDA", "SUBA", "MULA", "ASSIGN", "UPDATE"), c, d)
		case 3:
			return g.object(c, d)
		case 4:
			mm := g.gen(c09M, c, d-1)
			return g.bin("MUL", mm, g.object(c, d-1))
		case 5:
			l, _ := g.lhs(c)
			return g.call("del", l)
		case 6:
			if c == c09Doc {
				inner, _ := g.lhs(c09CMap)
				blk := c09BinE(c09OpBlock, c09PathAtom(".a"), g.bin(g.pick("ASSIGN", "UPDATE", "ADDA"), inner, g.gen(c09N, c09CNum, d-2)))
				blk.NoWrap = true
				return g.call("with", blk)
			}
			return g.call("select", g.gen(c09B, c, d-1))
		case 7:
			return g.call("select", g.gen(c09B, c, d-1))
		default:
			if c == c09Doc {
				f := g.call(g.pick("select", "with_entries", "map_values", "sort_keys", "pick"), nil)
				switch f.Fn.Name {
				case "select":
					f.L = g.gen(c09B, c09CElt, d-1)
					return c09Suffix(g.pipe(c09PathAtom(".m[]"), f), g.pick(".id", ".nm"))
				case "with_entries":
					f.L = g.call("select", g.bin("NE", c09PathAtom(".key"), c09Lit(`"z"`)))
				case "map_values":
					return g.pipe(c09PathAtom(".a"), g.call("map_values", g.gen(c09N, c09CNum, d-1)))
				case "sort_keys":
					f.L = c09PathAtom(g.pick(".", ".a"))
				default:
					f.L = &C09Expr{Kind: C09Collect, L: g.bin("UNION", c09Lit(`"a"`), c09Lit(`"n"`))}
				}
				return f
			}
			return g.atom(c09M, c)
		}
	}
}

func (g *c09Gen) pickSort(xs ...c09Sort) c09Sort { return xs[g.r.IntN(len(xs))] }

// C09Case is one generated expression with its forced operator pair.
type C09Case struct {
	Expr   *C09Expr
	Forced string // "pair:A<B:L"
	Nodes  int
}

// C09NumPairs is the size of the ordered-pair matrix: A inside B, as left or right child.
func C09NumPairs() int { return len(C09Ops) * len(C09Ops) * 2 }

// C09Generate builds the case idx: the operator pair (idx mod matrix size) is forced at the
// core, with operands of the operators' preferred sorts, and wrapped in a random context.
func C09Generate(r *rand.Rand, idx int) C09Case {
	g := &c09Gen{r: r}
	n := len(C09Ops)
	k := idx % C09NumPairs()
	a, b, right := C09Ops[k%n], C09Ops[(k/n)%n], k/(n*n) == 1
	d := 1 + r.IntN(3)
	outer := g.opExpr(b.Name, c09Doc, d)
	inner := g.opExpr(a.Name, c09Doc, d)
	side := "L"
	if right {
		outer.R = inner
		side = "R"
	} else {
		outer.L = inner
	}
	forced := "pair:" + a.Name + "<" + b.Name + ":" + side
	e := outer
	// context around the forced pair
	for i, m := 0, r.IntN(3); i < m; i++ {
		switch r.IntN(10) {
		case 0:
			e = &C09Expr{Kind: C09Collect, L: e}
		case 1:
			e = g.call("select", e)
		case 2:
			o := C09Ops[r.IntN(n)]
			e = g.bin(o.Name, e, g.gen(c09Any, c09Doc, 1))
		case 3:
			o := C09Ops[r.IntN(n)]
			e = g.bin(o.Name, g.gen(c09Any, c09Doc, 1), e)
		case 4:
			e = g.pipe(e, g.gen(c09Any, c09CNum, 2))
		case 5:
			g.nv++
			name := fmt.Sprintf("v%d", g.nv)
			va := &C09Expr{Kind: C09Atom, NoWrap: true, Toks: []C09Tok{{"$" + name, C09Var, false}}}
			as := c09BinE(c09OpAs, g.gen(c09N, c09Doc, 1), va)
			as.NoWrap = true
			e = c09BinE(c09OpBind, as, e)
		case 6:
			key := c09Lit(`"r"`)
			key.NoWrap = true
			cm := c09BinE(c09OpCMap, key, e)
			cm.NoWrap = true
			e = &C09Expr{Kind: C09Object, L: cm}
		case 7:
			e = c09Suffix(e, g.pick(".b", "[0]", ".a.b", ".x[0]", ".[1]"))
		case 8:
			e = g.pipe(g.gen(c09M, c09Doc, 1), e)
		default:
			e = g.call(g.pick("map", "has", "sort_by", "any_c", "del", "contains", "group_by"), e)
		}
	}
	c09FixUnions(e)
	c := C09Case{Expr: e, Forced: forced}
	c.Nodes = e.Number()
	return c
}

// ---------------------------------------------------------------------------------------
// Excluded domain: union operands that may return one and the same result list
// ---------------------------------------------------------------------------------------

// c09MayAlias: the expression may hand back a result list that another operand of the same union
// can hand back too (the union operator then yields it once — a known defect of the union
// operator recorded under C01; here it would show up as a grouping difference in 4-chains).
func c09MayAlias(e *C09Expr) bool {
	switch e.Kind {
	case C09Atom:
		return e.Alias
	case C09Bin:
		switch e.Op.Name {
		case "PIPE", "BIND":
			return c09MayAlias(e.R)
		case "ASSIGN", "UPDATE", "ADDA", "SUBA", "MULA", "REDUCE", "AS", "BLOCK", "CMAP":
			return true
		}
		return false
	case C09Call:
		return !e.Fn.Fresh
	case C09Group:
		return c09MayAlias(e.L)
	case C09Object:
		return false
	}
	return false
}

// c09FixUnions leaves at most one may-alias operand in every maximal union chain; the others are
// replaced by a literal.
func c09FixUnions(root *C09Expr) {
	var chain func(e *C09Expr, slots *[]**C09Expr)
	chain = func(e *C09Expr, slots *[]**C09Expr) {
		for _, pp := range []**C09Expr{&e.L, &e.R} {
			ch := *pp
			if ch.Kind == C09Bin && ch.Op.Name == "UNION" {
				chain(ch, slots)
			} else {
				*slots = append(*slots, pp)
			}
		}
	}
	size := func(e *C09Expr) int { n := 0; e.Walk(func(_, _ *C09Expr, _ bool) { n++ }); return n }
	root.Walk(func(n, parent *C09Expr, _ bool) {
		if n.Kind != C09Bin || n.Op.Name != "UNION" || n.NoWrap { // NoWrap: the entry list of an object
			return
		}
		if parent != nil && parent.Kind == C09Bin && parent.Op.Name == "UNION" {
			return // not the top of its chain
		}
		var slots []**C09Expr
		chain(n, &slots)
		best, bestSize := -1, -1
		for i, s := range slots {
			if c09MayAlias(*s) {
				if sz := size(*s); sz > bestSize {
					best, bestSize = i, sz
				}
			}
		}
		for i, s := range slots {
			if i != best && c09MayAlias(*s) {
				*s = c09Lit("1")
			}
		}
	})
}

// ---------------------------------------------------------------------------------------
// Documents
// ---------------------------------------------------------------------------------------

// C09Docs returns three documents (JSON text, also valid YAML) and their shape names.
func C09Docs(r *rand.Rand) (docs []string, shapes []string) {
	n := func() int { return r.IntN(13) - 2 }
	strs := []string{"a", "b c", "ab", "banana", "", "x,y", "Zed"}
	str := func() string { return `"` + strs[r.IntN(len(strs))] + `"` }
	seq := func(min int) string {
		k := min + r.IntN(4)
		xs := make([]string, k)
		for i := range xs {
			xs[i] = fmt.Sprint(n())
		}
		return "[" + strings.Join(xs, ",") + "]"
	}
	full := func() string {
		return fmt.Sprintf(`{"a":{"b":%d,"c":%d},"n":%d,"k":%d,"s":%s,"w":%s,"t":%v,"f":%v,"x":%s,"y":%s,"m":[{"id":%d,"nm":%s},{"id":%d,"nm":%s}],"z":null}`,
			n(), n(), n(), n(), str(), str(), r.IntN(2) == 0, r.IntN(2) == 0, seq(2), seq(1), n(), str(), n(), str())
	}
	sparse := func() string {
		var parts []string
		add := func(k, v string) {
			switch r.IntN(4) {
			case 0: // missing
			case 1:
				parts = append(parts, fmt.Sprintf("%q:null", k))
			default:
				parts = append(parts, fmt.Sprintf("%q:%s", k, v))
			}
		}
		add("a", fmt.Sprintf(`{"b":%d}`, n()))
		add("n", fmt.Sprint(n()))
		add("k", "0")
		add("s", str())
		add("t", "false")
		add("x", seq(0))
		add("y", "[]")
		add("m", fmt.Sprintf(`[{"id":%d,"nm":%s}]`, n(), str()))
		return "{" + strings.Join(parts, ",") + "}"
	}
	odd := func() string {
		switch r.IntN(4) {
		case 0:
			return seq(0)
		case 1:
			return fmt.Sprintf(`{"a":[1,{"b":2}],"n":"7","k":1.5,"s":3,"x":{"0":1},"m":{"id":1},"t":"yes"}`)
		case 2:
			return fmt.Sprint(n())
		default:
			return fmt.Sprintf(`{"a":{"b":%d.5,"c":-0},"n":%d,"k":0,"s":"%d","w":"w","t":true,"f":true,"x":[%d,"1",null],"y":[[1],[2]],"m":[]}`, n(), n(), n(), n())
		}
	}
	return []string{full(), sparse(), odd()}, []string{"doc:full", "doc:sparse", "doc:odd"}
}
