package gen

import (
	"math/rand/v2"
	"strconv"

	"verifharness/ref"
)

// ExprGen generates core-fragment expressions, type-directed against concrete sample inputs:
// while building it evaluates the reference model on the samples so that most expressions are
// well-typed and yield results; IllTyped% of the choices ignore the types on purpose.
type ExprGen struct {
	R        *rand.Rand
	IllTyped int // percentage of type-blind choices
	vars     []string
	varVals  map[string][]*ref.V
}

func NewExprGen(r *rand.Rand) *ExprGen {
	return &ExprGen{R: r, IllTyped: 12, varVals: map[string][]*ref.V{}}
}

func (g *ExprGen) env() ref.Env { return ref.Env{Vars: g.varVals, T: &ref.Trace{}} }

func (g *ExprGen) eval(e *ref.Expr, in []*ref.V) []*ref.V {
	out, err := ref.Eval(e, in, g.env())
	if err != nil {
		return nil
	}
	return out
}

func first(in []*ref.V) *ref.V {
	if len(in) == 0 {
		return ref.NullV()
	}
	return in[0]
}

var bigNeighbours = []int64{9007199254740992, 9007199254740993, 9007199254740994, 9223372036854775806, 9223372036854775807,
	-9007199254740993, -9007199254740992, -9223372036854775807, -9223372036854775806, 4611686018427387904, 4611686018427387905}

var litStrings = []string{"a", "b", "abc", "x", "foo", "a b", "", "s*", "?", "1", "true", "null", ",", "-", "é"}

func (g *ExprGen) litScalar(like *ref.V) *ref.V {
	r := g.R
	if like != nil && like.IsScalar() && r.IntN(6) == 0 {
		// the same text under another type: 1 vs "1", true vs "true", null vs "null"
		switch like.K {
		case ref.Int, ref.Bool, ref.Null:
			return ref.StrV(like.JSON())
		case ref.Str:
			switch like.S {
			case "true", "false":
				return ref.BoolV(like.S == "true")
			case "null":
				return ref.NullV()
			}
			if n, err := strconv.ParseInt(like.S, 10, 32); err == nil && strconv.FormatInt(n, 10) == like.S {
				return ref.IntV(n)
			}
		}
	}
	if like != nil && like.IsScalar() && r.IntN(3) > 0 {
		switch like.K {
		case ref.Int:
			if r.IntN(2) == 0 {
				return like.Copy()
			}
			return ref.IntV(int64(r.IntN(9) - 2))
		case ref.Float:
			return ref.FloatV([]float64{0.5, 1.5, 2.0, -0.25}[r.IntN(4)])
		case ref.Str:
			if r.IntN(2) == 0 && ref.ExprStringOK(like.S) && len(like.S) < 20 {
				return like.Copy()
			}
			return ref.StrV(litStrings[r.IntN(len(litStrings))])
		case ref.Bool:
			return ref.BoolV(r.IntN(2) == 0)
		case ref.Null:
			return ref.NullV()
		}
	}
	switch r.IntN(9) {
	case 0:
		return ref.NullV()
	case 1:
		return ref.BoolV(r.IntN(2) == 0)
	case 2, 3, 4:
		return ref.IntV(int64(r.IntN(9) - 2))
	case 5:
		return ref.FloatV([]float64{0.5, 1.5, 2.0, -0.25}[r.IntN(4)])
	default:
		return ref.StrV(litStrings[r.IntN(len(litStrings))])
	}
}

// twin: the same text under another type (1 / "1", true / "true", null / "null"), nil if there is none.
func twin(v *ref.V) *ref.V {
	switch v.K {
	case ref.Int, ref.Bool, ref.Null:
		return ref.StrV(v.JSON())
	case ref.Str:
		switch v.S {
		case "true", "false":
			return ref.BoolV(v.S == "true")
		case "null":
			return ref.NullV()
		}
		if n, err := strconv.ParseInt(v.S, 10, 32); err == nil && strconv.FormatInt(n, 10) == v.S {
			return ref.IntV(n)
		}
	}
	return nil
}

func okKey(k string) bool {
	if !ref.ExprStringOK(k) {
		return false
	}
	for _, c := range k {
		if c == '*' || c == '?' || c == '"' || c < 0x20 {
			return false
		}
	}
	return true
}

// pathStep picks one traversal step applicable to v.
func (g *ExprGen) pathStep(v *ref.V) *ref.Expr {
	r := g.R
	blind := r.IntN(100) < g.IllTyped
	switch {
	case v.K == ref.Map && !blind:
		var keys []string
		for _, kv := range v.M {
			if okKey(kv.K) {
				keys = append(keys, kv.K)
			}
		}
		switch c := r.IntN(10); {
		case c < 6 && len(keys) > 0:
			k := keys[r.IntN(len(keys))]
			if r.IntN(8) == 0 {
				// a key list: one result per LISTED key, in the order listed - a key named twice gives its value twice
				k2 := keys[r.IntN(len(keys))]
				args := []*ref.Expr{ref.Lit(ref.StrV(k)), ref.Lit(ref.StrV(k2))}
				if r.IntN(2) == 0 {
					args = append(args, ref.Lit(ref.StrV(k)))
				}
				return ref.Index(args...)
			}
			if r.IntN(5) == 0 {
				return ref.Index(ref.Lit(ref.StrV(k)))
			}
			return ref.Key(k)
		case c < 7:
			return ref.Key(DefaultKeys[r.IntN(len(DefaultKeys))]) // possibly missing
		case c < 9:
			return &ref.Expr{Op: ref.OpSplat}
		default:
			return &ref.Expr{Op: ref.OpRDesc}
		}
	case v.K == ref.Seq && !blind:
		n := len(v.A)
		switch c := r.IntN(10); {
		case c < 4:
			return ref.IdxInt(r.IntN(n+2) - 1) // -1 .. n
		case c < 5 && n > 0:
			return ref.Index(ref.Lit(ref.IntV(int64(r.IntN(n)))), ref.Lit(ref.IntV(int64(-1-r.IntN(n)))))
		case c < 8:
			return &ref.Expr{Op: ref.OpSplat}
		case c < 9:
			e := &ref.Expr{Op: ref.OpSlice}
			if r.IntN(3) > 0 {
				a := r.IntN(n+3) - n - 1
				e.I = &a
			}
			if r.IntN(3) > 0 || e.I == nil {
				b := r.IntN(n+3) - 1
				if r.IntN(4) == 0 {
					b = -b
				}
				e.J = &b
			}
			return e
		default:
			return &ref.Expr{Op: ref.OpRDesc}
		}
	}
	switch r.IntN(5) {
	case 0:
		return ref.Key(DefaultKeys[r.IntN(len(DefaultKeys))])
	case 1:
		return ref.IdxInt(r.IntN(4) - 1)
	case 2:
		return &ref.Expr{Op: ref.OpSplat}
	case 3:
		return &ref.Expr{Op: ref.OpRDesc}
	default:
		return ref.Self()
	}
}

// streamSlice: when the stream holds several sequences of different lengths, sometimes a slice
// whose bounds mean something different for each of them (omitted = that node's own length,
// negative = counted from that node's end).
func (g *ExprGen) streamSlice(cur []*ref.V) *ref.Expr {
	if len(cur) < 2 || g.R.IntN(3) > 0 {
		return nil
	}
	min, max := -1, -1
	for _, v := range cur {
		if v.K != ref.Seq {
			return nil
		}
		if min < 0 || len(v.A) < min {
			min = len(v.A)
		}
		if len(v.A) > max {
			max = len(v.A)
		}
	}
	if min == max {
		return nil
	}
	e := &ref.Expr{Op: ref.OpSlice}
	switch g.R.IntN(4) {
	case 0, 1: // .[a:]
		a := g.R.IntN(min + 1)
		e.I = &a
	case 2: // .[-a:]
		a := -1 - g.R.IntN(max)
		e.I = &a
	default: // .[:-b]
		b := -g.R.IntN(max + 1)
		e.J = &b
	}
	return e
}

// path builds a chain of 1..n traversal steps following the sample.
func (g *ExprGen) path(in []*ref.V, n int) *ref.Expr {
	var e *ref.Expr
	cur := in
	for i := 0; i < n; i++ {
		step := g.pathStep(first(cur))
		if s := g.streamSlice(cur); s != nil {
			step = s
		}
		if e == nil {
			e = step
		} else {
			e = ref.Pipe(e, step)
			e.Post = g.R.IntN(2) == 0
		}
		cur = g.eval(step, cur)
		if len(cur) == 0 {
			break
		}
	}
	return e
}

func (g *ExprGen) atom(in []*ref.V) *ref.Expr {
	r := g.R
	switch c := r.IntN(10); {
	case c < 4:
		return g.path(in, 1+r.IntN(2))
	case c < 5:
		return ref.Self()
	case c < 6 && len(g.vars) > 0:
		return &ref.Expr{Op: ref.OpVar, S: g.vars[r.IntN(len(g.vars))]}
	case c < 9:
		return ref.Lit(g.litScalar(first(in)))
	default:
		if r.IntN(2) == 0 {
			return &ref.Expr{Op: ref.OpCollect}
		}
		return &ref.Expr{Op: ref.OpObject}
	}
}

// Pred generates a predicate over the sample.
func (g *ExprGen) Pred(in []*ref.V, depth int) *ref.Expr {
	r := g.R
	v := first(in)
	if depth > 0 && r.IntN(4) == 0 {
		switch r.IntN(3) {
		case 0:
			return ref.Bin("and", g.Pred(in, depth-1), g.Pred(in, depth-1))
		case 1:
			return ref.Bin("or", g.Pred(in, depth-1), g.Pred(in, depth-1))
		default:
			return ref.Pipe(g.Pred(in, depth-1), ref.Fn0("not"))
		}
	}
	if r.IntN(12) == 0 {
		// two integers that differ but are the same float64 (beyond 2^53), compared exactly
		a := bigNeighbours[r.IntN(len(bigNeighbours))]
		b := a
		for b == a {
			b = bigNeighbours[r.IntN(len(bigNeighbours))]
		}
		cmp := []string{"<", "<=", ">", ">=", "==", "!="}[r.IntN(6)]
		if r.IntN(2) == 0 {
			return ref.Bin(cmp, ref.Lit(ref.IntV(a)), ref.Lit(ref.IntV(b)))
		}
		arr := &ref.Expr{Op: ref.OpCollect, L: ref.Union(ref.Lit(ref.IntV(a)), ref.Lit(ref.IntV(b)))}
		return ref.Pipe(arr, ref.Pipe(&ref.Expr{Op: ref.OpSplat}, ref.Bin(cmp, ref.Self(), ref.Lit(ref.IntV(bigNeighbours[r.IntN(len(bigNeighbours))])))))
	}
	target := ref.Self()
	tv := v
	if !v.IsScalar() && r.IntN(4) > 0 {
		target = g.path(in, 1)
		if o := g.eval(target, in); len(o) > 0 {
			tv = o[0]
		}
	}
	switch c := r.IntN(10); {
	case c < 3:
		return ref.Bin([]string{"==", "!="}[r.IntN(2)], target, ref.Lit(g.litScalar(tv)))
	case c < 6 && tv.IsScalar():
		return ref.Bin([]string{"<", "<=", ">", ">="}[r.IntN(4)], target, ref.Lit(g.litScalar(tv)))
	case c < 7 && v.K == ref.Map:
		return ref.Fn1("has", ref.Lit(ref.StrV(DefaultKeys[r.IntN(len(DefaultKeys))])))
	case c < 8:
		return ref.Bin(">", ref.Pipe(target, ref.Fn0("length")), ref.Lit(ref.IntV(int64(r.IntN(3)))))
	case c < 9:
		return ref.Lit(ref.BoolV(r.IntN(2) == 0))
	default:
		return target
	}
}

var seqFn0 = []string{"length", "keys", "reverse", "unique", "flatten", "any", "all", "to_entries", "not"}
var mapFn0 = []string{"length", "keys", "to_entries", "not"}
var scalarFn0 = []string{"length", "not"}
var allFn0 = []string{"length", "keys", "reverse", "unique", "flatten", "any", "all", "to_entries", "from_entries", "not"}

func kids(v *ref.V) []*ref.V {
	switch v.K {
	case ref.Seq:
		return v.A
	case ref.Map:
		var out []*ref.V
		for _, kv := range v.M {
			out = append(out, kv.V)
		}
		return out
	}
	return nil
}

// unary returns a function application suited to the sample.
func (g *ExprGen) unary(in []*ref.V, depth int) *ref.Expr {
	r := g.R
	v := first(in)
	if r.IntN(100) < g.IllTyped {
		return ref.Fn0(allFn0[r.IntN(len(allFn0))])
	}
	switch v.K {
	case ref.Seq:
		ks := kids(v)
		switch c := r.IntN(16); {
		case c < 5:
			return ref.Fn0(seqFn0[r.IntN(len(seqFn0))])
		case c < 6:
			d := r.IntN(3)
			return &ref.Expr{Op: ref.OpFlatten, I: &d}
		case c < 8:
			return ref.Fn1("map", g.Gen(ks, depth-1))
		case c < 9:
			return ref.Fn1("filter", g.Pred(ks, 1))
		case c < 10:
			cond := g.Pred(ks, 1)
			if r.IntN(3) == 0 {
				// a condition that yields NOTHING for the elements it rejects (an element without a verdict does not count)
				cond = ref.Fn1("select", cond)
			}
			return ref.Fn1([]string{"any_c", "all_c"}[r.IntN(2)], cond)
		case c < 11:
			if r.IntN(4) == 0 {
				// the empty values of different kinds are different values
				empties := ref.SeqV(&ref.V{K: ref.Seq, A: []*ref.V{}}, ref.StrV(""), &ref.V{K: ref.Seq, A: []*ref.V{}}, ref.NullV())
				r.Shuffle(len(empties.A), func(i, j int) { empties.A[i], empties.A[j] = empties.A[j], empties.A[i] })
				return ref.Pipe(ref.Bin("+", ref.Self(), ref.Lit(empties)), ref.Fn0("unique"))
			}
			return ref.Fn1([]string{"unique_by", "group_by"}[r.IntN(2)], g.keyFn(ks))
		case c < 12:
			return ref.Fn1("has", ref.Lit(ref.IntV(int64(r.IntN(len(v.A)+2)))))
		case c < 13:
			if len(v.A) > 0 {
				// an argument of 1..4 elements drawn from the input (repeats allowed, so it may be longer
				// than the input and still be contained), sometimes a substring of a string element
				n := 1 + r.IntN(4)
				var u *ref.Expr
				for i := 0; i < n; i++ {
					el := v.A[r.IntN(len(v.A))]
					lit := g.litScalar(el)
					if el.K == ref.Str && len(el.S) > 1 && isASCII(el.S) && ref.ExprStringOK(el.S) && okKey(el.S) && r.IntN(2) == 0 {
						lit = ref.StrV(el.S[:1+r.IntN(len(el.S)-1)])
						if !okKey(lit.S) {
							lit = ref.StrV(el.S)
						}
					}
					if u == nil {
						u = ref.Lit(lit)
					} else {
						u = ref.Union(u, ref.Lit(lit))
					}
				}
				return ref.Fn1("contains", &ref.Expr{Op: ref.OpCollect, L: u})
			}
			return ref.Fn1("contains", &ref.Expr{Op: ref.OpCollect})
		case c < 14:
			return ref.Fn1("join", ref.Lit(ref.StrV([]string{",", "", " ", "-"}[r.IntN(4)])))
		case c < 15:
			return ref.Pipe(ref.Fn0("to_entries"), ref.Fn0("from_entries"))
		default:
			return ref.Fn1("select", g.Pred(in, 1))
		}
	case ref.Map:
		ks := kids(v)
		switch c := r.IntN(10); {
		case c < 4:
			return ref.Fn0(mapFn0[r.IntN(len(mapFn0))])
		case c < 5:
			return ref.Fn1("map", g.Gen(ks, depth-1))
		case c < 6:
			return ref.Fn1("has", ref.Lit(ref.StrV(DefaultKeys[r.IntN(len(DefaultKeys))])))
		case c < 7:
			ent := g.eval(ref.Pipe(ref.Fn0("to_entries"), &ref.Expr{Op: ref.OpSplat}), in)
			return ref.Fn1("with_entries", g.entryFn(ent))
		case c < 8:
			if len(v.M) > 0 {
				kv := v.M[r.IntN(len(v.M))]
				if okKey(kv.K) && kv.V.IsScalar() {
					return ref.Fn1("contains", &ref.Expr{Op: ref.OpObject, Args: []*ref.Expr{ref.Lit(ref.StrV(kv.K)), ref.Lit(g.litScalar(kv.V))}})
				}
			}
			return ref.Fn1("contains", &ref.Expr{Op: ref.OpObject})
		default:
			return ref.Fn1("select", g.Pred(in, 1))
		}
	case ref.Str:
		switch r.IntN(5) {
		case 0:
			return ref.Fn0("length")
		case 1:
			return ref.Fn1("split", ref.Lit(ref.StrV([]string{",", " ", "", "a", "-"}[r.IntN(5)])))
		case 2:
			return ref.Fn1("contains", ref.Lit(ref.StrV(litStrings[r.IntN(len(litStrings))])))
		case 3:
			return ref.Fn1("select", g.Pred(in, 1))
		default:
			return ref.Fn0("not")
		}
	}
	switch r.IntN(3) {
	case 0:
		return ref.Fn0(scalarFn0[r.IntN(len(scalarFn0))])
	case 1:
		return ref.Fn1("select", g.Pred(in, 1))
	default:
		return ref.Fn1("contains", ref.Lit(g.litScalar(v)))
	}
}

// keyFn: a key expression for unique_by / group_by yielding scalars on the elements.
func (g *ExprGen) keyFn(elems []*ref.V) *ref.Expr {
	v := first(elems)
	if v.K == ref.Map {
		for _, kv := range v.M {
			if okKey(kv.K) && kv.V.IsScalar() && g.R.IntN(2) == 0 {
				return ref.Key(kv.K)
			}
		}
	}
	switch g.R.IntN(3) {
	case 0:
		return ref.Fn0("length")
	case 1:
		return ref.Self()
	default:
		return g.Pred(elems, 0)
	}
}

func (g *ExprGen) entryFn(ents []*ref.V) *ref.Expr {
	switch g.R.IntN(4) {
	case 0:
		return ref.Self()
	case 1:
		return ref.Fn1("select", ref.Bin("!=", ref.Key("value"), ref.Lit(ref.NullV())))
	case 2:
		return ref.Fn1("select", ref.Bin("!=", ref.Key("key"), ref.Lit(ref.StrV(DefaultKeys[g.R.IntN(len(DefaultKeys))]))))
	default:
		return &ref.Expr{Op: ref.OpObject, Args: []*ref.Expr{ref.Lit(ref.StrV("key")), ref.Key("key"), ref.Lit(ref.StrV("value")), ref.Pipe(ref.Key("value"), ref.Fn0("length"))}}
	}
}

var arith = []string{"+", "+", "-", "*", "/", "%"}
var cmps = []string{"==", "!=", "<", "<=", ">", ">="}
var logic = []string{"and", "or", "//", "//"}

// operand yields an expression whose results are (mostly) of a kind compatible with `like`;
// width controls the stream width: 0 empty, 1 single, 2 many.
func (g *ExprGen) operand(in []*ref.V, like *ref.V, depth int) *ref.Expr {
	r := g.R
	switch c := r.IntN(10); {
	case c < 3:
		return ref.Lit(g.litScalar(like))
	case c < 4:
		// an empty stream
		return ref.Pipe(ref.Self(), ref.Fn1("select", ref.Lit(ref.BoolV(false))))
	case c < 5:
		// a multi-valued stream of literals
		return ref.Union(ref.Lit(g.litScalar(like)), ref.Lit(g.litScalar(like)))
	case c < 7 && !first(in).IsScalar():
		return ref.Pipe(g.path(in, 1), &ref.Expr{Op: ref.OpSplat})
	default:
		if depth > 0 {
			return g.Gen(in, depth-1)
		}
		return g.atom(in)
	}
}

func (g *ExprGen) binary(in []*ref.V, depth int) *ref.Expr {
	r := g.R
	l := g.operand(in, nil, depth-1)
	lv := first(g.eval(l, in))
	var op string
	switch c := r.IntN(10); {
	case c < 5:
		op = arith[r.IntN(len(arith))]
	case c < 8:
		op = cmps[r.IntN(len(cmps))]
	default:
		op = logic[r.IntN(len(logic))]
	}
	var rr *ref.Expr
	if r.IntN(100) < g.IllTyped {
		rr = g.operand(in, nil, depth-1)
	} else {
		switch lv.K {
		case ref.Seq:
			if r.IntN(2) == 0 {
				rr = &ref.Expr{Op: ref.OpCollect, L: ref.Lit(g.litScalar(first(lv.A)))}
			} else {
				rr = g.operand(in, lv, depth-1)
			}
			if op == "/" || op == "%" || op == "*" {
				op = []string{"+", "-"}[r.IntN(2)]
			}
			if op == "-" && len(lv.A) > 0 && r.IntN(3) == 0 {
				// subtract an element's twin under another type: [1, "1"] - ["1"] keeps the 1
				el := lv.A[r.IntN(len(lv.A))]
				if tw := twin(el); tw != nil {
					rr = &ref.Expr{Op: ref.OpCollect, L: ref.Lit(tw)}
				}
			}
		case ref.Map:
			if r.IntN(2) == 0 {
				rr = &ref.Expr{Op: ref.OpObject, Args: []*ref.Expr{ref.Lit(ref.StrV(DefaultKeys[r.IntN(len(DefaultKeys))])), ref.Lit(g.litScalar(nil))}}
			} else {
				rr = g.operand(in, lv, depth-1)
			}
			if op == "/" || op == "%" || op == "-" {
				op = []string{"+", "*"}[r.IntN(2)]
			}
		default:
			rr = g.operand(in, lv, depth-1)
		}
	}
	return ref.Bin(op, l, rr)
}

// Gen generates an expression of at most the given depth for the sample inputs.
func (g *ExprGen) Gen(in []*ref.V, depth int) *ref.Expr {
	r := g.R
	if depth <= 0 {
		return g.atom(in)
	}
	switch c := r.IntN(20); {
	case c < 5: // pipe
		l := g.Gen(in, depth-1)
		mid := g.eval(l, in)
		var rr *ref.Expr
		switch r.IntN(5) {
		case 0, 1:
			rr = g.unary(mid, depth-1)
		case 2:
			// postfix traversal right after a bracketed expression / function: (e)[0], f(x).a
			st := g.pathStep(first(mid))
			if s := g.streamSlice(mid); s != nil {
				st = s
			}
			pe := ref.Pipe(l, st)
			pe.Post = true
			return pe
		default:
			rr = g.Gen(mid, depth-1)
		}
		return ref.Pipe(l, rr)
	case c < 7:
		return ref.Union(g.Gen(in, depth-1), g.Gen(in, depth-1))
	case c < 9:
		return &ref.Expr{Op: ref.OpCollect, L: g.Gen(in, depth-1)}
	case c < 10:
		n := 1 + r.IntN(2)
		e := &ref.Expr{Op: ref.OpObject}
		used := map[string]bool{}
		for i := 0; i < n; i++ {
			k := DefaultKeys[r.IntN(len(DefaultKeys))]
			if used[k] {
				continue
			}
			used[k] = true
			var ke *ref.Expr = ref.Lit(ref.StrV(k))
			e.Args = append(e.Args, ke, g.Gen(in, depth-1))
		}
		return e
	case c < 14:
		return g.binary(in, depth)
	case c < 17:
		return g.unary(in, depth)
	case c < 18:
		return g.path(in, 1+r.IntN(3))
	case c < 19: // variables
		name := []string{"x", "y", "v"}[r.IntN(3)]
		if r.IntN(3) == 0 && len(in) > 0 && len(g.eval(ref.Self(), in)) > 0 {
			// (only where the context is known to hold a node: what a variable yields on an EMPTY context is a corner of its own)
			// an inner binding of the SAME name ends with its scope: the outer value is read again behind it
			inner := &ref.Expr{Op: ref.OpAs, L: g.Gen(in, depth-1), S: name, R: &ref.Expr{Op: ref.OpVar, S: name}}
			var body *ref.Expr
			if r.IntN(2) == 0 {
				body = ref.Union(inner, &ref.Expr{Op: ref.OpVar, S: name})
			} else {
				body = &ref.Expr{Op: ref.OpCollect, L: ref.Union(&ref.Expr{Op: ref.OpVar, S: name}, ref.Union(inner, &ref.Expr{Op: ref.OpVar, S: name}))}
			}
			return &ref.Expr{Op: ref.OpAs, L: g.Gen(in, depth-1), S: name, R: body}
		}
		bind := g.Gen(in, depth-1)
		vals := g.eval(bind, in)
		g.vars = append(g.vars, name)
		old, had := g.varVals[name]
		if len(vals) > 0 {
			g.varVals[name] = []*ref.V{vals[0]}
		} else {
			g.varVals[name] = nil
		}
		body := g.Gen(in, depth-1)
		g.vars = g.vars[:len(g.vars)-1]
		if had {
			g.varVals[name] = old
		} else {
			delete(g.varVals, name)
		}
		return &ref.Expr{Op: ref.OpAs, L: bind, S: name, R: body}
	default: // reduce over the elements of a container
		src := ref.Pipe(g.path(in, 1), &ref.Expr{Op: ref.OpSplat})
		if first(in).K == ref.Seq && r.IntN(2) == 0 {
			src = &ref.Expr{Op: ref.OpSplat}
		}
		// the loop variable sometimes re-uses the name of a variable that is in scope: the outer binding is back afterwards
		nm := "i"
		if len(g.vars) > 0 && r.IntN(2) == 0 {
			nm = g.vars[r.IntN(len(g.vars))]
		}
		var init, body *ref.Expr
		switch r.IntN(3) {
		case 0:
			init = ref.Lit(ref.IntV(0))
			body = ref.Bin("+", ref.Self(), ref.Pipe(&ref.Expr{Op: ref.OpVar, S: nm}, ref.Fn0("length")))
		case 1:
			init = &ref.Expr{Op: ref.OpCollect}
			body = ref.Bin("+", ref.Self(), &ref.Expr{Op: ref.OpCollect, L: &ref.Expr{Op: ref.OpVar, S: nm}})
		default:
			init = ref.Lit(ref.StrV(""))
			body = ref.Bin("+", ref.Self(), ref.Lit(ref.StrV("x")))
		}
		red := &ref.Expr{Op: ref.OpReduce, L: src, S: nm, Args: []*ref.Expr{init}, R: body}
		if nm != "i" && r.IntN(2) == 0 {
			// ... and is read right after the reduce
			return ref.Pipe(red, &ref.Expr{Op: ref.OpCollect, L: ref.Union(ref.Self(), &ref.Expr{Op: ref.OpVar, S: nm})})
		}
		return red
	}
}

func isASCII(s string) bool {
	for i := 0; i < len(s); i++ {
		if s[i] >= 0x80 {
			return false
		}
	}
	return true
}
