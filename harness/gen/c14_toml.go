package gen

import (
	"fmt"
	"math"
	"math/rand/v2"
	"strconv"
	"strings"

	"verifharness/ref"
)

// TOML document generator of C14: a statement list (ref.TStmt) that ref.TOMLWrite renders and
// ref.TOMLBuild interprets. At most ONE finding-prone feature is placed per document so that every
// known deviation of yq can be matched exactly.

// C14TOMLFeature is the (single) finding-prone feature a document may carry.
type C14TOMLFeature int

const (
	TFNone C14TOMLFeature = iota
	TFEmptyTableBeforeHeader
	TFSubtableUnderArrayTable
	TFBinaryInt
	TFLocalDateTime
	TFDateTimeVariant // space separator / lowercase t z
	TFInlineDottedShared
	TFGlobKey
	TFCount
)

func (f C14TOMLFeature) String() string {
	return [...]string{"none", "empty_table_before_header", "subtable_under_array_table", "binary_int", "local_datetime", "datetime_variant", "inline_dotted_shared_prefix", "glob_key"}[f]
}

type c14Toml struct {
	r     *rand.Rand
	stmts []ref.TStmt
	tags  map[string]bool
	feat  C14TOMLFeature
	done  bool     // feature already placed
	dts   []string // date-time literals used (ground truth carries them as strings)
	n     int      // key counter to keep keys unique per table
}

var c14TomlBare = []string{"a", "b", "c", "name", "key", "x1", "my-key", "my_key", "A", "server", "port", "0", "1", "10", "007", "true", "inf", "e1"}
var c14TomlQuoted = []string{"with space", "dotted.key", "ʎǝʞ", "日本", "😀", "q\"uote", "back\\slash", "tab\there", "", "#hash", "a=b", "[x]", "it's", "new\nline", " lead", "trail ", "  ", "a*", "*", "?", "k?", "n*me", "ser*"}

func (g *c14Toml) key(used map[string]bool) string {
	for {
		var k string
		switch g.r.IntN(6) {
		case 0:
			k = c14TomlQuoted[g.r.IntN(len(c14TomlQuoted))]
		case 1:
			k = fmt.Sprintf("k%d", g.n)
			g.n++
		default:
			k = c14TomlBare[g.r.IntN(len(c14TomlBare))]
		}
		if used[k] {
			k = fmt.Sprintf("u%d", g.n)
			g.n++
		}
		if !used[k] {
			used[k] = true
			if !isBareTomlKey(k) {
				g.tags["quoted_key"] = true
			}
			return k
		}
	}
}

func isBareTomlKey(k string) bool {
	if k == "" {
		return false
	}
	for i := 0; i < len(k); i++ {
		c := k[i]
		if !(c >= 'a' && c <= 'z' || c >= 'A' && c <= 'Z' || c >= '0' && c <= '9' || c == '_' || c == '-') {
			return false
		}
	}
	return true
}

// under inserts underscores between digits (allowed by TOML between any two digits).
func under(s string, r *rand.Rand) string {
	if len(s) < 2 || r.IntN(2) != 0 {
		return s
	}
	var sb strings.Builder
	for i := 0; i < len(s); i++ {
		sb.WriteByte(s[i])
		if i+1 < len(s) && isDigitOrHex(s[i]) && isDigitOrHex(s[i+1]) && r.IntN(3) == 0 {
			sb.WriteByte('_')
		}
	}
	return sb.String()
}

func isDigitOrHex(c byte) bool {
	return c >= '0' && c <= '9' || c >= 'a' && c <= 'f' || c >= 'A' && c <= 'F'
}

func onlyDigits(s string) bool {
	for i := 0; i < len(s); i++ {
		if s[i] < '0' || s[i] > '9' {
			return false
		}
	}
	return s != ""
}

func (g *c14Toml) scalar() *ref.TVal {
	r := g.r
	switch r.IntN(12) {
	case 0, 1, 2:
		v := IntVal(r, Profile{NoBigInt: true})
		n := v.I.Int64()
		lit := strconv.FormatInt(n, 10)
		switch r.IntN(8) {
		case 0:
			if n >= 0 {
				lit = "+" + lit
				g.tags["int_plus"] = true
			}
		case 1:
			if n >= 0 {
				h := under(strconv.FormatInt(n, 16), r)
				if r.IntN(2) == 0 {
					h = strings.ToUpper(h)
				}
				lit = "0x" + h
				g.tags["int_hex"] = true
			}
		case 2:
			if n >= 0 {
				lit = "0o" + under(strconv.FormatInt(n, 8), r)
				g.tags["int_octal"] = true
			}
		case 3:
			sign, d := "", lit
			if n < 0 {
				sign, d = "-", lit[1:]
			}
			lit = sign + under(d, r)
			if strings.Contains(lit, "_") {
				g.tags["int_underscore"] = true
			}
		case 4:
			if g.feat == TFBinaryInt && !g.done && n >= 0 {
				lit = "0b" + under(strconv.FormatInt(n, 2), r)
				g.done = true
			}
		}
		return &ref.TVal{Scalar: v, Lit: lit}
	case 3, 4:
		var f float64
		for {
			f = FloatVal(r).F
			if !math.IsInf(f, 0) && !math.IsNaN(f) {
				break
			}
		}
		lit := strconv.FormatFloat(f, 'g', -1, 64)
		if !strings.ContainsAny(lit, ".e") {
			lit += ".0"
		}
		if strings.Contains(lit, "e") {
			g.tags["float_exp"] = true
			if r.IntN(2) == 0 {
				lit = strings.Replace(lit, "e", "E", 1)
			}
		}
		if i := strings.IndexAny(lit, ".eE"); i > 1 && onlyDigits(lit[:i]) && r.IntN(4) == 0 {
			lit = under(lit[:i], r) + lit[i:]
			if strings.Contains(lit, "_") {
				g.tags["float_underscore"] = true
			}
		}
		if !strings.HasPrefix(lit, "-") && r.IntN(6) == 0 {
			lit = "+" + lit
		}
		return &ref.TVal{Scalar: ref.FloatV(f), Lit: lit}
	case 5:
		b := r.IntN(2) == 0
		return &ref.TVal{Scalar: ref.BoolV(b), Lit: strconv.FormatBool(b)}
	case 6:
		return g.datetime()
	default:
		return g.str()
	}
}

func (g *c14Toml) datetime() *ref.TVal {
	r := g.r
	date := fmt.Sprintf("%04d-%02d-%02d", 1970+r.IntN(80), 1+r.IntN(12), 1+r.IntN(28))
	tm := fmt.Sprintf("%02d:%02d:%02d", r.IntN(24), r.IntN(60), r.IntN(60))
	if r.IntN(3) == 0 {
		tm += "." + strconv.Itoa(1+r.IntN(999999))
	}
	off := []string{"Z", "+00:00", "-07:00", "+05:30", "+13:45"}[r.IntN(5)]
	lit := date + "T" + tm + off
	if !g.done {
		switch g.feat {
		case TFLocalDateTime:
			lit = []string{date + "T" + tm, date, tm}[r.IntN(3)]
			g.done = true
		case TFDateTimeVariant:
			switch r.IntN(3) {
			case 0:
				lit = date + " " + tm + off
			case 1:
				lit = date + "t" + tm + off
			default:
				lit = date + "T" + tm + "z"
			}
			g.done = true
		}
	}
	g.tags["datetime"] = true
	g.dts = append(g.dts, lit)
	return &ref.TVal{Scalar: ref.StrV(lit), Lit: lit}
}

func tomlCtl(c rune) bool { return (c < 0x20 && c != '\t') || c == 0x7f }

func isAlnum(c byte) bool {
	return c >= 'a' && c <= 'z' || c >= 'A' && c <= 'Z' || c >= '0' && c <= '9'
}

func (g *c14Toml) str() *ref.TVal {
	r := g.r
	s := C14Text(r)
	if len(s) >= 5 && onlyDigits(s[:2]) {
		s = "x" + s // never mistakable for a date/time literal of the ground truth
	}
	ch := func(n int) int { return r.IntN(n) }
	hasCtl, hasNL, hasCR, hasSQ := false, false, false, strings.Contains(s, "'")
	for _, c := range s {
		if c == '\n' {
			hasNL = true
		} else if c == '\r' {
			hasCR = true
		} else if tomlCtl(c) {
			hasCtl = true
		}
	}
	if strings.ContainsAny(s, "\"\\") || hasCtl || hasNL || hasCR {
		g.tags["string_escapes"] = true
	}
	switch r.IntN(6) {
	case 0:
		if !hasSQ && !hasCtl && !hasNL && !hasCR {
			g.tags["literal_string"] = true
			return &ref.TVal{Scalar: ref.StrV(s), Lit: "'" + s + "'"}
		}
	case 1:
		// multi-line literal: no escapes at all; the first newline after the opening quotes is not part of the value
		if !hasCtl && !hasCR && !strings.Contains(s, "''") && !strings.HasSuffix(s, "'") {
			g.tags["ml_literal_string"] = true
			return &ref.TVal{Scalar: ref.StrV(s), Lit: "'''\n" + s + "'''"}
		}
	case 2:
		// multi-line basic: raw newlines, everything else escaped as in a basic string (quotes stay escaped)
		body := ref.TOMLBasicString(s, ch)
		body = body[1 : len(body)-1]
		if !strings.Contains(s, "\\") {
			body = strings.ReplaceAll(body, `\n`, "\n")
		}
		if r.IntN(3) == 0 {
			// line-ending backslash between plain letters: the newline and the indentation are skipped
			for i := 2; i < len(body); i++ {
				if isAlnum(body[i]) && isAlnum(body[i-1]) && isAlnum(body[i-2]) && (i < 10 || !strings.Contains(body[i-10:i], `\`)) && !strings.Contains(body[max(0, i-10):i], `\`) {
					body = body[:i] + "\\\n      " + body[i:]
					g.tags["ml_line_continuation"] = true
					break
				}
			}
		}
		g.tags["ml_basic_string"] = true
		return &ref.TVal{Scalar: ref.StrV(s), Lit: "\"\"\"\n" + body + "\"\"\""}
	}
	return &ref.TVal{Scalar: ref.StrV(s), Lit: ref.TOMLBasicString(s, ch)}
}

func (g *c14Toml) value(depth int, inInline bool) *ref.TVal {
	r := g.r
	if depth <= 0 {
		return g.scalar()
	}
	switch r.IntN(10) {
	case 0, 1:
		n := r.IntN(5)
		t := &ref.TVal{IsArr: true, Multiline: !inInline && r.IntN(3) == 0}
		for i := 0; i < n; i++ {
			t.Array = append(t.Array, g.value(depth-1, inInline))
		}
		g.tags["array"] = true
		if n == 0 {
			g.tags["empty_array"] = true
		}
		return t
	case 2:
		t := &ref.TVal{IsInl: true}
		n := r.IntN(4)
		used := map[string]bool{}
		shared := g.feat == TFInlineDottedShared && !g.done
		for i := 0; i < n; i++ {
			k := g.key(used)
			if r.IntN(4) == 0 {
				t.Inline = append(t.Inline, ref.TInlineKV{Path: []string{k, g.key(map[string]bool{})}, Val: g.value(depth-1, true)})
				g.tags["inline_dotted"] = true
			} else {
				t.Inline = append(t.Inline, ref.TInlineKV{Path: []string{k}, Val: g.value(depth-1, true)})
			}
		}
		if shared {
			p := g.key(used)
			t.Inline = append(t.Inline,
				ref.TInlineKV{Path: []string{p, "c"}, Val: g.scalar()},
				ref.TInlineKV{Path: []string{p, "d"}, Val: g.scalar()})
			g.done = true
		}
		g.tags["inline_table"] = true
		if len(t.Inline) == 0 {
			g.tags["empty_inline_table"] = true
		}
		return t
	}
	return g.scalar()
}

// leadKV makes sure the first significant statement after the header at index hdr is a key/value.
// With allowEmpty and the empty-table feature on, the table is left empty instead (yq silently drops
// an empty table that is directly followed by another header: finding C14-toml-empty-table-dropped).
func (g *c14Toml) leadKV(hdr int, allowEmpty bool) {
	firstIsKV := false
	for _, s := range g.stmts[hdr+1:] {
		if s.Kind == ref.TComment {
			continue
		}
		firstIsKV = s.Kind == ref.TKV
		break
	}
	if firstIsKV {
		return
	}
	if allowEmpty && g.feat == TFEmptyTableBeforeHeader && !g.done {
		g.done = true
		g.tags["empty_table"] = true
		return
	}
	kv := ref.TStmt{Kind: ref.TKV, Path: []string{"filler"}, Val: &ref.TVal{Scalar: ref.BoolV(true), Lit: "true"}}
	rest := append([]ref.TStmt{kv}, g.stmts[hdr+1:]...)
	g.stmts = append(g.stmts[:hdr+1], rest...)
}

// body emits the key/values of one table and then its sub-tables.
func (g *c14Toml) body(path []string, depth int, underAoT bool, reserved ...string) {
	r := g.r
	used := map[string]bool{"filler": true}
	for _, k := range reserved {
		used[k] = true
	}
	nkv := r.IntN(5)
	atRoot := len(path) == 0
	if atRoot && nkv == 0 {
		nkv = 1
	}
	for i := 0; i < nkv; i++ {
		if r.IntN(8) == 0 {
			g.stmts = append(g.stmts, ref.TStmt{Kind: ref.TComment, Text: []string{"", " comment", " [not.a.table]", " k = \"v\""}[r.IntN(4)]})
		}
		k := g.key(used)
		if r.IntN(5) == 0 {
			m := 1 + r.IntN(3)
			sub := map[string]bool{}
			for j := 0; j < m; j++ {
				p := []string{k, g.key(sub)}
				if r.IntN(4) == 0 {
					p = append(p, g.key(map[string]bool{}))
				}
				g.stmts = append(g.stmts, ref.TStmt{Kind: ref.TKV, Path: p, Val: g.value(depth-1, false)})
			}
			g.tags["dotted_keys"] = true
			continue
		}
		g.stmts = append(g.stmts, ref.TStmt{Kind: ref.TKV, Path: []string{k}, Val: g.value(2, false)})
	}
	if atRoot && g.feat == TFGlobKey && !g.done {
		// a key with glob metacharacters that matches an earlier root-level sibling
		var prev string
		for _, s := range g.stmts {
			if s.Kind == ref.TKV && len(s.Path) == 1 && len(s.Path[0]) > 1 && isBareTomlKey(s.Path[0]) {
				prev = s.Path[0]
			}
		}
		if prev != "" {
			gk := []string{prev[:len(prev)-1] + "*", "*", prev[:len(prev)-1] + "?"}[r.IntN(3)]
			if !used[gk] {
				used[gk] = true
				g.stmts = append(g.stmts, ref.TStmt{Kind: ref.TKV, Path: []string{gk}, Val: g.scalar()})
				g.done = true
			}
		}
	}
	if depth <= 0 {
		return
	}
	nsub := r.IntN(4)
	for i := 0; i < nsub; i++ {
		k := g.key(used)
		for underAoT && onlyDigits(k) {
			k = g.key(used) // an all-digit key below an array of tables is taken for an index: different failure, kept out
		}
		p := append(append([]string{}, path...), k)
		if underAoT {
			// a [table] or [[array]] below an element of an array of tables makes yq fail
			// (finding C14-toml-subtable-under-array-table): only with that feature on
			if g.feat != TFSubtableUnderArrayTable {
				continue
			}
			g.done = true
		}
		if r.IntN(3) == 0 {
			n := 1 + r.IntN(3)
			for j := 0; j < n; j++ {
				g.stmts = append(g.stmts, ref.TStmt{Kind: ref.TArrayTable, Path: p})
				hdr := len(g.stmts) - 1
				g.body(p, depth-1, true)
				// an element without key/values crashes the decoder (C11's business): always give it one
				g.leadKV(hdr, false)
			}
			g.tags["array_of_tables"] = true
			continue
		}
		if r.IntN(6) == 0 && depth > 1 {
			q := append(append([]string{}, p...), g.key(map[string]bool{}))
			g.stmts = append(g.stmts, ref.TStmt{Kind: ref.TTable, Path: q})
			hdr := len(g.stmts) - 1
			g.body(q, depth-2, underAoT)
			g.leadKV(hdr, true)
			g.tags["implicit_super_table"] = true
			if r.IntN(2) == 0 {
				// the super-table defined AFTER its sub-table: [p.q] ... [p]
				g.stmts = append(g.stmts, ref.TStmt{Kind: ref.TTable, Path: p})
				hdr := len(g.stmts) - 1
				g.body(p, 0, underAoT, q[len(q)-1])
				g.leadKV(hdr, false)
				g.tags["super_table_after_sub_table"] = true
			}
			continue
		}
		g.stmts = append(g.stmts, ref.TStmt{Kind: ref.TTable, Path: p})
		hdr := len(g.stmts) - 1
		g.body(p, depth-1, underAoT)
		g.leadKV(hdr, true)
		g.tags["table"] = true
	}
}

// C14TOMLDoc generates a TOML document as a statement list. dts are the date-time literals
// (ground truth carries them as strings spelled exactly like the literal).
func C14TOMLDoc(r *rand.Rand, feat C14TOMLFeature) (stmts []ref.TStmt, tags []string, placed bool, dts []string) {
	g := &c14Toml{r: r, tags: map[string]bool{}, feat: feat}
	g.body(nil, 3, false)
	if r.IntN(12) == 0 {
		// an empty table as the very last statement
		g.stmts = append(g.stmts, ref.TStmt{Kind: ref.TTable, Path: []string{"last-empty"}})
		g.tags["empty_table_last"] = true
	}
	return g.stmts, sortedTags(g.tags), g.done, g.dts
}
