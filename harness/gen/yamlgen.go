package gen

// genY — the presentation-carrying YAML generator (C05, C07).
//
// A ground-truth tree (YN) carries, next to the data, a presentation plan: per scalar a style
// (plain, single, double, literal, folded) chosen among those that can represent the text, per
// collection block/flow (flow only below a flow parent or as a comment-free subtree), head / line /
// foot comments on map entries, sequence items and at document start / end, anchors and aliases,
// explicit and custom tags, and per document the boundary markers ("---", "...", leading comment
// blocks, comment-only and empty documents). The text is written by the emitter in this file —
// not by yaml.v3's encoder and not by yq. YDocG.Node() renders the same ground truth as a
// yaml.v3 Node tree so that the harness extractors (ref.ExtractNode) can be applied to the truth and
// to yaml.v3's parse of the emitted text alike; any difference between the two is an emitter (or
// expectation) mistake and makes the case inconclusive ("generator_disagreement"), never an alarm.

import (
	"fmt"
	"math/rand/v2"
	"sort"
	"strings"

	yaml "gopkg.in/yaml.v3"
)

type YKind int

const (
	YScalar YKind = iota
	YMap
	YSeq
	YAlias
)

// YN is a node of the ground-truth tree.
type YN struct {
	Kind     YKind
	Tag      string // resolved short tag (!!str, !!int, !thing …)
	Explicit bool   // tag written in the text
	Value    string // scalar text (decoded)
	Style    string // plain|single|double|literal|folded / block|flow
	Anchor   string
	Target   *YN // alias target
	Keys     []*YN
	Vals     []*YN
	Items    []*YN
	// comments (entry level: on the key for map entries, on the item for sequence items)
	Head      []string
	Line      string
	Foot      []string
	FootBlank bool // a blank line follows the foot comment
	// emitter hints
	Src     string   // double-quoted source text (between the quotes)
	Lines   []string // folded/literal source lines
	Zero    bool     // empty plain null: no text at all
	Parent  *YN
	Escaped bool
}

// YDocG is one document of a generated stream.
type YDocG struct {
	Root       *YN
	Head       []string // document head comment lines
	HeadBlank  bool     // blank line after the head comment
	HeadBefore bool     // head comment is written before the "---" marker
	Foot       []string // document foot comment lines
	FootBlank  bool     // blank line before the foot comment
	Start      bool     // explicit "---"
	Inline     bool     // root starts on the "---" line
	End        bool     // explicit "..."
	Empty      bool     // no content at all (root is the implicit null)
}

// YStream is a generated stream.
type YStream struct {
	Docs []*YDocG
	Text string
	Feat map[string]bool // presentation features used (evidence tags)
	// ZeroDocs: the text is empty or holds comments only, no "---": a YAML reader sees no document at all.
	ZeroDocs bool
}

// YOpts tunes the generator.
type YOpts struct {
	MaxDocs       int
	MaxDepth      int
	MaxWidth      int
	RootScalars   bool // allow scalar roots
	NoTaggedEmpty bool // no `!!str` / `!unit` with nothing behind it (yaml.v3 attaches neighbouring comments to such nodes in its own way)
	EmptyDocs     bool // allow empty and comment-only documents
	Boundaries    bool // vary "---" / "..." / leading comment blocks
	SimpleKeys    bool // only keys addressable as .name (C07)
	NoDupAnchor   bool // every anchor name unique in the whole stream
}

func YDefault() YOpts {
	return YOpts{MaxDocs: 4, MaxDepth: 4, MaxWidth: 4, RootScalars: true, EmptyDocs: true, Boundaries: true}
}

type ygen struct {
	r    *rand.Rand
	o    YOpts
	cn   int
	an   int
	done []*YN
	cden int
	feat map[string]bool
}

// GenYAML generates a stream.
func GenYAML(r *rand.Rand, o YOpts) *YStream {
	g := &ygen{r: r, o: o, feat: map[string]bool{}}
	st := &YStream{Feat: g.feat}
	nd := 1
	if o.MaxDocs > 1 {
		switch r.IntN(10) {
		case 0, 1, 2, 3, 4:
			nd = 1
		case 5, 6, 7:
			nd = 2
		case 8:
			nd = 3
		default:
			nd = 1 + r.IntN(o.MaxDocs)
		}
	}
	for i := 0; i < nd; i++ {
		st.Docs = append(st.Docs, g.doc(i, nd))
	}
	for _, d := range st.Docs {
		// yaml.v3 never recognises a foot comment on the very first scalar of a stream (it becomes the head
		// comment of what follows). yq strips leading "---"/comment lines before yaml.v3 sees the text, so
		// which scalar is "first" differs between the two readers: keep that position comment-free.
		yClearFirstLeafFoot(d.Root)
	}
	for i, d := range st.Docs {
		// yaml.v3 drops comments that sit next to a comment-only document
		if d.Empty && len(d.Foot) > 0 {
			if i > 0 {
				st.Docs[i-1].Foot = nil
			}
			if i+1 < len(st.Docs) {
				st.Docs[i+1].Head = nil
				st.Docs[i+1].HeadBefore = false
			}
		}
	}
	st.Text = EmitYAML(st.Docs)
	if nd == 1 && st.Docs[0].Empty && !st.Docs[0].Start {
		st.ZeroDocs = true
		if len(st.Docs[0].Foot) > 0 {
			g.feat["bound:comment_only_file"] = true
		} else {
			g.feat["bound:empty_file"] = true
		}
	}
	g.feat[fmt.Sprintf("docs:%d", nd)] = true
	return st
}

func (g *ygen) comment() string {
	g.cn++
	switch g.r.IntN(12) {
	case 0:
		return fmt.Sprintf("#c%d", g.cn)
	case 1:
		return fmt.Sprintf("# c%d: with colon", g.cn)
	case 2:
		return fmt.Sprintf("# c%d 'q' \"dq\" #hash", g.cn)
	case 3:
		return fmt.Sprintf("# c%d é 日本", g.cn)
	case 4:
		return fmt.Sprintf("## c%d", g.cn)
	case 5:
		return fmt.Sprintf("# c%d - item [x] {y}", g.cn)
	default:
		return fmt.Sprintf("# c%d note", g.cn)
	}
}

func (g *ygen) comments() []string {
	if g.r.IntN(5) == 0 {
		return []string{g.comment(), g.comment()}
	}
	return []string{g.comment()}
}

func (g *ygen) hit(pct int) bool { return pct > 0 && g.r.IntN(100) < pct }

func (g *ygen) doc(i, nd int) *YDocG {
	r := g.r
	d := &YDocG{}
	if !g.o.NoDupAnchor {
		g.an = 0 // names are reused in later documents on purpose
	}
	g.done = nil
	switch r.IntN(10) {
	case 0, 1, 2:
		g.cden = 0
	case 3, 4, 5, 6:
		g.cden = 25
	default:
		g.cden = 60
	}
	d.Start = i > 0
	if g.o.Boundaries {
		if i == 0 && r.IntN(3) == 0 {
			d.Start = true
			g.feat["bound:leading_sep"] = true
		}
	}
	if i > 0 && d.Start {
		g.feat["bound:sep"] = true
	}
	// empty / comment-only documents
	if g.o.EmptyDocs && nd > 1 && r.IntN(9) == 0 || g.o.EmptyDocs && nd == 1 && r.IntN(40) == 0 {
		d.Empty = true
		d.Start = i > 0 || r.IntN(2) == 0 || nd > 1
		d.Root = &YN{Kind: YScalar, Tag: "!!null", Style: "plain", Zero: true}
		if r.IntN(2) == 0 {
			d.Foot = g.comments()
			g.feat["bound:comment_only_doc"] = true
			g.feat[fmt.Sprintf("bound:comment_only_doc@%s", yPosName(i, nd))] = true
		} else {
			g.feat["bound:empty_doc"] = true
		}
		return d
	}
	// root
	if g.o.RootScalars && g.o.Boundaries && i == 0 && r.IntN(40) == 0 {
		// the stream opens with leading content (a marker or a comment block) in front of an explicit null root
		d.Root = &YN{Kind: YScalar, Tag: "!!null", Value: []string{"~", "null", "Null", "NULL"}[r.IntN(4)], Style: "plain"}
		g.feat["root:scalar"] = true
		g.feat["root:explicit_null_first"] = true
		g.feat["type:null"] = true
		if !d.Start {
			if r.IntN(2) == 0 {
				d.Start = true
				g.feat["bound:leading_sep"] = true
			} else {
				g.cden = 100
			}
		}
	} else if g.o.RootScalars && r.IntN(25) == 0 {
		d.Root = g.scalar(false, true)
		g.feat["root:scalar"] = true
		if d.Root.Zero { // an empty root is the empty document
			d.Root = g.plainStr("rootscalar")
		}
		if g.hit(g.cden/2) && d.Root.Style != "literal" && d.Root.Style != "folded" {
			d.Root.Line = g.comment()
			g.feat["comment:line_root_scalar"] = true
		}
	} else {
		d.Root = g.collection(0, false, true)
	}
	if g.hit(g.cden) {
		d.Head = g.comments()
		d.HeadBlank = r.IntN(3) != 0
		g.feat["comment:doc_head"] = true
		if d.Start && g.o.Boundaries && r.IntN(2) == 0 {
			d.HeadBefore = true
			if i == 0 {
				g.feat["bound:comment_before_leading_sep"] = true
			} else {
				g.feat["bound:comment_before_sep"] = true
			}
		}
	}
	if g.hit(g.cden) {
		d.Foot = g.comments()
		d.FootBlank = r.IntN(3) != 0
		g.feat["comment:doc_foot"] = true
	}
	if g.o.Boundaries && r.IntN(12) == 0 {
		d.End = true
		g.feat["bound:end_marker"] = true
	}
	if d.Start && g.o.Boundaries && !d.HeadBefore && len(d.Head) == 0 && r.IntN(5) == 0 {
		// root on the marker line: only forms that may legally follow "--- "
		rt := d.Root
		if rt.Kind == YScalar || rt.Style == "flow" || rt.Anchor != "" || rt.Explicit {
			if !(rt.Kind != YScalar && rt.Style == "block" && len(yFirstHead(rt)) > 0) {
				d.Inline = true
				g.feat["bound:root_on_marker_line"] = true
			}
		}
	}
	return d
}

func yClearFirstLeafFoot(n *YN) {
	for n != nil {
		switch n.Kind {
		case YMap:
			if len(n.Keys) == 0 {
				return
			}
			n.Keys[0].Foot = nil
			n = n.Vals[0]
		case YSeq:
			if len(n.Items) == 0 {
				return
			}
			n.Items[0].Foot = nil
			n = n.Items[0]
		default:
			return
		}
	}
}

func yFirstHead(n *YN) []string {
	switch n.Kind {
	case YMap:
		if len(n.Keys) > 0 {
			return n.Keys[0].Head
		}
	case YSeq:
		if len(n.Items) > 0 {
			if len(n.Items[0].Head) > 0 {
				return n.Items[0].Head
			}
			if n.Items[0].Style == "block" && n.Items[0].Anchor == "" && !n.Items[0].Explicit {
				return yFirstHead(n.Items[0])
			}
		}
	}
	return nil
}

func yPosName(i, nd int) string {
	switch {
	case i == 0:
		return "first"
	case i == nd-1:
		return "last"
	}
	return "middle"
}

var yKeyPool = []string{"a", "b", "c", "d", "e", "name", "id", "k", "v", "x", "y", "list", "cfg", "key_1", "Z"}
var yOddKeys = []string{"with space", "dash-ed", "dot.ted", "é", "12", "true", "null", "a b c", "x/y", "~", "k:v", "# no", "it's", "", "0x1", "1.5"}

func (g *ygen) key(used map[string]bool) *YN {
	r := g.r
	for try := 0; try < 20; try++ {
		var k *YN
		if g.o.SimpleKeys || r.IntN(8) != 0 {
			s := yKeyPool[r.IntN(len(yKeyPool))]
			k = &YN{Kind: YScalar, Tag: "!!str", Value: s, Style: "plain"}
		} else {
			s := yOddKeys[r.IntN(len(yOddKeys))]
			k = g.strNode(s, true, true)
			if k.Style != "plain" {
				g.feat["key:quoted"] = true
			}
			if s == "12" && r.IntN(2) == 0 {
				k = &YN{Kind: YScalar, Tag: "!!int", Value: "12", Style: "plain"}
				g.feat["key:int"] = true
			}
		}
		if used[k.Value] {
			continue
		}
		used[k.Value] = true
		return k
	}
	g.an++
	s := fmt.Sprintf("u%d", len(used))
	for used[s] {
		s += "x"
	}
	used[s] = true
	return &YN{Kind: YScalar, Tag: "!!str", Value: s, Style: "plain"}
}

func (g *ygen) anchorName() string {
	g.an++
	switch g.r.IntN(4) {
	case 0:
		return fmt.Sprintf("anc%d", g.an)
	case 1:
		return fmt.Sprintf("a-%d", g.an)
	}
	return fmt.Sprintf("a%d", g.an)
}

// value generates a value node below depth; flow = inside a flow collection.
func (g *ygen) value(depth int, flow bool) *YN {
	r := g.r
	if len(g.done) > 0 && r.IntN(100) < 14 {
		t := g.done[r.IntN(len(g.done))]
		g.feat["alias"] = true
		switch t.Kind {
		case YScalar:
			g.feat["alias:scalar"] = true
		case YMap:
			g.feat["alias:map"] = true
		case YSeq:
			g.feat["alias:seq"] = true
		}
		return &YN{Kind: YAlias, Value: t.Anchor, Target: t}
	}
	if depth >= g.o.MaxDepth || r.IntN(100) < 50 {
		n := g.scalar(flow, false)
		if n.Anchor != "" {
			g.done = append(g.done, n)
		}
		return n
	}
	return g.collection(depth, flow, false)
}

func (g *ygen) props(n *YN, custom bool) {
	r := g.r
	if r.IntN(100) < 12 {
		n.Anchor = g.anchorName()
		g.feat["anchor"] = true
	}
	if custom && r.IntN(100) < 7 {
		n.Tag = []string{"!thing", "!t2", "!my-tag"}[r.IntN(3)]
		n.Explicit = true
		g.feat["tag:custom"] = true
	}
}

func (g *ygen) collection(depth int, flow bool, root bool) *YN {
	r := g.r
	n := &YN{}
	isMap := r.IntN(100) < 58
	if isMap {
		n.Kind, n.Tag = YMap, "!!map"
	} else {
		n.Kind, n.Tag = YSeq, "!!seq"
	}
	w := 1 + r.IntN(g.o.MaxWidth)
	if r.IntN(100) < 7 {
		w = 0
		g.feat["empty_collection"] = true
	}
	n.Style = "block"
	if flow || w == 0 || r.IntN(100) < 18 {
		n.Style = "flow"
	}
	if n.Style == "flow" && w > 0 {
		g.feat["style:flow"] = true
	}
	if n.Style == "block" {
		g.feat["style:block"] = true
	}
	g.props(n, true)
	if !n.Explicit && r.IntN(100) < 2 {
		n.Explicit = true // explicit !!map / !!seq
		g.feat["tag:explicit_collection"] = true
	}
	inFlow := n.Style == "flow"
	cd := g.cden
	if inFlow {
		cd = 0
	}
	used := map[string]bool{}
	for i := 0; i < w; i++ {
		if isMap {
			k := g.key(used)
			v := g.value(depth+1, inFlow)
			k.Parent, v.Parent = n, n
			n.Keys = append(n.Keys, k)
			n.Vals = append(n.Vals, v)
			g.entryComments(k, v, cd, "map")
		} else {
			v := g.value(depth+1, inFlow)
			v.Parent = n
			n.Items = append(n.Items, v)
			g.entryComments(v, v, cd, "seq")
		}
	}
	if n.Anchor != "" {
		g.done = append(g.done, n)
	}
	return n
}

// entryComments decorates one map entry (holder = key) or sequence item (holder = item).
func (g *ygen) entryComments(holder, v *YN, cd int, where string) {
	if cd == 0 {
		return
	}
	if g.hit(cd / 3) {
		holder.Head = g.comments()
		g.feat["comment:head_"+where] = true
	}
	if g.hit(cd / 3) {
		switch {
		case v.Kind == YAlias:
			v.Line = g.comment()
			g.feat["comment:line_alias"] = true
		case v.Kind == YScalar && !v.Zero && v.Style != "literal" && v.Style != "folded":
			v.Line = g.comment()
			g.feat["comment:line_scalar_"+where] = true
		case v.Kind != YScalar && v.Style == "flow":
			v.Line = g.comment()
			g.feat["comment:line_flow_"+where] = true
		case v.Kind != YScalar && v.Style == "block" && where == "map" && yPropText(v) == "":
			holder.Line = g.comment()
			g.feat["comment:line_key_of_block"] = true
		}
	}
	// foot comments only after a value that ends on the entry's own line: yaml.v3 reorders or drops
	// own-line comments that follow a deeper-indented subtree
	inlineLeaf := v.Kind == YAlias || v.Kind == YScalar && !yIsBlockScalar(v) || v.Kind != YScalar && v.Style == "flow"
	if inlineLeaf && g.hit(cd/3) {
		holder.Foot = g.comments()
		holder.FootBlank = g.r.IntN(2) == 0
		g.feat["comment:foot_"+where] = true
		if holder.FootBlank {
			g.feat["comment:foot_then_blank"] = true
		}
	}
}

// ---- scalars ---------------------------------------------------------------------------------

var yInts = []string{"0", "1", "-1", "12", "42", "-7", "100", "65536", "0x1F", "0o17", "0644", "007", "-007", "00", "1_000", "+3", "9223372036854775807", "123456789012345678901"}
var yFloats = []string{"1.5", "-2.25", "1e3", "3.0", "1.50", "6.02e+23", ".inf", "-.inf", ".nan", "0.1"}
var yBools = []string{"true", "false", "True", "FALSE"}
var yNulls = []string{"null", "~", "Null", ""}

var yMulti = []string{"line1\nline2", "line1\nline2\n", "a\n\nb\n", "one two\nthree four\n", "x\ny\nz", "keep\n\n", "para one\npara two", "tail\n\n\n",
	"# not a comment\nsecond\n", "key: value\n- item\n", "日本\n語\n", "'q'\n\"dq\"\n", "a\n  indented\nb\n",
	// lines that look like YAML syntax of their own: an alias used as a key, an anchor, a merge, a document marker, a tag
	"*new: added in this release\nsecond\n", "intro\n*a: b\n&x y: z\n", "<<: *base\nk: v\n", "text\n--- not a marker\n", "!!str: t\n? q\n: r\n"}

var yFoldable = []string{"*new: added\n", "*a: b c\n*d : e\n", "one two three", "one two three\n", "alpha beta\ngamma delta\n", "w1 w2 w3 w4 w5 w6", "p1 q1\np2 q2", "word\n", "x y",
	"para one\n\npara two\n", "a b\n\n\nc d", "p1 q1\n\np2 q2", "one\n\ntwo three\nfour\n"}

func (g *ygen) plainStr(s string) *YN {
	return &YN{Kind: YScalar, Tag: "!!str", Value: s, Style: "plain"}
}

// scalar generates a scalar value node. root = document root (no zero-width null).
func (g *ygen) scalar(flow bool, root bool) *YN {
	r := g.r
	var n *YN
	switch r.IntN(20) {
	case 0, 1, 2:
		n = &YN{Kind: YScalar, Tag: "!!int", Value: yInts[r.IntN(len(yInts))], Style: "plain"}
		if n.Value == "123456789012345678901" {
			n.Tag = "!!float" // yaml.v3 resolves an integer beyond uint64 as a float
		}
		g.feat["type:int"] = true
	case 3:
		n = &YN{Kind: YScalar, Tag: "!!float", Value: yFloats[r.IntN(len(yFloats))], Style: "plain"}
		g.feat["type:float"] = true
	case 4:
		n = &YN{Kind: YScalar, Tag: "!!bool", Value: yBools[r.IntN(len(yBools))], Style: "plain"}
		g.feat["type:bool"] = true
	case 5:
		n = &YN{Kind: YScalar, Tag: "!!null", Value: yNulls[r.IntN(len(yNulls))], Style: "plain"}
		if n.Value == "" {
			if flow || root {
				n.Value = "null"
			} else {
				n.Zero = true
				g.feat["type:null_empty"] = true
				return n // no properties on a zero-width node
			}
		}
		g.feat["type:null"] = true
	case 6:
		n = &YN{Kind: YScalar, Tag: "!!timestamp", Value: "2001-12-14", Style: "plain"}
		g.feat["type:timestamp"] = true
	case 7:
		// explicitly tagged scalars
		switch r.IntN(7) {
		case 0:
			n = &YN{Kind: YScalar, Tag: "!!str", Value: "12", Style: "plain", Explicit: true}
		case 1:
			n = &YN{Kind: YScalar, Tag: "!!int", Value: "3", Style: "double", Src: "3", Explicit: true}
		case 2:
			n = &YN{Kind: YScalar, Tag: "!!str", Value: "true", Style: "plain", Explicit: true}
		case 3:
			n = &YN{Kind: YScalar, Tag: "!!float", Value: "1", Style: "plain", Explicit: true}
		case 4:
			n = &YN{Kind: YScalar, Tag: "!thing", Value: "x1", Style: "plain", Explicit: true}
			if r.IntN(3) == 0 {
				// a global (URI) tag: not the local tag of the same spelling
				n.Tag = []string{"tag:example.com,2000:foo", "urn:x-thing", "tag:clarkevans.com,2002:circle"}[r.IntN(3)]
				g.feat["tag:global"] = true
			}
			g.feat["tag:custom"] = true
		case 5:
			n = &YN{Kind: YScalar, Tag: "!t2", Value: "q q", Style: "single", Explicit: true}
			g.feat["tag:custom"] = true
		default:
			n = &YN{Kind: YScalar, Tag: "!!str", Value: "plain text", Style: "plain", Explicit: true}
		}
		if r.IntN(4) == 0 && !root && !g.o.NoTaggedEmpty {
			// a tag with nothing behind it: the empty text of that type (the empty STRING for !!str, not a null)
			if r.IntN(2) == 0 {
				n = &YN{Kind: YScalar, Tag: "!!str", Value: "", Style: "plain", Explicit: true}
			} else {
				n = &YN{Kind: YScalar, Tag: "!unit", Value: "", Style: "plain", Explicit: true}
				g.feat["tag:custom"] = true
			}
			g.feat["tag:explicit_empty"] = true
		}
		g.feat["tag:explicit_scalar"] = true
	case 8, 9:
		if flow {
			n = g.strNode(Str(r, false), false, true)
		} else if r.IntN(3) == 0 {
			n = g.foldedNode(yFoldable[r.IntN(len(yFoldable))])
		} else {
			n = g.strNode(yMulti[r.IntN(len(yMulti))], false, false)
		}
	default:
		n = g.strNode(Str(r, false), false, flow)
	}
	g.feat["style:"+n.Style] = true
	if r.IntN(100) < 9 {
		n.Anchor = g.anchorName()
		g.feat["anchor"] = true
		g.feat["anchor:scalar"] = true
	}
	return n
}

var yReserved = map[string]bool{"null": true, "true": true, "false": true, "yes": true, "no": true, "on": true, "off": true, "y": true, "n": true, "nan": true, "inf": true}

func yPrintable(c rune) bool {
	switch {
	case c >= 0x20 && c <= 0x7e:
		return true
	case c >= 0xa1 && c <= 0xd7ff:
		return c != 0x2028 && c != 0x2029 && c != 0xad
	case c >= 0xe000 && c <= 0xfffd:
		return c != 0xfeff
	case c >= 0x10000 && c <= 0x10ffff:
		return true
	}
	return false
}

// yPlainSafe: a deliberately narrow set of strings that are plain scalars resolving to !!str in
// block and flow context alike.
func yPlainSafe(s string) bool {
	if s == "" || yReserved[strings.ToLower(s)] {
		return false
	}
	rs := []rune(s)
	f := rs[0]
	if !(f >= 'a' && f <= 'z' || f >= 'A' && f <= 'Z' || f == '_' || f >= 0xa1 && yPrintable(f)) {
		return false
	}
	for _, c := range rs {
		if c >= 0xa1 {
			if !yPrintable(c) {
				return false
			}
			continue
		}
		if !(c >= 'a' && c <= 'z' || c >= 'A' && c <= 'Z' || c >= '0' && c <= '9' || strings.ContainsRune("_ ./+@%=~^$()-", c)) {
			return false
		}
	}
	l := rs[len(rs)-1]
	return l != ' '
}

func yAllPrintable(s string) bool {
	for _, c := range s {
		if !yPrintable(c) {
			return false
		}
	}
	return true
}

func yLiteralOK(s string) bool {
	if s == "" || strings.Trim(s, "\n") == "" {
		return false
	}
	body := strings.TrimRight(s, "\n")
	if len(s)-len(body) > 1 {
		return false // keep chomping ("|+") swallows the blank lines the emitter may put after the scalar
	}
	for i, ln := range strings.Split(body, "\n") {
		if !yAllPrintable(ln) {
			return false
		}
		if i == 0 && (ln == "" || ln[0] == ' ') {
			return false
		}
		if strings.HasSuffix(ln, " ") {
			return false
		}
		if strings.HasPrefix(ln, "---") || strings.HasPrefix(ln, "...") {
			return false
		}
	}
	return true
}

// strNode picks a style for a string among those that can represent it.
func (g *ygen) strNode(s string, key bool, flow bool) *YN {
	r := g.r
	n := &YN{Kind: YScalar, Tag: "!!str", Value: s}
	var styles []string
	if yPlainSafe(s) {
		styles = append(styles, "plain", "plain", "plain")
	}
	if yAllPrintable(s) {
		styles = append(styles, "single")
	}
	styles = append(styles, "double")
	if !key && !flow && yLiteralOK(s) {
		styles = append(styles, "literal", "literal")
	}
	n.Style = styles[r.IntN(len(styles))]
	if n.Style == "double" {
		n.Src, n.Escaped = yDqEscape(s, r)
		if n.Escaped {
			g.feat["double:escapes"] = true
		}
	}
	if strings.Contains(s, "\n") {
		g.feat["text:multiline"] = true
	}
	if !yPlainSafe(s) && s != "" {
		g.feat["text:needs_quoting"] = true
	}
	return n
}

// foldedNode builds a folded scalar from paragraphs of words (single newlines between paragraphs).
func (g *ygen) foldedNode(s string) *YN {
	n := &YN{Kind: YScalar, Tag: "!!str", Value: s, Style: "folded"}
	body := strings.TrimSuffix(s, "\n")
	for pi, para := range strings.Split(body, "\n") {
		if pi > 0 {
			n.Lines = append(n.Lines, "")
		}
		if para == "" {
			continue // one more line break between two paragraphs: one more empty line
		}
		words := strings.Split(para, " ")
		cur := words[0]
		for _, w := range words[1:] {
			if g.r.IntN(3) == 0 {
				n.Lines = append(n.Lines, cur)
				cur = w
			} else {
				cur += " " + w
			}
		}
		n.Lines = append(n.Lines, cur)
	}
	return n
}

func yDqEscape(s string, r *rand.Rand) (string, bool) {
	var b strings.Builder
	esc := false
	uni := r.IntN(4) == 0
	for _, c := range s {
		switch {
		case c == '"':
			b.WriteString(`\"`)
			esc = true
		case c == '\\':
			b.WriteString(`\\`)
			esc = true
		case c == '\n':
			b.WriteString(`\n`)
			esc = true
		case c == '\t':
			b.WriteString(`\t`)
			esc = true
		case c == '\r':
			b.WriteString(`\r`)
			esc = true
		case c == 0x85:
			b.WriteString(`\N`)
			esc = true
		case c == 0xa0:
			b.WriteString(`\_`)
			esc = true
		case c == 0x2028:
			b.WriteString(`\L`)
			esc = true
		case c == 0x2029:
			b.WriteString(`\P`)
			esc = true
		case c < 0x20 || c == 0x7f:
			fmt.Fprintf(&b, `\x%02X`, c)
			esc = true
		case c < 0x7f:
			b.WriteRune(c)
		case !yPrintable(c) || uni:
			if c > 0xffff {
				fmt.Fprintf(&b, `\U%08X`, c)
			} else {
				fmt.Fprintf(&b, `\u%04X`, c)
			}
			esc = true
		default:
			b.WriteRune(c)
		}
	}
	return b.String(), esc
}

// ---- emitter -----------------------------------------------------------------------------------

type yline struct {
	ind     int
	text    string
	comment bool
	raw     bool // text is written without indentation handling (blank line)
}

func ySp(n int) string { return strings.Repeat(" ", n) }

func yPropText(n *YN) string {
	var p []string
	if n.Anchor != "" {
		p = append(p, "&"+n.Anchor)
	}
	if n.Explicit {
		if strings.HasPrefix(n.Tag, "!") {
			p = append(p, n.Tag)
		} else {
			p = append(p, "!<"+n.Tag+">") // a global tag, written verbatim
		}
	}
	return strings.Join(p, " ")
}

func yJoin2(a, b string) string {
	switch {
	case a == "":
		return b
	case b == "":
		return a
	}
	return a + " " + b
}

// yInlineScalar renders a non-block scalar (or alias) with its properties.
func yInlineScalar(n *YN) string {
	if n.Kind == YAlias {
		return "*" + n.Value
	}
	var t string
	switch n.Style {
	case "plain":
		t = n.Value
	case "single":
		t = "'" + strings.ReplaceAll(n.Value, "'", "''") + "'"
	case "double":
		t = `"` + n.Src + `"`
	}
	return yJoin2(yPropText(n), t)
}

func yFlowText(n *YN) string {
	switch n.Kind {
	case YScalar, YAlias:
		if n.Kind == YScalar && n.Explicit && n.Value == "" && n.Style == "plain" {
			return yInlineScalar(n) + " " // a tag with nothing behind it needs a blank before `,` `]` `}`
		}
		return yInlineScalar(n)
	case YMap:
		var parts []string
		for i, k := range n.Keys {
			parts = append(parts, yInlineScalar(k)+": "+yFlowText(n.Vals[i]))
		}
		return yJoin2(yPropText(n), "{"+strings.Join(parts, ", ")+"}")
	default:
		var parts []string
		for _, v := range n.Items {
			parts = append(parts, yFlowText(v))
		}
		return yJoin2(yPropText(n), "["+strings.Join(parts, ", ")+"]")
	}
}

func yIsBlockScalar(n *YN) bool {
	return n.Kind == YScalar && (n.Style == "literal" || n.Style == "folded")
}

func yBlockScalarHeader(n *YN) string {
	h := "|"
	if n.Style == "folded" {
		h = ">"
	}
	trail := len(n.Value) - len(strings.TrimRight(n.Value, "\n"))
	switch {
	case trail == 0:
		h += "-"
	case trail > 1:
		h += "+"
	}
	return yJoin2(yPropText(n), h)
}

func yBlockScalarBody(n *YN, ind int) []yline {
	var out []yline
	var lines []string
	if n.Style == "folded" {
		lines = n.Lines
	} else {
		lines = strings.Split(strings.TrimRight(n.Value, "\n"), "\n")
	}
	for _, ln := range lines {
		if ln == "" {
			out = append(out, yline{raw: true})
		} else {
			out = append(out, yline{ind: ind, text: ln})
		}
	}
	trail := len(n.Value) - len(strings.TrimRight(n.Value, "\n"))
	for i := 1; i < trail; i++ {
		out = append(out, yline{raw: true})
	}
	return out
}

func yCommentLines(cs []string, ind int) []yline {
	var out []yline
	for _, c := range cs {
		out = append(out, yline{ind: ind, text: c, comment: true})
	}
	return out
}

func yWithLine(text, lc string) string {
	if lc == "" {
		return text
	}
	return text + " " + lc
}

// yValueLines renders "<lead><value>" where lead is "key:" or "-"; the value either continues the
// lead line or follows on deeper lines.
func yValueLines(lead string, keyLine string, v *YN, ind int, compact bool) []yline {
	switch {
	case v.Kind == YScalar && v.Zero:
		return []yline{{ind: ind, text: yWithLine(lead, keyLine)}}
	case yIsBlockScalar(v):
		out := []yline{{ind: ind, text: lead + " " + yBlockScalarHeader(v)}}
		return append(out, yBlockScalarBody(v, ind+2)...)
	case v.Kind == YScalar || v.Kind == YAlias:
		return []yline{{ind: ind, text: yWithLine(lead+" "+yInlineScalar(v), v.Line)}}
	case v.Style == "flow":
		return []yline{{ind: ind, text: yWithLine(lead+" "+yFlowText(v), v.Line)}}
	}
	// non-empty block collection
	child := yBlockLines(v, ind+2)
	pt := yPropText(v)
	if compact && pt == "" {
		// "- key: v" / "- - x": the first content line joins the dash; comments before it move up
		for i := range child {
			if child[i].comment || child[i].raw {
				if child[i].comment {
					child[i].ind = ind
				}
				continue
			}
			child[i].ind = ind
			child[i].text = lead + " " + child[i].text
			break
		}
		return child
	}
	first := lead
	if pt != "" {
		first += " " + pt
	}
	return append([]yline{{ind: ind, text: yWithLine(first, keyLine)}}, child...)
}

func yBlockLines(n *YN, ind int) []yline {
	var out []yline
	if n.Kind == YMap {
		for i, k := range n.Keys {
			v := n.Vals[i]
			out = append(out, yCommentLines(k.Head, ind)...)
			out = append(out, yValueLines(yInlineScalar(k)+":", k.Line, v, ind, false)...)
			out = append(out, yCommentLines(k.Foot, ind)...)
			if len(k.Foot) > 0 && k.FootBlank {
				out = append(out, yline{raw: true})
			}
		}
		return out
	}
	for _, v := range n.Items {
		out = append(out, yCommentLines(v.Head, ind)...)
		out = append(out, yValueLines("-", "", v, ind, true)...)
		out = append(out, yCommentLines(v.Foot, ind)...)
		if len(v.Foot) > 0 && v.FootBlank {
			out = append(out, yline{raw: true})
		}
	}
	return out
}

// EmitYAML writes the documents.
func EmitYAML(docs []*YDocG) string {
	var sb strings.Builder
	put := func(ls []yline) {
		for _, l := range ls {
			if l.raw {
				sb.WriteByte('\n')
				continue
			}
			sb.WriteString(ySp(l.ind) + l.text + "\n")
		}
	}
	for _, d := range docs {
		head := func() {
			put(yCommentLines(d.Head, 0))
			if len(d.Head) > 0 && d.HeadBlank {
				sb.WriteByte('\n')
			}
		}
		if d.HeadBefore {
			head()
		}
		rt := d.Root
		inline := ""
		var body []yline
		if !d.Empty {
			switch {
			case yIsBlockScalar(rt):
				inline = yBlockScalarHeader(rt)
				body = yBlockScalarBody(rt, 2)
			case rt.Kind == YScalar || rt.Kind == YAlias:
				inline = yWithLine(yInlineScalar(rt), rt.Line)
			case rt.Style == "flow":
				inline = yWithLine(yFlowText(rt), rt.Line)
			default:
				body = yBlockLines(rt, 0)
				inline = yPropText(rt)
			}
		}
		if d.Start {
			if d.Inline && inline != "" {
				sb.WriteString("--- " + inline + "\n")
				inline = ""
			} else {
				sb.WriteString("---\n")
			}
		}
		if !d.HeadBefore {
			head()
		}
		if inline != "" {
			sb.WriteString(inline + "\n")
		}
		put(body)
		if len(d.Foot) > 0 && d.FootBlank {
			sb.WriteByte('\n')
		}
		put(yCommentLines(d.Foot, 0))
		if d.End {
			sb.WriteString("...\n")
		}
	}
	return sb.String()
}

// ---- ground truth as yaml.v3 nodes -----------------------------------------------------------------

func yStyle(n *YN) yaml.Style {
	var s yaml.Style
	switch n.Style {
	case "single":
		s = yaml.SingleQuotedStyle
	case "double":
		s = yaml.DoubleQuotedStyle
	case "literal":
		s = yaml.LiteralStyle
	case "folded":
		s = yaml.FoldedStyle
	case "flow":
		s = yaml.FlowStyle
	}
	if n.Explicit {
		s |= yaml.TaggedStyle
	}
	return s
}

func (n *YN) node(m map[*YN]*yaml.Node) *yaml.Node {
	y := &yaml.Node{Tag: n.Tag, Value: n.Value, Style: yStyle(n), Anchor: n.Anchor,
		HeadComment: strings.Join(n.Head, "\n"), LineComment: n.Line, FootComment: strings.Join(n.Foot, "\n")}
	m[n] = y
	switch n.Kind {
	case YScalar:
		y.Kind = yaml.ScalarNode
	case YAlias:
		y.Kind = yaml.AliasNode
		y.Tag = ""
		y.Alias = m[n.Target]
	case YMap:
		y.Kind = yaml.MappingNode
		for i, k := range n.Keys {
			y.Content = append(y.Content, k.node(m), n.Vals[i].node(m))
		}
	case YSeq:
		y.Kind = yaml.SequenceNode
		for _, v := range n.Items {
			y.Content = append(y.Content, v.node(m))
		}
	}
	return y
}

// Node renders the ground truth of the document as a yaml.v3 document node.
func (d *YDocG) Node() *yaml.Node {
	m := map[*YN]*yaml.Node{}
	return &yaml.Node{Kind: yaml.DocumentNode, HeadComment: strings.Join(d.Head, "\n"), FootComment: strings.Join(d.Foot, "\n"),
		Content: []*yaml.Node{d.Root.node(m)}}
}

// Features lists the presentation features of the stream in sorted order.
func (s *YStream) Features() []string {
	var out []string
	for k := range s.Feat {
		out = append(out, k)
	}
	sort.Strings(out)
	return out
}

// Walk visits every value node of a document pre-order with its path.
func (n *YN) Walk(p []any, f func(p []any, n *YN)) {
	f(p, n)
	switch n.Kind {
	case YMap:
		for i, k := range n.Keys {
			n.Vals[i].Walk(append(append([]any{}, p...), k.Value), f)
		}
	case YSeq:
		for i, v := range n.Items {
			v.Walk(append(append([]any{}, p...), i), f)
		}
	}
}
