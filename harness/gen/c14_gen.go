package gen

import (
	"math"
	"math/big"
	"math/rand/v2"
	"sort"
	"strconv"
	"strings"

	"verifharness/ref"
)

// Generators of C14 (codec faithfulness): values inside each format's representable domain,
// XML element trees and TOML statement lists. Every out-of-domain shape that is kept out here is
// listed in the Assumptions of props/c14.go.

// C14Text returns a string for scalar positions: torture strings, plain words, random unicode.
// Always valid UTF-8 without NUL.
func C14Text(r *rand.Rand) string {
	switch r.IntN(12) {
	case 0:
		return []string{"  lead", " x", "trail  ", " both ", "a  b", "\ttab lead", "x\t", "two\nlines", "cr\rlf\r\nmix", "ff\fx",
			"back\\slash", "\\", "\\n", "a\\", "q\"uote", "it's", "k=v", "a:b", "#hash", "!bang", "a,b", "a;b", "semi;", "\"", "\"\"", ",", "]]", "]]>", "<tag>", "&amp;", "a&b", "100%", "a+b", "a b+c", "~", "é", "日本語", "😀", "a😀b", "mixed é 日 😀 end"}[r.IntN(40)]
	default:
		s := Str(r, false)
		if s == "<<" {
			return "<< " // as a KEY "<<" is the YAML merge key of the input channel (C13's business)
		}
		return s
	}
}

// ---- properties --------------------------------------------------------------------------

var c14PropKeys = []string{"a", "b", "c", "key", "name", "x1", "my-key", "my_key", "with space", "a=b", "a:b", "k:", "=", "#hash", "!bang", "mid#dle", "mid!dle",
	"tab\tkey", "é", "日本", "😀k", "back\\slash", "UPPER", "a b c", " lead", "trail ", "q\"k", "it's", "[0]", "a[1]", "%", "$x", "@", "~", "1a", "a1", "-", "_", "0x1f", "1e3x", "x y=z:w", "a*", "*", "a?", "?", "*a", "n*me"}

// C14PropKey returns a property key inside the domain: non-empty, no '.', not an integer
// spelling (those denote nesting / array positions).
func C14PropKey(r *rand.Rand) string {
	for {
		var k string
		if r.IntN(4) == 0 {
			k = C14Text(r)
		} else {
			k = c14PropKeys[r.IntN(len(c14PropKeys))]
		}
		if k == "" || strings.Contains(k, ".") || strings.ContainsAny(k, "*?") || strings.ContainsAny(k, "\n\r") {
			continue
		}
		if _, err := strconv.ParseInt(k, 10, 64); err == nil {
			continue
		}
		return k
	}
}

// C14PropsValue: nested maps / sequences without empty containers, root is a map.
func C14PropsValue(r *rand.Rand, depth int, stringsOnly bool) *ref.V {
	return c14PropsVal(r, depth, true, stringsOnly)
}

func c14PropsVal(r *rand.Rand, depth int, root, stringsOnly bool) *ref.V {
	if !root && (depth <= 0 || r.IntN(100) < 55) {
		if stringsOnly || r.IntN(5) != 0 {
			return ref.StrV(C14Text(r))
		}
		switch r.IntN(4) {
		case 0:
			return ref.IntV(int64(r.IntN(2000) - 1000))
		case 1:
			return ref.BoolV(r.IntN(2) == 0)
		case 2:
			return ref.FloatV(float64(r.IntN(2000)-1000) / 8)
		default:
			return ref.NullV()
		}
	}
	w := 1 + r.IntN(4)
	if root || r.IntN(3) != 0 {
		m := &ref.V{K: ref.Map, M: []ref.KV{}}
		for i := 0; i < w; i++ {
			k := C14PropKey(r)
			if _, dup := m.Get(k); dup {
				continue
			}
			m.M = append(m.M, ref.KV{K: k, V: c14PropsVal(r, depth-1, false, stringsOnly)})
		}
		return m
	}
	s := &ref.V{K: ref.Seq, A: []*ref.V{}}
	for i := 0; i < w; i++ {
		s.A = append(s.A, c14PropsVal(r, depth-1, false, stringsOnly))
	}
	return s
}

// ---- XML ---------------------------------------------------------------------------------

var c14XMLNames = []string{"a", "b", "c", "item", "row", "x1", "my-el", "my.el", "_u", "Name", "élan", "data", "k", "v", "list", "entry"}
var c14XMLAttrNames = []string{"id", "name", "x", "y", "lang", "data-k", "a.b", "_p", "Href", "é"}

// c14XMLEdge returns a rune that no reader trims (letters, digits, punctuation).
func c14XMLEdge(r *rand.Rand) string {
	return []string{"a", "Z", "0", "9", "é", "日", "😀", ".", "!", "-", "(", ")", "/", "&", "<", ">", "\"", "'", ";", "#", "x", "q"}[r.IntN(22)]
}

func c14XMLValidRune(c rune) bool {
	if c == '\t' || c == '\n' || c == '\r' {
		return true
	}
	if c < 0x20 || c == 0xFFFE || c == 0xFFFF || (c >= 0xD800 && c <= 0xDFFF) {
		return false
	}
	// stay clear of runes some tool may treat as non-characters or trim as "non graphic" at the edges
	return true
}

// C14XMLAny: any string of valid XML characters (may be empty, may have blank edges).
func C14XMLAny(r *rand.Rand) string {
	s := C14Text(r)
	var sb strings.Builder
	for _, c := range s {
		if c14XMLValidRune(c) && c != 0x7f && !(c >= 0x80 && c <= 0x9f) {
			sb.WriteRune(c)
		}
	}
	return sb.String()
}

// C14XMLTrimmed: non-empty, first and last rune are ones nobody trims.
func C14XMLTrimmed(r *rand.Rand) string {
	mid := C14XMLAny(r)
	if r.IntN(4) == 0 {
		return c14XMLEdge(r)
	}
	return c14XMLEdge(r) + mid + c14XMLEdge(r)
}

// C14XMLOpts tunes the tree generator.
type C14XMLOpts struct {
	Prefixed bool // element names with a namespace prefix (finding feature)
	CData    bool
	Comments bool
	ProcInst bool
	Mixed    bool
}

// C14XMLTree generates a pseudo-root with optional declaration/doctype and one root element.
func C14XMLTree(r *rand.Rand, o C14XMLOpts) (*ref.XNode, []string) {
	tags := map[string]bool{}
	root := &ref.XNode{Kind: ref.XElem}
	if r.IntN(3) == 0 {
		inst := []string{`version="1.0"`, `version="1.0" encoding="UTF-8"`, `version="1.0" standalone="yes"`}[r.IntN(3)]
		root.Kids = append(root.Kids, &ref.XNode{Kind: ref.XProcInst, Name: "xml", Text: inst})
		tags["decl"] = true
	}
	if r.IntN(6) == 0 {
		root.Kids = append(root.Kids, &ref.XNode{Kind: ref.XDirective, Text: []string{`DOCTYPE root SYSTEM "a.dtd"`, `DOCTYPE x PUBLIC "-//W3C//DTD X 1.0//EN" "http://e/x.dtd"`, `DOCTYPE r [<!ENTITY w "B">]`}[r.IntN(3)]})
		tags["directive"] = true
	}
	if o.Comments && r.IntN(3) == 0 {
		root.Kids = append(root.Kids, &ref.XNode{Kind: ref.XComment, Text: " before root "})
		tags["comment"] = true
	}
	root.Kids = append(root.Kids, c14XElem(r, o, 3, "root", tags))
	if r.IntN(8) == 0 {
		// a second top-level element (yq writes one per top-level key, so it must read them too)
		root.Kids = append(root.Kids, c14XElem(r, o, 1, "second", tags))
		tags["multi_root"] = true
	}
	return root, sortedTags(tags)
}

func c14XElem(r *rand.Rand, o C14XMLOpts, depth int, name string, tags map[string]bool) *ref.XNode {
	n := &ref.XNode{Kind: ref.XElem, Name: name}
	if o.Prefixed && r.IntN(2) == 0 {
		n.Name = []string{"ns", "x", "soap"}[r.IntN(3)] + ":" + name
		tags["prefixed_element"] = true
	}
	na := 0
	if r.IntN(3) == 0 {
		na = 1 + r.IntN(3)
	}
	used := map[string]bool{}
	for i := 0; i < na; i++ {
		an := c14XMLAttrNames[r.IntN(len(c14XMLAttrNames))]
		if r.IntN(8) == 0 {
			an = []string{"xml:lang", "xmlns:ns", "xsi:type"}[r.IntN(3)]
			tags["prefixed_attr"] = true
		}
		if used[an] {
			continue
		}
		used[an] = true
		n.Attrs = append(n.Attrs, ref.XAttr{Name: an, Value: C14XMLAny(r)})
		tags["attrs"] = true
	}
	text := func() *ref.XNode {
		t := C14XMLTrimmed(r)
		if o.CData && r.IntN(4) == 0 && !strings.Contains(t, "]]>") && !strings.Contains(t, "\r") {
			tags["cdata"] = true
			return &ref.XNode{Kind: ref.XCData, Text: t}
		}
		// surrounding blanks that the mapping trims
		switch r.IntN(5) {
		case 0:
			t = "  " + t
		case 1:
			t = t + "\n  "
		case 2:
			t = "\n\t" + t + " \n"
		}
		if strings.ContainsAny(t, "<&>\"'") {
			tags["entities"] = true
		}
		return &ref.XNode{Kind: ref.XText, Text: t}
	}
	switch k := r.IntN(10); {
	case k == 0 || depth <= 0 && k < 3:
		// empty element
		n.SelfClose = r.IntN(2) == 0
		tags["empty_element"] = true
	case k < 5 || depth <= 0:
		n.Kids = append(n.Kids, text())
		if o.Comments && r.IntN(6) == 0 {
			// a comment splits the text into two chunks (documented: collected into a sequence)
			n.Kids = append(n.Kids, &ref.XNode{Kind: ref.XComment, Text: " split "}, text())
			tags["comment_split_text"] = true
		}
	default:
		// children; adjacent repeats become sequences
		if o.Mixed && r.IntN(4) == 0 {
			n.Kids = append(n.Kids, text())
			tags["mixed_content"] = true
		}
		nk := 1 + r.IntN(4)
		usedK := map[string]bool{}
		for i := 0; i < nk; i++ {
			cn := c14XMLNames[r.IntN(len(c14XMLNames))]
			if usedK[cn] {
				if r.IntN(2) == 0 {
					continue
				}
				tags["nonadjacent_repeat"] = true // <item/><name/><item/>: the same name again after another element
			}
			usedK[cn] = true
			reps := 1
			if r.IntN(3) == 0 {
				reps = 2 + r.IntN(3)
				tags["repeated_children"] = true
			}
			for j := 0; j < reps; j++ {
				if o.Comments && r.IntN(8) == 0 {
					n.Kids = append(n.Kids, &ref.XNode{Kind: ref.XComment, Text: " c "})
					tags["comment"] = true
				}
				n.Kids = append(n.Kids, c14XElem(r, C14XMLOpts{CData: o.CData, Comments: o.Comments, ProcInst: o.ProcInst, Mixed: o.Mixed}, depth-1, cn, tags))
			}
			if o.ProcInst && r.IntN(10) == 0 && !usedK["<pi>"] {
				usedK["<pi>"] = true
				// (targets that begin with a character of the default prefix `+p_` are targets like any other)
				n.Kids = append(n.Kids, &ref.XNode{Kind: ref.XProcInst, Name: []string{"target", "php", "pipeline", "_dbg", "plugin", "p", "xml-stylesheet", "pp_x"}[r.IntN(8)], Text: "some data"})
				tags["inner_procinst"] = true
			}
		}
		if o.Mixed && r.IntN(6) == 0 {
			n.Kids = append(n.Kids, text())
			tags["mixed_content"] = true
		}
		tags["nesting"] = true
	}
	return n
}

// C14XMLValue generates a value of the XML domain in canonical (decoder) key order:
// [content] attributes children. Leaves are strings (typed=false) or also numbers/booleans.
func C14XMLValue(r *rand.Rand, m ref.XMLMap, typed, trimmedLeaves bool) (*ref.V, []string) {
	tags := map[string]bool{}
	root := &ref.V{K: ref.Map, M: []ref.KV{}}
	if r.IntN(4) == 0 {
		root.M = append(root.M, ref.KV{K: m.ProcInstPfx + "xml", V: ref.StrV(`version="1.0" encoding="UTF-8"`)})
		tags["decl"] = true
	}
	if r.IntN(4) == 0 {
		// a processing instruction of the document's own (targets that begin with a character of the prefix included)
		root.M = append(root.M, ref.KV{K: m.ProcInstPfx + []string{"php", "pipeline", "_dbg", "plugin", "xml-stylesheet", "p", "target", "pp_x"}[r.IntN(8)], V: ref.StrV(`some="data"`)})
		tags["procinst"] = true
	}
	if r.IntN(8) == 0 {
		root.M = append(root.M, ref.KV{K: m.DirectiveName, V: ref.StrV(`DOCTYPE root SYSTEM "a.dtd"`)})
		tags["directive"] = true
	}
	root.M = append(root.M, ref.KV{K: "root", V: c14XVal(r, m, 3, typed, trimmedLeaves, tags, true)})
	if r.IntN(8) == 0 {
		root.M = append(root.M, ref.KV{K: "second", V: c14XVal(r, m, 1, typed, trimmedLeaves, tags, true)})
		tags["multi_root"] = true
	}
	return root, sortedTags(tags)
}

func c14XLeaf(r *rand.Rand, typed, trimmed bool, tags map[string]bool) *ref.V {
	if typed && r.IntN(5) == 0 {
		switch r.IntN(3) {
		case 0:
			return ref.IntV(int64(r.IntN(2000) - 1000))
		case 1:
			return ref.BoolV(r.IntN(2) == 0)
		default:
			return ref.FloatV(float64(r.IntN(2000)-1000) / 8)
		}
	}
	var s string
	if trimmed {
		s = C14XMLTrimmed(r)
	} else {
		s = C14XMLAny(r)
	}
	if strings.ContainsAny(s, "<&>\"'\t\r\n") {
		tags["entities"] = true
	}
	return ref.StrV(s)
}

func c14XVal(r *rand.Rand, m ref.XMLMap, depth int, typed, trimmed bool, tags map[string]bool, allowSeq bool) *ref.V {
	k := r.IntN(10)
	if depth <= 0 || k < 4 {
		return c14XLeaf(r, typed, trimmed, tags)
	}
	if allowSeq && k < 6 {
		// repeated element: sequence of >= 2 leaves / maps
		n := 2 + r.IntN(3)
		s := &ref.V{K: ref.Seq, A: []*ref.V{}}
		for i := 0; i < n; i++ {
			s.A = append(s.A, c14XVal(r, m, depth-1, typed, trimmed, tags, false))
		}
		tags["repeated_children"] = true
		return s
	}
	out := &ref.V{K: ref.Map, M: []ref.KV{}}
	hasKids := r.IntN(4) != 0
	if r.IntN(3) == 0 || !hasKids {
		// content: always trimmed and non-blank inside structured elements
		out.M = append(out.M, ref.KV{K: m.ContentName, V: ref.StrV(C14XMLTrimmed(r))})
		tags["content"] = true
	}
	na := r.IntN(3)
	if !hasKids && na == 0 {
		na = 1
	}
	for i := 0; i < na; i++ {
		an := m.AttrPrefix + c14XMLAttrNames[r.IntN(len(c14XMLAttrNames))]
		if _, dup := out.Get(an); dup {
			continue
		}
		out.M = append(out.M, ref.KV{K: an, V: ref.StrV(C14XMLAny(r))})
		tags["attrs"] = true
	}
	if hasKids {
		nk := 1 + r.IntN(4)
		for i := 0; i < nk; i++ {
			cn := c14XMLNames[r.IntN(len(c14XMLNames))]
			if _, dup := out.Get(cn); dup {
				continue
			}
			out.M = append(out.M, ref.KV{K: cn, V: c14XVal(r, m, depth-1, typed, trimmed, tags, true)})
		}
		tags["nesting"] = true
	}
	return out
}

// ---- Lua ---------------------------------------------------------------------------------

var c14LuaKeys = []string{"a", "b", "name", "x1", "_u", "end", "nil", "function", "while", "and", "local", "goto", "with space", "9lives", "é", "", "k-v", "a.b", "A", "return", "true", "q\"k", "new\nline"}

// C14LuaValue: JSON-like tree inside what a Lua table can carry: no null inside containers,
// integers within ±2^53, finite floats (nonFinite adds inf/nan for the encode direction).
func C14LuaValue(r *rand.Rand, depth int, nonFinite bool) *ref.V {
	return c14LuaVal(r, depth, true, nonFinite)
}

func c14LuaVal(r *rand.Rand, depth int, root, nonFinite bool) *ref.V {
	if (!root || r.IntN(12) == 0) && (depth <= 0 || r.IntN(100) < 50 || root) {
		switch r.IntN(10) {
		case 0:
			return ref.BoolV(r.IntN(2) == 0)
		case 1, 2:
			v := IntVal(r, Profile{NoBigInt: true})
			lim := big.NewInt(1 << 53)
			if new(big.Int).Abs(v.I).Cmp(lim) > 0 {
				v = ref.IntV(v.I.Int64() % (1 << 53))
			}
			return v
		case 3:
			if nonFinite && r.IntN(4) == 0 {
				return ref.FloatV([]float64{math.Inf(1), math.Inf(-1), math.NaN()}[r.IntN(3)])
			}
			return FloatVal(r)
		case 4:
			if root {
				return ref.NullV()
			}
			return ref.StrV("")
		default:
			if r.IntN(10) == 0 {
				// a control character directly followed by a decimal digit: a decimal escape must not swallow the digit
				return ref.StrV([]string{"\x015", "\x000", "\x1f9", "a\x7f1", "\x0e77", "nul\x00end", "\x0212 and \x1b[0m", "\x06" + "6", "\x7f" + "0x"}[r.IntN(9)])
			}
			return ref.StrV(C14Text(r))
		}
	}
	w := r.IntN(5)
	if r.IntN(12) == 0 {
		// a map whose keys are the STRINGS "1", "2", ... in order: a map, not a sequence
		m := &ref.V{K: ref.Map, M: []ref.KV{}}
		for i := 0; i < 1+r.IntN(3); i++ {
			m.M = append(m.M, ref.KV{K: strconv.Itoa(i + 1), V: c14LuaVal(r, depth-1, false, nonFinite)})
		}
		return m
	}
	if r.IntN(2) == 0 {
		m := &ref.V{K: ref.Map, M: []ref.KV{}}
		for i := 0; i < w+1; i++ {
			k := c14LuaKeys[r.IntN(len(c14LuaKeys))]
			if r.IntN(6) == 0 {
				k = C14Text(r)
			}
			if _, dup := m.Get(k); dup {
				continue
			}
			m.M = append(m.M, ref.KV{K: k, V: c14LuaVal(r, depth-1, false, nonFinite)})
		}
		return m
	}
	s := &ref.V{K: ref.Seq, A: []*ref.V{}}
	for i := 0; i < w; i++ {
		s.A = append(s.A, c14LuaVal(r, depth-1, false, nonFinite))
	}
	return s
}

func sortedTags(m map[string]bool) []string {
	out := make([]string, 0, len(m))
	for t := range m {
		out = append(out, t)
	}
	sort.Strings(out)
	return out
}
