// vcheck: parent runner and worker for the runtime-monitoring checks.
//
//	vcheck run <Cxx> <quick|thorough> [--replay file]
//	vcheck worker <Cxx> <tier> <seed> <from> <to> <step> [replay]
package main

import (
	"fmt"
	"os"

	"verifharness/mon"
	_ "verifharness/props"
)

func main() {
	if len(os.Args) < 2 {
		fmt.Fprintln(os.Stderr, "usage: vcheck run|worker ...")
		os.Exit(2)
	}
	switch os.Args[1] {
	case "run":
		os.Exit(mon.ParentMain(os.Args[2:]))
	case "worker":
		os.Exit(mon.WorkerMain(os.Args[2:]))
	default:
		fmt.Fprintln(os.Stderr, "unknown subcommand", os.Args[1])
		os.Exit(2)
	}
}
