package ref

import (
	"fmt"
	"regexp"
	"strconv"
	"strings"
)

// Expr is the AST of the core expression fragment (C01) plus the update forms used by C02/C03.
type Expr struct {
	Op   string  // see the constants below
	S    string  // key / variable / function name / merge flags
	L, R *Expr   // operands
	Args []*Expr // union members, object entries (pairs k,v), index lists
	Lit  *V      // literal
	I, J *int    // slice bounds / flatten depth
	Opt  bool    // trailing ? on a path element
	Post bool    // pipe printed as a postfix chain: L followed directly by the traversal step R (.a[0], (e).b)
}

const (
	OpSelf    = "self"    // .
	OpKey     = "key"     // .S   (applied to input)
	OpIndex   = "index"   // .[Args...]  (each arg a literal int or string)
	OpSplat   = "splat"   // .[]
	OpSlice   = "slice"   // .[I:J]
	OpRDesc   = "rdesc"   // ..
	OpLit     = "lit"     // literal scalar
	OpPipe    = "pipe"    // L | R
	OpUnion   = "union"   // L , R
	OpCollect = "collect" // [L]   (L nil => [])
	OpObject  = "object"  // {k: v, ...}  Args = k1,v1,k2,v2...
	OpBin     = "bin"     // L S R  with S in + - * / % == != < <= > >= and or //
	OpFn0     = "fn0"     // S           (length keys reverse unique flatten any all not to_entries from_entries)
	OpFn1     = "fn1"     // S(L)        (select map filter has contains join split unique_by group_by any_c all_c with_entries)
	OpVar     = "var"     // $S
	OpAs      = "as"      // L as $S | R
	OpReduce  = "reduce"  // L as $S ireduce (Args[0]; R)
	OpFlatten = "flattenN"
)

func Self() *Expr                 { return &Expr{Op: OpSelf} }
func Key(k string) *Expr          { return &Expr{Op: OpKey, S: k} }
func Lit(v *V) *Expr              { return &Expr{Op: OpLit, Lit: v} }
func Pipe(l, r *Expr) *Expr       { return &Expr{Op: OpPipe, L: l, R: r} }
func Union(l, r *Expr) *Expr      { return &Expr{Op: OpUnion, L: l, R: r} }
func Bin(op string, l, r *Expr) *Expr { return &Expr{Op: OpBin, S: op, L: l, R: r} }
func Fn0(n string) *Expr          { return &Expr{Op: OpFn0, S: n} }
func Fn1(n string, a *Expr) *Expr { return &Expr{Op: OpFn1, S: n, L: a} }
func Index(args ...*Expr) *Expr   { return &Expr{Op: OpIndex, Args: args} }
func IdxInt(i int) *Expr          { return Index(Lit(IntV(int64(i)))) }

var identRe = regexp.MustCompile(`^[a-zA-Z_][a-zA-Z0-9_]*$`)

// keywords the lexer would not read as a plain path element are irrelevant after a dot, but keep
// bare keys to plain identifiers; everything else is printed as .["…"].
func pathElem(k string) string {
	if identRe.MatchString(k) {
		return "." + k
	}
	return ".[" + ExprString(k) + "]"
}

// ExprString renders a string literal in yq's expression syntax. Only strings the lexer can
// carry are allowed (no backslash, no double quote handled via \", newline via \n).
func ExprString(s string) string {
	s = strings.ReplaceAll(s, `"`, `\"`)
	s = strings.ReplaceAll(s, "\n", `\n`)
	return `"` + s + `"`
}

// ExprStringOK reports whether s can be written as an expression string literal unambiguously.
func ExprStringOK(s string) bool {
	return !strings.ContainsAny(s, "\\") && !strings.Contains(s, "\r")
}

func litText(v *V) string {
	switch v.K {
	case Null:
		return "null"
	case Bool:
		if v.B {
			return "true"
		}
		return "false"
	case Int:
		return v.I.String()
	case Float:
		t := strconv.FormatFloat(v.F, 'f', -1, 64)
		if !strings.Contains(t, ".") {
			t += ".0"
		}
		return t
	case Str:
		return ExprString(v.S)
	case Seq:
		if len(v.A) == 0 {
			return "[]"
		}
		parts := make([]string, len(v.A))
		for i, x := range v.A {
			parts[i] = litText(x)
		}
		return "[" + strings.Join(parts, ", ") + "]"
	case Map:
		if len(v.M) == 0 {
			return "{}"
		}
		parts := make([]string, len(v.M))
		for i, e := range v.M {
			parts[i] = ExprString(e.K) + ": " + litText(e.V)
		}
		return "{" + strings.Join(parts, ", ") + "}"
	}
	return "null"
}

// String prints the expression with every composite operand bracketed, so that its meaning
// never depends on operator precedence (precedence is property C09's business).
func (e *Expr) String() string {
	switch e.Op {
	case OpSelf:
		return "."
	case OpKey:
		s := pathElem(e.S)
		if e.Opt {
			s += "?"
		}
		return s
	case OpIndex:
		parts := make([]string, len(e.Args))
		for i, a := range e.Args {
			parts[i] = a.String()
		}
		return ".[" + strings.Join(parts, ", ") + "]"
	case OpSplat:
		return ".[]"
	case OpSlice:
		a, b := "", ""
		if e.I != nil {
			a = strconv.Itoa(*e.I)
		}
		if e.J != nil {
			b = strconv.Itoa(*e.J)
		}
		return ".[" + a + ":" + b + "]"
	case OpRDesc:
		return ".."
	case OpLit:
		return litText(e.Lit)
	case OpPipe:
		if e.Post && isStep(e.R) && postfixable(e.L) && (e.L.Op != OpSelf || e.R.Op != OpKey) {
			l := e.L.String()
			r := e.R.String()
			if e.L.Op == OpSelf {
				return r
			}
			if e.R.Op != OpKey || !identRe.MatchString(e.R.S) {
				r = r[1:] // .[0] -> [0]
			}
			return l + r
		}
		return "(" + e.L.String() + " | " + e.R.String() + ")"
	case OpUnion:
		return "(" + e.L.String() + ", " + e.R.String() + ")"
	case OpCollect:
		if e.L == nil {
			return "[]"
		}
		return "[" + e.L.String() + "]"
	case OpObject:
		if len(e.Args) == 0 {
			return "{}"
		}
		var parts []string
		for i := 0; i+1 < len(e.Args); i += 2 {
			parts = append(parts, e.Args[i].objKey()+": "+e.Args[i+1].String())
		}
		return "{" + strings.Join(parts, ", ") + "}"
	case OpBin:
		return "(" + e.L.String() + " " + e.S + " " + e.R.String() + ")"
	case OpFn0:
		return e.S
	case OpFlatten:
		return "flatten(" + strconv.Itoa(*e.I) + ")"
	case OpFn1:
		return e.S + "(" + e.L.String() + ")"
	case OpVar:
		return "$" + e.S
	case OpAs:
		return "(" + e.L.String() + " as $" + e.S + " | " + e.R.String() + ")"
	case OpReduce:
		return "(" + e.L.String() + " as $" + e.S + " ireduce (" + e.Args[0].String() + "; " + e.R.String() + "))"
	}
	return fmt.Sprintf("<?%s>", e.Op)
}

// binPrec is the binding strength of the infix operators of the fragment as the operator table of the pinned
// tree has it (union 10, and/or 20, pipe 30, comparisons 40, // and arithmetic 42); 0 = not an infix node.
func (e *Expr) binPrec() int {
	switch e.Op {
	case OpUnion:
		return 10
	case OpPipe:
		if e.Post && isStep(e.R) && postfixable(e.L) && (e.L.Op != OpSelf || e.R.Op != OpKey) {
			return 0 // printed as a postfix chain
		}
		return 30
	case OpBin:
		switch e.S {
		case "and", "or":
			return 20
		case "==", "!=", "<", "<=", ">", ">=":
			return 40
		case "//", "+", "-", "*", "/", "%":
			return 42
		}
	}
	return 0
}

// StringMin prints the expression with only the brackets the precedence table makes necessary around infix
// operators (ties group to the right, as the parser does); everything else is spelled as String() spells it.
func (e *Expr) StringMin() string { return e.minStr(0, false) }

func (e *Expr) minStr(parent int, left bool) string {
	p := e.binPrec()
	if p == 0 {
		switch e.Op {
		case OpCollect:
			if e.L != nil {
				return "[" + e.L.minStr(0, false) + "]"
			}
		case OpFn1:
			return e.S + "(" + e.L.minStr(0, false) + ")"
		}
		return e.String()
	}
	op := " " + e.S + " "
	switch e.Op {
	case OpUnion:
		op = ", "
	case OpPipe:
		op = " | "
	}
	s := e.L.minStr(p, true) + op + e.R.minStr(p, false)
	if parent > 0 && (p < parent || (p == parent && left)) {
		return "(" + s + ")"
	}
	return s
}

func (e *Expr) objKey() string {
	if e.Op == OpLit && e.Lit.K == Str {
		return ExprString(e.Lit.S)
	}
	return "(" + e.String() + ")"
}

// Walk visits every sub-expression.
func (e *Expr) Walk(f func(*Expr)) {
	if e == nil {
		return
	}
	f(e)
	e.L.Walk(f)
	e.R.Walk(f)
	for _, a := range e.Args {
		a.Walk(f)
	}
}

// Skeleton is the operator structure with literals and keys collapsed (distinctness signature).
func (e *Expr) Skeleton() string {
	if e == nil {
		return ""
	}
	switch e.Op {
	case OpLit:
		return "L" + e.Lit.K.String()[:1]
	case OpKey:
		return ".k"
	case OpIndex:
		return ".[i]"
	case OpVar:
		return "$v"
	}
	var sb strings.Builder
	sb.WriteString(e.Op)
	if e.Op == OpBin || e.Op == OpFn0 || e.Op == OpFn1 {
		sb.WriteString(":" + e.S)
	}
	sb.WriteString("(")
	sb.WriteString(e.L.Skeleton())
	sb.WriteString(",")
	sb.WriteString(e.R.Skeleton())
	for _, a := range e.Args {
		sb.WriteString("," + a.Skeleton())
	}
	sb.WriteString(")")
	return sb.String()
}

// Ops lists the operator names used (for coverage tags).
func (e *Expr) Ops() []string {
	seen := map[string]bool{}
	var out []string
	e.Walk(func(x *Expr) {
		n := x.Op
		if x.Op == OpBin || x.Op == OpFn0 || x.Op == OpFn1 {
			n = x.S
		}
		if !seen[n] {
			seen[n] = true
			out = append(out, n)
		}
	})
	return out
}

func isStep(e *Expr) bool {
	switch e.Op {
	case OpKey, OpIndex, OpSplat, OpSlice:
		return true
	}
	return false
}

// postfixable: expressions after which a traversal step may be written directly
// (a path chain, or anything printed inside its own brackets).
func postfixable(e *Expr) bool {
	switch e.Op {
	case OpSelf, OpKey, OpIndex, OpSplat, OpSlice:
		return true
	case OpPipe:
		if e.Post {
			return isStep(e.R) && postfixable(e.L)
		}
		return true // printed as ( … | … )
	case OpUnion, OpBin, OpAs, OpReduce:
		return true // printed in parentheses
	case OpCollect:
		return e.L != nil
	}
	return false
}
