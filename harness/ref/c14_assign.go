package ref

import (
	"fmt"
	"strconv"
)

// Path assignment model shared by the properties and TOML ground-truth builders of C14:
// walk/create containers along path and put val at the end. String segments address map keys,
// int segments address sequence positions (padding with null). A map assigned onto an existing
// map is merged key by key (TOML tables may be re-opened through super-/sub-table headers).
//
// glob = quirk switch reproducing finding C14-decode-key-glob: a string segment containing '*'
// or '?' is taken as a pattern over the EXISTING sibling keys; every match is followed, and the
// literal key is only created when nothing matched.

// GlobMatch is a byte-wise glob with '*' (any run) and '?' (one byte).
func GlobMatch(name, pat string) bool {
	if pat == "" {
		return name == ""
	}
	if pat[0] == '*' {
		for i := 0; i <= len(name); i++ {
			if GlobMatch(name[i:], pat[1:]) {
				return true
			}
		}
		return pat == "*"
	}
	if name == "" {
		return false
	}
	if pat[0] == '?' || pat[0] == name[0] {
		return GlobMatch(name[1:], pat[1:])
	}
	return false
}

func hasGlobMeta(s string) bool {
	for i := 0; i < len(s); i++ {
		if s[i] == '*' || s[i] == '?' {
			return true
		}
	}
	return false
}

func mergeInto(dst, src *V) {
	if dst.K == Map && src.K == Map {
		for _, e := range src.M {
			if cur, ok := dst.Get(e.K); ok && cur.K == Map && e.V.K == Map {
				mergeInto(cur, e.V)
			} else {
				dst.Set(e.K, e.V)
			}
		}
		return
	}
	*dst = *src
}

// AssignPath assigns val at path under root (root must be a Map or Seq).
func AssignPath(root *V, path []any, val *V, glob bool) error {
	if len(path) == 0 {
		mergeInto(root, val)
		return nil
	}
	seg := path[0]
	newChild := func() *V {
		if len(path) > 1 {
			if _, isInt := path[1].(int); isInt {
				return &V{K: Seq, A: []*V{}}
			}
			return &V{K: Map, M: []KV{}}
		}
		return NullV()
	}
	descend := func(child *V) error {
		if len(path) == 1 {
			if child.K == Map && val.K == Map {
				mergeInto(child, val)
			} else {
				*child = *val.Copy()
			}
			return nil
		}
		if child.K == Null {
			*child = *newChild()
		}
		return AssignPath(child, path[1:], val, glob)
	}
	if k, isInt := seg.(int); isInt && root.K == Map {
		seg = strconv.Itoa(k) // an integer segment met on a map addresses the key spelled like it
	}
	switch k := seg.(type) {
	case string:
		if root.K != Map {
			return fmt.Errorf("cannot follow key %q into a %s", k, root.K)
		}
		if glob && hasGlobMeta(k) {
			var hit []*V
			for _, e := range root.M {
				if GlobMatch(e.K, k) {
					hit = append(hit, e.V)
				}
			}
			if len(hit) > 0 {
				for _, h := range hit {
					if err := descend(h); err != nil {
						return err
					}
				}
				return nil
			}
		}
		child, ok := root.Get(k)
		if !ok {
			child = newChild()
			root.M = append(root.M, KV{K: k, V: child})
		}
		return descend(child)
	case int:
		if root.K != Seq {
			return fmt.Errorf("cannot index a %s with %d", root.K, k)
		}
		if k < 0 {
			return fmt.Errorf("negative index")
		}
		for len(root.A) <= k {
			root.A = append(root.A, NullV())
		}
		if root.A[k].K == Null && len(path) > 1 {
			root.A[k] = newChild()
		}
		return descend(root.A[k])
	}
	return fmt.Errorf("bad path segment %v", seg)
}
