package ref

import (
	"fmt"
	"strings"
	"unicode/utf16"
	"unicode/utf8"
)

// Independent Java .properties reader and writer (java.util.Properties.load semantics), used by
// C14. It shares nothing with github.com/magiconair/properties, the library yq uses.

// PropKV is one key/value pair of a properties text, in text order.
type PropKV struct{ K, V string }

func isPropWS(c byte) bool { return c == ' ' || c == '\t' || c == '\f' }

// propsNaturalLines splits on \n, \r\n and \r.
func propsNaturalLines(text string) []string {
	var out []string
	start := 0
	for i := 0; i < len(text); i++ {
		switch text[i] {
		case '\n':
			out = append(out, text[start:i])
			start = i + 1
		case '\r':
			out = append(out, text[start:i])
			if i+1 < len(text) && text[i+1] == '\n' {
				i++
			}
			start = i + 1
		}
	}
	if start < len(text) {
		out = append(out, text[start:])
	}
	return out
}

func endsWithOddBackslashes(s string) bool {
	n := 0
	for i := len(s) - 1; i >= 0 && s[i] == '\\'; i-- {
		n++
	}
	return n%2 == 1
}

// PropsRead parses a properties text. Duplicate keys: the last value wins, the first position is kept.
func PropsRead(text string) ([]PropKV, error) {
	lines := propsNaturalLines(text)
	var out []PropKV
	pos := map[string]int{}
	for i := 0; i < len(lines); i++ {
		ln := lines[i]
		// strip leading white space of the natural line
		j := 0
		for j < len(ln) && isPropWS(ln[j]) {
			j++
		}
		ln = ln[j:]
		if ln == "" || ln[0] == '#' || ln[0] == '!' {
			continue // blank or comment line (comments never continue)
		}
		// logical line: join continuation lines
		for endsWithOddBackslashes(ln) {
			ln = ln[:len(ln)-1]
			if i+1 >= len(lines) {
				break
			}
			i++
			nx := lines[i]
			k := 0
			for k < len(nx) && isPropWS(nx[k]) {
				k++
			}
			ln += nx[k:]
		}
		// key: up to the first unescaped '=', ':' or white space
		p := 0
		for p < len(ln) {
			c := ln[p]
			if c == '\\' {
				p += 2
				continue
			}
			if c == '=' || c == ':' || isPropWS(c) {
				break
			}
			p++
		}
		if p > len(ln) {
			p = len(ln)
		}
		rawKey := ln[:p]
		for p < len(ln) && isPropWS(ln[p]) {
			p++
		}
		if p < len(ln) && (ln[p] == '=' || ln[p] == ':') {
			p++
			for p < len(ln) && isPropWS(ln[p]) {
				p++
			}
		}
		rawVal := ln[p:]
		k, err := propsUnescape(rawKey)
		if err != nil {
			return nil, fmt.Errorf("line %d key: %v", i+1, err)
		}
		v, err := propsUnescape(rawVal)
		if err != nil {
			return nil, fmt.Errorf("line %d value: %v", i+1, err)
		}
		if at, dup := pos[k]; dup {
			out[at].V = v
		} else {
			pos[k] = len(out)
			out = append(out, PropKV{k, v})
		}
	}
	return out, nil
}

func propsUnescape(s string) (string, error) {
	if !strings.Contains(s, "\\") {
		return s, nil
	}
	var units []uint16 // pending \uXXXX code units (surrogate pairs combine, as in Java)
	var sb strings.Builder
	flush := func() {
		if len(units) > 0 {
			for _, r := range utf16.Decode(units) {
				sb.WriteRune(r)
			}
			units = units[:0]
		}
	}
	for i := 0; i < len(s); {
		c := s[i]
		if c != '\\' {
			flush()
			sb.WriteByte(c)
			i++
			continue
		}
		i++
		if i >= len(s) {
			break // lone trailing backslash: dropped
		}
		e := s[i]
		i++
		switch e {
		case 't':
			flush()
			sb.WriteByte('\t')
		case 'n':
			flush()
			sb.WriteByte('\n')
		case 'r':
			flush()
			sb.WriteByte('\r')
		case 'f':
			flush()
			sb.WriteByte('\f')
		case 'u':
			if i+4 > len(s) {
				return "", fmt.Errorf("malformed \\uxxxx")
			}
			var v uint16
			for _, h := range []byte(s[i : i+4]) {
				var d byte
				switch {
				case h >= '0' && h <= '9':
					d = h - '0'
				case h >= 'a' && h <= 'f':
					d = h - 'a' + 10
				case h >= 'A' && h <= 'F':
					d = h - 'A' + 10
				default:
					return "", fmt.Errorf("malformed \\uxxxx")
				}
				v = v<<4 | uint16(d)
			}
			i += 4
			units = append(units, v)
		default:
			flush()
			// any other escaped character stands for itself (possibly a multi-byte rune)
			_, n := utf8.DecodeRuneInString(s[i-1:])
			sb.WriteString(s[i-1 : i-1+n])
			i += n - 1
		}
	}
	flush()
	return sb.String(), nil
}

// PropsStyle selects the surface syntax the writer uses. Choose(n) returns a number in [0,n).
type PropsStyle struct {
	Choose func(n int) int
	// Quirk switches reproduce known encoder defects of yq (used only by finding matchers).
	QuirkKeyEqualsRaw  bool   // '=' inside keys written unescaped
	QuirkKeyCommentRaw bool   // leading '#' / '!' of a key written unescaped
	QuirkValueLeadRaw  bool   // leading blanks of a value written unescaped
	QuirkValueSepRaw   bool   // leading '=' / ':' of a value written unescaped after a blank-only separator
	FixedSep           string // when non-empty: always this separator, no decoration at all
	SurrogateEscapes   bool   // write non-BMP runes as 😀 pairs (native2ascii style)
	UnicodeEscapes     bool   // write (some) non-ASCII BMP runes as \uXXXX
	Continuations      bool   // break long values over several natural lines
	PlainContOnly      bool   // ... but only values made of ASCII letters
	Comments           bool   // comment and blank lines between the entries
	CRLF               bool
}

var propSeps = []string{" = ", "=", ":", " : ", " ", "\t", " =", ": ", "   =   "}

func propsEscape(s string, key bool, st *PropsStyle) string {
	var sb strings.Builder
	first := true
	leading := true
	for _, r := range s {
		switch {
		case r == '\\':
			sb.WriteString(`\\`)
		case r == '\t':
			sb.WriteString(`\t`)
		case r == '\n':
			sb.WriteString(`\n`)
		case r == '\r':
			sb.WriteString(`\r`)
		case r == '\f':
			sb.WriteString(`\f`)
		case r == ' ':
			if key || (leading && !st.QuirkValueLeadRaw) {
				sb.WriteString(`\ `)
			} else {
				sb.WriteByte(' ')
			}
		case key && r == ':':
			sb.WriteString(`\:`)
		case key && r == '=':
			if st.QuirkKeyEqualsRaw {
				sb.WriteByte('=')
			} else {
				sb.WriteString(`\=`)
			}
		case key && first && (r == '#' || r == '!'):
			if st.QuirkKeyCommentRaw {
				sb.WriteRune(r)
			} else {
				sb.WriteByte('\\')
				sb.WriteRune(r)
			}
		case r > 0xFFFF && st.SurrogateEscapes:
			a, b := utf16.EncodeRune(r)
			fmt.Fprintf(&sb, `\u%04X\u%04x`, a, b)
		case r >= 0x80 && r <= 0xFFFF && st.UnicodeEscapes && st.Choose != nil && st.Choose(2) == 0:
			fmt.Fprintf(&sb, `\u%04x`, r)
		default:
			sb.WriteRune(r)
		}
		first = false
		if r != ' ' {
			leading = false
		}
	}
	return sb.String()
}

// PropsWrite renders the pairs as a properties text.
func PropsWrite(kvs []PropKV, st *PropsStyle) string {
	nl := "\n"
	if st.CRLF {
		nl = "\r\n"
	}
	ch := st.Choose
	if ch == nil {
		ch = func(int) int { return 0 }
	}
	var sb strings.Builder
	if st.Comments && ch(2) == 0 {
		sb.WriteString("# header comment = not : a key" + nl + nl)
	}
	for _, kv := range kvs {
		if st.Comments {
			switch ch(6) {
			case 0:
				sb.WriteString("# a comment" + nl)
			case 1:
				sb.WriteString("! bang comment \\" + nl) // a comment never continues
			case 2:
				sb.WriteString("  \t" + nl)
			}
		}
		sep := st.FixedSep
		if sep == "" {
			sep = propSeps[ch(len(propSeps))]
			if st.Comments && ch(4) == 0 {
				sb.WriteString("  ") // leading blanks before a key are ignored
			}
		}
		k := propsEscape(kv.K, true, st)
		v := propsEscape(kv.V, false, st)
		if kv.V == "" && st.FixedSep == "" && ch(3) == 0 && kv.K != "" {
			sep = "" // a key alone on its line has the empty value
		}
		if strings.Trim(sep, " \t\f") == "" && v != "" && (v[0] == '=' || v[0] == ':') && !st.QuirkValueSepRaw {
			v = "\\" + v // otherwise the reader would take it for the separator
		}
		if st.Continuations && len(v) > 3 && ch(2) == 0 && (!st.PlainContOnly || propsLettersOnly(v)) {
			// break the escaped value at a position that is not inside an escape sequence and
			// where the continuation does not start with a blank (those would be stripped)
			for try := 0; try < 4; try++ {
				at := 1 + ch(len(v)-1)
				if propsSafeBreak(v, at) {
					v = v[:at] + "\\" + nl + "    " + v[at:]
					break
				}
			}
		}
		sb.WriteString(k + sep + v + nl)
	}
	return sb.String()
}

func propsLettersOnly(s string) bool {
	for i := 0; i < len(s); i++ {
		if !(s[i] >= 'a' && s[i] <= 'z' || s[i] >= 'A' && s[i] <= 'Z') {
			return false
		}
	}
	return true
}

func propsSafeBreak(v string, at int) bool {
	if at <= 0 || at >= len(v) {
		return false
	}
	if !utf8.RuneStart(v[at]) || isPropWS(v[at]) {
		return false
	}
	// not inside an escape: count backslashes before at
	n := 0
	for i := at - 1; i >= 0 && v[i] == '\\'; i-- {
		n++
	}
	if n%2 == 1 {
		return false
	}
	// not inside \uXXXX
	for back := 1; back <= 5 && at-back >= 0; back++ {
		if v[at-back] == 'u' && at-back-1 >= 0 && v[at-back-1] == '\\' {
			m := 0
			for i := at - back - 1; i >= 0 && v[i] == '\\'; i-- {
				m++
			}
			if m%2 == 1 {
				return false
			}
		}
	}
	return true
}
