package ref

import (
	"sort"
	"strings"
)

// Cmp is the reference total preorder of property C15: null first, then booleans (false < true),
// then numbers by numeric value (whatever their spelling) and strings by code point. The relative
// order of a number and a string is not fixed by the property, and containers have no documented
// order: both are outside the model (ErrDomain).
func Cmp(a, b *V) (int, error) {
	ra, rb := rank(a), rank(b)
	if ra < 0 || rb < 0 {
		return 0, ErrDomain
	}
	if ra != rb {
		// null < booleans < numbers < strings. (The property leaves number-vs-string open; the
		// pinned tree, after its intransitivity repair, ranks numbers first - asserted as observed.)
		if ra < rb {
			return -1, nil
		}
		return 1, nil
	}
	switch ra {
	case 0:
		return 0, nil
	case 1:
		switch {
		case a.B == b.B:
			return 0, nil
		case !a.B:
			return -1, nil
		}
		return 1, nil
	case 2:
		c := numCmp(a, b)
		if c == 2 {
			return 0, ErrDomain
		}
		return c, nil
	}
	return strings.Compare(a.S, b.S), nil
}

func rank(v *V) int {
	switch v.K {
	case Null:
		return 0
	case Bool:
		return 1
	case Int, Float:
		return 2
	case Str:
		return 3
	}
	return -1
}

// SortBy sorts the elements of seq stably by the key lists (compared lexicographically, a shorter
// list that is a prefix sorts first).
func SortBy(seq *V, keys [][]*V) (*V, error) {
	idx := make([]int, len(seq.A))
	for i := range idx {
		idx[i] = i
	}
	var serr error
	less := func(i, j int) bool {
		ka, kb := keys[i], keys[j]
		for x := 0; x < len(ka) && x < len(kb); x++ {
			c, err := Cmp(ka[x], kb[x])
			if err != nil {
				serr = err
				return false
			}
			if c != 0 {
				return c < 0
			}
		}
		return len(ka) < len(kb)
	}
	// validate comparability of every pair first so that ErrDomain does not depend on the algorithm
	for i := range keys {
		for j := i + 1; j < len(keys); j++ {
			less(i, j)
			if serr != nil {
				return nil, serr
			}
		}
	}
	sort.SliceStable(idx, func(a, b int) bool { return less(idx[a], idx[b]) })
	out := &V{K: Seq, A: make([]*V, len(idx))}
	for i, j := range idx {
		out.A[i] = seq.A[j]
	}
	return out, nil
}
