package ref

import (
	"encoding/xml"
	"fmt"
	"io"
	"strings"
)

// XML side of C14: a small element tree, a parser on top of encoding/xml's RAW token stream
// (tokenizer only; the tree, the grouping and the mapping to the JSON model are the harness's own),
// the documented element-tree <-> value mapping, and a writer with surface-syntax variation.

type XKind int

const (
	XElem XKind = iota
	XText
	XCData
	XComment
	XProcInst
	XDirective
)

type XAttr struct{ Name, Value string }

type XNode struct {
	Kind  XKind
	Name  string  // element name (with prefix, verbatim) or PI target
	Attrs []XAttr // elements only
	Kids  []*XNode
	Text  string // text / cdata / comment / PI instruction / directive body
	// writer hints
	SelfClose bool
}

// XMLParse reads a sequence of top-level items (yq emits one element per top-level key, so a
// document may have several roots) into a pseudo-root node.
func XMLParse(text string) (*XNode, error) {
	dec := xml.NewDecoder(strings.NewReader(text))
	dec.Strict = true
	root := &XNode{Kind: XElem, Name: ""}
	stack := []*XNode{root}
	for {
		tok, err := dec.RawToken()
		if err == io.EOF {
			break
		}
		if err != nil {
			return nil, err
		}
		cur := stack[len(stack)-1]
		switch t := tok.(type) {
		case xml.StartElement:
			n := &XNode{Kind: XElem, Name: rawName(t.Name)}
			for _, a := range t.Attr {
				n.Attrs = append(n.Attrs, XAttr{rawName(a.Name), a.Value})
			}
			cur.Kids = append(cur.Kids, n)
			stack = append(stack, n)
		case xml.EndElement:
			if len(stack) == 1 {
				return nil, fmt.Errorf("unmatched end tag </%s>", rawName(t.Name))
			}
			if cur.Name != rawName(t.Name) {
				return nil, fmt.Errorf("end tag </%s> closes <%s>", rawName(t.Name), cur.Name)
			}
			stack = stack[:len(stack)-1]
		case xml.CharData:
			cur.Kids = append(cur.Kids, &XNode{Kind: XText, Text: string(t)})
		case xml.Comment:
			cur.Kids = append(cur.Kids, &XNode{Kind: XComment, Text: string(t)})
		case xml.ProcInst:
			cur.Kids = append(cur.Kids, &XNode{Kind: XProcInst, Name: t.Target, Text: string(t.Inst)})
		case xml.Directive:
			cur.Kids = append(cur.Kids, &XNode{Kind: XDirective, Text: string(t)})
		}
	}
	if len(stack) != 1 {
		return nil, fmt.Errorf("element <%s> is never closed", stack[len(stack)-1].Name)
	}
	return root, nil
}

func rawName(n xml.Name) string {
	if n.Space != "" {
		return n.Space + ":" + n.Local
	}
	return n.Local
}

// XMLMap holds the naming preferences of the element-tree <-> value mapping.
type XMLMap struct {
	AttrPrefix    string
	ContentName   string
	ProcInstPfx   string
	DirectiveName string
	SkipProcInst  bool
	SkipDirective bool
	// Decode = yq's documented reading: text chunks are trimmed, blank ones dropped, an element
	// with nothing in it is null. When false (reading yq's own output back) leaf text is exact
	// and an empty element is the empty string.
	Decode bool
	// Quirk (finding C14-xml-element-prefix-dropped): element names lose their "prefix:".
	QuirkDropElemPrefix bool
	// Quirk off/on for attribute prefixes when KeepNamespace=false (documented flag).
	DropAttrPrefix bool
}

func DefaultXMLMap() XMLMap {
	return XMLMap{AttrPrefix: "+@", ContentName: "+content", ProcInstPfx: "+p_", DirectiveName: "+directive"}
}

func xmlTrim(s string) string {
	return strings.Trim(s, " \t\r\n")
}

// ToV maps the children of the pseudo-root to the top-level value.
func (m XMLMap) ToV(root *XNode) *V {
	return m.elemToV(root, true)
}

type xgroup struct {
	key   string
	items []*V
}

func (m XMLMap) elemToV(n *XNode, top bool) *V {
	var chunks []string
	var groups []*xgroup
	add := func(key string, v *V) {
		for _, g := range groups {
			if g.key == key {
				g.items = append(g.items, v)
				return
			}
		}
		groups = append(groups, &xgroup{key, []*V{v}})
	}
	for _, a := range n.Attrs {
		name := a.Name
		if m.DropAttrPrefix {
			if i := strings.IndexByte(name, ':'); i >= 0 {
				name = name[i+1:]
			}
		}
		add(m.AttrPrefix+name, StrV(a.Value))
	}
	hasStruct := len(n.Attrs) > 0
	for _, k := range n.Kids {
		switch k.Kind {
		case XElem:
			hasStruct = true
			name := k.Name
			if m.QuirkDropElemPrefix {
				if i := strings.IndexByte(name, ':'); i >= 0 {
					name = name[i+1:]
				}
			}
			add(name, m.elemToV(k, false))
		case XProcInst:
			if !m.SkipProcInst {
				hasStruct = true
				add(m.ProcInstPfx+k.Name, StrV(k.Text))
			}
		case XDirective:
			if !m.SkipDirective {
				hasStruct = true
				add(m.DirectiveName, StrV(k.Text))
			}
		case XText, XCData:
			chunks = append(chunks, k.Text)
		}
	}
	if !hasStruct && !top {
		if m.Decode {
			var kept []string
			for _, c := range chunks {
				if t := xmlTrim(c); t != "" {
					kept = append(kept, t)
				}
			}
			switch len(kept) {
			case 0:
				return NullV()
			case 1:
				return StrV(kept[0])
			}
			s := &V{K: Seq}
			for _, c := range kept {
				s.A = append(s.A, StrV(c))
			}
			return s
		}
		return StrV(strings.Join(chunks, ""))
	}
	// structured element: content first, then attributes and children in document order
	out := &V{K: Map, M: []KV{}}
	var kept []string
	for _, c := range chunks {
		if t := xmlTrim(c); t != "" {
			kept = append(kept, t)
		}
	}
	if len(kept) == 1 {
		out.M = append(out.M, KV{K: m.ContentName, V: StrV(kept[0])})
	} else if len(kept) > 1 {
		s := &V{K: Seq}
		for _, c := range kept {
			s.A = append(s.A, StrV(c))
		}
		out.M = append(out.M, KV{K: m.ContentName, V: s})
	}
	for _, g := range groups {
		if len(g.items) == 1 {
			out.M = append(out.M, KV{K: g.key, V: g.items[0]})
		} else {
			out.M = append(out.M, KV{K: g.key, V: &V{K: Seq, A: g.items}})
		}
	}
	if top && len(out.M) == 0 && m.Decode {
		return NullV()
	}
	return out
}

// ---- writer ----------------------------------------------------------------------------

type XMLStyle struct {
	Choose func(n int) int
	Indent bool // put children on their own indented lines (only where no text would be affected)
}

func xmlEscText(s string, ch func(int) int) string {
	var sb strings.Builder
	for _, r := range s {
		switch r {
		case '<':
			sb.WriteString("&lt;")
		case '&':
			sb.WriteString("&amp;")
		case '>':
			if ch(2) == 0 {
				sb.WriteString("&gt;")
			} else {
				sb.WriteString("&#62;")
			}
		case '\r':
			sb.WriteString("&#xD;")
		case '"':
			if ch(3) == 0 {
				sb.WriteString("&quot;")
			} else {
				sb.WriteByte('"')
			}
		case '\'':
			if ch(3) == 0 {
				sb.WriteString("&apos;")
			} else {
				sb.WriteByte('\'')
			}
		default:
			if r > 0x20 && ch(40) == 0 {
				if ch(2) == 0 {
					fmt.Fprintf(&sb, "&#%d;", r)
				} else {
					fmt.Fprintf(&sb, "&#x%X;", r)
				}
			} else {
				sb.WriteRune(r)
			}
		}
	}
	return sb.String()
}

func xmlEscAttr(s string, quote byte, ch func(int) int) string {
	var sb strings.Builder
	for _, r := range s {
		switch {
		case r == '<':
			sb.WriteString("&lt;")
		case r == '&':
			sb.WriteString("&amp;")
		case r == '\n':
			sb.WriteString("&#xA;")
		case r == '\t':
			sb.WriteString("&#x9;")
		case r == '\r':
			sb.WriteString("&#xD;")
		case r == '"' && quote == '"':
			sb.WriteString("&quot;")
		case r == '\'' && quote == '\'':
			sb.WriteString("&apos;")
		case r == '>':
			sb.WriteString("&gt;")
		default:
			sb.WriteRune(r)
		}
	}
	return sb.String()
}

// XMLWrite renders the children of the pseudo-root.
func XMLWrite(root *XNode, st *XMLStyle) string {
	if st.Choose == nil {
		st.Choose = func(int) int { return 0 }
	}
	var sb strings.Builder
	for _, k := range root.Kids {
		xmlWriteNode(&sb, k, st, 0)
		sb.WriteString("\n")
	}
	return sb.String()
}

func xmlHasText(n *XNode) bool {
	for _, k := range n.Kids {
		if k.Kind == XText || k.Kind == XCData {
			return true
		}
	}
	return false
}

func xmlWriteNode(sb *strings.Builder, n *XNode, st *XMLStyle, depth int) {
	ch := st.Choose
	switch n.Kind {
	case XText:
		sb.WriteString(xmlEscText(n.Text, ch))
	case XCData:
		sb.WriteString("<![CDATA[" + n.Text + "]]>")
	case XComment:
		sb.WriteString("<!--" + n.Text + "-->")
	case XProcInst:
		sb.WriteString("<?" + n.Name)
		if n.Text != "" {
			sb.WriteString(" " + n.Text)
		}
		sb.WriteString("?>")
	case XDirective:
		sb.WriteString("<!" + n.Text + ">")
	case XElem:
		sb.WriteString("<" + n.Name)
		for _, a := range n.Attrs {
			q := byte('"')
			if ch(3) == 0 {
				q = '\''
			}
			sp := " "
			if ch(8) == 0 {
				sp = "\n" + strings.Repeat(" ", depth+2)
			}
			eq := "="
			if ch(10) == 0 {
				eq = " = "
			}
			sb.WriteString(sp + a.Name + eq + string(q) + xmlEscAttr(a.Value, q, ch) + string(q))
		}
		if len(n.Kids) == 0 {
			if n.SelfClose {
				if ch(2) == 0 {
					sb.WriteString(" ")
				}
				sb.WriteString("/>")
			} else {
				sb.WriteString("></" + n.Name + ">")
			}
			return
		}
		sb.WriteString(">")
		pretty := st.Indent && !xmlHasText(n)
		for _, k := range n.Kids {
			if pretty {
				sb.WriteString("\n" + strings.Repeat("  ", depth+1))
			}
			xmlWriteNode(sb, k, st, depth+1)
		}
		if pretty {
			sb.WriteString("\n" + strings.Repeat("  ", depth))
		}
		sb.WriteString("</" + n.Name)
		if ch(12) == 0 {
			sb.WriteString(" ")
		}
		sb.WriteString(">")
	}
}
