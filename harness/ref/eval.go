package ref

import (
	"errors"
	"fmt"
	"math"
	"math/big"
	"regexp"
	"strconv"
	"strings"
	"time"
)

// ErrDomain marks a region the reference model deliberately does not define (excluded domain):
// the case is then not compared at all.
var ErrDomain = errors.New("outside the modelled domain")

// EvalError is "the semantics defines no result here" (yq must report an error).
type EvalError struct{ Msg string }

func (e *EvalError) Error() string { return e.Msg }

func evalErr(f string, a ...any) error { return &EvalError{fmt.Sprintf(f, a...)} }

// Env is the evaluation environment of the reference interpreter.
type Env struct {
	RO   bool            // read-only context (no auto-creation on traversal)
	Vars map[string][]*V // variable bindings
	T    *Trace
	Q    Quirks
}

// Quirks are named switches that make the reference reproduce one recorded deviation of yq each.
// A failing case is excused as a known finding only if it equals the reference with exactly that
// switch on and differs with it off.
type Quirks struct {
	EmptyObjOnce  bool // `{}` yields a single {} however many inputs it gets
	UnionSelfOnce bool // `(., .)` and `($x, $x)` yield their operand once
}

// Trace collects facts about one evaluation that the monitors need.
type Trace struct {
	WouldVivify bool // a traversal in a writable context missed (yq creates the entry as a side effect)
	Steps       int
}

func (e Env) ro() Env { e.RO = true; return e }
func (e Env) rw() Env { e.RO = false; return e }
func (e Env) with(name string, vals []*V) Env {
	m := make(map[string][]*V, len(e.Vars)+1)
	for k, v := range e.Vars {
		m[k] = v
	}
	m[name] = vals
	e.Vars = m
	return e
}

// Text is the scalar's textual value as yq sees it.
func (v *V) Text() string {
	switch v.K {
	case Null:
		return "null"
	case Bool:
		if v.B {
			return "true"
		}
		return "false"
	case Int:
		return v.I.String()
	case Float:
		if v.S != "" {
			return v.S
		}
		return FormatFloat(v.F)
	case Str:
		return v.S
	}
	return ""
}

// computed float: text is Go's %v rendering, as yq produces it
func compFloat(f float64) *V {
	return &V{K: Float, F: f, S: strconv.FormatFloat(f, 'g', -1, 64)}
}

func Truthy(v *V) bool {
	if v == nil || v.K == Null {
		return false
	}
	if v.K == Bool {
		return v.B
	}
	return true
}

const maxSteps = 200000

// Eval evaluates e over the ordered list of input values.
func Eval(e *Expr, in []*V, env Env) ([]*V, error) {
	if env.T == nil {
		env.T = &Trace{}
	}
	env.T.Steps += 1 + len(in)
	if env.T.Steps > maxSteps {
		return nil, ErrDomain
	}
	switch e.Op {
	case OpSelf:
		return in, nil
	case OpLit:
		if len(in) == 0 {
			return []*V{e.Lit.Copy()}, nil
		}
		out := make([]*V, len(in))
		for i := range in {
			out[i] = e.Lit.Copy()
		}
		return out, nil
	case OpKey:
		var out []*V
		for _, v := range in {
			var r []*V
			var err error
			if identRe.MatchString(e.S) {
				r, err = traverseKey(v, e.S, e.Opt, env)
			} else {
				// printed as .["…"]: goes through the index traversal
				r, err = traverseIndices(v, []*V{StrV(e.S)}, env)
			}
			if err != nil {
				return nil, err
			}
			out = append(out, r...)
		}
		return out, nil
	case OpIndex:
		// indices are evaluated once against the whole input, read-only; they are literals here
		var idx []*V
		for _, a := range e.Args {
			if a.Op != OpLit {
				return nil, ErrDomain
			}
			idx = append(idx, a.Lit)
		}
		var out []*V
		for _, v := range in {
			r, err := traverseIndices(v, idx, env)
			if err != nil {
				return nil, err
			}
			out = append(out, r...)
		}
		return out, nil
	case OpSplat:
		var out []*V
		for _, v := range in {
			switch v.K {
			case Seq:
				out = append(out, v.A...)
			case Map:
				for _, kv := range v.M {
					out = append(out, kv.V)
				}
			case Null:
				if !env.RO {
					env.T.WouldVivify = true // yq turns the null into an empty sequence in place
				}
			}
		}
		return out, nil
	case OpSlice:
		var out []*V
		for _, v := range in {
			if v.K != Seq {
				return nil, evalErr("cannot slice %s, only arrays can be sliced", v.K)
			}
			n := len(v.A)
			a, b := 0, n
			if e.I != nil {
				a = *e.I
			}
			if e.J != nil {
				b = *e.J
			}
			if a < 0 {
				a += n
				if a < 0 {
					a = 0
				}
			}
			if b < 0 {
				b += n
				if b < 0 {
					b = 0
				}
			} else if b > n {
				b = n
			}
			s := &V{K: Seq, A: []*V{}}
			for i := a; i < b && i < n; i++ {
				s.A = append(s.A, v.A[i])
			}
			out = append(out, s)
		}
		return out, nil
	case OpRDesc:
		var out []*V
		for _, v := range in {
			v.Walk(nil, func(_ []any, n *V) { out = append(out, n) })
		}
		return out, nil
	case OpPipe:
		if e.Post && len(in) == 0 && (e.R.Op == OpIndex || e.R.Op == OpSlice || e.R.Op == OpKey) {
			// postfix indices are evaluated against the (empty) outer context: not a documented case
			return nil, ErrDomain
		}
		l, err := Eval(e.L, in, env)
		if err != nil {
			return nil, err
		}
		return Eval(e.R, l, env)
	case OpUnion:
		l, err := Eval(e.L, in, env)
		if err != nil {
			return nil, err
		}
		r, err := Eval(e.R, in, env)
		if err != nil {
			return nil, err
		}
		if env.Q.UnionSelfOnce && ((passthrough(e.L) && passthrough(e.R)) || (e.L.Op == OpVar && e.R.Op == OpVar && e.L.S == e.R.S)) {
			return l, nil
		}
		return append(append([]*V{}, l...), r...), nil
	case OpCollect:
		if len(in) == 0 {
			return []*V{{K: Seq, A: []*V{}}}, nil
		}
		var out []*V
		for _, v := range in {
			s := &V{K: Seq, A: []*V{}}
			if e.L != nil {
				r, err := Eval(e.L, []*V{v}, env)
				if err != nil {
					return nil, err
				}
				s.A = append(s.A, r...)
			}
			out = append(out, s)
		}
		return out, nil
	case OpObject:
		return evalObject(e, in, env)
	case OpBin:
		return evalBin(e, in, env)
	case OpFn0:
		return evalFn0(e.S, in, env)
	case OpFlatten:
		var out []*V
		for _, v := range in {
			if v.K != Seq {
				return nil, evalErr("only arrays are supported for flatten")
			}
			out = append(out, flattenV(v, *e.I))
		}
		return out, nil
	case OpFn1:
		return evalFn1(e, in, env)
	case OpVar:
		return append([]*V{}, env.Vars[e.S]...), nil
	case OpAs:
		// stream mode: one loop per input node
		if len(in) == 0 {
			return evalAs(e, in, env)
		}
		var out []*V
		for _, v := range in {
			r, err := evalAs(e, []*V{v}, env)
			if err != nil {
				return nil, err
			}
			out = append(out, r...)
		}
		return out, nil
	case OpReduce:
		arr, err := Eval(e.L, in, env)
		if err != nil {
			return nil, err
		}
		acc, err := Eval(e.Args[0], in, env)
		if err != nil {
			return nil, err
		}
		for _, el := range arr {
			acc, err = Eval(e.R, acc, env.with(e.S, []*V{el}))
			if err != nil {
				return nil, err
			}
		}
		return acc, nil
	}
	return nil, ErrDomain
}

func evalAs(e *Expr, in []*V, env Env) ([]*V, error) {
	l, err := Eval(e.L, in, env.ro())
	if err != nil {
		return nil, err
	}
	if len(l) == 0 {
		return Eval(e.R, in, env)
	}
	var out []*V
	for _, x := range l {
		r, err := Eval(e.R, in, env.with(e.S, []*V{x.Copy()}))
		if err != nil {
			return nil, err
		}
		out = append(out, r...)
	}
	return out, nil
}

func traverseKey(v *V, k string, opt bool, env Env) ([]*V, error) {
	switch v.K {
	case Null:
		if env.RO {
			return nil, nil
		}
		env.T.WouldVivify = true
		return []*V{NullV()}, nil
	case Map:
		if strings.ContainsAny(k, "*?") {
			return nil, ErrDomain // key globbing is not part of the core fragment
		}
		if x, ok := v.Get(k); ok {
			return []*V{x}, nil
		}
		if env.RO {
			return nil, nil
		}
		env.T.WouldVivify = true
		return []*V{NullV()}, nil
	case Seq:
		// a key on a sequence is an index when it is numeric
		if i, err := strconv.Atoi(k); err == nil {
			return seqIndex(v, i, env)
		}
		if oddNumberRe.MatchString(k) {
			return nil, ErrDomain // 1_000, 0x10, 0o7 … are read as numbers by yq
		}
		if opt {
			return nil, nil
		}
		return nil, evalErr("cannot index array with '%s'", k)
	}
	return nil, nil
}

func seqIndex(v *V, i int, env Env) ([]*V, error) {
	n := len(v.A)
	if i >= n {
		if !env.RO {
			env.T.WouldVivify = true // yq pads the array in a writable context
		}
		return []*V{NullV()}, nil
	}
	if i < 0 {
		i += n
	}
	if i < 0 {
		return nil, evalErr("index out of range")
	}
	return []*V{v.A[i]}, nil
}

func traverseIndices(v *V, idx []*V, env Env) ([]*V, error) {
	switch v.K {
	case Null:
		if env.RO {
			return nil, nil
		}
		// in a writable context yq turns the null into a sequence/map in place
		env.T.WouldVivify = true
		if len(idx) == 0 {
			return nil, nil
		}
		if idx[0].K == Int {
			var out []*V
			for _, ix := range idx {
				if ix.K != Int {
					return nil, ErrDomain
				}
				if ix.I.Sign() < 0 {
					return nil, ErrDomain
				}
				out = append(out, NullV())
			}
			return out, nil
		}
		var out []*V
		for range idx {
			out = append(out, NullV())
		}
		return out, nil
	case Seq:
		var out []*V
		for _, ix := range idx {
			if ix.K != Int || !ix.I.IsInt64() {
				if ix.K == Str {
					if _, err := strconv.Atoi(ix.S); err != nil && !oddNumberRe.MatchString(ix.S) {
						return nil, evalErr("cannot index array with '%s'", ix.S)
					}
				}
				return nil, ErrDomain
			}
			r, err := seqIndex(v, int(ix.I.Int64()), env)
			if err != nil {
				return nil, err
			}
			out = append(out, r...)
		}
		return out, nil
	case Map:
		var out []*V
		for _, ix := range idx {
			if !ix.IsScalar() {
				return nil, ErrDomain
			}
			r, err := traverseKey(v, ix.Text(), false, env)
			if err != nil {
				return nil, err
			}
			out = append(out, r...)
		}
		return out, nil
	}
	return nil, nil
}

func evalObject(e *Expr, in []*V, env Env) ([]*V, error) {
	if len(e.Args) == 0 {
		if env.Q.EmptyObjOnce {
			return []*V{{K: Map, M: []KV{}}}, nil
		}
		return Eval(Lit(&V{K: Map, M: []KV{}}), in, env)
	}
	one := func(v []*V) ([]*V, error) {
		// every entry yields a list of single-pair maps (key-major cross product of its key and value
		// results); the object is the cross product over entries, first entry varying slowest,
		// pairs combined by deep merge.
		var agg []*V
		for i := 0; i+1 < len(e.Args); i += 2 {
			ks, err := Eval(e.Args[i], v, env.rw())
			if err != nil {
				return nil, err
			}
			vs, err := Eval(e.Args[i+1], v, env.rw())
			if err != nil {
				return nil, err
			}
			var pairs []*V
			for _, k := range ks {
				if !k.IsScalar() {
					return nil, ErrDomain
				}
				for _, x := range vs {
					pairs = append(pairs, MapV(MakeKV(k, x.Copy())))
				}
			}
			// observed fold: an empty aggregate is replaced by the next entry's pairs
			if len(agg) == 0 {
				agg = pairs
				continue
			}
			var next []*V
			for _, a := range agg {
				for _, p := range pairs {
					m, err := Merge(a, p, MergeFlags{})
					if err != nil {
						return nil, err
					}
					next = append(next, m)
				}
			}
			agg = next
		}
		return agg, nil
	}
	if len(in) == 0 {
		return one(in)
	}
	var out []*V
	for _, v := range in {
		r, err := one([]*V{v})
		if err != nil {
			return nil, err
		}
		out = append(out, r...)
	}
	return out, nil
}

// calcWhenEmpty lists the binary operators that still produce a result when one side is empty.
var calcWhenEmpty = map[string]bool{"+": true, "==": true, "!=": true, "<": true, "<=": true, ">": true, ">=": true, "and": true, "or": true, "//": true}

// operand contexts: which binary operators evaluate their operands read-only
var roOperands = map[string]bool{"+": true, "-": true, "/": true, "%": true, "!=": true, "and": true, "or": true}

func evalBin(e *Expr, in []*V, env Env) ([]*V, error) {
	oenv := env
	if roOperands[e.S] {
		oenv = env.ro()
	}
	cross := func(v []*V) ([]*V, error) {
		l, err := Eval(e.L, v, oenv)
		if err != nil {
			return nil, err
		}
		var out []*V
		forRHS := func(lv *V) error {
			// short-circuit forms decide on the left value alone
			switch e.S {
			case "//":
				if lv != nil && Truthy(lv) {
					out = append(out, lv)
					return nil
				}
			case "or":
				if Truthy(lv) {
					out = append(out, BoolV(true))
					return nil
				}
			case "and":
				if !Truthy(lv) {
					out = append(out, BoolV(false))
					return nil
				}
			}
			r, err := Eval(e.R, v, oenv)
			if err != nil {
				return err
			}
			if len(r) == 0 {
				if !calcWhenEmpty[e.S] {
					return nil
				}
				x, err := binCalc(e.S, lv, nil)
				if err != nil {
					return err
				}
				if x != nil {
					out = append(out, x)
				}
				return nil
			}
			for _, rv := range r {
				x, err := binCalc(e.S, lv, rv)
				if err != nil {
					return err
				}
				if x != nil {
					out = append(out, x)
				}
			}
			return nil
		}
		if len(l) == 0 && calcWhenEmpty[e.S] {
			if err := forRHS(nil); err != nil {
				return nil, err
			}
		}
		for _, lv := range l {
			if err := forRHS(lv); err != nil {
				return nil, err
			}
		}
		return out, nil
	}
	if len(in) == 0 {
		return cross(in)
	}
	var out []*V
	for _, v := range in {
		r, err := cross([]*V{v})
		if err != nil {
			return nil, err
		}
		out = append(out, r...)
	}
	return out, nil
}

func intOK(x *big.Int) bool { return x.IsInt64() }

func numF(v *V) (float64, bool) {
	switch v.K {
	case Int:
		f, _ := new(big.Float).SetInt(v.I).Float64()
		return f, true
	case Float:
		return v.F, true
	}
	return 0, false
}

func binCalc(op string, l, r *V) (*V, error) {
	switch op {
	case "+":
		return addV(l, r)
	case "-":
		return subV(l, r)
	case "*":
		return mulV(l, r)
	case "/":
		return divV(l, r)
	case "%":
		return modV(l, r)
	case "==", "!=":
		flip := op == "!="
		var val bool
		switch {
		case l == nil && r == nil:
			val = true
		case l == nil:
			val = r.K == Null
		case r == nil:
			val = l.K == Null
		case l.K == Null:
			val = r.K == Null
		case l.IsScalar() && r.IsScalar():
			val = Glob(l.Text(), r.Text())
		default:
			val = false // containers: not defined by the documentation, yq answers false
		}
		return BoolV(val != flip), nil
	case "<", "<=", ">", ">=":
		return cmpV(op, l, r)
	case "and", "or":
		return BoolV(Truthy(r)), nil
	case "//":
		if l == nil {
			return r, nil
		}
		if r == nil {
			return l, nil
		}
		if Truthy(l) {
			return l, nil
		}
		return r, nil
	}
	return nil, ErrDomain
}

// Glob is the `*`/`?` match yq applies to the right operand of == and to keys.
func Glob(name, pattern string) bool {
	if pattern == "" {
		return name == ""
	}
	px, nx, nextPx, nextNx := 0, 0, 0, 0
	for px < len(pattern) || nx < len(name) {
		if px < len(pattern) {
			c := pattern[px]
			switch c {
			case '?':
				if nx < len(name) {
					px++
					nx++
					continue
				}
			case '*':
				nextPx, nextNx = px, nx+1
				px++
				continue
			default:
				if nx < len(name) && name[nx] == c {
					px++
					nx++
					continue
				}
			}
		}
		if 0 < nextNx && nextNx <= len(name) {
			px, nx = nextPx, nextNx
			continue
		}
		return false
	}
	return true
}

func addV(l, r *V) (*V, error) {
	switch {
	case l == nil && r == nil:
		return nil, nil
	case l == nil:
		return r.Copy(), nil
	case r == nil:
		return l.Copy(), nil
	case l.K == Null:
		return r.Copy(), nil
	}
	switch l.K {
	case Map:
		if r.K != Map {
			return nil, evalErr("%s cannot be added to a map", r.K)
		}
		out := l.Copy()
		for _, kv := range r.M {
			if _, ok := out.Get(kv.K); ok {
				out.Set(kv.K, kv.V.Copy())
			} else {
				out.M = append(out.M, KV{kv.K, kv.V.Copy(), kv.KV})
			}
		}
		return out, nil
	case Seq:
		out := l.Copy()
		switch r.K {
		case Null:
		case Seq:
			for _, x := range r.A {
				out.A = append(out.A, x.Copy())
			}
		default:
			out.A = append(out.A, r.Copy())
		}
		return out, nil
	}
	if !r.IsScalar() {
		return nil, evalErr("%s cannot be added to a %s", r.K, l.K)
	}
	switch {
	case l.K == Str:
		if r.K == Null {
			return StrV(l.S), nil
		}
		return StrV(l.S + r.Text()), nil
	case r.K == Str:
		return StrV(l.Text() + r.S), nil
	case l.K == Int && r.K == Int:
		s := new(big.Int).Add(l.I, r.I)
		if !intOK(l.I) || !intOK(r.I) || !intOK(s) {
			return nil, ErrDomain // 64-bit wrap-around is not part of the documented semantics
		}
		return BigV(s), nil
	case l.IsNum() && r.IsNum():
		a, _ := numF(l)
		b, _ := numF(r)
		return compFloat(a + b), nil
	}
	return nil, evalErr("%s cannot be added to %s", l.K, r.K)
}

func subV(l, r *V) (*V, error) {
	if l.K == Null {
		return r.Copy(), nil
	}
	switch l.K {
	case Map:
		return nil, evalErr("maps not yet supported for subtraction")
	case Seq:
		if r.K != Seq {
			return nil, evalErr("%s cannot be subtracted from seq", r.K)
		}
		out := &V{K: Seq, A: []*V{}}
		for _, x := range l.A {
			keep := true
			for _, y := range r.A {
				if NodeEqual(x, y) {
					keep = false
					break
				}
			}
			if keep {
				out.A = append(out.A, x.Copy())
			}
		}
		return out, nil
	}
	if !r.IsScalar() {
		return nil, evalErr("%s cannot be subtracted from %s", r.K, l.K)
	}
	switch {
	case l.K == Str:
		return nil, evalErr("strings cannot be subtracted")
	case l.K == Int && r.K == Int:
		s := new(big.Int).Sub(l.I, r.I)
		if !intOK(l.I) || !intOK(r.I) || !intOK(s) {
			return nil, ErrDomain
		}
		return BigV(s), nil
	case l.IsNum() && r.IsNum():
		a, _ := numF(l)
		b, _ := numF(r)
		return compFloat(a - b), nil
	}
	return nil, evalErr("%s cannot be subtracted from %s", r.K, l.K)
}

func mulV(l, r *V) (*V, error) {
	if r.K == Null {
		return l.Copy(), nil
	}
	if (l.K == Map && r.K == Map) || (l.K == Null && r.K == Map) || (l.K == Seq && r.K == Seq) || (l.K == Null && r.K == Seq) {
		return Merge(l, r, MergeFlags{})
	}
	switch {
	case l.K == Int && r.K == Int:
		p := new(big.Int).Mul(l.I, r.I)
		if !intOK(l.I) || !intOK(r.I) || !intOK(p) {
			return nil, ErrDomain
		}
		return BigV(p), nil
	case l.IsNum() && r.IsNum():
		a, _ := numF(l)
		b, _ := numF(r)
		return compFloat(a * b), nil
	case (l.K == Str && r.K == Int) || (l.K == Int && r.K == Str):
		s, n := l, r
		if l.K == Int {
			s, n = r, l
		}
		if !n.I.IsInt64() {
			return nil, ErrDomain
		}
		c := n.I.Int64()
		if c < 0 {
			return nil, evalErr("cannot repeat string by a negative number")
		}
		if c > 1000 {
			return nil, ErrDomain
		}
		return StrV(strings.Repeat(s.S, int(c))), nil
	}
	return nil, evalErr("cannot multiply %s with %s", l.K, r.K)
}

func divV(l, r *V) (*V, error) {
	if l.K == Null {
		return nil, evalErr("null cannot be divided")
	}
	if !l.IsScalar() || !r.IsScalar() {
		return nil, evalErr("%s cannot be divided by %s", l.K, r.K)
	}
	switch {
	case l.K == Str && r.K == Str:
		return splitV(l.S, r.S), nil
	case l.IsNum() && r.IsNum():
		a, _ := numF(l)
		b, _ := numF(r)
		return compFloat(a / b), nil
	}
	return nil, evalErr("%s cannot be divided by %s", l.K, r.K)
}

func modV(l, r *V) (*V, error) {
	if l.K == Null {
		return nil, evalErr("null cannot modulo")
	}
	if !l.IsScalar() || !r.IsScalar() {
		return nil, evalErr("%s cannot modulo by %s", l.K, r.K)
	}
	switch {
	case l.K == Int && r.K == Int:
		if !intOK(l.I) || !intOK(r.I) {
			return nil, ErrDomain
		}
		if r.I.Sign() == 0 {
			return nil, evalErr("cannot modulo by 0")
		}
		a, b := l.I.Int64(), r.I.Int64()
		if a == math.MinInt64 && b == -1 {
			return IntV(0), nil
		}
		return IntV(a % b), nil
	case l.IsNum() && r.IsNum():
		a, _ := numF(l)
		b, _ := numF(r)
		return compFloat(math.Mod(a, b)), nil
	}
	return nil, evalErr("%s cannot modulo by %s", l.K, r.K)
}

func splitV(s, sep string) *V {
	out := &V{K: Seq, A: []*V{}}
	if s != "" {
		for _, p := range strings.Split(s, sep) {
			out.A = append(out.A, StrV(p))
		}
	}
	return out
}

func cmpV(op string, l, r *V) (*V, error) {
	orEq := op == "<=" || op == ">="
	greater := op == ">" || op == ">="
	switch {
	case l == nil && r == nil:
		return BoolV(orEq), nil
	case l == nil || r == nil:
		return BoolV(false), nil
	}
	if l.K == Map {
		return nil, evalErr("maps not yet supported for comparison")
	}
	if l.K == Seq {
		return nil, evalErr("arrays not yet supported for comparison")
	}
	if !r.IsScalar() {
		return nil, evalErr("%s cannot be compared", r.K)
	}
	decide := func(c int) *V {
		if orEq && c == 0 {
			return BoolV(true)
		}
		if greater {
			return BoolV(c > 0)
		}
		return BoolV(c < 0)
	}
	switch {
	case l.K == Str:
		// yq first tries to read a string on the left as an RFC3339 timestamp
		if looksLikeTimestamp(l.S) {
			return nil, ErrDomain
		}
		if r.K == Str {
			return decide(strings.Compare(l.S, r.S)), nil
		}
	case l.K == Int && r.K == Int:
		if !intOK(l.I) || !intOK(r.I) {
			return nil, ErrDomain
		}
		return decide(l.I.Cmp(r.I)), nil
	case l.IsNum() && r.IsNum():
		a, _ := numF(l)
		b, _ := numF(r)
		if math.IsNaN(a) || math.IsNaN(b) {
			return nil, ErrDomain
		}
		c := 0
		if a < b {
			c = -1
		} else if a > b {
			c = 1
		}
		return decide(c), nil
	}
	if l.K == Null && r.K == Null && orEq {
		return BoolV(true), nil
	}
	if l.K == Null || r.K == Null {
		return BoolV(false), nil
	}
	return nil, evalErr("%s not yet supported for comparison with %s", l.K, r.K)
}

// yq reads a string on the left of a comparison as a timestamp when it parses as RFC3339 or as a date
func looksLikeTimestamp(s string) bool {
	if _, err := time.Parse(time.RFC3339, s); err == nil {
		return true
	}
	_, err := time.Parse("2006-01-02", s)
	return err == nil
}

var oddNumberRe = regexp.MustCompile(`^[-+]?(0[xXo])?[0-9a-fA-F_]+$`)

// NodeEqual is yq's recursive node equality (used by seq - seq, contains): same kind, scalars by
// type and text, null equals null, maps irrespective of key order.
func NodeEqual(a, b *V) bool {
	if a.K != b.K {
		return false
	}
	switch a.K {
	case Null:
		return true
	case Seq:
		if len(a.A) != len(b.A) {
			return false
		}
		for i := range a.A {
			if !NodeEqual(a.A[i], b.A[i]) {
				return false
			}
		}
		return true
	case Map:
		if len(a.M) != len(b.M) {
			return false
		}
		for _, kv := range a.M {
			x, ok := b.Get(kv.K)
			if !ok || !NodeEqual(kv.V, x) {
				return false
			}
		}
		return true
	}
	return a.Text() == b.Text()
}

func flattenV(v *V, depth int) *V {
	if depth == 0 || v.K != Seq {
		return v.Copy()
	}
	out := &V{K: Seq, A: []*V{}}
	for _, x := range v.A {
		if x.K == Seq {
			f := flattenV(x, depth-1)
			out.A = append(out.A, f.A...)
		} else {
			out.A = append(out.A, x.Copy())
		}
	}
	return out
}

func evalFn0(name string, in []*V, env Env) ([]*V, error) {
	var out []*V
	for _, v := range in {
		switch name {
		case "length":
			switch v.K {
			case Null:
				out = append(out, IntV(0))
			case Seq:
				out = append(out, IntV(int64(len(v.A))))
			case Map:
				out = append(out, IntV(int64(len(v.M))))
			default:
				out = append(out, IntV(int64(len(v.Text()))))
			}
		case "keys":
			switch v.K {
			case Map:
				s := &V{K: Seq, A: []*V{}}
				for _, kv := range v.M {
					s.A = append(s.A, kv.KeyValue())
				}
				out = append(out, s)
			case Seq:
				s := &V{K: Seq, A: []*V{}}
				for i := range v.A {
					s.A = append(s.A, IntV(int64(i)))
				}
				out = append(out, s)
			default:
				return nil, evalErr("cannot get keys of %s", v.K)
			}
		case "reverse":
			if v.K != Seq {
				return nil, evalErr("reverse: not an array")
			}
			s := &V{K: Seq, A: make([]*V, len(v.A))}
			for i, x := range v.A {
				s.A[len(v.A)-1-i] = x
			}
			out = append(out, s)
		case "flatten":
			if v.K != Seq {
				return nil, evalErr("only arrays are supported for flatten")
			}
			out = append(out, flattenV(v, -1))
		case "not":
			out = append(out, BoolV(!Truthy(v)))
		case "any", "all":
			if v.K != Seq {
				return nil, evalErr("%s only supports arrays", name)
			}
			res := name == "all"
			for _, x := range v.A {
				if name == "any" && Truthy(x) {
					res = true
				}
				if name == "all" && !Truthy(x) {
					res = false
				}
			}
			out = append(out, BoolV(res))
		case "to_entries":
			switch v.K {
			case Map:
				s := &V{K: Seq, A: []*V{}}
				for _, kv := range v.M {
					s.A = append(s.A, MapV(KV{K: "key", V: kv.KeyValue()}, KV{K: "value", V: kv.V}))
				}
				out = append(out, s)
			case Seq:
				s := &V{K: Seq, A: []*V{}}
				for i, x := range v.A {
					s.A = append(s.A, MapV(KV{K: "key", V: IntV(int64(i))}, KV{K: "value", V: x}))
				}
				out = append(out, s)
			case Null:
			default:
				return nil, evalErr("%s has no keys", v.K)
			}
		case "from_entries":
			if v.K != Seq {
				return nil, evalErr("from entries only runs against arrays")
			}
			m, err := fromEntries(v)
			if err != nil {
				return nil, err
			}
			out = append(out, m)
		case "sort":
			if v.K != Seq {
				if v.K == Map {
					return nil, ErrDomain
				}
				return nil, evalErr("sort: not an array or map")
			}
			keys := make([][]*V, len(v.A))
			for i, x := range v.A {
				keys[i] = []*V{x}
			}
			r, err := SortBy(v, keys)
			if err != nil {
				return nil, err
			}
			out = append(out, r)
		case "unique":
			r, err := uniqueBy(v, Self(), env)
			if err != nil {
				return nil, err
			}
			out = append(out, r)
		default:
			return nil, ErrDomain
		}
	}
	return out, nil
}

func fromEntries(v *V) (*V, error) {
	m := &V{K: Map, M: []KV{}}
	for _, x := range v.A {
		if x.K != Map {
			return nil, ErrDomain // yq reads key/value out of whatever it finds; only maps are documented
		}
		k, ok1 := x.Get("key")
		val, ok2 := x.Get("value")
		if !ok1 || !ok2 {
			return nil, evalErr("expected to find one 'key'/'value' entry")
		}
		if !k.IsScalar() {
			return nil, ErrDomain
		}
		// AddKeyValueChild appends; duplicate keys stay duplicated in yq, which JSON readers collapse
		if _, dup := m.Get(k.Text()); dup {
			return nil, ErrDomain
		}
		m.M = append(m.M, MakeKV(k, val))
	}
	return m, nil
}

// uniqueKey mirrors the key yq groups by: text of the first result, containers by their YAML text.
func uniqueKey(rs []*V) (string, error) {
	if len(rs) == 0 {
		return "null", nil
	}
	k := rs[0]
	if k.IsScalar() {
		return k.Text(), nil
	}
	return "\x00c:" + k.JSON(), nil
}

func uniqueBy(v *V, f *Expr, env Env) (*V, error) {
	if v.K != Seq {
		return nil, evalErr("only arrays are supported for unique")
	}
	seen := map[string]Kind{}
	out := &V{K: Seq, A: []*V{}}
	for _, x := range v.A {
		rs, err := Eval(f, []*V{x}, env.ro())
		if err != nil {
			return nil, err
		}
		k, _ := uniqueKey(rs)
		kind := Null
		if len(rs) > 0 {
			kind = rs[0].K
		}
		if prev, ok := seen[k]; ok {
			if prev != kind {
				return nil, ErrDomain // values of different type with the same text: not defined
			}
			continue
		}
		seen[k] = kind
		out.A = append(out.A, x)
	}
	return out, nil
}

func evalFn1(e *Expr, in []*V, env Env) ([]*V, error) {
	var out []*V
	switch e.S {
	case "select", "filter", "map", "any_c", "all_c", "unique_by", "group_by", "with_entries":
	default:
		// has / contains / join / split evaluate their argument once against the whole input
	}
	switch e.S {
	case "select":
		for _, v := range in {
			rs, err := Eval(e.L, []*V{v}, env.ro())
			if err != nil {
				return nil, err
			}
			for _, r := range rs {
				if Truthy(r) {
					out = append(out, v)
					break
				}
			}
		}
		return out, nil
	case "map", "filter":
		f := e.L
		if e.S == "filter" {
			f = Fn1("select", e.L)
		}
		for _, v := range in {
			var kids []*V
			switch v.K {
			case Seq:
				kids = v.A
			case Map:
				for _, kv := range v.M {
					kids = append(kids, kv.V)
				}
			case Null:
				if !env.RO {
					env.T.WouldVivify = true // the splat inside map turns the null into a sequence in place
				}
			}
			rs, err := Eval(f, kids, env)
			if err != nil {
				return nil, err
			}
			if len(kids) == 0 && len(rs) > 0 {
				// a literal body yields one value even on an empty input list in yq
			}
			out = append(out, &V{K: Seq, A: append([]*V{}, rs...)})
		}
		return out, nil
	case "any_c", "all_c":
		for _, v := range in {
			if v.K != Seq {
				return nil, evalErr("%s only supports arrays", e.S)
			}
			want := e.S == "any_c"
			found := false
			for _, x := range v.A {
				rs, err := Eval(e.L, []*V{x}, env.ro())
				if err != nil {
					return nil, err
				}
				if len(rs) == 0 {
					continue
				}
				if Truthy(rs[0]) == want {
					found = true
					break
				}
			}
			if e.S == "any_c" {
				out = append(out, BoolV(found))
			} else {
				out = append(out, BoolV(!found))
			}
		}
		return out, nil
	case "sort_by":
		for _, v := range in {
			if v.K != Seq {
				if v.K == Map {
					return nil, ErrDomain
				}
				return nil, evalErr("sort_by: not an array or map")
			}
			keys := make([][]*V, len(v.A))
			for i, x := range v.A {
				ks, err := Eval(e.L, []*V{x}, env.ro())
				if err != nil {
					return nil, err
				}
				keys[i] = ks
			}
			r, err := SortBy(v, keys)
			if err != nil {
				return nil, err
			}
			out = append(out, r)
		}
		return out, nil
	case "unique_by":
		for _, v := range in {
			r, err := uniqueBy(v, e.L, env)
			if err != nil {
				return nil, err
			}
			out = append(out, r)
		}
		return out, nil
	case "group_by":
		for _, v := range in {
			if v.K != Seq {
				return nil, evalErr("only arrays are supported for group by")
			}
			var order []string
			groups := map[string]*V{}
			kinds := map[string]Kind{}
			for _, x := range v.A {
				rs, err := Eval(e.L, []*V{x}, env.ro())
				if err != nil {
					return nil, err
				}
				k := "null"
				kind := Null
				if len(rs) > 0 {
					if !rs[0].IsScalar() {
						return nil, ErrDomain
					}
					k, kind = rs[0].Text(), rs[0].K
				}
				g, ok := groups[k]
				if !ok {
					g = &V{K: Seq, A: []*V{}}
					groups[k] = g
					kinds[k] = kind
					order = append(order, k)
				} else if kinds[k] != kind {
					return nil, ErrDomain
				}
				g.A = append(g.A, x)
			}
			res := &V{K: Seq, A: []*V{}}
			for _, k := range order {
				res.A = append(res.A, groups[k])
			}
			out = append(out, res)
		}
		return out, nil
	case "with_entries":
		for _, v := range in {
			ents, err := evalFn0("to_entries", []*V{v}, env)
			if err != nil {
				return nil, err
			}
			if len(ents) == 0 {
				continue
			}
			var col []*V
			for _, ent := range ents[0].A {
				rs, err := Eval(e.L, []*V{ent}, env)
				if err != nil {
					return nil, err
				}
				col = append(col, rs...)
			}
			m, err := fromEntries(&V{K: Seq, A: col})
			if err != nil {
				return nil, err
			}
			out = append(out, m)
		}
		return out, nil
	case "has":
		rs, err := Eval(e.L, in, env.ro())
		if err != nil {
			return nil, err
		}
		wanted := NullV()
		if len(rs) > 0 {
			wanted = rs[0]
		}
		if !wanted.IsScalar() {
			return nil, ErrDomain
		}
		for _, v := range in {
			switch v.K {
			case Map:
				_, ok := v.Get(wanted.Text())
				out = append(out, BoolV(ok))
			case Seq:
				ok := false
				if wanted.K == Int {
					if !wanted.I.IsInt64() {
						return nil, ErrDomain
					}
					ok = int64(len(v.A)) > wanted.I.Int64()
				}
				out = append(out, BoolV(ok))
			default:
				out = append(out, BoolV(false))
			}
		}
		return out, nil
	case "contains":
		// cross function, read-only operands, nothing when a side is empty
		b := Bin("contains", Self(), e.L)
		_ = b
		one := func(v []*V) error {
			ls := v
			rs, err := Eval(e.L, v, env.ro())
			if err != nil {
				return err
			}
			for _, l := range ls {
				for _, r := range rs {
					if kindClass(l) != kindClass(r) {
						return evalErr("%s cannot check contained in %s", r.K, l.K)
					}
					out = append(out, BoolV(containsV(l, r)))
				}
			}
			return nil
		}
		for _, v := range in {
			if err := one([]*V{v}); err != nil {
				return nil, err
			}
		}
		return out, nil
	case "join":
		rs, err := Eval(e.L, in, env.ro())
		if err != nil {
			return nil, err
		}
		sep := ""
		if len(rs) > 0 {
			if !rs[0].IsScalar() {
				return nil, ErrDomain
			}
			sep = rs[0].Text()
			if rs[0].K == Null {
				return nil, ErrDomain
			}
		}
		for _, v := range in {
			if v.K != Seq {
				return nil, evalErr("cannot join with %s", v.K)
			}
			var parts []string
			for _, x := range v.A {
				if !x.IsScalar() {
					return nil, ErrDomain // joining containers concatenates empty texts in yq; undocumented
				}
				if x.K == Null {
					parts = append(parts, "")
				} else {
					parts = append(parts, x.Text())
				}
			}
			out = append(out, StrV(strings.Join(parts, sep)))
		}
		return out, nil
	case "split":
		rs, err := Eval(e.L, in, env.ro())
		if err != nil {
			return nil, err
		}
		sep := ""
		if len(rs) > 0 {
			if !rs[0].IsScalar() || rs[0].K == Null {
				return nil, ErrDomain
			}
			sep = rs[0].Text()
		}
		for _, v := range in {
			if v.K == Null {
				continue
			}
			if v.K != Str {
				return nil, evalErr("cannot split %s, can only split strings", v.K)
			}
			out = append(out, splitV(v.S, sep))
		}
		return out, nil
	}
	return nil, ErrDomain
}

func kindClass(v *V) int {
	switch v.K {
	case Seq:
		return 1
	case Map:
		return 2
	}
	return 0
}

func containsV(l, r *V) bool {
	switch l.K {
	case Map:
		if r.K != Map {
			return false
		}
		for _, kv := range r.M {
			// yq searches keys AND values of the left map for a node equal to the wanted key
			idx := -1
			pos := 0
			for _, lkv := range l.M {
				if NodeEqual(lkv.KeyValue(), kv.KeyValue()) {
					idx = pos
					break
				}
				pos++
				if NodeEqual(lkv.V, kv.KeyValue()) {
					idx = pos
					break
				}
				pos++
			}
			if idx < 0 || idx%2 != 0 {
				return false
			}
			lv, _ := l.Get(kv.K)
			if !containsV(lv, kv.V) {
				return false
			}
		}
		return true
	case Seq:
		elem := func(item *V) bool {
			for _, x := range l.A {
				if containsV(x, item) {
					return true
				}
			}
			return false
		}
		if r.K != Seq {
			return elem(r)
		}
		for _, item := range r.A {
			if !elem(item) {
				return false
			}
		}
		return true
	}
	if !r.IsScalar() || l.K != r.K {
		return false
	}
	if l.K == Null {
		return true
	}
	if l.K == Str {
		return strings.Contains(l.S, r.S)
	}
	return l.Text() == r.Text()
}

// passthrough: expressions that hand back the very node list they were given (`.`, `(. | .)`).
func passthrough(e *Expr) bool {
	switch e.Op {
	case OpSelf:
		return true
	case OpPipe:
		return passthrough(e.L) && passthrough(e.R)
	}
	return false
}
