package ref

import (
	"fmt"
	"strings"
)

// TOML side of C14 (decode only): a document is a list of statements; the same list is rendered
// as text by TOMLWrite and given its meaning by TOMLBuild (TOML v1.0 semantics: dotted keys,
// [table] and [[array-of-tables]] headers relative to the last element of enclosing arrays of
// tables, inline tables). python3's tomllib cross-validates TOMLBuild in the monitor.

type TKind int

const (
	TKV TKind = iota
	TTable
	TArrayTable
	TComment // full-line comment or blank line
)

// TVal is a TOML value: exactly one of Scalar (with its literal spelling), Array, Inline.
type TVal struct {
	Scalar *V
	Lit    string
	Array  []*TVal
	Inline []TInlineKV
	IsArr  bool
	IsInl  bool
	// writer hint: multi-line array with comments
	Multiline bool
}

type TInlineKV struct {
	Path []string
	Val  *TVal
}

type TStmt struct {
	Kind TKind
	Path []string
	Val  *TVal
	Text string // comment text
}

// TOMLQuirks are switches reproducing known decoder defects (used only by finding matchers).
type TOMLQuirks struct {
	DropEmptyTableBeforeHeader bool // C14-toml-empty-table-dropped
	InlineDottedReplace        bool // C14-toml-inline-dotted-clobber
	GlobKeys                   bool // C14-decode-key-glob (root-level key/values only)
}

func (q TOMLQuirks) valToV(t *TVal) (*V, error) {
	switch {
	case t.IsArr:
		s := &V{K: Seq, A: []*V{}}
		for _, e := range t.Array {
			v, err := q.valToV(e)
			if err != nil {
				return nil, err
			}
			s.A = append(s.A, v)
		}
		return s, nil
	case t.IsInl:
		m := &V{K: Map, M: []KV{}}
		for _, kv := range t.Inline {
			v, err := q.valToV(kv.Val)
			if err != nil {
				return nil, err
			}
			if q.InlineDottedReplace {
				// every key/value builds its own little map; the entries are concatenated and a
				// repeated first key keeps its first position but takes the last value
				tmp := &V{K: Map, M: []KV{}}
				if err := AssignPath(tmp, strPath(kv.Path), v, false); err != nil {
					return nil, err
				}
				m.Set(tmp.M[0].K, tmp.M[0].V)
				continue
			}
			if err := AssignPath(m, strPath(kv.Path), v, false); err != nil {
				return nil, err
			}
		}
		return m, nil
	}
	return t.Scalar.Copy(), nil
}

func strPath(p []string) []any {
	out := make([]any, len(p))
	for i, s := range p {
		out[i] = s
	}
	return out
}

// tomlNavigate walks header path segments from root, creating tables, entering the LAST element
// of any array of tables on the way.
func tomlNavigate(root *V, path []string) (*V, error) {
	cur := root
	for _, seg := range path {
		child, ok := cur.Get(seg)
		if !ok {
			child = &V{K: Map, M: []KV{}}
			cur.M = append(cur.M, KV{K: seg, V: child})
		}
		switch child.K {
		case Map:
			cur = child
		case Seq:
			if len(child.A) == 0 || child.A[len(child.A)-1].K != Map {
				return nil, fmt.Errorf("header passes through a non-table array %q", seg)
			}
			cur = child.A[len(child.A)-1]
		default:
			return nil, fmt.Errorf("header passes through scalar %q", seg)
		}
	}
	return cur, nil
}

// TOMLBuild gives the statement list its TOML meaning.
func TOMLBuild(stmts []TStmt, q TOMLQuirks) (*V, error) {
	root := &V{K: Map, M: []KV{}}
	cur := root
	atRoot := true
	for i, s := range stmts {
		switch s.Kind {
		case TKV:
			v, err := q.valToV(s.Val)
			if err != nil {
				return nil, err
			}
			if err := AssignPath(cur, strPath(s.Path), v, q.GlobKeys && atRoot); err != nil {
				return nil, err
			}
		case TTable:
			atRoot = false
			if q.DropEmptyTableBeforeHeader {
				// next significant statement
				j := i + 1
				for j < len(stmts) && stmts[j].Kind == TComment {
					j++
				}
				if j < len(stmts) && (stmts[j].Kind == TTable || stmts[j].Kind == TArrayTable) {
					cur = &V{K: Map, M: []KV{}} // detached: nothing is recorded
					continue
				}
			}
			t, err := tomlNavigate(root, s.Path)
			if err != nil {
				return nil, err
			}
			cur = t
		case TArrayTable:
			atRoot = false
			parent, err := tomlNavigate(root, s.Path[:len(s.Path)-1])
			if err != nil {
				return nil, err
			}
			last := s.Path[len(s.Path)-1]
			arr, ok := parent.Get(last)
			if !ok {
				arr = &V{K: Seq, A: []*V{}}
				parent.M = append(parent.M, KV{K: last, V: arr})
			}
			if arr.K != Seq {
				return nil, fmt.Errorf("[[%s]] on a non-array", last)
			}
			el := &V{K: Map, M: []KV{}}
			arr.A = append(arr.A, el)
			cur = el
		}
	}
	return root, nil
}

// ---- writer ----------------------------------------------------------------------------

type TOMLStyle struct {
	Choose func(n int) int
}

func tomlBareKey(k string) bool {
	if k == "" {
		return false
	}
	for i := 0; i < len(k); i++ {
		c := k[i]
		if !(c >= 'a' && c <= 'z' || c >= 'A' && c <= 'Z' || c >= '0' && c <= '9' || c == '_' || c == '-') {
			return false
		}
	}
	return true
}

// TOMLBasicString renders s as a basic ("...") string.
func TOMLBasicString(s string, ch func(int) int) string {
	var sb strings.Builder
	sb.WriteByte('"')
	for _, r := range s {
		switch {
		case r == '"':
			sb.WriteString(`\"`)
		case r == '\\':
			sb.WriteString(`\\`)
		case r == '\b':
			sb.WriteString(`\b`)
		case r == '\t':
			if ch(2) == 0 {
				sb.WriteString(`\t`)
			} else {
				sb.WriteByte('\t')
			}
		case r == '\n':
			sb.WriteString(`\n`)
		case r == '\f':
			sb.WriteString(`\f`)
		case r == '\r':
			sb.WriteString(`\r`)
		case r < 0x20 || r == 0x7f:
			fmt.Fprintf(&sb, `\u%04X`, r)
		case r >= 0x80 && ch(6) == 0:
			if r > 0xFFFF {
				fmt.Fprintf(&sb, `\U%08X`, r)
			} else {
				fmt.Fprintf(&sb, `\u%04x`, r)
			}
		default:
			sb.WriteRune(r)
		}
	}
	sb.WriteByte('"')
	return sb.String()
}

func tomlLiteralOK(s string) bool {
	for _, r := range s {
		if r == '\'' || r == '\n' || r == '\r' || (r < 0x20 && r != '\t') || r == 0x7f {
			return false
		}
	}
	return true
}

// TOMLKey renders one key segment.
func TOMLKey(k string, ch func(int) int) string {
	if tomlBareKey(k) && ch(5) != 0 {
		return k
	}
	if tomlLiteralOK(k) && ch(3) == 0 {
		return "'" + k + "'"
	}
	return TOMLBasicString(k, ch)
}

func tomlPath(p []string, ch func(int) int) string {
	parts := make([]string, len(p))
	for i, k := range p {
		parts[i] = TOMLKey(k, ch)
	}
	dot := "."
	if ch(6) == 0 {
		dot = " . "
	}
	return strings.Join(parts, dot)
}

func tomlVal(t *TVal, ch func(int) int, depth int) string {
	switch {
	case t.IsArr:
		if len(t.Array) == 0 {
			if ch(2) == 0 {
				return "[]"
			}
			return "[ ]"
		}
		var sb strings.Builder
		ml := t.Multiline
		sb.WriteString("[")
		for i, e := range t.Array {
			if ml {
				sb.WriteString("\n" + strings.Repeat("  ", depth+1))
			} else if i > 0 || ch(2) == 0 {
				sb.WriteString(" ")
			}
			sb.WriteString(tomlVal(e, ch, depth+1))
			if i < len(t.Array)-1 || (ml && ch(2) == 0) || (!ml && ch(6) == 0) {
				sb.WriteString(",")
			}
			if ml && ch(3) == 0 {
				sb.WriteString(" # item comment, with [brackets] and \"quotes\"")
			}
		}
		if ml {
			sb.WriteString("\n" + strings.Repeat("  ", depth))
		}
		sb.WriteString("]")
		return sb.String()
	case t.IsInl:
		if len(t.Inline) == 0 {
			return "{}"
		}
		var parts []string
		for _, kv := range t.Inline {
			eq := " = "
			if ch(4) == 0 {
				eq = "="
			}
			parts = append(parts, tomlPath(kv.Path, ch)+eq+tomlVal(kv.Val, ch, depth+1))
		}
		if ch(3) == 0 {
			return "{" + strings.Join(parts, ",") + "}"
		}
		return "{ " + strings.Join(parts, ", ") + " }"
	}
	return t.Lit
}

// TOMLWrite renders the statements.
func TOMLWrite(stmts []TStmt, st *TOMLStyle) string {
	ch := st.Choose
	if ch == nil {
		ch = func(int) int { return 0 }
	}
	var sb strings.Builder
	trail := func() string {
		switch ch(6) {
		case 0:
			return " # trailing comment = [x]"
		case 1:
			return "  "
		case 2:
			return "\t"
		}
		return ""
	}
	for _, s := range stmts {
		indent := ""
		if ch(5) == 0 {
			indent = strings.Repeat(" ", 1+ch(4))
		}
		switch s.Kind {
		case TComment:
			if s.Text == "" {
				sb.WriteString("\n")
			} else {
				sb.WriteString(indent + "#" + s.Text + "\n")
			}
		case TKV:
			eq := " = "
			switch ch(5) {
			case 0:
				eq = "="
			case 1:
				eq = "  =\t"
			}
			sb.WriteString(indent + tomlPath(s.Path, ch) + eq + tomlVal(s.Val, ch, 0) + trail() + "\n")
		case TTable:
			l, r := "[", "]"
			if ch(5) == 0 {
				l, r = "[ ", " ]"
			}
			sb.WriteString(indent + l + tomlPath(s.Path, ch) + r + trail() + "\n")
		case TArrayTable:
			l, r := "[[", "]]"
			if ch(5) == 0 {
				l, r = "[[ ", " ]]"
			}
			sb.WriteString(indent + l + tomlPath(s.Path, ch) + r + trail() + "\n")
		}
	}
	return sb.String()
}
