package ref

// MergeFlags are the flags of the deep-merge operator: `+` append sequences, `d` merge sequences
// by position, `?` only existing keys, `n` only new keys.
type MergeFlags struct{ Append, Deep, Existing, NewOnly bool }

func (f MergeFlags) String() string {
	s := ""
	if f.Append {
		s += "+"
	}
	if f.Deep {
		s += "d"
	}
	if f.Existing {
		s += "?"
	}
	if f.NewOnly {
		s += "n"
	}
	return s
}

// Merge computes a * b: a's entries first then b's new entries; common keys merged recursively when
// both are maps, otherwise b wins. It is written as the documented "for every node of b, assign it
// at the same path of a copy of a", which also fixes what the flags mean.
func Merge(a, b *V, f MergeFlags) (*V, error) {
	if b.K == Null {
		return a.Copy(), nil
	}
	out := a.Copy()
	var walkErr error
	var visit func(n *V, path []any)
	visit = func(n *V, path []any) {
		if walkErr != nil {
			return
		}
		walkErr = mergeAssign(out, path, n, f)
		if walkErr != nil {
			return
		}
		switch n.K {
		case Map:
			for _, kv := range n.M {
				p := append(append([]any{}, path...), kv.K)
				// the key node is visited before its value: the entry is created (null) unless `?`
				if t := mergeResolve(out, p, !f.Existing, &walkErr); t == nil && walkErr != nil {
					return
				}
				visit(kv.V, p)
			}
		case Seq:
			if f.Deep {
				for i, x := range n.A {
					visit(x, append(append([]any{}, path...), i))
				}
			}
		}
	}
	visit(b, nil)
	if walkErr != nil {
		return nil, walkErr
	}
	return out, nil
}

// mergeResolve walks path inside root, creating missing map entries when create is set (sequence
// indices are always padded, as yq does). Returns nil when the path does not exist.
func mergeResolve(root *V, path []any, create bool, perr *error) *V {
	cur := root
	for _, p := range path {
		switch k := p.(type) {
		case string:
			if cur.K == Null {
				*cur = V{K: Map, M: []KV{}}
			}
			switch cur.K {
			case Map:
				x, ok := cur.Get(k)
				if !ok {
					if !create {
						return nil
					}
					x = NullV()
					cur.M = append(cur.M, KV{K: k, V: x})
				}
				cur = x
			case Seq:
				*perr = ErrDomain // map-vs-sequence conflict that survived (only with ? or n): undefined
				return nil
			default:
				return nil
			}
		case int:
			if cur.K == Null {
				*cur = V{K: Seq, A: []*V{}}
			}
			switch cur.K {
			case Seq:
				for len(cur.A) <= k {
					cur.A = append(cur.A, NullV())
				}
				cur = cur.A[k]
			case Map:
				*perr = ErrDomain
				return nil
			default:
				return nil
			}
		}
	}
	return cur
}

func mergeAssign(root *V, path []any, n *V, f MergeFlags) error {
	var err error
	t := mergeResolve(root, path, !f.Existing, &err)
	if err != nil {
		return err
	}
	if t == nil {
		return nil
	}
	writable := !f.NewOnly || t.K == Null
	switch {
	case n.K == Seq && f.Append:
		// t += n
		if !writable {
			return nil
		}
		sum, err := addV(t, n)
		if err != nil {
			return ErrDomain // sequence appended to a non-sequence: undefined by the documentation
		}
		*t = *sum
	case (n.K == Seq && !f.Deep) || n.IsScalar():
		if writable {
			*t = *n.Copy()
		}
	default:
		// map (or sequence under `d`): only the kind is carried over; children follow one by one
		if writable && t.K != n.K {
			if n.K == Map {
				*t = V{K: Map, M: []KV{}}
			} else {
				*t = V{K: Seq, A: []*V{}}
			}
		}
	}
	return nil
}
