package ref

import (
	"fmt"
	"strings"
)

// Independent RFC 4180 reader/writer for C14 (generalised to any one-rune separator, so it also
// covers yq's TSV dialect, which is CSV quoting with a tab separator). It does not use encoding/csv.

// CSVRead parses text into records. Records end at LF or CRLF outside quotes; a final record
// without terminator is accepted; a quoted field may contain separators, quotes (doubled), CR and LF
// and is taken verbatim. A completely empty line is reported as a record with one empty field
// (callers decide what that means); blankLines counts them.
func CSVRead(text string, sep rune) (records [][]string, blankLines int, err error) {
	rs := []rune(text)
	i := 0
	n := len(rs)
	for i < n {
		var rec []string
		lineStart := i
		for {
			var fld strings.Builder
			if i < n && rs[i] == '"' {
				i++
				closed := false
				for i < n {
					if rs[i] == '"' {
						if i+1 < n && rs[i+1] == '"' {
							fld.WriteRune('"')
							i += 2
							continue
						}
						i++
						closed = true
						break
					}
					fld.WriteRune(rs[i])
					i++
				}
				if !closed {
					return nil, 0, fmt.Errorf("unterminated quoted field")
				}
				if i < n && rs[i] != sep && rs[i] != '\n' && !(rs[i] == '\r' && i+1 < n && rs[i+1] == '\n') {
					return nil, 0, fmt.Errorf("text after closing quote at rune %d", i)
				}
			} else {
				for i < n && rs[i] != sep && rs[i] != '\n' && !(rs[i] == '\r' && i+1 < n && rs[i+1] == '\n') {
					if rs[i] == '"' {
						return nil, 0, fmt.Errorf("bare quote in unquoted field at rune %d", i)
					}
					fld.WriteRune(rs[i])
					i++
				}
			}
			rec = append(rec, fld.String())
			if i < n && rs[i] == sep {
				i++
				continue
			}
			break
		}
		// record terminator
		if i < n && rs[i] == '\r' {
			i++
		}
		if i < n && rs[i] == '\n' {
			i++
		}
		if len(rec) == 1 && rec[0] == "" && (i-lineStart) <= 2 && (lineStart >= n || rs[lineStart] != '"') {
			blankLines++
		}
		records = append(records, rec)
	}
	return records, blankLines, nil
}

// CSVStyle selects the writer's surface syntax.
type CSVStyle struct {
	Choose   func(n int) int
	QuoteAll bool // quote every field, needed or not
	CRLF     bool // CRLF record terminators
	NoFinal  bool // no terminator after the last record
}

func csvNeedsQuote(f string, sep rune) bool {
	if f == "" {
		return false
	}
	return strings.ContainsRune(f, sep) || strings.ContainsAny(f, "\"\r\n")
}

// CSVWrite renders the records.
func CSVWrite(records [][]string, sep rune, st *CSVStyle) string {
	ch := st.Choose
	if ch == nil {
		ch = func(int) int { return 0 }
	}
	nl := "\n"
	if st.CRLF {
		nl = "\r\n"
	}
	var sb strings.Builder
	for ri, rec := range records {
		for fi, f := range rec {
			if fi > 0 {
				sb.WriteRune(sep)
			}
			q := csvNeedsQuote(f, sep) || st.QuoteAll || (len(rec) == 1 && f == "") || ch(5) == 0
			if q {
				sb.WriteByte('"')
				sb.WriteString(strings.ReplaceAll(f, `"`, `""`))
				sb.WriteByte('"')
			} else {
				sb.WriteString(f)
			}
		}
		if ri < len(records)-1 || !st.NoFinal {
			sb.WriteString(nl)
		}
	}
	return sb.String()
}
