// Package ref holds the reference models the monitors decide against. Nothing in here
// imports yqlib: it is an independent second implementation over a pure value model.
package ref

import (
	"bytes"
	"encoding/json"
	"fmt"
	"hash/fnv"
	"io"
	"math"
	"math/big"
	"strconv"
	"strings"
	"unicode/utf8"
)

type Kind int

const (
	Null Kind = iota
	Bool
	Int
	Float
	Str
	Seq
	Map
)

func (k Kind) String() string {
	return [...]string{"null", "bool", "int", "float", "str", "seq", "map"}[k]
}

type KV struct {
	K  string
	V  *V
	KV *V // the key as a value when it is not a string (yq keeps the key's type; JSON output stringifies it)
}

// KeyValue returns the key as a value.
func (e KV) KeyValue() *V {
	if e.KV != nil {
		return e.KV
	}
	return StrV(e.K)
}

// MakeKV builds an entry from a scalar key value.
func MakeKV(k *V, v *V) KV {
	if k.K == Str {
		return KV{K: k.S, V: v}
	}
	return KV{K: k.Text(), V: v, KV: k.Copy()}
}

// V is a JSON-model value with exact integers and ordered maps.
type V struct {
	K Kind
	B bool
	I *big.Int
	F float64
	S string
	A []*V
	M []KV
}

func NullV() *V             { return &V{K: Null} }
func BoolV(b bool) *V       { return &V{K: Bool, B: b} }
func IntV(i int64) *V       { return &V{K: Int, I: big.NewInt(i)} }
func BigV(i *big.Int) *V    { return &V{K: Int, I: new(big.Int).Set(i)} }
func FloatV(f float64) *V   { return &V{K: Float, F: f} }
func StrV(s string) *V      { return &V{K: Str, S: s} }
func SeqV(a ...*V) *V       { return &V{K: Seq, A: a} }
func MapV(kv ...KV) *V      { return &V{K: Map, M: kv} }
func (v *V) IsScalar() bool { return v.K != Seq && v.K != Map }
func (v *V) IsNum() bool    { return v.K == Int || v.K == Float }

func (v *V) Get(k string) (*V, bool) {
	for _, e := range v.M {
		if e.K == k {
			return e.V, true
		}
	}
	return nil, false
}

// Set replaces or appends key k (first occurrence).
func (v *V) Set(k string, x *V) {
	for i, e := range v.M {
		if e.K == k {
			v.M[i].V = x
			return
		}
	}
	v.M = append(v.M, KV{K: k, V: x})
}

func (v *V) Copy() *V {
	if v == nil {
		return nil
	}
	c := &V{K: v.K, B: v.B, F: v.F, S: v.S}
	if v.I != nil {
		c.I = new(big.Int).Set(v.I)
	}
	if v.A != nil {
		c.A = make([]*V, len(v.A))
		for i, x := range v.A {
			c.A[i] = x.Copy()
		}
	}
	if v.M != nil {
		c.M = make([]KV, len(v.M))
		for i, e := range v.M {
			c.M[i] = KV{e.K, e.V.Copy(), e.KV}
		}
	}
	return c
}

// Equal is exact structural equality: ints exact, floats by float64 value (NaN == NaN),
// key order significant. Int and Float are different kinds.
func Equal(a, b *V) bool {
	if a == nil || b == nil {
		return a == b
	}
	if a.K != b.K {
		return false
	}
	switch a.K {
	case Null:
		return true
	case Bool:
		return a.B == b.B
	case Int:
		return a.I.Cmp(b.I) == 0
	case Float:
		return a.F == b.F || (math.IsNaN(a.F) && math.IsNaN(b.F))
	case Str:
		return a.S == b.S
	case Seq:
		if len(a.A) != len(b.A) {
			return false
		}
		for i := range a.A {
			if !Equal(a.A[i], b.A[i]) {
				return false
			}
		}
		return true
	case Map:
		if len(a.M) != len(b.M) {
			return false
		}
		for i := range a.M {
			if a.M[i].K != b.M[i].K || !Equal(a.M[i].V, b.M[i].V) {
				return false
			}
		}
		return true
	}
	return false
}

// EqualNum is Equal except that an Int and a Float with the same numeric value are equal
// (JSON cannot tell 1.0 from 1 once printed by some encoders).
func EqualNum(a, b *V) bool {
	if a == nil || b == nil {
		return a == b
	}
	if a.IsNum() && b.IsNum() {
		return numCmp(a, b) == 0
	}
	if a.K != b.K {
		return false
	}
	switch a.K {
	case Seq:
		if len(a.A) != len(b.A) {
			return false
		}
		for i := range a.A {
			if !EqualNum(a.A[i], b.A[i]) {
				return false
			}
		}
		return true
	case Map:
		if len(a.M) != len(b.M) {
			return false
		}
		for i := range a.M {
			if a.M[i].K != b.M[i].K || !EqualNum(a.M[i].V, b.M[i].V) {
				return false
			}
		}
		return true
	}
	return Equal(a, b)
}

func numCmp(a, b *V) int {
	if a.K == Int && b.K == Int {
		return a.I.Cmp(b.I)
	}
	// as soon as one side is a float the comparison is on float64 values: JSON printers are free
	// to spell 8.87e+17 as 887000000000000000, and readers map both to the same double
	x, y := toF(a), toF(b)
	switch {
	case x < y:
		return -1
	case x > y:
		return 1
	case x == y:
		return 0
	}
	if math.IsNaN(x) && math.IsNaN(y) {
		return 0
	}
	return 2
}

func toF(a *V) float64 {
	if a.K == Int {
		f, _ := new(big.Float).SetInt(a.I).Float64()
		return f
	}
	return a.F
}

// JSON renders compact JSON. Non-ASCII is emitted raw (so the same text is also valid YAML
// with the same meaning: YAML double-quoted escapes are a superset of these).
func (v *V) JSON() string {
	var sb strings.Builder
	v.writeJSON(&sb)
	return sb.String()
}

func QuoteJSON(s string) string {
	var sb strings.Builder
	writeJSONString(&sb, s)
	return sb.String()
}

func writeJSONString(sb *strings.Builder, s string) {
	sb.WriteByte('"')
	for i := 0; i < len(s); {
		r, n := utf8.DecodeRuneInString(s[i:])
		switch {
		case r == utf8.RuneError && n == 1:
			sb.WriteString(`�`)
		case r == '"':
			sb.WriteString(`\"`)
		case r == '\\':
			sb.WriteString(`\\`)
		case r == '\n':
			sb.WriteString(`\n`)
		case r == '\t':
			sb.WriteString(`\t`)
		case r == '\r':
			sb.WriteString(`\r`)
		case r < 0x20 || (r >= 0x7f && r <= 0xa0) || r == 0x2028 || r == 0x2029 || r == 0xfeff || r == 0xfffe || r == 0xffff:
			fmt.Fprintf(sb, `\u%04x`, r)
		default:
			sb.WriteString(s[i : i+n])
		}
		i += n
	}
	sb.WriteByte('"')
}

func FormatFloat(f float64) string {
	if math.IsInf(f, 1) {
		return ".inf"
	}
	if math.IsInf(f, -1) {
		return "-.inf"
	}
	if math.IsNaN(f) {
		return ".nan"
	}
	s := strconv.FormatFloat(f, 'g', -1, 64)
	if !strings.ContainsAny(s, ".eE") {
		s += ".0"
	}
	return s
}

func (v *V) writeJSON(sb *strings.Builder) {
	switch v.K {
	case Null:
		sb.WriteString("null")
	case Bool:
		if v.B {
			sb.WriteString("true")
		} else {
			sb.WriteString("false")
		}
	case Int:
		sb.WriteString(v.I.String())
	case Float:
		sb.WriteString(FormatFloat(v.F))
	case Str:
		writeJSONString(sb, v.S)
	case Seq:
		sb.WriteByte('[')
		for i, x := range v.A {
			if i > 0 {
				sb.WriteByte(',')
			}
			x.writeJSON(sb)
		}
		sb.WriteByte(']')
	case Map:
		sb.WriteByte('{')
		for i, e := range v.M {
			if i > 0 {
				sb.WriteByte(',')
			}
			writeJSONString(sb, e.K)
			sb.WriteByte(':')
			e.V.writeJSON(sb)
		}
		sb.WriteByte('}')
	}
}

func (v *V) String() string { return v.JSON() }

// ParseJSON reads exactly one JSON text (order-preserving, exact numbers).
func ParseJSON(s string) (*V, error) {
	dec := json.NewDecoder(strings.NewReader(s))
	dec.UseNumber()
	v, err := parseJSONValue(dec)
	if err != nil {
		return nil, err
	}
	if _, err := dec.Token(); err != io.EOF {
		return nil, fmt.Errorf("trailing data after JSON value")
	}
	return v, nil
}

// ParseJSONStream reads a concatenation of JSON texts (what `yq -o=json -I0` prints, one per result).
func ParseJSONStream(s string) ([]*V, error) {
	dec := json.NewDecoder(strings.NewReader(s))
	dec.UseNumber()
	var out []*V
	for {
		v, err := parseJSONValue(dec)
		if err == io.EOF {
			return out, nil
		}
		if err != nil {
			return out, err
		}
		out = append(out, v)
	}
}

func parseJSONValue(dec *json.Decoder) (*V, error) {
	t, err := dec.Token()
	if err != nil {
		return nil, err
	}
	return parseJSONTok(dec, t)
}

func parseJSONTok(dec *json.Decoder, t json.Token) (*V, error) {
	switch x := t.(type) {
	case nil:
		return NullV(), nil
	case bool:
		return BoolV(x), nil
	case string:
		return StrV(x), nil
	case json.Number:
		return NumFromText(string(x))
	case json.Delim:
		switch x {
		case '[':
			v := &V{K: Seq, A: []*V{}}
			for dec.More() {
				e, err := parseJSONValue(dec)
				if err != nil {
					return nil, err
				}
				v.A = append(v.A, e)
			}
			if _, err := dec.Token(); err != nil {
				return nil, err
			}
			return v, nil
		case '{':
			v := &V{K: Map, M: []KV{}}
			for dec.More() {
				kt, err := dec.Token()
				if err != nil {
					return nil, err
				}
				k, ok := kt.(string)
				if !ok {
					return nil, fmt.Errorf("non-string key")
				}
				e, err := parseJSONValue(dec)
				if err != nil {
					return nil, err
				}
				v.M = append(v.M, KV{K: k, V: e})
			}
			if _, err := dec.Token(); err != nil {
				return nil, err
			}
			return v, nil
		}
	}
	return nil, fmt.Errorf("unexpected token %v", t)
}

// NumFromText classifies a JSON number text: integer syntax -> exact Int, else Float.
func NumFromText(s string) (*V, error) {
	if !strings.ContainsAny(s, ".eE") {
		i, ok := new(big.Int).SetString(s, 10)
		if ok {
			return &V{K: Int, I: i}, nil
		}
	}
	f, err := strconv.ParseFloat(s, 64)
	if err != nil {
		return nil, err
	}
	return FloatV(f), nil
}

// ShapeHash hashes the structure (kinds, sizes, keys) ignoring scalar contents.
func (v *V) ShapeHash() uint64 {
	h := fnv.New64a()
	v.shape(h)
	return h.Sum64()
}

func (v *V) shape(h io.Writer) {
	switch v.K {
	case Seq:
		fmt.Fprintf(h, "[%d", len(v.A))
		for _, x := range v.A {
			x.shape(h)
		}
	case Map:
		fmt.Fprintf(h, "{%d", len(v.M))
		for _, e := range v.M {
			io.WriteString(h, e.K)
			e.V.shape(h)
		}
	default:
		fmt.Fprintf(h, "%d", v.K)
	}
}

// Hash hashes the full value.
func (v *V) Hash() uint64 {
	h := fnv.New64a()
	io.WriteString(h, v.JSON())
	return h.Sum64()
}

// Walk visits every node pre-order with its path (string keys and int indices).
func (v *V) Walk(path []any, f func(path []any, n *V)) {
	f(path, v)
	switch v.K {
	case Seq:
		for i, x := range v.A {
			x.Walk(append(append([]any{}, path...), i), f)
		}
	case Map:
		for _, e := range v.M {
			e.V.Walk(append(append([]any{}, path...), e.K), f)
		}
	}
}

// GetPath follows a path; ok=false when it leaves the value.
func (v *V) GetPath(path []any) (*V, bool) {
	cur := v
	for _, p := range path {
		switch k := p.(type) {
		case string:
			if cur.K != Map {
				return nil, false
			}
			x, ok := cur.Get(k)
			if !ok {
				return nil, false
			}
			cur = x
		case int:
			if cur.K != Seq || k < 0 || k >= len(cur.A) {
				return nil, false
			}
			cur = cur.A[k]
		}
	}
	return cur, true
}

func PathString(path []any) string {
	var b bytes.Buffer
	for _, p := range path {
		switch k := p.(type) {
		case string:
			b.WriteString("." + QuoteJSON(k))
		case int:
			fmt.Fprintf(&b, "[%d]", k)
		}
	}
	if b.Len() == 0 {
		return "."
	}
	return b.String()
}
