package ref

// Extractors over gopkg.in/yaml.v3's Node parse of a YAML text (C05 / C07).
//
// This file reads texts with yaml.v3 (a dependency of yq, not the code under test; yqlib's
// conversion and printing layer is what the properties are about). It never imports yqlib.
//
//	(a) YDoc.Rows   per-path attribute table {kind, scalar value, resolved short tag, explicit-tag flag,
//	                scalar style / collection style, anchor name, alias target path, line comment}
//	(b) YDoc.Stream the LINEARISED COMMENT STREAM: an in-order walk emitting N(path) for every leaf
//	                (scalar, alias, key, flow or empty collection) and C(line) for every line of every head
//	                comment (before its node) and foot comment (after the node's subtree; for a key after
//	                the value's subtree). Two streams are equal when the same comment lines occur in the
//	                same order between the same pairs of leaves: WHICH neighbour yaml.v3 attached an
//	                own-line comment to (foot of k vs head of the next key, head of a block collection
//	                vs head of its first key, document head vs head of the first key) is invisible.
//	(c) YDoc.Data   canonical rendering of the data: structure, key order, scalar text + resolved tag,
//	                custom tags, anchor -> alias topology (anchors numbered by order of definition).

import (
	"bytes"
	"errors"
	"fmt"
	"io"
	"strings"

	yaml "gopkg.in/yaml.v3"
)

// YRow is one line of table (a).
type YRow struct {
	P        []any  `json:"-"`    // path steps: string = map key, int = sequence index
	Path     string `json:"path"` // printable form of P; key nodes carry the suffix "@key"
	IsKey    bool   `json:"key,omitempty"`
	Kind     string `json:"kind"` // scalar | map | seq | alias
	Value    string `json:"value,omitempty"`
	Tag      string `json:"tag"`                // resolved short tag (!!str, !!int, !thing …)
	Explicit bool   `json:"explicit,omitempty"` // the tag is written in the text
	Style    string `json:"style,omitempty"`    // plain|single|double|literal|folded  /  block|flow
	Anchor   string `json:"anchor,omitempty"`
	AliasOf  string `json:"alias_of,omitempty"` // path of the anchored node an alias points to
	Line     string `json:"line,omitempty"`     // line comment
	Len      int    `json:"-"`                  // number of children (collections)
}

// YTok is one token of stream (b).
type YTok struct {
	C    bool   // comment line (else leaf marker)
	Text string // comment line text / leaf path
	P    []any  // leaf: its path; comment: path of the node yaml.v3 attached the comment to
	Doc  bool   // comment attached to the document node
	Key  bool   // the leaf / owner is a key node
}

func (t YTok) String() string {
	if t.C {
		return "C(" + t.Text + ")"
	}
	return "N(" + t.Text + ")"
}

// YDoc is the extract of one document.
type YDoc struct {
	Rows   []YRow
	Stream []YTok
	Data   string
}

// YPath renders path steps.
func YPath(p []any) string {
	var b strings.Builder
	b.WriteByte('$')
	for _, s := range p {
		switch k := s.(type) {
		case string:
			if yIsSimpleKey(k) {
				b.WriteByte('.')
				b.WriteString(k)
			} else {
				b.WriteString("[" + QuoteJSON(k) + "]")
			}
		case int:
			fmt.Fprintf(&b, "[%d]", k)
		}
	}
	return b.String()
}

func yIsSimpleKey(k string) bool {
	if k == "" {
		return false
	}
	for _, c := range k {
		if !(c >= 'a' && c <= 'z' || c >= 'A' && c <= 'Z' || c >= '0' && c <= '9' || c == '_') {
			return false
		}
	}
	return true
}

// YScalarStyle names a yaml.v3 scalar style.
func YScalarStyle(s yaml.Style) string {
	switch {
	case s&yaml.DoubleQuotedStyle != 0:
		return "double"
	case s&yaml.SingleQuotedStyle != 0:
		return "single"
	case s&yaml.LiteralStyle != 0:
		return "literal"
	case s&yaml.FoldedStyle != 0:
		return "folded"
	}
	return "plain"
}

// CommentLines splits a yaml.v3 comment into trimmed non-empty lines.
func CommentLines(c string) []string {
	if c == "" {
		return nil
	}
	var out []string
	for _, ln := range strings.Split(c, "\n") {
		ln = strings.TrimRight(strings.TrimLeft(ln, " \t"), " \t\r")
		if ln != "" {
			out = append(out, ln)
		}
	}
	return out
}

// ParseYAMLNodes decodes every document of text into a yaml.v3 document node.
func ParseYAMLNodes(text string) ([]*yaml.Node, error) {
	dec := yaml.NewDecoder(strings.NewReader(text))
	var docs []*yaml.Node
	for {
		n := new(yaml.Node)
		err := dec.Decode(n)
		if errors.Is(err, io.EOF) {
			return docs, nil
		}
		if err != nil {
			return docs, err
		}
		docs = append(docs, n)
		if len(docs) > 10000 {
			return docs, errors.New("too many documents")
		}
	}
}

// LibRoundTrip is the bare library round trip: yaml.v3 decode -> encode (indent 2), no yqlib.
func LibRoundTrip(text string) (out string, err error) {
	defer func() {
		if x := recover(); x != nil {
			err = fmt.Errorf("yaml.v3 panicked: %v", x)
		}
	}()
	docs, err := ParseYAMLNodes(text)
	if err != nil {
		return "", err
	}
	if len(docs) == 0 {
		return "", nil // the encoder refuses to close a stream it never started
	}
	var buf bytes.Buffer
	enc := yaml.NewEncoder(&buf)
	enc.SetIndent(2)
	for _, d := range docs {
		if err := enc.Encode(d); err != nil {
			return "", err
		}
	}
	if err := enc.Close(); err != nil {
		return "", err
	}
	return buf.String(), nil
}

// ExtractYAML parses text and extracts every document.
func ExtractYAML(text string) (docs []YDoc, err error) {
	defer func() {
		if x := recover(); x != nil {
			err = fmt.Errorf("yaml.v3 panicked: %v", x)
		}
	}()
	nodes, err := ParseYAMLNodes(text)
	if err != nil {
		return nil, err
	}
	for _, n := range nodes {
		docs = append(docs, ExtractNode(n))
	}
	return docs, nil
}

type yext struct {
	doc     *YDoc
	paths   map[*yaml.Node]string // anchored node -> path
	anchNum map[*yaml.Node]int
	data    strings.Builder
}

// ExtractNode extracts one document (a DocumentNode or a bare root).
func ExtractNode(n *yaml.Node) YDoc {
	x := &yext{doc: &YDoc{}, paths: map[*yaml.Node]string{}, anchNum: map[*yaml.Node]int{}}
	if n.Kind == yaml.DocumentNode {
		x.comment(n.HeadComment, nil, true, false)
		if len(n.Content) > 0 {
			x.walk(n.Content[0], nil, false)
		}
		x.comment(n.FootComment, nil, true, false)
	} else {
		x.walk(n, nil, false)
	}
	x.doc.Data = x.data.String()
	return *x.doc
}

func (x *yext) comment(c string, owner []any, doc, key bool) {
	for _, ln := range CommentLines(c) {
		x.doc.Stream = append(x.doc.Stream, YTok{C: true, Text: ln, P: owner, Doc: doc, Key: key})
	}
}

func yCp(p []any, s any) []any { return append(append(make([]any, 0, len(p)+1), p...), s) }

// row appends the table line of n and returns its index.
func (x *yext) row(n *yaml.Node, p []any, isKey bool) int {
	r := YRow{P: p, Path: YPath(p), IsKey: isKey, Tag: n.ShortTag(), Explicit: n.Style&yaml.TaggedStyle != 0,
		Anchor: n.Anchor, Line: strings.Join(CommentLines(n.LineComment), "\n")}
	if isKey {
		r.Path += "@key"
	}
	switch n.Kind {
	case yaml.ScalarNode:
		r.Kind, r.Value, r.Style = "scalar", n.Value, YScalarStyle(n.Style)
	case yaml.AliasNode:
		r.Kind, r.Value, r.Style = "alias", n.Value, ""
		r.Anchor = ""
		if n.Alias != nil {
			r.AliasOf = x.paths[n.Alias]
			if r.AliasOf == "" {
				r.AliasOf = "?" + n.Alias.Anchor
			}
		}
	case yaml.MappingNode, yaml.SequenceNode:
		r.Kind = "map"
		r.Len = len(n.Content) / 2
		if n.Kind == yaml.SequenceNode {
			r.Kind = "seq"
			r.Len = len(n.Content)
		}
		r.Style = "block"
		if n.Style&yaml.FlowStyle != 0 {
			r.Style = "flow"
		}
	default:
		r.Kind = fmt.Sprintf("kind%d", n.Kind)
	}
	if n.Anchor != "" && n.Kind != yaml.AliasNode {
		x.paths[n] = r.Path
		x.anchNum[n] = len(x.anchNum) + 1
	}
	x.doc.Rows = append(x.doc.Rows, r)
	return len(x.doc.Rows) - 1
}

func (x *yext) leaf(path string, p []any, key bool) {
	x.doc.Stream = append(x.doc.Stream, YTok{Text: path, P: p, Key: key})
}

// walk emits row, stream tokens and data of n. For keys the caller emits the foot comment after the value.
func (x *yext) walk(n *yaml.Node, p []any, isKey bool) {
	x.comment(n.HeadComment, p, false, isKey)
	i := x.row(n, p, isKey)
	path := x.doc.Rows[i].Path
	if num, ok := x.anchNum[n]; ok && n.Kind != yaml.AliasNode {
		fmt.Fprintf(&x.data, "&%d ", num)
	}
	switch n.Kind {
	case yaml.ScalarNode:
		if !ZeroWidth(n) {
			x.leaf(path, p, isKey)
		}
		x.data.WriteString(x.doc.Rows[i].Tag + " " + QuoteJSON(n.Value))
	case yaml.AliasNode:
		x.leaf(path, p, isKey)
		if num, ok := x.anchNum[n.Alias]; ok {
			fmt.Fprintf(&x.data, "*%d", num)
		} else {
			x.data.WriteString("*?" + n.Value)
		}
	case yaml.MappingNode:
		if len(n.Content) == 0 || n.Style&yaml.FlowStyle != 0 {
			x.leaf(path, p, isKey)
		}
		x.data.WriteString(x.doc.Rows[i].Tag + "{")
		seen := map[string]int{}
		for j := 0; j+1 < len(n.Content); j += 2 {
			k, v := n.Content[j], n.Content[j+1]
			name := k.Value
			if k.Kind != yaml.ScalarNode {
				name = fmt.Sprintf("?complex%d", j/2)
			}
			if c := seen[name]; c > 0 {
				seen[name] = c + 1
				name = fmt.Sprintf("%s?dup%d", name, c)
			} else {
				seen[name] = 1
			}
			cpth := yCp(p, name)
			if j > 0 {
				x.data.WriteString(", ")
			}
			foot := k.FootComment
			if k.Kind == yaml.ScalarNode {
				x.comment(k.HeadComment, cpth, false, true)
				x.row(k, cpth, true)
				x.leaf(YPath(cpth)+"@key", cpth, true)
				x.data.WriteString(k.ShortTag() + " " + QuoteJSON(k.Value))
			} else {
				// complex key: walked as a subtree of its own (not generated by the harness)
				kk := *k
				kk.FootComment = ""
				x.walk(&kk, yCp(p, name+"?key"), true)
			}
			x.data.WriteString(": ")
			x.walk(v, cpth, false)
			x.comment(foot, cpth, false, true)
		}
		x.data.WriteString("}")
	case yaml.SequenceNode:
		if len(n.Content) == 0 || n.Style&yaml.FlowStyle != 0 {
			x.leaf(path, p, isKey)
		}
		x.data.WriteString(x.doc.Rows[i].Tag + "[")
		for j, c := range n.Content {
			if j > 0 {
				x.data.WriteString(", ")
			}
			x.walk(c, yCp(p, j), false)
		}
		x.data.WriteString("]")
	}
	if !isKey {
		x.comment(n.FootComment, p, false, false)
	}
}

// ZeroWidth: an empty plain untagged unanchored scalar has no text of its own (the value of "a:" or an
// empty document), so its position relative to neighbouring comments is undefined; it is no leaf.
func ZeroWidth(n *yaml.Node) bool {
	return n.Kind == yaml.ScalarNode && n.Value == "" && n.Style == 0 && n.Anchor == ""
}

// YGap is the list of comment lines between two consecutive leaves of a stream.
type YGap struct {
	After    string // leaf before the gap ("^" = start of document)
	Before   string // leaf after the gap ("$" = end of document)
	Comments []string
}

// Gaps cuts a stream into the comment lists between consecutive leaves.
func Gaps(s []YTok) []YGap {
	var out []YGap
	cur := YGap{After: "^"}
	for _, t := range s {
		if t.C {
			cur.Comments = append(cur.Comments, t.Text)
			continue
		}
		cur.Before = t.Text
		out = append(out, cur)
		cur = YGap{After: t.Text}
	}
	cur.Before = "$"
	out = append(out, cur)
	return out
}

// Leaves returns the leaf markers of a stream in order.
func Leaves(s []YTok) []string {
	var out []string
	for _, t := range s {
		if !t.C {
			out = append(out, t.Text)
		}
	}
	return out
}

// StreamString renders a stream for messages.
func StreamString(s []YTok) string {
	var b strings.Builder
	for i, t := range s {
		if i > 0 {
			b.WriteByte(' ')
		}
		b.WriteString(t.String())
	}
	return b.String()
}

// IsEmptyDoc: the document is the implicit null of an empty (or comment-only) document.
func (d YDoc) IsEmptyDoc() bool {
	return len(d.Rows) == 1 && d.Rows[0].Kind == "scalar" && d.Rows[0].Value == "" && d.Rows[0].Style == "plain" &&
		d.Rows[0].Anchor == "" && !d.Rows[0].Explicit && d.Rows[0].Line == ""
}

// AlignLib re-aligns the documents of the library round trip with the input's: yaml.v3's encoder writes no
// leading "---", so an empty FIRST document vanishes (and its comments join the next document). Missing
// empty documents are re-inserted as comment-free placeholders; nil when no alignment exists.
func AlignLib(in, lib []YDoc) []YDoc {
	if len(in) == len(lib) {
		return lib
	}
	var out []YDoc
	j := 0
	for i := range in {
		need := len(in) - i  // input documents still to place
		have := len(lib) - j // library documents left
		if in[i].IsEmptyDoc() && have < need && (j >= len(lib) || !lib[j].IsEmptyDoc() || have < need) {
			out = append(out, YDoc{Rows: in[i].Rows, Data: in[i].Data})
			continue
		}
		if j >= len(lib) {
			return nil
		}
		out = append(out, lib[j])
		j++
	}
	if j != len(lib) || len(out) != len(in) {
		return nil
	}
	return out
}

// LeadingSeparator reports whether the first line that is neither blank nor a comment is a "---" marker.
func LeadingSeparator(text string) bool {
	for _, ln := range strings.Split(text, "\n") {
		t := strings.TrimSpace(ln)
		if t == "" || strings.HasPrefix(t, "#") {
			continue
		}
		return ln == "---" || strings.HasPrefix(ln, "--- ")
	}
	return false
}

// SeparatorLines counts the lines of text that are a document start marker ("---" alone or
// followed by a space) and document end markers ("..." alone) outside block scalars is NOT attempted:
// the caller only uses it on texts whose scalars cannot contain such lines at column 0.
func SeparatorLines(text string) (starts, ends int) {
	for _, ln := range strings.Split(text, "\n") {
		switch {
		case ln == "---" || strings.HasPrefix(ln, "--- "):
			starts++
		case ln == "...":
			ends++
		}
	}
	return
}
