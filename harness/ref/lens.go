package ref

import (
	"fmt"
	"sort"
	"strconv"
	"strings"
)

// Step is one step of an addressable path (the left-hand side of an assignment / a delete target).
type Step struct {
	Kind  string   // "key" | "idx" | "splat" | "multi" | "midx" | "rdesc"
	Key   string   // key
	Idx   int      // idx
	Keys  []string // multi: .["a","b"]
	Idxs  []int    // midx: .[5, -1] (resolved one after the other: an index beyond the end pads first)
	Brack bool     // print a key as ["k"] instead of .k
}

// PathExpr is a sequence of steps, optionally filtered by a predicate on the final nodes:
// (steps | select(pred)).
type PathExpr struct {
	Steps []Step
	Pred  *Expr // nil = no filter
}

func (p PathExpr) String() string {
	var sb strings.Builder
	for i, s := range p.Steps {
		switch s.Kind {
		case "key":
			if identRe.MatchString(s.Key) && !s.Brack {
				sb.WriteString("." + s.Key)
			} else {
				if i == 0 {
					sb.WriteString(".")
				}
				sb.WriteString("[" + ExprString(s.Key) + "]")
			}
		case "idx":
			if i == 0 {
				sb.WriteString(".")
			}
			sb.WriteString("[" + strconv.Itoa(s.Idx) + "]")
		case "splat":
			if i == 0 {
				sb.WriteString(".")
			}
			sb.WriteString("[]")
		case "multi":
			if i == 0 {
				sb.WriteString(".")
			}
			q := make([]string, len(s.Keys))
			for j, k := range s.Keys {
				q[j] = ExprString(k)
			}
			sb.WriteString("[" + strings.Join(q, ", ") + "]")
		case "midx":
			if i == 0 {
				sb.WriteString(".")
			}
			q := make([]string, len(s.Idxs))
			for j, k := range s.Idxs {
				q[j] = strconv.Itoa(k)
			}
			sb.WriteString("[" + strings.Join(q, ", ") + "]")
		case "rdesc":
			if i == 0 {
				sb.WriteString("..")
			} else {
				sb.WriteString(" | ..")
			}
		}
	}
	if len(p.Steps) == 0 {
		sb.WriteString(".")
	}
	if p.Pred != nil {
		return "(" + sb.String() + " | select(" + p.Pred.String() + "))"
	}
	if strings.Contains(sb.String(), " | ") {
		return "(" + sb.String() + ")"
	}
	return sb.String()
}

// Target is one concrete location a path expression addresses in a document.
type Target struct {
	Path    []any // string keys and int indices (indices already normalised to >= 0)
	Creates bool  // the location does not exist yet (auto-created by assignment)
}

// ErrIncompatible: the existing prefix of the path is not type-compatible (outside the quantifier).
var ErrIncompatible = fmt.Errorf("path prefix not type-compatible")

// Resolve lists the targets of p in doc, in yq's match order. create=true follows assignment
// semantics (missing keys / indices are targets to be created); create=false is read-only
// selection (missing things select nothing).
func Resolve(doc *V, p PathExpr, create bool) ([]Target, error) {
	t, _, err := ResolveEx(doc, p, create)
	return t, err
}

// ResolveEx also reports the existing nulls that a splat step of an assignment path runs into:
// yq turns those into empty sequences (they are on p's spine).
func ResolveEx(doc *V, p PathExpr, create bool) ([]Target, [][]any, error) {
	t, ns, _, err := ResolveFull(doc, p, create)
	return t, ns, err
}

// ResolveFull additionally reports whether following p creates anything at all (also intermediates
// that end up addressing nothing).
func ResolveFull(doc *V, p PathExpr, create bool) ([]Target, [][]any, bool, error) {
	var nullSplats [][]any
	anyCreate := false
	type cur struct {
		v       *V // nil when being created
		path    []any
		creates bool
	}
	curs := []cur{{doc, nil, false}}
	ext := func(path []any, k any) []any { return append(append([]any{}, path...), k) }
	for _, s := range p.Steps {
		var next []cur
		for _, c := range curs {
			v := c.v
			if v == nil || v.K == Null {
				// something to be created (or an existing null that assignment turns into a container)
				switch s.Kind {
				case "key":
					if !create {
						continue
					}
					next = append(next, cur{mk(&anyCreate), ext(c.path, s.Key), true})
				case "idx":
					if !create {
						continue
					}
					if s.Idx < 0 {
						return nil, nil, false, evalErr("index out of range")
					}
					next = append(next, cur{mk(&anyCreate), ext(c.path, s.Idx), true})
				case "multi":
					if !create {
						continue
					}
					for _, k := range s.Keys {
						next = append(next, cur{mk(&anyCreate), ext(c.path, k), true})
					}
				case "midx":
					if !create {
						continue
					}
					n := 0
					for _, i := range s.Idxs {
						if i < 0 {
							i += n
							if i < 0 {
								return nil, nil, false, evalErr("index out of range")
							}
						}
						if i >= n {
							n = i + 1
						}
						next = append(next, cur{mk(&anyCreate), ext(c.path, i), true})
					}
				case "splat":
					if create {
						// an existing null, or a location the previous steps are about to create: it becomes []
						nullSplats = append(nullSplats, c.path)
						anyCreate = true
					}
				case "rdesc":
					if v != nil {
						next = append(next, c)
					}
				}
				continue
			}
			switch s.Kind {
			case "key":
				switch v.K {
				case Map:
					if x, ok := v.Get(s.Key); ok {
						next = append(next, cur{x, ext(c.path, s.Key), false})
					} else if create {
						next = append(next, cur{mk(&anyCreate), ext(c.path, s.Key), true})
					}
				default:
					return nil, nil, false, ErrIncompatible
				}
			case "multi":
				if v.K != Map {
					return nil, nil, false, ErrIncompatible
				}
				for _, k := range s.Keys {
					if x, ok := v.Get(k); ok {
						next = append(next, cur{x, ext(c.path, k), false})
					} else if create {
						next = append(next, cur{mk(&anyCreate), ext(c.path, k), true})
					}
				}
			case "idx":
				if v.K != Seq {
					return nil, nil, false, ErrIncompatible
				}
				i := s.Idx
				if i < 0 {
					i += len(v.A)
					if i < 0 {
						return nil, nil, false, evalErr("index out of range")
					}
				}
				if i < len(v.A) {
					next = append(next, cur{v.A[i], ext(c.path, i), false})
				} else if create {
					next = append(next, cur{mk(&anyCreate), ext(c.path, i), true})
				} else {
					// reading beyond the end yields null but addresses nothing that exists
				}
			case "midx":
				if v.K != Seq {
					return nil, nil, false, ErrIncompatible
				}
				n := len(v.A)
				for _, i := range s.Idxs {
					if i < 0 {
						i += n // the length as it is after the padding done for the indices before this one
						if i < 0 {
							return nil, nil, false, evalErr("index out of range")
						}
					}
					switch {
					case i < len(v.A):
						next = append(next, cur{v.A[i], ext(c.path, i), false})
					case create:
						if i >= n {
							n = i + 1
						}
						next = append(next, cur{mk(&anyCreate), ext(c.path, i), true})
					}
				}
			case "splat":
				switch v.K {
				case Seq:
					for i, x := range v.A {
						next = append(next, cur{x, ext(c.path, i), false})
					}
				case Map:
					for _, kv := range v.M {
						next = append(next, cur{kv.V, ext(c.path, kv.K), false})
					}
				}
			case "rdesc":
				v.Walk(c.path, func(pth []any, n *V) {
					next = append(next, cur{n, append([]any{}, pth...), false})
				})
			}
		}
		curs = next
	}
	var out []Target
	for _, c := range curs {
		if p.Pred != nil {
			if c.v == nil {
				continue
			}
			rs, err := Eval(p.Pred, []*V{c.v}, Env{RO: true, T: &Trace{}})
			if err != nil {
				return nil, nil, false, err
			}
			ok := false
			for _, r := range rs {
				if Truthy(r) {
					ok = true
					break
				}
			}
			if !ok {
				continue
			}
		}
		out = append(out, Target{c.path, c.creates})
	}
	return out, nullSplats, anyCreate, nil
}

// SetPath returns nothing; it writes v at path inside root, creating missing maps, padding
// sequences with null and turning nulls into containers on the way (assignment semantics).
func SetPath(root *V, path []any, v *V) error {
	cur := root
	for i, p := range path {
		last := i == len(path)-1
		switch k := p.(type) {
		case string:
			if cur.K == Null {
				*cur = V{K: Map, M: []KV{}}
			}
			if cur.K != Map {
				return ErrIncompatible
			}
			x, ok := cur.Get(k)
			if !ok {
				x = NullV()
				cur.M = append(cur.M, KV{K: k, V: x})
			}
			if last {
				*x = *v.Copy()
				return nil
			}
			cur = x
		case int:
			if cur.K == Null {
				*cur = V{K: Seq, A: []*V{}}
			}
			if cur.K != Seq {
				return ErrIncompatible
			}
			for len(cur.A) <= k {
				cur.A = append(cur.A, NullV())
			}
			if last {
				*cur.A[k] = *v.Copy()
				return nil
			}
			cur = cur.A[k]
		}
	}
	*root = *v.Copy()
	return nil
}

// DeletePaths removes exactly the given locations (deepest / last first so that indices stay valid).
func DeletePaths(root *V, paths [][]any) *V {
	out := root.Copy()
	ps := append([][]any{}, paths...)
	// dedup
	seen := map[string]bool{}
	var uniq [][]any
	for _, p := range ps {
		k := PathString(p)
		if !seen[k] {
			seen[k] = true
			uniq = append(uniq, p)
		}
	}
	sort.SliceStable(uniq, func(i, j int) bool { return pathLess(uniq[j], uniq[i]) })
	for _, p := range uniq {
		if len(p) == 0 {
			continue
		}
		parent, ok := out.GetPath(p[:len(p)-1])
		if !ok {
			continue
		}
		switch k := p[len(p)-1].(type) {
		case string:
			if parent.K == Map {
				for i, kv := range parent.M {
					if kv.K == k {
						parent.M = append(parent.M[:i:i], parent.M[i+1:]...)
						break
					}
				}
			}
		case int:
			if parent.K == Seq && k >= 0 && k < len(parent.A) {
				parent.A = append(parent.A[:k:k], parent.A[k+1:]...)
			}
		}
	}
	return out
}

// pathLess orders paths so that, processed in DEscending order, deeper and later locations go first.
func pathLess(a, b []any) bool {
	for i := 0; i < len(a) && i < len(b); i++ {
		ai, aok := a[i].(int)
		bi, bok := b[i].(int)
		if aok && bok {
			if ai != bi {
				return ai < bi
			}
			continue
		}
		as, bs := fmt.Sprint(a[i]), fmt.Sprint(b[i])
		if as != bs {
			return as < bs
		}
	}
	return len(a) < len(b)
}

// IsPrefix reports whether a is a (non-strict) prefix of b.
func IsPrefix(a, b []any) bool {
	if len(a) > len(b) {
		return false
	}
	for i := range a {
		if a[i] != b[i] {
			return false
		}
	}
	return true
}

func mk(flag *bool) *V { *flag = true; return nil }
