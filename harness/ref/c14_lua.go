package ref

import (
	"fmt"
	"math"
	"math/big"
	"strconv"
	"strings"

	lua "github.com/yuin/gopher-lua"
)

// Lua side of C14. LuaRun executes a chunk in a bare gopher-lua state (a real consumer of the
// text) and LuaToV walks the resulting value with the harness's own walker. LuaWrite renders a
// value as a Lua chunk with surface-syntax variation for the decode direction.

var luaKeywords = map[string]bool{"and": true, "break": true, "do": true, "else": true, "elseif": true, "end": true, "false": true,
	"for": true, "function": true, "goto": true, "if": true, "in": true, "local": true, "nil": true, "not": true, "or": true,
	"repeat": true, "return": true, "then": true, "true": true, "until": true, "while": true}

func LuaIsKeyword(s string) bool { return luaKeywords[s] }

func LuaIsIdent(s string) bool {
	if s == "" || luaKeywords[s] {
		return false
	}
	for i := 0; i < len(s); i++ {
		c := s[i]
		if !(c == '_' || c >= 'a' && c <= 'z' || c >= 'A' && c <= 'Z' || (i > 0 && c >= '0' && c <= '9')) {
			return false
		}
	}
	return true
}

// LuaRun executes chunk. globals=false: the value the chunk returns. globals=true: the table of
// globals the chunk defined (Lua 5.1 has no _ENV, so `_ENV` is pre-bound to the globals table and
// left out of the result).
func LuaRun(chunk string, globals bool) (v *V, err error) {
	defer func() {
		if x := recover(); x != nil {
			err = fmt.Errorf("lua panic: %v", x)
		}
	}()
	ls := lua.NewState(lua.Options{SkipOpenLibs: true})
	defer ls.Close()
	if globals {
		ls.SetGlobal("_ENV", ls.Get(lua.GlobalsIndex))
	}
	fn, err := ls.LoadString(chunk)
	if err != nil {
		return nil, err
	}
	ls.Push(fn)
	if err := ls.PCall(0, lua.MultRet, nil); err != nil {
		return nil, err
	}
	if globals {
		g := ls.Get(lua.GlobalsIndex).(*lua.LTable)
		g.RawSetString("_ENV", lua.LNil) // the helper binding is not part of the result (and is cyclic)
		return LuaToV(ls, g)
	}
	if ls.GetTop() != 1 {
		return nil, fmt.Errorf("chunk returned %d values", ls.GetTop())
	}
	return LuaToV(ls, ls.Get(1))
}

// LuaToV converts a Lua value: a table whose keys are exactly 1..n is a sequence (the empty table
// is the empty sequence), a table with only string keys is a map in iteration order.
func LuaToV(ls *lua.LState, lv lua.LValue) (*V, error) {
	switch x := lv.(type) {
	case *lua.LNilType:
		return NullV(), nil
	case lua.LBool:
		return BoolV(bool(x)), nil
	case lua.LNumber:
		f := float64(x)
		if f == math.Trunc(f) && math.Abs(f) <= 1<<53 && !(f == 0 && math.Signbit(f)) {
			return IntV(int64(f)), nil
		}
		return FloatV(f), nil
	case lua.LString:
		return StrV(string(x)), nil
	case *lua.LTable:
		n := x.Len()
		total := 0
		var m []KV
		var bad error
		x.ForEach(func(k, val lua.LValue) {
			total++
			switch kk := k.(type) {
			case lua.LString:
				e, err := LuaToV(ls, val)
				if err != nil {
					bad = err
					return
				}
				m = append(m, KV{K: string(kk), V: e})
			case lua.LNumber:
				// accounted for through the array walk below
			default:
				bad = fmt.Errorf("table key of type %s", k.Type())
			}
		})
		if bad != nil {
			return nil, bad
		}
		if len(m) == 0 {
			if total != n {
				return nil, fmt.Errorf("table with non-consecutive numeric keys (%d keys, border %d)", total, n)
			}
			s := &V{K: Seq, A: []*V{}}
			for i := 1; i <= n; i++ {
				e, err := LuaToV(ls, x.RawGetInt(i))
				if err != nil {
					return nil, err
				}
				s.A = append(s.A, e)
			}
			return s, nil
		}
		if total != len(m) {
			return nil, fmt.Errorf("table mixes string and numeric keys")
		}
		return &V{K: Map, M: m}, nil
	}
	return nil, fmt.Errorf("unsupported lua type %s", lv.Type())
}

// ---- writer ----------------------------------------------------------------------------

type LuaStyle struct {
	Choose  func(n int) int
	Globals bool // top-level map written as global assignments (keys must be identifiers)
}

func luaQuote(s string, ch func(int) int) string {
	// long bracket form when possible
	if ch(6) == 0 && !strings.ContainsAny(s, "\r") && !strings.HasPrefix(s, "\n") && isPrintableNoCtl(s) {
		for lvl := 0; lvl < 4; lvl++ {
			eq := strings.Repeat("=", lvl)
			if !strings.Contains(s, "]"+eq+"]") && !strings.HasSuffix(s, "]"+eq) && !strings.HasSuffix(s, "]") {
				open := "[" + eq + "["
				if ch(2) == 0 {
					open += "\n" // a newline right after the opening bracket is skipped
				}
				return open + s + "]" + eq + "]"
			}
		}
	}
	q := byte('"')
	if ch(3) == 0 {
		q = '\''
	}
	var sb strings.Builder
	sb.WriteByte(q)
	b := []byte(s)
	for i := 0; i < len(b); i++ {
		c := b[i]
		switch {
		case c == q:
			sb.WriteByte('\\')
			sb.WriteByte(c)
		case c == '\\':
			sb.WriteString(`\\`)
		case c == '\n':
			if ch(4) == 0 {
				sb.WriteString("\\\n") // backslash-newline is a newline
			} else {
				sb.WriteString(`\n`)
			}
		case c == '\r':
			sb.WriteString(`\r`)
		case c == '\t':
			sb.WriteString(`\t`)
		case c == 0:
			sb.WriteString(`\000`)
		case c < 0x20 || c == 0x7f:
			// decimal escape; pad to three digits when a digit follows
			if i+1 < len(b) && b[i+1] >= '0' && b[i+1] <= '9' {
				fmt.Fprintf(&sb, `\%03d`, c)
			} else {
				fmt.Fprintf(&sb, `\%d`, c)
			}
		case c >= 0x80 && ch(8) == 0:
			fmt.Fprintf(&sb, `\%03d`, c)
		case c >= 'A' && c <= 'Z' && ch(30) == 0:
			fmt.Fprintf(&sb, `\%03d`, c)
		default:
			sb.WriteByte(c)
		}
	}
	sb.WriteByte(q)
	return sb.String()
}

func isPrintableNoCtl(s string) bool {
	for i := 0; i < len(s); i++ {
		if (s[i] < 0x20 && s[i] != '\n' && s[i] != '\t') || s[i] == 0x7f {
			return false
		}
	}
	return true
}

func luaNumber(v *V, ch func(int) int) string {
	if v.K == Int {
		if v.I.IsInt64() {
			n := v.I.Int64()
			if n >= 0 && ch(5) == 0 {
				return "0x" + strconv.FormatInt(n, 16)
			}
			if n != 0 && n%1000 == 0 && ch(3) == 0 {
				return strconv.FormatInt(n/1000, 10) + "e3"
			}
		}
		return v.I.String()
	}
	s := strconv.FormatFloat(v.F, 'g', 17, 64)
	if ch(2) == 0 {
		s = strconv.FormatFloat(v.F, 'g', -1, 64)
	}
	if ch(6) == 0 {
		s = strings.Replace(s, "e", "E", 1)
	}
	return s
}

func luaExpr(sb *strings.Builder, v *V, ch func(int) int, depth int) {
	ind := func(d int) string {
		return "\n" + strings.Repeat("\t", d)
	}
	pretty := ch(3) != 0
	sepOf := func() string {
		if ch(3) == 0 {
			return ";"
		}
		return ","
	}
	switch v.K {
	case Null:
		sb.WriteString("nil")
	case Bool:
		if v.B {
			sb.WriteString("true")
		} else {
			sb.WriteString("false")
		}
	case Int, Float:
		s := luaNumber(v, ch)
		if strings.HasPrefix(s, "-") {
			// a leading minus directly after "--" would start a comment; harmless here but keep a space
			sb.WriteString(s)
		} else {
			sb.WriteString(s)
		}
	case Str:
		sb.WriteString(luaQuote(v.S, ch))
	case Seq:
		sb.WriteString("{")
		explicit := len(v.A) > 0 && ch(10) == 0
		for i, e := range v.A {
			if pretty {
				sb.WriteString(ind(depth + 1))
			} else if i > 0 {
				sb.WriteString(" ")
			}
			if explicit {
				fmt.Fprintf(sb, "[%d] = ", i+1)
			}
			luaExpr(sb, e, ch, depth+1)
			if i < len(v.A)-1 || ch(2) == 0 {
				sb.WriteString(sepOf())
			}
			if pretty && ch(6) == 0 {
				sb.WriteString(" -- item " + strconv.Itoa(i+1) + " }")
			}
		}
		if pretty && len(v.A) > 0 {
			sb.WriteString(ind(depth))
		}
		sb.WriteString("}")
	case Map:
		sb.WriteString("{")
		for i, e := range v.M {
			if pretty {
				sb.WriteString(ind(depth + 1))
			} else if i > 0 {
				sb.WriteString(" ")
			}
			if LuaIsIdent(e.K) && ch(2) == 0 {
				sb.WriteString(e.K + " = ")
			} else {
				sb.WriteString("[ " + luaQuote(e.K, ch) + " ] = ") // blanks: "[[[" would open a long bracket
			}
			luaExpr(sb, e.V, ch, depth+1)
			if i < len(v.M)-1 || ch(2) == 0 {
				sb.WriteString(sepOf())
			}
			if pretty && ch(6) == 0 {
				sb.WriteString(" --[[ block ]] ")
			}
		}
		if pretty && len(v.M) > 0 {
			sb.WriteString(ind(depth))
		}
		sb.WriteString("}")
	}
}

// LuaWrite renders v as a Lua chunk.
func LuaWrite(v *V, st *LuaStyle) string {
	ch := st.Choose
	if ch == nil {
		ch = func(int) int { return 0 }
	}
	var sb strings.Builder
	if ch(4) == 0 {
		sb.WriteString("-- generated\n")
	}
	if st.Globals && v.K == Map {
		for _, e := range v.M {
			sb.WriteString(e.K + " = ")
			luaExpr(&sb, e.V, ch, 0)
			switch ch(3) {
			case 0:
				sb.WriteString(";\n")
			case 1:
				sb.WriteString("\n")
			default:
				sb.WriteString(" ")
			}
		}
		if ch(3) == 0 {
			sb.WriteString("local unused = 1\n")
		}
		return sb.String()
	}
	if ch(5) == 0 {
		sb.WriteString("local t = ")
		luaExpr(&sb, v, ch, 0)
		sb.WriteString("\nreturn t\n")
		return sb.String()
	}
	sb.WriteString("return ")
	luaExpr(&sb, v, ch, 0)
	switch ch(3) {
	case 0:
		sb.WriteString(";\n")
	case 1:
		sb.WriteString("\n")
	}
	return sb.String()
}

// LuaNormalize prepares a ground-truth value for comparison with what Lua can represent:
// empty maps become empty sequences (both are the empty table).
func LuaNormalize(v *V) *V {
	switch v.K {
	case Map:
		if len(v.M) == 0 {
			return &V{K: Seq, A: []*V{}}
		}
		out := &V{K: Map}
		for _, e := range v.M {
			out.M = append(out.M, KV{K: e.K, V: LuaNormalize(e.V)})
		}
		return out
	case Seq:
		out := &V{K: Seq, A: []*V{}}
		for _, e := range v.A {
			out.A = append(out.A, LuaNormalize(e))
		}
		return out
	}
	return v
}

// EqualNumUnordered is EqualNum with map key order ignored.
func EqualNumUnordered(a, b *V) bool {
	if a == nil || b == nil {
		return a == b
	}
	if a.K == Map && b.K == Map {
		if len(a.M) != len(b.M) {
			return false
		}
		for _, e := range a.M {
			o, ok := b.Get(e.K)
			if !ok || !EqualNumUnordered(e.V, o) {
				return false
			}
		}
		return true
	}
	if a.K == Seq && b.K == Seq {
		if len(a.A) != len(b.A) {
			return false
		}
		for i := range a.A {
			if !EqualNumUnordered(a.A[i], b.A[i]) {
				return false
			}
		}
		return true
	}
	return EqualNum(a, b)
}

var _ = big.NewInt
