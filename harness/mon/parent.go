package mon

import (
	"bufio"
	"bytes"
	"encoding/json"
	"fmt"
	"os"
	"os/exec"
	"path/filepath"
	"regexp"
	"runtime"
	"sort"
	"strconv"
	"strings"
	"sync"
	"syscall"
	"time"
)

// KnownFinding is one line of known_findings.jsonl.
type KnownFinding struct {
	Property string `json:"property"`
	ID       string `json:"id"`
	Status   string `json:"status"` // "known" suppresses; "fixed" is kept for the record and matches nothing
	What     string `json:"what"`
	Matcher  string `json:"matcher,omitempty"`
	Witness  string `json:"witness,omitempty"`
	Commit   string `json:"commit,omitempty"`
}

func loadFindings(home, prop string) map[string]KnownFinding {
	m := map[string]KnownFinding{}
	f, err := os.Open(filepath.Join(home, "known_findings.jsonl"))
	if err != nil {
		return m
	}
	defer f.Close()
	sc := bufio.NewScanner(f)
	sc.Buffer(make([]byte, 1<<20), 1<<20)
	for sc.Scan() {
		line := strings.TrimSpace(sc.Text())
		if !strings.HasPrefix(line, "{") {
			continue // comments and "fixed: property=..." records suppress nothing
		}
		var k KnownFinding
		if json.Unmarshal([]byte(line), &k) == nil && k.Property == prop && k.Status == "known" {
			m[k.ID] = k
		}
	}
	return m
}

type chunk struct{ from, to, step int }

// DeathClassifier lets a property decide what the death of a worker on a case means.
type DeathClassifier interface {
	// ClassifyDeath is called in the parent; the property may regenerate case idx from w.Rand(idx).
	ClassifyDeath(w *Worker, idx int, kind string, stderrTail string) Result
}

// Floorer lets a property demand a minimum number of conclusive non-trivial distinct cases.
type Floorer interface{ Floor(tier string) int }

type runner struct {
	p       Property
	tier    string
	seed    int64
	home    string
	build   string
	mu      sync.Mutex
	results []Result
	races   []string
	wallWD  time.Duration
}

func (r *runner) add(res Result) {
	r.mu.Lock()
	r.results = append(r.results, res)
	r.mu.Unlock()
}

// runChunk runs one index range in a child, restarting after a death.
func (r *runner) runChunk(bin string, c chunk, race bool, slot int) {
	from := c.from
	for from < c.to {
		next := r.spawn(bin, chunk{from, c.to, c.step}, race, slot)
		if next < 0 {
			return
		}
		from = next
	}
}

var raceHdr = regexp.MustCompile(`(?m)^WARNING: DATA RACE`)

// spawn returns the index to continue from after a death, or -1 when the chunk completed.
func (r *runner) spawn(bin string, c chunk, race bool, slot int) int {
	scratch, _ := os.MkdirTemp(filepath.Join(r.build, "tmp"), fmt.Sprintf("w%d-", slot))
	defer os.RemoveAll(scratch)
	args := []string{"worker", r.p.ID(), r.tier, strconv.FormatInt(r.seed, 10),
		strconv.Itoa(c.from), strconv.Itoa(c.to), strconv.Itoa(c.step)}
	cmd := exec.Command(bin, args...)
	cmd.Env = append(os.Environ(), "VERIF_SCRATCH="+scratch, "VERIF_HOME="+r.home, "VERIF_BUILD="+r.build)
	if race {
		cmd.Env = append(cmd.Env, "GORACE=halt_on_error=0 log_path="+scratch+"/race")
	}
	var stderr bytes.Buffer
	cmd.Stderr = &limitWriter{w: &stderr, n: 1 << 20}
	cmd.SysProcAttr = &syscall.SysProcAttr{Setpgid: true, Pdeathsig: syscall.SIGKILL}
	stdout, err := cmd.StdoutPipe()
	if err != nil {
		r.add(Result{Idx: c.from, Verdict: Inconclusive, Detail: "pipe: " + err.Error()})
		return -1
	}
	if err := cmd.Start(); err != nil {
		r.add(Result{Idx: c.from, Verdict: Inconclusive, Detail: "start: " + err.Error()})
		return -1
	}
	lines := make(chan string, 64)
	go func() {
		sc := bufio.NewScanner(stdout)
		sc.Buffer(make([]byte, 1<<20), 64<<20)
		for sc.Scan() {
			lines <- sc.Text()
		}
		close(lines)
	}()
	cur := -1      // journaled, no result yet
	last := -1     // last index with a result
	hang := false  // CPU budget exceeded
	wallHit := false
	timer := time.NewTimer(r.wallWD)
loop:
	for {
		select {
		case ln, ok := <-lines:
			if !ok {
				break loop
			}
			if !timer.Stop() {
				select {
				case <-timer.C:
				default:
				}
			}
			timer.Reset(r.wallWD)
			switch {
			case strings.HasPrefix(ln, "S "):
				cur, _ = strconv.Atoi(ln[2:])
			case strings.HasPrefix(ln, "R "):
				var res Result
				if err := json.Unmarshal([]byte(ln[2:]), &res); err == nil {
					r.add(res)
					last = res.Idx
					cur = -1
				}
			case strings.HasPrefix(ln, "H "):
				hang = true
			}
		case <-timer.C:
			wallHit = true
			_ = syscall.Kill(-cmd.Process.Pid, syscall.SIGKILL)
		}
	}
	werr := cmd.Wait()
	_ = syscall.Kill(-cmd.Process.Pid, syscall.SIGKILL) // any stray grandchildren
	if race {
		files, _ := filepath.Glob(scratch + "/race*")
		for _, f := range files {
			b, _ := os.ReadFile(f)
			for _, blk := range splitRaceBlocks(string(b)) {
				r.mu.Lock()
				r.races = append(r.races, blk)
				r.mu.Unlock()
			}
		}
	}
	if cur < 0 && werr == nil {
		return -1
	}
	if cur < 0 {
		// died between cases (should not happen); continue after the last completed one
		if last < 0 {
			r.add(Result{Idx: c.from, Verdict: Inconclusive, Tags: []string{"worker_start_failure"},
				Detail: "worker exited before first case: " + fmt.Sprint(werr) + "\n" + tail(stderr.String(), 2000)})
			return -1
		}
		return last + c.step
	}
	kind := "died"
	if hang {
		kind = "cpu_hang"
	} else if wallHit {
		kind = "wall_watchdog"
	}
	res := Result{Idx: cur, Race: race, Nontrivial: false}
	tl := tail(stderr.String(), 6000)
	if dc, ok := r.p.(DeathClassifier); ok && kind != "wall_watchdog" {
		w := &Worker{Prop: r.p.ID(), Tier: r.tier, Seed: r.seed, Race: race, Home: r.home, Build: r.build, Repo: os.Getenv("VERIF_REPO")}
		res = dc.ClassifyDeath(w, cur, kind, tl)
		res.Idx, res.Race = cur, race
	} else {
		res.Verdict = Inconclusive
		res.Detail = kind + " (" + fmt.Sprint(werr) + ")\n" + tl
		res.Case = map[string]any{"replay_hint": "worker died on this index; re-run with --replay"}
	}
	res.Tags = append(res.Tags, "worker_"+kind)
	r.add(res)
	return cur + c.step
}

func splitRaceBlocks(s string) []string {
	var out []string
	idx := raceHdr.FindAllStringIndex(s, -1)
	for i, m := range idx {
		end := len(s)
		if i+1 < len(idx) {
			end = idx[i+1][0]
		}
		out = append(out, s[m[0]:end])
	}
	return out
}

type limitWriter struct {
	w *bytes.Buffer
	n int
}

func (l *limitWriter) Write(p []byte) (int, error) {
	// keep the head (fatal error line) and a rolling tail
	if l.w.Len()+len(p) > l.n {
		b := l.w.Bytes()
		keep := l.n / 2
		if len(b) > keep {
			head := append([]byte{}, b[:keep/2]...)
			tailb := append([]byte{}, b[len(b)-keep/2:]...)
			l.w.Reset()
			l.w.Write(head)
			l.w.WriteString("\n...[truncated]...\n")
			l.w.Write(tailb)
		}
	}
	l.w.Write(p)
	return len(p), nil
}

func tail(s string, n int) string {
	if len(s) <= n {
		return s
	}
	// keep the first 1500 bytes (fatal error header) and the tail
	h := 1500
	if h > n/2 {
		h = n / 2
	}
	return s[:h] + "\n...\n" + s[len(s)-(n-h):]
}

// RaceKey dedups race reports: outermost harness/yq entry points of both stacks, then the
// line-stripped stack pair.
func RaceKey(blk string) string {
	re := regexp.MustCompile(`(?m)^  ([A-Za-z0-9_./()*\-]+)\(\)$`)
	// one key part per access stack (the first two blank-line separated sections of the report), at most
	// 12 yq frames each, so that a deep first stack cannot push the second access out of the key
	sections := strings.Split(blk, "\n\n")
	var parts []string
	for _, sec := range sections {
		if len(parts) == 2 {
			break
		}
		var yq []string
		for _, m := range re.FindAllStringSubmatch(sec, -1) {
			if strings.Contains(m[1], "mikefarah/yq") {
				yq = append(yq, m[1])
			}
		}
		if len(yq) == 0 {
			continue
		}
		if len(yq) > 12 {
			yq = yq[:12]
		}
		parts = append(parts, strings.Join(yq, "|"))
	}
	return strings.Join(parts, " <-> ")
}

// ParentMain: vcheck run <prop> <tier> [--replay file]
func ParentMain(args []string) int {
	if len(args) < 2 {
		fmt.Fprintln(os.Stderr, "usage: run <prop> <quick|thorough> [--replay file]")
		return 2
	}
	p := Lookup(args[0])
	if p == nil {
		fmt.Fprintln(os.Stderr, "unknown property", args[0])
		return 2
	}
	tier := args[1]
	if tier != "quick" && tier != "thorough" {
		fmt.Fprintln(os.Stderr, "tier must be quick or thorough")
		return 2
	}
	home := os.Getenv("VERIF_HOME")
	build := os.Getenv("VERIF_BUILD")
	seed := EnvInt("VERIF_SEED", 1)
	_ = os.MkdirAll(filepath.Join(build, "tmp"), 0o755)
	self := filepath.Join(build, "vcheck")
	selfRace := filepath.Join(build, "vcheck-race")
	start := time.Now()

	r := &runner{p: p, tier: tier, seed: seed, home: home, build: build, wallWD: 300 * time.Second}

	if len(args) >= 4 && args[2] == "--replay" {
		return replay(r, self, selfRace, args[3])
	}

	n := p.Cases(tier)
	nrace := p.RaceCases(tier)
	if _, err := os.Stat(selfRace); err != nil || os.Getenv("VERIF_NORACE") == "1" {
		nrace = 0
	}
	par := runtime.NumCPU()
	if v := EnvInt("VERIF_PAR", 0); v > 0 {
		par = int(v)
	}
	// plain chunks
	var jobs []func(slot int)
	csize := n / (par * 4)
	if csize < 1 {
		csize = 1
	}
	if csize > 500 {
		csize = 500
	}
	for f := 0; f < n; f += csize {
		t := f + csize
		if t > n {
			t = n
		}
		c := chunk{f, t, 1}
		jobs = append(jobs, func(slot int) { r.runChunk(self, c, false, slot) })
	}
	// race slice: nrace indices evenly strided over [0,n)
	if nrace > 0 {
		if nrace > n {
			nrace = n
		}
		stride := n / nrace
		if stride < 1 {
			stride = 1
		}
		per := nrace / par
		if per < 1 {
			per = 1
		}
		for k := 0; k < nrace; k += per {
			f := k * stride
			t := (k + per) * stride
			if t > n {
				t = n
			}
			if f >= n {
				break
			}
			c := chunk{f, t, stride}
			jobs = append(jobs, func(slot int) { r.runChunk(selfRace, c, true, slot) })
		}
	}
	jobCh := make(chan func(int))
	var wg sync.WaitGroup
	for s := 0; s < par; s++ {
		wg.Add(1)
		go func(slot int) {
			defer wg.Done()
			for j := range jobCh {
				j(slot)
			}
		}(s)
	}
	for _, j := range jobs {
		jobCh <- j
	}
	close(jobCh)
	wg.Wait()

	if fin, ok := p.(Finisher); ok {
		w := &Worker{Prop: p.ID(), Tier: tier, Seed: seed, Home: home, Build: build, Repo: os.Getenv("VERIF_REPO")}
		r.results = fin.Finish(w, r.results)
	}
	return r.report(start, n, nrace)
}

func (r *runner) report(start time.Time, n, nrace int) int {
	p := r.p
	known := loadFindings(r.home, p.ID())
	sort.Slice(r.results, func(i, j int) bool {
		if r.results[i].Idx != r.results[j].Idx {
			return r.results[i].Idx < r.results[j].Idx
		}
		return !r.results[i].Race && r.results[j].Race
	})
	evals, incon, viol, raceCases := 0, 0, 0, 0
	distinct := map[string]bool{}
	tags := map[string]int{}
	findingHits := map[string]int{}
	findingWitness := map[string]string{}
	var samples []any
	var violations []Result
	for i := range r.results {
		res := &r.results[i]
		if res.Race {
			raceCases++
		}
		for _, t := range res.Tags {
			tags[t]++
		}
		if res.Verdict == Finding {
			if _, ok := known[res.FindingID]; !ok {
				res.Verdict = Violated
				res.Detail = "deviation of kind '" + res.FindingID + "' is not a listed known finding\n" + res.Detail
			}
		}
		switch res.Verdict {
		case Inconclusive:
			incon++
			continue
		case Violated:
			viol++
			violations = append(violations, *res)
		case Finding:
			findingHits[res.FindingID]++
			if findingWitness[res.FindingID] == "" {
				b, _ := json.Marshal(res.Case)
				findingWitness[res.FindingID] = string(b)
			}
		}
		evals += res.Evals
		if res.Nontrivial && res.Sig != "" && !res.Race {
			distinct[res.Sig] = true
		}
		if !res.Race && res.Verdict == Held && res.Nontrivial && len(samples) < 8 && res.Case != nil {
			samples = append(samples, map[string]any{"idx": res.Idx, "case": res.Case, "observed": clip(res.Detail, 600)})
		}
	}
	// race reports
	raceKeys := map[string]int{}
	for _, b := range r.races {
		raceKeys[RaceKey(b)]++
	}
	type raceH interface {
		ClassifyRace(key, block string) (verdict, findingID string)
	}
	raceViol := 0
	if rh, ok := p.(raceH); ok {
		seen := map[string]bool{}
		for _, b := range r.races {
			k := RaceKey(b)
			if seen[k] {
				continue
			}
			seen[k] = true
			v, fid := rh.ClassifyRace(k, b)
			if v == Finding {
				if _, ok := known[fid]; ok {
					findingHits[fid]++
					continue
				}
				v = Violated
			}
			if v == Violated {
				raceViol++
				violations = append(violations, Result{Idx: -1, Verdict: Violated, Race: true,
					Detail: "data race reported by the Go race detector:\n" + clip(b, 6000), Case: map[string]any{"race_key": k}})
			}
		}
	}
	viol += raceViol

	if dump := os.Getenv("VERIF_DUMP"); dump != "" {
		if f, err := os.Create(dump); err == nil {
			enc := json.NewEncoder(f)
			for _, res := range r.results {
				_ = enc.Encode(res)
			}
			f.Close()
		}
	}
	wall := time.Since(start).Seconds()
	level := p.Level()
	cov := map[string]any{
		"evaluations":         evals,
		"distinct_nontrivial": len(distinct),
		"rule":                p.Rule(),
		"samples":             samples,
		"cases":               n,
		"cases_completed":     len(r.results) - raceCases,
		"race_build_cases":    raceCases,
		"race_reports":        len(r.races),
		"race_reports_dedup":  len(raceKeys),
		"inconclusive":        incon,
		"known_finding_hits":  findingHits,
		"observed":            tags,
	}
	if len(samples) == 0 {
		cov["samples"] = []any{"(no held non-trivial case to show)"}
	}
	ev := map[string]any{
		"property_id": p.ID(),
		"tier":        r.tier,
		"seed":        r.seed,
		"level":       level,
		"coverage":    cov,
		"assumptions": p.Assumptions(),
		"wall_s":      wall,
		"violations":  viol,
	}
	evDir := filepath.Join(r.home, "evidence")
	if d := os.Getenv("VERIF_EVIDENCE_DIR"); d != "" {
		evDir = d // mutation trials must not overwrite the evidence of the real tree
	}
	_ = os.MkdirAll(evDir, 0o755)
	b, _ := json.MarshalIndent(ev, "", " ")
	_ = os.WriteFile(filepath.Join(evDir, p.ID()+".json"), append(b, '\n'), 0o644)

	fmt.Printf("%s %s seed=%d: cases=%d completed=%d race_cases=%d evaluations=%d distinct_nontrivial=%d inconclusive=%d race_reports=%d wall=%.1fs\n",
		p.ID(), r.tier, r.seed, n, len(r.results)-raceCases, raceCases, evals, len(distinct), incon, len(r.races), wall)
	// stable order
	var fids []string
	for id := range findingHits {
		fids = append(fids, id)
	}
	sort.Strings(fids)
	for _, id := range fids {
		fmt.Printf("KNOWN-FINDING: property=%s %s: %s (hits=%d)\n", p.ID(), id, known[id].What, findingHits[id])
	}
	if _, classifies := p.(raceH); len(r.races) > 0 && raceViol == 0 && !classifies {
		keys := make([]string, 0, len(raceKeys))
		for k := range raceKeys {
			keys = append(keys, k)
		}
		sort.Strings(keys)
		for _, k := range keys {
			fmt.Printf("RACE-REPORT (belongs to C18, not decided here): %s x%d\n", clip(k, 300), raceKeys[k])
		}
	}
	if viol > 0 {
		dir := filepath.Join(r.home, "replays", p.ID())
		if d := os.Getenv("VERIF_EVIDENCE_DIR"); d != "" {
			dir = filepath.Join(d, "replays", p.ID())
		}
		_ = os.MkdirAll(dir, 0o755)
		shown := 0
		for _, v := range violations {
			name := fmt.Sprintf("%s-seed%d-idx%d.json", r.tier, r.seed, v.Idx)
			if v.Idx < 0 {
				name = fmt.Sprintf("%s-seed%d-race%d.json", r.tier, r.seed, shown)
			}
			path := filepath.Join(dir, name)
			rb, _ := json.MarshalIndent(map[string]any{"property": p.ID(), "tier": r.tier, "seed": r.seed, "idx": v.Idx, "race": v.Race, "result": v}, "", " ")
			_ = os.WriteFile(path, rb, 0o644)
			if shown < 25 {
				fmt.Printf("VIOLATION property=%s replay=%s\n", p.ID(), path)
				fmt.Printf("  %s\n", strings.ReplaceAll(clip(v.Detail, 1500), "\n", "\n  "))
			}
			shown++
		}
		if shown > 25 {
			fmt.Printf("(%d more violations not shown; replay files written)\n", shown-25)
		}
		return 1
	}
	// coverage floors: a run that observed too little is not a pass
	floor := 2
	if f, ok := p.(Floorer); ok {
		floor = f.Floor(r.tier)
	}
	if len(distinct) < floor || evals < 1 {
		fmt.Printf("INCONCLUSIVE: property=%s only %d distinct non-trivial conclusive cases (floor %d)\n", p.ID(), len(distinct), floor)
		return 3
	}
	if incon*5 > n && n > 20 {
		fmt.Printf("INCONCLUSIVE: property=%s %d of %d cases inconclusive\n", p.ID(), incon, n)
		return 3
	}
	return 0
}

func clip(s string, n int) string {
	if len(s) <= n {
		return s
	}
	return s[:n] + "…"
}

func replay(r *runner, self, selfRace, file string) int {
	b, err := os.ReadFile(file)
	if err != nil {
		fmt.Fprintln(os.Stderr, err)
		return 2
	}
	var rp struct {
		Tier string `json:"tier"`
		Seed int64  `json:"seed"`
		Idx  int    `json:"idx"`
		Race bool   `json:"race"`
	}
	if err := json.Unmarshal(b, &rp); err != nil {
		fmt.Fprintln(os.Stderr, err)
		return 2
	}
	r.tier, r.seed = rp.Tier, rp.Seed
	bin := self
	if rp.Race {
		bin = selfRace
	}
	if rp.Idx < 0 {
		fmt.Println("race report replays need the whole race slice: run the check again with the same VERIF_SEED")
		return 2
	}
	r.runChunk(bin, chunk{rp.Idx, rp.Idx + 1, 1}, rp.Race, 0)
	known := loadFindings(r.home, r.p.ID())
	rc := 0
	for _, res := range r.results {
		if res.Verdict == Finding {
			if _, ok := known[res.FindingID]; !ok {
				res.Verdict = Violated
			}
		}
		out, _ := json.MarshalIndent(res, "", " ")
		fmt.Println(string(out))
		if res.Verdict == Violated {
			fmt.Printf("VIOLATION property=%s replay=%s\n", r.p.ID(), file)
			rc = 1
		}
	}
	return rc
}

// ExecResult is the outcome of running an external command.
type ExecResult struct {
	Stdout, Stderr []byte
	Exit           int  // exit status, -1 when killed by a signal
	Signal         int  // signal number when killed
	TimedOut       bool // wall-clock watchdog fired (inconclusive, never a verdict)
}
