package mon

import (
	"bytes"
	"context"
	"os/exec"
	"strconv"
	"syscall"
	"time"
)

// RunOpts configures an external execution (the real yq binary, a shell, strace …).
type RunOpts struct {
	Dir     string
	Env     []string // full environment; nil = minimal clean environment
	Stdin   []byte
	CPUSecs int           // RLIMIT_CPU (0 = 20)
	Wall    time.Duration // wall-clock watchdog (0 = 60 s); firing is inconclusive, never a verdict
}

// CleanEnv is the environment binaries run in: nothing inherited that could change behaviour.
func CleanEnv(extra ...string) []string {
	return append([]string{"PATH=/usr/bin:/bin", "HOME=/nonexistent", "LANG=C.UTF-8", "NO_COLOR=1"}, extra...)
}

// Run executes argv under a CPU rlimit and a wall-clock watchdog.
func Run(o RunOpts, argv ...string) ExecResult {
	cpu := o.CPUSecs
	if cpu == 0 {
		cpu = 20
	}
	wall := o.Wall
	if wall == 0 {
		wall = 60 * time.Second
	}
	ctx, cancel := context.WithTimeout(context.Background(), wall)
	defer cancel()
	full := append([]string{"--cpu=" + strconv.Itoa(cpu), "--"}, argv...)
	cmd := exec.CommandContext(ctx, "/usr/bin/prlimit", full...)
	cmd.Dir = o.Dir
	if o.Env != nil {
		cmd.Env = o.Env
	} else {
		cmd.Env = CleanEnv()
		if o.Dir != "" {
			// yq -i leaves its temporary file behind when a run fails: keep those inside the case directory
			// (which the case removes), not in the machine's /tmp
			cmd.Env = append(cmd.Env, "TMPDIR="+o.Dir)
		}
	}
	if o.Stdin != nil {
		cmd.Stdin = bytes.NewReader(o.Stdin)
	}
	var so, se bytes.Buffer
	cmd.Stdout = &so
	cmd.Stderr = &se
	cmd.SysProcAttr = &syscall.SysProcAttr{Setpgid: true}
	cmd.WaitDelay = 10 * time.Second
	err := cmd.Run()
	res := ExecResult{Stdout: so.Bytes(), Stderr: se.Bytes()}
	if cmd.Process != nil {
		_ = syscall.Kill(-cmd.Process.Pid, syscall.SIGKILL)
	}
	if ctx.Err() != nil {
		res.TimedOut = true
		res.Exit = -1
		return res
	}
	if err != nil {
		if ee, ok := err.(*exec.ExitError); ok {
			ws := ee.Sys().(syscall.WaitStatus)
			if ws.Signaled() {
				res.Exit = -1
				res.Signal = int(ws.Signal())
			} else {
				res.Exit = ws.ExitStatus()
			}
			return res
		}
		// the command could not be run / its pipes could not be drained: never a verdict
		res.Exit = -2
		res.TimedOut = true
		res.Stderr = append(res.Stderr, []byte("\nexec error: "+err.Error())...)
	}
	return res
}
