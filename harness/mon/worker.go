package mon

import (
	"bufio"
	"encoding/json"
	"fmt"
	"os"
	"runtime/debug"
	"strconv"
	"strings"
	"sync/atomic"
	"syscall"
	"time"
)

// CPUBudget is the CPU time one case may burn inside a worker before it is declared a hang
// (decided on process CPU time, never on wall clock).
var CPUBudget = 15 * time.Second

func cpuNow() time.Duration {
	var ru syscall.Rusage
	if err := syscall.Getrusage(syscall.RUSAGE_SELF, &ru); err != nil {
		return 0
	}
	return time.Duration(ru.Utime.Nano() + ru.Stime.Nano())
}

// WorkerMain is the child side: vcheck worker <prop> <tier> <seed> <from> <to> <step> [replay]
// Protocol on stdout, one line each, flushed at once:
//
//	S <idx>      journal entry written BEFORE the case runs
//	R <json>     result of the case
//	H <idx>      the case exceeded its CPU budget; the process exits right after
func WorkerMain(args []string) int {
	if len(args) < 6 {
		fmt.Fprintln(os.Stderr, "usage: worker prop tier seed from to step")
		return 2
	}
	p := Lookup(args[0])
	if p == nil {
		fmt.Fprintln(os.Stderr, "unknown property", args[0])
		return 2
	}
	seed, _ := strconv.ParseInt(args[2], 10, 64)
	from, _ := strconv.Atoi(args[3])
	to, _ := strconv.Atoi(args[4])
	step, _ := strconv.Atoi(args[5])
	if step < 1 {
		step = 1
	}
	w := &Worker{
		Prop: p.ID(), Tier: args[1], Seed: seed,
		Race:    RaceEnabled,
		Home:    os.Getenv("VERIF_HOME"),
		Build:   os.Getenv("VERIF_BUILD"),
		Repo:    os.Getenv("VERIF_REPO"),
		Scratch: os.Getenv("VERIF_SCRATCH"),
		Replay:  len(args) > 6 && args[6] == "replay",
	}
	if w.Scratch == "" {
		d, _ := os.MkdirTemp("", "vw")
		w.Scratch = d
		defer os.RemoveAll(d)
	}
	// work inside the scratch directory: no generated expression can name a file outside it
	_ = os.Chdir(w.Scratch)
	out := bufio.NewWriter(os.Stdout)
	emit := func(s string) {
		out.WriteString(s)
		out.WriteByte('\n')
		out.Flush()
	}

	var curIdx atomic.Int64
	var curStart atomic.Int64 // cpu ns at case start
	curIdx.Store(-1)
	go func() {
		for {
			time.Sleep(250 * time.Millisecond)
			i := curIdx.Load()
			if i < 0 {
				continue
			}
			if cpuNow()-time.Duration(curStart.Load()) > CPUBudget {
				// do not touch the buffered writer of the main goroutine: raw write
				os.Stdout.WriteString("\nH " + strconv.FormatInt(i, 10) + "\n")
				os.Exit(3)
			}
		}
	}()

	for idx := from; idx < to; idx += step {
		emit("S " + strconv.Itoa(idx))
		curStart.Store(int64(cpuNow()))
		curIdx.Store(int64(idx))
		r := runOne(p, w, idx)
		curIdx.Store(-1)
		r.Idx = idx
		r.Race = w.Race
		b, err := json.Marshal(r)
		if err != nil {
			b, _ = json.Marshal(Result{Idx: idx, Verdict: Inconclusive, Detail: "unmarshalable result: " + err.Error()})
		}
		emit("R " + string(b))
	}
	return 0
}

func runOne(p Property, w *Worker, idx int) (r Result) {
	defer func() {
		if x := recover(); x != nil {
			// a panic that escaped the property's own guarded calls is a harness problem,
			// never silently a pass and never an alarm
			r = Result{Verdict: Inconclusive, Tags: []string{"harness_panic"},
				Detail: fmt.Sprintf("harness panic: %v\n%s", x, trimStack(string(debug.Stack())))}
		}
	}()
	return p.Run(w, idx)
}

func trimStack(s string) string {
	lines := strings.Split(s, "\n")
	if len(lines) > 40 {
		lines = lines[:40]
	}
	return strings.Join(lines, "\n")
}
