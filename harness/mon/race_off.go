//go:build !race

package mon

// RaceEnabled reports whether this binary was built with -race.
const RaceEnabled = false
