// Package mon is the runner: worker processes, journal, watchdogs, three-valued verdicts,
// known-finding matching, evidence and replay files.
package mon

import (
	"encoding/binary"
	"hash/fnv"
	"math/rand/v2"
	"os"
	"strconv"
)

// Verdicts of one case.
const (
	Held         = "held"
	Violated     = "violated"
	Inconclusive = "inconclusive"
	Finding      = "finding" // deviation explained exactly by a listed known finding
)

// Result is what a worker reports for one case index.
type Result struct {
	Idx        int      `json:"idx"`
	Verdict    string   `json:"verdict"`
	FindingID  string   `json:"finding,omitempty"`
	Sig        string   `json:"sig,omitempty"` // distinctness signature (structural hash of the case)
	Nontrivial bool     `json:"nt"`
	Tags       []string `json:"tags,omitempty"` // coverage counters, aggregated by the parent
	Case       any      `json:"case,omitempty"` // the case written out (samples / replay)
	Detail     string   `json:"detail,omitempty"`
	Evals      int      `json:"evals"` // executions of the real code made by this case
	Race       bool     `json:"race,omitempty"`
}

// Property is one checkable property. Cases are addressed by index: case i of (seed, tier) is
// generated inside the worker from Worker.Rand(i), so nothing but indices crosses the pipe.
type Property interface {
	ID() string
	Level() string
	Rule() string
	Assumptions() []string
	Cases(tier string) int     // number of case indices for the tier
	RaceCases(tier string) int // how many of them (evenly strided) are re-run by the -race build
	Run(w *Worker, idx int) Result
}

// Optional: properties that need one-time parent-side preparation or a final cross-case verdict.
type Finisher interface {
	// Finish sees all results and may append extra results (e.g. coverage floors).
	Finish(w *Worker, results []Result) []Result
}

// Worker carries the per-process context handed to Property.Run.
type Worker struct {
	Prop    string
	Tier    string
	Seed    int64
	Race    bool   // this process is the -race build
	Home    string // /verif
	Build   string // build dir (yq binary lives here)
	Repo    string
	Scratch string // private scratch directory of this worker (removed by the parent)
	Replay  bool
}

func (w *Worker) YqBin() string { return w.Build + "/yq" }

// Rand returns the PRNG of case idx: a function of (seed, property, idx) only.
func (w *Worker) Rand(idx int) *rand.Rand {
	h := fnv.New64a()
	h.Write([]byte(w.Prop))
	var b [8]byte
	binary.LittleEndian.PutUint64(b[:], uint64(w.Seed))
	h.Write(b[:])
	return rand.New(rand.NewPCG(h.Sum64(), uint64(idx)*0x9E3779B97F4A7C15+1))
}

func EnvInt(name string, def int64) int64 {
	if v := os.Getenv(name); v != "" {
		if n, err := strconv.ParseInt(v, 10, 64); err == nil {
			return n
		}
	}
	return def
}

var registry = map[string]Property{}

func Register(p Property) { registry[p.ID()] = p }
func Lookup(id string) Property { return registry[id] }
func All() map[string]Property  { return registry }
