package props

import (
	"fmt"
	"math/rand/v2"
	"runtime/debug"
	"strings"

	"verifharness/gen"
	"verifharness/mon"
	"verifharness/yqx"
)

// Family "anchor-graph" of C11: YAML documents whose anchors and aliases form a small random graph.
//
//   - anchor names come from a pool of one to three names, so that a name is DEFINED AGAIN in most documents
//     (YAML binds an alias to the most recent definition before it: two aliases with one name can point at
//     different nodes);
//   - a definition may hold aliases of earlier definitions, of other names and of ITSELF (a self-containing
//     anchor: it cannot be written without aliases, exploding it has to end in an error);
//   - the definitions and the entries that use them come in random order (harmless definition before or after the
//     self-containing one, uses of both around them), flow or block style, optionally with merge keys, aliases as
//     keys, anchored scalars, a second document;
//   - the expression routes several top-level entries in a chosen order through ONE explode: explode(.a, .b),
//     a union / collection / del printed in a format without aliases, the in-expression encoders, |= explode(.) ...
//
// Oracle, two layers, neither uses yq code:
//  1. C11's own: a result or an error, never a panic / fatal error / CPU hang. The case runs with the maximum
//     goroutine stack lowered to 64 MB, so that an unbounded recursion dies after a fraction of a second and a few
//     MB instead of after 1 GB (the inputs are < 1 KiB; nothing legitimate recurses 64 MB deep on them).
//  2. a reference verdict from the generator's own graph (tree edges + alias edges, alias bound while generating in
//     document order): if a cycle can be reached from the nodes that the explode has to expand, a finite
//     alias-free text does not exist, the run must end in an error; if no cycle can be reached from them the error
//     "contains itself" must not appear. Applied only where the expanded set is known exactly (single document,
//     no merge key, the expression templates marked law).
type agNode struct {
	kind   byte // 'm' map, 's' seq, 'v' scalar, 'a' alias
	anchor string
	keys   []*agNode // map keys (scalar or alias nodes)
	kids   []*agNode
	target *agNode // alias
	text   string  // scalar text / alias name
	merge  []bool  // per map entry: key is <<
}

type agGen struct {
	r        *rand.Rand
	names    []string
	bound    map[string]*agNode
	defs     int
	selfRefs int
	merges   int
	aliasKey int
	redefs   int
	allowMrg bool
	allowKey bool
	cur      string // the name being defined: a random alias avoids it (self-containing anchors are made on purpose only)
}

func (g *agGen) scalar() *agNode {
	return &agNode{kind: 'v', text: []string{"1", "x", "true", "3.5", "again", "~", "\"q\"", "0x10"}[g.r.IntN(8)]}
}

// alias of a bound name (nil when nothing is bound). want = prefer this name.
func (g *agGen) alias(want string) *agNode {
	if want != "" {
		if t := g.bound[want]; t != nil {
			return &agNode{kind: 'a', text: want, target: t}
		}
	}
	var have []string
	for _, n := range g.names {
		if g.bound[n] != nil && n != g.cur {
			have = append(have, n)
		}
	}
	if len(have) == 0 {
		return nil
	}
	n := have[g.r.IntN(len(have))]
	return &agNode{kind: 'a', text: n, target: g.bound[n]}
}

// collection builds a map or a sequence; self != "" asks for at least one alias of that name inside
// (the name is already bound to the node being built: a self-containing anchor).
func (g *agGen) collection(depth int, self string, aliasPct int, n *agNode) *agNode {
	if n == nil {
		n = &agNode{}
	}
	if g.r.IntN(4) == 0 {
		n.kind = 's'
	} else {
		n.kind = 'm'
	}
	cnt := 1 + g.r.IntN(3)
	selfAt := -1
	if self != "" {
		selfAt = g.r.IntN(cnt)
	}
	keyNames := []string{"name", "next", "settings", "retries", "k", "list"}
	g.r.Shuffle(len(keyNames), func(i, j int) { keyNames[i], keyNames[j] = keyNames[j], keyNames[i] })
	for i := 0; i < cnt; i++ {
		var kid *agNode
		switch {
		case i == selfAt && (depth >= 2 || g.r.IntN(3) > 0):
			kid = g.alias(self)
		case i == selfAt:
			kid = g.collection(depth+1, self, aliasPct, nil)
		case g.r.IntN(100) < aliasPct:
			kid = g.alias("")
		case depth < 2 && g.r.IntN(4) == 0:
			kid = g.collection(depth+1, "", aliasPct, nil)
		}
		if kid == nil {
			kid = g.scalar()
		}
		if n.kind == 'm' {
			key := &agNode{kind: 'v', text: keyNames[i]}
			isMerge := false
			if kid.kind == 'a' && kid.target.kind == 'm' && g.allowMrg && g.r.IntN(3) == 0 {
				key = &agNode{kind: 'v', text: "<<"}
				isMerge = true
				g.merges++
			} else if g.allowKey && g.r.IntN(6) == 0 {
				// an alias of an anchored scalar as the key
				for _, nm := range g.names {
					if t := g.bound[nm]; t != nil && t.kind == 'v' {
						key = &agNode{kind: 'a', text: nm, target: t}
						g.aliasKey++
						break
					}
				}
			}
			n.keys = append(n.keys, key)
			n.merge = append(n.merge, isMerge)
		}
		n.kids = append(n.kids, kid)
	}
	return n
}

func (g *agGen) define(name string, selfPct int) *agNode {
	n := &agNode{anchor: name}
	if g.bound[name] != nil {
		g.redefs++
	}
	g.defs++
	if g.allowKey && g.r.IntN(8) == 0 {
		n.kind, n.text = 'v', "sc"
		g.bound[name] = n
		return n
	}
	g.bound[name] = n // bound before the content: an alias inside refers to the node itself
	self := ""
	if g.r.IntN(100) < selfPct {
		self = name
		g.selfRefs++
	}
	g.cur = name
	defer func() { g.cur = "" }()
	return g.collection(0, self, 25, n)
}

func (n *agNode) flow(b *strings.Builder) {
	if n.anchor != "" {
		b.WriteString("&" + n.anchor + " ")
	}
	switch n.kind {
	case 'v':
		b.WriteString(n.text)
	case 'a':
		b.WriteString("*" + n.text)
	case 's':
		b.WriteString("[")
		for i, k := range n.kids {
			if i > 0 {
				b.WriteString(", ")
			}
			k.flow(b)
		}
		b.WriteString("]")
	case 'm':
		b.WriteString("{")
		for i, k := range n.kids {
			if i > 0 {
				b.WriteString(", ")
			}
			n.keys[i].flow(b)
			if n.keys[i].kind == 'a' {
				b.WriteString(" ")
			}
			b.WriteString(": ")
			k.flow(b)
		}
		b.WriteString("}")
	}
}

func (n *agNode) block(b *strings.Builder, ind int, inSeq bool) {
	pad := strings.Repeat("  ", ind)
	switch n.kind {
	case 'v', 'a':
		if n.anchor != "" {
			b.WriteString(" &" + n.anchor)
		}
		if n.kind == 'a' {
			b.WriteString(" *" + n.text + "\n")
		} else {
			b.WriteString(" " + n.text + "\n")
		}
	case 's':
		if n.anchor != "" {
			b.WriteString(" &" + n.anchor)
		}
		b.WriteString("\n")
		for _, k := range n.kids {
			b.WriteString(pad + "-")
			k.block(b, ind+1, true)
		}
	case 'm':
		if n.anchor != "" {
			b.WriteString(" &" + n.anchor)
		}
		b.WriteString("\n")
		for i, k := range n.kids {
			b.WriteString(pad)
			if n.keys[i].kind == 'a' {
				b.WriteString("*" + n.keys[i].text + " :")
			} else {
				b.WriteString(n.keys[i].text + ":")
			}
			k.block(b, ind+1, false)
		}
	}
}

// agCyclic: can a cycle be reached from the roots over tree edges and alias edges?
func agCyclic(roots []*agNode) bool {
	color := map[*agNode]int{}
	var visit func(n *agNode) bool
	visit = func(n *agNode) bool {
		if n == nil {
			return false
		}
		switch color[n] {
		case 1:
			return true
		case 2:
			return false
		}
		color[n] = 1
		if n.kind == 'a' && visit(n.target) {
			return true
		}
		for _, k := range n.keys {
			if visit(k) {
				return true
			}
		}
		for _, k := range n.kids {
			if visit(k) {
				return true
			}
		}
		color[n] = 2
		return false
	}
	for _, r := range roots {
		if visit(r) {
			return true
		}
	}
	return false
}

// what the reference verdict says about the case
const (
	agNoLaw       = ""
	agMustError   = "cycle-reachable:error"
	agNoCycleErrs = "no-cycle-reachable:no-contains-itself-error"
)

func c11AnchorCase(r *rand.Rand) c11Case {
	g := &agGen{r: r, bound: map[string]*agNode{}}
	pool := []string{"cfg", "x", "a", "base", "d"}
	r.Shuffle(len(pool), func(i, j int) { pool[i], pool[j] = pool[j], pool[i] })
	g.names = pool[:1+r.IntN(3)]
	if r.IntN(3) == 0 {
		g.names = g.names[:1]
	}
	g.allowMrg = r.IntN(4) == 0
	g.allowKey = r.IntN(5) == 0
	selfPct := []int{0, 10, 20, 35}[r.IntN(4)]
	nEntries := 3 + r.IntN(5)
	type entry struct {
		key  string
		node *agNode
		def  bool
	}
	var entries []entry
	root := &agNode{kind: 'm'}
	for i := 0; i < nEntries; i++ {
		key := fmt.Sprintf("k%d", i)
		var n *agNode
		isDef := i == 0 || r.IntN(2) == 0
		if isDef {
			n = g.define(g.names[r.IntN(len(g.names))], selfPct)
		} else {
			switch r.IntN(4) {
			case 0:
				n = g.alias("")
			default:
				// a user: a collection with a high share of aliases
				n = g.collection(1, "", 70, nil)
			}
			if n == nil {
				n = g.scalar()
			}
		}
		entries = append(entries, entry{key, n, isDef})
		root.keys = append(root.keys, &agNode{kind: 'v', text: key})
		root.merge = append(root.merge, false)
		root.kids = append(root.kids, n)
	}
	var b strings.Builder
	style := "flow"
	if r.IntN(3) == 0 {
		style = "block"
		root.block(&b, 0, false)
	} else {
		for i, e := range entries {
			b.WriteString(root.keys[i].text + ": ")
			e.node.flow(&b)
			b.WriteString("\n")
		}
	}
	text := strings.TrimPrefix(b.String(), "\n")
	multi := r.IntN(10) == 0
	if multi {
		// a second document that uses the same names (anchors do not cross documents)
		text += "---\nk0: &" + g.names[0] + " {k: 1}\nk1: {settings: *" + g.names[0] + "}\n"
	}

	// the expression: picks of top-level keys in random order
	perm := r.Perm(nEntries)
	np := 2 + r.IntN(2)
	if np > nEntries {
		np = nEntries
	}
	var picks []string
	var pickNodes []*agNode
	for _, i := range perm[:np] {
		picks = append(picks, "."+entries[i].key)
		pickNodes = append(pickNodes, entries[i].node)
	}
	if r.IntN(2) == 0 { // document order: earlier definitions are met first
		for i := 0; i < len(picks); i++ {
			for j := i + 1; j < len(picks); j++ {
				if picks[j] < picks[i] {
					picks[i], picks[j] = picks[j], picks[i]
					pickNodes[i], pickNodes[j] = pickNodes[j], pickNodes[i]
				}
			}
		}
	}
	union := strings.Join(picks, ", ")
	c := c11Case{In: "yaml", Source: "anchor-graph", Input: text}
	switch r.IntN(4) {
	case 0:
		c.Out = "yaml"
	case 1:
		c.Out = "json"
	default:
		c.Out = gen.OutputFormats[r.IntN(len(gen.OutputFormats))]
	}
	c.All = r.IntN(6) == 0
	aliasFree := c.Out != "yaml"
	// expanded = the nodes one explode has to expand, when known exactly
	var expanded []*agNode
	known := true
	tmpl := ""
	switch t := r.IntN(20); t {
	case 0, 1, 2:
		tmpl, c.Expr = "union", union
		expanded = pickNodes
		known = aliasFree
	case 3, 4, 5:
		tmpl, c.Expr = "explode-union", "explode("+union+")"
		expanded = pickNodes
		if aliasFree {
			expanded = []*agNode{root}
		}
	case 6:
		tmpl, c.Expr = "collect", "["+union+"]"
		expanded = pickNodes
		known = aliasFree
	case 7:
		tmpl, c.Expr = "del", "del("+picks[0]+")"
		for _, e := range entries {
			if "."+e.key != picks[0] {
				expanded = append(expanded, e.node)
			}
		}
		known = aliasFree
	case 8:
		tmpl, c.Expr = "root", []string{".", "explode(.)", ".[]", "[.[]]", "explode(..)"}[r.IntN(5)]
		expanded = []*agNode{root}
		known = aliasFree || strings.HasPrefix(c.Expr, "explode")
	case 9:
		op := []string{"to_json", "@json", "to_props", "@props", "to_xml", "tojson", "to_json(0)", "@xml"}[r.IntN(8)]
		tmpl, c.Expr = "encode-op", "["+union+"] | "+op
		expanded = pickNodes
	case 10:
		tmpl, c.Expr = "update-explode", "("+union+") |= explode(.)"
		expanded = pickNodes
		if aliasFree {
			expanded = []*agNode{root}
		}
	case 11:
		tmpl, c.Expr = "explode-then-pick", "explode("+picks[0]+") | ["+union+"]"
		expanded = pickNodes
		known = aliasFree
	case 12:
		tmpl, c.Expr = "object", "{\"p\": "+picks[0]+", \"q\": "+picks[len(picks)-1]+"}"
		expanded = []*agNode{pickNodes[0], pickNodes[len(pickNodes)-1]}
		known = aliasFree
	case 13:
		tmpl, c.Expr = "pick-keys", "pick(["+strings.ReplaceAll(strings.ReplaceAll(union, ".k", "\"k"), ",", "\",")+"\"])"
		expanded = pickNodes
		known = aliasFree
	case 14:
		tmpl, c.Expr = "with-explode", "with("+picks[0]+"; explode(.)) | explode("+picks[len(picks)-1]+")"
		expanded = []*agNode{pickNodes[0], pickNodes[len(pickNodes)-1]}
		if aliasFree {
			expanded = []*agNode{root}
		}
	case 15:
		tmpl, known = "binary-op", false
		c.Expr = picks[0] + []string{" * ", " + ", " == ", " *+ ", " // "}[r.IntN(5)] + picks[len(picks)-1]
	case 16:
		tmpl, known = "walk", false
		c.Expr = []string{"[.. | select(tag == \"!!map\")]", "sort_keys(..)", "to_entries", "[.. | alias]", "[.. | anchor]",
			".. |= .", "[" + union + "] | unique", "[" + picks[0] + "] - [" + picks[len(picks)-1] + "]", "map_values(explode(.))",
			"[" + union + "] | flatten", picks[0] + " | keys", "[" + union + "] | sort", "[" + union + "] | .[] |= explode(.)"}[r.IntN(13)]
	case 17:
		tmpl, known = "deep-path", false
		c.Expr = picks[0] + []string{".next", ".next.next", ".settings", ".settings.next", "[0]", "[0][0]", ".k.k"}[r.IntN(7)] +
			[]string{"", " | explode(.)", ", " + picks[len(picks)-1]}[r.IntN(3)]
	case 18:
		tmpl, c.Expr = "select-entries", "with_entries(select(.key != \""+strings.TrimPrefix(picks[0], ".")+"\"))"
		for _, e := range entries {
			if "."+e.key != picks[0] {
				expanded = append(expanded, e.node)
			}
		}
		known = aliasFree
	default:
		tmpl, c.Expr = "explode-pipe", "explode("+picks[0]+") | explode("+picks[len(picks)-1]+")"
		expanded = []*agNode{pickNodes[0], pickNodes[len(pickNodes)-1]}
		if aliasFree {
			expanded = []*agNode{root}
		}
	}
	law := agNoLaw
	if known && !multi && g.merges == 0 {
		if agCyclic(expanded) {
			law = agMustError
		} else {
			law = agNoCycleErrs
		}
	}
	c.Law = law
	c.Shape = []string{"ag:tmpl:" + tmpl, "ag:style:" + style, fmt.Sprintf("ag:names:%d", len(g.names))}
	if g.redefs > 0 {
		c.Shape = append(c.Shape, "ag:name-defined-again")
	}
	if g.selfRefs > 0 {
		c.Shape = append(c.Shape, "ag:self-containing-anchor")
	}
	if g.redefs > 0 && g.selfRefs > 0 {
		c.Shape = append(c.Shape, "ag:redefined+self-containing")
	}
	if agCyclic([]*agNode{root}) {
		c.Shape = append(c.Shape, "ag:doc-has-cycle")
		if len(expanded) > 0 && !agCyclic(expanded) {
			c.Shape = append(c.Shape, "ag:cycle-not-reached-by-explode")
		}
	}
	if g.merges > 0 {
		c.Shape = append(c.Shape, "ag:merge-key")
	}
	if g.aliasKey > 0 {
		c.Shape = append(c.Shape, "ag:alias-as-key")
	}
	if multi {
		c.Shape = append(c.Shape, "ag:two-documents")
	}
	if law != agNoLaw {
		c.Shape = append(c.Shape, "ag:law:"+law)
	} else {
		c.Shape = append(c.Shape, "ag:law:none(crash-oracle-only)")
	}
	return c
}

// c11AnchorMaxStack: the goroutine stack limit while an anchor-graph case runs.
const c11AnchorMaxStack = 64 << 20

func c11RunAnchorCase(c c11Case) mon.Result {
	old := debug.SetMaxStack(c11AnchorMaxStack)
	defer debug.SetMaxStack(old)
	res := mon.Result{Case: c, Evals: 1, Nontrivial: true}
	var out string
	var err error
	var pan *yqx.Panic
	if c.All {
		out, err, pan = yqx.EvalAll(c.Expr, c.Input, c.In, c.Out)
	} else {
		out, err, pan = yqx.Eval(c.Expr, c.Input, c.In, c.Out)
	}
	res.Sig = fmt.Sprintf("%s|%s|%s|%x", skeleton(c.Expr), c.In, c.Out, hashStr(c.Input))
	res.Tags = append([]string{"gen:" + c.Source, "in:" + c.In, "out:" + c.Out, "parsed"}, c.Shape...)
	switch {
	case pan != nil:
		res.Tags = append(res.Tags, "panic")
		res.Verdict = mon.Violated
		res.Detail = fmt.Sprintf("PANIC %s\nvalue: %s\n%s", pan.Sig(), pan.Value, clipStr(pan.Stack, 1800))
	case err != nil:
		res.Verdict = mon.Held
		res.Tags = append(res.Tags, "error")
		res.Detail = "error: " + clipStr(err.Error(), 200)
		if strings.Contains(err.Error(), "unknown anchor") || strings.Contains(err.Error(), "did not find expected") ||
			strings.Contains(err.Error(), "yaml: line") {
			// the generator's own text was rejected by the YAML reader: no verdict from the reference
			res.Verdict = mon.Inconclusive
			res.Tags = append(res.Tags, "ag:generator-text-rejected")
			break
		}
		if c.Law == agNoCycleErrs && strings.Contains(err.Error(), "contains itself") {
			res.Verdict = mon.Violated
			res.Detail = "no cycle can be reached from what this expression explodes (generator's graph), expected a result or another error, got: " + clipStr(err.Error(), 200)
		}
	default:
		res.Verdict = mon.Held
		res.Tags = append(res.Tags, "ok")
		res.Detail = "ok: " + clipStr(out, 200)
		if c.Law == agMustError {
			res.Verdict = mon.Violated
			res.Detail = "a cycle can be reached from what this expression explodes (generator's graph): no finite alias-free text exists, expected an error, got: " + clipStr(out, 300)
		}
	}
	return res
}
