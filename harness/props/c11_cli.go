package props

import (
	"fmt"
	"os"
	"path/filepath"
	"regexp"
	"strings"

	"verifharness/gen"
	"verifharness/mon"
)

// CLI family of C11: the real binary with random combinations of its flags (values at and beyond the
// edges of their ranges, flags that are rarely combined) over small input files. The oracle is C11's own:
// whatever the combination, yq ends with output or an error message — never with a Go panic / fatal error
// trace, never killed by a signal, never over the CPU budget.
var c11PanicRe = regexp.MustCompile(`(?m)^(panic: |fatal error: |goroutine \d+ \[running\]:|\[signal SIG)`)

func c11CLICase(w *mon.Worker, idx int) mon.Result {
	r := w.Rand(idx)
	dir := filepath.Join(w.Scratch, fmt.Sprintf("c11cli-%d", idx))
	_ = os.MkdirAll(filepath.Join(dir, "out"), 0o755)
	defer os.RemoveAll(dir)
	pick := func(xs ...string) string { return xs[r.IntN(len(xs))] }
	// input files
	inFmt := pick("yaml", "yaml", "yaml", "json", "xml", "csv", "props", "toml", "lua")
	ext := map[string]string{"yaml": "yaml", "json": "json", "xml": "xml", "csv": "csv", "props": "properties", "toml": "toml", "lua": "lua"}[inFmt]
	nf := 1 + r.IntN(2)
	var files []string
	texts := map[string]string{}
	for i := 0; i < nf; i++ {
		name := fmt.Sprintf("f%d.%s", i, pick(ext, ext, "md", "txt", ext))
		text := gen.Corpus[inFmt][r.IntN(len(gen.Corpus[inFmt]))]
		if strings.HasSuffix(name, ".md") {
			text = "---\n" + gen.Corpus["yaml"][r.IntN(4)] + "---\nbody text\n"
		}
		_ = os.WriteFile(filepath.Join(dir, name), []byte(text), 0o644)
		files = append(files, name)
		texts[name] = text
	}
	var args []string
	if r.IntN(4) == 0 {
		args = append(args, pick("ea", "eval-all", "e", "eval"))
	}
	flagPool := [][]string{
		{"-I", pick("-1", "0", "1", "7", "100", "1000", "-2147483648", "x")}, {"-I" + pick("0", "3", "-5")},
		{"-o", pick("yaml", "json", "xml", "props", "csv", "tsv", "toml", "shell", "lua", "base64", "uri", "nope", "")}, {"-p", pick("yaml", "json", "xml", "props", "csv", "tsv", "toml", "lua", "base64", "uri", "nope", "shell")},
		{"-N"}, {"-r"}, {"--unwrapScalar=false"}, {"-0"}, {"-e"}, {"-P"}, {"-C"}, {"-M"}, {"-n"}, {"-i"}, {"-v"},
		{"-s", pick(".a", `"out/" + ($index | tostring)`, ".nope", `"out/x"`, "1", "")}, {"--split-exp-file", "f0." + ext},
		{"--front-matter=" + pick("process", "extract", "nope")}, {"--header-preprocess=false"}, {"--string-interpolation=false"},
		{"--xml-attribute-prefix=" + pick("", "@", "+@", "a b")}, {"--xml-content-name=" + pick("", "#t", "+content")}, {"--xml-strict-mode"}, {"--xml-keep-namespace=false"},
		{"--xml-raw-token=false"}, {"--xml-proc-inst-prefix="}, {"--xml-directive-name="}, {"--xml-skip-proc-inst"}, {"--xml-skip-directives"},
		{"--csv-separator=" + pick(";", "", "ab", "\t", "\"")}, {"--csv-auto-parse=false"}, {"--tsv-auto-parse=false"},
		{"--lua-globals"}, {"--lua-unquoted"}, {"--lua-prefix=" + pick("", "x = ", "return")}, {"--lua-suffix=" + pick("", ";")},
		{"--properties-separator=" + pick("", ":", " ", "=="), "--properties-array-brackets"}, {"--shell-key-separator=" + pick("", "__", " ")},
		{"--from-file", "f0." + ext}, {"--expression", pick(".", ".a", "")}, {"--prettyPrint"}, {"--exit-status"}, {"--no-doc"}, {"--colors"}, {"--yaml-fix-merge-anchor-to-spec=true"},
	}
	for i, n := 0, 1+r.IntN(5); i < n; i++ {
		args = append(args, flagPool[r.IntN(len(flagPool))]...)
	}
	expr := pick(".", ".a", ".[]", "..", "keys", "length", ".a.b = 1", "del(.a)", ".[0]", "to_entries", `.a = "x"`, "select(.a)", `"\(.)"`, ". as $x | $x", "sort_keys(..)", "explode(.)", "@json", "", "[.]", "{}", "$index")
	if r.IntN(6) > 0 {
		args = append(args, expr)
	}
	if r.IntN(8) > 0 {
		args = append(args, files...)
	}
	if r.IntN(20) == 0 {
		args = append(args, pick("-", "missing.yaml", "out", "."))
	}
	stdin := []byte(gen.Corpus["yaml"][r.IntN(len(gen.Corpus["yaml"]))])
	br := mon.Run(mon.RunOpts{Dir: dir, Stdin: stdin, CPUSecs: 15}, append([]string{w.YqBin()}, args...)...)
	res := mon.Result{Evals: 1, Nontrivial: true, Tags: []string{"gen:cli-flags", "in:" + inFmt}}
	res.Case = map[string]any{"argv": args, "files": texts, "stdin": string(stdin)}
	res.Sig = fmt.Sprintf("cli|%x", hashStr(strings.Join(args, "\x00")))
	se := string(br.Stderr)
	switch {
	case br.TimedOut && br.Exit == -2:
		res.Verdict, res.Detail = mon.Inconclusive, "the binary could not be run: "+clipStr(se, 200)
	case br.TimedOut:
		res.Verdict, res.Detail = mon.Inconclusive, "wall-clock watchdog fired"
	case br.Signal == 24 || br.Signal == 9:
		res.Verdict, res.Detail = mon.Violated, fmt.Sprintf("HANG: yq %s exceeded 15 s of CPU time", strings.Join(args, " "))
	case c11PanicRe.MatchString(se):
		res.Verdict = mon.Violated
		res.Tags = append(res.Tags, "panic")
		res.Detail = fmt.Sprintf("PANIC (binary) yq %q\nexit=%d signal=%d\n%s", args, br.Exit, br.Signal, clipStr(se, 1500))
	case br.Signal != 0:
		res.Verdict, res.Detail = mon.Violated, fmt.Sprintf("yq %q was killed by signal %d\n%s", args, br.Signal, clipStr(se, 600))
	default:
		res.Verdict = mon.Held
		res.Tags = append(res.Tags, fmt.Sprintf("exit:%d", br.Exit))
		res.Detail = fmt.Sprintf("exit %d: %s", br.Exit, clipStr(se, 120))
	}
	return res
}
