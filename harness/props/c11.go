package props

import (
	"fmt"
	"math/rand/v2"
	"regexp"
	"strings"

	"verifharness/gen"
	"verifharness/mon"
	"verifharness/yqx"
)

// C11 — every input is answered with a result or an error, never a crash or a hang.
//
// Events that refute: a Go panic inside yq (recovered here), a fatal runtime error that kills
// the worker (stack overflow, checkptr, concurrent map write), or a case that burns more than
// its CPU budget. Oracle: recover() + journal + child-exit classification + CPU-time watchdog.
type c11 struct{}

func init() { mon.Register(c11{}) }

func (c11) ID() string    { return "C11" }
func (c11) Level() string { return "exploration" }
func (c11) Rule() string {
	return "case = (expression, input text, input format, output format, eval|eval-all); expressions from five generators " +
		"(structured full-vocabulary trees, token soup, mutated structured, mutated soup, raw bytes; every 100th case: family anchor-graph, " +
		"a YAML document whose anchors form a random graph with names defined again and self-containing anchors, several entries routed " +
		"through one explode, checked against the generator's own reachability verdict under a 64 MB stack limit); inputs are valid/truncated/" +
		"spliced/bit-flipped/random texts of all ten input formats. Non-trivial = the case got past the parser (parse succeeded) " +
		"or reached a decoder with non-empty input; distinct by (expression skeleton with literals collapsed, formats, input hash)."
}
func (c11) Assumptions() []string {
	return []string{
		"a panic that yq itself recovers and turns into an error is an error, not a crash",
		"hang = more than 40 s of process CPU time for one case whose input is < 4 KiB; memory exhaustion is inconclusive",
		"the working directory is an empty scratch directory; load operators only see names inside it",
	}
}
func (c11) Cases(tier string) int {
	if tier == "thorough" {
		return 1500000
	}
	return 100000
}
func (c11) RaceCases(tier string) int {
	if tier == "thorough" {
		return 20000
	}
	return 800
}
func (c11) Floor(tier string) int { return 1000 }

type c11Case struct {
	Expr   string `json:"expr"`
	Input  string `json:"input"`
	In     string `json:"in"`
	Out    string `json:"out"`
	All    bool   `json:"eval_all"`
	Source string `json:"generator"`
	// anchor-graph family only: what the reference verdict demands, and the shape tags of the document
	Law   string   `json:"law,omitempty"`
	Shape []string `json:"shape,omitempty"`
}

// c11GlobCase: a wildcard pattern with many `*` against a long name made of the pattern's own literal, with a tail that
// cannot match - a matcher that tries every split point of every star needs time exponential in the number of stars,
// the pattern and the name together stay well under 200 bytes.
func c11GlobCase(r *rand.Rand) c11Case {
	ch := string(rune('a' + r.IntN(3)))
	name := strings.Repeat(ch, 48+r.IntN(40))
	stars := 14 + r.IntN(8)
	pat := strings.Repeat(ch+"*", stars) + "z"
	c := c11Case{In: "yaml", Out: []string{"yaml", "json", "props"}[r.IntN(3)], Source: "many-star-glob", All: r.IntN(8) == 0}
	c.Input = name + ": 1\nother: 2\nname: " + name + "\npattern: \"" + pat + "\"\nlist: [" + name + ", x]\n"
	switch r.IntN(8) {
	case 0:
		c.Expr = "." + pat
	case 1:
		c.Expr = ".name == .pattern"
	case 2:
		c.Expr = ".list[] | select(. == \"" + pat + "\")"
	case 3:
		c.Expr = "del(." + pat + ")"
	case 4:
		c.Expr = ".[\"" + pat + "\"] = 3"
	case 5:
		c.Expr = "with_entries(select(.key == \"" + pat + "\"))"
	case 6:
		c.Expr = ".name != .pattern"
	default:
		c.Expr = "[.. | select(. == \"*" + pat + "\")] | length"
	}
	return c
}

func c11Gen(w *mon.Worker, idx int) c11Case {
	r := w.Rand(idx)
	if idx%2000 == 77 {
		return c11GlobCase(r)
	}
	if idx%100 == 33 {
		return c11AnchorCase(r)
	}
	var c c11Case
	switch r.IntN(10) {
	case 0, 1, 2, 3:
		c.Expr, c.Source = gen.Structured(r, 1+r.IntN(4)), "structured"
	case 4, 5:
		c.Expr, c.Source = gen.Soup(r, 10), "soup"
	case 6, 7:
		c.Expr, c.Source = gen.Mutate(r, gen.Structured(r, 1+r.IntN(3)), 1+r.IntN(3)), "mutated-structured"
	case 8:
		c.Expr, c.Source = gen.Mutate(r, gen.Soup(r, 8), 1+r.IntN(3)), "mutated-soup"
	default:
		c.Expr, c.Source = gen.RandomBytes(r, 24), "bytes"
	}
	if r.IntN(5) == 0 && c.Source != "bytes" {
		c.Expr, c.Source = gen.Respace(r, c.Expr), c.Source+"+respaced"
	}
	// yaml dominates (it reaches the most operator code); every other format gets a fixed share
	if r.IntN(2) == 0 {
		c.In = "yaml"
	} else {
		c.In = gen.InputFormats[r.IntN(len(gen.InputFormats))]
	}
	c.Input = gen.InputText(r, c.In, w.Repo)
	if r.IntN(3) == 0 {
		// codec focus: trivial expression so that decoder x encoder pairs are hit densely
		c.Expr = []string{".", "..", ".[]", ".a", "to_entries", "[.]"}[r.IntN(6)]
		c.Source = "identity-ish"
	}
	switch r.IntN(4) {
	case 0:
		c.Out = "yaml"
	case 1:
		c.Out = "json"
	default:
		c.Out = gen.OutputFormats[r.IntN(len(gen.OutputFormats))]
	}
	c.All = r.IntN(8) == 0
	return c
}

var litRe = regexp.MustCompile(`"[^"]*"|-?\d+(\.\d+)?`)

func skeleton(e string) string {
	s := litRe.ReplaceAllString(e, "L")
	if len(s) > 80 {
		s = s[:80]
	}
	return s
}

// Known crash sites, matched on (innermost yq function, message class).
var c11Known = map[string]string{}

func (p c11) Run(w *mon.Worker, idx int) mon.Result {
	if idx%40 == 39 && !w.Race {
		return c11CLICase(w, idx)
	}
	c := c11Gen(w, idx)
	if c.Source == "anchor-graph" {
		return c11RunAnchorCase(c)
	}
	res := mon.Result{Case: c, Evals: 1}
	_, perr, ppan := yqx.Parse(c.Expr)
	var out string
	var err error
	var pan *yqx.Panic
	if c.All {
		out, err, pan = yqx.EvalAll(c.Expr, c.Input, c.In, c.Out)
	} else {
		out, err, pan = yqx.Eval(c.Expr, c.Input, c.In, c.Out)
	}
	if pan == nil {
		pan = ppan
	}
	parsed := perr == nil && ppan == nil
	res.Nontrivial = parsed || len(c.Input) > 0
	res.Sig = fmt.Sprintf("%s|%s|%s|%x", skeleton(c.Expr), c.In, c.Out, hashStr(c.Input))
	res.Tags = []string{"gen:" + c.Source, "in:" + c.In, "out:" + c.Out}
	if parsed {
		res.Tags = append(res.Tags, "parsed")
	}
	switch {
	case pan != nil:
		res.Tags = append(res.Tags, "panic")
		res.Detail = fmt.Sprintf("PANIC %s\nvalue: %s\n%s", pan.Sig(), pan.Value, clipStr(pan.Stack, 1800))
		if id, ok := c11Known[pan.Sig()]; ok {
			res.Verdict, res.FindingID = mon.Finding, id
		} else {
			res.Verdict = mon.Violated
		}
	case err != nil:
		res.Verdict = mon.Held
		res.Tags = append(res.Tags, "error")
		res.Detail = "error: " + clipStr(err.Error(), 200)
	default:
		res.Verdict = mon.Held
		res.Tags = append(res.Tags, "ok")
		res.Detail = "ok: " + clipStr(out, 200)
	}
	return res
}

var fatalRe = regexp.MustCompile(`(?m)^fatal error: (.*)$`)
var frameRe = regexp.MustCompile(`(?m)^github\.com/mikefarah/yq/v4/pkg/yqlib\.([A-Za-z0-9_.()*]+)\(`)

func (p c11) ClassifyDeath(w *mon.Worker, idx int, kind, stderr string) mon.Result {
	c := c11Gen(w, idx)
	res := mon.Result{Case: c, Evals: 1, Nontrivial: true, Sig: fmt.Sprintf("death|%d", idx)}
	msg := "unknown"
	if m := fatalRe.FindStringSubmatch(stderr); m != nil {
		msg = m[1]
	}
	fn := ""
	if m := frameRe.FindStringSubmatch(stderr); m != nil {
		fn = m[1]
	}
	// Known finding: Lua input is a program that the decoder executes; a non-terminating
	// program or a cyclic table makes yq diverge (CPU hang, or stack overflow while converting).
	luaDiverges := c.In == "lua" && (kind == "cpu_hang" ||
		(msg == "stack overflow" && (fn == "" || strings.Contains(fn, "luaDecoder"))))
	if luaDiverges {
		res.Verdict, res.FindingID = mon.Finding, "C11-lua-input-is-executed"
		res.Detail = kind + " " + msg + " " + fn
		return res
	}
	if kind == "cpu_hang" {
		res.Detail = fmt.Sprintf("HANG: case exceeded %v of CPU time", mon.CPUBudget)
		if hugeNumRe.MatchString(c.Expr) || hugeNumRe.MatchString(c.Input) {
			// an explicitly requested huge index / repeat count: resource exhaustion, not decided
			res.Verdict = mon.Inconclusive
			res.Tags = append(res.Tags, "huge_number_resource_exhaustion")
			return res
		}
		res.Verdict = mon.Violated
		return res
	}
	if strings.Contains(stderr, "signal: killed") || msg == "unknown" && fn == "" {
		res.Verdict = mon.Inconclusive
		res.Detail = "worker died without a Go fatal error (memory/kill?)\n" + clipStr(stderr, 1500)
		return res
	}
	sig := "fatal:" + fn + ": " + msg
	res.Detail = "FATAL " + sig + "\n" + clipStr(stderr, 2500)
	if id, ok := c11Known[sig]; ok {
		res.Verdict, res.FindingID = mon.Finding, id
	} else {
		res.Verdict = mon.Violated
	}
	return res
}

var hugeNumRe = regexp.MustCompile(`\d{6,}|[eE]\+?\d{2,}|0[xX][0-9a-fA-F]{5,}`)
