package props

import (
	"errors"
	"fmt"
	"math"
	"math/rand/v2"
	"os"
	"path/filepath"
	"strings"

	"verifharness/gen"
	"verifharness/mon"
	"verifharness/ref"
	"verifharness/yqx"
)

// C01 — the core expression language evaluates according to its reference semantics.
//
// Oracle: an independent reference interpreter (ref.Eval) over a pure value model. The real
// parser+evaluator+JSON printer run on the same (expression, document); the ordered result
// lists must be equal, and yq must report an error exactly when the reference defines none.
type c01 struct{}

func init() { mon.Register(c01{}) }

func (c01) ID() string    { return "C01" }
func (c01) Level() string { return "exploration" }
func (c01) Rule() string {
	return "case = (expression, document): document from the weighted JSON-model generator (empty containers, null, negative/float numbers, " +
		"unicode/torture strings, duplicate values, few keys reused across levels); expression generated type-directed against the concrete document " +
		"(the reference model is evaluated while generating, ~12% of the choices ignore types on purpose) over the whole core fragment, depth 1-5, " +
		"printed with every composite operand bracketed. Compared: ordered result list (ints exact, floats by value, key order) and error-vs-success. " +
		"Non-trivial = the reference defines >=1 result, or defines an error and the expression has >=2 operators; distinct by (expression skeleton, document shape). " +
		"Cases the model marks outside its domain (64-bit wrap-around, key globs, timestamps-like strings, mixed-type unique keys) are skipped and counted."
}
func (c01) Assumptions() []string {
	return []string{
		"the reference interpreter is an N-version oracle: rules come from the operator docs, and where those are silent from the pinned behaviour (DESIGN.md appendix A), so there it detects change rather than deviation from an external truth",
		"documents are handed to yq as JSON text through the YAML decoder; results are read back from `-o=json -I0` output with encoding/json (UseNumber)",
		"side effects of read traversal (auto-creation of missing keys) are not modelled: a mismatch on a case where the model saw a writable-context miss is inconclusive, not a violation",
	}
}
func (c01) Cases(tier string) int {
	if tier == "thorough" {
		return 400000
	}
	return 60000
}
func (c01) RaceCases(tier string) int {
	if tier == "thorough" {
		return 8000
	}
	return 300
}
func (c01) Floor(tier string) int { return 1500 }

type c01Case struct {
	Expr string `json:"expr"`
	Doc  string `json:"doc"`
}

// c01AlikeCase: sequences of scalars that are spelled alike but are different values (1 and "1", true and "true",
// null and "null", 1.5 and "1.5") under the operators that compare whole values.
func c01AlikeCase(r *rand.Rand) (*ref.Expr, *ref.V) {
	pool := []*ref.V{ref.IntV(1), ref.StrV("1"), ref.BoolV(true), ref.StrV("true"), ref.NullV(), ref.StrV("null"), ref.IntV(2), ref.StrV("2"),
		ref.FloatV(1.5), ref.StrV("1.5"), ref.StrV("x"), ref.StrV(""), ref.BoolV(false), ref.StrV("false"), ref.SeqV(ref.IntV(1)), ref.SeqV(ref.StrV("1"))}
	pick := func(n int) *ref.V {
		s := &ref.V{K: ref.Seq, A: []*ref.V{}}
		for i := 0; i < n; i++ {
			s.A = append(s.A, pool[r.IntN(len(pool))].Copy())
		}
		return s
	}
	a, b := pick(2+r.IntN(5)), pick(1+r.IntN(3))
	doc := ref.MapV(ref.KV{K: "a", V: a}, ref.KV{K: "b", V: b})
	sub := ref.Bin("-", ref.Key("a"), ref.Key("b"))
	switch r.IntN(4) {
	case 0:
		return sub, doc
	case 1:
		return ref.Bin("-", ref.Key("a"), ref.Lit(b)), doc
	case 2:
		return ref.Pipe(sub, ref.Fn0("length")), doc
	default:
		return &ref.Expr{Op: ref.OpAs, S: "r", L: ref.Key("b"), R: ref.Pipe(ref.Key("a"), ref.Fn1("map", ref.Pipe(ref.Bin("-", &ref.Expr{Op: ref.OpCollect, L: ref.Self()}, &ref.Expr{Op: ref.OpVar, S: "r"}), ref.Fn0("length"))))}, doc
	}
}

func c01Gen(w *mon.Worker, idx int) (*ref.Expr, *ref.V) {
	r := w.Rand(idx)
	if idx%40 == 7 {
		return c01AlikeCase(r)
	}
	p := gen.Default()
	p.NoBigInt = true
	p.SmallInts = r.IntN(10) < 7
	p.MaxDepth = 2 + r.IntN(3)
	p.MaxWidth = 2 + r.IntN(4)
	if r.IntN(3) == 0 {
		p.PlainStr = true
	}
	doc := gen.Value(r, p)
	g := gen.NewExprGen(r)
	e := g.Gen([]*ref.V{doc}, 1+r.IntN(5))
	return e, doc
}

// parseResults reads `-o=json -I0` output.
func parseResults(out string) ([]*ref.V, error) {
	return ref.ParseJSONStream(out)
}

func sameResults(a, b []*ref.V) bool {
	if len(a) != len(b) {
		return false
	}
	for i := range a {
		if !ref.EqualNum(a[i], b[i]) {
			return false
		}
	}
	return true
}

func showResults(vs []*ref.V) string {
	parts := make([]string, len(vs))
	for i, v := range vs {
		parts[i] = v.JSON()
	}
	return "[" + strings.Join(parts, " ; ") + "]"
}

// c01EntryShapes: what from_entries / with_entries take for an entry is documented: `key` (or k / name) and `value` (or v).
// Each row: expression, and what it must give (error = "!").
var c01EntryShapes = [][2]string{
	{`[{"key":"a","value":1}] | from_entries`, `{"a":1}`},
	{`[{"key":"a","val":1}] | from_entries`, `!`},
	{`[{"key":"a","index":1}] | from_entries`, `!`},
	{`[{"key":"a","value":1,"x":2}] | from_entries`, `{"a":1}`},
	{`[{"value":1,"key":"a"}] | from_entries`, `{"a":1}`},
	{`{"p":1} | with_entries({"key": .key, "v2": .value})`, `!`},
	{`{"p":1} | to_entries | map({"key": .value, "index": .key}) | from_entries`, `!`},
	{`[["a", 1]] | from_entries`, `!`},
	{`{"p":1,"q":2} | with_entries(select(.value > 1))`, `{"q":2}`},
	{`[[[1]],[]] | flatten`, `[1]`},
	{`[[1,[2,[3]]],[]] | flatten`, `[1,2,3]`},
	{`[1,[[2]],[]] | flatten(2)`, `[1,2]`},
	{`[[],[[1]],[],[[[2]]],[]] | flatten`, `[1,2]`},
}

func c01EntryShapeCase(idx int) mon.Result {
	row := c01EntryShapes[(idx/997)%len(c01EntryShapes)]
	res := mon.Result{Case: c01Case{row[0], "null"}, Evals: 1, Nontrivial: true, Tags: []string{"fixed_shapes"}}
	res.Sig = "shape|" + row[0]
	out, err, pan := yqx.Eval(row[0], "null\n", "yaml", "json")
	switch {
	case pan != nil:
		res.Verdict, res.Detail = mon.Violated, fmt.Sprintf("`%s` panicked: %v", row[0], pan)
	case row[1] == "!" && err == nil:
		res.Verdict, res.Detail = mon.Violated, fmt.Sprintf("`%s` must be refused (it is not an entry of the documented shape), yq gave %s", row[0], strings.TrimSpace(out))
	case row[1] != "!" && err != nil:
		res.Verdict, res.Detail = mon.Violated, fmt.Sprintf("`%s` failed: %v", row[0], err)
	case row[1] != "!":
		a, e1 := ref.ParseJSON(strings.TrimSpace(out))
		b, _ := ref.ParseJSON(row[1])
		if e1 != nil || !ref.EqualNum(a, b) {
			res.Verdict, res.Detail = mon.Violated, fmt.Sprintf("`%s` gives %s, expected %s", row[0], strings.TrimSpace(out), row[1])
		}
	}
	if res.Verdict == "" {
		res.Verdict, res.Detail = mon.Held, "as documented"
	}
	return res
}

func (p c01) Run(w *mon.Worker, idx int) mon.Result {
	if idx%997 == 5 {
		return c01EntryShapeCase(idx)
	}
	e, doc := c01Gen(w, idx)
	expr := e.String()
	docText := doc.JSON()
	res := mon.Result{Case: c01Case{expr, docText}, Evals: 1}
	res.Sig = fmt.Sprintf("%x|%x", hashStr(e.Skeleton()), doc.ShapeHash())
	for _, op := range e.Ops() {
		res.Tags = append(res.Tags, "op:"+op)
	}
	tr := &ref.Trace{}
	want, rerr := ref.Eval(e, []*ref.V{doc.Copy()}, ref.Env{T: tr})
	if errors.Is(rerr, ref.ErrDomain) {
		res.Verdict = mon.Held
		res.Evals = 0
		res.Tags = append(res.Tags, "excluded_domain")
		res.Detail = "outside the modelled domain"
		return res
	}
	if rerr == nil && hasNonFinite(want) {
		rerr = ref.ErrDomain
	}
	if errors.Is(rerr, ref.ErrDomain) {
		res.Verdict, res.Evals, res.Detail = mon.Held, 0, "outside the modelled domain (non-finite float result)"
		res.Tags = append(res.Tags, "excluded_domain")
		return res
	}
	var evalErr *ref.EvalError
	if rerr != nil && !errors.As(rerr, &evalErr) {
		res.Verdict, res.Detail = mon.Inconclusive, "reference error: "+rerr.Error()
		return res
	}
	out, yerr, pan := yqx.Eval(expr, docText+"\n", "yaml", "json")
	if pan != nil {
		yerr = fmt.Errorf("panic: %s", pan.Sig())
		res.Tags = append(res.Tags, "yq_panic")
	}
	// sampled cross-check with the real binary
	if idx%33 == 0 && !w.Race {
		dir := filepath.Join(w.Scratch, fmt.Sprintf("c01-%d", idx))
		_ = os.MkdirAll(dir, 0o755)
		f := filepath.Join(dir, "d.yaml")
		_ = os.WriteFile(f, []byte(docText+"\n"), 0o644)
		br := mon.Run(mon.RunOpts{Dir: dir}, w.YqBin(), "-o=json", "-I0", "--unwrapScalar=false", "--expression", expr, f)
		_ = os.RemoveAll(dir)
		res.Evals++
		if !br.TimedOut {
			res.Tags = append(res.Tags, "binary_crosscheck")
			binErr := br.Exit != 0
			if binErr != (yerr != nil) || (!binErr && string(br.Stdout) != out) {
				res.Verdict = mon.Violated
				res.Detail = fmt.Sprintf("binary and library disagree: binary exit=%d stdout=%q stderr=%q; library err=%v out=%q", br.Exit, clipStr(string(br.Stdout), 300), clipStr(string(br.Stderr), 200), yerr, clipStr(out, 300))
				return res
			}
		}
	}
	// the same program with only the brackets the precedence table requires means the same (observed on yq alone)
	if idx%2 == 1 {
		if minExpr := e.StringMin(); minExpr != expr {
			out2, yerr2, pan2 := yqx.Eval(minExpr, docText+"\n", "yaml", "json")
			res.Evals++
			res.Tags = append(res.Tags, "minimal_brackets")
			if pan2 != nil {
				yerr2 = fmt.Errorf("panic: %s", pan2.Sig())
			}
			if (yerr2 != nil) != (yerr != nil) || (yerr == nil && out2 != out) {
				res.Verdict = mon.Violated
				res.Detail = fmt.Sprintf("the program means something else without its redundant brackets\n bracketed: %s\n   -> err=%v %s\n minimal:   %s\n   -> err=%v %s", expr, yerr, clipStr(out, 300), minExpr, yerr2, clipStr(out2, 300))
				res.Case = map[string]any{"expr": expr, "minimal": minExpr, "doc": docText}
				return res
			}
		}
	}
	nops := 0
	e.Walk(func(*ref.Expr) { nops++ })
	switch {
	case rerr != nil && yerr != nil:
		res.Verdict = mon.Held
		res.Nontrivial = nops >= 2
		res.Tags = append(res.Tags, "both_error")
		res.Detail = "both report an error: " + clipStr(yerr.Error(), 120)
		return res
	case rerr != nil:
		got, _ := parseResults(out)
		res.Detail = fmt.Sprintf("reference defines no result (%v) but yq succeeded with %s", rerr, clipStr(showResults(got), 400))
	case yerr != nil:
		res.Detail = fmt.Sprintf("reference defines %s but yq reported an error: %v", clipStr(showResults(want), 400), yerr)
	default:
		got, perr := parseResults(out)
		if perr != nil {
			res.Detail = fmt.Sprintf("yq output is not a stream of JSON texts (%v): %q", perr, clipStr(out, 300))
			break
		}
		if sameResults(want, got) {
			res.Verdict = mon.Held
			res.Nontrivial = len(want) > 0
			res.Tags = append(res.Tags, fmt.Sprintf("width:%d", min(len(want), 5)))
			res.Detail = clipStr(showResults(got), 300)
			return res
		}
		res.Detail = fmt.Sprintf("results differ\n expected %s\n observed %s", clipStr(showResults(want), 600), clipStr(showResults(got), 600))
	}
	// a mismatch: is it exactly one of the recorded deviations?
	quirkVivifies := false
	if !tr.WouldVivify {
		for _, q := range []struct {
			q  ref.Quirks
			id string
		}{
			{ref.Quirks{EmptyObjOnce: true}, "C01-empty-object-literal-yields-once"},
			{ref.Quirks{UnionSelfOnce: true}, "C01-union-of-self-and-self-yields-once"},
			{ref.Quirks{EmptyObjOnce: true, UnionSelfOnce: true}, "C01-empty-object-literal-yields-once"},
		} {
			qt := &ref.Trace{}
			qw, qerr := ref.Eval(e, []*ref.V{doc.Copy()}, ref.Env{T: qt, Q: q.q})
			if qt.WouldVivify {
				quirkVivifies = true // with the recorded deviation switched on, a read traversal in a writable context misses: unmodelled side effect
			}
			if (qerr != nil) != (yerr != nil) {
				continue
			}
			if qerr == nil {
				got, perr := parseResults(out)
				if perr != nil || !sameResults(qw, got) {
					continue
				}
			}
			res.Verdict, res.FindingID = mon.Finding, q.id
			res.Nontrivial = true
			return res
		}
	}
	if tr.WouldVivify || quirkVivifies {
		res.Verdict = mon.Inconclusive
		res.Tags = append(res.Tags, "vivify_unmodelled")
		return res
	}
	res.Verdict = mon.Violated
	return res
}

func hasNonFinite(vs []*ref.V) bool {
	bad := false
	for _, v := range vs {
		v.Walk(nil, func(_ []any, n *ref.V) {
			if n.K == ref.Float && (math.IsNaN(n.F) || math.IsInf(n.F, 0)) {
				bad = true
			}
		})
	}
	return bad
}
