package props

import (
	"fmt"
	"math/rand/v2"
	"strings"

	"verifharness/mon"
	"verifharness/ref"
	"verifharness/yqx"
)

// Anchored-documents family of C08: the documents of the main family are alias-free, so an operator
// that reaches the input through an alias pointer or a merge key (copies share their alias targets
// with the original) is invisible there. Here the document is block-style YAML with anchors, aliases
// and `<<` merge keys; E is drawn from a pool of read-only operators that follow aliases, merge,
// compare or serialise nodes. Oracle as in the main family: the printed document after evaluating E
// in a read-only position is byte-identical to what `yq .` prints.

func c08AnchoredDoc(r *rand.Rand) string {
	var sb strings.Builder
	useCPU := false
	sc := func() string { return []string{"1", "3", "x", "'q'", "true", "null", "2.5"}[r.IntN(7)] }
	sb.WriteString("defaults: &defaults\n")
	fmt.Fprintf(&sb, "  retries: %s\n", sc())
	if r.IntN(2) == 0 {
		fmt.Fprintf(&sb, "  nested: &nest\n    deep: %s\n    list: [1, 2]\n", sc())
	}
	if r.IntN(2) == 0 {
		// an entry without an anchor of its own that holds an anchored node and an alias of it further down
		fmt.Fprintf(&sb, "  limits:\n    cpu: &cpu %s\n    burst: *cpu\n    more:\n      again: *cpu\n", sc())
		useCPU = true
	}
	if r.IntN(2) == 0 {
		fmt.Fprintf(&sb, "other: &other\n  timeout: %s\n  retries: %s\n", sc(), sc())
	}
	sb.WriteString("service:\n")
	if r.IntN(4) > 0 {
		sb.WriteString("  <<: *defaults\n")
	} else {
		sb.WriteString("  <<: [*defaults]\n")
	}
	fmt.Fprintf(&sb, "  name: %s\n", sc())
	if r.IntN(2) == 0 {
		sb.WriteString("  inner:\n    <<: *defaults\n    k: 1\n")
	}
	fmt.Fprintf(&sb, "spec: &sp\n  a: %s\n  b: [1, 2]\n", sc())
	sb.WriteString("items:\n")
	sb.WriteString("  - &it\n    spec: *sp\n    v: 1\n")
	fmt.Fprintf(&sb, "  - spec:\n      a: %s\n      b: [1, 2]\n    v: 2\n", sc())
	if r.IntN(2) == 0 {
		sb.WriteString("  - *it\n")
	}
	if r.IntN(2) == 0 {
		sb.WriteString("  - spec: *sp\n    v: 3\n")
	}
	fmt.Fprintf(&sb, "refs:\n  - *sp\n  - %s\n  - *defaults\n", sc())
	fmt.Fprintf(&sb, "refsmap:\n  web: *defaults\n  db: *sp\n  plain: %s\n", sc())
	fmt.Fprintf(&sb, "ents:\n  - key: a\n    value: %s\n  - key: b\n", sc())
	fmt.Fprintf(&sb, "scalar: &s %s\nuse: *s\n", sc())
	// collections written in the other style than the block collections above (a sum or a copy made of both has to
	// pick one: for ITS nodes, not for the document's)
	fmt.Fprintf(&sb, "flowseq: [{v: 1, w: %s}, {v: 2}]\nflowmap: {name: web, port: %s}\n", sc(), sc())
	// scalars that carry a tag of the user's own
	sb.WriteString("sec: !secret hunter2\nenvs:\n  - !env HOME\n  - !env PATH\n  - plain\n")
	// maps without any anchor or alias whose keys are not strings / that merge an inline map: the encoders rewrite
	// keys and resolve merges on what they are given
	fmt.Fprintf(&sb, "ports:\n  80: http\n  443: %s\n  true: yes\n  2.5: half\ninl:\n  <<: {a: 1, b: %s}\n  b: 2\n", sc(), sc())
	if useCPU {
		sb.WriteString("elsewhere: *cpu\n")
	}
	return sb.String()
}

var c08AnchorPool = []string{
	// merges: plain and every flag, right operand literal or from the document
	`. * {"service": {"retries": 9}}`, `. *? {"service": {"retries": 9}}`, `. *n {"service": {"retries": 9, "zz": 1}}`,
	`. *+ {"service": {"retries": 9}}`, `. *d {"items": [{"v": 7}]}`, `. *c {"service": {"retries": 9}}`,
	`. *? {"service": {"inner": {"retries": 9}}}`, `.service * .defaults`, `.service *? {"retries": 7}`, `.service *n {"retries": 7, "nw": 1}`,
	`.items[0] * {"spec": {"a": 5}}`, `.items[0] *? {"spec": {"a": 5}}`, `.items[0] *n {"spec": {"a": 5, "zz": 1}}`, `.items[0] *d {"spec": {"b": [9]}}`,
	`.refs * [{"a": 5}]`, `.refs *d [{"a": 5}]`, `.refs *? [{"a": 5}]`, `.service + {"retries": 9}`, `.items + [.spec]`, `.refs + .items`, `.refs - [1]`,
	// sums of collections whose styles differ
	`.flowseq + .service`, `.items + .flowmap`, `.flowseq + .refsmap`, `.items + .flowseq`, `.flowseq + .items`, `.flowseq + .spec`, `.refs + .flowmap`, `.flowmap + .service`, `.service + .flowmap`,
	`.flowseq + [.service]`, `[.flowmap] + .items`,
	// reduce whose accumulator is an object literal and whose block reads below the loop variable
	// (`ro!`: only under the templates whose position is read-only - at the top level of an expression the reads below
	// the loop variable auto-create, which is the recorded deviation of the main family)
	`ro!.items[] as $u ireduce ({}; . * {"k": $u.meta.owner})`, `ro!.items[] as $u ireduce ({}; .[$u.v | tostring] = $u.meta.owner)`, `ro!.flowseq[] as $u ireduce ({}; . * {($u.v | tostring): $u.zz.deep})`,
	`ro!.refsmap[] as $u ireduce ({"n": 0}; .n += ($u.zz_missing | length))`, `ro!.items[] as $u ireduce ([]; . + [$u.spec.zz])`, `ro!.flowseq[] as $u ireduce ({}; {"last": $u.meta.owner})`,
	// conversions of scalars that carry a tag of the user's own
	`.sec | to_string`, `.sec | tostring`, `.envs | sort_by(to_string)`, `.envs[] | select(to_string == "HOME")`, `.envs | map(to_string)`, `.sec | to_number`, `.envs | map(tag)`, `.sec | upcase`, `.envs | join(",")`,
	// operators that stamp positions on their results
	`split_doc`, `.items[] | split_doc`, `[.refs[] | split_doc] | length`, `.service | split_doc | document_index`, `document_index`, `[.. | document_index] | unique`,
	// comparisons and orderings over nodes that are or contain aliases
	`.items | unique_by(.spec)`, `.items | unique`, `.items | group_by(.spec)`, `.items | sort_by(.spec)`, `.items | sort`, `.refs | unique`, `.refs | sort`,
	`.items | unique_by(.spec.a)`, `.items | map(.spec == .spec)`, `.items[0] == .items[1]`, `.refs[0] == .spec`, `.items | any_c(.spec.a == 1)`,
	`.items | contains([{"v": 1}])`, `.refs | contains([1])`, `.service | has("retries")`, `.items | min`, `.items | max`, `.refs | reverse`, `.items | flatten`,
	// serialisation inside the expression
	`to_json`, `@json`, `.items | to_json`, `.service | @json`, `.service | to_json`, `.service | to_props`, `.service | to_xml`, `.refsmap | to_json`, `.refsmap.web | @json`,
	`[.service, .refsmap] | sort_by(to_json)`, `select(.service | to_props | test("cpu"))`, `to_yaml`, `.service | to_yaml`, `to_props`, `.service | to_props`, `.items | @json`, `to_xml`,
	`.refs | @json`, `.items[] | to_json`, `.use | to_json`, `tojson`, `.service | to_entries`, `.service | with_entries(.)`, `.service | keys`, `.service | length`,
	// encoders over anchor-free maps with non-string keys / an inline merge
	`.ports | to_props`, `.ports | @props`, `.ports | to_json`, `.ports | to_xml`, `.ports | to_yaml`, `.ports | select(@props | test("https"))`, `[.ports, .flowmap] | sort_by(to_props)`,
	`.inl | to_json`, `.inl | @json`, `.inl | to_props`, `.inl | to_xml`, `.inl | @yaml`, `.inl | select(to_json | test("a"))`, `[.inl, .ports] | map(to_json)`, `.ports | keys`, `.inl | keys`, `.inl.a`,
	`.ports | to_entries`, `.ports | with_entries(.)`, `.inl | to_entries`,
	// entries: values that are aliases, entries without a value
	`.refsmap | with_entries({"key": .key, "value": .value.zz_missing})`, `.refsmap | with_entries(select(.value.zz_missing == null))`, `.refsmap | with_entries(.value |= .zz_missing)`,
	`.refsmap | to_entries | map(.value.zz_missing)`, `.refsmap | with_entries(.value = (.value.a // .value.retries))`, `.refsmap | map_values_ro`, `.refsmap | with_entries(.)`,
	`.ents | from_entries`, `[.ents[] | select(has("value"))] | from_entries`, `.ents | map(.value)`, `.ents | from_entries | keys`, `.service | with_entries(.value.zz_missing)`,
	// traversal through aliases and merge keys
	`.service.retries`, `.service.nested.deep`, `.service.inner.retries`, `.items[].spec.a`, `.items[2].v`, `.refs[0].b[0]`, `.service[]`, `.items[0][]`, `..`, `[..]`,
	`.service | pick(["retries"])`, `.service | omit(["name"])`, `.items | map(.spec.b)`, `.items | map(select(.spec.a == 1))`, `.service | map_values_ro`,
	`.items[0] | path`, `.service | parent`, `.use | alias`, `.spec | anchor`, `.items | pivot`, `.service | to_entries | from_entries`, `.items | map(.spec) | add`,
	`[.items[] | .spec * {"z": 1}]`, `.items | map(. *? {"spec": {"a": 0}})`, `.. | select(kind == "map") | length`, `.service | .[]`, `.refs[2] * {"retries": 0}`,
}

func c08AnchorCase(w *mon.Worker, r *rand.Rand) mon.Result {
	text := c08AnchoredDoc(r)
	var e string
	for {
		e = c08AnchorPool[r.IntN(len(c08AnchorPool))]
		if !strings.Contains(e, "map_values_ro") {
			break
		}
	}
	roOnly := strings.HasPrefix(e, "ro!")
	e = strings.TrimPrefix(e, "ro!")
	if r.IntN(4) == 0 {
		if e2 := c08AnchorPool[r.IntN(len(c08AnchorPool)-30)]; !strings.HasPrefix(e2, "ro!") {
			e = "(" + e + "), (" + e2 + ")"
		}
	}
	tpl := r.IntN(5)
	if roOnly {
		tpl = []int{0, 1, 3}[r.IntN(3)]
	}
	var expr string
	switch tpl {
	case 0:
		expr = "[" + e + "] as $x | ."
	case 1:
		expr = "select([" + e + "] | length > -1)"
	case 2:
		expr = "((" + e + ") | select(false)), ."
	case 3:
		expr = "select(([" + e + "] | length > -1) or true)"
	default:
		expr = "(((" + e + ") == 1) | select(false)), ."
	}
	two := false
	if r.IntN(5) == 0 && (tpl == 0 || tpl == 1 || tpl == 3) { // (read-only templates: the first document has none of the keys, reads there must not create them)
		// the document as SECOND document of a stream (its nodes carry a document index other than 0, the printer
		// separates the two by what they report)
		text = "first: 1\nitems: [1]\n---\n" + text
		two = true
	}
	res := mon.Result{Tags: []string{"tpl:anchored", fmt.Sprintf("anchored_tpl:%d", tpl)}, Case: map[string]any{"doc": text, "expr": expr}}
	if two {
		res.Tags = append(res.Tags, "second_document")
	}
	res.Sig = fmt.Sprintf("anchored|%d|%s|%x", tpl, e, hashStr(text))
	base, berr, bpan := yqx.Eval(".", text, "yaml", "yaml")
	if berr != nil || bpan != nil {
		res.Verdict, res.Detail = mon.Inconclusive, fmt.Sprintf("identity failed: %v %v", berr, bpan)
		return res
	}
	out, err, pan := yqx.Eval(expr, text, "yaml", "yaml")
	res.Evals += 2
	if pan != nil || err != nil {
		res.Verdict, res.Detail = mon.Held, "E is not defined here (error): nothing to compare"
		res.Tags = append(res.Tags, "e_failed")
		return res
	}
	res.Nontrivial = true
	if out == base {
		res.Verdict, res.Detail = mon.Held, "document unchanged"
		return res
	}
	res.Detail = fmt.Sprintf("evaluating `%s` changed the document\n--- yq . ---\n%s--- afterwards ---\n%s", expr, clipStr(base, 900), clipStr(out, 900))
	onlyAdds := subsequence(strings.Split(base, "\n"), strings.Split(out, "\n"))
	if strings.Contains(expr, " *n ") {
		// known: `*n` (only write nulls) keeps an alias of the left operand and then writes the missing keys and
		// the null values THROUGH it, in the anchored map of the input. Exact matcher: the same expression
		// with plain `*` leaves the document alone.
		alt, aerr, apan := yqx.Eval(strings.ReplaceAll(expr, " *n ", " * "), text, "yaml", "yaml")
		res.Evals++
		if aerr == nil && apan == nil && alt == base {
			res.Verdict, res.FindingID = mon.Finding, "C08-merge-n-writes-through-alias"
			return res
		}
		// both recorded deviations in one expression: with plain `*` what remains is exactly the read-traversal one
		if aerr == nil && apan == nil && (tpl == 2 || tpl == 4) && subsequence(strings.Split(base, "\n"), strings.Split(alt, "\n")) {
			bj, e1, _ := yqx.Eval(".", text, "yaml", "json")
			aj, e2, _ := yqx.Eval(strings.ReplaceAll(expr, " *n ", " * "), text, "yaml", "json")
			if e1 == nil && e2 == nil {
				bv, e3 := ref.ParseJSONStream(bj)
				av, e4 := ref.ParseJSONStream(aj)
				if e3 == nil && e4 == nil && len(bv) == 1 && len(av) == 1 && onlyVivification(bv[0], av[0]) {
					res.Verdict, res.FindingID = mon.Finding, "C08-merge-n-writes-through-alias"
					res.Tags = append(res.Tags, "both_recorded_deviations")
					return res
				}
			}
		}
	}
	if onlyAdds && (tpl == 2 || tpl == 4) {
		// known: a read traversal of a missing key in a writable context creates it (with null)
		bj, e1, _ := yqx.Eval(".", text, "yaml", "json")
		aj, e2, _ := yqx.Eval(expr, text, "yaml", "json")
		if e1 == nil && e2 == nil {
			bv, e3 := ref.ParseJSONStream(bj)
			av, e4 := ref.ParseJSONStream(aj)
			if e3 == nil && e4 == nil && len(bv) == 1 && len(av) == 1 && onlyVivification(bv[0], av[0]) {
				res.Verdict, res.FindingID = mon.Finding, "C08-read-traversal-vivifies-in-writable-context"
				return res
			}
		}
	}
	res.Verdict = mon.Violated
	return res
}
