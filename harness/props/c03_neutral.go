package props

import (
	"fmt"
	"math/rand/v2"
	"strings"

	"verifharness/gen"
	"verifharness/mon"
	"verifharness/ref"
)

// C03 family `neutralplus`: the input of del is a container that `+` produced by TAKING OVER one operand
//
//   - the other operand is neutral: an explicit null (a key whose value is null / ~ / empty, a nested one, the literal
//     `null`), an empty sequence / map (a key or a literal), or a key that is missing altogether, on either side;
//   - map + map where keys exist on both sides: the value of such a key is the right-hand one, taken over as a whole.
//
// What `+` yields in these cases is known without yq: `neutral + X` = `X + neutral` = X, map + map = the left entries
// with the values of shared keys replaced, then the new entries (computed here on the value model). The selection is
// resolved on that value (ref.Resolve) and the expected result is that value minus the selected locations
// (ref.DeletePaths). The selection aims at direct children of the result, at direct children of the value of a shared
// key, or anywhere (the general selection generator). Four ways of looking at it: the plain pipe, next to the operands
// (`[(f | del(s)), .base]`: the operand is still whole), assigned into the document, through a variable.

func c03NeutralChildren(r *rand.Rand, n int, pr gen.Profile) []*ref.V {
	var out []*ref.V
	for i := 0; i < n; i++ {
		switch r.IntN(4) {
		case 0:
			out = append(out, gen.Value(r, pr))
		default:
			out = append(out, gen.SimpleValue(r, 1))
		}
	}
	return out
}

// c03MapAdd: what `a + b` is for two maps (entries of a in order, values of shared keys from b, then b's new entries).
func c03MapAdd(a, b *ref.V) *ref.V {
	out := &ref.V{K: ref.Map, M: []ref.KV{}}
	for _, kv := range a.M {
		out.M = append(out.M, ref.KV{K: kv.K, V: kv.V.Copy()})
	}
	for _, kv := range b.M {
		if _, ok := out.Get(kv.K); ok {
			out.Set(kv.K, kv.V.Copy())
		} else {
			out.M = append(out.M, ref.KV{K: kv.K, V: kv.V.Copy()})
		}
	}
	return out
}

func c03NeutralCase(r *rand.Rand, idx int) mon.Result {
	res := mon.Result{Tags: []string{"family:neutralplus"}}
	cs := map[string]any{"family": "neutralplus"}
	res.Case = cs
	fail := func(f string, a ...any) mon.Result {
		res.Verdict = mon.Violated
		res.Detail = fmt.Sprintf(f, a...)
		return res
	}
	skip := func(d string) mon.Result {
		res.Verdict, res.Detail, res.Nontrivial = mon.Held, d, false
		res.Tags = append(res.Tags, "excluded")
		return res
	}

	pr := gen.Default()
	pr.NoBigInt, pr.SmallInts = true, true
	pr.MaxDepth = 1 + r.IntN(2)
	pr.MaxWidth = 2 + r.IntN(3)
	pr.Keys = []string{"a", "b", "c", "d", "x", "y"}
	keyPool := []string{"a", "b", "c", "d", "x", "y", "k1"}

	mkSeq := func(min int) *ref.V {
		return &ref.V{K: ref.Seq, A: c03NeutralChildren(r, min+r.IntN(4), pr)}
	}
	mkMap := func(min int) *ref.V {
		m := &ref.V{K: ref.Map, M: []ref.KV{}}
		perm := r.Perm(len(keyPool))
		n := min + r.IntN(3)
		for _, v := range c03NeutralChildren(r, n, pr) {
			m.M = append(m.M, ref.KV{K: keyPool[perm[len(m.M)]], V: v})
		}
		return m
	}
	// a container with at least two children, as the value of a shared key
	mkInner := func() *ref.V {
		if r.IntN(3) > 0 {
			return mkSeq(2)
		}
		return mkMap(2)
	}

	isSeq := r.IntN(5) < 3
	var base, other *ref.V
	shared := []string{}
	if isSeq {
		base, other = mkSeq(2), mkSeq(1)
	} else {
		base, other = mkMap(2), mkMap(1)
		// keys on both sides whose values are containers (on the right at least)
		for i := 0; i < 1+r.IntN(2); i++ {
			k := base.M[r.IntN(len(base.M))].K
			if r.IntN(2) == 0 {
				base.Set(k, mkInner())
			}
			if _, ok := other.Get(k); !ok {
				pos := r.IntN(len(other.M) + 1)
				other.M = append(other.M[:pos:pos], append([]ref.KV{{K: k, V: mkInner()}}, other.M[pos:]...)...)
			} else {
				other.Set(k, mkInner())
			}
			shared = append(shared, k)
		}
	}

	// the deriving expression and what it yields
	type deriv struct {
		expr, tag string
		val       *ref.V
		usesOther bool
	}
	emptyKey, emptyLit := ".e", "[]"
	if !isSeq {
		emptyKey, emptyLit = ".em", "{}"
	}
	kind := "seq"
	if !isSeq {
		kind = "map"
	}
	nullOperand := []string{".nul", "null", ".hold.inner", ".nul"}[r.IntN(4)]
	emptyOperand := []string{emptyKey, emptyLit}[r.IntN(2)]
	var ds []deriv
	ds = append(ds,
		deriv{nullOperand + " + .base", "null+" + kind, base, false},
		deriv{nullOperand + " + .base", "null+" + kind, base, false},
		deriv{emptyOperand + " + .base", "empty+" + kind, base, false},
		deriv{".base + " + emptyOperand, kind + "+empty", base, false},
		deriv{".missing + .base", "missing+" + kind, base, false},
		deriv{".base + .missing", kind + "+missing", base, false},
		deriv{nullOperand + " + " + emptyOperand + " + .base", "null+empty+" + kind, base, false},
	)
	if isSeq {
		cat := &ref.V{K: ref.Seq, A: append(append([]*ref.V{}, base.Copy().A...), other.Copy().A...)}
		ds = append(ds,
			deriv{".base + " + nullOperand, "seq+null", base, false},
			deriv{nullOperand + " + .base + " + nullOperand, "null+seq+null", base, false},
			deriv{nullOperand + " + .base + .other", "null+seq+seq", cat, true},
			deriv{".base + .other", "seq+seq", cat, true},
		)
	} else {
		sum := c03MapAdd(base, other)
		ds = append(ds,
			deriv{".base + .other", "map+map_shared_keys", sum, true},
			deriv{".base + .other", "map+map_shared_keys", sum, true},
			deriv{".base + .other", "map+map_shared_keys", sum, true},
			deriv{nullOperand + " + .base + .other", "null+map+map_shared_keys", sum, true},
			deriv{emptyOperand + " + .other + .base", "empty+map+map_shared_keys", c03MapAdd(other, base), true},
		)
	}
	d := ds[r.IntN(len(ds))]
	derived := d.val.Copy()
	res.Tags = append(res.Tags, "f:"+d.tag)

	// the document: the operands under keys of their own, in varying order, the null spelled in varying ways
	entries := []ref.KV{
		{K: "nul", V: ref.NullV()},
		{K: "hold", V: ref.MapV(ref.KV{K: "inner", V: ref.NullV()}, ref.KV{K: "z", V: ref.IntV(1)})},
		{K: "e", V: &ref.V{K: ref.Seq, A: []*ref.V{}}},
		{K: "em", V: &ref.V{K: ref.Map, M: []ref.KV{}}},
		{K: "base", V: base},
		{K: "other", V: other},
		{K: "keep", V: ref.IntV(1)},
	}
	r.Shuffle(len(entries), func(i, j int) { entries[i], entries[j] = entries[j], entries[i] })
	doc := ref.MapV(entries...)
	hasFloat := false
	doc.Walk(nil, func(_ []any, n *ref.V) {
		if n.K == ref.Float {
			hasFloat = true
		}
	})
	inFmt := "yaml"
	var text string
	switch f := r.IntN(5); {
	case f == 0 && !hasFloat:
		inFmt, text = "json", doc.JSON()+"\n"
		res.Tags = append(res.Tags, "input:json")
	case f == 1:
		text = doc.JSON() + "\n"
		res.Tags = append(res.Tags, "input:yaml_flow")
	default:
		// a block mapping at the top, the null spelled as an empty value / ~ / null
		spi := r.IntN(3)
		sp := []string{"", " ~", " null"}[spi]
		var sb strings.Builder
		for _, kv := range doc.M {
			if kv.K == "nul" {
				sb.WriteString(ref.QuoteJSON(kv.K) + ":" + sp + "\n")
			} else {
				sb.WriteString(ref.QuoteJSON(kv.K) + ": " + kv.V.JSON() + "\n")
			}
		}
		text = sb.String()
		res.Tags = append(res.Tags, "input:yaml_block", "null_spelled:"+[]string{"empty", "tilde", "null"}[spi])
	}
	cs["doc"] = text

	// the selection inside the derived container
	var selStr, selShape, genShape string
	var ts []ref.Target
	okSel := false
	mode := r.IntN(6)
	switch {
	case mode <= 1 && derived.K == ref.Seq:
		selStr, ts, okSel = c03SeqSelection(r, derived)
		selShape = "direct_child"
	case mode <= 1 && derived.K == ref.Map && len(derived.M) > 0:
		k1 := derived.M[r.IntN(len(derived.M))].K
		k2 := derived.M[r.IntN(len(derived.M))].K
		switch r.IntN(4) {
		case 0:
			selStr, ts = "."+k1, []ref.Target{{Path: []any{k1}}}
		case 1:
			selStr, ts = "."+k1+", ."+k2, []ref.Target{{Path: []any{k1}}, {Path: []any{k2}}}
		case 2:
			selStr, ts = `.["`+k1+`"]`, []ref.Target{{Path: []any{k1}}}
		case 3:
			if k1 == k2 {
				selStr, ts = "."+k1, []ref.Target{{Path: []any{k1}}}
				break
			}
			selStr, ts = `.["`+k1+`", "`+k2+`"]`, []ref.Target{{Path: []any{k1}}, {Path: []any{k2}}}
		}
		okSel, selShape = true, "direct_child"
	case mode <= 3 && derived.K == ref.Map:
		// a direct child of the value of one key (a shared key when there is one)
		var cands []string
		for _, k := range shared {
			if v, ok := derived.Get(k); ok && !v.IsScalar() && len(v.A)+len(v.M) > 0 {
				cands = append(cands, k)
			}
		}
		selShape = "child_of_shared_key"
		if len(cands) == 0 || !d.usesOther {
			cands = nil
			for _, kv := range derived.M {
				if !kv.V.IsScalar() && len(kv.V.A)+len(kv.V.M) > 0 {
					cands = append(cands, kv.K)
				}
			}
			selShape = "child_of_a_key"
		}
		if len(cands) == 0 {
			break
		}
		k := cands[r.IntN(len(cands))]
		v, _ := derived.Get(k)
		var inner string
		var its []ref.Target
		if v.K == ref.Seq {
			inner, its, okSel = c03SeqSelection(r, v)
		} else {
			kk := v.M[r.IntN(len(v.M))].K
			if !identOK(kk) {
				break
			}
			inner, its, okSel = "."+kk, []ref.Target{{Path: []any{kk}}}, true
		}
		if okSel {
			switch {
			case r.IntN(2) == 0 && !strings.Contains(inner, "|") && strings.HasPrefix(inner, ".["):
				selStr = "." + k + inner[1:] // .k[1], .k[0, 2]
			case r.IntN(2) == 0 && !strings.Contains(inner, "|"):
				selStr = "." + k + inner // .k.p
			default:
				selStr = "." + k + " | " + inner
			}
			for _, t := range its {
				ts = append(ts, ref.Target{Path: append([]any{k}, t.Path...)})
			}
		}
	}
	if !okSel {
		pe := c03Selection(r, derived)
		var rerr error
		ts, rerr = ref.Resolve(derived, pe, false)
		if rerr != nil {
			return skip("selection not defined on the derived container")
		}
		selStr, selShape = pe.String(), "general"
		genShape = ":" + pathShape(pe)
	}
	var del [][]any
	for _, t := range ts {
		if len(t.Path) == 0 {
			return skip("selection contains the root")
		}
		del = append(del, t.Path)
	}
	res.Tags = append(res.Tags, "sel:"+selShape)
	after := ref.DeletePaths(derived, del)

	nt := false
	for _, p := range del {
		parent, ok := derived.GetPath(p[:len(p)-1])
		if ok && (len(parent.A) > 1 || len(parent.M) > 1) {
			nt = true
		}
	}

	// the way the result is looked at
	var expr string
	var want *ref.V
	form := r.IntN(5)
	switch form {
	case 0, 1:
		form = 0
		expr, want = fmt.Sprintf("%s | del(%s)", d.expr, selStr), after
	case 2:
		if d.usesOther {
			expr, want = fmt.Sprintf("[(%s | del(%s)), .base, .other]", d.expr, selStr), ref.SeqV(after, base.Copy(), other.Copy())
		} else {
			expr, want = fmt.Sprintf("[(%s | del(%s)), .base]", d.expr, selStr), ref.SeqV(after, base.Copy())
		}
	case 3:
		expr = fmt.Sprintf(".zz_out = (%s | del(%s))", d.expr, selStr)
		want = doc.Copy()
		_ = ref.SetPath(want, []any{"zz_out"}, after)
	default:
		expr, want = fmt.Sprintf("(%s) as $v | $v | del(%s)", d.expr, selStr), after
	}
	res.Tags = append(res.Tags, fmt.Sprintf("neutral_form:%d", form))
	cs["expr"] = expr
	res.Sig = fmt.Sprintf("neutralplus|%s|%s%s|%d|%s|%x", d.tag, selShape, genShape, form, inFmt, derived.ShapeHash())

	got, all, yerr := evalTextFmt(expr, text, inFmt)
	res.Evals++
	if yerr != nil {
		return fail("`%s` failed: %v\n input %s", expr, yerr, text)
	}
	if got == nil || !ref.EqualNum(got, want) {
		return fail("`%s`\n document     %s input of del %s (= %s)\n expected     %s\n observed     %s (%d result(s))", expr, text, derived, d.expr, want, got, len(all))
	}
	res.Verdict, res.Nontrivial = mon.Held, nt
	res.Detail = fmt.Sprintf("%d location(s) removed from the result of %s", len(del), d.tag)
	return res
}
