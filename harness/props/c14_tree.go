package props

import (
	"fmt"
	"regexp"
	"strings"

	"github.com/mikefarah/yq/v4/pkg/yqlib"

	"verifharness/gen"
	"verifharness/mon"
	"verifharness/ref"
)

// C14, tree-shaped formats: XML, TOML, Lua.

// ---- XML ---------------------------------------------------------------------------------

func c14XMLPrefs(c *c14ctx, decode bool) (yqlib.XmlPreferences, ref.XMLMap, []string) {
	p := yqlib.NewDefaultXmlPreferences()
	m := ref.DefaultXMLMap()
	var flags []string
	if c.ch(3) == 0 {
		p.AttributePrefix = []string{"@", "-", "+", "attr."}[c.ch(4)]
		m.AttrPrefix = p.AttributePrefix
		flags = append(flags, "--xml-attribute-prefix="+p.AttributePrefix)
		c.tag("pref:xml-attribute-prefix")
	}
	if c.ch(3) == 0 {
		p.ContentName = []string{"#text", "+t", "$"}[c.ch(3)]
		m.ContentName = p.ContentName
		flags = append(flags, "--xml-content-name="+p.ContentName)
		c.tag("pref:xml-content-name")
	}
	if decode {
		if c.ch(6) == 0 {
			p.SkipProcInst, m.SkipProcInst = true, true
			flags = append(flags, "--xml-skip-proc-inst")
			c.tag("pref:xml-skip-proc-inst")
		}
		if c.ch(6) == 0 {
			p.SkipDirectives, m.SkipDirective = true, true
			flags = append(flags, "--xml-skip-directives")
			c.tag("pref:xml-skip-directives")
		}
		if c.ch(8) == 0 {
			p.KeepNamespace, m.DropAttrPrefix = false, true
			flags = append(flags, "--xml-keep-namespace=false")
			c.tag("pref:xml-keep-namespace=false")
		}
	} else if c.ch(2) == 0 {
		p.Indent = []int{0, 1, 4, 8}[c.ch(4)]
		flags = append(flags, fmt.Sprintf("-I%d", p.Indent))
		c.tag("pref:indent")
	}
	return p, m, flags
}

// c14XMLCanon brings a value of the XML domain into the order an XML reader can recover:
// attributes first (they live in the start tag), everything else in place; scalars become their
// text; content of elements that also have child elements is compared modulo surrounding blanks.
func c14XMLCanon(v *ref.V, m ref.XMLMap, top bool) *ref.V {
	switch v.K {
	case ref.Seq:
		out := &ref.V{K: ref.Seq, A: []*ref.V{}}
		for _, e := range v.A {
			out.A = append(out.A, c14XMLCanon(e, m, false))
		}
		return out
	case ref.Map:
		out := &ref.V{K: ref.Map, M: []ref.KV{}}
		isAttr := func(k string) bool {
			return !top && strings.HasPrefix(k, m.AttrPrefix) && k != m.ContentName && k != m.DirectiveName && !strings.HasPrefix(k, m.ProcInstPfx)
		}
		for _, e := range v.M {
			if !top && e.K == m.ContentName {
				out.M = append(out.M, ref.KV{K: e.K, V: ref.StrV(strings.Trim(c14ScalarText(e.V), " \t\r\n"))})
			}
		}
		for _, e := range v.M {
			if isAttr(e.K) {
				out.M = append(out.M, ref.KV{K: e.K, V: ref.StrV(c14ScalarText(e.V))})
			}
		}
		for _, e := range v.M {
			if !isAttr(e.K) && (top || e.K != m.ContentName) {
				out.M = append(out.M, ref.KV{K: e.K, V: c14XMLCanon(e.V, m, false)})
			}
		}
		return out
	}
	return ref.StrV(c14ScalarText(v))
}

func c14Shuffle(c *c14ctx, v *ref.V, top bool) {
	switch v.K {
	case ref.Map:
		if !top && len(v.M) > 1 {
			c.r.Shuffle(len(v.M), func(i, j int) { v.M[i], v.M[j] = v.M[j], v.M[i] })
		}
		for _, e := range v.M {
			c14Shuffle(c, e.V, false)
		}
	case ref.Seq:
		for _, e := range v.A {
			c14Shuffle(c, e, false)
		}
	}
}

func c14XMLEncode(c *c14ctx) {
	prefs, m, flags := c14XMLPrefs(c, false)
	v, tags := gen.C14XMLValue(c.r, m, true, false)
	c.tag(c14Prefix("xml:", tags)...)
	if c.ch(3) == 0 {
		c14Shuffle(c, v, true)
		c.tag("xml:noncanonical_key_order")
	}
	input := v.JSON()
	c.cs["input"] = input
	c.cs["flags"] = flags
	c.sig = fmt.Sprintf("%x", v.ShapeHash())
	c.nt = c.tags["xml:attrs"] || c.tags["xml:nesting"] || c.tags["xml:entities"] || c.tags["xml:repeated_children"] || c.tags["xml:content"]
	c.tag("fmt:xml:encode")
	text, ok := c.evalOK("xml encode", ".", input, c14YAMLDec(), yqlib.NewXMLEncoder(prefs))
	if !ok {
		return
	}
	c.cs["yq_output"] = clipStr(text, 1500)
	if c.bin && !c.sameAsBinary(text, input, append([]string{"-o=xml"}, append(flags, ".")...)...) {
		return
	}
	if c.bin || (len(flags) > 0 && !c.w.Race) {
		// the in-expression encoder works from the same preferences as -o=xml: same text
		ind := 2
		var fl []string
		for _, f := range flags {
			if strings.HasPrefix(f, "-I") {
				fmt.Sscanf(f, "-I%d", &ind)
				continue
			}
			fl = append(fl, f)
		}
		ex := fmt.Sprintf("to_xml(%d)", ind)
		if ind == 2 && c.ch(2) == 0 {
			ex = []string{"to_xml", "@xml"}[c.ch(2)]
		}
		if ex == "@xml" {
			ind = 0
		}
		if o, serr, exit, ok := c.binary(input, append(fl, ex)...); ok {
			c.tag("xml:in_expression_encoder")
			want := text
			if ex == "@xml" {
				w0, ok0 := c.evalOK("xml encode -I0", ".", input, c14YAMLDec(), func() yqlib.Encoder { q := prefs; q.Indent = 0; return yqlib.NewXMLEncoder(q) }())
				if !ok0 {
					return
				}
				want = w0
			}
			if exit != 0 || strings.TrimRight(o, "\n") != strings.TrimRight(want, "\n") {
				c.violated("yq %s '%s' (exit %d, %s) does not print what -o=xml prints for the same preferences\n-o=xml:\n%s\n%s:\n%s\ninput: %s",
					strings.Join(fl, " "), ex, exit, clipStr(serr, 200), clipStr(want, 700), ex, clipStr(o, 700), clipStr(input, 500))
				return
			}
		}
	}
	tree, err := ref.XMLParse(text)
	if err != nil {
		c.violated("yq -o=xml output is not well-formed XML: %v\noutput: %s\ninput: %s", err, clipStr(text, 800), clipStr(input, 600))
		return
	}
	rd := m
	rd.Decode = false
	got := rd.ToV(tree)
	want := c14XMLCanon(v, m, true)
	if ref.Equal(got, want) {
		c.held("element tree read back: %s", clipStr(want.JSON(), 300))
		return
	}
	c.violated("an independent XML reader does not read yq's output back to the value\nexpected: %s\nread:     %s\nyq output: %s\ninput: %s",
		clipStr(want.JSON(), 800), clipStr(got.JSON(), 800), clipStr(text, 800), clipStr(input, 600))
}

func c14Prefix(p string, tags []string) []string {
	out := make([]string, len(tags))
	for i, t := range tags {
		out[i] = p + t
	}
	return out
}

func c14XMLDecode(c *c14ctx) {
	prefs, m, flags := c14XMLPrefs(c, true)
	m.Decode = true
	opts := gen.C14XMLOpts{CData: c.ch(2) == 0, Comments: c.ch(2) == 0, ProcInst: c.ch(3) == 0, Mixed: c.ch(3) == 0, Prefixed: c.ch(20) == 0}
	tree, tags := gen.C14XMLTree(c.r, opts)
	c.tag(c14Prefix("xml:", tags)...)
	st := &ref.XMLStyle{Choose: c.ch, Indent: c.ch(2) == 0}
	text := ref.XMLWrite(tree, st)
	want := m.ToV(tree)
	c.cs["input"] = text
	c.cs["flags"] = flags
	c.sig = fmt.Sprintf("%x", want.ShapeHash())
	c.nt = c.tags["xml:attrs"] || c.tags["xml:nesting"] || c.tags["xml:entities"] || c.tags["xml:repeated_children"] || c.tags["xml:cdata"] || c.tags["xml:mixed_content"]
	c.tag("fmt:xml:decode")
	// the harness's own reader must agree with the harness's writer
	if back, err := ref.XMLParse(text); err != nil {
		c.incon("generator disagreement: the harness's XML reader rejects the harness's writer: %v\ntext: %s", err, clipStr(text, 600))
		return
	} else if bv := m.ToV(back); !ref.Equal(bv, want) {
		c.incon("generator disagreement: tree as written %s, tree as read back %s\ntext: %s", clipStr(want.JSON(), 300), clipStr(bv.JSON(), 300), clipStr(text, 600))
		return
	}
	out, ok := c.evalOK("xml decode", ".", text, yqlib.NewXMLDecoder(prefs), c14JSONEnc())
	if !ok {
		return
	}
	if c.bin && !c.sameAsBinary(out, text, append([]string{"-p=xml", "-o=json", "-I0"}, append(flags, ".")...)...) {
		return
	}
	got, ok := c14OneJSON(c, "xml decode", out)
	if !ok {
		return
	}
	if ref.Equal(got, want) {
		c.held("decoded to %s", clipStr(want.JSON(), 300))
		return
	}
	if c.tags["xml:prefixed_element"] {
		q := m
		q.QuirkDropElemPrefix = true
		if ref.Equal(got, q.ToV(tree)) {
			c.finding("C14-xml-element-prefix-dropped", "element names lose their namespace prefix\nexpected: %s\ngot:      %s\ntext: %s", clipStr(want.JSON(), 400), clipStr(got.JSON(), 400), clipStr(text, 500))
			return
		}
	}
	c.violated("yq -p=xml does not yield the value the text denotes\nexpected: %s\ngot:      %s\ntext: %s", clipStr(want.JSON(), 800), clipStr(got.JSON(), 800), clipStr(text, 800))
}

func c14XMLPair(c *c14ctx) {
	m := ref.DefaultXMLMap()
	v, tags := gen.C14XMLValue(c.r, m, false, true)
	c.tag(c14Prefix("xml:", tags)...)
	expr := []string{"to_xml | from_xml", "@xml | @xmld", "to_xml(0) | from_xml", "to_xml(4) | from_xml"}[c.ch(4)]
	input := v.JSON()
	c.cs["input"] = input
	c.cs["expr"] = expr
	c.sig = fmt.Sprintf("%x", v.ShapeHash())
	c.nt = c.tags["xml:attrs"] || c.tags["xml:nesting"] || c.tags["xml:entities"] || c.tags["xml:repeated_children"] || c.tags["xml:content"]
	c.tag("pair:" + strings.ReplaceAll(expr, " ", ""))
	var out string
	if c.bin {
		o, serr, exit, ok := c.binary(input, "-o=json", "-I0", expr)
		if !ok {
			return
		}
		if exit != 0 {
			c.violated("yq -o=json '%s' failed: exit=%d %s\ninput: %s", expr, exit, clipStr(serr, 300), clipStr(input, 500))
			return
		}
		out = o
	} else {
		o, ok := c.evalOK(expr, expr, input, c14YAMLDec(), c14JSONEnc())
		if !ok {
			return
		}
		out = o
	}
	got, ok := c14OneJSON(c, expr, out)
	if !ok {
		return
	}
	if ref.Equal(got, v) {
		c.held("identity on %s", clipStr(input, 200))
		return
	}
	c.violated("%s is not the identity\nexpected: %s\ngot:      %s", expr, clipStr(v.JSON(), 800), clipStr(got.JSON(), 800))
}

// ---- TOML --------------------------------------------------------------------------------

const c14PyTOML = `import sys,tomllib,json,datetime
def c(o):
    if isinstance(o,dict): return {k:c(v) for k,v in o.items()}
    if isinstance(o,list): return [c(v) for v in o]
    if isinstance(o,(datetime.datetime,datetime.date,datetime.time)): return "<dt>"
    return o
try:
    d=tomllib.loads(sys.stdin.buffer.read().decode("utf-8"))
except Exception as e:
    print("ERR",e); sys.exit(3)
print(json.dumps(c(d),ensure_ascii=False))
`

// c14DTMark replaces date-time literals (carried as strings) by the marker python prints.
func c14DTMark(v *ref.V, dts map[string]bool) *ref.V {
	switch v.K {
	case ref.Map:
		out := &ref.V{K: ref.Map, M: []ref.KV{}}
		for _, e := range v.M {
			out.M = append(out.M, ref.KV{K: e.K, V: c14DTMark(e.V, dts)})
		}
		return out
	case ref.Seq:
		out := &ref.V{K: ref.Seq, A: []*ref.V{}}
		for _, e := range v.A {
			out.A = append(out.A, c14DTMark(e, dts))
		}
		return out
	case ref.Str:
		if dts[v.S] {
			return ref.StrV("<dt>")
		}
	}
	return v
}

// c14TomllibAgrees: 1 = python agrees with the ground truth, 0 = python unavailable, -1 = disagreement (case decided).
func c14TomllibAgrees(c *c14ctx, text string, want *ref.V, dts []string) int {
	res := mon.Run(mon.RunOpts{Dir: c.w.Scratch, Stdin: []byte(text)}, "/usr/bin/python3", "-c", c14PyTOML)
	if res.TimedOut || res.Exit == -2 || (res.Exit != 0 && res.Exit != 3) {
		c.tag("toml:tomllib_unavailable")
		return 0
	}
	c.tag("toml:tomllib_checked")
	if res.Exit == 3 {
		c.incon("generator disagreement: python tomllib rejects the harness's TOML text: %s\ntext: %s", clipStr(string(res.Stdout), 200), clipStr(text, 700))
		return -1
	}
	pv, err := ref.ParseJSON(strings.TrimSpace(string(res.Stdout)))
	if err != nil {
		c.incon("cannot parse tomllib's answer: %v", err)
		return -1
	}
	set := map[string]bool{}
	for _, d := range dts {
		set[d] = true
	}
	if !c14Eq(pv, c14DTMark(want, set), false) {
		c.incon("generator disagreement: python tomllib reads %s, the harness's TOML semantics say %s\ntext: %s", clipStr(pv.JSON(), 400), clipStr(want.JSON(), 400), clipStr(text, 600))
		return -1
	}
	return 1
}

var c14TomlErr = map[gen.C14TOMLFeature]*regexp.Regexp{
	gen.TFBinaryInt:               regexp.MustCompile(`strconv\.ParseInt: parsing "0b[01]+": invalid syntax`),
	gen.TFLocalDateTime:           regexp.MustCompile(`unsupported type Local(Date|Time|DateTime)`),
	gen.TFDateTimeVariant:         regexp.MustCompile(`parsing time "[^"]*"`),
	gen.TFSubtableUnderArrayTable: regexp.MustCompile(`cannot index array with '`),
}

var c14TomlID = map[gen.C14TOMLFeature]string{
	gen.TFEmptyTableBeforeHeader:  "C14-toml-empty-table-dropped",
	gen.TFSubtableUnderArrayTable: "C14-toml-subtable-under-array-table",
	gen.TFBinaryInt:               "C14-toml-binary-int",
	gen.TFLocalDateTime:           "C14-toml-datetime-forms",
	gen.TFDateTimeVariant:         "C14-toml-datetime-forms",
	gen.TFInlineDottedShared:      "C14-toml-inline-dotted-clobber",
}

func c14TOMLDecode(c *c14ctx) {
	feat := gen.TFNone
	if c.ch(7) == 0 {
		feat = gen.C14TOMLFeature(1 + c.ch(int(gen.TFCount)-1))
	}
	stmts, tags, placed, dts := gen.C14TOMLDoc(c.r, feat)
	c.tag(c14Prefix("toml:", tags)...)
	if placed {
		c.tag("toml:feature:" + feat.String())
	} else {
		feat = gen.TFNone
	}
	text := ref.TOMLWrite(stmts, &ref.TOMLStyle{Choose: c.ch})
	c.cs["input"] = text
	c.tag("fmt:toml:decode")
	want, err := ref.TOMLBuild(stmts, ref.TOMLQuirks{})
	if err != nil {
		c.incon("generator produced a document its own semantics reject: %v\ntext: %s", err, clipStr(text, 600))
		return
	}
	c.sig = fmt.Sprintf("%x", want.ShapeHash())
	c.nt = len(tags) > 0
	checked := 0
	if c.idx%3 == 0 {
		if checked = c14TomllibAgrees(c, text, want, dts); checked < 0 {
			return
		}
	}
	confirm := func() bool {
		// before blaming yq, make sure the ground truth is what an independent TOML reader says
		if checked == 0 {
			checked = c14TomllibAgrees(c, text, want, dts)
		}
		return checked >= 0
	}
	out, yerr, pan := c.eval(".", text, yqlib.NewTomlDecoder(), c14JSONEnc())
	if pan != nil {
		if confirm() {
			c.violated("yq -p=toml panicked on a valid document: %s\n%s\ntext: %s", pan.Value, clipStr(pan.Stack, 500), clipStr(text, 700))
		}
		return
	}
	if yerr != nil {
		if !confirm() {
			return
		}
		if re := c14TomlErr[feat]; re != nil && re.MatchString(yerr.Error()) {
			c.finding(c14TomlID[feat], "valid TOML (%s) rejected: %v\ntext: %s", feat, yerr, clipStr(text, 500))
			return
		}
		c.violated("yq -p=toml rejects a valid document: %v\ntext: %s", yerr, clipStr(text, 800))
		return
	}
	if c.bin && !c.sameAsBinary(out, text, "-p=toml", "-o=json", "-I0", ".") {
		return
	}
	var got *ref.V
	if strings.TrimSpace(out) == "" && len(want.M) == 0 {
		got = want
	} else {
		g, ok := c14OneJSON(c, "toml decode", out)
		if !ok {
			return
		}
		got = g
	}
	if c14Eq(got, want, false) {
		c.held("decoded to %s", clipStr(want.JSON(), 300))
		return
	}
	if !confirm() {
		return
	}
	var q ref.TOMLQuirks
	switch feat {
	case gen.TFEmptyTableBeforeHeader:
		q.DropEmptyTableBeforeHeader = true
	case gen.TFInlineDottedShared:
		q.InlineDottedReplace = true
	}
	// (keys with `*` / `?` used to be decoded as patterns: repaired in /repo, no longer excused)
	if q != (ref.TOMLQuirks{}) {
		if qv, err := ref.TOMLBuild(stmts, q); err == nil && c14Eq(c14Dedupe(got), c14Dedupe(qv), false) {
			c.finding(c14TomlID[feat], "TOML feature %s is decoded wrongly\nexpected: %s\ngot:      %s\ntext: %s", feat, clipStr(want.JSON(), 500), clipStr(got.JSON(), 500), clipStr(text, 600))
			return
		}
	}
	c.violated("yq -p=toml does not yield the value the document denotes\nexpected: %s\ngot:      %s\ntext: %s", clipStr(want.JSON(), 900), clipStr(got.JSON(), 900), clipStr(text, 900))
}

// c14Dedupe collapses repeated keys of a map (first position, last value): how a reader of the
// JSON text sees an object that yq printed with the same key twice.
func c14Dedupe(v *ref.V) *ref.V {
	switch v.K {
	case ref.Map:
		out := &ref.V{K: ref.Map, M: []ref.KV{}}
		for _, e := range v.M {
			out.Set(e.K, c14Dedupe(e.V))
		}
		return out
	case ref.Seq:
		out := &ref.V{K: ref.Seq, A: []*ref.V{}}
		for _, e := range v.A {
			out.A = append(out.A, c14Dedupe(e))
		}
		return out
	}
	return v
}

// ---- Lua ---------------------------------------------------------------------------------

func c14LuaTags(c *c14ctx, v *ref.V) {
	v.Walk(nil, func(path []any, n *ref.V) {
		switch n.K {
		case ref.Map:
			if len(path) > 0 {
				c.tag("lua:nesting")
			}
			for _, e := range n.M {
				if ref.LuaIsKeyword(e.K) {
					c.tag("lua:keyword_key")
				} else if !ref.LuaIsIdent(e.K) {
					c.tag("lua:non_identifier_key")
				}
			}
		case ref.Seq:
			if len(path) > 0 {
				c.tag("lua:nesting")
			}
			if len(n.A) == 0 {
				c.tag("lua:empty_table")
			}
		case ref.Str:
			if strings.ContainsAny(n.S, "\"'\\") {
				c.tag("lua:escape_quote_backslash")
			}
			for _, r := range n.S {
				if r < 0x20 || r == 0x7f {
					c.tag("lua:escape_ctl")
				}
			}
		case ref.Float:
			c.tag("lua:float")
		}
	})
}

func c14LuaEncode(c *c14ctx) {
	prefs := yqlib.NewDefaultLuaPreferences()
	var flags []string
	v := gen.C14LuaValue(c.r, 3, true)
	switch c.ch(4) {
	case 0:
		prefs.UnquotedKeys = true
		flags = append(flags, "--lua-unquoted")
		c.tag("pref:lua-unquoted")
	case 1:
		prefs.Globals = true
		flags = append(flags, "--lua-globals")
		c.tag("pref:lua-globals")
		if v.K != ref.Map || len(v.M) == 0 {
			v = ref.MapV(ref.KV{K: "root", V: v}, ref.KV{K: "end", V: ref.IntV(1)})
		}
		// nil cannot be a global's value
		for i := range v.M {
			if v.M[i].V.K == ref.Null {
				v.M[i].V = ref.BoolV(false)
			}
		}
	}
	input := v.JSON()
	if !prefs.Globals && c.ch(4) == 0 {
		// YAML input with literal block scalars: the encoder writes those as Lua long brackets
		v, input = c14LuaBlockDoc(c)
		c.tag("lua:long_bracket_strings")
	}
	c.cs["input"] = input
	c.cs["flags"] = flags
	c.sig = fmt.Sprintf("%x", v.ShapeHash())
	c.tag("fmt:lua:encode")
	c14LuaTags(c, v)
	c.nt = c.tags["lua:nesting"] || c.tags["lua:keyword_key"] || c.tags["lua:non_identifier_key"] || c.tags["lua:escape_quote_backslash"] || c.tags["lua:escape_ctl"] || c.tags["lua:long_bracket_strings"]
	text, ok := c.evalOK("lua encode", ".", input, c14YAMLDec(), yqlib.NewLuaEncoder(prefs))
	if !ok {
		return
	}
	c.cs["yq_output"] = clipStr(text, 1500)
	if c.bin && !c.sameAsBinary(text, input, append([]string{"-o=lua"}, append(flags, ".")...)...) {
		return
	}
	got, err := ref.LuaRun(text, prefs.Globals)
	if err != nil && (prefs.UnquotedKeys || prefs.Globals) && c14HasEmptyKey(v, prefs.Globals) && c14LuaBareAssign.MatchString(text) {
		c.finding("C14-lua-unquoted-empty-key", "the empty key is written as a bare name: %v\noutput: %s", err, clipStr(text, 500))
		return
	}
	if err != nil && c.tags["lua:long_bracket_strings"] && c14LuaEarlyClose(v) && strings.Contains(err.Error(), "syntax error") {
		c.finding("C14-lua-long-bracket-early-close", "a block scalar ending in ']' (or ']=' ...) is written as a long bracket that closes too early: %v\noutput: %s", err, clipStr(text, 500))
		return
	}
	if err != nil {
		c.violated("yq -o=lua output does not run in a Lua interpreter: %v\noutput: %s\ninput: %s", err, clipStr(text, 800), clipStr(input, 600))
		return
	}
	want := ref.LuaNormalize(v)
	if c14Eq(got, want, true) {
		c.held("executed by gopher-lua and walked back to %s", clipStr(want.JSON(), 300))
		return
	}
	c.violated("executing yq's -o=lua output does not give the value\nexpected: %s\nlua has:  %s\noutput: %s\ninput: %s", clipStr(want.JSON(), 800), clipStr(got.JSON(), 800), clipStr(text, 800), clipStr(input, 600))
}

// c14LuaBlockDoc: a flat map of multi-line strings written as YAML literal block scalars.
func c14LuaBlockDoc(c *c14ctx) (*ref.V, string) {
	lines := []string{"line one", "second line", "x = [[nested]]", "ends with ]", "]]", "]=]", "a ]==] b", "-- not a comment", "\\n stays", "\"quoted\" 'both'", "tab\there", "é 日本 😀", "#hash", "key: value", "- item", "[1]", "{}"}
	v := &ref.V{K: ref.Map, M: []ref.KV{}}
	var sb strings.Builder
	n := 1 + c.ch(3)
	for i := 0; i < n; i++ {
		k := fmt.Sprintf("k%d", i)
		nl := 1 + c.ch(4)
		var ls []string
		for j := 0; j < nl; j++ {
			ls = append(ls, lines[c.ch(len(lines))])
			if c.ch(6) == 0 {
				ls = append(ls, "") // blank line inside
			}
		}
		for len(ls) > 0 && ls[len(ls)-1] == "" {
			ls = ls[:len(ls)-1]
		}
		if c.ch(3) == 0 {
			// the text starts with empty lines (Lua drops ONE line break directly after an opening long bracket)
			ls = append(make([]string, 1+c.ch(2)), ls...)
			c.tag("lua:long_bracket_leading_newline")
		}
		s := strings.Join(ls, "\n")
		ind := "|-"
		if c.ch(2) == 0 {
			ind = "|"
			s += "\n"
		}
		sb.WriteString(k + ": " + ind + "\n")
		for _, l := range ls {
			if l == "" {
				sb.WriteString("\n")
			} else {
				sb.WriteString("  " + l + "\n")
			}
		}
		v.M = append(v.M, ref.KV{K: k, V: ref.StrV(s)})
	}
	return v, sb.String()
}

// c14LuaEarlyClose: some string, written with the bracket level the encoder picks (the lowest level
// whose closing bracket does not occur in the string), runs into its closing bracket: s+close
// contains close before the end of s.
func c14LuaEarlyClose(v *ref.V) bool {
	found := false
	v.Walk(nil, func(_ []any, n *ref.V) {
		if n.K != ref.Str {
			return
		}
		for lvl := 0; lvl < 10; lvl++ {
			cl := "]" + strings.Repeat("=", lvl) + "]"
			if strings.Contains(n.S, cl) {
				continue
			}
			if i := strings.Index(n.S+cl, cl); i >= 0 && i < len(n.S) {
				found = true
			}
			return
		}
	})
	return found
}

var c14LuaBareAssign = regexp.MustCompile(`(?m)^\t* = `)

// c14HasEmptyKey: a map with the key "" in a position where the encoder considers leaving quotes off
// (every map with --lua-unquoted, the top-level map with --lua-globals).
func c14HasEmptyKey(v *ref.V, globalsOnly bool) bool {
	found := false
	v.Walk(nil, func(path []any, n *ref.V) {
		if n.K == ref.Map && (!globalsOnly || len(path) == 0) {
			if _, ok := n.Get(""); ok {
				found = true
			}
		}
	})
	return found
}

func c14LuaDecode(c *c14ctx) {
	v := gen.C14LuaValue(c.r, 3, false)
	st := &ref.LuaStyle{Choose: c.ch}
	if c.ch(4) == 0 && v.K == ref.Map {
		// make the value fit the globals form: identifier keys only
		c14RenameKeys(v, func(k string) string {
			if ref.LuaIsIdent(k) && k != "_ENV" {
				return k
			}
			return "g_" + fmt.Sprintf("%x", hashStr(k)%0xffff)
		})
	}
	if v.K == ref.Map && len(v.M) > 0 && c.ch(2) == 0 {
		ok := true
		for _, e := range v.M {
			ok = ok && ref.LuaIsIdent(e.K) && e.K != "_ENV"
		}
		if ok {
			st.Globals = true
			c.tag("lua:globals_form")
		}
	}
	text := ref.LuaWrite(v, st)
	c.cs["input"] = text
	c.sig = fmt.Sprintf("%x", v.ShapeHash())
	c.tag("fmt:lua:decode")
	c14LuaTags(c, v)
	c.nt = c.tags["lua:nesting"] || c.tags["lua:keyword_key"] || c.tags["lua:non_identifier_key"] || c.tags["lua:escape_quote_backslash"] || c.tags["lua:escape_ctl"] || c.tags["lua:long_bracket_strings"]
	want := ref.LuaNormalize(v)
	if back, err := ref.LuaRun(text, st.Globals); err != nil || !c14Eq(back, want, true) {
		bs := ""
		if back != nil {
			bs = back.JSON()
		}
		c.incon("generator disagreement: executing the harness's Lua text gives %s (%v), ground truth %s\ntext: %s", clipStr(bs, 300), err, clipStr(want.JSON(), 300), clipStr(text, 600))
		return
	}
	out, ok := c.evalOK("lua decode", ".", text, yqlib.NewLuaDecoder(yqlib.NewDefaultLuaPreferences()), c14JSONEnc())
	if !ok {
		return
	}
	if c.bin && !c.sameAsBinary(out, text, "-p=lua", "-o=json", "-I0", ".") {
		return
	}
	got, ok := c14OneJSON(c, "lua decode", out)
	if !ok {
		return
	}
	if c14Eq(got, want, true) {
		c.held("decoded to %s", clipStr(want.JSON(), 300))
		return
	}
	c.violated("yq -p=lua does not yield the value the chunk denotes\nexpected: %s\ngot:      %s\ntext: %s", clipStr(want.JSON(), 800), clipStr(got.JSON(), 800), clipStr(text, 800))
}
