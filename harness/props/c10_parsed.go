package props

import (
	"fmt"
	"gopkg.in/yaml.v3"
	"math/rand/v2"
	"strings"

	"verifharness/mon"
)

const (
	c10FindingD = "C10-comment-before-leading-separator-in-later-file-adds-document"
	c10FindingE = "C10-comments-of-scalar-documents-dropped-after-first-document"
)

// ---- O4: identity keeps N documents --------------------------------------------------------------

func c10GenIdentity(r *rand.Rand) c10Case {
	c := c10Case{Family: "O4-identity", Expr: "."}
	if r.IntN(2) == 0 {
		c.Files = c10PlainFiles(r, []string{"map", "seq", "any"}[r.IntN(3)], true)
		// a scalar at the root is printed unwrapped (raw text: may itself look like `---`, a comment, or
		// hold characters YAML cannot carry): counting documents in such output is not C10's business
		for i := range c.Files {
			f := &c.Files[i]
			for j, d := range f.Docs {
				if !strings.HasPrefix(d, "{") && !strings.HasPrefix(d, "[") {
					nl := ""
					if strings.HasSuffix(d, "\n") {
						nl = "\n"
					}
					f.Docs[j] = "[" + strings.TrimSuffix(d, "\n") + "]" + nl
				}
			}
			f.Text = strings.Join(f.Docs, "---\n")
		}
		return c
	}
	rich := c10RichFiles(r, true)
	// comment-only files have no YAML document count of their own (position dependent): not here
	var keep []c10RichFile
	for _, f := range rich {
		if !f.CommentOnlyFile {
			keep = append(keep, f)
		}
	}
	if len(keep) == 0 {
		keep = rich[:0]
		f := c10RichFile{}
		f.Name, f.Text, f.Docs, f.Kinds = "only.yaml", "a: 1\n", []string{"a: 1\n"}, []string{"rich-map"}
		f.Rich = []c10RichDoc{{Kind: "content", Body: "map", Solo: "a: 1\n"}}
		keep = append(keep, f)
	}
	c.rich = keep
	c.Files = c10Plain(keep)
	return c
}

func (p c10) runIdentity(x *c10Exec, c *c10Case) c10Verdict {
	names, stdin, err := c10Write(x, c.Files)
	if err != nil {
		return c10Verdict{Verdict: mon.Inconclusive, Detail: "cannot write case files: " + err.Error()}
	}
	// the harness's own reader must agree with the generator about how many documents each file holds
	n := 0
	for _, f := range c.Files {
		docs, perr := c10ParseStream(f.Text)
		if perr != nil || len(docs) != len(f.Docs) {
			return c10Verdict{Verdict: mon.Inconclusive, Tags: []string{"generator_disagreement"},
				Detail: fmt.Sprintf("yaml.v3 reads %d documents (err=%v) in a file generated with %d: %q", len(docs), perr, len(f.Docs), f.Text)}
		}
		n += len(f.Docs)
	}
	var tags []string
	for _, all := range []bool{false, true} {
		fl := c10Flags{All: all}
		c.Cmd = c10CmdLine(".", names, fl)
		o := x.run(".", names, fl, stdin)
		if o.TimedOut {
			return c10Verdict{Verdict: mon.Inconclusive, Detail: "timed out"}
		}
		if o.Failed {
			return c10Verdict{Verdict: mon.Violated, Detail: fmt.Sprintf("[%s] %s failed: %s", x.kind(), c.Cmd, c10Clip(o.Stderr))}
		}
		got, perr := c10ParseStream(o.Stdout)
		if perr != nil && c10HasScalarRoot(c.Files) {
			// a document whose root is a scalar is printed as the bare value (documented unwrapping; C05's recorded
			// deviation): a string root that needs quotes to be read back (control characters, `: `) makes the stream
			// unreadable as YAML. What that means for the document count cannot be decided from the text.
			return c10Verdict{Verdict: mon.Inconclusive, Tags: []string{"unwrapped_scalar_root_unreadable"}, Detail: "a scalar root printed bare makes the output unreadable for the independent reader: " + perr.Error()}
		}
		if perr != nil {
			return c10Verdict{Verdict: mon.Violated, Detail: fmt.Sprintf("[%s] %s printed a stream yaml.v3 cannot read (%v): %s", x.kind(), c.Cmd, perr, c10Clip(o.Stdout))}
		}
		if len(got) == n {
			// a comment written before the leading `---` of a file belongs to that file: it must not end up in
			// (the text region of) a document of the file before it
			if c.rich != nil {
				at := 0
				for _, f := range c.rich {
					if len(f.Prelude) > 0 && len(f.Docs) > 0 {
						want := strings.Join(f.Prelude, "\n")
						for i, d := range got {
							if strings.Contains(strings.Join(d.Comments, "\n"), want) && i != at {
								return c10Verdict{Verdict: mon.Violated, Detail: fmt.Sprintf("[%s] %s: the comment %q written before the leading `---` of %s ends up in output document %d, the file's first document is number %d\noutput: %s", x.kind(), c.Cmd, want, f.Name, i, at, c10Clip(o.Stdout))}
							}
						}
					}
					at += len(f.Docs)
				}
			}
			continue
		}
		v := c10Verdict{Verdict: mon.Violated, Detail: fmt.Sprintf("[%s] %s: %d input documents, %d output documents\noutput: %s", x.kind(), c.Cmd, n, len(got), c10Clip(o.Stdout))}
		// finding D: a later file that starts with comment lines followed by an explicit `---`: the printer
		// emits its own separator first, so the comment becomes an extra (empty) document
		if !all && c.rich != nil {
			var slots []string // "" = ordinary document, otherwise the prelude comment of an extra document
			printed := false
			for _, f := range c.rich {
				if len(f.Prelude) > 0 && printed {
					slots = append(slots, strings.Join(f.Prelude, "\n"))
				}
				for range f.Docs {
					slots = append(slots, "")
					printed = true
				}
			}
			if len(slots) == len(got) && len(slots) > n {
				ok := true
				for i, s := range slots {
					if s != "" && (got[i].Data != c10NullData || strings.Join(got[i].Comments, "\n") != s) {
						ok = false
					}
				}
				if ok {
					v.Verdict, v.Finding = mon.Finding, c10FindingD
				}
			}
		}
		return v
	}
	tags = append(tags, fmt.Sprintf("identity-docs:%d", min(n, 9)))
	return c10Held(fmt.Sprintf("%d documents in, %d out (eval and eval-all)", n, n), tags...)
}

// ---- O2: comment / separator laden files, parsed comparison ----------------------------------------

var c10ParsedExprs = []c10Tmpl{
	{".", "any", "1", false, "identity"},
	{".", "any", "1", false, "identity"},
	{"select(kind == \"map\")", "any", "0/1", false, "select"},
	{"select(kind != \"scalar\")", "any", "0/1", false, "select"},
	{"select(tag != \"!!null\")", "any", "0/1", false, "select"},
	{"select(kind == \"scalar\")", "any", "0/1", false, "select"},
	{"explode(.)", "any", "1", true, "explode"},
	{". style = \"flow\"", "any", "1", true, "style"},
	{"(.. | select(tag == \"!!int\")) |= . + 1", "any", "1", true, "update"},
}

func c10GenParsed(r *rand.Rand) c10Case {
	t := c10ParsedExprs[r.IntN(len(c10ParsedExprs))]
	c := c10Case{Family: "O2", Expr: t.Expr, tmpl: t}
	c.rich = c10RichFiles(r, false)
	if c10CountDocs(c10Plain(c.rich)) == 0 {
		f := c10RichFile{}
		f.Name, f.Text, f.Docs, f.Kinds = "only.yaml", "# h\na: 1\n", []string{"# h\na: 1\n"}, []string{"rich-map"}
		f.Rich = []c10RichDoc{{Kind: "content", Body: "map", Solo: "# h\na: 1\n", HasComment: true}}
		c.rich = append(c.rich, f)
	}
	c.Files = c10Plain(c.rich)
	return c
}

// c10Seg is one `---`-delimited segment of printed text: its data (yaml.v3) and its comment lines.
type c10Seg struct {
	Data     string
	Comments []string
}

// c10Segments cuts printed text at lines that are exactly `---`. Text before the first such line
// is a segment only if it is not empty. The data of a segment is what yaml.v3 reads in it (null
// when it holds no node); its comments are its lines starting with '#'. (O2 documents never
// contain multi-line scalars, so a line starting with '#' or equal to `---` is never data.)
func c10Segments(text string) ([]c10Seg, error) {
	if text == "" {
		return nil, nil
	}
	lines := strings.SplitAfter(text, "\n")
	var chunks []string
	cur := ""
	first := true
	for _, ln := range lines {
		if strings.TrimRight(ln, "\n") == "---" {
			if !(first && cur == "") {
				chunks = append(chunks, cur)
			}
			cur, first = "", false
			continue
		}
		cur += ln
	}
	chunks = append(chunks, cur)
	var segs []c10Seg
	for _, ch := range chunks {
		s := c10Seg{Data: c10NullData}
		for _, ln := range strings.Split(ch, "\n") {
			if t := strings.TrimSpace(ln); strings.HasPrefix(t, "#") {
				s.Comments = append(s.Comments, t)
			}
		}
		docs, err := c10ParseStream(ch)
		if err != nil {
			return nil, fmt.Errorf("segment %q: %v", ch, err)
		}
		if len(docs) > 1 {
			return nil, fmt.Errorf("segment %q holds %d documents", ch, len(docs))
		}
		if len(docs) == 1 {
			s.Data = docs[0].Data
		}
		segs = append(segs, s)
	}
	return segs, nil
}

func c10SegsEqual(a, b []c10Seg) bool {
	if len(a) != len(b) {
		return false
	}
	for i := range a {
		if a[i].Data != b[i].Data || strings.Join(a[i].Comments, "\n") != strings.Join(b[i].Comments, "\n") {
			return false
		}
	}
	return true
}

func c10SegsString(s []c10Seg) string {
	var parts []string
	for _, x := range s {
		parts = append(parts, fmt.Sprintf("%s %q", x.Data, x.Comments))
	}
	return clipStr(strings.Join(parts, " | "), 900)
}

func (p c10) runParsed(x *c10Exec, c *c10Case) c10Verdict {
	solo := newSoloCache(x)
	names, stdin, err := c10Write(x, c.Files)
	if err != nil {
		return c10Verdict{Verdict: mon.Inconclusive, Detail: "cannot write case files: " + err.Error()}
	}
	c.Cmd = c10CmdLine(c.Expr, names, c10Flags{})
	comb := x.run(c.Expr, names, c10Flags{}, stdin)
	if comb.TimedOut {
		return c10Verdict{Verdict: mon.Inconclusive, Detail: "timed out"}
	}
	var expected, quirk []c10Seg
	eligible := false
	for _, f := range c.rich {
		for di, d := range f.Rich {
			o := solo.run(c.Expr, d.Solo, c10Flags{})
			if o.TimedOut {
				return c10Verdict{Verdict: mon.Inconclusive, Detail: "timed out"}
			}
			if o.Failed {
				return c10Verdict{Verdict: mon.Inconclusive, Tags: []string{"o2-expression-not-total"},
					Detail: fmt.Sprintf("E %s fails on the single document %q: %s", c.Expr, d.Solo, c10Clip(o.Stderr))}
			}
			segs, perr := c10Segments(o.Stdout)
			if perr != nil {
				return c10Verdict{Verdict: mon.Inconclusive, Tags: []string{"o2-single-output-unreadable"},
					Detail: fmt.Sprintf("output of the single run on %q is not readable: %v", d.Solo, perr)}
			}
			expected = append(expected, segs...)
			// model of finding E: a document whose root is a scalar (null included) prints its value only;
			// its comments survive only where they ride as the leading content of a file's first document
			for _, s := range segs {
				if di > 0 && d.ScalarRoot && len(s.Comments) > 0 {
					eligible = true
					s.Comments = nil
				}
				quirk = append(quirk, s)
			}
		}
	}
	if comb.Failed {
		return c10Verdict{Verdict: mon.Violated, Detail: fmt.Sprintf("[%s] %s failed although E succeeds on every document alone: %s", x.kind(), c.Cmd, c10Clip(comb.Stderr))}
	}
	obs, perr := c10Segments(comb.Stdout)
	if perr != nil {
		return c10Verdict{Verdict: mon.Violated, Detail: fmt.Sprintf("[%s] %s printed a stream that is not readable segment by segment (%v)\noutput: %s", x.kind(), c.Cmd, perr, c10Clip(comb.Stdout))}
	}
	if c10SegsEqual(obs, expected) {
		return c10Held(fmt.Sprintf("%d segments equal", len(obs)))
	}
	v := c10Verdict{Verdict: mon.Violated, Detail: fmt.Sprintf("[%s] %s\nexpected segments: %s\nobserved segments: %s\noutput: %s",
		x.kind(), c.Cmd, c10SegsString(expected), c10SegsString(obs), c10Clip(comb.Stdout))}
	if eligible && c10SegsEqual(obs, quirk) {
		v.Verdict, v.Finding = mon.Finding, c10FindingE
	}
	return v
}

// c10HasScalarRoot: some document of the case has a string at its root (read with yaml.v3, not with yq).
func c10HasScalarRoot(files []c10File) bool {
	for _, f := range files {
		dec := yaml.NewDecoder(strings.NewReader(f.Text))
		for {
			var n yaml.Node
			if err := dec.Decode(&n); err != nil {
				break
			}
			root := &n
			if n.Kind == yaml.DocumentNode && len(n.Content) == 1 {
				root = n.Content[0]
			}
			if root.Kind == yaml.ScalarNode && root.ShortTag() == "!!str" {
				return true
			}
		}
	}
	return false
}
