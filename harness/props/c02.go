package props

import (
	"errors"
	"fmt"
	"math/rand/v2"
	"strings"

	"verifharness/gen"
	"verifharness/mon"
	"verifharness/ref"
	"verifharness/yqx"
)

// C02 — assignment obeys the update laws (put-get, get-put, put-put, frame), `|=` and `op=`.
//
// Oracle: a lens model on the pure value model (ref.Resolve / ref.SetPath) computes the set of
// addressed locations and the expected document WITHOUT yq; the laws themselves are additionally
// checked model-free on yq's own outputs (frame condition by walking both documents).
type c02 struct{}

func init() { mon.Register(c02{}) }

func (c02) ID() string    { return "C02" }
func (c02) Level() string { return "exploration" }
func (c02) Rule() string {
	return "case = (alias-free document, addressable path p built along the document: keys, [n], [-n], [], [\"a\",\"b\"], `.. | select(. == x)`, " +
		"optionally a to-be-created suffix of 1-3 keys/indices; replacement values scalar or container) and one law per case: " +
		"put (result == lens model; every addressed location reads v; frame: every other path unchanged, new paths only under p or null pads), " +
		"get-put (p = p / p |= . is the identity), put-put, `p |= f` (f from a table, applied per match back-to-front, first result, unchanged when none), " +
		"`p op= e` for + - * with single-valued e read from the root. Non-trivial = p addresses >=1 location and the document has >=2 other nodes; " +
		"distinct by (law, path shape, document shape). Type-incompatible prefixes are outside the quantifier and skipped."
}
func (c02) Assumptions() []string {
	return []string{
		"documents are alias-free JSON-model values handed over as JSON text through the YAML decoder",
		"`p = p` with a multi-result right-hand side is a cross product by the documented semantics, so get-put uses `p = p` only for single-match p and `p |= .` otherwise",
		"compound assignment is checked with single-valued e that does not read a location the update writes",
	}
}
func (c02) Cases(tier string) int {
	if tier == "thorough" {
		return 240000
	}
	return 36000
}
func (c02) RaceCases(tier string) int {
	if tier == "thorough" {
		return 6000
	}
	return 300
}
func (c02) Floor(tier string) int { return 2000 }

func evalDoc(expr string, doc *ref.V) (*ref.V, []*ref.V, error) {
	return evalDocFmt(expr, doc, "yaml")
}

// (a stream of two JSON texts separated by `---` is YAML, not a JSON stream)
func inFmt2(string) string { return "yaml" }

// evalDocFmt hands the JSON text of doc to the named decoder ("yaml" or "json").
func evalDocFmt(expr string, doc *ref.V, inFmt string) (*ref.V, []*ref.V, error) {
	if inFmt == "yaml-block" {
		return evalTextFmt(expr, blockYAML(doc), "yaml")
	}
	return evalTextFmt(expr, doc.JSON()+"\n", inFmt)
}

// blockYAML writes the value as block-style YAML: block mappings and sequences, scalars and keys as in JSON (double
// quoted strings), empty collections in flow style. The node tree yq builds from it carries no flow style anywhere.
func blockYAML(v *ref.V) string {
	var sb strings.Builder
	var w func(v *ref.V, ind int, inline bool)
	w = func(v *ref.V, ind int, inline bool) {
		pad := strings.Repeat("  ", ind)
		switch {
		case v.K == ref.Map && len(v.M) > 0:
			if inline {
				sb.WriteString("\n")
			}
			for _, kv := range v.M {
				sb.WriteString(pad + ref.QuoteJSON(kv.K) + ":")
				w(kv.V, ind+1, true)
			}
		case v.K == ref.Seq && len(v.A) > 0:
			if inline {
				sb.WriteString("\n")
			}
			for _, x := range v.A {
				sb.WriteString(pad + "-")
				w(x, ind+1, true)
			}
		default:
			if inline {
				sb.WriteString(" ")
			}
			sb.WriteString(v.JSON() + "\n")
		}
	}
	w(v, 0, false)
	return sb.String()
}

func evalTextFmt(expr string, text string, inFmt string) (*ref.V, []*ref.V, error) {
	out, err, pan := yqx.Eval(expr, text, inFmt, "json")
	if pan != nil {
		return nil, nil, fmt.Errorf("panic: %s", pan.Sig())
	}
	if err != nil {
		return nil, nil, err
	}
	vs, perr := ref.ParseJSONStream(out)
	if perr != nil {
		return nil, nil, fmt.Errorf("unparseable output %q: %v", clipStr(out, 200), perr)
	}
	if len(vs) == 1 {
		return vs[0], vs, nil
	}
	return nil, vs, nil
}

var c02Fns = []func() *ref.Expr{
	func() *ref.Expr { return ref.Bin("+", ref.Self(), ref.Lit(ref.IntV(1))) },
	func() *ref.Expr { return ref.Fn0("length") },
	func() *ref.Expr { return &ref.Expr{Op: ref.OpCollect, L: ref.Self()} },
	func() *ref.Expr { return ref.Fn1("select", ref.Lit(ref.BoolV(false))) },
	func() *ref.Expr { return ref.Bin("*", ref.Self(), ref.Lit(ref.IntV(2))) },
	func() *ref.Expr { return ref.Fn0("not") },
	func() *ref.Expr { return ref.Lit(ref.StrV("x")) },
	func() *ref.Expr {
		return &ref.Expr{Op: ref.OpObject, Args: []*ref.Expr{ref.Lit(ref.StrV("w")), ref.Self()}}
	},
	func() *ref.Expr { return ref.Bin("+", ref.Self(), ref.Lit(ref.StrV("s"))) },
	func() *ref.Expr { return ref.Union(ref.Lit(ref.IntV(7)), ref.Lit(ref.IntV(8))) },
	func() *ref.Expr { return ref.Bin("//", ref.Self(), ref.Lit(ref.StrV("dflt"))) },
	func() *ref.Expr { return ref.Fn0("keys") },
}

// c02AlikeSubtract: `p -= e` on sequences whose scalars are spelled alike but differ in type (1 and "1", true and
// "true"): every match m gets `m - e`, and `m - e` drops exactly the elements that ARE (by type and value) in e.
func c02AlikeSubtract(r *rand.Rand) mon.Result {
	_, doc := c01AlikeCase(r)
	a, _ := doc.Get("a")
	b, _ := doc.Get("b")
	doc.M = append(doc.M, ref.KV{K: "c", V: ref.SeqV(a.Copy(), b.Copy())})
	res := mon.Result{Tags: []string{"law:compound", "op:-=", "alike_spelled_scalars"}, Nontrivial: true, Evals: 1}
	rs, err := ref.Eval(ref.Bin("-", ref.Self(), ref.Lit(b)), []*ref.V{a}, ref.Env{T: &ref.Trace{}})
	if err != nil || len(rs) != 1 {
		res.Verdict, res.Detail, res.Nontrivial = mon.Held, "outside the modelled domain", false
		return res
	}
	want := doc.Copy()
	form := r.IntN(4)
	var expr string
	switch form {
	case 0:
		expr = ".a -= .b"
		want.M[0].V = rs[0].Copy()
	case 1:
		expr = ".a -= " + ref.Lit(b).String()
		want.M[0].V = rs[0].Copy()
	case 2:
		expr = ".b as $r | .a |= . - $r"
		want.M[0].V = rs[0].Copy()
	default:
		// two matches, each gets its own difference
		expr = ".b as $r | .c[] -= $r"
		r2, _ := ref.Eval(ref.Bin("-", ref.Self(), ref.Lit(b)), []*ref.V{b}, ref.Env{T: &ref.Trace{}})
		want.M[2].V = ref.SeqV(rs[0].Copy(), r2[0].Copy())
	}
	res.Case = map[string]any{"doc": doc.JSON(), "expr": expr, "law": "compound"}
	res.Sig = fmt.Sprintf("alike|%d|%x", form, doc.ShapeHash())
	got, _, yerr := evalDocFmt(expr, doc, "yaml")
	switch {
	case yerr != nil:
		res.Verdict, res.Detail = mon.Violated, fmt.Sprintf("`%s` failed: %v\n doc %s", expr, yerr, doc)
	case got == nil || !ref.EqualNum(got, want):
		res.Verdict, res.Detail = mon.Violated, fmt.Sprintf("`%s`\n doc      %s\n expected %s\n observed %s", expr, doc, want, got)
	default:
		res.Verdict, res.Detail = mon.Held, "each match got its own difference"
	}
	return res
}

func (p c02) Run(w *mon.Worker, idx int) mon.Result {
	r := w.Rand(idx)
	if idx%60 == 33 {
		return c02AlikeSubtract(r)
	}
	if idx%30 == 17 {
		return c02CreatedThenOp(r)
	}
	pr := gen.Default()
	pr.NoBigInt, pr.SmallInts = true, true
	pr.MaxDepth = 2 + r.IntN(3)
	pr.MaxWidth = 2 + r.IntN(3)
	pr.Keys = []string{"a", "b", "c", "d", "x", "y"}
	doc := gen.Value(r, pr)
	if doc.IsScalar() {
		doc = ref.MapV(ref.KV{K: "a", V: doc})
	}
	// a quarter of the float-free documents go through the JSON decoder (it builds the node tree on its own)
	inFmt := "yaml"
	{
		hasFloat := false
		doc.Walk(nil, func(_ []any, n *ref.V) {
			if n.K == ref.Float {
				hasFloat = true
			}
		})
		if !hasFloat && r.IntN(4) == 0 {
			inFmt = "json"
		}
	}
	evalDoc := func(expr string, d *ref.V) (*ref.V, []*ref.V, error) { return evalDocFmt(expr, d, inFmt) }
	law := []string{"put", "put", "getput", "putput", "update", "compound", "put", "sharing", "overwrite", "rhsread", "update", "rhsmerge", "eaunion", "ctxassign"}[idx%14]
	opts := gen.PathOpts{AllowCreate: law == "put" || law == "putput" || law == "eaunion", AllowMulti: true, NoRoot: true}
	opts.MultiIdx = (law == "update" || law == "put") && r.IntN(6) == 0
	path := gen.RandomPath(r, doc, opts)
	pstr := path.String()
	v := gen.SimpleValue(r, 2)
	res := mon.Result{Tags: []string{"law:" + law}}
	cs := map[string]any{"doc": doc.JSON(), "path": pstr, "law": law}
	res.Case = cs
	for _, s := range path.Steps {
		res.Tags = append(res.Tags, "step:"+s.Kind)
	}
	if path.Pred != nil {
		res.Tags = append(res.Tags, "step:select")
	}
	nodes := 0
	doc.Walk(nil, func([]any, *ref.V) { nodes++ })

	targets, nullSplats, anyCreate, terr := ref.ResolveFull(doc, path, true)
	if errors.Is(terr, ref.ErrIncompatible) || errors.Is(terr, ref.ErrDomain) {
		res.Verdict, res.Detail = mon.Held, "prefix not type-compatible: outside the quantifier"
		res.Tags = append(res.Tags, "excluded_incompatible")
		return res
	}
	creates := anyCreate
	for _, t := range targets {
		if t.Creates {
			creates = true
		}
	}
	if creates {
		res.Tags = append(res.Tags, "creates")
	}
	if len(targets) > 1 {
		res.Tags = append(res.Tags, "multi_match")
	}
	res.Sig = fmt.Sprintf("%s|%s|%x", law, pathShape(path), doc.ShapeHash())
	res.Nontrivial = len(targets) >= 1 && nodes >= 3
	fail := func(f string, a ...any) mon.Result {
		res.Verdict = mon.Violated
		res.Detail = fmt.Sprintf(f, a...)
		return res
	}
	hold := func(d string) mon.Result {
		res.Verdict, res.Detail = mon.Held, d
		return res
	}

	nested := false
	for i, a := range targets {
		for j, b := range targets {
			if i != j && ref.IsPrefix(a.Path, b.Path) {
				nested = true
			}
		}
	}
	if nested {
		res.Tags = append(res.Tags, "nested_matches")
		if law == "put" || law == "putput" || law == "compound" {
			// writing a value over a node and over its descendants: the outcome is the value at the outermost node; not asserted
			res.Verdict, res.Detail, res.Nontrivial = mon.Held, "nested matches: only |= laws are asserted", false
			return res
		}
	}
	switch law {
	case "sharing":
		// a value written to two places stays two values: a later write under one must not reach the other
		val := ref.MapV(ref.KV{K: "x", V: ref.MapV(ref.KV{K: "y", V: ref.IntV(1)}, ref.KV{K: "z", V: ref.SeqV(ref.IntV(1), ref.IntV(2))})}, ref.KV{K: "w", V: ref.StrV("s")})
		if doc.K != ref.Map {
			doc = ref.MapV(ref.KV{K: "a", V: doc})
		}
		k1, k2 := "n1", "n2"
		if len(doc.M) >= 2 && r.IntN(2) == 0 && identOK(doc.M[0].K) && identOK(doc.M[1].K) {
			k1, k2 = doc.M[0].K, doc.M[1].K // overwrite existing entries instead of creating new ones
		}
		sub := []string{".x.y", ".x.z[0]", ".w", ".x.z[1]"}[r.IntN(4)]
		var expr string
		switch r.IntN(4) {
		case 0:
			expr = fmt.Sprintf("%s as $v | .%s = $v | .%s = $v | .%s%s = 9", ref.Lit(val).String(), k1, k2, k1, sub)
		case 1:
			expr = fmt.Sprintf("%s as $v | (.%s, .%s) = $v | .%s%s = 9", ref.Lit(val).String(), k1, k2, k1, sub)
		case 2:
			expr = fmt.Sprintf(".%s = %s | .%s = .%s | .%s%s = 9", k1, ref.Lit(val).String(), k2, k1, k1, sub)
		default:
			expr = fmt.Sprintf(".%s = %s | .%s = .%s | .%s%s = 9", k1, ref.Lit(val).String(), k2, k1, k2, sub)
		}
		cs["expr"], cs["doc"] = expr, doc.JSON()
		want := doc.Copy()
		_ = ref.SetPath(want, []any{k1}, val)
		_ = ref.SetPath(want, []any{k2}, val)
		target := k1
		if strings.HasSuffix(expr, fmt.Sprintf(".%s%s = 9", k2, sub)) {
			target = k2
		}
		var subPath []any
		switch sub {
		case ".x.y":
			subPath = []any{"x", "y"}
		case ".x.z[0]":
			subPath = []any{"x", "z", 0}
		case ".x.z[1]":
			subPath = []any{"x", "z", 1}
		default:
			subPath = []any{"w"}
		}
		_ = ref.SetPath(want, append([]any{target}, subPath...), ref.IntV(9))
		got, _, yerr := evalDoc(expr, doc)
		res.Evals++
		res.Nontrivial = true
		res.Sig = fmt.Sprintf("sharing|%s|%x", sub, doc.ShapeHash())
		if yerr != nil {
			return fail("`%s` failed: %v", expr, yerr)
		}
		if got == nil || !ref.EqualNum(got, want) {
			return fail("`%s`: the two assigned locations are not independent\n expected %s\n observed %s", expr, want, got)
		}
		return hold("assigned values independent")

	case "overwrite":
		// an intermediate created on the way to a deeper write is an ordinary node afterwards
		if doc.K != ref.Map {
			doc = ref.MapV(ref.KV{K: "a", V: doc})
		}
		if idx%3 == 1 {
			// a non-empty container is replaced by a scalar; what is written below it afterwards starts from nothing
			wdoc := ref.MapV(ref.KV{K: "cfg", V: ref.MapV(ref.KV{K: "old", V: ref.IntV(1)}, ref.KV{K: "keep", V: ref.SeqV(ref.IntV(1), ref.IntV(2))})},
				ref.KV{K: "list", V: ref.SeqV(ref.StrV("a"), ref.StrV("b"), ref.StrV("c"))}, ref.KV{K: "rest", V: doc})
			sv := []string{"null", "null", "5", "\"s\"", "~"}[r.IntN(5)]
			type form struct {
				expr string
				path []any
				v    *ref.V
			}
			f := []form{
				{fmt.Sprintf(`.cfg = %s | .cfg.name = "n"`, sv), []any{"cfg"}, ref.MapV(ref.KV{K: "name", V: ref.StrV("n")})},
				{fmt.Sprintf(`.list = %s | .list[1] = "z"`, sv), []any{"list"}, ref.SeqV(ref.NullV(), ref.StrV("z"))},
				{fmt.Sprintf(`.cfg = %s | .cfg.a.b = 1`, sv), []any{"cfg"}, ref.MapV(ref.KV{K: "a", V: ref.MapV(ref.KV{K: "b", V: ref.IntV(1)})})},
				{fmt.Sprintf(`.cfg |= %s | .cfg[0] = "first"`, sv), []any{"cfg"}, ref.SeqV(ref.StrV("first"))},
			}[r.IntN(4)]
			if sv != "null" && sv != "~" {
				// (a scalar that is not null cannot be written below: yq reports that; nothing to compare)
				f.expr = strings.Replace(f.expr, " = "+sv+" |", " = null |", 1)
				f.expr = strings.Replace(f.expr, " |= "+sv+" |", " |= null |", 1)
			}
			cs["expr"], cs["doc"] = f.expr, wdoc.JSON()
			want := wdoc.Copy()
			_ = ref.SetPath(want, f.path, f.v)
			got, _, yerr := evalDoc(f.expr, wdoc)
			res.Evals++
			res.Nontrivial = true
			res.Tags = append(res.Tags, "container_reset_then_written")
			res.Sig = fmt.Sprintf("resetwrite|%s|%x", f.expr, doc.ShapeHash())
			if yerr != nil {
				return fail("`%s` failed: %v", f.expr, yerr)
			}
			if got == nil || !ref.EqualNum(got, want) {
				return fail("`%s`\n expected %s\n observed %s", f.expr, want, got)
			}
			return hold("written below a reset container")
		}
		if idx%3 == 0 {
			// several keys in one bracket, some there and some not: every listed key holds the value afterwards
			m := ref.MapV(ref.KV{K: "ka", V: ref.IntV(1)}, ref.KV{K: "kc", V: ref.SeqV(ref.IntV(3))})
			wdoc := ref.MapV(ref.KV{K: "m", V: m}, ref.KV{K: "rest", V: doc})
			keys := [][]string{{"ka", "zz_b"}, {"zz_b", "ka"}, {"ka", "zz_b", "kc"}, {"zz_a", "zz_b"}, {"ka", "kc"}, {"zz_b", "kc", "zz_c"}}[r.IntN(6)]
			v := ref.IntV(int64(90 + r.IntN(9)))
			op := []string{"=", "|="}[r.IntN(2)]
			expr := fmt.Sprintf(`.m["%s"] %s %s`, strings.Join(keys, `", "`), op, v.JSON())
			cs["expr"], cs["doc"] = expr, wdoc.JSON()
			want := wdoc.Copy()
			for _, k := range keys {
				_ = ref.SetPath(want, []any{"m", k}, v)
			}
			got, _, yerr := evalDoc(expr, wdoc)
			res.Evals++
			res.Nontrivial = true
			res.Tags = append(res.Tags, "multi_key_bracket")
			res.Sig = fmt.Sprintf("multikey|%v|%s|%x", keys, op, doc.ShapeHash())
			if yerr != nil {
				return fail("`%s` failed: %v", expr, yerr)
			}
			if got == nil || !ref.EqualNum(got, want) {
				return fail("`%s`\n expected %s\n observed %s", expr, want, got)
			}
			return hold("every listed key written")
		}
		sv := []string{"5", "true", "null", "1.5", "0x10", "~", "", "text"}[r.IntN(8)]
		mid := []string{"n1", "q"}[r.IntN(2)]
		deep := []string{".k", ".k.j", "[1]", ".k[0]"}[r.IntN(4)]
		expr := fmt.Sprintf(".%s%s = 1 | .%s = %s", mid, deep, mid, ref.ExprString(sv))
		if r.IntN(3) == 0 {
			expr += fmt.Sprintf(" | .%s += \"1\"", mid)
			sv += "1"
		}
		cs["expr"], cs["doc"] = expr, doc.JSON()
		want := doc.Copy()
		_ = ref.SetPath(want, []any{mid}, ref.StrV(sv))
		got, _, yerr := evalDoc(expr, doc)
		res.Evals++
		res.Nontrivial = true
		res.Sig = fmt.Sprintf("overwrite|%s|%s|%x", sv, deep, doc.ShapeHash())
		if yerr != nil {
			return fail("`%s` failed: %v", expr, yerr)
		}
		if got == nil || !ref.EqualNum(got, want) {
			return fail("`%s`\n expected %s\n observed %s", expr, want, got)
		}
		return hold("intermediate overwritten with the string")

	case "ctxassign":
		// `=` evaluated for several context nodes at once: each node gets the value its OWN right-hand side yields
		n := 2 + r.IntN(3)
		items := &ref.V{K: ref.Seq, A: []*ref.V{}}
		for i := 0; i < n; i++ {
			it := ref.MapV(ref.KV{K: "a", V: ref.IntV(int64(r.IntN(50)))}, ref.KV{K: "b", V: ref.IntV(int64(100 + 7*i + r.IntN(5)))})
			if r.IntN(3) == 0 {
				it.M = append(it.M, ref.KV{K: "c", V: ref.StrV(fmt.Sprintf("s%d", i))})
			}
			items.A = append(items.A, it)
		}
		d2 := ref.MapV(ref.KV{K: "items", V: items}, ref.KV{K: "keep", V: doc})
		tgt := []string{".a", ".zz", ".a", ".n.m"}[r.IntN(4)]
		rhs := []string{".b", ".b + 1", "(.b | . * 2)", ".b // 0"}[r.IntN(4)]
		form := r.IntN(4)
		if r.IntN(3) == 0 {
			// compound assignment for several context nodes: each node gets `own value op e`, once
			op := []string{"+", "-", "*"}[r.IntN(3)]
			ev := int64(1 + r.IntN(5))
			evs := fmt.Sprint(ev)
			ownB := r.IntN(2) == 0 // the right-hand side reads the context node itself (`.b`): every node has its own
			if ownB {
				evs = ".b"
			}
			var cexpr string
			switch r.IntN(3) {
			case 0:
				cexpr = fmt.Sprintf(".items[] | .a %s= %s", op, evs)
			case 1:
				cexpr = fmt.Sprintf(".items[] | select(.b > 0) | .a %s= %s", op, evs)
			default:
				cexpr = fmt.Sprintf(".items | map(.a %s= %s) | .[]", op, evs)
			}
			cs["expr"], cs["doc"] = cexpr, d2.JSON()
			res.Sig = fmt.Sprintf("ctxcompound|%s|%d", cexpr, n)
			_, gs, yerr := evalDoc(cexpr, d2)
			res.Evals++
			if yerr != nil {
				return fail("`%s` failed: %v", cexpr, yerr)
			}
			if len(gs) != n {
				return fail("`%s`: %d results for %d context nodes", cexpr, len(gs), n)
			}
			for i, it := range items.A {
				av, _ := it.Get("a")
				val := av.I.Int64()
				if ownB {
					bv, _ := it.Get("b")
					ev = bv.I.Int64()
				}
				switch op {
				case "+":
					val += ev
				case "-":
					val -= ev
				default:
					val *= ev
				}
				want := it.Copy()
				_ = ref.SetPath(want, []any{"a"}, ref.IntV(val))
				if !ref.EqualNum(gs[i], want) {
					return fail("`%s`: context node %d\n expected %s\n observed %s", cexpr, i, want, gs[i])
				}
			}
			res.Nontrivial = true
			return hold("every context node updated once")
		}
		var expr string
		switch form {
		case 0:
			expr = fmt.Sprintf(".items[] | %s = %s", tgt, rhs)
		case 1:
			expr = fmt.Sprintf(".items | map(%s = %s) | .[]", tgt, rhs)
		case 2:
			expr = fmt.Sprintf("[.items[] | %s = %s] | .[]", tgt, rhs)
		default:
			expr = fmt.Sprintf("(.items[0], .items[%d]) | %s = %s", n-1, tgt, rhs)
		}
		cs["expr"], cs["doc"] = expr, d2.JSON()
		res.Sig = fmt.Sprintf("ctxassign|%d|%s|%s|%d", form, tgt, rhs, n)
		_, gs, yerr := evalDoc(expr, d2)
		res.Evals++
		if yerr != nil {
			return fail("`%s` failed: %v", expr, yerr)
		}
		idxs := make([]int, 0, n)
		if form == 3 {
			idxs = append(idxs, 0, n-1)
		} else {
			for i := 0; i < n; i++ {
				idxs = append(idxs, i)
			}
		}
		if len(gs) != len(idxs) {
			return fail("`%s`: %d results for %d context nodes: %v", expr, len(gs), len(idxs), gs)
		}
		for k, i := range idxs {
			it := items.A[i]
			bv, _ := it.Get("b")
			val := bv.I.Int64()
			switch rhs {
			case ".b + 1":
				val++
			case "(.b | . * 2)":
				val *= 2
			}
			want := it.Copy()
			switch tgt {
			case ".a":
				_ = ref.SetPath(want, []any{"a"}, ref.IntV(val))
			case ".zz":
				_ = ref.SetPath(want, []any{"zz"}, ref.IntV(val))
			default:
				_ = ref.SetPath(want, []any{"n", "m"}, ref.IntV(val))
			}
			if !ref.EqualNum(gs[k], want) {
				return fail("`%s`: context node %d\n expected %s\n observed %s\n input %s", expr, i, want, gs[k], items)
			}
		}
		res.Nontrivial = true
		return hold("every context node got its own value")

	case "eaunion":
		// eval-all over two documents: a left-hand side that is the union of the same path in each document
		// addresses both locations — also when the two hold equal values, also when the path has to be created
		if terr != nil || len(targets) == 0 || nested || path.Pred != nil || pathHasMultiAfterWrite(path) {
			res.Nontrivial = false
			return hold("path not suitable for the two-document form")
		}
		d2 := doc.Copy()
		// the second document differs from the first in a leaf or two (or not at all)
		if r.IntN(3) > 0 {
			var leaves []*ref.V
			d2.Walk(nil, func(_ []any, n *ref.V) {
				if n.IsScalar() {
					leaves = append(leaves, n)
				}
			})
			if len(leaves) > 0 {
				*leaves[r.IntN(len(leaves))] = *gen.SimpleValue(r, 0)
			}
		}
		// (scalars only: in eval-all a collect or object literal gathers one result per document of the context)
		v1, v2 := gen.SimpleValue(r, 0), gen.SimpleValue(r, 0)
		lhs := fmt.Sprintf("(select(di == 0)%s, select(di == 1)%s)", pstr, pstr)
		if strings.HasPrefix(pstr, "(") {
			res.Nontrivial = false
			return hold("path not suitable")
		}
		var expr string
		switch r.IntN(3) {
		case 0:
			expr = lhs + " = " + ref.Lit(v2).String()
		case 1:
			expr = lhs + " = " + ref.Lit(v1).String() + " | " + lhs + " = " + ref.Lit(v2).String()
		default:
			expr = lhs + " |= " + ref.Lit(v2).String()
		}
		cs["expr"], cs["doc"] = expr, doc.JSON()+" --- "+d2.JSON()
		res.Sig = fmt.Sprintf("eaunion|%s|%x", pathShape(path), doc.ShapeHash())
		stream := doc.JSON() + "\n---\n" + d2.JSON() + "\n"
		out, yerr, pan := yqx.EvalAll(expr, stream, inFmt2(inFmt), "json")
		res.Evals++
		if pan != nil {
			return fail("`%s` panicked: %s", expr, pan.Sig())
		}
		if yerr != nil {
			return fail("`%s` (eval-all over two documents) failed: %v", expr, yerr)
		}
		gs, perr := ref.ParseJSONStream(out)
		if perr != nil || len(gs) != 2 {
			return fail("`%s` (eval-all): expected two documents back, got %q", expr, clipStr(out, 300))
		}
		for k, dk := range []*ref.V{doc, d2} {
			tk, _, _, ek := ref.ResolveFull(dk, path, true)
			if ek != nil {
				res.Nontrivial = false
				return hold("path not addressable in the second document")
			}
			want := dk.Copy()
			for _, t := range tk {
				if err := ref.SetPath(want, t.Path, v2); err != nil {
					res.Nontrivial = false
					return hold("model: incompatible while writing")
				}
			}
			if !ref.EqualNum(gs[k], want) {
				return fail("`%s` (eval-all over two documents): document %d\n expected %s\n observed %s", expr, k, want, gs[k])
			}
		}
		res.Nontrivial = true
		return hold("both documents written")

	case "rhsmerge":
		// `p = (A op B)` with A and B containers of the same document that share keys: the merge works on
		// copies, so A and B read the same afterwards and p holds what `A op B` yields on its own
		mk := func(depth int) *ref.V {
			m := &ref.V{K: ref.Map, M: []ref.KV{}}
			for _, k := range []string{"k", "j", "m", "n"} {
				if r.IntN(3) == 0 {
					continue
				}
				var x *ref.V
				switch {
				case depth > 0 && r.IntN(3) == 0:
					x = ref.MapV(ref.KV{K: "q", V: gen.SimpleValue(r, 0)}, ref.KV{K: "w", V: gen.SimpleValue(r, 0)})
				case r.IntN(4) == 0:
					x = ref.SeqV(gen.SimpleValue(r, 0), gen.SimpleValue(r, 0))
				default:
					x = gen.SimpleValue(r, 0)
				}
				m.M = append(m.M, ref.KV{K: k, V: x})
			}
			return m
		}
		a, b := mk(1), mk(1)
		if len(a.M) == 0 || len(b.M) == 0 {
			res.Nontrivial = false
			return hold("empty operand")
		}
		d2 := ref.MapV(ref.KV{K: "a", V: a}, ref.KV{K: "keep", V: doc}, ref.KV{K: "b", V: b})
		if r.IntN(3) == 0 {
			d2 = ref.MapV(ref.KV{K: "s", V: ref.SeqV(a, b)}, ref.KV{K: "keep", V: doc})
		}
		A, B := ".a", ".b"
		if _, ok := d2.Get("s"); ok {
			A, B = ".s[0]", ".s[1]"
		}
		op := []string{"*", "*", "*+", "*d", "*n", "*?", "+"}[r.IntN(7)]
		target := []string{".c", ".keep", ".c.d", ".keep2[1]"}[r.IntN(4)]
		form := r.IntN(3)
		var expr string
		switch form {
		case 0:
			expr = fmt.Sprintf("%s = (%s %s %s)", target, A, op, B)
		case 1:
			expr = fmt.Sprintf("%s |= ($root | %s %s %s)", target, A, op, B)
			expr = ". as $root | " + expr
		default:
			expr = fmt.Sprintf("(%s %s %s) as $m | %s = $m", A, op, B, target)
		}
		cs["expr"], cs["doc"] = expr, d2.JSON()
		res.Sig = fmt.Sprintf("rhsmerge|%s|%s|%d|%x", op, target, form, d2.ShapeHash())
		res.Tags = append(res.Tags, "rhsmerge:"+op)
		mv, _, merr := evalDoc(fmt.Sprintf("%s %s %s", A, op, B), d2)
		got, _, yerr := evalDoc(expr, d2)
		res.Evals += 2
		if merr != nil || mv == nil {
			res.Nontrivial = false
			return hold("the merge itself is not defined here")
		}
		res.Nontrivial = true
		if yerr != nil || got == nil {
			return fail("`%s` failed (%v) although `%s %s %s` alone works", expr, yerr, A, op, B)
		}
		want := d2.Copy()
		var tp []any
		switch target {
		case ".c":
			tp = []any{"c"}
		case ".keep":
			tp = []any{"keep"}
		case ".c.d":
			tp = []any{"c", "d"}
		default:
			tp = []any{"keep2", 1}
		}
		_ = ref.SetPath(want, tp, mv)
		if !ref.EqualNum(got, want) {
			return fail("`%s`: operands of a merge on the right-hand side must read the same afterwards, the target holds the merge result\n input    %s\n expected %s\n observed %s", expr, d2, want, got)
		}
		return hold("operands untouched, target holds the merge result")

	case "rhsread":
		// `p = E` where E only READS, through nulls, missing keys and one past the end of sequences:
		// the result is the document with E's value at p and nothing else changed (E evaluated alone gives the value)
		if terr != nil || len(targets) == 0 {
			res.Nontrivial = false
			return hold("not addressable")
		}
		ep := gen.RandomPath(r, doc, gen.PathOpts{NoRoot: true})
		ets, eerr := ref.Resolve(doc, ep, false)
		if eerr != nil || len(ets) != 1 {
			res.Nontrivial = false
			return hold("no single read location")
		}
		for _, t := range targets {
			if ref.IsPrefix(t.Path, ets[0].Path) || ref.IsPrefix(ets[0].Path, t.Path) {
				res.Nontrivial = false
				return hold("read location overlaps the written one")
			}
		}
		if creates {
			// a position counted from the end names another element once the left-hand side has padded that sequence
			// (the left-hand side is resolved, and creates, first): such a read is not a read of an unrelated location
			for _, st := range ep.Steps {
				if st.Kind == "idx" && st.Idx < 0 {
					res.Nontrivial = false
					return hold("read location is counted from an end the written path may move")
				}
			}
		}
		for _, ns := range nullSplats { // a null the left-hand side turns into [] on its way
			if ref.IsPrefix(ns, ets[0].Path) || ref.IsPrefix(ets[0].Path, ns) {
				res.Nontrivial = false
				return hold("read location overlaps the spine of the written path")
			}
		}
		at, _ := doc.GetPath(ets[0].Path)
		estr := ep.String()
		kind := "null"
		switch at.K {
		case ref.Null:
			estr += []string{"[0]", `["k"]`, ".k", "[1]", `["k"][0]`, ".k.j", "[0][1]"}[r.IntN(7)]
		case ref.Seq:
			kind = "seq"
			estr += fmt.Sprintf("[%d]", len(at.A)+r.IntN(2)) // exactly one past the end, or two
			if r.IntN(3) == 0 {
				estr += []string{".k", "[0]", `["k"]`}[r.IntN(3)]
			}
		case ref.Map:
			kind = "map"
			estr += []string{".zz_missing", `["zz_missing"]`, ".zz_missing.k", `["zz_missing"][0]`, ".zz_missing[1]"}[r.IntN(5)]
		default:
			res.Nontrivial = false
			return hold("read location is a scalar")
		}
		res.Tags = append(res.Tags, "rhsread:"+kind)
		alt := gen.SimpleValue(r, 0)
		var exprs []string
		switch r.IntN(4) {
		case 0:
			exprs = []string{pstr + " = " + estr, pstr + " = null"}
		case 1:
			exprs = []string{pstr + " = (" + estr + " // " + ref.Lit(alt).String() + ")", pstr + " = " + ref.Lit(alt).String()}
		case 2:
			exprs = []string{pstr + " |= (" + estr + " // " + ref.Lit(alt).String() + ")", pstr + " = " + ref.Lit(alt).String()}
			if !strings.HasPrefix(estr, ".") || creates || nested {
				exprs[0] = pstr + " = (" + estr + " // " + ref.Lit(alt).String() + ")"
			} else {
				// inside |= the expression is relative to the match: bind the root first
				exprs[0] = ". as $root | " + pstr + " |= ($root | " + estr + " // " + ref.Lit(alt).String() + ")"
			}
		default:
			exprs = []string{"(" + estr + ") as $r | " + pstr + " = ($r // " + ref.Lit(alt).String() + ")", pstr + " = " + ref.Lit(alt).String()}
		}
		if r.IntN(4) == 0 && path.Pred == nil && !pathHasMultiAfterWrite(path) && len(targets) == 1 && strings.Contains(exprs[0], "//") {
			// the same through setpath: its value expression only reads as well
			var parts []string
			okp := true
			for _, st := range path.Steps {
				switch st.Kind {
				case "key":
					parts = append(parts, ref.ExprString(st.Key))
				case "idx":
					if st.Idx < 0 {
						okp = false
					}
					parts = append(parts, fmt.Sprint(st.Idx))
				default:
					okp = false
				}
			}
			if okp {
				exprs[0] = "setpath([" + strings.Join(parts, ", ") + "]; " + estr + " // " + ref.Lit(alt).String() + ")"
				exprs[1] = pstr + " = " + ref.Lit(alt).String()
				res.Tags = append(res.Tags, "rhsread:setpath")
			}
		}
		cs["expr"], cs["same_as"] = exprs[0], exprs[1]
		res.Sig = fmt.Sprintf("rhsread|%s|%s|%x", kind, pathShape(path), doc.ShapeHash())
		a, _, err1 := evalDoc(exprs[0], doc)
		b, _, err2 := evalDoc(exprs[1], doc)
		res.Evals += 2
		if err2 != nil || b == nil {
			res.Nontrivial = false
			return hold("the plain assignment fails")
		}
		if err1 != nil {
			return fail("`%s` fails (%v) although the right-hand side only reads and `%s` works", exprs[0], err1, exprs[1])
		}
		created := doc.Copy() // following p creates the missing locations (as null) even when nothing is assigned then
		for _, ns := range nullSplats {
			if x, ok := created.GetPath(ns); ok && x.K == ref.Null {
				*x = ref.V{K: ref.Seq, A: []*ref.V{}}
			} else if !ok {
				_ = ref.SetPath(created, ns, &ref.V{K: ref.Seq, A: []*ref.V{}})
			}
		}
		for _, t := range targets {
			if t.Creates {
				_ = ref.SetPath(created, t.Path, ref.NullV())
			}
		}
		if a != nil && !strings.Contains(exprs[0], "//") && ref.EqualNum(a, created) {
			// in a read-only context a missing thing yields no result instead of null: nothing is assigned
			res.Tags = append(res.Tags, "rhsread:empty_rhs")
			return hold("the read yields nothing, nothing assigned, nothing changed")
		}
		if a == nil || !ref.EqualNum(a, b) {
			return fail("reading on the right-hand side changed the document: `%s` gives\n %s\nbut `%s` gives\n %s\n(the read `%s` yields null or nothing on %s)", exprs[0], a, exprs[1], b, estr, doc)
		}
		return hold("reads on the right-hand side leave everything else alone")

	case "put":
		expr := pstr + " = " + ref.Lit(v).String()
		cs["expr"] = expr
		got, _, yerr := evalDoc(expr, doc)
		res.Evals++
		if terr != nil { // the model says the path is not addressable (index before the start)
			if yerr == nil {
				return fail("model: %v, but yq succeeded with %s", terr, got)
			}
			return hold("both report an error")
		}
		if yerr != nil {
			return fail("yq failed on an addressable path: %v", yerr)
		}
		if got == nil {
			return fail("assignment did not return exactly one document")
		}
		want := doc.Copy()
		for _, ns := range nullSplats {
			if x, ok := want.GetPath(ns); ok && x.K == ref.Null {
				*x = ref.V{K: ref.Seq, A: []*ref.V{}}
			} else if !ok {
				_ = ref.SetPath(want, ns, &ref.V{K: ref.Seq, A: []*ref.V{}})
			}
		}
		for _, t := range targets {
			if err := ref.SetPath(want, t.Path, v); err != nil {
				res.Verdict, res.Detail = mon.Held, "model: incompatible while writing"
				res.Tags = append(res.Tags, "excluded_incompatible")
				return res
			}
		}
		if last := len(path.Steps) - 1; last >= 0 && path.Steps[last].Kind == "midx" && path.Steps[last].Idxs[0] < 0 && !ref.EqualNum(got, want) {
			// `=` evaluates its left-hand side a second time after the padding: a negative index written
			// before the padding index is then counted from the new end
			alt := path
			alt.Steps = append(append([]ref.Step{}, path.Steps[:last]...), ref.Step{Kind: "midx", Idxs: []int{path.Steps[last].Idxs[1], path.Steps[last].Idxs[0]}})
			if ats, aerr := ref.Resolve(doc, alt, true); aerr == nil {
				want2 := doc.Copy()
				for _, t := range ats {
					_ = ref.SetPath(want2, t.Path, v)
				}
				if ref.EqualNum(got, want2) {
					res.Verdict, res.FindingID = mon.Finding, "C02-assign-negative-index-before-padding-index"
					res.Detail = fmt.Sprintf("`%s` on %s: the negative index is resolved against the padded length\n expected %s\n observed %s", expr, doc, want, got)
					return res
				}
			}
		}
		// the same write spelled with(): `with(P; . = v)` creates what `P = v` creates
		if idx%3 == 0 && ref.EqualNum(got, want) {
			wexpr := "with(" + pstr + "; . = " + ref.Lit(v).String() + ")"
			wgot, _, werr := evalDoc(wexpr, doc)
			res.Evals++
			if werr != nil || wgot == nil || !ref.EqualNum(wgot, want) {
				return fail("`%s` gives %s, `%s` gives %v (err %v)\n doc %s", expr, got, wexpr, wgot, werr, doc)
			}
			res.Tags = append(res.Tags, "with_form")
		}
		// (i) put-get on yq's own output, model-free apart from the target list
		for _, t := range targets {
			x, ok := got.GetPath(t.Path)
			if !ok || !ref.EqualNum(x, v) {
				return fail("put-get: after `%s`, location %s reads %v, expected %s\nresult: %s", expr, ref.PathString(t.Path), x, v, got)
			}
		}
		if _, rs, rerr := evalDoc(pstr, got); path.Pred == nil && !(pathHasMultiAfterWrite(path) && !v.IsScalar()) && rerr == nil && len(targets) > 0 {
			res.Evals++
			if len(rs) == 0 {
				return fail("put-get: reading `%s` after the assignment yields nothing\nresult: %s", pstr, got)
			}
			for _, x := range rs {
				if !ref.EqualNum(x, v) {
					return fail("put-get: reading `%s` after `%s` yields %s, expected %s", pstr, expr, x, v)
				}
			}
		}
		// (iv) frame
		if d := frameViolation(doc, got, append(append([]ref.Target{}, targets...), spineTargets(nullSplats)...)); d != "" {
			return fail("frame: %s\nexpr: %s\nbefore: %s\nafter:  %s", d, expr, doc, got)
		}
		// (v) whole document equals the lens model
		if !ref.EqualNum(got, want) {
			return fail("`%s`\n expected %s\n observed %s", expr, want, got)
		}
		return hold(fmt.Sprintf("%d location(s) written", len(targets)))

	case "getput":
		if terr != nil || creates || len(targets) == 0 {
			res.Nontrivial = false
			return hold("no existing location")
		}
		expr := pstr + " |= ."
		if len(targets) == 1 && path.Pred == nil {
			expr = pstr + " = " + pstr
		}
		cs["expr"] = expr
		got, _, yerr := evalDoc(expr, doc)
		res.Evals++
		if yerr != nil {
			return fail("get-put: `%s` failed: %v", expr, yerr)
		}
		if got == nil || !ref.EqualNum(got, doc) {
			return fail("get-put: `%s` changed the document\n before %s\n after  %s", expr, doc, got)
		}
		return hold("identity")

	case "putput":
		if terr != nil {
			res.Nontrivial = false
			return hold("not addressable")
		}
		v2 := gen.SimpleValue(r, 2)
		e1 := pstr + " = " + ref.Lit(v).String() + " | " + pstr + " = " + ref.Lit(v2).String()
		e2 := pstr + " = " + ref.Lit(v2).String()
		cs["expr"] = e1
		a, _, err1 := evalDoc(e1, doc)
		b, _, err2 := evalDoc(e2, doc)
		res.Evals += 2
		if (err1 != nil) != (err2 != nil) {
			return fail("put-put: `%s` -> err=%v but `%s` -> err=%v", e1, err1, e2, err2)
		}
		if err1 != nil {
			res.Nontrivial = false
			return hold("both fail")
		}
		// writing a container and then a scalar over a multi-step created path is the same as writing the scalar;
		// but p may address different locations after the first write when v is a container and p ends in a splat: skip those
		if path.Pred != nil || (pathHasMultiAfterWrite(path) && !v.IsScalar()) {
			res.Nontrivial = false
			return hold("selection depends on the first write")
		}
		if a == nil || b == nil || !ref.EqualNum(a, b) {
			return fail("put-put: `%s` gives %s but `%s` gives %s", e1, a, e2, b)
		}
		return hold("put-put")

	case "update":
		midx := len(path.Steps) > 0 && path.Steps[len(path.Steps)-1].Kind == "midx"
		if terr != nil || (creates && !midx) || len(targets) == 0 {
			res.Nontrivial = false
			return hold("no existing location")
		}
		fi := r.IntN(len(c02Fns))
		f := c02Fns[fi]()
		expr := pstr + " |= " + f.String()
		cs["expr"] = expr
		res.Tags = append(res.Tags, "f:"+f.String())
		want := doc.Copy()
		var merr error
		tr := &ref.Trace{}
		for _, t := range targets {
			if t.Creates { // following p pads the sequence with nulls first; f then sees a null there
				_ = ref.SetPath(want, t.Path, ref.NullV())
			}
		}
		for i := len(targets) - 1; i >= 0; i-- {
			cur, ok := want.GetPath(targets[i].Path)
			if !ok {
				merr = ref.ErrDomain
				break
			}
			rs, err := ref.Eval(f, []*ref.V{cur}, ref.Env{T: tr})
			if err != nil {
				merr = err
				break
			}
			if len(rs) > 0 {
				*cur = *rs[0].Copy()
			}
		}
		if errors.Is(merr, ref.ErrDomain) || tr.WouldVivify {
			res.Verdict, res.Detail = mon.Held, "outside the modelled domain"
			res.Tags = append(res.Tags, "excluded_domain")
			res.Nontrivial = false
			return res
		}
		got, _, yerr := evalDoc(expr, doc)
		res.Evals++
		if merr == nil && hasNonFinite([]*ref.V{want}) {
			res.Verdict, res.Detail, res.Nontrivial = mon.Held, "non-finite float result", false
			res.Tags = append(res.Tags, "excluded_domain")
			return res
		}
		if merr != nil {
			if yerr == nil {
				return fail("`%s`: the update function is undefined on a match (%v) but yq succeeded with %s", expr, merr, got)
			}
			return hold("both report an error")
		}
		if yerr != nil {
			return fail("`%s` failed: %v\nexpected %s", expr, yerr, want)
		}
		if got == nil || !ref.EqualNum(got, want) {
			return fail("`%s`\n expected %s\n observed %s", expr, want, got)
		}
		return hold(fmt.Sprintf("%d match(es) updated", len(targets)))

	case "compound":
		if terr != nil || creates || len(targets) == 0 {
			res.Nontrivial = false
			return hold("no existing location")
		}
		op := []string{"+", "-", "*"}[r.IntN(3)]
		// e: a literal, or a path to an existing node that no target overlaps
		var eExpr string
		var eVal *ref.V
		if r.IntN(2) == 0 {
			ep := gen.RandomPath(r, doc, gen.PathOpts{NoRoot: true})
			ets, eerr := ref.Resolve(doc, ep, false)
			if eerr == nil && len(ets) == 1 {
				overlap := false
				for _, t := range targets {
					if ref.IsPrefix(t.Path, ets[0].Path) || ref.IsPrefix(ets[0].Path, t.Path) {
						overlap = true
					}
				}
				if !overlap {
					eExpr = ep.String()
					eVal, _ = doc.GetPath(ets[0].Path)
				}
			}
		}
		if eVal == nil {
			eVal = gen.SimpleValue(r, 1)
			eExpr = ref.Lit(eVal).String()
		}
		expr := pstr + " " + op + "= " + eExpr
		cs["expr"] = expr
		res.Tags = append(res.Tags, "op:"+op+"=")
		want := doc.Copy()
		var merr error
		for _, t := range targets {
			cur, _ := want.GetPath(t.Path)
			rs, err := ref.Eval(ref.Bin(op, ref.Self(), ref.Lit(eVal)), []*ref.V{cur}, ref.Env{T: &ref.Trace{}})
			if err != nil {
				merr = err
				break
			}
			if len(rs) > 0 {
				*cur = *rs[0].Copy()
			}
		}
		if errors.Is(merr, ref.ErrDomain) {
			res.Verdict, res.Detail, res.Nontrivial = mon.Held, "outside the modelled domain", false
			res.Tags = append(res.Tags, "excluded_domain")
			return res
		}
		got, _, yerr := evalDoc(expr, doc)
		res.Evals++
		if merr == nil && hasNonFinite([]*ref.V{want}) {
			res.Verdict, res.Detail, res.Nontrivial = mon.Held, "non-finite float result", false
			res.Tags = append(res.Tags, "excluded_domain")
			return res
		}
		if merr != nil {
			if yerr == nil {
				return fail("`%s`: `m %s e` is undefined for a match (%v) but yq succeeded with %s", expr, op, merr, got)
			}
			return hold("both report an error")
		}
		if yerr != nil {
			return fail("`%s` failed: %v\nexpected %s", expr, yerr, want)
		}
		if got == nil || !ref.EqualNum(got, want) {
			return fail("`%s`\n expected %s\n observed %s", expr, want, got)
		}
		return hold(fmt.Sprintf("%d match(es) updated", len(targets)))
	}
	return hold("?")
}

func pathShape(p ref.PathExpr) string {
	s := ""
	for _, st := range p.Steps {
		s += st.Kind[:1]
		if st.Kind == "idx" && st.Idx < 0 {
			s += "-"
		}
	}
	if p.Pred != nil {
		s += "?"
	}
	return s
}

func pathHasMultiAfterWrite(p ref.PathExpr) bool {
	for _, st := range p.Steps {
		if st.Kind == "splat" || st.Kind == "rdesc" {
			return true
		}
	}
	return p.Pred != nil
}

// frameViolation checks the frame condition on yq's own before/after documents.
func frameViolation(before, after *ref.V, targets []ref.Target) string {
	related := func(q []any) bool {
		for _, t := range targets {
			if ref.IsPrefix(t.Path, q) || ref.IsPrefix(q, t.Path) {
				return true
			}
		}
		return false
	}
	msg := ""
	before.Walk(nil, func(q []any, n *ref.V) {
		if msg != "" || related(q) {
			return
		}
		x, ok := after.GetPath(q)
		if !ok {
			msg = fmt.Sprintf("path %s disappeared", ref.PathString(q))
			return
		}
		if !ref.EqualNum(x, n) {
			msg = fmt.Sprintf("path %s changed from %s to %s", ref.PathString(q), n, x)
		}
	})
	if msg != "" {
		return msg
	}
	after.Walk(nil, func(q []any, n *ref.V) {
		if msg != "" || related(q) {
			return
		}
		if _, ok := before.GetPath(q); ok {
			return
		}
		// a new path that is not under a target: only null pads of a sequence on a target's spine are allowed
		if n.K == ref.Null && len(q) > 0 {
			if _, isIdx := q[len(q)-1].(int); isIdx {
				for _, t := range targets {
					if len(t.Path) >= len(q) && ref.IsPrefix(q[:len(q)-1], t.Path) {
						return
					}
				}
			}
		}
		msg = fmt.Sprintf("new path %s appeared outside the assigned locations", ref.PathString(q))
	})
	return msg
}

func spineTargets(paths [][]any) []ref.Target {
	var out []ref.Target
	for _, p := range paths {
		out = append(out, ref.Target{Path: p})
	}
	return out
}
