package props

import (
	"fmt"
	"math/rand/v2"
	"os"
	"path/filepath"
	"sort"
	"strings"
	"time"

	"verifharness/mon"
	"verifharness/ref"
)

// C19 — exit status and output tell the truth about what happened.
//
// Everything goes through the REAL binary (w.YqBin()) with real files in the worker's scratch
// directory, real argv, stdin, exit status and stderr. Six families, selected round-robin by
// the case index (idx % 6):
//
//	A complete-or-fail     multi-file / multi-document runs with a sentinel document last; exit 0 =>
//	                       the output of every format decodes (per-format reader) to the results an
//	                       independent evaluator of a small expression pool predicts
//	B injected failure     a syntax error / missing file / directory / type error / user error() /
//	                       unencodable result at (file j, document k) => exit != 0 and a message;
//	                       plus the result-shape x output-format sweep for silent drops
//	C -e / --exit-status   status 1 <=> no result or every result null/false (any spelling)
//	D -n / --null-input    stdin is a never-closed pipe holding invalid YAML; strace must show no read(0,...)
//	E automatic formats    `yq E f.EXT` == `yq -p=F -o=F E f.EXT`, decided by the FIRST file; unknown => yaml
//	F flags -N -r -0 -I    documented effect, cross-checked against the flag-less run
//
// Files: c19.go (this: registration, shared runner, value generator, independent evaluator),
// c19_read.go (per-format readers/judge), c19_a.go … c19_f.go (families).
type c19 struct{}

func init() { mon.Register(c19{}) }

func (c19) ID() string    { return "C19" }
func (c19) Level() string { return "exploration" }
func (c19) Rule() string {
	return "case idx -> family idx%7 (G = stdout is /dev/full: every write fails, yq must exit non-zero with a message for small and large outputs, eval/eval-all/-n; A complete-or-fail, B injected failure + shape x format sweep, C -e, D -n under strace, E automatic formats, F flags -N/-r/-0/-I); " +
		"every case is a set of real-binary runs over files generated from w.Rand(idx) (1-3 files x 1-4 documents, tame unique-leaf JSON-compatible YAML). " +
		"Non-trivial: A = >=2 documents and at least one exit-0 run whose output a reader decoded to the predicted results; " +
		"B = the injected failure was observed as exit!=0 at a position with at least one other document/file around it, or (sweep) the value has >=1 scalar leaf and >=1 format accepted and >=1 refused it or dropped nothing; " +
		"C = the expression produced >=1 result, or several documents produced none; D = strace log present, yq finished, and the positive control (yq reading stdin) showed read(0,...); " +
		"E = the extension names a non-yaml format, or two files with different formats were given; F = the flag changed the bytes of the output or triggered the documented refusal. " +
		"Distinct by family + hash of (argv, files)."
}
func (c19) Assumptions() []string {
	return []string{
		"values are tame on purpose (unique alphanumeric strings, ints < 2^31, no floats, plain keys): codec fidelity belongs to C06/C14, this check is about control flow (exit status, completeness, flags)",
		"expected results come from an independent evaluator of a fixed pool of path/selection expressions; computed-boolean expressions in family C take the value list from the same inputs run with -o=json -I0",
		"which encoder refuses which shape is read off the encoder sources (csv: arrays of scalars / arrays of arrays of scalars / arrays of flat maps; xml: top-level map or scalar; toml: scalars; base64/uri: strings; --lua-globals: top-level map; -0: no NUL in the text)",
		"strace -f -e trace=read,readv,pread64 sees every way the Go runtime can read fd 0",
		"a Go panic trace on stderr with exit 2 counts as a crash, never as a truthful error message",
	}
}
func (c19) Cases(tier string) int {
	if tier == "thorough" {
		return 18000
	}
	return 2100
}
func (c19) RaceCases(tier string) int { return 0 }
func (c19) Floor(tier string) int {
	if tier == "thorough" {
		return 6000
	}
	return 1000
}

var c19Families = []string{"A", "B", "C", "D", "E", "F", "G"}

func (p c19) Run(w *mon.Worker, idx int) mon.Result {
	r := w.Rand(idx)
	dir := filepath.Join(w.Scratch, fmt.Sprintf("c19-%d", idx))
	_ = os.MkdirAll(dir, 0o755)
	defer os.RemoveAll(dir)
	fam := c19Families[idx%len(c19Families)]
	c := &c19ctx{w: w, r: r, dir: dir, idx: idx, files: map[string]string{}}
	c.res.Tags = []string{"family:" + fam}
	switch fam {
	case "A":
		c.familyA()
	case "B":
		c.familyB()
	case "C":
		c.familyC()
	case "D":
		c.familyD()
	case "E":
		c.familyE()
	case "G":
		c.familyG()
	default:
		c.familyF()
	}
	return c.finish(fam)
}

// c19Groups: the sub-oracles; every one of them must contribute conclusive non-trivial cases to a run.
var c19Groups = []string{"A", "B-inject", "B-sweep", "C-spelled", "C-computed", "C-nullinput", "D-trace", "D-files",
	"E-ext", "E-unknown", "E-first", "E-single-flag", "E-stdin-or-outputonly", "F-N", "F-r", "F-0", "F-I", "G-stdout-full"}

// Finish enforces the per-family floor: every family (every sub-oracle of it) must have conclusive non-trivial
// cases. If one observed nothing (e.g. strace unavailable => all of D-trace inconclusive) an Inconclusive result
// is appended AND the non-trivial marks of the run are withdrawn, so that the run ends INCONCLUSIVE (exit 3)
// instead of passing on the strength of the other families.
func (c19) Finish(w *mon.Worker, results []mon.Result) []mon.Result {
	seen := map[string]int{}
	for _, r := range results {
		if r.Nontrivial && (r.Verdict == mon.Held || r.Verdict == mon.Finding) {
			if i := strings.IndexByte(r.Sig, '|'); i > 0 {
				seen[r.Sig[:i]]++
			}
		}
	}
	var missing []string
	for _, g := range c19Groups {
		if seen[g] == 0 {
			missing = append(missing, g)
		}
	}
	if len(missing) == 0 {
		return results
	}
	for i := range results {
		results[i].Nontrivial = false
	}
	return append(results, mon.Result{Idx: -1, Verdict: mon.Inconclusive, Tags: []string{"family_floor_missed:" + strings.Join(missing, ",")},
		Detail: "no conclusive non-trivial case in sub-oracle(s) " + strings.Join(missing, ", ") + "; the run cannot count as a pass"})
}

// ---- per-case context ----------------------------------------------------------------------

type c19ctx struct {
	envExtra []string // extra environment of the next yq runs (nil: the default)
	w        *mon.Worker
	r        *rand.Rand
	dir      string
	idx      int
	res      mon.Result
	files    map[string]string // name -> text written into the scratch dir (for the replay file)
	cmds     []string          // every yq command line of the case
	timedOut bool
	leafN    int    // counter for unique leaf strings
	group    string // floor group (sub-oracle) of the case; first component of Sig
	extra    map[string]any
}

func (c *c19ctx) tag(t ...string) { c.res.Tags = append(c.res.Tags, t...) }

func (c *c19ctx) note(k string, v any) {
	if c.extra == nil {
		c.extra = map[string]any{}
	}
	c.extra[k] = v
}

// violate records the first violation of the case.
func (c *c19ctx) violate(format string, a ...any) {
	if c.res.Verdict == mon.Violated {
		return
	}
	c.res.Verdict = mon.Violated
	c.res.FindingID = ""
	c.res.Detail = fmt.Sprintf(format, a...)
}

// finding records a deviation that a listed matcher explains exactly (never overrides a violation).
func (c *c19ctx) finding(id, format string, a ...any) {
	c.tag("finding:" + id)
	if c.res.Verdict == mon.Violated || c.res.Verdict == mon.Finding {
		return
	}
	c.res.Verdict = mon.Finding
	c.res.FindingID = id
	c.res.Detail = fmt.Sprintf(format, a...)
}

func (c *c19ctx) inconclusive(format string, a ...any) {
	if c.res.Verdict == "" {
		c.res.Verdict = mon.Inconclusive
		c.res.Detail = fmt.Sprintf(format, a...)
	}
}

// say sets the human-readable observation of a case that has no verdict yet (never hides a violation/finding text).
func (c *c19ctx) say(s string) {
	if c.res.Verdict == "" {
		c.res.Detail = s
	}
}

func (c *c19ctx) bad() bool { return c.res.Verdict == mon.Violated }

func (c *c19ctx) write(name, text string) {
	p := filepath.Join(c.dir, name)
	_ = os.MkdirAll(filepath.Dir(p), 0o755)
	_ = os.WriteFile(p, []byte(text), 0o644)
	c.files[name] = text
}

func c19Quote(args []string) string {
	var sb strings.Builder
	sb.WriteString("yq")
	for _, a := range args {
		sb.WriteByte(' ')
		if a != "" && strings.IndexFunc(a, func(r rune) bool {
			return !(r >= 'a' && r <= 'z' || r >= 'A' && r <= 'Z' || r >= '0' && r <= '9' || strings.ContainsRune("-_=./,:+@%", r))
		}) < 0 {
			sb.WriteString(a)
		} else {
			sb.WriteString("'" + strings.ReplaceAll(a, "'", `'\''`) + "'")
		}
	}
	return sb.String()
}

// yq runs the real binary in the case directory (clean environment, /dev/null or the given bytes on stdin).
func (c *c19ctx) yq(stdin []byte, args ...string) mon.ExecResult {
	c.res.Evals++
	line := c19Quote(args)
	if stdin != nil {
		line += "   # stdin: " + fmt.Sprintf("%q", clipStr(string(stdin), 60))
	}
	opts := mon.RunOpts{Dir: c.dir, Stdin: stdin, Wall: 45 * time.Second}
	if c.envExtra != nil {
		opts.Env = mon.CleanEnv(c.envExtra...)
		line += "   # env " + strings.Join(c.envExtra, " ")
	}
	x := mon.Run(opts, append([]string{c.w.YqBin()}, args...)...)
	if x.Exit == -2 || x.Signal == 9 || x.Signal == 24 {
		// the harness could not run/collect the process (overloaded machine: "WaitDelay expired", fork failure) or it was
		// killed from outside / by the CPU rlimit: nothing was observed, so nothing is decided
		x.TimedOut = true
		c.tag("exec_failure")
	}
	if x.TimedOut {
		c.timedOut = true
		line += "   # TIMED OUT / NOT RUN: " + clipStr(string(x.Stderr), 80)
	} else {
		line += fmt.Sprintf("   # exit %d", x.Exit)
		c.tag(fmt.Sprintf("exit:%d", x.Exit))
	}
	c.cmds = append(c.cmds, line)
	return x
}

func (c *c19ctx) finish(fam string) mon.Result {
	cs := map[string]any{"family": fam, "commands": c.cmds, "files": c.files}
	for k, v := range c.extra {
		cs[k] = v
	}
	c.res.Case = cs
	if c.res.Sig == "" {
		var names []string
		for n := range c.files {
			names = append(names, n)
		}
		sort.Strings(names)
		var sb strings.Builder
		for _, n := range names {
			sb.WriteString(n + "\x00" + c.files[n] + "\x00")
		}
		for _, l := range c.cmds {
			if i := strings.Index(l, "   # "); i >= 0 {
				l = l[:i]
			}
			sb.WriteString(l + "\x00")
		}
		g := c.group
		if g == "" {
			g = fam
		}
		c.res.Sig = fmt.Sprintf("%s|%x", g, hashStr(sb.String()))
	}
	if c.timedOut && c.res.Verdict != mon.Violated {
		// a wall-clock timeout never decides anything (family D decides hangs with strace before it gets here)
		c.res.Verdict = mon.Inconclusive
		c.res.Detail = "a yq run hit the wall-clock watchdog: " + c.res.Detail
	}
	if c.res.Verdict == "" {
		c.res.Verdict = mon.Held
	}
	if c.res.Verdict == mon.Inconclusive {
		c.res.Nontrivial = false
	}
	if c.res.Verdict == mon.Violated || c.res.Verdict == mon.Finding {
		c.res.Detail += "\ncommands:\n  " + strings.Join(c.cmds, "\n  ")
	}
	return c.res
}

// crashed reports a Go panic / fatal error / signal death of yq.
func c19Crashed(x mon.ExecResult) bool {
	if x.Signal != 0 {
		return true
	}
	s := string(x.Stderr)
	return x.Exit == 2 && (strings.Contains(s, "panic:") || strings.Contains(s, "fatal error:") || strings.Contains(s, "goroutine "))
}

// failedProperly checks "non-zero exit AND a message on stderr AND not a crash"; what names the situation.
func (c *c19ctx) failedProperly(x mon.ExecResult, what string) bool {
	switch {
	case x.TimedOut:
		return false
	case c19Crashed(x):
		c.violate("%s: yq crashed instead of reporting an error (exit %d signal %d): %s", what, x.Exit, x.Signal, clipStr(string(x.Stderr), 500))
		return false
	case x.Exit == 0:
		c.violate("%s: expected a non-zero exit status, got 0; stdout=%q stderr=%q", what, clipStr(string(x.Stdout), 300), clipStr(string(x.Stderr), 300))
		return false
	case len(strings.TrimSpace(string(x.Stderr))) == 0:
		c.violate("%s: exit %d but nothing on stderr", what, x.Exit)
		return false
	}
	return true
}

// ---- tame value generator with unique leaves ---------------------------------------------------

var c19Words = []string{"cat", "dog", "zed", "foo", "bar", "abc", "kiwi", "plum", "fig", "oak"}
var c19Keys = []string{"a", "b", "c", "d", "x", "y", "k", "id", "name", "v"}

func (c *c19ctx) str() *ref.V {
	c.leafN++
	return ref.StrV(fmt.Sprintf("w%d%s", c.leafN, c19Words[c.r.IntN(len(c19Words))]))
}

func (c *c19ctx) intv() *ref.V {
	c.leafN++
	// unique by construction: the counter is in the high digits
	n := int64(c.leafN)*1000 + int64(c.r.IntN(1000))
	if c.r.IntN(4) == 0 {
		n = -n
	}
	return ref.IntV(n)
}

// scalar: mostly unique strings and ints; some bools, nulls and (when allowed) the empty string.
func (c *c19ctx) scalar() *ref.V {
	switch c.r.IntN(12) {
	case 0:
		return ref.NullV()
	case 1:
		return ref.BoolV(c.r.IntN(2) == 0)
	case 2, 3, 4:
		return c.intv()
	case 5:
		if c.r.IntN(3) == 0 {
			return ref.StrV("")
		}
		return c.str()
	default:
		return c.str()
	}
}

func (c *c19ctx) flatSeq(min int, gen func() *ref.V) *ref.V {
	s := &ref.V{K: ref.Seq, A: []*ref.V{}}
	n := min + c.r.IntN(4)
	for i := 0; i < n; i++ {
		s.A = append(s.A, gen())
	}
	return s
}

func (c *c19ctx) flatMap(min int, gen func() *ref.V) *ref.V {
	m := &ref.V{K: ref.Map, M: []ref.KV{}}
	n := min + c.r.IntN(4)
	perm := c.r.Perm(len(c19Keys))
	for i := 0; i < n && i < len(perm); i++ {
		m.M = append(m.M, ref.KV{K: c19Keys[perm[i]], V: gen()})
	}
	return m
}

// value: any shape up to the given depth.
func (c *c19ctx) value(depth int) *ref.V {
	if depth <= 0 || c.r.IntN(100) < 45 {
		return c.scalar()
	}
	if c.r.IntN(2) == 0 {
		return c.flatMap(0, func() *ref.V { return c.value(depth - 1) })
	}
	return c.flatSeq(0, func() *ref.V { return c.value(depth - 1) })
}

// leaves lists the scalar leaves of v in document order.
func c19Leaves(v *ref.V, out *[]*ref.V) {
	switch v.K {
	case ref.Seq:
		for _, x := range v.A {
			c19Leaves(x, out)
		}
	case ref.Map:
		for _, e := range v.M {
			c19Leaves(e.V, out)
		}
	default:
		*out = append(*out, v)
	}
}

// c19Text is the text yq holds for a scalar that was written as JSON text: the string itself, or the JSON literal.
func c19Text(v *ref.V) string {
	if v.K == ref.Str {
		return v.S
	}
	return v.JSON()
}

// ---- the independent evaluator of the expression pool ------------------------------------------

type c19Expr struct {
	src    string
	eval   func(doc *ref.V) []*ref.V
	eaSame bool // eval-all over several documents yields the same sequence as per-document evaluation
}

// c19Constructed: expressions whose results are new nodes rather than nodes of the input documents.
var c19Constructed = map[string]bool{"[.a, .b]": true, `{"k": .a}`: true, "to_entries": true, `.a // "dflt"`: true}

func c19Field(doc *ref.V, k string) *ref.V {
	if doc.K == ref.Map {
		if v, ok := doc.Get(k); ok {
			return v
		}
	}
	return ref.NullV()
}

func c19Truthy(v *ref.V) bool { return !(v.K == ref.Null || (v.K == ref.Bool && !v.B)) }

var c19Pool = map[string]c19Expr{
	".":  {".", func(d *ref.V) []*ref.V { return []*ref.V{d} }, true},
	".a": {".a", func(d *ref.V) []*ref.V { return []*ref.V{c19Field(d, "a")} }, true},
	".l": {".l", func(d *ref.V) []*ref.V { return []*ref.V{c19Field(d, "l")} }, true},
	".a, .b": {".a, .b", func(d *ref.V) []*ref.V {
		return []*ref.V{c19Field(d, "a"), c19Field(d, "b")}
	}, false},
	".l[]": {".l[]", func(d *ref.V) []*ref.V {
		l := c19Field(d, "l")
		switch l.K {
		case ref.Seq:
			return append([]*ref.V{}, l.A...)
		case ref.Map:
			var out []*ref.V
			for _, e := range l.M {
				out = append(out, e.V)
			}
			return out
		}
		return nil
	}, true},
	"[.a, .b]": {"[.a, .b]", func(d *ref.V) []*ref.V {
		return []*ref.V{ref.SeqV(c19Field(d, "a"), c19Field(d, "b"))}
	}, false},
	`{"k": .a}`: {`{"k": .a}`, func(d *ref.V) []*ref.V {
		return []*ref.V{ref.MapV(ref.KV{K: "k", V: c19Field(d, "a")})}
	}, false},
	`.a // "dflt"`: {`.a // "dflt"`, func(d *ref.V) []*ref.V {
		if a := c19Field(d, "a"); c19Truthy(a) {
			return []*ref.V{a}
		}
		return []*ref.V{ref.StrV("dflt")}
	}, false},
	"select(.b != null)": {"select(.b != null)", func(d *ref.V) []*ref.V {
		if c19Field(d, "b").K == ref.Null {
			return nil
		}
		return []*ref.V{d}
	}, true},
	"to_entries": {"to_entries", func(d *ref.V) []*ref.V {
		s := &ref.V{K: ref.Seq, A: []*ref.V{}}
		for _, e := range d.M {
			s.A = append(s.A, ref.MapV(ref.KV{K: "key", V: ref.StrV(e.K)}, ref.KV{K: "value", V: e.V}))
		}
		return []*ref.V{s}
	}, false},
	`.. | select(tag == "!!str")`: {`.. | select(tag == "!!str")`, func(d *ref.V) []*ref.V {
		var lv, out []*ref.V
		c19Leaves(d, &lv)
		for _, x := range lv {
			if x.K == ref.Str {
				out = append(out, x)
			}
		}
		return out
	}, true},
}

// ---- inputs: files x documents ----------------------------------------------------------------

type c19Doc struct {
	v    *ref.V // nil for an injected broken document
	text string // the document's text (no separator)
}

type c19File struct {
	name    string
	docs    []c19Doc
	stdin   bool // handed over as "-"
	missing bool // named on the command line but not created
	isDir   bool // a directory of that name is created instead
	lead    bool // text starts with an explicit "---"
	json    bool // a JSON stream: documents separated by a line break, no "---"
}

func (f *c19File) text() string {
	var sb strings.Builder
	for i, d := range f.docs {
		if (i > 0 || f.lead) && !f.json {
			sb.WriteString("---\n")
		}
		sb.WriteString(d.text)
		sb.WriteString("\n")
	}
	return sb.String()
}

// layout picks 1-3 files x 1-4 documents; every document is produced by mk(fileIdx, docIdx, isLast).
func (c *c19ctx) layout(mk func(fi, di int, last bool) *ref.V) []*c19File {
	nf := 1 + c.r.IntN(3)
	files := make([]*c19File, nf)
	for fi := range files {
		nd := 1 + c.r.IntN(4)
		f := &c19File{name: fmt.Sprintf("f%d.%s", fi, []string{"yaml", "yml", "yaml", "txt"}[c.r.IntN(4)]), lead: c.r.IntN(4) == 0}
		for di := 0; di < nd; di++ {
			v := mk(fi, di, fi == nf-1 && di == nd-1)
			f.docs = append(f.docs, c19Doc{v: v, text: v.JSON()})
		}
		files[fi] = f
	}
	return files
}

// materialise writes the files; at most one of them may be handed over on stdin. It returns the argv tail and the stdin bytes.
func (c *c19ctx) materialise(files []*c19File, allowStdin bool) ([]string, []byte) {
	var args []string
	var stdin []byte
	si := -1
	if allowStdin && c.r.IntN(5) == 0 {
		si = c.r.IntN(len(files))
		if files[si].missing || files[si].isDir {
			si = -1
		}
	}
	for i, f := range files {
		switch {
		case i == si:
			f.stdin = true
			stdin = []byte(f.text())
			c.files["(stdin)"] = f.text()
			args = append(args, "-")
			c.tag("stdin_as_file")
		case f.missing:
			args = append(args, f.name)
		case f.isDir:
			_ = os.MkdirAll(filepath.Join(c.dir, f.name), 0o755)
			args = append(args, f.name)
		default:
			c.write(f.name, f.text())
			args = append(args, f.name)
		}
	}
	return args, stdin
}

func c19DocCount(files []*c19File) int {
	n := 0
	for _, f := range files {
		n += len(f.docs)
	}
	return n
}
