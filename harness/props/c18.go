package props

import (
	"fmt"
	"os"
	"regexp"
	"sort"
	"strings"
	"time"

	"verifharness/mon"
)

// C18 — evaluation is deterministic and independent of earlier or concurrent runs.
//
// Three case families (see c18_fam.go):
//
//	repeat    the real binary run 5 times on the same (expression, files, flags, environment):
//	          stdout, stderr and exit status must be byte-identical
//	history   one worker process evaluates a seeded sequence of pool entries, re-using the global
//	          parser, parsed trees, decoders, encoders and printers; every step must give what the
//	          real binary gives for that entry alone in a fresh process, and VerifGlobalFingerprint()
//	          must keep its start-of-process value after every step
//	schedules G goroutines x GOMAXPROCS P, each with its own evaluator/decoder/encoder/printer/
//	          documents, released by a barrier; every result must equal the fresh answer; in the
//	          -race build the Go race detector watches and each report is classified
type c18 struct{}

func init() { mon.Register(c18{}) }

func (c18) ID() string    { return "C18" }
func (c18) Level() string { return "exploration" }
func (c18) Rule() string {
	return "pool = " + fmt.Sprint(len(c18Pool)) + " fixed (expression, file(s), -p, -o, eval|eval-all|null-input) entries over 17 documents in 10 input formats and 11 output formats " +
		"(map/sort-heavy operators, every codec operator, envsubst with and without options, load*, assignments on literals, with/eval/interpolation/date operators, run-time failures, parse failures). " +
		"repeat: entry (+ optional extra flags) run 5x by the real binary; non-trivial = stdout non-empty. " +
		"history: seeded sequence of 120 (thorough 160) steps over a working set of entries in ONE process with shared parser/trees/decoders/encoders/printers, each step compared with the " +
		"real binary's one-shot answer, global fingerprint compared after every step; non-trivial = at least 2 distinct entries. " +
		"schedules: G in {2,4,16} goroutines x GOMAXPROCS in {1,2,16}, own objects per goroutine, concurrent parse phase then evaluation steps (a share parsing afresh), each result compared with the " +
		"real binary's answer, fingerprint compared after the join; non-trivial = at least one pair of evaluations of different goroutines overlapped in time (monotonic stamps). " +
		"Distinct by family + hash of the sequence / plan."
}
func (c18) Assumptions() []string {
	return []string{
		"time/random/environment-reading operators now, shuffle, env(), strenv() are excluded; envsubst is included with a fixed environment",
		"the hh:mm:ss stamp go-logging puts in front of [WARNING] lines on stderr is masked before comparing runs",
		"fresh state = a new yq process; the in-process steps call the same exported constructors and evaluators cmd/ calls, with the Configured*Preferences globals set once per case to what `yq --unwrapScalar=<v>` derives from its flags",
		"a Printer is shared between steps only when every result it prints sits in document 0 of file 0 (a document separator after a change of document index is the printer's documented behaviour, not history dependence); after a step that ended in an error its encoder and printer are not used again (the CLI exits)",
		"goroutines share nothing but yqlib's package-level state and read-only files; the harness takes no lock and touches no shared variable between the start barrier and the join",
		"race reports are those of the Go race detector on the schedules executed; absence of a report is not absence of a race",
	}
}
func (c18) Cases(tier string) int {
	if tier == "thorough" {
		return 15000
	}
	return 600
}
func (c18) RaceCases(tier string) int {
	// multiples of 16 so that the parent's 16 race jobs are equally long
	if tier == "thorough" {
		return 2944 // 15000/2944 = stride 5 (see c18Stride), 16 x 184
	}
	return 192
}
func (c18) Floor(tier string) int {
	if tier == "thorough" {
		return 5000
	}
	return 200
}

// The parent re-runs indices k*stride (stride = Cases/RaceCases) in the -race build: those are all
// made schedule cases, the other residues alternate between the families.
func c18Family(tier string, idx int) string {
	if tier == "thorough" {
		return [5]string{"schedules", "history", "repeat", "history", "schedules"}[idx%5]
	}
	return [3]string{"schedules", "history", "repeat"}[idx%3]
}
func c18Stride(tier string) int {
	if tier == "thorough" {
		return 5
	}
	return 3
}

func (p c18) Run(w *mon.Worker, idx int) mon.Result {
	if err := c18Setup(w); err != nil {
		return mon.Result{Verdict: mon.Inconclusive, Detail: "setup: " + err.Error()}
	}
	t0, b0 := time.Now(), c18st.binCalls
	var res mon.Result
	if idx%10 == 9 && !w.Race {
		return c18NulPrinter(w, idx)
	}
	if idx%20 == 4 && !w.Race {
		return c18StringEvaluator(w, idx)
	}
	switch c18Family(w.Tier, idx) {
	case "repeat":
		res = c18RunRepeat(w, idx)
	case "history":
		res = c18RunHistory(w, idx)
	default:
		res = c18RunSchedules(w, idx)
	}
	// bookkeeping only (never part of a verdict)
	res.Detail += fmt.Sprintf("\n[case took %d ms; %d one-shot reference runs of the binary made by this case]", time.Since(t0).Milliseconds(), c18st.binCalls-b0)
	return res
}

// ---------------------------------------------------------------------------------------------
// race reports
// ---------------------------------------------------------------------------------------------

type c18Access struct {
	Write  bool
	Frames []string // innermost first
}

var (
	c18AccHdrRe = regexp.MustCompile(`^(Previous )?([Aa]tomic )?([Rr]ead|[Ww]rite) at 0x[0-9a-f]+ by `)
	c18FrameRe  = regexp.MustCompile(`^  ([^ ].*)\(\)$`)
)

// c18ParseRace extracts the two access stacks (not the goroutine creation stacks) of a report.
func c18ParseRace(block string) []c18Access {
	var out []c18Access
	var cur *c18Access
	for _, ln := range strings.Split(block, "\n") {
		if m := c18AccHdrRe.FindStringSubmatch(ln); m != nil {
			out = append(out, c18Access{Write: strings.EqualFold(m[3], "write")})
			cur = &out[len(out)-1]
			continue
		}
		if strings.HasPrefix(ln, "Goroutine ") || strings.HasPrefix(ln, "====") {
			cur = nil
			continue
		}
		if cur != nil {
			if m := c18FrameRe.FindStringSubmatch(ln); m != nil {
				cur.Frames = append(cur.Frames, c18NormFrame(m[1]))
			}
		}
	}
	return out
}

const yqPkg = "github.com/mikefarah/yq/v4/pkg/yqlib."

var c18ClosureRe = regexp.MustCompile(`\.func\d+(\.\d+)*$`)
var c18InlineChainRe = regexp.MustCompile(`^(?:[A-Za-z0-9_]+\.)*([A-Za-z0-9_]+\.funcN)$`)

// c18NormFrame makes closure names independent of inlining and numbering:
// yqlib.init.envSubstWithOptions.func61 and yqlib.envSubstWithOptions.func1 both become yqlib.envSubstWithOptions.funcN.
func c18NormFrame(f string) string {
	if !strings.HasPrefix(f, yqPkg) {
		return f
	}
	f = c18ClosureRe.ReplaceAllString(f[len(yqPkg):], ".funcN")
	// closures of functions inlined into their callers carry the whole chain (init.envSubstWithOptions.func61,
	// simpleOp.opToken.opTokenWithPrefs.func1): keep the function that contains the closure
	if m := c18InlineChainRe.FindStringSubmatch(f); m != nil {
		f = m[1]
	}
	return yqPkg + f
}

func c18HasFrame(a c18Access, fn string) bool {
	for _, f := range a.Frames {
		if f == fn {
			return true
		}
	}
	return false
}
func c18InnermostYq(a c18Access) string {
	for _, f := range a.Frames {
		if strings.Contains(f, "github.com/mikefarah/yq") {
			return f
		}
	}
	return ""
}

// Readers of operationType.Type on the pinned tree: the token constructors reached from
// ParseExpression, Operation.toString (evaluated for every debug log call, also while evaluating) and
// the three "got <type> instead" error texts.
var c18TypeReaders = map[string]bool{
	yqPkg + "envSubstWithOptions.funcN": true,
	yqPkg + "opTokenWithPrefs.funcN":    true,
	yqPkg + "(*Operation).toString":     true,
	yqPkg + "withOperator":              true,
	yqPkg + "setPathOperator":           true,
	yqPkg + "reduceOperator":            true,
}

// ClassifyRace: any report whose access stacks involve yq code is a violation unless it matches a
// listed known finding exactly.
func (c18) ClassifyRace(key, block string) (string, string) {
	acc := c18ParseRace(block)
	if len(acc) < 2 {
		if strings.Contains(block, "github.com/mikefarah/yq") {
			return mon.Violated, ""
		}
		return "", ""
	}
	a, b := acc[0], acc[1]
	ya, yb := c18InnermostYq(a), c18InnermostYq(b)
	if ya == "" && yb == "" {
		return "", "" // no yq code in either access stack: not a statement about yq
	}
	// C18-envsubst-optype-mutation: one side is the write (or read-modify-write) of envsubstOpType.Type
	// done directly inside the envSubstWithOptions lexer action, reached from ParseExpression; the other side
	// is that same action or one of the readers of operationType.Type, as the innermost frame.
	const w = yqPkg + "envSubstWithOptions.funcN"
	const pe = yqPkg + "(*expressionParserImpl).ParseExpression"
	top := func(x c18Access) string {
		if len(x.Frames) == 0 {
			return ""
		}
		return x.Frames[0]
	}
	for _, pair := range [][2]c18Access{{a, b}, {b, a}} {
		x, y := pair[0], pair[1]
		if x.Write && top(x) == w && c18HasFrame(x, pe) && c18TypeReaders[top(y)] {
			return mon.Finding, "C18-envsubst-optype-mutation"
		}
	}
	// C18-load-shared-decoder: both sides run inside loadWithDecoder (the decoder instance embedded in the lexer rule)
	const ld = yqPkg + "loadWithDecoder"
	if c18HasFrame(a, ld) && c18HasFrame(b, ld) {
		return mon.Finding, "C18-load-shared-decoder"
	}
	return mon.Violated, ""
}

// c18OwnRaceLog reads the reports the race runtime of THIS process has appended to its log since the
// last call (GORACE log_path=<scratch>/race → <scratch>/race.<pid>), so that a report can be attributed
// to the case that produced it.
var c18RaceOff int64

func c18NewRaceBlocks(w *mon.Worker) []string {
	if !w.Race {
		return nil
	}
	name := fmt.Sprintf("%s/race.%d", w.Scratch, os.Getpid())
	b, err := os.ReadFile(name)
	if err != nil || int64(len(b)) <= c18RaceOff {
		return nil
	}
	s := string(b[c18RaceOff:])
	c18RaceOff = int64(len(b))
	var out []string
	for _, blk := range strings.Split(s, "WARNING: DATA RACE") {
		if !strings.Contains(blk, " at 0x") {
			continue // separator lines before the first report
		}
		out = append(out, "WARNING: DATA RACE"+blk)
	}
	return out
}

// ---------------------------------------------------------------------------------------------
// worker deaths
// ---------------------------------------------------------------------------------------------

var c18FatalRe = regexp.MustCompile(`(?m)^fatal error: (.*)$`)

// ClassifyDeath: a Go fatal error the runtime raises only when it has detected the condition (concurrent map
// access, unlock of unlocked mutex, checkptr) with yq frames on the stack, while a history/schedules case runs,
// is the property failing in the hardest way; a CPU-budget overrun and anything else is undecided.
func (p c18) ClassifyDeath(w *mon.Worker, idx int, kind, stderr string) mon.Result {
	fam := c18Family(w.Tier, idx)
	res := mon.Result{Sig: fmt.Sprintf("death|%d", idx), Case: map[string]any{"family": fam, "idx": idx}, Tags: []string{"fam:" + fam}}
	msg := ""
	if m := c18FatalRe.FindStringSubmatch(stderr); m != nil {
		msg = m[1]
	}
	inYq := strings.Contains(stderr, "github.com/mikefarah/yq/v4/pkg/yqlib.")
	loadMode := false
	if fam == "schedules" {
		loadMode = c18SchedMode(w, idx) == "load"
	}
	switch {
	case fam == "repeat":
		res.Verdict, res.Detail = mon.Inconclusive, "worker died in a repeat case (no yq code runs in the worker there)\n"+clipStr(stderr, 1500)
	case loadMode && inYq && strings.Contains(stderr, yqPkg+"loadWithDecoder"):
		res.Verdict, res.FindingID = mon.Finding, "C18-load-shared-decoder"
		res.Detail = kind + ": " + msg + " with loadWithDecoder on the stack\n" + clipStr(stderr, 2500)
	case kind == "cpu_hang":
		// CPU time is not evidence here: on a machine under memory pressure the race build has been seen to burn
		// 15 s of (mostly system) CPU on a case that takes 1.4 s when replayed. Hangs of single evaluations are C11's.
		res.Verdict = mon.Inconclusive
		res.Tags = append(res.Tags, "cpu_budget_exceeded")
		res.Detail = fmt.Sprintf("%s case exceeded %v of CPU time; not decided (replay it: ./check C18 %s --replay <file>)", fam, mon.CPUBudget, w.Tier)
	case msg != "" && inYq && (strings.Contains(msg, "concurrent map") || strings.Contains(msg, "unlock of unlocked") || strings.Contains(msg, "checkptr")):
		res.Verdict = mon.Violated
		res.Nontrivial = true
		res.Detail = "FATAL " + msg + " in a " + fam + " case\n" + clipStr(stderr, 2500)
	default:
		res.Verdict = mon.Inconclusive
		res.Detail = kind + " " + msg + "\n" + clipStr(stderr, 1500)
	}
	return res
}

// ---------------------------------------------------------------------------------------------
// evidence helpers
// ---------------------------------------------------------------------------------------------

var c18OpNames = []string{"sort_by", "sort_keys", "sort", "group_by", "unique_by", "unique", "to_entries", "from_entries", "with_entries", "pivot", "keys",
	"envsubst", "load_str", "load_props", "load_xml", "load_base64", "load", "with", "eval", "to_json", "from_json", "@json", "to_yaml", "from_yaml", "to_props",
	"from_props", "to_xml", "from_xml", "@xml", "@csv", "@tsv", "from_csv", "@tsvd", "@base64d", "@base64", "@uri", "@urid", "@sh", "format_datetime", "tz",
	"to_unix", "from_unix", "with_dtf", "ireduce", "flatten", "split_doc", "explode", "anchor", "alias", "line_comment", "head_comment", "comments", "style",
	"tag", "select", "map_values", "map", "filter", "pick", "omit", "del", "delpaths", "setpath", "path", "parent", "has", "contains", "any_c", "all_c", "any", "all",
	"test", "match", "capture", "sub", "split", "join", "upcase", "downcase", "trim", "to_number", "to_string", "length", "kind", "key", "reverse", "min", "max",
	"array_to_map", "error", "line", "column", "filename", "file_index", "document_index", "*", "//", "+=", "|=", "\\("}

func c18OpTags(exprs map[string]bool) []string {
	seen := map[string]bool{}
	for e := range exprs {
		rest := e
		for _, op := range c18OpNames {
			if strings.Contains(rest, op) {
				seen[op] = true
				if len(op) > 3 {
					rest = strings.ReplaceAll(rest, op, " ") // longest names come first in the list: do not count `sort` inside `sort_by`
				}
			}
		}
	}
	var out []string
	for op := range seen {
		out = append(out, "op:"+op)
	}
	sort.Strings(out)
	return out
}

func c18Bucket(n int) string {
	switch {
	case n == 0:
		return "0"
	case n < 10:
		return "1-9"
	case n < 100:
		return "10-99"
	case n < 1000:
		return "100-999"
	default:
		return "1000+"
	}
}

func c18Repeat(tag string, n int) []string {
	out := make([]string, n)
	for i := range out {
		out[i] = tag
	}
	return out
}
