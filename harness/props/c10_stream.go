package props

import (
	"fmt"
	"strings"

	"verifharness/mon"
)

// ---- the byte oracle shared by O1 / O5 ------------------------------------------------------
//
// expected(stdout of `yq E f1..fn`) = outputs of `yq E <doc alone in its own file>` for every
// document of every file in order, skipping empty outputs, joined by "---\n" (nothing with -N).
// If the expression fails on document k alone, the stream must fail too and must have printed
// exactly the outputs of the documents before k (plus whatever the failing run printed).
//
// Nothing here looks at printer.go: the joining rule is the property's ("joined by document
// separators"), the pieces are yq's own answers on one document at a time.

const (
	c10FindingA = "C10-separator-between-results-of-one-doc-in-later-files"
	c10FindingB = "C10-derived-root-results-lose-document-provenance"
)

type c10DocPos struct {
	File, Doc int // file index on the command line (empty files count), document index inside the file
	Text      string
}

func c10Positions(files []c10File) []c10DocPos {
	var ps []c10DocPos
	for fi, f := range files {
		for di, d := range f.Docs {
			ps = append(ps, c10DocPos{fi, di, d})
		}
	}
	return ps
}

type c10Verdict struct {
	Verdict string
	Finding string
	Detail  string
	Tags    []string
}

func c10Held(detail string, tags ...string) c10Verdict {
	return c10Verdict{Verdict: mon.Held, Detail: detail, Tags: tags}
}

// c10CheckStream runs the combined command and the per-document commands and compares bytes.
func c10CheckStream(x *c10Exec, solo *c10SoloCache, expr string, files []c10File, names []string, stdin []byte, noSep bool) c10Verdict {
	fl := c10Flags{NoSep: noSep}
	comb := x.run(expr, names, fl, stdin)
	if comb.TimedOut {
		return c10Verdict{Verdict: mon.Inconclusive, Detail: "combined run timed out"}
	}
	ps := c10Positions(files)
	sep := "---\n"
	if noSep {
		sep = ""
	}
	var outs []string // per document, "" when nothing was printed
	failAt := -1
	for i, p := range ps {
		o := solo.run(expr, p.Text, fl)
		if o.TimedOut {
			return c10Verdict{Verdict: mon.Inconclusive, Detail: "per-document run timed out"}
		}
		outs = append(outs, o.Stdout)
		if o.Failed {
			failAt = i
			break
		}
	}
	var parts []string
	for _, o := range outs {
		if o != "" {
			parts = append(parts, o)
		}
	}
	expected := strings.Join(parts, sep)
	tags := []string{}
	if failAt >= 0 {
		tags = append(tags, "error-doc")
		// a stream whose k-th document makes E fail must fail, having printed the earlier documents
		if !comb.Failed {
			return c10Verdict{Verdict: mon.Violated, Tags: tags, Detail: fmt.Sprintf(
				"[%s] E fails on document #%d alone (file %d doc %d) but the stream run exited 0\nE: %s\nstdout: %s",
				x.kind(), failAt, ps[failAt].File, ps[failAt].Doc, expr, c10Clip(comb.Stdout))}
		}
		if comb.Stdout == expected {
			return c10Held(fmt.Sprintf("stream fails at document #%d like the single run; %d bytes before it match", failAt, len(expected)), tags...)
		}
	} else {
		if comb.Failed {
			return c10Verdict{Verdict: mon.Violated, Tags: tags, Detail: fmt.Sprintf(
				"[%s] E succeeds on each of the %d documents alone but the stream run failed: %s\nE: %s\nstdout: %s",
				x.kind(), len(ps), c10Clip(comb.Stderr), expr, c10Clip(comb.Stdout))}
		}
		if comb.Stdout == expected {
			return c10Held(fmt.Sprintf("%d documents, %d with output, %d bytes equal", len(ps), len(parts), len(expected)), tags...)
		}
	}
	// ---- mismatch: is it exactly one of the recorded separator defects? -------------------
	v := c10Verdict{Verdict: mon.Violated, Tags: tags}
	v.Detail = fmt.Sprintf("[%s] stream output differs from the per-document outputs joined by %q\nE: %s\nexpected: %s\nobserved: %s",
		x.kind(), sep, expr, c10Clip(expected), c10Clip(comb.Stdout))
	if noSep {
		return v
	}
	if c10KeepsProvenance(expr) {
		// pick / omit hand out a copy of the node WITH its place in the stream: the recorded deviation about derived
		// root results does not cover them
		v.Detail += "\n(pick / omit keep the document a result belongs to: no finding matcher applies)"
		return v
	}
	rs, why := c10SplitResults(solo, expr, ps[:len(outs)], outs)
	if rs == nil && strings.HasPrefix(why, "timeout") {
		return c10Verdict{Verdict: mon.Inconclusive, Tags: tags, Detail: "a classification run did not complete (" + why + ")\n" + v.Detail}
	}
	if rs == nil {
		v.Detail += "\n(no finding matcher applicable: " + why + ")"
		return v
	}
	if c10Simulate(rs, false, false) != expected {
		v.Detail += "\n(no finding matcher applicable: per-result split does not reproduce the expected text)"
		return v
	}
	mA, mB, mAB := c10Simulate(rs, true, false), c10Simulate(rs, false, true), c10Simulate(rs, true, true)
	// comb.Stdout != expected here, so a model that reproduces it differs from the expectation: the
	// structural feature of the finding (a later-file document with >= 2 results / a result without
	// provenance) is necessarily present and decisive.
	// B first: in a later file a result without provenance makes both models print the same text, and
	// A is repaired in this tree (a listed `fixed:` entry suppresses nothing)
	switch comb.Stdout {
	case mB:
		v.Verdict, v.Finding = mon.Finding, c10FindingB
	case mA:
		v.Verdict, v.Finding = mon.Finding, c10FindingA
	case mAB:
		// both recorded defects at once; reported under B, the tag says so
		v.Verdict, v.Finding = mon.Finding, c10FindingB
		v.Tags = append(v.Tags, "both-separator-defects")
	}
	return v
}

// c10Result is one printed result with its true position and whether yq reports no provenance for it.
type c10Result struct {
	text      string
	file, doc int
	lost      bool
}

// c10SplitResults splits every per-document output into results (via -0 runs) and asks yq, per
// result, which filename it attributes it to (`(E) | filename`): "" means the result node has
// lost its document/file provenance.
func c10SplitResults(solo *c10SoloCache, expr string, ps []c10DocPos, outs []string) ([]c10Result, string) {
	var rs []c10Result
	for i, p := range ps {
		if outs[i] == "" {
			continue
		}
		o := solo.run(expr, p.Text, c10Flags{Nul: true})
		if o.TimedOut {
			return nil, "timeout: -0 run"
		}
		if o.Failed {
			return nil, "-0 run failed"
		}
		pieces := strings.Split(o.Stdout, "\x00")
		if len(pieces) < 2 || pieces[len(pieces)-1] != "" {
			return nil, "-0 output not NUL terminated"
		}
		pieces = pieces[:len(pieces)-1]
		var sb strings.Builder
		for _, pc := range pieces {
			sb.WriteString(pc + "\n")
		}
		if sb.String() != outs[i] {
			return nil, "-0 pieces do not add up to the plain output"
		}
		fo := solo.run("("+expr+") | filename", p.Text, c10Flags{Nul: true})
		if fo.TimedOut {
			return nil, "timeout: filename probe"
		}
		if fo.Failed {
			return nil, "filename probe failed"
		}
		fns := strings.Split(fo.Stdout, "\x00")
		if len(fns) != len(pieces)+1 {
			return nil, "filename probe returned a different number of results"
		}
		for k, pc := range pieces {
			lost := false
			switch fns[k] {
			case "":
				lost = true
			case solo.soloName(p.Text):
			default:
				return nil, "filename probe returned an unexpected name " + fns[k]
			}
			rs = append(rs, c10Result{text: pc + "\n", file: p.File, doc: p.Doc, lost: lost})
		}
	}
	if len(rs) == 0 {
		return nil, "no results"
	}
	return rs, ""
}

// c10Simulate is the MODEL OF THE RECORDED DEFECTS (used only to classify a mismatch, never to
// compute the expectation). A separator goes before a result whose (document, file) key differs
// from the remembered one.
//
//	quirkA: the remembered file index is never refreshed after the first printed result
//	quirkB: a result that lost its provenance carries the key (0,0)
//
// With both off this is the property's own rule (separator exactly between different documents).
func c10Simulate(rs []c10Result, quirkA, quirkB bool) string {
	var sb strings.Builder
	prevDoc, prevFile := 0, 0
	for i, r := range rs {
		d, f := r.doc, r.file
		if quirkB && r.lost {
			d, f = 0, 0
		}
		if i == 0 {
			prevDoc, prevFile = d, f
		}
		if d != prevDoc || f != prevFile {
			sb.WriteString("---\n")
		}
		sb.WriteString(r.text)
		prevDoc = d
		if !quirkA {
			prevFile = f
		}
	}
	return sb.String()
}

// c10KeepsProvenance: the expression is one of the uncomposed pick / omit templates.
func c10KeepsProvenance(expr string) bool {
	for _, t := range c10Tmpls {
		if t.Op == "pick-root" && t.Expr == expr {
			return true
		}
	}
	return false
}
