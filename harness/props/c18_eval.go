package props

import (
	"bufio"
	"bytes"
	"encoding/json"
	"fmt"
	"os"
	"regexp"
	"strconv"
	"strings"
	"sync"

	"github.com/mikefarah/yq/v4/pkg/yqlib"

	"verifharness/mon"
	"verifharness/yqx"
)

// ---------------------------------------------------------------------------------------------
// The two ways one pool entry is evaluated:
//   c18RunBinary  – the real yq executable, one process per evaluation (= fresh state by construction)
//   c18EvalInProc – the same library calls cmd/ makes (FormatFromString → Decoder/EncoderFactory,
//                   NewPrinter, StreamEvaluator / AllAtOnceEvaluator), but with objects that may be
//                   re-used from earlier steps of the same process.
// ---------------------------------------------------------------------------------------------

// c18Ref is what the real binary answered for an entry.
type c18Ref struct {
	Stdout   string
	Stderr   string // log time stamps masked
	Exit     int
	TimedOut bool
}

func (r c18Ref) String() string {
	return fmt.Sprintf("exit=%d stdout=%q stderr=%q", r.Exit, clipStr(r.Stdout, 400), clipStr(r.Stderr, 300))
}

var c18LogStampRe = regexp.MustCompile(`(?m)^(\[[A-Z]+\]) \d\d:\d\d:\d\d `)

func c18MaskStderr(b []byte) string {
	return c18LogStampRe.ReplaceAllString(string(b), "$1 HH:MM:SS ")
}

// c18Argv is the command line for an entry. unwrap is always passed explicitly so that the
// Configured*Preferences the CLI derives from the flags do not depend on the output format and can be
// reproduced once for the whole in-process run.
func c18Argv(bin string, e *c18Entry, unwrap bool, extra ...string) []string {
	argv := []string{bin}
	if e.All {
		argv = append(argv, "ea")
	}
	argv = append(argv, fmt.Sprintf("--unwrapScalar=%v", unwrap), "-p="+e.In, "-o="+e.Out)
	argv = append(argv, extra...)
	if len(e.Files) == 0 {
		argv = append(argv, "-n")
	}
	argv = append(argv, "--expression="+e.Expr)
	argv = append(argv, e.Files...)
	return argv
}

// c18RunOnce runs the binary once. A run the harness could not observe properly (watchdog, exec/pipe error of the
// runner itself, death by a signal) is retried twice and then reported as TimedOut = undecided, never compared.
func c18RunOnce(w *mon.Worker, argv []string) c18Ref {
	var r c18Ref
	for try := 0; try < 3; try++ {
		res := mon.Run(mon.RunOpts{Dir: w.Scratch, Env: mon.CleanEnv(c18Env...), CPUSecs: 20}, argv...)
		r = c18Ref{Stdout: string(res.Stdout), Stderr: c18MaskStderr(res.Stderr), Exit: res.Exit, TimedOut: res.TimedOut}
		if res.Exit == -2 || res.Signal != 0 {
			r.TimedOut = true
		}
		if !r.TimedOut {
			break
		}
	}
	return r
}

// c18RunArgv is one observation of the binary. When the command exits non-zero, mon.Run cannot tell whether its
// 2 s pipe-drain delay cut the captured output short (os/exec reports the exit status, not ErrWaitDelay; seen on
// a machine with load average > 100: exit 1 with empty stderr). A failing run therefore counts only once the same
// bytes have been seen twice; if no two of five observations agree the result is undecided.
func c18RunArgv(w *mon.Worker, argv []string) c18Ref {
	r := c18RunOnce(w, argv)
	if r.TimedOut || r.Exit == 0 {
		return r
	}
	seen := []c18Ref{r}
	for i := 0; i < 4; i++ {
		n := c18RunOnce(w, argv)
		if n.TimedOut {
			return n
		}
		for _, o := range seen {
			if o == n {
				return n
			}
		}
		seen = append(seen, n)
	}
	r.TimedOut = true
	return r
}

// per-process state -------------------------------------------------------------------------------

var c18st struct {
	once     sync.Once
	setupErr error
	refs     map[string]c18Ref
	pristine map[bool]*c18Snap // global snapshot right after configuring for unwrap=false/true and before any parse
	binCalls int
	cacheDir string
}

// c18Setup writes the pool files, fixes the environment and builds the parser: once per worker process.
func c18Setup(w *mon.Worker) error {
	c18st.once.Do(func() {
		c18st.refs = map[string]c18Ref{}
		c18st.pristine = map[bool]*c18Snap{}
		if err := c18WriteFiles(w.Scratch); err != nil {
			c18st.setupErr = err
			return
		}
		for _, kv := range c18Env {
			i := strings.IndexByte(kv, '=')
			os.Setenv(kv[:i], kv[i+1:])
		}
		os.Unsetenv("C18_UNSET")
		c18InitCache(w)
		yqx.Init()
		// pristine snapshots: globals as configured, before this process has parsed anything
		for _, u := range []bool{false, true} {
			c18Configure(u)
			c18st.pristine[u] = c18TakeSnap()
		}
	})
	return c18st.setupErr
}

// c18Configure sets the Configured*Preferences globals to exactly what cmd/ derives from
// `yq --unwrapScalar=<unwrap>` with every other flag at its default and stdout not a terminal
// (cmd/utils.go configureEncoder/configureDecoder, cmd/root.go flag defaults). It runs only between
// cases, never while an evaluation is in flight.
func c18Configure(unwrap bool) {
	yqlib.ConfiguredXMLPreferences.Indent = 2
	yqlib.ConfiguredYamlPreferences.Indent = 2
	yqlib.ConfiguredJSONPreferences.Indent = 2
	yqlib.ConfiguredYamlPreferences.UnwrapScalar = unwrap
	yqlib.ConfiguredPropertiesPreferences.UnwrapScalar = unwrap
	yqlib.ConfiguredJSONPreferences.UnwrapScalar = unwrap
	yqlib.ConfiguredYamlPreferences.ColorsEnabled = false
	yqlib.ConfiguredJSONPreferences.ColorsEnabled = false
	yqlib.ConfiguredYamlPreferences.PrintDocSeparators = true
	yqlib.ConfiguredYamlPreferences.LeadingContentPreProcessing = true
	yqlib.ConfiguredYamlPreferences.EvaluateTogether = false
}

// c18RefFor returns the answer of the real binary for (entry, unwrap): one fresh yq process. The answer is
// memoised in this process and, through a directory private to this run of the check (named after the
// parent's pid, removed when that process is gone), shared with the other workers of the same run: the
// pool is fixed, so every worker asks for the same few thousand one-shot evaluations.
func c18RefFor(w *mon.Worker, e *c18Entry, unwrap bool) c18Ref {
	k := fmt.Sprintf("%s\x00%v\x00%s\x00%s\x00%v\x00%v", e.Expr, e.Files, e.In, e.Out, e.All, unwrap)
	if r, ok := c18st.refs[k]; ok {
		return r
	}
	file := ""
	if c18st.cacheDir != "" {
		file = fmt.Sprintf("%s/%016x%016x.json", c18st.cacheDir, hashStr(k), hashStr("x"+k))
		if b, err := os.ReadFile(file); err == nil {
			var cr struct {
				Key string
				Ref c18Ref
			}
			if json.Unmarshal(b, &cr) == nil && cr.Key == k {
				c18st.refs[k] = cr.Ref
				return cr.Ref
			}
		}
	}
	r := c18RunArgv(w, c18Argv(w.YqBin(), e, unwrap))
	c18st.binCalls++
	if !r.TimedOut {
		c18st.refs[k] = r
		if file != "" {
			if b, err := json.Marshal(map[string]any{"Key": k, "Ref": r}); err == nil {
				tmp := fmt.Sprintf("%s.%d", file, os.Getpid())
				if os.WriteFile(tmp, b, 0o644) == nil {
					_ = os.Rename(tmp, file)
				}
			}
		}
	}
	return r
}

// c18InitCache creates <build>/tmp/c18refs-<parent pid>-<stamp of the yq binary> and removes the directories of runs
// whose parent is gone (or that belong to another build of the binary): answers are only ever shared between
// the workers of ONE run over ONE binary.
func c18InitCache(w *mon.Worker) {
	if d := os.Getenv("C18_CACHE"); d != "" && os.Getenv("C18_INNER") != "" {
		// child of a worker (isolated case): share the run's directory
		if os.MkdirAll(d, 0o755) == nil {
			c18st.cacheDir = d
		}
		return
	}
	if w.Build == "" {
		return
	}
	st, err := os.Stat(w.YqBin())
	if err != nil {
		return
	}
	me := fmt.Sprintf("c18refs-%d-%x", os.Getppid(), hashStr(fmt.Sprint(st.Size(), st.ModTime().UnixNano())))
	root := w.Build + "/tmp"
	if ents, err := os.ReadDir(root); err == nil {
		for _, en := range ents {
			rest, ok := strings.CutPrefix(en.Name(), "c18refs-")
			if !ok || en.Name() == me {
				continue
			}
			pid, _, _ := strings.Cut(rest, "-")
			_, err := os.Stat("/proc/" + pid)
			if err != nil || pid == strconv.Itoa(os.Getppid()) {
				_ = os.RemoveAll(root + "/" + en.Name())
			}
		}
	}
	dir := root + "/" + me
	if os.MkdirAll(dir, 0o755) == nil {
		c18st.cacheDir = dir
	}
}

// global-state snapshots -----------------------------------------------------------------------------

type c18Snap struct {
	FP    string
	Ops   []yqlib.VerifOp
	Rules []yqlib.VerifRule
	Prefs []string
}

func c18TakeSnap() *c18Snap {
	return &c18Snap{
		FP:    yqlib.VerifGlobalFingerprint(),
		Ops:   yqlib.VerifOpTable(),
		Rules: yqlib.VerifLexerRules(),
		Prefs: []string{
			fmt.Sprintf("ConfiguredYamlPreferences=%+v", yqlib.ConfiguredYamlPreferences),
			fmt.Sprintf("ConfiguredJSONPreferences=%+v", yqlib.ConfiguredJSONPreferences),
			fmt.Sprintf("ConfiguredXMLPreferences=%+v", yqlib.ConfiguredXMLPreferences),
			fmt.Sprintf("ConfiguredCsvPreferences=%+v", yqlib.ConfiguredCsvPreferences),
			fmt.Sprintf("ConfiguredTsvPreferences=%+v", yqlib.ConfiguredTsvPreferences),
			fmt.Sprintf("ConfiguredPropertiesPreferences=%+v", yqlib.ConfiguredPropertiesPreferences),
			fmt.Sprintf("ConfiguredLuaPreferences=%+v", yqlib.ConfiguredLuaPreferences),
			fmt.Sprintf("LoadYamlPreferences=%+v", yqlib.LoadYamlPreferences),
			fmt.Sprintf("StringInterpolationEnabled=%v", yqlib.StringInterpolationEnabled),
			fmt.Sprintf("ExpressionParser!=nil=%v", yqlib.ExpressionParser != nil),
		},
	}
}

// c18GlobalDiff names every global that differs between two snapshots ("var.field: old -> new").
func c18GlobalDiff(a, b *c18Snap) []string {
	var d []string
	if len(a.Ops) != len(b.Ops) {
		d = append(d, fmt.Sprintf("op table size %d -> %d", len(a.Ops), len(b.Ops)))
	} else {
		for i := range a.Ops {
			x, y := a.Ops[i], b.Ops[i]
			if x.Type != y.Type {
				d = append(d, fmt.Sprintf("%s.Type: %s -> %s", x.Var, x.Type, y.Type))
			}
			if x.NumArgs != y.NumArgs {
				d = append(d, fmt.Sprintf("%s.NumArgs: %d -> %d", x.Var, x.NumArgs, y.NumArgs))
			}
			if x.Precedence != y.Precedence {
				d = append(d, fmt.Sprintf("%s.Precedence: %d -> %d", x.Var, x.Precedence, y.Precedence))
			}
			if x.CheckForPostTraverse != y.CheckForPostTraverse {
				d = append(d, fmt.Sprintf("%s.CheckForPostTraverse: %v -> %v", x.Var, x.CheckForPostTraverse, y.CheckForPostTraverse))
			}
		}
	}
	if len(a.Rules) != len(b.Rules) {
		d = append(d, fmt.Sprintf("lexer rule table size %d -> %d", len(a.Rules), len(b.Rules)))
	} else {
		for i := range a.Rules {
			if a.Rules[i] != b.Rules[i] {
				d = append(d, fmt.Sprintf("participleYqRules[%d]: %v -> %v", i, a.Rules[i], b.Rules[i]))
			}
		}
	}
	for i := range a.Prefs {
		if i < len(b.Prefs) && a.Prefs[i] != b.Prefs[i] {
			d = append(d, a.Prefs[i]+" -> "+b.Prefs[i])
		}
	}
	if len(d) == 0 && a.FP != b.FP {
		d = append(d, "fingerprint differs but no tracked field does (hook and monitor out of step)")
	}
	return d
}

// Names envSubstWithOptions can leave in envsubstOpType.Type: "ENVSUBST" plus "_NO_EMPTY" / "_NO_UNSET" appended by
// read-modify-write steps. Sequentially only the four canonical names occur; when several goroutines run the
// action at once their appends interleave (ENVSUBST_NO_EMPTY_NO_EMPTY has been observed).
var c18EnvTypeFullRe = regexp.MustCompile(`^ENVSUBST(_NO_EMPTY|_NO_UNSET)*$`)

// c18OnlyEnvsubstType reports whether the difference is exactly the known one: envsubstOpType.Type
// rewritten to one of the names envSubstWithOptions composes, and nothing else.
func c18OnlyEnvsubstType(diff []string) bool {
	if len(diff) != 1 {
		return false
	}
	const p = "envsubstOpType.Type: "
	if !strings.HasPrefix(diff[0], p) {
		return false
	}
	parts := strings.Split(diff[0][len(p):], " -> ")
	return len(parts) == 2 && c18EnvTypeFullRe.MatchString(parts[0]) && c18EnvTypeFullRe.MatchString(parts[1])
}

func c18CurrentEnvsubstType() string {
	for _, o := range yqlib.VerifOpTable() {
		if o.Var == "envsubstOpType" {
			return o.Type
		}
	}
	return ""
}

// c18RestoreEnvsubst undoes the known mutation between cases (parsing an options list without ne/nu
// writes the original name back), so that a case never inherits state from the case before it.
// On a tree where the defect is repaired this is never reached.
func c18RestoreEnvsubst() {
	if c18CurrentEnvsubstType() != "ENVSUBST" {
		_, _ = yqlib.ExpressionParser.ParseExpression(`envsubst(ff)`)
	}
}

// in-process evaluation ------------------------------------------------------------------------------

type c18Share struct {
	Tree    bool `json:"tree"`    // one parsed *ExpressionNode per expression text, evaluated again and again
	Dec     bool `json:"decoder"` // one Decoder per input format, re-initialised with Init(reader) per file
	Enc     bool `json:"encoder"` // one Encoder per output format
	Printer bool `json:"printer"` // one Printer per output format (only for entries whose results all sit in document 0 of file 0)
}

type c18SharedPrinter struct {
	p   yqlib.Printer
	buf *bytes.Buffer
}

// c18Objs are the library objects one history (or one goroutine) keeps between steps.
type c18Objs struct {
	trees map[string]*yqlib.ExpressionNode
	decs  map[string]yqlib.Decoder
	encs  map[string]yqlib.Encoder
	prs   map[string]*c18SharedPrinter
	// counters for the evidence
	treeReuse, decReuse, encReuse, prReuse, parses int
}

func c18NewObjs() *c18Objs {
	return &c18Objs{trees: map[string]*yqlib.ExpressionNode{}, decs: map[string]yqlib.Decoder{}, encs: map[string]yqlib.Encoder{}, prs: map[string]*c18SharedPrinter{}}
}

type c18Out struct {
	Stdout    string
	Err       string // "" = success
	Failed    bool
	Pan       *yqx.Panic
	DecReused bool // the decoder object had been used by an earlier step
}

func (o c18Out) String() string {
	s := fmt.Sprintf("stdout=%q", clipStr(o.Stdout, 400))
	if o.Failed {
		s += fmt.Sprintf(" error=%q", clipStr(o.Err, 300))
	}
	if o.Pan != nil {
		s += " PANIC " + o.Pan.Sig() + ": " + clipStr(o.Pan.Value, 200)
	}
	return s
}

func c18MakeDecoder(e *c18Entry) (yqlib.Decoder, error) {
	f, err := yqlib.FormatFromString(e.In)
	if err != nil {
		return nil, err
	}
	if e.All && f == yqlib.YamlFormat {
		// `yq ea` sets ConfiguredYamlPreferences.EvaluateTogether before building the decoder; the
		// decoder copies the preferences, so the copy is built here without touching the global.
		p := yqlib.ConfiguredYamlPreferences.Copy()
		p.EvaluateTogether = true
		return yqlib.NewYamlDecoder(p), nil
	}
	if f.DecoderFactory == nil {
		return nil, fmt.Errorf("no support for %s input format", e.In)
	}
	d := f.DecoderFactory()
	if d == nil {
		return nil, fmt.Errorf("no support for %s input format", e.In)
	}
	return d, nil
}

// c18EvalInProc evaluates entry e like cmd/evaluate_sequence_command.go / evaluate_all_command.go do.
func c18EvalInProc(e *c18Entry, o *c18Objs, sh c18Share) (res c18Out) {
	var buf *bytes.Buffer
	sharedOut := false
	res.Pan = yqx.Guard(func() {
		err := func() error {
			outF, err := yqlib.FormatFromString(e.Out)
			if err != nil {
				return err
			}
			// encoder
			var enc yqlib.Encoder
			if sh.Enc {
				if enc = o.encs[e.Out]; enc != nil {
					o.encReuse++
				}
			}
			if enc == nil {
				enc = outF.EncoderFactory()
				if enc == nil {
					return fmt.Errorf("no support for %s output format", e.Out)
				}
				if sh.Enc {
					o.encs[e.Out] = enc
				}
			}
			// printer
			var pr yqlib.Printer
			if sh.Printer && sh.Enc && e.PrintSafe {
				sp := o.prs[e.Out]
				if sp == nil {
					sp = &c18SharedPrinter{buf: new(bytes.Buffer)}
					sp.p = yqlib.NewPrinter(enc, yqlib.NewSinglePrinterWriter(sp.buf))
					o.prs[e.Out] = sp
				} else {
					o.prReuse++
				}
				sp.buf.Reset()
				pr, buf, sharedOut = sp.p, sp.buf, true
			} else {
				buf = new(bytes.Buffer)
				pr = yqlib.NewPrinter(enc, yqlib.NewSinglePrinterWriter(buf))
			}
			// decoder
			var dec yqlib.Decoder
			dkey := e.In
			if e.All {
				dkey += ":ea"
			}
			if sh.Dec {
				if dec = o.decs[dkey]; dec != nil {
					o.decReuse++
					res.DecReused = true
				}
			}
			if dec == nil {
				if dec, err = c18MakeDecoder(e); err != nil {
					return err
				}
				if sh.Dec {
					o.decs[dkey] = dec
				}
			}
			switch {
			case len(e.Files) == 0:
				o.parses++
				return yqlib.NewStreamEvaluator().EvaluateNew(e.Expr, pr)
			case e.All:
				o.parses++
				return yqlib.NewAllAtOnceEvaluator().EvaluateFiles(e.Expr, e.Files, pr, dec)
			case !sh.Tree:
				o.parses++
				return yqlib.NewStreamEvaluator().EvaluateFiles(e.Expr, e.Files, pr, dec)
			}
			// streamEvaluator.EvaluateFiles, spelled out so that the parsed tree can be kept
			node := o.trees[e.Expr]
			if node == nil {
				o.parses++
				if node, err = yqlib.ExpressionParser.ParseExpression(e.Expr); err != nil {
					return err
				}
				o.trees[e.Expr] = node
			} else {
				o.treeReuse++
			}
			ev := yqlib.NewStreamEvaluator()
			var total uint
			for _, name := range e.Files {
				f, err := os.Open(name)
				if err != nil {
					return err
				}
				n, err := ev.Evaluate(name, bufio.NewReader(f), node, pr, dec)
				f.Close()
				if err != nil {
					return err
				}
				total += n
			}
			if total == 0 {
				o.parses++
				return ev.EvaluateNew(e.Expr, pr)
			}
			return nil
		}()
		if err != nil {
			res.Failed, res.Err = true, err.Error()
		}
	})
	if buf != nil {
		res.Stdout = buf.String()
	}
	if res.Failed || res.Pan != nil {
		// the CLI never uses an encoder or printer again after an error (the process ends): bytes may sit
		// unflushed in the printer's bufio.Writer. Drop them rather than carry harness-made state forward.
		delete(o.encs, e.Out)
		delete(o.prs, e.Out)
		_ = sharedOut
	}
	return res
}

var c18WarnLineRe = regexp.MustCompile(`(?m)^\[WARNING\] HH:MM:SS .*\n`)

// c18RefErr is the binary's stderr without the logger's [WARNING] lines (the in-process logger is silenced;
// the repeat family does compare them).
func c18RefErr(ref c18Ref) string { return c18WarnLineRe.ReplaceAllString(ref.Stderr, "") }

// c18Same compares an in-process result with the binary's answer.
func c18Same(got c18Out, ref c18Ref) bool {
	if got.Pan != nil {
		return ref.Exit == 2 && strings.Contains(ref.Stderr, "panic: ") && got.Stdout == ref.Stdout
	}
	if got.Stdout != ref.Stdout {
		return false
	}
	if !got.Failed {
		return ref.Exit == 0 && c18RefErr(ref) == ""
	}
	return ref.Exit == 1 && c18RefErr(ref) == "Error: "+got.Err+"\n"
}

var c18EnvNameRe = regexp.MustCompile(`ENVSUBST(?:_NO_EMPTY|_NO_UNSET)*`)

// c18ExplainedByEnvsubstType: the only difference between what was observed and the fresh answer is the
// operator name inside an error text ("… got <NAME> instead", "… missing close bracket on <NAME>"), both
// names being ones envSubstWithOptions writes into the shared envsubstOpType (the texts read
// envsubstOpType.Type when the error is built). Returns the name observed.
func c18ExplainedByEnvsubstType(e *c18Entry, got c18Out, ref c18Ref) (bool, string) {
	if !e.EnvAny || !got.Failed || got.Pan != nil || ref.Exit != 1 || got.Stdout != ref.Stdout {
		return false, ""
	}
	want := strings.TrimSuffix(strings.TrimPrefix(c18RefErr(ref), "Error: "), "\n")
	g := c18EnvNameRe.FindAllString(got.Err, -1)
	r := c18EnvNameRe.FindAllString(want, -1)
	if len(g) != 1 || len(r) != 1 || g[0] == r[0] {
		return false, ""
	}
	if c18EnvNameRe.ReplaceAllString(got.Err, "\x00") != c18EnvNameRe.ReplaceAllString(want, "\x00") {
		return false, ""
	}
	return true, g[0]
}

// c18NullInputTwin is entry e with no input files (`yq -n`): what the evaluators fall back to when a decoder
// yields no document at all.
func c18NullInputTwin(e *c18Entry) *c18Entry {
	t := *e
	t.Files = nil
	t.ID = -1
	return &t
}

// c18ExplainedByStaleFinished: known deviation C18-decoder-init-keeps-finished. The TOML and Lua decoders
// never clear `finished` in Init(), so a decoder object that has already decoded one input yields no document
// for the next one; the stream evaluator then falls back to EvaluateNew (null input). Exact matcher: input
// format toml|lua, the decoder object of this step had been used before, and the observed result is
// byte-for-byte what the real binary prints for the same expression and output format with -n.
// c18ExplainedByFirstFileFlag: known finding C18-eval-all-yaml-decoder-remembers-first-file. A YAML decoder
// built for eval-all pre-reads leading comments only "for the first file", and "first" means the first Init in
// the life of the object: an object that has been initialised before never does it again, so a comment-only
// first file (one comment-only document for a fresh decoder) gives no document at all. Exact matcher: eval-all
// YAML entry, the decoder object of this step had been used before, and the observed result is byte for byte
// what a NEW decoder gives after one Init on an empty reader (which does nothing but clear that flag) — a stale
// field kept from an earlier input (anything else a re-used decoder may carry) does not pass this.
func c18ExplainedByFirstFileFlag(e *c18Entry, got c18Out) bool {
	if e.In != "yaml" || !e.All || !got.DecReused || len(e.Files) == 0 || got.Pan != nil {
		return false
	}
	d, err := c18MakeDecoder(e)
	if err != nil {
		return false
	}
	if d.Init(strings.NewReader("")) != nil {
		return false
	}
	o := c18NewObjs()
	o.decs[e.In+":ea"] = d
	alt := c18EvalInProc(e, o, c18Share{Dec: true})
	return alt.Pan == nil && alt.Stdout == got.Stdout && alt.Failed == got.Failed && alt.Err == got.Err
}

func c18ExplainedByStaleFinished(w *mon.Worker, e *c18Entry, got c18Out, unwrap bool) bool {
	if (e.In != "toml" && e.In != "lua") || !got.DecReused || e.All || len(e.Files) == 0 {
		return false
	}
	twin := c18RefFor(w, c18NullInputTwin(e), unwrap)
	return !twin.TimedOut && c18Same(got, twin)
}
