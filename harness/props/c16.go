package props

import (
	"fmt"
	"math/rand/v2"
	"os"
	"path/filepath"
	"sort"
	"strings"

	"verifharness/gen"
	"verifharness/mon"
	"verifharness/ref"
	"verifharness/yqx"
)

// C16 — path, key and parent describe where a node actually is.
//
// Oracle: for every node n of `f | ..` the four relations of the property are decided on what yq
// itself reports through `path`, `key`, `parent`, `parent | path`, `keys`, `to_entries`, against
// the value `f` produced (read from yq's output and cross-checked with the reference interpreter).
type c16 struct{}

func init() { mon.Register(c16{}) }

func (c16) ID() string    { return "C16" }
func (c16) Level() string { return "exploration" }
func (c16) Rule() string {
	return "case = (document, f) with f in identity, sort, sort_by, reverse, unique, slices, map(.), filter, [.[]|select], + [..], pick, omit, with_entries, *, " +
		"`.x = (.y | sort)` / `.x |= reverse` written back into the document. For every node n of `f | ..`: (local) parent(n) is a container whose child at key(n) equals n " +
		"and key(n) == last(path(n)); (compositional) path(n) == path(parent(n)) + [key(n)]; (global) walking path(n) from the root of the value arrives at n, paths pairwise distinct; " +
		"(enumeration) keys / to_entries of every container list exactly the keys of its children in order. Non-trivial = >=4 nodes and f is not the identity or depth >=2; " +
		"distinct by (f, document shape)."
}
func (c16) Assumptions() []string {
	return []string{"alias-free JSON-model documents", "the root of the value a node belongs to is the top of its parent chain; the forms generated make that the value `f` returns (or the document for write-back forms)"}
}
func (c16) Cases(tier string) int {
	if tier == "thorough" {
		return 120000
	}
	return 16000
}
func (c16) RaceCases(tier string) int {
	if tier == "thorough" {
		return 4000
	}
	return 250
}
func (c16) Floor(tier string) int { return 1200 }

// a derivation: expression text, whether it applies to a seq or map root, and the recorded index
// each top-level element of the result carries (nil = positions, i.e. no staleness possible).
type c16F struct {
	name string
	seq  bool
	mk   func(r *rand.Rand, in *ref.V) (expr string, rk []int, ok bool)
}

func permSorted(in *ref.V, keyOf func(*ref.V) *ref.V) ([]int, bool) {
	idx := make([]int, len(in.A))
	for i := range idx {
		idx[i] = i
	}
	bad := false
	for i := range in.A {
		for j := i + 1; j < len(in.A); j++ {
			if _, err := ref.Cmp(keyOf(in.A[i]), keyOf(in.A[j])); err != nil {
				bad = true
			}
		}
	}
	if bad {
		return nil, false
	}
	sort.SliceStable(idx, func(a, b int) bool {
		c, _ := ref.Cmp(keyOf(in.A[idx[a]]), keyOf(in.A[idx[b]]))
		return c < 0
	})
	return idx, true
}

var c16Fs = []c16F{
	{"identity", true, func(r *rand.Rand, in *ref.V) (string, []int, bool) { return ".", nil, true }},
	{"identity", false, func(r *rand.Rand, in *ref.V) (string, []int, bool) { return ".", nil, true }},
	{"sort", true, func(r *rand.Rand, in *ref.V) (string, []int, bool) {
		p, ok := permSorted(in, func(v *ref.V) *ref.V { return v })
		return "sort", p, ok
	}},
	{"sort_by(length)", true, func(r *rand.Rand, in *ref.V) (string, []int, bool) {
		p, ok := permSorted(in, func(v *ref.V) *ref.V {
			switch v.K {
			case ref.Seq:
				return ref.IntV(int64(len(v.A)))
			case ref.Map:
				return ref.IntV(int64(len(v.M)))
			case ref.Null:
				return ref.IntV(0)
			}
			return ref.IntV(int64(len(v.Text())))
		})
		return "sort_by(length)", p, ok
	}},
	{"reverse", true, func(r *rand.Rand, in *ref.V) (string, []int, bool) {
		n := len(in.A)
		p := make([]int, n)
		for i := range p {
			p[i] = n - 1 - i
		}
		return "reverse", p, true
	}},
	{"slice", true, func(r *rand.Rand, in *ref.V) (string, []int, bool) {
		n := len(in.A)
		a := r.IntN(n + 1)
		b := a + r.IntN(n-a+1)
		var p []int
		for i := a; i < b; i++ {
			p = append(p, i)
		}
		return fmt.Sprintf(".[%d:%d]", a, b), p, true
	}},
	{"unique", true, func(r *rand.Rand, in *ref.V) (string, []int, bool) {
		var p []int
		seen := map[string]bool{}
		for i, x := range in.A {
			k := x.K.String() + x.JSON()
			if x.IsScalar() {
				k = x.Text()
			}
			if seen[k] {
				continue
			}
			// mixed kinds with equal text are outside the model
			for j := 0; j < i; j++ {
				if in.A[j].IsScalar() && x.IsScalar() && in.A[j].Text() == x.Text() && in.A[j].K != x.K {
					return "", nil, false
				}
			}
			seen[k] = true
			p = append(p, i)
		}
		return "unique", p, true
	}},
	{"map(.)", true, func(r *rand.Rand, in *ref.V) (string, []int, bool) { return "map(.)", nil, true }},
	{"filter", true, func(r *rand.Rand, in *ref.V) (string, []int, bool) {
		var p []int
		for i, x := range in.A {
			if !x.IsScalar() || x.K == ref.Null {
				p = append(p, i)
			}
		}
		if r.IntN(2) == 0 {
			return `[.[] | select(kind != "scalar" or . == null)]`, p, true
		}
		return `filter(kind != "scalar" or . == null)`, p, true
	}},
	{"+[..]", true, func(r *rand.Rand, in *ref.V) (string, []int, bool) {
		n := len(in.A)
		p := make([]int, n+2)
		for i := 0; i < n; i++ {
			p[i] = i
		}
		p[n], p[n+1] = 0, 1
		return `. + ["zz", {"q": 1}]`, p, true
	}},
	{"with_entries(.)", false, func(r *rand.Rand, in *ref.V) (string, []int, bool) { return "with_entries(.)", nil, true }},
	{"pick", false, func(r *rand.Rand, in *ref.V) (string, []int, bool) {
		if len(in.M) == 0 || !identOK(in.M[0].K) {
			return "", nil, false
		}
		return fmt.Sprintf(`pick(["%s"])`, in.M[len(in.M)-1].K), nil, identOK(in.M[len(in.M)-1].K)
	}},
	{"omit", false, func(r *rand.Rand, in *ref.V) (string, []int, bool) {
		if len(in.M) == 0 || !identOK(in.M[0].K) {
			return "", nil, false
		}
		return fmt.Sprintf(`omit(["%s"])`, in.M[0].K), nil, true
	}},
	{"* {..}", false, func(r *rand.Rand, in *ref.V) (string, []int, bool) { return `. * {"zz": {"q": [1, 2]}}`, nil, true }},
	{"+ {..}", false, func(r *rand.Rand, in *ref.V) (string, []int, bool) { return `. + {"zz": [1, {"w": 2}]}`, nil, true }},
	{".x + .y", false, func(r *rand.Rand, in *ref.V) (string, []int, bool) { return ".x + .y", nil, true }},
	{".x * .y", false, func(r *rand.Rand, in *ref.V) (string, []int, bool) { return ".x * .y", nil, true }},
	{"sort_keys", false, func(r *rand.Rand, in *ref.V) (string, []int, bool) { return "sort_keys(.)", nil, true }},
	{"to_entries", false, func(r *rand.Rand, in *ref.V) (string, []int, bool) { return "to_entries", nil, true }},
	{"[.[]]", true, func(r *rand.Rand, in *ref.V) (string, []int, bool) { return "[.[]]", nil, true }},
}

func isIdentity(p []int) bool {
	for i, x := range p {
		if i != x {
			return false
		}
	}
	return true
}

func anyEq(a, b any) bool { return fmt.Sprint(a) == fmt.Sprint(b) }

// sameStep: a key and a path step are the same thing, type included (the string "8080" is not the position 8080)
func sameStep(a, b any) bool { return fmt.Sprintf("%T:%v", a, a) == fmt.Sprintf("%T:%v", b, b) }

// c16NumberLikeKeys: string keys whose text reads as a number, a boolean or null: they stay strings in path and key
var c16NumberLikeKeys = []string{"8080", "007", "02134", "0x1F", "1_000", "+5", "-3", "1.5", "1e3", "0o17", "0", "12", "true", "null", "~", ".5", "0b11"}

func pathOf(v *ref.V) ([]any, bool) {
	if v.K != ref.Seq {
		return nil, false
	}
	out := make([]any, len(v.A))
	for i, x := range v.A {
		switch x.K {
		case ref.Int:
			out[i] = int(x.I.Int64())
		case ref.Str:
			out[i] = x.S
		default:
			out[i] = fmt.Sprintf("!kind%d:%s", x.K, x.Text())
		}
	}
	return out, true
}

func (p c16) Run(w *mon.Worker, idx int) mon.Result {
	r := w.Rand(idx)
	pr := gen.Default()
	pr.NoBigInt, pr.SmallInts, pr.PlainStr = true, true, true
	pr.MaxDepth = 2 + r.IntN(3)
	pr.MaxWidth = 2 + r.IntN(4)
	pr.Keys = []string{"a", "b", "c", "d", "x", "y"}
	numberLike := r.IntN(5) == 0
	if numberLike {
		// a third of the key vocabulary reads as a number / boolean / null although it is a string
		pr.Keys = []string{"a", "b", "x"}
		for k := 0; k < 4; k++ {
			pr.Keys = append(pr.Keys, c16NumberLikeKeys[r.IntN(len(c16NumberLikeKeys))])
		}
	}
	f := c16Fs[r.IntN(len(c16Fs))]
	var doc *ref.V
	for try := 0; try < 20; try++ {
		doc = gen.Value(r, pr)
		if (f.seq && doc.K == ref.Seq && len(doc.A) >= 2) || (!f.seq && doc.K == ref.Map && len(doc.M) >= 1) {
			break
		}
		doc = nil
	}
	res := mon.Result{Tags: []string{"f:" + f.name}}
	if numberLike {
		res.Tags = append(res.Tags, "number_like_string_keys")
	}
	if doc == nil {
		res.Verdict, res.Detail = mon.Held, "no suitable document"
		return res
	}
	expr, rk, ok := f.mk(r, doc)
	if !ok {
		res.Verdict, res.Detail = mon.Held, "derivation outside the modelled domain"
		res.Tags = append(res.Tags, "excluded_domain")
		return res
	}
	// write-back form: the derived value is assigned into a fresh key of a wrapper document
	writeBack := f.seq && r.IntN(4) == 0 && expr != "."
	full := expr
	var prefix []any
	input := doc
	pair := strings.HasPrefix(expr, ".x ")
	loadFull := ""
	if pair {
		// .x OP .y on two sub-maps that share keys: every node of the result belongs to the document, under .x
		y := &ref.V{K: ref.Map, M: []ref.KV{}}
		for i, kv := range doc.M {
			switch (i + r.IntN(3)) % 3 {
			case 0:
				y.M = append(y.M, ref.KV{K: kv.K, V: ref.MapV(ref.KV{K: "q", V: ref.SeqV(ref.IntV(1), ref.MapV(ref.KV{K: "w", V: ref.IntV(2)}))})})
			case 1:
				y.M = append(y.M, ref.KV{K: kv.K, V: ref.SeqV(ref.StrV("o"), ref.MapV(ref.KV{K: "p", V: ref.NullV()}))})
			}
		}
		y.M = append(y.M, ref.KV{K: "only_y", V: ref.MapV(ref.KV{K: "z", V: ref.IntV(3)})})
		input = ref.MapV(ref.KV{K: "x", V: doc}, ref.KV{K: "y", V: y})
		prefix = []any{"x"}
		res.Tags = append(res.Tags, "pair")
	}
	if writeBack {
		input = ref.MapV(ref.KV{K: "y", V: doc}, ref.KV{K: "keep", V: ref.IntV(1)})
		if r.IntN(2) == 0 {
			full = ".x = (.y | " + expr + ") | .x"
		} else {
			full = ".y |= (" + expr + ") | .y"
			prefix = []any{"y"}
		}
		if prefix == nil {
			prefix = []any{"x"}
		}
		res.Tags = append(res.Tags, "write_back")
	}
	if writeBack && strings.HasPrefix(full, ".x = ") && len(doc.A) >= 2 && r.IntN(2) == 0 {
		// the source of the copy loses an element afterwards: the copy's nodes still sit where they sat
		full = ".x = (.y | " + expr + ") | del(.y[" + fmt.Sprint(r.IntN(len(doc.A))) + "]) | .x"
		res.Tags = append(res.Tags, "copy_then_delete_from_source")
	} else if !writeBack && !pair && f.seq && expr == "." && r.IntN(6) == 0 {
		// the sequence comes out of load(): the documents of a multi-document file are its elements, each at its index
		lf := filepath.Join(w.Scratch, fmt.Sprintf("c16-load-%d.yaml", idx))
		var parts []string
		for _, el := range doc.A {
			parts = append(parts, el.JSON()+"\n")
		}
		if err := os.WriteFile(lf, []byte(strings.Join(parts, "---\n")), 0o644); err == nil {
			defer os.Remove(lf)
			loadFull = fmt.Sprintf("load(%q)", lf)
			res.Tags = append(res.Tags, "loaded_multi_document")
		}
	} else if !writeBack && !pair && f.seq && expr == "." && r.IntN(5) == 0 {
		// a slice of the sequence is taken on the way (bound, stored, measured): the elements of the sequence itself
		// still say where they are
		input = ref.MapV(ref.KV{K: "y", V: doc}, ref.KV{K: "keep", V: ref.IntV(1)})
		k := 1 + r.IntN(len(doc.A))
		full = []string{fmt.Sprintf("(.y[%d:] | length) as $n | .y", k), fmt.Sprintf(".zz_t = .y[%d:] | .y", k), fmt.Sprintf("select(.y[-%d:] | length > -1) | .y", k), fmt.Sprintf(".y[%d:] as $t | .y", k)}[r.IntN(4)]
		prefix = []any{"y"}
		writeBack = true
		if r.IntN(2) == 0 {
			// the same with a re-ordered copy (sorted, reversed, de-duplicated, grouped) taken on the way
			op := []string{"sort", "sort_by(.)", "reverse", "unique", "group_by(.)", "sort_by(kind)", "unique_by(.)", "shuffle"}[r.IntN(8)]
			full = []string{"(.y | " + op + " | length) as $n | .y", ".zz_t = (.y | " + op + ") | .y", "select(.y | " + op + " | length > -1) | .y", "(.y | " + op + ") as $t | .y", "with(.y; " + op + ") | .y"}[r.IntN(5)]
			res.Tags = append(res.Tags, "reordered_copy_on_the_way")
		} else {
			res.Tags = append(res.Tags, "slice_on_the_way")
		}
	} else if !writeBack && !pair && !f.seq && expr == "." && r.IntN(5) == 0 {
		// a merge whose left operand is not there yet: the result (not assigned anywhere) is a value of its own
		input = ref.MapV(ref.KV{K: "y", V: doc}, ref.KV{K: "keep", V: ref.IntV(1)})
		if r.IntN(3) == 0 {
			full = "null * .y" // a root of its own
		} else {
			full = []string{".zz_m * .y", "(.zz_m *+ .y)", ".zz_m *d .y"}[r.IntN(3)]
			prefix, writeBack = []any{"zz_m"}, true // it stands where its left operand would stand
		}
		res.Tags = append(res.Tags, "merge_into_nothing")
	} else if !writeBack && !pair && f.seq && expr == "." && r.IntN(4) == 0 {
		// one value (built by the expression: it belongs to no document yet) assigned to two places: each place holds
		// nodes of its own, which say where THEY are
		input = ref.MapV(ref.KV{K: "y", V: doc}, ref.KV{K: "keep", V: ref.IntV(1)})
		full = []string{"[.y[]] as $v | .p = $v | .q = $v | .p", "(.y | map(.)) as $v | .p = $v | .q = $v | .p", "[.y[]] as $v | .p = $v | .q = $v | .q", "{\"w\": [.y[]]} as $v | .p = $v.w | .q = $v.w | .p"}[r.IntN(4)]
		prefix = []any{full[len(full)-1:]}
		writeBack = true
		res.Tags = append(res.Tags, "one_value_two_places")
	} else if !writeBack && !pair && f.seq && expr == "." && r.IntN(3) == 0 {
		// an element is deleted: the elements behind it move up, and say so with keys of the same type as before
		input = ref.MapV(ref.KV{K: "y", V: doc}, ref.KV{K: "keep", V: ref.IntV(1)})
		di := r.IntN(len(doc.A))
		full = []string{"del(.y[%d]) | .y", "delpaths([[\"y\", %d]]) | .y", "del(.y[%d]) | del(.y[0]) | .y"}[r.IntN(3)]
		full = fmt.Sprintf(full, di)
		prefix = []any{"y"}
		writeBack = true
		res.Tags = append(res.Tags, "delete_then_look")
	} else if !writeBack && !pair && f.seq && expr == "." && r.IntN(2) == 0 {
		// a value bound to a variable before an element is deleted from the document
		input = ref.MapV(ref.KV{K: "y", V: doc}, ref.KV{K: "keep", V: ref.IntV(1)})
		full = ".y as $v | del(.y[" + fmt.Sprint(r.IntN(len(doc.A))) + "]) | $v"
		prefix = []any{"y"}
		writeBack = true
		res.Tags = append(res.Tags, "variable_then_delete")
	}
	if loadFull != "" && len(doc.A) >= 2 {
		full = loadFull
	}
	rawText, rawFmt := "", "yaml"
	if !writeBack && !pair && r.IntN(12) == 0 {
		switch r.IntN(4) {
		case 3:
			// the XML decoder builds its own node tree: repeated siblings, attributes, text split by a comment / CDATA
			rawText, rawFmt = c16XMLDoc(r), "xml"
			full = "."
			res.Tags = append(res.Tags, "decoder:xml")
		case 0:
			// padding: a write beyond the end of a sequence creates the elements in between; they are where they are
			if f.seq {
				input = ref.MapV(ref.KV{K: "y", V: doc}, ref.KV{K: "keep", V: ref.IntV(1)})
				full = fmt.Sprintf(".y[%d] = 9 | .y", len(doc.A)+1+r.IntN(3))
				prefix, writeBack = []any{"y"}, true
				res.Tags = append(res.Tags, "padded_write")
			}
		case 1:
			input = ref.MapV(ref.KV{K: "y", V: doc}, ref.KV{K: "keep", V: ref.IntV(1)})
			full = fmt.Sprintf(".n[%d].k = 1 | .n", 1+r.IntN(3))
			prefix, writeBack = []any{"n"}, true
			res.Tags = append(res.Tags, "padded_autocreate")
		default:
			// explode: entries that come in through merge keys (also replacing one another) belong to the map they are merged into
			rawText = c16MergeDoc(r)
			full = "explode(.)"
			if r.IntN(3) == 0 {
				full = []string{"explode(.) | .two", "explode(.two) | .two", "explode(.) | .five"}[r.IntN(3)]
				prefix, writeBack = []any{strings.TrimPrefix(full[strings.LastIndex(full, " .")+1:], ".")}, true
			}
			res.Tags = append(res.Tags, "explode_merges")
		}
	}
	inFmt := "yaml"
	hasFloat := false
	input.Walk(nil, func(_ []any, n *ref.V) {
		if n.K == ref.Float {
			hasFloat = true
		}
	})
	if r.IntN(4) == 0 && !hasFloat { // (the two decoders keep different texts for floats: 0.0 / 0, which `length` can see)
		inFmt = "json" // the JSON decoder builds the node tree on its own
		res.Tags = append(res.Tags, "decoder:json")
	}
	cs := map[string]any{"doc": input.JSON(), "f": full, "input_format": inFmt}
	if rawText != "" {
		cs["doc"] = rawText
	}
	res.Case = cs
	res.Sig = fmt.Sprintf("%s|%v|%x", f.name, writeBack, doc.ShapeHash())
	fail := func(fm string, a ...any) mon.Result {
		res.Verdict = mon.Violated
		res.Detail = fmt.Sprintf(fm, a...)
		return res
	}
	q := func(suffix string) (*ref.V, error) {
		var v *ref.V
		var err error
		if rawText != "" {
			out, e1, pan := yqx.Eval(full+" | "+suffix, rawText, rawFmt, "json")
			err = e1
			if pan != nil {
				err = fmt.Errorf("panic: %s", pan.Sig())
			}
			if err == nil {
				vs, pe := ref.ParseJSONStream(out)
				if pe != nil || len(vs) != 1 {
					err = fmt.Errorf("not exactly one result")
				} else {
					v = vs[0]
				}
			}
		} else {
			v, _, err = evalDocFmt(full+" | "+suffix, input, inFmt)
		}
		res.Evals++
		if err == nil && v == nil {
			err = fmt.Errorf("not exactly one result")
		}
		return v, err
	}
	if rawText != "" && rawFmt == "yaml" {
		// maps with merge keys, before and after explode: `keys` and `to_entries` list the same keys in the same order
		for _, pre := range []string{".", full} {
			out, e0, p0 := yqx.Eval(pre+` | [.. | select(kind == "map") | [keys, [to_entries | .[] | .key]]]`, rawText, "yaml", "json")
			res.Evals++
			if e0 != nil || p0 != nil {
				continue
			}
			if prs, pe := ref.ParseJSONStream(out); pe == nil && len(prs) == 1 {
				for _, pr := range prs[0].A {
					if len(pr.A) == 2 && !ref.EqualNum(pr.A[0], pr.A[1]) {
						return fail("enumeration: on `%s`, `keys` lists %s where `to_entries` lists %s\n%s", pre, pr.A[0], pr.A[1], rawText)
					}
				}
				res.Tags = append(res.Tags, "keys_vs_entries_merge")
			}
		}
	}
	vals, e1 := q("[..]")
	paths, e2 := q("[.. | path]")
	keys, e3 := q("[.. | [key]]")
	parents, e4 := q("[.. | [parent]]")
	ppaths, e5 := q("[.. | [parent | path]]")
	gparents, e7 := q("[.. | [parent | parent]]")
	for _, e := range []error{e1, e2, e3, e4, e5} {
		if e != nil {
			res.Verdict, res.Detail = mon.Held, "derivation failed in yq: "+e.Error()
			res.Tags = append(res.Tags, "f_failed")
			return res
		}
	}
	// asked twice within ONE evaluation, with other questions in between: the answers do not change
	if twice, e6 := q("[[.. | path], [.. | [key]], [.. | [parent | path]], [.. | path], [.. | [key]]]"); e6 == nil && len(twice.A) == 5 {
		if !ref.EqualNum(twice.A[0], paths) || !ref.EqualNum(twice.A[3], paths) {
			return fail("global: `%s`: the paths reported by a second sweep of the same evaluation differ from the first\n first  %s\n second %s\n alone  %s", full, clipStr(twice.A[0].JSON(), 400), clipStr(twice.A[3].JSON(), 400), clipStr(paths.JSON(), 400))
		}
		if !ref.EqualNum(twice.A[1], keys) || !ref.EqualNum(twice.A[4], keys) || !ref.EqualNum(twice.A[2], ppaths) {
			return fail("local: `%s`: key / parent path reported by a second sweep of the same evaluation differ from the first", full)
		}
		res.Tags = append(res.Tags, "asked_twice")
	}
	n := len(vals.A)
	if len(paths.A) != n || len(keys.A) != n || len(parents.A) != n || len(ppaths.A) != n {
		return fail("`%s | ..` yields %d nodes but path/key/parent report %d/%d/%d/%d results", full, n, len(paths.A), len(keys.A), len(parents.A), len(ppaths.A))
	}
	root := vals.A[0]
	depth2 := false
	res.Nontrivial = n >= 4
	// the document that the paths are relative to: the value itself, or the wrapper for write-back forms
	var base *ref.V = root
	if writeBack || pair {
		// paths are reported from the document root: wrap so that walking works
		base = ref.MapV(ref.KV{K: fmt.Sprint(prefix[0]), V: root})
	}

	// quirk model: top-level elements report their recorded index
	stale := rk != nil && !isIdentity(rk) && root.K == ref.Seq && len(rk) == len(root.A)
	violation := ""
	seenPath := map[string]int{}
	type nodeInfo struct {
		path  []any
		key   any
		ppath []any
	}
	infos := make([]nodeInfo, n)
	for i := 0; i < n; i++ {
		pth, ok := pathOf(paths.A[i])
		if !ok {
			return fail("path of node %d is not a sequence: %s", i, paths.A[i])
		}
		infos[i].path = pth
		if len(pth) > len(prefix)+1 {
			depth2 = true
		}
		if len(keys.A[i].A) == 1 {
			k := keys.A[i].A[0]
			if k.K == ref.Int {
				infos[i].key = int(k.I.Int64())
			} else if k.K == ref.Str {
				infos[i].key = k.S
			} else {
				infos[i].key = fmt.Sprintf("!kind%d:%s", k.K, k.Text())
			}
		}
		if len(ppaths.A[i].A) == 1 {
			pp, _ := pathOf(ppaths.A[i].A[0])
			infos[i].ppath = pp
		}
	}
	if depth2 {
		res.Nontrivial = res.Nontrivial && true
	} else if expr == "." {
		res.Nontrivial = false
	}
	if stale && e7 == nil && len(gparents.A) == n {
		// where elements report the index they were recorded with, the value two steps above a node at depth 2 is still
		// the derived sequence itself (not the sequence it was derived from)
		for i := 0; i < n; i++ {
			if len(infos[i].path) == len(prefix)+2 && len(gparents.A[i].A) == 1 && !ref.EqualNum(root, gparents.A[i].A[0]) {
				return fail("global: node %d (path %s): `parent | parent` returns %s, which is not the value it sits in: %s\n f = %s\n doc = %s", i, ref.PathString(infos[i].path), clipStr(gparents.A[i].A[0].JSON(), 160), clipStr(root.JSON(), 160), full, input)
			}
		}
	}
	for i := 0; i < n && violation == ""; i++ {
		in := infos[i]
		v := vals.A[i]
		ps := ref.PathString(in.path)
		if j, dup := seenPath[ps]; dup {
			violation = fmt.Sprintf("global: nodes %d and %d both report path %s", j, i, ps)
			break
		}
		seenPath[ps] = i
		// (iii) global
		at, ok := base.GetPath(in.path)
		if !ok || !ref.EqualNum(at, v) {
			violation = fmt.Sprintf("global: node %d is %s and reports path %s, but walking that path from the root arrives at %v", i, clipStr(v.JSON(), 120), ps, at)
			break
		}
		if len(in.path) == len(prefix) {
			continue // the root of the value
		}
		// key == last(path)
		if in.key == nil || !sameStep(in.key, in.path[len(in.path)-1]) {
			violation = fmt.Sprintf("local: node %d reports key %#v but path %s", i, in.key, ps)
			break
		}
		// (ii) compositional
		if in.ppath == nil || len(in.ppath)+1 != len(in.path) || !ref.IsPrefix(in.ppath, in.path) {
			violation = fmt.Sprintf("compositional: node %d has path %s but its parent reports path %s and key %v", i, ps, ref.PathString(in.ppath), in.key)
			break
		}
		// (i) local: the parent holds n at key(n)
		if len(parents.A[i].A) != 1 {
			violation = fmt.Sprintf("local: node %d (path %s) has no parent", i, ps)
			break
		}
		par := parents.A[i].A[0]
		if par.K == ref.Seq {
			// positions are integers, in `key` and in `path` alike
			_, kInt := in.key.(int)
			if last := paths.A[i].A[len(paths.A[i].A)-1]; !kInt || last.K != ref.Int {
				violation = fmt.Sprintf("local: node %d sits in a sequence but reports key %#v / last path element %s (not integers)", i, in.key, last.JSON())
				break
			}
		}
		// the parent IS the container found at the parent's path (not a look-alike with the same path and that child)
		if !stale {
			if at2, ok2 := base.GetPath(in.ppath); !ok2 || !ref.EqualNum(at2, par) {
				violation = fmt.Sprintf("global: node %d (path %s): `parent` returns %s, but the container at the parent's path %s is %s", i, ps, clipStr(par.JSON(), 160), ref.PathString(in.ppath), clipStr(fmt.Sprint(at2), 160))
				break
			}
		}
		// two levels up: the grandparent IS the container found two steps up the path
		if !stale && e7 == nil && len(gparents.A) == n && len(in.path) >= len(prefix)+2 && len(gparents.A[i].A) == 1 {
			if at3, ok3 := base.GetPath(in.path[:len(in.path)-2]); ok3 && !ref.EqualNum(at3, gparents.A[i].A[0]) {
				violation = fmt.Sprintf("global: node %d (path %s): `parent | parent` returns %s, but two steps up the path there is %s", i, ps, clipStr(gparents.A[i].A[0].JSON(), 160), clipStr(at3.JSON(), 160))
				break
			}
		}
		child, ok := par.GetPath([]any{in.key})
		if !ok || !ref.EqualNum(child, v) {
			violation = fmt.Sprintf("local: node %d is %s with key %v, but its parent %s holds %v there", i, clipStr(v.JSON(), 100), in.key, clipStr(par.JSON(), 160), child)
			break
		}
	}
	// (iv) enumeration: keys / to_entries of every container list exactly the positions / keys its
	// children are at, in order. This part is asserted even where the recorded-index deviation
	// applies (keys and to_entries are truthful there on the pinned tree).
	enumViolation := ""
	{
		ks, ek := q(`[.. | select(kind != "scalar") | keys]`)
		es, ee := q(`[.. | select(kind != "scalar") | [to_entries | .[] | .key]]`)
		if ek == nil && ee == nil {
			ci := 0
			for i := 0; i < n && enumViolation == ""; i++ {
				v := vals.A[i]
				if v.IsScalar() {
					continue
				}
				var want []*ref.V
				if v.K == ref.Seq {
					for j := range v.A {
						want = append(want, ref.IntV(int64(j)))
					}
				} else {
					for _, kv := range v.M {
						want = append(want, ref.StrV(kv.K))
					}
				}
				var childKeys []any
				for j := 0; j < n; j++ {
					if len(infos[j].path) == len(infos[i].path)+1 && ref.IsPrefix(infos[i].path, infos[j].path) {
						childKeys = append(childKeys, infos[j].key)
					}
				}
				if ci >= len(ks.A) || ci >= len(es.A) {
					enumViolation = "enumeration: fewer keys results than containers"
					break
				}
				for gi, got := range []*ref.V{ks.A[ci], es.A[ci]} {
					name := []string{"keys", "to_entries"}[gi]
					if len(got.A) != len(want) {
						enumViolation = fmt.Sprintf("enumeration: container %s has %d children but %s lists %s", clipStr(v.JSON(), 100), len(want), name, got)
						break
					}
					for x := range want {
						if got.A[x].Text() != want[x].Text() {
							enumViolation = fmt.Sprintf("enumeration: container %s: %s lists %s, its children are at %v", clipStr(v.JSON(), 100), name, got, want)
							break
						}
						// the children's own `key` reports agree with keys (part of the local relation; only where no recorded deviation applies)
						if violation == "" && x < len(childKeys) && !anyEq(childKeys[x], got.A[x].Text()) {
							violation = fmt.Sprintf("enumeration: container at %s: child %d reports key %v but %s lists %s", ref.PathString(infos[i].path), x, childKeys[x], name, got.A[x])
						}
					}
					if enumViolation != "" {
						break
					}
				}
				ci++
			}
		}
	}
	if enumViolation != "" {
		return fail("%s\n f = %s\n doc = %s\n value = %s", enumViolation, full, input, clipStr(root.JSON(), 300))
	}
	if violation == "" {
		res.Verdict = mon.Held
		res.Detail = fmt.Sprintf("%d nodes consistent", n)
		return res
	}
	// is it exactly the recorded deviation? every top-level element i of the derived sequence reports
	// index rk[i] (its index in the sequence it came from) instead of i, everything else consistent.
	if stale {
		okq := true
		ti := -1
		for i := 0; i < n; i++ {
			in := infos[i]
			if len(in.path) == len(prefix) {
				continue
			}
			if len(in.path) == len(prefix)+1 {
				ti++
			}
			if ti < 0 || ti >= len(rk) {
				okq = false
				break
			}
			if !anyEq(in.path[len(prefix)], rk[ti]) {
				okq = false
				break
			}
			// below the top level everything must be truthful relative to the stale prefix
			real := append(append([]any{}, prefix...), ti)
			real = append(real, in.path[len(prefix)+1:]...)
			at, ok := base.GetPath(real)
			if !ok || !ref.EqualNum(at, vals.A[i]) {
				okq = false
				break
			}
			if in.key == nil || !sameStep(in.key, in.path[len(in.path)-1]) || in.ppath == nil || !ref.IsPrefix(in.ppath, in.path) || len(in.ppath)+1 != len(in.path) {
				okq = false
				break
			}
		}
		if okq {
			res.Verdict, res.FindingID = mon.Finding, "C16-recorded-index-after-reorder"
			res.Detail = violation
			res.Nontrivial = true
			return res
		}
	}
	return fail("%s\n f = %s\n doc = %s\n value = %s\n paths = %s", violation, full, input, clipStr(root.JSON(), 300), clipStr(paths.JSON(), 300))
}

// c16MergeDoc: block-style YAML whose maps get entries through merge keys in every arrangement: one
// alias, a list whose maps share keys, an explicit key before / after the merge key, a merge of a merge.
func c16MergeDoc(r *rand.Rand) string {
	var sb strings.Builder
	n := func() int { return r.IntN(9) }
	fmt.Fprintf(&sb, "base: &base\n  limits: {cpu: %d, mem: %d}\n  name: b\n  list: [1, {q: %d}]\n", n(), n(), n())
	fmt.Fprintf(&sb, "extra: &extra\n  limits: {cpu: %d}\n  tag: x\n", n())
	if r.IntN(2) == 0 {
		sb.WriteString("two:\n  <<: [*base, *extra]\n  own: 1\n")
	} else {
		sb.WriteString("two:\n  own: 1\n  <<: [*extra, *base]\n")
	}
	fmt.Fprintf(&sb, "three:\n  limits: {cpu: %d}\n  <<: *base\n", n())
	fmt.Fprintf(&sb, "four:\n  <<: *base\n  limits: {cpu: %d, extra: [1]}\n", n())
	fmt.Fprintf(&sb, "nested: &n\n  <<: *extra\n  z: %d\n", n())
	sb.WriteString("five:\n  <<: *n\n  w: 2\n")
	if r.IntN(2) == 0 {
		sb.WriteString("six:\n  - <<: [*n, *base]\n    k: 1\n  - *extra\n")
	}
	return sb.String()
}

func c16XMLDoc(r *rand.Rand) string {
	var sb strings.Builder
	sb.WriteString("<root>")
	n := 2 + r.IntN(4)
	for i := 0; i < n; i++ {
		switch r.IntN(7) {
		case 0:
			fmt.Fprintf(&sb, "<note>one%d<!-- c -->two</note>", i)
		case 1:
			fmt.Fprintf(&sb, "<cd>pre<![CDATA[raw %d]]>post</cd>", i)
		case 2:
			fmt.Fprintf(&sb, "<item>%d</item><item>%d</item>", i, i+10)
		case 3:
			fmt.Fprintf(&sb, "<a k=\"v%d\">t</a>", i)
		case 4:
			fmt.Fprintf(&sb, "<m><x>%d</x><y><z>q</z></y></m>", i)
		case 5:
			fmt.Fprintf(&sb, "<rep><i>1</i></rep><other>o</other><rep><i>2</i></rep>")
		default:
			fmt.Fprintf(&sb, "<e%d/>", i)
		}
	}
	sb.WriteString("</root>\n")
	return sb.String()
}
