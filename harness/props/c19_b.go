package props

import (
	"encoding/base64"
	"fmt"
	"regexp"
	"strings"

	"verifharness/ref"
)

// Family B — INJECTED FAILURE at (file j, document k), and the shape x format sweep.
//
// B1 (even sub-index): one failure is planted at a chosen position of a multi-file / multi-document
// run: a YAML syntax error, a missing file, a directory in place of a file, a type error that only that
// document triggers, a user error(), or a result the chosen output format cannot represent.
// Required: exit != 0, a message on stderr, no crash; for -o=json runs stdout must be a PREFIX of the
// results of the documents before the failure (nothing for the failing document, nothing after it).
//
// B2 (odd sub-index): one value of a fixed spread of shapes is printed with EVERY output format
// (and every third case also with -0): (exit 0 and the reader decodes the value) or (exit != 0 and a
// message). Exit 0 with nothing printed for a value that has non-empty leaves is a silent drop.
// Every sixth B2 case is the hand-written "map with a sequence as key" document (not expressible as
// JSON), which the CSV encoder must refuse (extractHeader/encodeRow) — known finding C19-csv-complex-key-silent.

// every text was checked against the pinned binary to fail as first / middle / last / only document
var c19BrokenDocs = []string{
	`{"a": [1, 2`,
	"a: 1\n  b: 2",
	"a: 1\n\tb: 2",
	`{"a": "unterminated`,
	"a: *nope",
	"}",
	"a: [1, 2]]",
	"\"a\": 1\n\"b\" 2",
	"? [",
	"a: b: c",
	"- a\nb: 1",
	`a: "x" y`,
	"[1, 2",
	"a: |x",
}

type c19TypeErr struct {
	expr      string
	good, bad func(c *c19ctx) (a, b *ref.V)
	eval      func(a, b *ref.V) *ref.V // result on a good document
}

func c19Int(v *ref.V) int64 { return v.I.Int64() }

var c19TypeErrs = []c19TypeErr{
	// decoding the text of a string inside the expression: an empty text holds no document (the decoder's own
	// end-of-input error is the error of that evaluation, not the end of the file being read)
	{".a | from_json | .k",
		func(c *c19ctx) (*ref.V, *ref.V) { n := c.intv(); return ref.StrV(`{"k": ` + n.JSON() + `}`), n },
		func(c *c19ctx) (*ref.V, *ref.V) { return ref.StrV(""), c.intv() },
		func(a, b *ref.V) *ref.V { return b }},
	{".a | from_yaml | .k",
		func(c *c19ctx) (*ref.V, *ref.V) { n := c.intv(); return ref.StrV("k: " + n.JSON()), n },
		func(c *c19ctx) (*ref.V, *ref.V) { return ref.StrV(""), c.intv() },
		func(a, b *ref.V) *ref.V { return b }},
	{".a + .b",
		func(c *c19ctx) (*ref.V, *ref.V) { return c.intv(), c.intv() },
		func(c *c19ctx) (*ref.V, *ref.V) { return c.flatMap(1, c.scalar), c.intv() },
		func(a, b *ref.V) *ref.V { return ref.IntV(c19Int(a) + c19Int(b)) }},
	{".a - .b",
		func(c *c19ctx) (*ref.V, *ref.V) { return c.intv(), c.intv() },
		func(c *c19ctx) (*ref.V, *ref.V) { return c.str(), c.intv() },
		func(a, b *ref.V) *ref.V { return ref.IntV(c19Int(a) - c19Int(b)) }},
	{".a | keys",
		func(c *c19ctx) (*ref.V, *ref.V) { return c.flatMap(0, c.scalar), c.scalar() },
		func(c *c19ctx) (*ref.V, *ref.V) { return c.intv(), c.scalar() },
		func(a, b *ref.V) *ref.V {
			s := &ref.V{K: ref.Seq, A: []*ref.V{}}
			for _, e := range a.M {
				s.A = append(s.A, ref.StrV(e.K))
			}
			return s
		}},
	{".a | upcase",
		func(c *c19ctx) (*ref.V, *ref.V) { return c.str(), c.scalar() },
		func(c *c19ctx) (*ref.V, *ref.V) { return c.intv(), c.scalar() },
		func(a, b *ref.V) *ref.V { return ref.StrV(strings.ToUpper(a.S)) }},
	{`.a | split("q")`,
		func(c *c19ctx) (*ref.V, *ref.V) { return c.str(), c.scalar() },
		func(c *c19ctx) (*ref.V, *ref.V) { return c.intv(), c.scalar() },
		func(a, b *ref.V) *ref.V { return ref.SeqV(ref.StrV(a.S)) }},
	{".a | reverse",
		func(c *c19ctx) (*ref.V, *ref.V) { return c.flatSeq(0, c.scalar), c.scalar() },
		func(c *c19ctx) (*ref.V, *ref.V) { return c.intv(), c.scalar() },
		func(a, b *ref.V) *ref.V {
			s := &ref.V{K: ref.Seq, A: []*ref.V{}}
			for i := len(a.A) - 1; i >= 0; i-- {
				s.A = append(s.A, a.A[i])
			}
			return s
		}},
	{`.a | test("^w")`,
		func(c *c19ctx) (*ref.V, *ref.V) { return c.str(), c.scalar() },
		func(c *c19ctx) (*ref.V, *ref.V) { return c.flatMap(0, c.scalar), c.scalar() },
		func(a, b *ref.V) *ref.V { return ref.BoolV(strings.HasPrefix(a.S, "w")) }},
	{`with(select(.b == "BAD"); error("boom")) | .a`,
		func(c *c19ctx) (*ref.V, *ref.V) { return c.value(1), c.scalar() },
		func(c *c19ctx) (*ref.V, *ref.V) { return c.value(1), ref.StrV("BAD") },
		func(a, b *ref.V) *ref.V { return a }},
	{".a | @base64",
		func(c *c19ctx) (*ref.V, *ref.V) { return ref.StrV("hi"), c.scalar() },
		func(c *c19ctx) (*ref.V, *ref.V) { return c.intv(), c.scalar() },
		func(a, b *ref.V) *ref.V { return ref.StrV("aGk=") }},
	{".a | @csv",
		func(c *c19ctx) (*ref.V, *ref.V) { return ref.SeqV(ref.IntV(1), ref.StrV("z")), c.scalar() },
		func(c *c19ctx) (*ref.V, *ref.V) { return c.flatMap(1, c.scalar), c.scalar() },
		func(a, b *ref.V) *ref.V { return ref.StrV("1,z") }},
	{".a | @sh",
		func(c *c19ctx) (*ref.V, *ref.V) { return ref.StrV("plain"), c.scalar() },
		func(c *c19ctx) (*ref.V, *ref.V) { return c.intv(), c.scalar() },
		func(a, b *ref.V) *ref.V { return ref.StrV("plain") }},
}

// an output format together with a representable and an unrepresentable `.a`
type c19EncErr struct {
	out       c19Out
	good, bad func(c *c19ctx) *ref.V
}

func c19EncErrs() []c19EncErr {
	str := func(c *c19ctx) *ref.V { return c.str() }
	return []c19EncErr{
		{c19Out{format: "csv"}, func(c *c19ctx) *ref.V { return c.flatSeq(1, c.scalar) }, func(c *c19ctx) *ref.V { return c.flatMap(1, c.scalar) }},
		{c19Out{format: "csv"}, func(c *c19ctx) *ref.V { return c.flatSeq(1, c.scalar) }, func(c *c19ctx) *ref.V {
			return ref.SeqV(c.scalar(), c.flatSeq(1, c.scalar))
		}},
		{c19Out{format: "tsv"}, func(c *c19ctx) *ref.V { return c.flatSeq(1, func() *ref.V { return c.flatMap(1, c.scalar) }) }, func(c *c19ctx) *ref.V {
			return ref.SeqV(ref.MapV(ref.KV{K: "a", V: c.scalar()}), ref.MapV(ref.KV{K: "a", V: c.flatSeq(1, c.scalar)}))
		}},
		{c19Out{format: "xml"}, func(c *c19ctx) *ref.V { return c.flatMap(1, c.scalar) }, func(c *c19ctx) *ref.V { return c.flatSeq(1, c.scalar) }},
		{c19Out{format: "toml"}, func(c *c19ctx) *ref.V { return c.scalar() }, func(c *c19ctx) *ref.V { return c.flatMap(1, c.scalar) }},
		{c19Out{format: "base64"}, str, func(c *c19ctx) *ref.V { return c.intv() }},
		{c19Out{format: "base64"}, str, func(c *c19ctx) *ref.V { return c.flatSeq(1, c.str) }},
		{c19Out{format: "uri"}, str, func(c *c19ctx) *ref.V { return c.flatMap(1, c.str) }},
		{c19Out{format: "lua", luaGlobals: true}, func(c *c19ctx) *ref.V { return c.flatMap(1, c.scalar) }, func(c *c19ctx) *ref.V { return c.flatSeq(1, c.scalar) }},
		{c19Out{format: "yaml", nul: true}, str, func(c *c19ctx) *ref.V { return ref.StrV("nul\x00inside") }},
		{c19Out{format: "props", nul: true}, str, func(c *c19ctx) *ref.V { return ref.StrV("\x00") }},
		{c19Out{format: "toml", nul: true}, str, func(c *c19ctx) *ref.V { return ref.StrV("a\x00") }},
		{c19Out{format: "csv", nul: true}, str, func(c *c19ctx) *ref.V { return ref.StrV("\x00b") }},
	}
}

func (c *c19ctx) familyB() {
	sub := c.idx / len(c19Families)
	if sub%2 == 1 {
		c.sweepB2(sub / 2)
		return
	}
	c.injectB1(sub / 2)
}

// injectCSV: a malformed record in the middle of a CSV / TSV file (wrong number of fields, a quote that never
// closes, a bare quote): yq must end with an error, not with the records it managed to read.
func (c *c19ctx) injectCSV() {
	c.group = "B-inject"
	tsv := c.r.IntN(3) == 0
	sep, ext := ",", "csv"
	if tsv {
		sep, ext = "\t", "tsv"
	}
	c.tag("kind:syntax", "input:"+ext)
	nf := 1 + c.r.IntN(3)
	j := c.r.IntN(nf)
	var names []string
	var firsts []string
	for fi := 0; fi < nf; fi++ {
		rows := 2 + c.r.IntN(3)
		var sb strings.Builder
		sb.WriteString("a" + sep + "b\n")
		bad := 1 + c.r.IntN(rows) // the malformed record comes after `bad` good ones (1..rows)
		for ri := 0; ri < rows; ri++ {
			v := c.str().S
			if ri == 0 {
				firsts = append(firsts, v)
			}
			sb.WriteString(v + sep + fmt.Sprint(c.r.IntN(90)) + "\n")
			if fi == j && ri == bad-1 {
				sb.WriteString([]string{"x" + sep + "y" + sep + "z", "\"never closed" + sep + "1", "lonely", "q" + sep + "\"half"}[c.r.IntN(4)] + "\n")
			}
		}
		name := fmt.Sprintf("f%d.%s", fi, ext)
		c.write(name, sb.String())
		names = append(names, name)
	}
	what := fmt.Sprintf("malformed %s record in file %d of %d", ext, j, nf)
	x := c.yq(nil, append([]string{"-o=json", "-I0", ".[0].a"}, names...)...)
	if x.TimedOut {
		return
	}
	if !c.failedProperly(x, what) {
		return
	}
	got, err := ref.ParseJSONStream(string(x.Stdout))
	if err != nil || len(got) > j {
		c.violate("%s: stdout of the failed run holds %d results (err=%v), only %d files precede the failure: %q", what, len(got), err, j, clipStr(string(x.Stdout), 300))
		return
	}
	for i := range got {
		if got[i].K != ref.Str || got[i].S != firsts[i] {
			c.violate("%s: result #%d printed before the failure is %s, expected %q", what, i, got[i].JSON(), firsts[i])
			return
		}
	}
	c.res.Nontrivial = true
	c.say(what + " -> exit != 0 with a message")
}

// injectJSONUnencodable: a value the JSON encoder has to refuse (a float that is not finite, a scalar whose tag its text
// does not fit) in one document of a run printed with -o=json, with and without colours and the other output flags:
// the run ends with an error, and what was printed before is the results of the documents before it.
func (c *c19ctx) injectJSONUnencodable() {
	c.group = "B-inject"
	c.tag("kind:encode", "encode:json-unencodable")
	nd := 1 + c.r.IntN(4)
	k := c.r.IntN(nd)
	bad := []string{".nan", ".inf", "-.inf", "!!int abc", "!!float x", "[1, .nan]", "{k: .inf}", "[{k: [-.inf]}]"}[c.r.IntN(8)]
	var sb strings.Builder
	var firsts []string
	for di := 0; di < nd; di++ {
		if di > 0 {
			sb.WriteString("---\n")
		}
		if di == k {
			sb.WriteString("a: " + bad + "\n")
			continue
		}
		v := c.str().S
		firsts = append(firsts, v)
		sb.WriteString("a: " + v + "\n")
	}
	c.write("f0.yaml", sb.String())
	flags := [][]string{{"-C"}, {"-C", "-I0"}, {"-M"}, {}, {"-C", "-P"}, {"--colors", "-I=4"}}[c.r.IntN(6)]
	c.tag("flags:" + strings.Join(flags, ","))
	what := fmt.Sprintf("value %s (not encodable as JSON) in document %d of %d, flags %v", bad, k, nd, flags)
	x := c.yq(nil, append(append([]string{"-o=json"}, flags...), ".a", "f0.yaml")...)
	if x.TimedOut || !c.failedProperly(x, what) {
		return
	}
	// colour escapes removed, the output before the failure is the strings of the documents before it
	plain := regexp.MustCompile("\x1b\\[[0-9;]*m").ReplaceAllString(string(x.Stdout), "")
	got, err := ref.ParseJSONStream(plain)
	if err != nil || len(got) > k {
		c.violate("%s: stdout of the failed run holds %d results (err=%v), only %d documents precede the failure: %q", what, len(got), err, k, clipStr(plain, 300))
		return
	}
	for i := range got {
		if got[i].K != ref.Str || got[i].S != firsts[i] {
			c.violate("%s: result #%d printed before the failure is %s, expected %q", what, i, got[i].JSON(), firsts[i])
			return
		}
	}
	c.res.Nontrivial = true
	c.say(what + " -> exit != 0 with a message")
}

// injectXML: several XML inputs (one decoder object serves them all), one of them not well-formed: the run ends with an
// error whatever the position of that file, and every well-formed file before it has contributed its result.
func (c *c19ctx) injectXML() {
	c.group = "B-inject"
	c.tag("kind:syntax", "input:xml")
	nf := 1 + c.r.IntN(3)
	if c.r.IntN(2) == 0 {
		nf = 2 + c.r.IntN(2)
	}
	j := c.r.IntN(nf)
	var names, firsts []string
	for fi := 0; fi < nf; fi++ {
		v := c.str().S
		text := fmt.Sprintf("<r><a>%s</a><b>%d</b></r>\n", v, c.r.IntN(90))
		if fi == j {
			// cut short inside an element / inside a tag, not XML at all, text outside the root element
			// (mismatched or surplus closing tags are accepted by design: the decoder reads raw tokens)
			text = []string{"<r><a>" + v + "</a>", "<r><a>" + v, "<r>", "<r><a>" + v + "</a></r", "<<<", "junk<r><a>" + v + "</a></r>", "<r><a>" + v + "</a><b>1</b>"}[c.r.IntN(7)] + "\n"
			c.note("broken_document", text)
		} else {
			firsts = append(firsts, v)
		}
		name := fmt.Sprintf("f%d.xml", fi)
		c.write(name, text)
		names = append(names, name)
	}
	c.tag(fmt.Sprintf("at:f%d", j))
	what := fmt.Sprintf("XML file %d of %d is not well-formed", j, nf)
	mode := []string{"eval", "eval-all"}[c.r.IntN(2)]
	x := c.yq(nil, append([]string{mode, "-o=json", "-I0", ".r.a"}, names...)...)
	if x.TimedOut || !c.failedProperly(x, what+" ("+mode+")") {
		return
	}
	got, err := ref.ParseJSONStream(string(x.Stdout))
	if err != nil || len(got) > j {
		c.violate("%s: stdout of the failed run holds %d results (err=%v), only %d files precede the failure: %q", what, len(got), err, j, clipStr(string(x.Stdout), 300))
		return
	}
	for i := range got {
		if got[i].K != ref.Str || got[i].S != firsts[i] {
			c.violate("%s: result #%d printed before the failure is %s, expected %q", what, i, got[i].JSON(), firsts[i])
			return
		}
	}
	c.res.Nontrivial = true
	c.say(what + " -> exit != 0 with a message")
}

// injectBase64: several base64 inputs, one of them with an incomplete last group (its padding left off, a character
// missing) together with a line break: the run either fails, or prints the complete text - never a shortened one.
func (c *c19ctx) injectBase64() {
	c.group = "B-inject"
	c.tag("kind:syntax", "input:base64")
	nf := 1 + c.r.IntN(3)
	j := c.r.IntN(nf)
	var names, texts []string
	var full string
	for fi := 0; fi < nf; fi++ {
		v := c.str().S
		if fi == j {
			for len(v)%3 == 0 { // the last group is incomplete only when the length is not a multiple of three
				v += "x"
			}
			full = v
		}
		enc := base64.StdEncoding.EncodeToString([]byte(v))
		text := enc
		if fi == j {
			raw := strings.TrimRight(enc, "=")
			cut := 4
			if len(raw) < 8 {
				cut = len(raw) / 2
			}
			text = []string{raw + "\n", raw[:cut] + "\n" + raw[cut:], raw[:len(raw)-1] + "\n", raw + "\r\n", raw[:cut] + "\n" + raw[cut:] + "\n", " " + raw}[c.r.IntN(6)]
			c.note("broken_document", text)
		}
		name := fmt.Sprintf("f%d.b64", fi)
		c.write(name, text)
		names = append(names, name)
		texts = append(texts, v)
	}
	c.tag(fmt.Sprintf("at:f%d", j))
	what := fmt.Sprintf("base64 file %d of %d ends in an incomplete group", j, nf)
	mode := []string{"eval", "eval-all"}[c.r.IntN(2)]
	args := []string{mode, "-p=base64", "-o=json", "-I0", "."}
	if c.r.IntN(4) == 0 {
		args = []string{mode, "-e", "-p=base64", "-o=json", "-I0", "."}
	}
	x := c.yq(nil, append(args, names...)...)
	if x.TimedOut {
		return
	}
	got, err := ref.ParseJSONStream(string(x.Stdout))
	if x.Exit == 0 {
		// accepted: then in full
		if err != nil || len(got) != nf {
			c.violate("%s (%s): exit 0 with %d results for %d files (err=%v): %q", what, mode, len(got), nf, err, clipStr(string(x.Stdout), 300))
			return
		}
		for i := range got {
			if got[i].K != ref.Str || got[i].S != texts[i] {
				c.violate("%s (%s): exit 0, nothing on stderr, and file %d decodes to %s - its text is %q (input %q)", what, mode, i, got[i].JSON(), texts[i], full)
				return
			}
		}
		c.res.Nontrivial = true
		c.say(what + " -> accepted and decoded in full")
		return
	}
	if !c.failedProperly(x, what+" ("+mode+")") {
		return
	}
	if err != nil || len(got) > j {
		c.violate("%s: stdout of the failed run holds %d results (err=%v), only %d files precede the failure: %q", what, len(got), err, j, clipStr(string(x.Stdout), 300))
		return
	}
	for i := range got {
		if got[i].K != ref.Str || got[i].S != texts[i] {
			c.violate("%s: result #%d printed before the failure is %s, expected %q", what, i, got[i].JSON(), texts[i])
			return
		}
	}
	c.res.Nontrivial = true
	c.say(what + " -> exit != 0 with a message")
}

// injectTOML: several TOML inputs, one of them with a malformed line somewhere (before the first key, among the root keys,
// right after a table header, inside a table, inside an array table, at the very end): the run ends with an error wherever
// the line sits, and every well-formed file before it has contributed its result.
func (c *c19ctx) injectTOML() {
	c.group = "B-inject"
	c.tag("kind:syntax", "input:toml")
	nf := 1 + c.r.IntN(3)
	j := c.r.IntN(nf)
	bads := []string{`port = "808`, `x = `, `= 1`, `x 1`, `[tab`, `x = [1, 2`, `x = 1 y = 2`, `x = 01`, `a.b. = 1`, `x = "a\qb"`, `x = 'a`, `x == 1`, `x = {a = 1`}
	var names, firsts []string
	for fi := 0; fi < nf; fi++ {
		v := fmt.Sprintf("v%d", c.r.IntN(1000))
		lines := []string{fmt.Sprintf("name = %q", v)}
		for k := c.r.IntN(3); k > 0; k-- {
			lines = append(lines, fmt.Sprintf("n%d = %d", k, c.r.IntN(50)))
		}
		rootEnd := len(lines)
		lines = append(lines, "[server]", `host = "h"`, fmt.Sprintf("p = %d", c.r.IntN(9000)))
		if c.r.IntN(2) == 0 {
			lines = append(lines, "[[arr]]", "k = 1", "[[arr]]", "k = 2")
		}
		if fi == j {
			var at int
			switch pos := c.r.IntN(8); pos {
			case 0:
				at = 0
			case 1, 6, 7:
				at = 1 + c.r.IntN(rootEnd) // among / right after the root keys, before the first header
			case 2:
				at = rootEnd + 1 // right after a table header
			case 3:
				at = rootEnd + 2 // inside a table
			case 4:
				at = len(lines) - 1
			default:
				at = len(lines)
			}
			c.tag(fmt.Sprintf("toml_bad_at:%d", min(at, 4)))
			bad := bads[c.r.IntN(len(bads))]
			lines = append(lines[:at], append([]string{bad}, lines[at:]...)...)
			c.note("broken_document", strings.Join(lines, "\n"))
		} else {
			firsts = append(firsts, v)
		}
		name := fmt.Sprintf("f%d.toml", fi)
		c.write(name, strings.Join(lines, "\n")+"\n")
		names = append(names, name)
	}
	c.tag(fmt.Sprintf("at:f%d", j))
	what := fmt.Sprintf("TOML file %d of %d has a malformed line", j, nf)
	mode := []string{"eval", "eval-all"}[c.r.IntN(2)]
	args := []string{mode, "-o=json", "-I0", ".name"}
	if c.r.IntN(3) == 0 {
		args = []string{mode, "-p=toml", "-o=json", "-I0", ".name"}
	}
	x := c.yq(nil, append(args, names...)...)
	if x.TimedOut || !c.failedProperly(x, what+" ("+mode+")") {
		return
	}
	got, err := ref.ParseJSONStream(string(x.Stdout))
	if err != nil || len(got) > j {
		c.violate("%s: stdout of the failed run holds %d results (err=%v), only %d files precede the failure: %q", what, len(got), err, j, clipStr(string(x.Stdout), 300))
		return
	}
	for i := range got {
		if got[i].K != ref.Str || got[i].S != firsts[i] {
			c.violate("%s: result #%d printed before the failure is %s, expected %q", what, i, got[i].JSON(), firsts[i])
			return
		}
	}
	c.res.Nontrivial = true
	c.say(what + " -> exit != 0 with a message")
}

func (c *c19ctx) injectB1(n int) {
	c.group = "B-inject"
	kinds := []string{"syntax", "missing", "dir", "type", "encode", "xml", "type", "syntax", "base64", "xml"}
	kind := kinds[n%len(kinds)]
	if c.r.IntN(5) == 0 {
		c.injectTOML()
		return
	}
	if kind == "xml" {
		c.injectXML()
		return
	}
	if kind == "base64" {
		c.injectBase64()
		return
	}
	if kind == "syntax" && c.r.IntN(5) < 3 {
		c.injectCSV()
		return
	}
	if (kind == "encode" || kind == "missing" || kind == "dir") && c.r.IntN(2) == 0 {
		c.injectJSONUnencodable()
		return
	}
	if kind == "dir" && c.r.IntN(2) == 0 {
		kind = "syntax"
	}
	c.tag("kind:" + kind)
	// shape of the run
	nf := 1 + c.r.IntN(3)
	var te c19TypeErr
	var ee c19EncErr
	expr := ".a"
	out := c19Out{format: "json"}
	mkGood := func() *ref.V {
		return ref.MapV(ref.KV{K: "a", V: c.value(1)}, ref.KV{K: "b", V: c.scalar()})
	}
	evalGood := func(d *ref.V) *ref.V { return c19Field(d, "a") }
	switch kind {
	case "type":
		te = c19TypeErrs[c.r.IntN(len(c19TypeErrs))]
		if c.r.IntN(2) == 0 {
			te = c19TypeErrs[c.r.IntN(2)] // the in-expression decoders
		}
		expr = te.expr
		mkGood = func() *ref.V {
			a, b := te.good(c)
			return ref.MapV(ref.KV{K: "a", V: a}, ref.KV{K: "b", V: b})
		}
		evalGood = func(d *ref.V) *ref.V { return te.eval(c19Field(d, "a"), c19Field(d, "b")) }
	case "encode":
		all := c19EncErrs()
		ee = all[c.r.IntN(len(all))]
		out = ee.out
		mkGood = func() *ref.V { return ref.MapV(ref.KV{K: "a", V: ee.good(c)}, ref.KV{K: "b", V: c.scalar()}) }
	}
	c.tag("expr:" + expr)
	files := make([]*c19File, nf)
	for fi := range files {
		f := &c19File{name: fmt.Sprintf("f%d.yaml", fi), lead: c.r.IntN(5) == 0}
		nd := 1 + c.r.IntN(4)
		for di := 0; di < nd; di++ {
			v := mkGood()
			f.docs = append(f.docs, c19Doc{v: v, text: v.JSON()})
		}
		files[fi] = f
	}
	// the position
	j := c.r.IntN(nf)
	k := c.r.IntN(len(files[j].docs))
	jsonStream := kind == "syntax" && c.r.IntN(3) > 0
	if jsonStream {
		// JSON streams (format taken from the extension of the first file): the malformed spot sits between documents
		for fi, f := range files {
			f.name, f.json, f.lead = fmt.Sprintf("f%d.json", fi), true, false
		}
		c.tag("input:json-stream")
	}
	switch kind {
	case "syntax":
		b := c19BrokenDocs[c.r.IntN(len(c19BrokenDocs))]
		if jsonStream {
			// (pure garbage only: `{"a":1,}` and `{"a" 1}` are accepted by the lenient JSON reader, which is not this check's business)
			b = []string{"}", "]", "}}", `{"a": }`, `[1,2`, "nul", "@", "}", "]", "]]", "} ", "]}", "}"}[c.r.IntN(13)]
		}
		files[j].docs[k] = c19Doc{text: b}
		c.note("broken_document", b)
	case "missing":
		files[j] = &c19File{name: fmt.Sprintf("missing%d.yaml", j), missing: true}
		k = 0
	case "dir":
		files[j] = &c19File{name: fmt.Sprintf("dir%d.yaml", j), isDir: true}
		k = 0
	case "type":
		a, b := te.bad(c)
		v := ref.MapV(ref.KV{K: "a", V: a}, ref.KV{K: "b", V: b})
		files[j].docs[k] = c19Doc{v: v, text: v.JSON()}
	case "encode":
		v := ref.MapV(ref.KV{K: "a", V: ee.bad(c)}, ref.KV{K: "b", V: c.scalar()})
		files[j].docs[k] = c19Doc{v: v, text: v.JSON()}
	}
	around := c19DocCount(files) - 1
	if kind == "missing" || kind == "dir" {
		around = c19DocCount(files)
	}
	posTag := "only"
	switch {
	case around == 0:
	case j == 0 && k == 0:
		posTag = "first"
	case j == nf-1 && k == len(files[j].docs)-1 || (j == nf-1 && (kind == "missing" || kind == "dir")):
		posTag = "last"
	default:
		posTag = "middle"
	}
	c.tag("pos:"+posTag, fmt.Sprintf("at:f%dd%d", j, k))
	c.note("failure", fmt.Sprintf("%s at file %d document %d (%s)", kind, j, k, posTag))
	// results of the documents strictly before the failure
	var before []*ref.V
	for fi := 0; fi < j; fi++ {
		for _, d := range files[fi].docs {
			before = append(before, evalGood(d.v))
		}
	}
	if !files[j].missing && !files[j].isDir {
		for di := 0; di < k; di++ {
			before = append(before, evalGood(files[j].docs[di].v))
		}
	}
	args, stdin := c.materialise(files, kind != "dir")
	what := fmt.Sprintf("%s failure at file %d/%d document %d (%s), expression %s, %v", kind, j, nf, k, posTag, expr, out.flags())

	if kind == "encode" {
		// the whole expected list: judge() knows that the encoder must refuse result #len(before)
		R := append(append([]*ref.V{}, before...), c19Field(files[j].docs[k].v, "a"))
		x := c.yq(stdin, append(append(out.flags(), expr), args...)...)
		if x.TimedOut {
			return
		}
		if no, _ := c19Refuses(out, R[len(R)-1]); !no {
			c.inconclusive("generator: the planted value is representable")
			return
		}
		c.judge(out, R, x, what)
		c.res.Nontrivial = !c.bad() && x.Exit != 0 && around > 0
		if c.res.Verdict == "" {
			c.say(fmt.Sprintf("%s -> exit %d, stderr %q", what, x.Exit, clipStr(string(x.Stderr), 160)))
		}
		return
	}

	modes := [][]string{{}}
	if c.r.IntN(2) == 0 {
		modes = append(modes, []string{"ea"})
	}
	ok := true
	for _, mode := range modes {
		argv := append(append(append([]string{}, mode...), "-o=json", "-I0", expr), args...)
		if jsonStream {
			argv = append([]string{"-p=json"}, argv...) // (stdin has no extension to take the format from)
			if len(mode) > 0 {
				argv = append(append(append(append([]string{}, mode...), "-p=json"), "-o=json", "-I0", expr), args...)
			}
		}
		x := c.yq(stdin, argv...)
		if x.TimedOut {
			return
		}
		w := what
		if len(mode) > 0 {
			w += " [eval-all]"
			c.tag("mode:ea")
		}
		if !c.failedProperly(x, w) {
			ok = false
			break
		}
		got, err := ref.ParseJSONStream(string(x.Stdout))
		if err != nil {
			c.violate("%s: stdout of the failed run is not a JSON stream (%v): %q", w, err, clipStr(string(x.Stdout), 300))
			ok = false
			break
		}
		if len(got) > len(before) {
			c.violate("%s: stdout holds %d results but only %d documents precede the failure — something was printed for the failing document or after it: %q", w, len(got), len(before), clipStr(string(x.Stdout), 400))
			ok = false
			break
		}
		for i := range got {
			if !ref.Equal(got[i], before[i]) {
				c.violate("%s: result #%d printed before the failure is %s, expected %s", w, i, clipStr(got[i].JSON(), 200), clipStr(before[i].JSON(), 200))
				ok = false
				break
			}
		}
		if len(mode) == 0 && kind != "syntax" && len(got) != len(before) {
			// stream mode prints document by document: everything before the failing document is out already.
			// (Not asserted for syntax errors: the YAML scanner may look ahead.)
			c.tag("earlier_results_missing")
		}
		c.tag(fmt.Sprintf("printed_before_failure:%d", min(len(got), 3)))
	}
	if ok && stdin == nil && !jsonStream && kind != "missing" && kind != "dir" && c.r.IntN(2) == 0 {
		// the same failing run editing its first file in place: the failure is still reported
		for _, mode := range []string{"ea", "eval"} {
			x := c.yq(nil, append([]string{mode, "-i", expr}, args...)...)
			if x.TimedOut {
				return
			}
			c.tag("in_place:" + mode)
			if !c.failedProperly(x, what+" ["+mode+" -i]") {
				return
			}
		}
	}
	c.res.Nontrivial = ok && around > 0
	c.say(what + " -> exit != 0 with a message; stdout is a prefix of the earlier documents' results")
}

// ---- B2: shapes x formats ---------------------------------------------------------------------

var c19Shapes = []struct {
	name string
	mk   func(c *c19ctx) *ref.V
}{
	{"str", func(c *c19ctx) *ref.V { return c.str() }},
	{"int", func(c *c19ctx) *ref.V { return c.intv() }},
	{"bool", func(c *c19ctx) *ref.V { return ref.BoolV(c.r.IntN(2) == 0) }},
	{"null", func(c *c19ctx) *ref.V { return ref.NullV() }},
	{"emptystr", func(c *c19ctx) *ref.V { return ref.StrV("") }},
	{"emptymap", func(c *c19ctx) *ref.V { return ref.MapV() }},
	{"flatmap", func(c *c19ctx) *ref.V { return c.flatMap(1, c.scalar) }},
	{"nestedmap", func(c *c19ctx) *ref.V {
		return c.flatMap(1, func() *ref.V { return c.flatMap(1, c.scalar) })
	}},
	{"emptyseq", func(c *c19ctx) *ref.V { return ref.SeqV() }},
	{"flatseq", func(c *c19ctx) *ref.V { return c.flatSeq(1, c.scalar) }},
	{"seqofseqs", func(c *c19ctx) *ref.V {
		return c.flatSeq(1, func() *ref.V { return c.flatSeq(0, c.scalar) })
	}},
	{"seqofmaps", func(c *c19ctx) *ref.V {
		return c.flatSeq(1, func() *ref.V { return c.flatMap(0, c.scalar) })
	}},
	{"seqofnestedmaps", func(c *c19ctx) *ref.V {
		return c.flatSeq(1, func() *ref.V { return c.flatMap(1, func() *ref.V { return c.value(1) }) })
	}},
	{"nestedrownotlast", func(c *c19ctx) *ref.V {
		// rows under one header; a row that is NOT the last one holds a nested value, the last row is flat
		keys := []string{"a", "b", "c"}[:1+c.r.IntN(3)]
		n := 2 + c.r.IntN(3)
		bad := c.r.IntN(n - 1)
		s := &ref.V{K: ref.Seq, A: []*ref.V{}}
		for i := 0; i < n; i++ {
			row := &ref.V{K: ref.Map, M: []ref.KV{}}
			for _, k := range keys {
				row.M = append(row.M, ref.KV{K: k, V: c.scalar()})
			}
			if i == bad {
				row.M[c.r.IntN(len(row.M))].V = []*ref.V{c.flatSeq(1, c.scalar), c.flatMap(1, c.scalar)}[c.r.IntN(2)]
			}
			s.A = append(s.A, row)
		}
		return s
	}},
	{"mapofseqs", func(c *c19ctx) *ref.V {
		return c.flatMap(1, func() *ref.V { return c.flatSeq(0, c.scalar) })
	}},
	{"mixedseq", func(c *c19ctx) *ref.V {
		return ref.SeqV(c.scalar(), c.flatSeq(1, c.scalar), c.flatMap(1, c.scalar))
	}},
	{"mapwithnull", func(c *c19ctx) *ref.V {
		return ref.MapV(ref.KV{K: "a", V: ref.NullV()}, ref.KV{K: "b", V: c.str()}, ref.KV{K: "c", V: ref.MapV()}, ref.KV{K: "d", V: ref.SeqV()})
	}},
	{"deep", func(c *c19ctx) *ref.V { return c.value(4) }},
	{"seqofemptymaps", func(c *c19ctx) *ref.V { return ref.SeqV(ref.MapV(), ref.MapV()) }},
	// keys that the XML encoder reads as attributes / content, holding values an attribute cannot hold
	{"xmlattrseq", func(c *c19ctx) *ref.V {
		return ref.MapV(ref.KV{K: "r", V: ref.MapV(ref.KV{K: "+@a", V: c.flatSeq(1, c.scalar)}, ref.KV{K: "b", V: c.scalar()})})
	}},
	{"xmlattrmap", func(c *c19ctx) *ref.V {
		return ref.MapV(ref.KV{K: "r", V: ref.MapV(ref.KV{K: "c", V: c.scalar()}, ref.KV{K: "+@a", V: c.flatMap(1, c.scalar)})})
	}},
	{"xmlattrscalar", func(c *c19ctx) *ref.V {
		return ref.MapV(ref.KV{K: "r", V: ref.MapV(ref.KV{K: "+@id", V: c.scalar()}, ref.KV{K: "+content", V: c.str()})})
	}},
	{"xmlattrdeep", func(c *c19ctx) *ref.V {
		return ref.MapV(ref.KV{K: "r", V: ref.MapV(ref.KV{K: "k", V: ref.MapV(ref.KV{K: "+@a", V: c.flatSeq(1, c.scalar)}, ref.KV{K: "t", V: c.str()})})})
	}},
	{"seqmapsdifferentkeys", func(c *c19ctx) *ref.V {
		return ref.SeqV(ref.MapV(ref.KV{K: "a", V: c.scalar()}), ref.MapV(ref.KV{K: "b", V: c.scalar()}, ref.KV{K: "a", V: c.scalar()}))
	}},
}

func (c *c19ctx) sweepB2(n int) {
	c.group = "B-sweep"
	if n%12 == 5 {
		c.complexKeyCSV()
		return
	}
	sh := c19Shapes[n%len(c19Shapes)]
	if n%12 == 11 {
		for _, x := range c19Shapes {
			if x.name == "nestedrownotlast" {
				sh = x
			}
		}
	}
	v := sh.mk(c)
	nul := n%3 == 2
	c.tag("sweep", "shape:"+sh.name)
	if nul {
		c.tag("flag:-0")
	}
	c.write("v.yaml", v.JSON()+"\n")
	c.note("value", v.JSON())
	var lv []*ref.V
	c19Leaves(v, &lv)
	accepted, refused := 0, 0
	for _, f := range c19OutFormats {
		o := c19Out{format: f, nul: nul, perDocMax: 1}
		x := c.yq(nil, append(o.flags(), ".", "v.yaml")...)
		if x.TimedOut {
			return
		}
		if c.judge(o, []*ref.V{v}, x, fmt.Sprintf("[sweep %s] %v of %s", sh.name, o.flags(), clipStr(v.JSON(), 120))) {
			accepted++
		} else if x.Exit != 0 {
			refused++
		}
		if c.bad() {
			return
		}
	}
	c.res.Nontrivial = len(lv) > 0 && accepted > 0
	c.say(fmt.Sprintf("shape %s %s: %d formats printed and decoded it, %d refused it with a message", sh.name, clipStr(v.JSON(), 100), accepted, refused))
}

// complexKeyCSV: `[{? [1, 2] : x}]` has a sequence as a mapping key. encodeObjects() cannot make a header
// row out of it (encodeRow refuses non-scalar cells) and is therefore supposed to fail; the pinned tree
// returns nil at that point. Matcher of the finding: format csv/tsv, first element a map whose first key
// is not a scalar, exit 0, stdout empty (or a single NUL with -0), stderr empty.
func (c *c19ctx) complexKeyCSV() {
	c.tag("sweep", "shape:complexkey")
	val := c.str().S
	doc := "- ? [" + fmt.Sprint(1+c.r.IntN(9)) + ", 2]\n  : " + val + "\n- plain: " + c.str().S + "\n"
	c.write("ck.yaml", doc)
	f := []string{"csv", "tsv"}[c.r.IntN(2)]
	x := c.yq(nil, "-o="+f, ".", "ck.yaml")
	if x.TimedOut {
		return
	}
	c.tag("out:" + f)
	c.res.Nontrivial = true
	what := "CSV of an array of objects whose first object has a sequence as key"
	switch {
	case x.Exit != 0:
		c.failedProperly(x, what)
		c.say(what + ": refused with " + clipStr(string(x.Stderr), 160))
	case strings.Contains(string(x.Stdout), val):
		c.say(what + ": printed, value present")
	case len(x.Stdout) == 0 && len(x.Stderr) == 0:
		c.finding("C19-csv-complex-key-silent", "%s: exit 0, empty stdout, empty stderr — the value %q is silently dropped", what, val)
	default:
		c.violate("%s: exit 0 but the value %q is not in the output %q", what, val, clipStr(string(x.Stdout), 300))
	}
	// control: yaml output of the same document carries the value
	y := c.yq(nil, "-o=yaml", ".", "ck.yaml")
	if !y.TimedOut && (y.Exit != 0 || !strings.Contains(string(y.Stdout), val)) {
		c.inconclusive("control failed: yq cannot print the complex-key document as YAML")
	}
}
