package props

import (
	"fmt"
	"math/rand/v2"
	"strings"

	"verifharness/mon"
	"verifharness/yqx"
)

// Line-level family of C07 for document shapes the tree generator does not produce: "compose-like"
// block-style documents with anchors, several `<<` merge lines in one map, repeated keys and
// comments, under multi-step updates. Oracle: `yq u` vs `yq .` (both yq's own output, so yaml.v3's
// re-formatting cancels out): every line outside the updated block must be there, unchanged and in
// order. The updated block is a top-level key whose lines are cut out of both outputs by indentation.

type c07LineDoc struct {
	text    string
	blocks  []string // top-level keys in order
	seqKeys []string // top-level keys holding a block sequence
	seqLen  map[string]int
	njobs   int
	globMap string   // top-level key of a map with pattern-looking keys ("" if none)
	victim  string   // the unique value of the pattern-looking entry of globMap
	mapKeys []string // top-level keys holding a block map
}

func c07LinesGen(r *rand.Rand) c07LineDoc {
	var sb strings.Builder
	var d c07LineDoc
	cm := func() string {
		if r.IntN(3) == 0 {
			return fmt.Sprintf(" # c%d", r.IntN(90))
		}
		return ""
	}
	scal := func() string {
		return []string{"alpine", "'one'", "\"two\"", "3", "true", "always", "x y"}[r.IntN(7)]
	}
	if r.IntN(3) == 0 {
		sb.WriteString("# header comment\n")
	}
	nb := 1 + r.IntN(2)
	var anchors []string
	for i := 0; i < nb; i++ {
		k := fmt.Sprintf("x-base%d", i)
		a := fmt.Sprintf("b%d", i)
		anchors = append(anchors, a)
		// no comment on a header line that carries an anchor (yaml.v3 re-attaches it and prints the
		// anchor on a line of its own: a library/known-finding shape that is not this family's business)
		fmt.Fprintf(&sb, "%s: &%s\n", k, a)
		for j := 0; j < 1+r.IntN(3); j++ {
			fmt.Fprintf(&sb, "  %s: %s%s\n", []string{"image", "restart", "tty", "user"}[(j+i)%4], scal(), cm())
		}
		d.blocks = append(d.blocks, k)
		d.mapKeys = append(d.mapKeys, k)
	}
	// scalar entries that may be appended into sequences (existing nodes of the document)
	ns := 1 + r.IntN(3)
	var scalKeys []string
	for i := 0; i < ns; i++ {
		k := []string{"a", "c", "name", "ver"}[i]
		anc := ""
		if r.IntN(3) == 0 {
			anc = fmt.Sprintf("&s%d ", i)
		}
		fmt.Fprintf(&sb, "%s: %s%s%s\n", k, anc, scal(), cm())
		d.blocks = append(d.blocks, k)
		scalKeys = append(scalKeys, k)
	}
	for i := 0; i < 1+r.IntN(2); i++ {
		k := []string{"svc", "job"}[i]
		fmt.Fprintf(&sb, "%s:\n", k)
		for _, a := range anchors {
			if r.IntN(4) > 0 {
				fmt.Fprintf(&sb, "  <<: *%s%s\n", a, cm()) // several merge lines in one map: repeated key
			}
		}
		for j := 0; j < r.IntN(3); j++ {
			fmt.Fprintf(&sb, "  %s: %s%s\n", []string{"ports", "env", "cmd"}[j], scal(), cm())
		}
		if r.IntN(3) == 0 {
			fmt.Fprintf(&sb, "  dup: 1\n  dup: 2%s\n", cm())
		}
		d.blocks = append(d.blocks, k)
		d.mapKeys = append(d.mapKeys, k)
	}
	for i := 0; i < 1+r.IntN(2); i++ {
		k := []string{"b", "list"}[i]
		// no comment on the header line of a sequence that an update may empty: `b: # c` followed by a
		// flow `[]` is the recorded finding C07-flow-collection-after-comment-unparseable, decided by the tree family
		fmt.Fprintf(&sb, "%s:\n", k)
		n := 1 + r.IntN(3)
		for j := 0; j < n; j++ {
			fmt.Fprintf(&sb, "  - %s%s\n", scal(), cm())
		}
		d.blocks = append(d.blocks, k)
		d.seqKeys = append(d.seqKeys, k)
		if d.seqLen == nil {
			d.seqLen = map[string]int{}
		}
		d.seqLen[k] = n
	}
	if r.IntN(3) == 0 {
		// a map whose keys look like patterns next to keys those patterns would match
		d.globMap = "hosts"
		d.victim = "VICTIM"
		type ent struct{ k, v string }
		gk := []string{`"*.example.com"`, `"?"`, `"a*"`, `"*"`, `"??"`}[r.IntN(5)]
		ents := []ent{{"www.example.com", "10"}, {"a", "'x'"}, {"ab", "20"}, {"zz", "plain"}}
		r.Shuffle(len(ents), func(i, j int) { ents[i], ents[j] = ents[j], ents[i] })
		ents = ents[:2+r.IntN(3)]
		pos := r.IntN(len(ents) + 1)
		ents = append(ents[:pos:pos], append([]ent{{gk, d.victim}}, ents[pos:]...)...)
		sb.WriteString("hosts:\n")
		for _, e := range ents {
			fmt.Fprintf(&sb, "  %s: %s%s\n", e.k, e.v, cm())
		}
		d.blocks = append(d.blocks, "hosts")
	}
	// a list of maps with complex (non-scalar) keys, and a list of small maps with unique values
	sb.WriteString("cx:\n  - ? [linux, amd64]\n    : fast\n    plain: 1\n  - ? {os: mac}\n    : slow\n")
	d.blocks = append(d.blocks, "cx")
	d.njobs = 3 + r.IntN(2)
	sb.WriteString("jobs:\n")
	for j := 0; j < d.njobs; j++ {
		fmt.Fprintf(&sb, "  - name: jn%d\n    image: ji%d\n    cache: jc%d%s\n", j, j, j, cm())
	}
	d.blocks = append(d.blocks, "jobs")
	// an inline map and an inline list of inline maps (sources / destinations of appends whose style differs)
	// (no comment on the inline map's line: where yaml.v3 prints the line comment of an appended flow map is the
	// recorded comment-migration finding of the tree family, not this family's business)
	fmt.Fprintf(&sb, "inl: {retries: 3, timeout: %d}\n", r.IntN(90))
	d.blocks = append(d.blocks, "inl")
	fmt.Fprintf(&sb, "fl: [{a: 1}, {a: %d}]\n", r.IntN(9))
	d.blocks = append(d.blocks, "fl")
	// identifiers of 64-bit size that differ in the last digit only (as keys and as elements), each with a comment
	sb.WriteString("owners:\n  123456789012345678: alice # admin\n  223456789012345678: carol\nblocked:\n  - 323456789012345678 # first\n  - 323456789012345679 # second\n  - 5\n")
	d.blocks = append(d.blocks, "owners", "blocked")
	// keys one of which a pattern with one star in the middle would also match if prefix and suffix could overlap
	fmt.Fprintf(&sb, "deps:\n  app-x-prod:\n    replicas: 1%s\n  app-prod:\n    replicas: 2 # keep\n  other:\n    replicas: 3\n", cm())
	d.blocks = append(d.blocks, "deps")
	// a map with an entry whose key is the empty string
	fmt.Fprintf(&sb, "em:\n  \"\": one%s\n  a: %s%s\n  b: [1, 2]\n", cm(), scal(), cm())
	d.blocks = append(d.blocks, "em")
	// anchored sequences (block and flow) with aliases of them further down
	fmt.Fprintf(&sb, "ahosts: &ahosts\n  - alpha\n  - %s\naflags: &aflags [fast, %s]\nuses:\n  h: *ahosts\n  f: *aflags\n", scal(), scal())
	d.blocks = append(d.blocks, "ahosts", "aflags", "uses")
	fmt.Fprintf(&sb, "tail: end%s\n", cm())
	d.blocks = append(d.blocks, "tail")
	d.text = sb.String()
	_ = scalKeys
	return d
}

// cutBlock removes the lines of top-level key k (its own line and the indented lines below it).
func cutBlock(out, k string) (rest []string, found bool) {
	lines := strings.Split(out, "\n")
	skipping := false
	for _, ln := range lines {
		if skipping {
			// (a flow collection that had to be broken over several lines closes with `}` / `]` in column 0)
			if strings.HasPrefix(ln, " ") || strings.HasPrefix(ln, "-") || strings.HasPrefix(ln, "}") || strings.HasPrefix(ln, "]") {
				continue
			}
			skipping = false
		}
		if strings.HasPrefix(ln, k+":") {
			skipping, found = true, true
			continue
		}
		rest = append(rest, ln)
	}
	return rest, found
}

func c07LineCase(w *mon.Worker, r *rand.Rand) mon.Result {
	d := c07LinesGen(r)
	res := mon.Result{Tags: []string{"family:lines"}}
	type upd struct {
		expr   string
		cut    []string // top-level blocks that are (inside) T
		same   string   // an expression that must print the very same document (empty: none)
		addOne bool     // exactly one line comes in, every line of `yq .` stays, in order
	}
	var u upd
	seq := d.seqKeys[r.IntN(len(d.seqKeys))]
	mp := d.mapKeys[r.IntN(len(d.mapKeys))]
	src := []string{"a", "c", "name", "ver"}[r.IntN(4)]
	if !strings.Contains(d.text, "\n"+src+":") && !strings.HasPrefix(d.text, src+":") {
		src = "a"
	}
	if d.globMap != "" && r.IntN(2) == 0 {
		return c07GlobDelete(d, r)
	}
	if r.IntN(3) == 0 {
		return c07MultiDelete(d, r)
	}
	switch r.IntN(38) {
	case 35:
		// a position counted from the end that lies before the start does not exist: the update is refused or changes
		// nothing - it is not the first element
		u = upd{expr: fmt.Sprintf(`del(.%s[-%d])`, seq, d.seqLen[seq]+1+r.IntN(3)), cut: nil}
	case 36:
		u = upd{expr: fmt.Sprintf(`.%s[-%d] = "zz_w"`, seq, d.seqLen[seq]+1+r.IntN(3)), cut: nil}
	case 37:
		u = upd{expr: fmt.Sprintf(`.%s[-%d] |= "zz_u"`, seq, d.seqLen[seq]+1+r.IntN(3)), cut: nil}
	case 29:
		// a key that differs from an existing one in its last digit is a new key: one line comes in, nothing else moves
		u = upd{expr: `.owners += {123456789012345679: "bob"}`, addOne: true}
	case 30:
		u = upd{expr: `.owners[123456789012345679] = "bob"`, addOne: true}
	case 31:
		u = upd{expr: `.blocked -= [323456789012345679]`, cut: []string{"blocked"}, same: `del(.blocked[1])`}
	case 32:
		u = upd{expr: `.blocked -= [323456789012345678]`, cut: []string{"blocked"}, same: `del(.blocked[0])`}
	case 33:
		// a pattern selects the keys it matches in full
		u = upd{expr: `.deps."app-*-prod".replicas = 3`, cut: []string{"deps"}, same: `.deps."app-x-prod".replicas = 3`}
	case 34:
		u = upd{expr: `del(.deps."app-*-prod")`, cut: []string{"deps"}, same: `del(.deps."app-x-prod")`}
	case 24:
		// the entry whose key is the empty string, addressed as such: writing the value it has changes nothing
		u = upd{expr: `.em[""] = "one"`}
	case 25:
		u = upd{expr: `.em[""] |= .`}
	case 26:
		u = upd{expr: `.em[""] = "changed"`, cut: []string{"em"}, same: `.em |= with_entries(select(.key == "") .value = "changed")`}
	case 27:
		// a copy of a sequence is stored, then an element of the ORIGINAL is deleted; with the copy dropped again the
		// document is what the plain delete makes of it
		u = upd{expr: fmt.Sprintf(`.zz_b = .%s | del(.%s[0]) | del(.zz_b)`, seq, seq), cut: []string{seq}, same: fmt.Sprintf(`del(.%s[0])`, seq)}
	case 28:
		u = upd{expr: fmt.Sprintf(`.jobs as $j | .zz_b = $j | del(.jobs[] | select(.name == "jn1")) | del(.zz_b)`), cut: []string{"jobs"}, same: `del(.jobs[] | select(.name == "jn1"))`}
	case 19:
		// an element is appended and the appended element is deleted again: the document is what it was
		u = upd{expr: fmt.Sprintf(`.%s += ["zz_app"] | del(.%s[] | select(. == "zz_app"))`, seq, seq), cut: nil}
	case 20:
		u = upd{expr: fmt.Sprintf(`.%s += ["zz_a", "zz_b"] | del(.%s[%d]) | del(.%s[-1])`, seq, seq, d.seqLen[seq]+1, seq), cut: nil}
	case 21:
		// taking away what is not there: nothing changes, the anchor of the sequence included
		u = upd{expr: fmt.Sprintf(`.%s -= ["zz_not_there"]`, []string{"ahosts", "aflags", seq}[r.IntN(3)]), cut: nil}
	case 22:
		u = upd{expr: `.ahosts -= ["alpha"]`, cut: []string{"ahosts"}}
	case 23:
		u = upd{expr: `.aflags -= ["fast"] | .ahosts += ["zz_n"]`, cut: []string{"aflags", "ahosts"}}
	case 15:
		// a map of the document bound to a variable and edited THROUGH the variable before it is appended
		u = upd{expr: fmt.Sprintf(`.["%s"] as $t | .%s += [$t | .zz_t = 30]`, d.mapKeys[0], seq), cut: []string{seq}}
	case 16:
		u = upd{expr: fmt.Sprintf(`.["%s"] as $t | .zz_new = ($t | del(.image))`, d.mapKeys[0]), cut: []string{"zz_new"}}
	case 17:
		// a merge whose LEFT operand is a map of the document, as the value of an assignment
		u = upd{expr: fmt.Sprintf(`.zz_eff = .["%s"] * {"image": "merged", "zz_m": 1}`, d.mapKeys[0]), cut: []string{"zz_eff"}}
	case 18:
		u = upd{expr: fmt.Sprintf(`.zz_all = .%s *+ ["more"]`, seq), cut: []string{"zz_all"}}
	case 13:
		// appending to a list rebuilds it from its elements: maps with complex keys come through intact
		u = upd{expr: `.cx += ["x"]`, cut: nil}
	case 14:
		u = upd{expr: `.zz_copy = .cx`, cut: []string{"zz_copy"}}
	case 10:
		// an inline map of the document appended to a block list: the map it was read from keeps its line
		u = upd{expr: fmt.Sprintf(`.%s += .inl`, seq), cut: []string{seq}}
	case 11:
		// a block map of the document appended to an inline list of inline maps
		u = upd{expr: fmt.Sprintf(`.fl += .["%s"]`, d.mapKeys[0]), cut: []string{"fl"}}
	case 12:
		u = upd{expr: fmt.Sprintf(`.%s = .%s + [.inl] | .fl += [.["%s"]]`, seq, seq, d.mapKeys[0]), cut: []string{seq, "fl"}}
	case 7:
		// a read one past the end of a sequence on the right-hand side: only `tail` changes
		u = upd{expr: fmt.Sprintf(`.tail = (.%s[%d] // "dflt")`, seq, d.seqLen[seq]), cut: []string{"tail"}}
	case 8:
		// the same read inside a selection that matches nothing: nothing changes
		u = upd{expr: fmt.Sprintf(`(.%s | select(.[%d] == "nope") | .[0]) = "zz"`, seq, d.seqLen[seq]), cut: nil}
	case 9:
		u = upd{expr: fmt.Sprintf(`(.["%s"] | select(.zz_missing[0] == 1) | .zz) = 1`, mp), cut: nil}
	case 0:
		u = upd{expr: fmt.Sprintf(".%s += .%s | del(.%s[0])", seq, src, seq), cut: []string{seq}}
	case 1:
		u = upd{expr: fmt.Sprintf(".%s += [.%s] | del(.%s[0])", seq, src, seq), cut: []string{seq}}
	case 2:
		u = upd{expr: fmt.Sprintf(`.["%s"] += {"zz_env": "prod"}`, mp), cut: []string{mp}}
	case 3:
		u = upd{expr: fmt.Sprintf(`.["%s"].zz_new = 1`, mp), cut: []string{mp}}
	case 4:
		u = upd{expr: fmt.Sprintf(`.%s += ["x"] | .["%s"].zz = 2`, seq, mp), cut: []string{seq, mp}}
	case 5:
		u = upd{expr: fmt.Sprintf(`.%s = (.%s + [.%s]) | .%s |= reverse`, seq, seq, src, seq), cut: []string{seq}}
	default:
		u = upd{expr: fmt.Sprintf(`del(.%s[0]) | .%s += ["y"] | del(.%s[0])`, seq, seq, seq), cut: []string{seq}}
	}
	res.Case = map[string]any{"text": d.text, "update": u.expr, "kind": "lines"}
	res.Sig = fmt.Sprintf("lines|%x|%s", hashStr(d.text), u.expr)
	base, e1, p1 := yqx.Eval(".", d.text, "yaml", "yaml")
	got, e2, p2 := yqx.Eval(u.expr, d.text, "yaml", "yaml")
	res.Evals += 2
	if e1 != nil || p1 != nil {
		res.Verdict, res.Detail = mon.Inconclusive, fmt.Sprintf("identity failed: %v %v", e1, p1)
		return res
	}
	if e2 != nil || p2 != nil {
		res.Verdict, res.Detail = mon.Held, fmt.Sprintf("update not applicable here: %v %v", e2, p2)
		res.Tags = append(res.Tags, "update_failed")
		return res
	}
	res.Nontrivial = true
	if u.same != "" {
		other, e3, p3 := yqx.Eval(u.same, d.text, "yaml", "yaml")
		res.Evals++
		if e3 == nil && p3 == nil && other != got {
			res.Verdict = mon.Violated
			res.Detail = fmt.Sprintf("update `%s` must leave the document `%s` leaves\n--- first ---\n%s--- second ---\n%s", u.expr, u.same, clipStr(got, 1200), clipStr(other, 1200))
			return res
		}
	}
	if u.expr == `.cx += ["x"]` || u.addOne {
		// every line of `yq .` is still there, in order, and exactly one line came in
		bl, gl := strings.Split(base, "\n"), strings.Split(got, "\n")
		if len(gl) != len(bl)+1 || !subsequence(bl, gl) {
			res.Verdict = mon.Violated
			res.Detail = fmt.Sprintf("update `%s` appends one element, every other line must come through unchanged\n--- yq . ---\n%s--- yq u ---\n%s", u.expr, clipStr(base, 1200), clipStr(got, 1200))
			return res
		}
		res.Verdict, res.Detail = mon.Held, "one line added, the rest unchanged"
		return res
	}
	// inside a touched map only additions are allowed for the pure-addition updates: every line of the
	// block in `yq .` must still be there in order
	b, g := base, got
	for _, k := range u.cut {
		isAddOnly := strings.Contains(u.expr, `.["`+k+`"]`) // the map updates above only add a key
		if isAddOnly {
			bl := blockLines(b, k)
			gl := blockLines(g, k)
			if !subsequence(bl, gl) {
				res.Verdict = mon.Violated
				res.Detail = fmt.Sprintf("update `%s` only adds a key to `%s`, but lines of that map that the update does not touch changed or disappeared\n--- yq . ---\n%s--- yq u ---\n%s", u.expr, k, clipStr(b, 900), clipStr(g, 900))
				return res
			}
		}
		var ok1, ok2 bool
		var rb, rg []string
		rb, ok1 = cutBlock(b, k)
		rg, ok2 = cutBlock(g, k)
		if !ok1 && ok2 && (strings.HasPrefix(u.expr, "."+k+" =") || strings.Contains(u.expr, "| ."+k+" =")) {
			ok1 = true // the block is new: there is nothing to cut out of `yq .`
		}
		if !ok1 || !ok2 {
			res.Verdict, res.Detail = mon.Inconclusive, "block not found in output"
			return res
		}
		b, g = strings.Join(rb, "\n"), strings.Join(rg, "\n")
	}
	if b != g {
		res.Verdict = mon.Violated
		res.Detail = fmt.Sprintf("update `%s` changed lines outside %v\n--- yq . (without the updated blocks) ---\n%s\n--- yq u (without the updated blocks) ---\n%s", u.expr, u.cut, clipStr(b, 900), clipStr(g, 900))
		return res
	}
	res.Verdict = mon.Held
	res.Detail = "everything outside the updated block unchanged"
	return res
}

// c07GlobDelete: the entry selected BY VALUE is the only line that may disappear, even when its key
// looks like a pattern that matches its siblings.
func c07GlobDelete(d c07LineDoc, r *rand.Rand) mon.Result {
	res := mon.Result{Tags: []string{"family:lines", "lines:glob_delete"}}
	expr := []string{
		fmt.Sprintf(`del(.%s[] | select(. == "%s"))`, d.globMap, d.victim),
		fmt.Sprintf(`del(.. | select(. == "%s"))`, d.victim),
		fmt.Sprintf(`del(.%s | .[] | select(. == "%s"))`, d.globMap, d.victim),
	}[r.IntN(3)]
	res.Case = map[string]any{"text": d.text, "update": expr, "kind": "lines_glob_delete"}
	res.Sig = fmt.Sprintf("linesglob|%x|%s", hashStr(d.text), expr)
	base, e1, p1 := yqx.Eval(".", d.text, "yaml", "yaml")
	got, e2, p2 := yqx.Eval(expr, d.text, "yaml", "yaml")
	res.Evals += 2
	if e1 != nil || p1 != nil || e2 != nil || p2 != nil {
		res.Verdict, res.Detail = mon.Inconclusive, fmt.Sprintf("evaluation failed: %v %v %v %v", e1, p1, e2, p2)
		return res
	}
	res.Nontrivial = true
	var want []string
	removed := 0
	for _, ln := range strings.Split(base, "\n") {
		if strings.Contains(ln, ": "+d.victim) {
			removed++
			continue
		}
		want = append(want, ln)
	}
	if removed != 1 {
		res.Verdict, res.Detail, res.Nontrivial = mon.Inconclusive, "victim line not found exactly once in yq's own output", false
		return res
	}
	if strings.Join(want, "\n") != got {
		res.Verdict = mon.Violated
		res.Detail = fmt.Sprintf("`%s` must remove the one entry whose value is %s and leave every other line alone\n--- expected (yq . minus that line) ---\n%s--- yq u ---\n%s", expr, d.victim, clipStr(strings.Join(want, "\n"), 900), clipStr(got, 900))
		return res
	}
	res.Verdict, res.Detail = mon.Held, "only the selected entry's line removed"
	return res
}

// c07MultiDelete: several deletes in one call, written out of document order, mixing a whole element of a list
// with single entries of later elements: exactly the selected lines disappear.
func c07MultiDelete(d c07LineDoc, r *rand.Rand) mon.Result {
	res := mon.Result{Tags: []string{"family:lines", "lines:multi_delete"}}
	n := d.njobs
	whole := r.IntN(n)
	var sels, gone []string
	sels = append(sels, fmt.Sprintf(".jobs[%d]", whole))
	gone = append(gone, fmt.Sprintf("jn%d", whole), fmt.Sprintf("ji%d", whole), fmt.Sprintf("jc%d", whole))
	for j := 0; j < n; j++ {
		if j == whole || r.IntN(2) == 0 {
			continue
		}
		f := []string{"image", "cache"}[r.IntN(2)]
		sels = append(sels, fmt.Sprintf(".jobs[%d].%s", j, f))
		gone = append(gone, fmt.Sprintf("j%s%d", f[:1], j))
	}
	r.Shuffle(len(sels), func(i, j int) { sels[i], sels[j] = sels[j], sels[i] })
	expr := "del(" + strings.Join(sels, ", ") + ")"
	res.Case = map[string]any{"text": d.text, "update": expr, "kind": "lines_multi_delete"}
	res.Sig = fmt.Sprintf("linesmulti|%x|%s", hashStr(d.text), expr)
	base, e1, p1 := yqx.Eval(".", d.text, "yaml", "yaml")
	got, e2, p2 := yqx.Eval(expr, d.text, "yaml", "yaml")
	res.Evals += 2
	if e1 != nil || p1 != nil || e2 != nil || p2 != nil {
		res.Verdict, res.Detail = mon.Inconclusive, fmt.Sprintf("evaluation failed: %v %v %v %v", e1, p1, e2, p2)
		return res
	}
	res.Nontrivial = len(sels) >= 2
	var want []string
	for _, ln := range strings.Split(base, "\n") {
		drop := false
		for _, g := range gone {
			if strings.HasSuffix(strings.TrimSpace(strings.SplitN(ln, " #", 2)[0]), ": "+g) {
				drop = true
			}
		}
		if !drop {
			want = append(want, ln)
		}
	}
	// an element whose first entry (name) stays but whose dash line went: not generated (name is never deleted alone)
	if strings.Join(want, "\n") != got {
		res.Verdict = mon.Violated
		res.Detail = fmt.Sprintf("`%s` must remove exactly the selected lines\n--- expected ---\n%s--- yq u ---\n%s", expr, clipStr(strings.Join(want, "\n"), 1200), clipStr(got, 1200))
		return res
	}
	res.Verdict, res.Detail = mon.Held, fmt.Sprintf("%d selections removed, nothing else", len(sels))
	return res
}

func blockLines(out, k string) []string {
	var res []string
	in := false
	for _, ln := range strings.Split(out, "\n") {
		if in {
			if strings.HasPrefix(ln, " ") || strings.HasPrefix(ln, "-") {
				res = append(res, ln)
				continue
			}
			break
		}
		if strings.HasPrefix(ln, k+":") {
			in = true
		}
	}
	return res
}

func subsequence(small, big []string) bool {
	i := 0
	for _, ln := range big {
		if i < len(small) && small[i] == ln {
			i++
		}
	}
	return i == len(small)
}
