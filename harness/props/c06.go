package props

import (
	"bytes"
	"encoding/json"
	"fmt"
	"io"
	"math"
	"math/big"
	"math/rand/v2"
	"os"
	"path/filepath"
	"regexp"
	"sort"
	"strconv"
	"strings"
	"unicode/utf8"

	"github.com/mikefarah/yq/v4/pkg/yqlib"
	yaml "gopkg.in/yaml.v3"

	"verifharness/gen"
	"verifharness/genc06"
	"verifharness/mon"
	"verifharness/ref"
	"verifharness/yqx"
)

// C06 — YAML<->JSON conversion is value-exact and always emits valid JSON.
//
// Technique: generator ground truth + independent reader. The harness writes the YAML / JSON text
// itself (own emitters in gen/c06_*.go with varied surface syntax), knows the data-model value it
// stands for, lets the real yq (library entry points and the real binary) convert, and reads yq's
// output with encoding/json (yq uses goccy/go-json). Three sub-oracles:
//
//	a  YAML -> `-o=json` (indent 0..8, unwrap on/off)   == ground truth, strict JSON, exact layout
//	b  JSON -> YAML -> JSON, JSON -> JSON, to_json|from_json, @json   == original JSON value
//	c  unrepresentable (.inf/.nan; colliding non-string keys) => error, never different data
type c06 struct{}

func init() { mon.Register(c06{}) }

func (c06) ID() string    { return "C06" }
func (c06) Level() string { return "exploration" }
func (c06) Rule() string {
	return "case = one generated document (or stream) in one sub-workload: a-general / a-scalar / a-deep (chains to depth 200) / a-nonstr-keys / " +
		"a-alias (anchors, aliases, single `<<: *x` merges with disjoint keys) / a-bigint / a-multidoc: own YAML emitter (block+flow, plain/single/double/literal/folded/!!str, " +
		"dec/+/hex/octal ints, float spellings) -> yq -o=json at two (indent, unwrap) settings in-process and, for a third of the cases, through the real binary; " +
		"b-roundtrip (JSON -> -p=json -o=yaml -> -o=json), b-direct (-p=json -o=json, NDJSON streams), b-expr (to_json|from_json, @json) from an own JSON writer " +
		"(white space, \\uXXXX incl. surrogate pairs, \\/, exponent spellings, -0, big ints); c-nonfinite (.inf/-.inf/.nan planted anywhere: yq must fail), " +
		"c-collide ({1: a, \"1\": b}), c-mergekey (a string key \"<<\"). Output is read by encoding/json (json.Valid-grade scanner + UseNumber token walk, order and " +
		"duplicates kept, must be valid UTF-8); strings compared code point exact, integers by exact decimal value, floats by strconv.ParseFloat(text)==value, key order kept " +
		"(not asserted inside a map that merges); layout: -I0 = one line per result without insignificant white space, -In = exactly n*depth leading spaces on every line. " +
		"Every YAML text is first read by yaml.v3's Node API inside the harness; disagreement with the generator => inconclusive(generator_disagreement). " +
		"Non-trivial = the case has a string that JSON must escape or that is non-ASCII, or a number that is not a small decimal integer, or depth >= 3, or an alias/merge/non-string key/non-finite float. " +
		"Distinct by (sub-workload, shape hash, style mix, scalar class mix)."
}
func (c06) Assumptions() []string {
	return []string{
		"encoding/json (stdlib) is a correct strict JSON reader; gopkg.in/yaml.v3's parser (Node API) reads the structure and string content of the harness's own YAML text correctly (it is a dependency, not the code under test)",
		"ground truth follows the YAML 1.2 core schema: an integer literal of any size is an integer. yaml.v3 resolves decimal integers outside [-2^63, 2^64) as !!float; what yq prints for them is classified as finding C06-yaml-int-beyond-64bit-as-float (exact matcher), inside [2^63, 2^64) as C06-yaml-int-above-int64-rejected",
		"only spellings on which YAML 1.2 core schema and yaml.v3 agree are generated: no 0777, 1_000, 0b1, yes/no, sexagesimal, timestamps as plain scalars (these appear quoted, as strings); `\\/` is never used in YAML double quotes (yaml.v3 rejects it)",
		"strings are valid Unicode scalar-value sequences (NUL allowed through escapes); lone surrogates in JSON input are outside the domain",
		"floats are finite float64 values; JSON numbers are compared by exact decimal value when the expected value is an integer and by float64 value otherwise; -0 equals 0",
		"with scalar unwrapping on, a top-level scalar is printed raw by design: strings are compared to the raw text, other scalars to their source spelling or any JSON spelling of the value; the JSON->YAML->JSON leg of a top-level scalar runs with unwrapScalar=false",
		"merge order: the position of merged keys inside the merging map is not asserted (C13 owns precedence); merged maps have disjoint string keys and one alias",
		"-I0 is asserted strictly: one line per result and no white space outside strings",
	}
}
func (c06) Cases(tier string) int {
	if tier == "thorough" {
		return 300000
	}
	return 12000
}
func (c06) RaceCases(tier string) int {
	if tier == "thorough" {
		return 10000
	}
	return 300
}
func (c06) Floor(tier string) int {
	if tier == "thorough" {
		return 100000
	}
	return 5000
}

// ---------------------------------------------------------------------------------------------
// sub-workloads

var c06Modes = func() []string {
	w := []struct {
		m string
		n int
	}{{"a-general", 12}, {"a-scalar", 3}, {"a-deep", 2}, {"a-nonstr-keys", 2}, {"a-alias", 4}, {"a-bigint", 1}, {"a-multidoc", 2},
		{"b-roundtrip", 5}, {"b-direct", 3}, {"b-expr", 2}, {"c-nonfinite", 3}, {"c-collide", 1}}
	var out []string
	for _, x := range w {
		for i := 0; i < x.n; i++ {
			out = append(out, x.m)
		}
	}
	return out
}()

// minimum distinct non-trivial conclusive cases per sub-oracle (quick tier; thorough = x50)
var c06SubFloor = map[string]int{"a": 1200, "b": 450, "c": 200}

type c06Cfg struct {
	Indent int  `json:"indent"`
	Unwrap bool `json:"unwrap"`
}

// c06Expect is the ground truth of one case.
type c06Expect struct {
	Want      []*ref.V
	Unordered map[*ref.V]bool
	Route     string   // "yaml" | "json": the yq decoder the numbers went through last
	MustFail  bool     // sub-oracle c: non-finite float present
	RangeLits []string // literals of integers in [2^63, 2^64) as strconv.ParseInt would quote them
	Collide   bool     // a map has two keys with the same text
	MergeKey  bool     // a string key "<<" is present
	Src       string   // source spelling of a single top-level scalar document ("" otherwise)
}

// c06Case is the prepared case (pure function of the PRNG) and what is written to evidence / replay.
type c06Case struct {
	Mode     string   `json:"mode"`
	In       string   `json:"in_format"`
	Input    string   `json:"input"`
	Expr     string   `json:"expr,omitempty"`
	Wrapped  bool     `json:"result_is_json_in_a_string,omitempty"`
	Cfgs     []c06Cfg `json:"configs"`
	YamlInd  int      `json:"yaml_indent,omitempty"`
	WantJSON []string `json:"want,omitempty"`
	BinArgs  []string `json:"binary_args,omitempty"`
	Binary   bool     `json:"binary"`

	exp        c06Expect
	tags       []string
	sig        string
	nontrivial bool
	genErr     string // generator self-check failed -> inconclusive
}

func c06Sub(mode string) string { return mode[:1] }

func (p c06) Run(w *mon.Worker, idx int) mon.Result {
	if idx%60 == 59 {
		return c06ByteStrings(w, idx)
	}
	c := c06Gen(w, idx)
	res := mon.Result{Case: c, Sig: c.sig, Nontrivial: c.nontrivial, Tags: append([]string{"sub:" + c06Sub(c.Mode), "mode:" + c.Mode}, c.tags...)}
	if c.genErr != "" {
		res.Verdict = mon.Inconclusive
		res.Tags = append(res.Tags, "generator_disagreement")
		res.Detail = c.genErr
		return res
	}
	var js []c06Judgement
	switch c.Mode {
	case "b-roundtrip":
		js = c06RunRoundTrip(w, idx, c, &res)
	default:
		js = c06RunConvert(w, idx, c, &res)
	}
	// fold: violated > inconclusive > finding > held
	res.Verdict = mon.Held
	for _, j := range js {
		switch {
		case j.verdict == mon.Violated:
			res.Verdict, res.FindingID, res.Detail = mon.Violated, "", j.detail
			return res
		case j.verdict == mon.Inconclusive && res.Verdict != mon.Inconclusive:
			res.Verdict, res.Detail = mon.Inconclusive, j.detail
		case j.verdict == mon.Finding && res.Verdict == mon.Held:
			res.Verdict, res.FindingID, res.Detail = mon.Finding, j.finding, j.detail
		case j.verdict == mon.Held && res.Detail == "":
			res.Detail = j.detail
		}
	}
	if res.Verdict == mon.Finding {
		seen := map[string]bool{}
		for _, j := range js {
			if j.verdict != mon.Finding {
				continue
			}
			for _, id := range append([]string{j.finding}, j.also...) {
				if !seen[id] {
					seen[id] = true
					res.Tags = append(res.Tags, "finding:"+id)
				}
			}
		}
	}
	return res
}

// ---------------------------------------------------------------------------------------------
// case generation

func c06Gen(w *mon.Worker, idx int) *c06Case {
	r := w.Rand(idx)
	mode := c06Modes[idx%len(c06Modes)]
	c := &c06Case{Mode: mode}
	c.Binary = !w.Race && (idx/len(c06Modes))%3 == 0
	switch mode[0] {
	case 'a', 'c':
		c06GenYAML(r, c)
	default:
		c06GenJSON(r, c)
	}
	for _, v := range c.exp.Want {
		c.WantJSON = append(c.WantJSON, clipStr(v.JSON(), 4000))
	}
	return c
}

func c06TwoCfgs(r *rand.Rand, unwrapOK bool) []c06Cfg {
	a := c06Cfg{Indent: r.IntN(9), Unwrap: r.IntN(2) == 0}
	b := c06Cfg{Indent: r.IntN(9), Unwrap: !a.Unwrap}
	if a.Indent != 0 && b.Indent != 0 && r.IntN(3) == 0 {
		b.Indent = 0
	}
	if !unwrapOK {
		a.Unwrap, b.Unwrap = false, false
	}
	return []c06Cfg{a, b}
}

func c06GenYAML(r *rand.Rand, c *c06Case) {
	c.In = "yaml"
	var docs []*genc06.YN
	var subNode *genc06.YN // a-alias: the sub-tree selected by subExpr is what gets converted
	subExpr := ""
	prof := genc06.C06Prof{MaxDepth: 1 + r.IntN(5), MaxWidth: 1 + r.IntN(5), ScalarBias: 40 + r.IntN(30)}
	switch c.Mode {
	case "a-general":
		if r.IntN(12) == 0 {
			prof.MaxWidth = 9 + r.IntN(8) // wide maps (more than 8 keys)
			prof.MaxDepth = 2
		}
		docs = []*genc06.YN{genc06.C06Tree(r, prof)}
	case "a-scalar":
		if r.IntN(3) == 0 {
			n := &genc06.YN{Kind: genc06.YSeq, Step: 2, Flow: r.IntN(3) == 0}
			for i := 1 + r.IntN(6); i > 0; i-- {
				n.Items = append(n.Items, genc06.C06Scalar(r, prof, n.Flow))
			}
			docs = []*genc06.YN{n}
		} else {
			docs = []*genc06.YN{genc06.C06Scalar(r, prof, false)}
		}
	case "a-deep":
		d := []int{5, 10, 20, 50, 100, 150, 200}[r.IntN(7)]
		docs = []*genc06.YN{genc06.C06Chain(r, d)}
	case "a-nonstr-keys":
		prof.NonStrKeys = true
		docs = []*genc06.YN{genc06.C06Tree(r, prof)}
	case "a-alias":
		prof.MaxDepth, prof.MaxWidth = 2+r.IntN(3), 2+r.IntN(4)
		var t *genc06.YN
		na, nm := 0, 0
		if r.IntN(4) == 0 {
			// aliases in KEY position only (no alias or merge anywhere in value position)
			t = genc06.C06Tree(r, prof)
			nk := genc06.C06AddAliasKeys(r, t)
			c.tags = append(c.tags, fmt.Sprintf("alias_keys:%d", min(nk, 3)))
		} else if r.IntN(2) == 0 {
			t, nm = genc06.C06MergeDoc(r, prof)
			a2, m2 := genc06.C06AddAliases(r, t, false)
			na, nm = a2, nm+m2
		} else {
			t = genc06.C06Tree(r, prof)
			na, nm = genc06.C06AddAliases(r, t, r.IntN(3) != 0)
			if r.IntN(4) == 0 {
				nk := genc06.C06AddAliasKeys(r, t)
				c.tags = append(c.tags, fmt.Sprintf("alias_keys:%d", min(nk, 3)))
			}
			if r.IntN(2) == 0 { // (after every alias is in place)
				if nr := genc06.C06RedefineAnchors(r, t); nr > 0 {
					c.tags = append(c.tags, "anchor_name_redefined")
				}
			}
		}
		c.tags = append(c.tags, fmt.Sprintf("aliases:%d", min(na, 3)), fmt.Sprintf("merges:%d", min(nm, 3)))
		docs = []*genc06.YN{t}
		if r.IntN(2) == 0 {
			// convert a SUB-tree only: what it merges or aliases has not been exploded by the time it is printed
			var kids []*genc06.YN
			var sels []string
			switch t.Kind {
			case genc06.YMap:
				for i, k := range t.Keys {
					if (t.Merge != nil && t.Merge[i]) || strings.ContainsAny(k.KeyText(), "*?") {
						continue // (`*` and `?` in a key select by pattern)
					}
					kids, sels = append(kids, t.Vals[i]), append(sels, ".["+ref.ExprString(k.KeyText())+"]")
				}
			case genc06.YSeq:
				for i, it := range t.Items {
					kids, sels = append(kids, it), append(sels, fmt.Sprintf(".[%d]", i))
				}
			}
			var pick []int
			for i, kd := range kids {
				x := kd
				if x.Kind == genc06.YAlias {
					x = x.Target
				}
				if (x.Kind == genc06.YMap || x.Kind == genc06.YSeq) && ref.ExprStringOK(strings.Trim(sels[i], `.[]"`)) {
					pick = append(pick, i)
				}
			}
			if len(pick) > 0 {
				i := pick[r.IntN(len(pick))]
				if r.IntN(2) == 0 {
					i = pick[len(pick)-1] // the last one merges / aliases the most
				}
				subExpr, subNode = sels[i], kids[i]
				c.tags = append(c.tags, "subtree_conversion")
			}
		}
	case "a-bigint":
		prof.BigInts = true
		t := genc06.C06Tree(r, prof)
		t = genc06.C06Plant(r, t, genc06.YBigInt(r))
		docs = []*genc06.YN{t}
	case "a-multidoc":
		prof.MaxDepth = 1 + r.IntN(3)
		for i := 2 + r.IntN(3); i > 0; i-- {
			docs = append(docs, genc06.C06Tree(r, prof))
		}
	case "c-nonfinite":
		t := genc06.C06Tree(r, prof)
		t = genc06.C06Plant(r, t, genc06.YNonFinite(r))
		docs = []*genc06.YN{t}
		c.exp.MustFail = true
	case "c-collide":
		t := genc06.C06Tree(r, prof)
		if r.IntN(2) == 0 {
			// {1: a, "1": b}: two different YAML keys with the same text
			var k1 *genc06.YN
			switch r.IntN(4) {
			case 0:
				k1 = &genc06.YN{Kind: genc06.YScalar, Val: ref.BoolV(true), Text: "true"}
			case 1:
				k1 = &genc06.YN{Kind: genc06.YScalar, Val: ref.NullV(), Text: "null"}
			default:
				i := int64(r.IntN(30) - 5)
				k1 = &genc06.YN{Kind: genc06.YScalar, Val: ref.IntV(i), Text: strconv.FormatInt(i, 10), Spell: "dec"}
			}
			k2 := genc06.YStr(r, k1.Text, 2)
			ks := []*genc06.YN{k1, k2}
			if r.IntN(2) == 0 {
				ks[0], ks[1] = ks[1], ks[0]
			}
			t = genc06.C06PlantEntry(r, t, ks, []*genc06.YN{genc06.C06SmallValue(r), genc06.C06SmallValue(r)})
			c.exp.Collide = true
			c.tags = append(c.tags, "collide:"+k1.Val.K.String())
		} else {
			// a STRING key "<<" (quoted): an ordinary key, not a merge
			t = genc06.C06PlantEntry(r, t, []*genc06.YN{genc06.YStr(r, "<<", 2)}, []*genc06.YN{genc06.C06SmallValue(r)})
			c.exp.MergeKey = true
			c.tags = append(c.tags, "string-key-<<")
		}
		docs = []*genc06.YN{t}
	}
	c.exp.Route = "yaml"
	c.exp.Unordered = map[*ref.V]bool{}
	topScalar := false
	hasBlockScalar := false
	for _, d := range docs {
		c.exp.Want = append(c.exp.Want, d.Resolve(c.exp.Unordered))
		if d.Kind == genc06.YScalar || (d.Kind == genc06.YAlias) {
			topScalar = true
		}
		d.Walk(func(n *genc06.YN, isKey bool) {
			if n.Header != "" {
				hasBlockScalar = true
			}
			if !isKey && n.Kind == genc06.YScalar && n.Val.K == ref.Int && n.Val.I.BitLen() == 64 && n.Val.I.Sign() > 0 {
				lit := n.Text
				if n.Spell == "hex" {
					lit = n.Text[2:]
				}
				c.exp.RangeLits = append(c.exp.RangeLits, lit)
			}
		})
	}
	if len(docs) == 1 && docs[0].Kind == genc06.YScalar {
		c.exp.Src = docs[0].Text
		if docs[0].Spell == "tagged-quoted" {
			// `!!bool "False"`: the raw value is the text between the quotes
			t := docs[0].Text[strings.IndexByte(docs[0].Text, ' ')+1:]
			c.exp.Src = t[1 : len(t)-1]
			if c.exp.Src == "" {
				c.exp.Src = "\x00empty" // `!!null ""` printed raw is the empty text
			}
		}
	}
	c.Input = genc06.YEmitStream(r, docs)
	if !hasBlockScalar && r.IntN(5) == 0 {
		c.Input = strings.TrimSuffix(c.Input, "\n")
	}
	// unwrap: raw comparison is defined for a single top-level scalar only; non-finite top-level
	// scalars would be printed raw by design, so (c) keeps unwrapping off there
	unwrapOK := !(topScalar && (len(docs) > 1 || c.exp.MustFail))
	c.Cfgs = c06TwoCfgs(r, unwrapOK)
	c06BinArgs(r, c)
	c06ClassifyYAML(c, docs)
	// generator self-check: yaml.v3 must read the same value from the text
	got, _, err := c06YAMLRead(c.Input)
	if err != nil {
		c.genErr = "yaml.v3 rejects the generated text: " + err.Error() + "\n" + clipStr(c.Input, 800)
		return
	}
	if len(got) != len(c.exp.Want) {
		c.genErr = fmt.Sprintf("yaml.v3 reads %d documents, generator wrote %d\n%s", len(got), len(c.exp.Want), clipStr(c.Input, 800))
		return
	}
	for i := range got {
		if d := c06Compare(c.exp.Want[i], got[i], c.exp.Unordered, true); len(d) > 0 {
			c.genErr = fmt.Sprintf("yaml.v3 reads a different value than the generator intended: %s\n%s", d[0].String(), clipStr(c.Input, 800))
			return
		}
	}
	if subNode != nil {
		// (after the self-check on the whole document) the case converts the selected sub-tree only
		c.Expr = subExpr
		c.exp.Want = []*ref.V{subNode.Resolve(c.exp.Unordered)}
	}
}

func c06BinArgs(r *rand.Rand, c *c06Case) {
	cfg := c.Cfgs[0]
	var a []string
	if c.In == "json" {
		a = append(a, gen.Pick(r, []string{"-p=json", "-pj", "--input-format=json"}))
	}
	a = append(a, gen.Pick(r, [][]string{{"-o=json"}, {"-oj"}, {"-o", "json"}, {"--output-format=json"}})...)
	if cfg.Indent == 2 && r.IntN(3) == 0 {
		// default indent
	} else {
		n := strconv.Itoa(cfg.Indent)
		a = append(a, gen.Pick(r, [][]string{{"-I=" + n}, {"-I", n}, {"--indent=" + n}, {"-I" + n}})...)
	}
	if cfg.Unwrap {
		a = append(a, gen.Pick(r, []string{"-r", "--unwrapScalar", "-r=true"}))
	} else if r.IntN(2) == 0 {
		a = append(a, gen.Pick(r, []string{"-r=false", "--unwrapScalar=false"}))
	}
	c.BinArgs = a
}

func c06GenJSON(r *rand.Rand, c *c06Case) {
	c.In = "json"
	c.exp.Route = "json"
	// b-expr stays inside 2^53: its matcher (from_json model) is kept apart from the float64 finding
	prof := genc06.C06JSONProf{MaxDepth: 1 + r.IntN(5), MaxWidth: 1 + r.IntN(5), ScalarBias: 40 + r.IntN(30), BigInts: r.IntN(3) == 0 && c.Mode != "b-expr"}
	var vals []*ref.V
	n := 1
	if c.Mode != "b-expr" && r.IntN(4) == 0 {
		n = 2 + r.IntN(3) // NDJSON
	}
	for i := 0; i < n; i++ {
		switch {
		case r.IntN(15) == 0:
			vals = append(vals, genc06.C06JSONChain(r, []int{5, 20, 60, 120, 200}[r.IntN(5)]))
		case r.IntN(10) == 0:
			vals = append(vals, genc06.C06JSONValue(r, genc06.C06JSONProf{MaxDepth: 0}))
		default:
			vals = append(vals, genc06.C06JSONValue(r, prof))
		}
	}
	if c.Mode == "b-direct" && r.IntN(8) == 0 {
		// a string key "<<" straight through -p=json -o=json
		m := ref.MapV(ref.KV{K: "a", V: ref.IntV(1)}, ref.KV{K: "<<", V: genc06.C06JSONValue(r, genc06.C06JSONProf{MaxDepth: 1, MaxWidth: 2})}, ref.KV{K: "z", V: ref.StrV("z")})
		vals = []*ref.V{m}
		c.exp.MergeKey = true
		c.tags = append(c.tags, "string-key-<<")
	}
	c.exp.Want = vals
	ws := r.IntN(4)
	c.tags = append(c.tags, "json-ws:"+[]string{"compact", "spaces", "pretty", "wild"}[ws])
	if n > 1 {
		if ws == 0 {
			ws = 1
		}
		c.Input = genc06.C06WriteJSONStream(r, vals, ws)
		c.tags = append(c.tags, "ndjson")
	} else {
		c.Input = genc06.C06WriteJSON(r, vals[0], ws)
		if r.IntN(2) == 0 {
			c.Input += "\n"
		}
	}
	topScalar := false
	for _, v := range vals {
		if v.IsScalar() {
			topScalar = true
		}
	}
	c.YamlInd = 1 + r.IntN(8)
	switch c.Mode {
	case "b-roundtrip":
		// the YAML leg of a top-level scalar runs with unwrapScalar=false (see assumptions)
		c.Cfgs = []c06Cfg{{Indent: 0, Unwrap: !topScalar && r.IntN(2) == 0}}
	case "b-direct":
		c.Cfgs = c06TwoCfgs(r, !(topScalar && n > 1))
		if n == 1 && vals[0].IsScalar() {
			c.exp.Src = strings.TrimSpace(c.Input)
		}
		c06BinArgs(r, c)
	case "b-expr":
		k := r.IntN(5)
		switch r.IntN(5) {
		case 0:
			c.Expr = fmt.Sprintf("to_json(%d) | from_json", k)
		case 1:
			c.Expr = "@json | from_json"
		case 2:
			c.Expr = "tojson | fromjson"
		case 3:
			c.Expr, c.Wrapped = "@json", true
		default:
			c.Expr, c.Wrapped = fmt.Sprintf("to_json(%d)", k), true
		}
		if r.IntN(2) == 0 {
			// same value handed over as YAML (JSON text without JSON-only escapes is YAML)
			c.In, c.Input = "yaml", vals[0].JSON()+"\n"
			vals[0].Walk(nil, func(_ []any, n *ref.V) {
				if n.K == ref.Int && n.I.Sign() > 0 && n.I.BitLen() == 64 {
					c.exp.RangeLits = append(c.exp.RangeLits, n.I.String())
				}
			})
			if !strings.Contains(c.Expr, "from") {
				c.exp.Route = "yaml"
			}
			c.tags = append(c.tags, "expr-input:yaml")
		}
		c.Cfgs = []c06Cfg{{Indent: r.IntN(5), Unwrap: false}}
		c.BinArgs = []string{"-p=" + c.In, "-o=json", fmt.Sprintf("-I=%d", c.Cfgs[0].Indent), "-r=false"}
		c.tags = append(c.tags, "expr:"+regexp.MustCompile(`\d+`).ReplaceAllString(c.Expr, "N"))
	}
	c06ClassifyJSON(c, vals)
	// generator self-check: encoding/json must read the same values from the text
	if c.In == "json" {
		got, err := c06ParseJSONStream(c.Input)
		if err != nil || len(got) != len(vals) {
			c.genErr = fmt.Sprintf("encoding/json rejects the generated JSON text (%v)\n%s", err, clipStr(c.Input, 800))
			return
		}
		for i := range got {
			if d := c06Compare(vals[i], got[i], nil, true); len(d) > 0 {
				c.genErr = "encoding/json reads a different value than the generator intended: " + d[0].String()
				return
			}
		}
	} else {
		got, _, err := c06YAMLRead(c.Input)
		if err != nil || len(got) != 1 || len(c06Compare(vals[0], got[0], nil, true)) > 0 {
			c.genErr = fmt.Sprintf("yaml.v3 does not read the JSON-as-YAML text as intended (%v)\n%s", err, clipStr(c.Input, 800))
		}
	}
}

// ---------------------------------------------------------------------------------------------
// classification (tags, non-triviality, signature)

type c06Classes struct {
	set        map[string]bool
	nontrivial bool
}

func (k *c06Classes) add(t string, nt bool) {
	k.set[t] = true
	if nt {
		k.nontrivial = true
	}
}

func (k *c06Classes) str(s string) {
	if s == "" {
		k.add("str:empty", false)
	}
	ascii := true
	for _, c := range s {
		switch {
		case c == 0:
			k.add("str:NUL", true)
		case c < 0x20 || c >= 0x7f && c <= 0x9f:
			k.add("str:control", true)
		case c == '"' || c == '\\':
			k.add("str:quote", true)
		case c == 0x2028 || c == 0x2029 || c == 0xfeff:
			k.add("str:LS-PS-BOM", true)
		case c >= 0x10000:
			k.add("str:non-BMP", true)
		case c == '<' || c == '>' || c == '&':
			k.add("str:html", false)
		}
		if c >= 0x80 {
			ascii = false
		}
	}
	if !ascii {
		k.add("str:non-ASCII", true)
	}
	if c06LooksTyped(s) {
		k.add("str:looks-like-type", false)
	}
	if len(s) > 80 {
		k.add("str:long", false)
	}
}

var c06NumLike = regexp.MustCompile(`^[-+]?(\.[0-9]+|[0-9]+(\.[0-9]*)?)([eE][-+]?[0-9]+)?$|^0x[0-9a-fA-F]+$|^0o[0-7]+$|^[-+]?\.(inf|Inf|INF)$|^\.(nan|NaN|NAN)$|^\d{4}-\d\d-\d\d`)

func c06LooksTyped(s string) bool {
	switch strings.ToLower(s) {
	case "", "~", "null", "true", "false", "yes", "no", "on", "off", "y", "n", "<<":
		return true
	}
	return c06NumLike.MatchString(s)
}

var c06Two53 = new(big.Int).Lsh(big.NewInt(1), 53)
var c06Two63 = new(big.Int).Lsh(big.NewInt(1), 63)
var c06Two64 = new(big.Int).Lsh(big.NewInt(1), 64)
var c06MinInt64 = new(big.Int).Neg(c06Two63)

func (k *c06Classes) num(v *ref.V, text string) {
	if v.K == ref.Int {
		a := new(big.Int).Abs(v.I)
		switch {
		case v.I.Cmp(c06MinInt64) < 0 || v.I.Cmp(c06Two64) >= 0:
			k.add("num:int-beyond-64bit", true)
		case v.I.Cmp(c06Two63) >= 0:
			k.add("num:int-uint64-range", true)
		case a.Cmp(c06Two53) > 0:
			k.add("num:int>2^53", true)
		case a.BitLen() > 31:
			k.add("num:int>2^31", true)
		default:
			k.add("num:int-small", false)
		}
		return
	}
	f := v.F
	switch {
	case math.IsNaN(f) || math.IsInf(f, 0):
		k.add("num:non-finite", true)
	case f == 0 && math.Signbit(f):
		k.add("num:neg-zero", true)
	case f == math.Trunc(f) && math.Abs(f) < 1e15:
		k.add("num:float-integral", true)
	case math.Abs(f) >= 1e21 || (f != 0 && math.Abs(f) < 1e-6):
		k.add("num:float-big-or-tiny-exponent", true)
	default:
		k.add("num:float", true)
	}
	if strings.ContainsAny(text, "eE") {
		k.add("num:float-exp-spelling", true)
	}
}

func c06DepthBucket(d int) string {
	switch {
	case d <= 2:
		return "depth:0-2"
	case d <= 5:
		return "depth:3-5"
	case d <= 20:
		return "depth:6-20"
	case d <= 100:
		return "depth:21-100"
	}
	return "depth:101-200"
}

func (k *c06Classes) list() []string {
	var out []string
	for t := range k.set {
		out = append(out, t)
	}
	sort.Strings(out)
	return out
}

func c06ClassifyYAML(c *c06Case, docs []*genc06.YN) {
	k := &c06Classes{set: map[string]bool{}}
	styles := map[string]bool{}
	depth := 0
	var shape uint64
	for _, d := range docs {
		if x := d.Depth(); x > depth {
			depth = x
		}
		d.Walk(func(n *genc06.YN, isKey bool) {
			switch n.Kind {
			case genc06.YAlias:
				k.add("yaml:alias", true)
			case genc06.YSeq, genc06.YMap:
				if n.Flow {
					styles["flow"] = true
				} else {
					styles["block"] = true
				}
				if n.Merge != nil {
					k.add("yaml:merge", true)
				}
				if len(n.Items)+len(n.Keys) == 0 {
					k.add("empty-container", false)
				}
				if len(n.Keys) > 8 {
					k.add("map>8keys", false)
				}
			case genc06.YScalar:
				if n.Anchor != "" {
					k.add("yaml:anchor", true)
				}
				switch n.Val.K {
				case ref.Str:
					styles[n.Style.String()] = true
					k.str(n.Val.S)
				case ref.Int, ref.Float:
					k.num(n.Val, n.Text)
					if n.Spell != "" && n.Spell != "dec" && n.Spell != "shortest" {
						k.add("spell:"+n.Spell, true)
					}
					if isKey {
						k.add("key:"+n.Val.K.String(), true)
					}
				case ref.Null:
					k.add("null:"+map[bool]string{true: "empty", false: n.Text}[n.Text == ""], false)
					if isKey {
						k.add("key:null", true)
					}
				case ref.Bool:
					k.add("bool:"+n.Text, false)
					if isKey {
						k.add("key:bool", true)
					}
				}
			}
		})
	}
	for _, v := range c.exp.Want {
		shape = shape*31 + v.ShapeHash()
	}
	var st []string
	for s := range styles {
		st = append(st, s)
		c.tags = append(c.tags, "style:"+s)
	}
	sort.Strings(st)
	if depth >= 3 {
		k.nontrivial = true
	}
	cl := k.list()
	c.tags = append(c.tags, cl...)
	c.tags = append(c.tags, c06DepthBucket(depth), fmt.Sprintf("docs:%d", len(docs)))
	for _, cfg := range c.Cfgs {
		c.tags = append(c.tags, fmt.Sprintf("indent:%d", cfg.Indent), fmt.Sprintf("unwrap:%v", cfg.Unwrap))
	}
	c.nontrivial = k.nontrivial
	c.sig = fmt.Sprintf("%s|%x|%s|%x", c.Mode, shape, strings.Join(st, "+"), hashStr(strings.Join(cl, ",")))
}

func c06VDepth(v *ref.V) int {
	d := 0
	for _, x := range v.A {
		if y := c06VDepth(x) + 1; y > d {
			d = y
		}
	}
	for _, e := range v.M {
		if y := c06VDepth(e.V) + 1; y > d {
			d = y
		}
	}
	return d
}

func c06ClassifyJSON(c *c06Case, vals []*ref.V) {
	k := &c06Classes{set: map[string]bool{}}
	depth := 0
	var shape uint64
	for _, v := range vals {
		if x := c06VDepth(v); x > depth {
			depth = x
		}
		shape = shape*31 + v.ShapeHash()
		v.Walk(nil, func(_ []any, n *ref.V) {
			switch n.K {
			case ref.Str:
				k.str(n.S)
			case ref.Int, ref.Float:
				k.num(n, "")
			case ref.Map:
				for _, e := range n.M {
					k.str(e.K)
				}
				if len(n.M) == 0 {
					k.add("empty-container", false)
				}
			case ref.Seq:
				if len(n.A) == 0 {
					k.add("empty-container", false)
				}
			}
		})
	}
	if strings.Contains(c.Input, `\u`) {
		k.add("json:\\u-escape", true)
	}
	if regexp.MustCompile(`\\u[dD][89abAB]`).MatchString(c.Input) {
		k.add("json:surrogate-pair", true)
	}
	if strings.Contains(c.Input, `\/`) {
		k.add("json:\\/", true)
	}
	if depth >= 3 {
		k.nontrivial = true
	}
	cl := k.list()
	c.tags = append(c.tags, cl...)
	c.tags = append(c.tags, c06DepthBucket(depth), fmt.Sprintf("docs:%d", len(vals)))
	for _, cfg := range c.Cfgs {
		c.tags = append(c.tags, fmt.Sprintf("indent:%d", cfg.Indent), fmt.Sprintf("unwrap:%v", cfg.Unwrap))
	}
	c.nontrivial = k.nontrivial
	c.sig = fmt.Sprintf("%s|%x|%s|%x", c.Mode, shape, c.Expr, hashStr(strings.Join(cl, ",")))
}

// ---------------------------------------------------------------------------------------------
// independent readers

// c06ParseJSONStream reads a concatenation of JSON texts strictly: every text passes
// encoding/json's full scanner (Decode into RawMessage), then a UseNumber token walk keeps member
// order, duplicate names and the number literal (stored in V.S of Int/Float nodes).
func c06ParseJSONStream(s string) ([]*ref.V, error) {
	if !utf8.ValidString(s) {
		return nil, fmt.Errorf("output is not valid UTF-8")
	}
	dec := json.NewDecoder(strings.NewReader(s))
	var out []*ref.V
	for {
		var raw json.RawMessage
		err := dec.Decode(&raw)
		if err == io.EOF {
			return out, nil
		}
		if err != nil {
			return out, err
		}
		if !json.Valid(raw) {
			return out, fmt.Errorf("json.Valid rejects %s", clipStr(string(raw), 80))
		}
		td := json.NewDecoder(bytes.NewReader(raw))
		td.UseNumber()
		v, err := c06Tok(td)
		if err != nil {
			return out, err
		}
		out = append(out, v)
	}
}

func c06Tok(dec *json.Decoder) (*ref.V, error) {
	t, err := dec.Token()
	if err != nil {
		return nil, err
	}
	switch x := t.(type) {
	case nil:
		return ref.NullV(), nil
	case bool:
		return ref.BoolV(x), nil
	case string:
		return ref.StrV(x), nil
	case json.Number:
		v, err := ref.NumFromText(string(x))
		if err != nil {
			return nil, err
		}
		v.S = string(x)
		return v, nil
	case json.Delim:
		if x == '[' {
			v := &ref.V{K: ref.Seq, A: []*ref.V{}}
			for dec.More() {
				e, err := c06Tok(dec)
				if err != nil {
					return nil, err
				}
				v.A = append(v.A, e)
			}
			_, err := dec.Token()
			return v, err
		}
		if x == '{' {
			v := &ref.V{K: ref.Map, M: []ref.KV{}}
			for dec.More() {
				kt, err := dec.Token()
				if err != nil {
					return nil, err
				}
				k, ok := kt.(string)
				if !ok {
					return nil, fmt.Errorf("non-string object name")
				}
				e, err := c06Tok(dec)
				if err != nil {
					return nil, err
				}
				v.M = append(v.M, ref.KV{K: k, V: e})
			}
			_, err := dec.Token()
			return v, err
		}
	}
	return nil, fmt.Errorf("unexpected token %v", t)
}

var c06DecInt = regexp.MustCompile(`^[-+]?[0-9]+$`)
var c06HexInt = regexp.MustCompile(`^0x[0-9a-fA-F]+$`)
var c06OctInt = regexp.MustCompile(`^0o[0-7]+$`)

// c06YAMLRead reads the harness's own YAML text with yaml.v3's Node API (second opinion on
// structure, string content and resolved tags). Integer and float texts are interpreted by the
// YAML 1.2 core schema rules, not by yaml.v3's Go value conversion.
func c06YAMLRead(text string) ([]*ref.V, map[*ref.V]bool, error) {
	dec := yaml.NewDecoder(strings.NewReader(text))
	unordered := map[*ref.V]bool{}
	var out []*ref.V
	for {
		var n yaml.Node
		err := dec.Decode(&n)
		if err == io.EOF {
			return out, unordered, nil
		}
		if err != nil {
			return out, unordered, err
		}
		root := &n
		if n.Kind == yaml.DocumentNode {
			if len(n.Content) != 1 {
				return out, unordered, fmt.Errorf("document with %d roots", len(n.Content))
			}
			root = n.Content[0]
		}
		v, err := c06FromNode(root, unordered)
		if err != nil {
			return out, unordered, err
		}
		out = append(out, v)
	}
}

func c06FromNode(n *yaml.Node, unordered map[*ref.V]bool, depth ...int) (*ref.V, error) {
	d := 0
	if len(depth) > 0 {
		d = depth[0]
	}
	if d > 2000 {
		return nil, fmt.Errorf("nesting deeper than 2000 (alias cycle?)")
	}
	switch n.Kind {
	case yaml.AliasNode:
		if n.Alias == nil {
			return nil, fmt.Errorf("dangling alias")
		}
		return c06FromNode(n.Alias, unordered, d+1)
	case yaml.ScalarNode:
		t := n.Value
		switch n.ShortTag() {
		case "!!str":
			return ref.StrV(t), nil
		case "!!null":
			return ref.NullV(), nil
		case "!!bool":
			switch strings.ToLower(t) {
			case "true":
				return ref.BoolV(true), nil
			case "false":
				return ref.BoolV(false), nil
			}
			return nil, fmt.Errorf("bool spelling %q", t)
		case "!!int":
			var i *big.Int
			var ok bool
			switch {
			case c06DecInt.MatchString(t):
				i, ok = new(big.Int).SetString(strings.TrimPrefix(t, "+"), 10)
			case c06HexInt.MatchString(t):
				i, ok = new(big.Int).SetString(t[2:], 16)
			case c06OctInt.MatchString(t):
				i, ok = new(big.Int).SetString(t[2:], 8)
			}
			if !ok {
				return nil, fmt.Errorf("integer spelling %q is outside the generated set", t)
			}
			return &ref.V{K: ref.Int, I: i}, nil
		case "!!float":
			switch strings.ToLower(t) {
			case ".inf", "+.inf":
				return ref.FloatV(math.Inf(1)), nil
			case "-.inf":
				return ref.FloatV(math.Inf(-1)), nil
			case ".nan":
				return ref.FloatV(math.NaN()), nil
			}
			if c06DecInt.MatchString(t) {
				// YAML 1.2 core schema: an integer; yaml.v3 only falls back to float beyond uint64
				i, _ := new(big.Int).SetString(strings.TrimPrefix(t, "+"), 10)
				return &ref.V{K: ref.Int, I: i}, nil
			}
			f, err := strconv.ParseFloat(t, 64)
			if err != nil {
				return nil, err
			}
			return ref.FloatV(f), nil
		case "!!timestamp":
			// JSON has no timestamps: the scalar converts to the string of its source text
			return ref.StrV(t), nil
		}
		return nil, fmt.Errorf("scalar %q resolved to unexpected tag %s", clipStr(t, 40), n.ShortTag())
	case yaml.SequenceNode:
		v := &ref.V{K: ref.Seq, A: []*ref.V{}}
		for _, c := range n.Content {
			e, err := c06FromNode(c, unordered, d+1)
			if err != nil {
				return nil, err
			}
			v.A = append(v.A, e)
		}
		return v, nil
	case yaml.MappingNode:
		v := &ref.V{K: ref.Map, M: []ref.KV{}}
		for i := 0; i+1 < len(n.Content); i += 2 {
			k, val := n.Content[i], n.Content[i+1]
			if k.Kind == yaml.AliasNode && k.Alias != nil && k.Alias.Kind == yaml.ScalarNode {
				k = k.Alias
			}
			if k.Kind != yaml.ScalarNode {
				return nil, fmt.Errorf("non-scalar key")
			}
			e, err := c06FromNode(val, unordered, d+1)
			if err != nil {
				return nil, err
			}
			if k.ShortTag() == "!!merge" {
				srcs := []*ref.V{e}
				if e.K == ref.Seq {
					srcs = e.A
				}
				for _, src := range srcs {
					if src.K != ref.Map {
						return nil, fmt.Errorf("merge of a non-map")
					}
					for _, kv := range src.Copy().M {
						if _, dup := v.Get(kv.K); !dup {
							v.M = append(v.M, kv)
						}
					}
				}
				unordered[v] = true
				continue
			}
			v.M = append(v.M, ref.KV{K: k.Value, V: e})
		}
		return v, nil
	}
	return nil, fmt.Errorf("unexpected node kind %d", n.Kind)
}

// ---------------------------------------------------------------------------------------------
// comparison

type c06Diff struct {
	Path      string
	Kind      string // num | leaf | struct
	Want, Got *ref.V
}

func c06Show(v *ref.V) string {
	if v == nil {
		return "(nothing)"
	}
	if v.IsNum() && v.S != "" {
		return v.S
	}
	return clipStr(v.JSON(), 160)
}

func (d c06Diff) String() string {
	return fmt.Sprintf("at %s: expected %s %s, observed %s %s", d.Path, d.Want.K, c06Show(d.Want), d.Got.K, c06Show(d.Got))
}

// c06NumEqual: want is ground truth. Integer: the decimal value of the observed literal must be
// exactly the integer. Float: strconv.ParseFloat(literal) must be the float64 (NaN never equal).
func c06NumEqual(want, got *ref.V) bool {
	if !got.IsNum() {
		return false
	}
	if want.K == ref.Int {
		if got.K == ref.Int {
			return want.I.Cmp(got.I) == 0
		}
		if got.S != "" {
			if q, ok := new(big.Rat).SetString(got.S); ok {
				return q.IsInt() && q.Num().Cmp(want.I) == 0
			}
			return false
		}
		if math.IsInf(got.F, 0) || math.IsNaN(got.F) {
			return false
		}
		bf := new(big.Float).SetFloat64(got.F)
		bi, acc := bf.Int(nil)
		return acc == big.Exact && bi.Cmp(want.I) == 0
	}
	g := got.F
	if got.K == ref.Int {
		if got.S != "" {
			f, err := strconv.ParseFloat(got.S, 64)
			if err != nil {
				return false
			}
			g = f
		} else {
			g, _ = new(big.Float).SetInt(got.I).Float64()
		}
	}
	return g == want.F
}

// c06LeadingBlank: the structural feature of finding C06-yaml-out-block-scalar-leading-blank: a
// multi-line string that starts with a space, tab, line feed, U+2028 or U+2029 (yaml.v3 writes
// those as a literal block scalar whose header / first line it gets wrong).
func c06LeadingBlank(s string) bool {
	if !strings.Contains(s, "\n") {
		return false
	}
	c, _ := utf8.DecodeRuneInString(s)
	return c == ' ' || c == '\n' || c == '\t' || c == 0x2028 || c == 0x2029
}

// c06BlankNorm removes what that finding may damage: leading blanks of the text and leading
// spaces of every line.
func c06BlankNorm(s string) string {
	s = strings.TrimLeft(s, "\n\t \u2028\u2029")
	lines := strings.Split(s, "\n")
	for i := range lines {
		lines[i] = strings.TrimLeft(lines[i], " ")
	}
	return strings.Join(lines, "\n")
}

// c06Compare returns the differences (at most 64). selfCheck=true compares NaN==NaN. With
// softBlank, a differing string (value or key) whose expected text has the leading-blank feature
// is reported as kind "fstr" and the walk goes on (keys are then matched by position).
func c06Compare(want, got *ref.V, unordered map[*ref.V]bool, selfCheck bool, softBlank ...bool) []c06Diff {
	soft := len(softBlank) > 0 && softBlank[0]
	var ds []c06Diff
	var walk func(w, g *ref.V, path []string)
	walk = func(w, g *ref.V, path []string) {
		if len(ds) >= 64 {
			return
		}
		ps := func() string {
			if len(path) == 0 {
				return "."
			}
			return strings.Join(path, "")
		}
		switch w.K {
		case ref.Int, ref.Float:
			if selfCheck && w.K == ref.Float && g.K == ref.Float && math.IsNaN(w.F) && math.IsNaN(g.F) {
				return
			}
			if !c06NumEqual(w, g) {
				kind := "leaf"
				if g.IsNum() {
					kind = "num"
				}
				ds = append(ds, c06Diff{ps(), kind, w, g})
			}
		case ref.Null, ref.Bool, ref.Str:
			if !ref.Equal(w, g) {
				kind := "leaf"
				if soft && w.K == ref.Str && g.K == ref.Str && c06LeadingBlank(w.S) {
					kind = "fstr"
				}
				ds = append(ds, c06Diff{ps(), kind, w, g})
			}
		case ref.Seq:
			if g.K != ref.Seq || len(g.A) != len(w.A) {
				ds = append(ds, c06Diff{ps(), "struct", w, g})
				return
			}
			for i := range w.A {
				walk(w.A[i], g.A[i], append(path, fmt.Sprintf("[%d]", i)))
			}
		case ref.Map:
			if g.K != ref.Map || len(g.M) != len(w.M) {
				ds = append(ds, c06Diff{ps(), "struct", w, g})
				return
			}
			if unordered != nil && unordered[w] {
				for _, e := range w.M {
					x, ok := g.Get(e.K)
					if !ok {
						ds = append(ds, c06Diff{ps(), "struct", w, g})
						return
					}
					walk(e.V, x, append(path, "."+ref.QuoteJSON(e.K)))
				}
				return
			}
			for i := range w.M {
				if w.M[i].K != g.M[i].K {
					if soft && c06LeadingBlank(w.M[i].K) {
						ds = append(ds, c06Diff{ps() + " (member name)", "fstr", ref.StrV(w.M[i].K), ref.StrV(g.M[i].K)})
						continue
					}
					ds = append(ds, c06Diff{ps(), "struct", w, g})
					return
				}
			}
			for i := range w.M {
				walk(w.M[i].V, g.M[i].V, append(path, "."+ref.QuoteJSON(w.M[i].K)))
			}
		}
	}
	walk(want, got, nil)
	return ds
}

// c06Float64Of rounds a number to the nearest float64.
func c06Float64Of(v *ref.V) float64 {
	if v.K == ref.Int {
		if v.S != "" {
			if f, err := strconv.ParseFloat(v.S, 64); err == nil {
				return f
			}
		}
		f, _ := new(big.Float).SetInt(v.I).Float64()
		return f
	}
	return v.F
}

// c06StripMergeKeys removes every member named "<<" (what the known finding does to the value).
func c06StripMergeKeys(v *ref.V) *ref.V {
	c := &ref.V{K: v.K, B: v.B, I: v.I, F: v.F, S: v.S}
	switch v.K {
	case ref.Seq:
		c.A = []*ref.V{}
		for _, x := range v.A {
			c.A = append(c.A, c06StripMergeKeys(x))
		}
	case ref.Map:
		c.M = []ref.KV{}
		for _, e := range v.M {
			if e.K != "<<" {
				c.M = append(c.M, ref.KV{K: e.K, V: c06StripMergeKeys(e.V)})
			}
		}
	}
	return c
}

// ---------------------------------------------------------------------------------------------
// layout

// c06Layout checks the white-space contract of the output: -I0 => one line per result, no white
// space outside strings; -In => every line starts with exactly n*depth spaces.
func c06Layout(out string, vals []*ref.V, n int) string {
	if !strings.HasSuffix(out, "\n") {
		return "output does not end with a newline"
	}
	lines := strings.Split(strings.TrimSuffix(out, "\n"), "\n")
	if n == 0 {
		if len(lines) != len(vals) {
			return fmt.Sprintf("-I0: %d results printed on %d lines", len(vals), len(lines))
		}
		for _, ln := range lines {
			inStr, esc := false, false
			for i := 0; i < len(ln); i++ {
				ch := ln[i]
				switch {
				case esc:
					esc = false
				case inStr && ch == '\\':
					esc = true
				case ch == '"':
					inStr = !inStr
				case !inStr && (ch == ' ' || ch == '\t' || ch == '\r'):
					return fmt.Sprintf("-I0: white space outside a string at column %d of %s", i+1, clipStr(ln, 120))
				}
			}
		}
		return ""
	}
	var want []int
	var lay func(v *ref.V, depth int)
	lay = func(v *ref.V, depth int) {
		want = append(want, depth*n)
		switch {
		case v.K == ref.Seq && len(v.A) > 0:
			for _, x := range v.A {
				lay(x, depth+1)
			}
			want = append(want, depth*n)
		case v.K == ref.Map && len(v.M) > 0:
			for _, e := range v.M {
				lay(e.V, depth+1)
			}
			want = append(want, depth*n)
		}
	}
	for _, v := range vals {
		lay(v, 0)
	}
	if len(lines) != len(want) {
		return fmt.Sprintf("-I%d: expected %d lines (one per scalar / bracket), output has %d", n, len(want), len(lines))
	}
	for i, ln := range lines {
		sp := len(ln) - len(strings.TrimLeft(ln, " "))
		if sp != want[i] || (sp < len(ln) && (ln[sp] == '\t')) {
			return fmt.Sprintf("-I%d: line %d starts with %d spaces, expected %d: %s", n, i+1, sp, want[i], clipStr(ln, 120))
		}
	}
	return ""
}

// ---------------------------------------------------------------------------------------------
// the judge

type c06Judgement struct {
	verdict, finding, detail string
	// provisional: the explanation "leading-blank block scalar" still needs the neutralised re-run
	provisional bool
	also        []string // further finding ids that explain part of the differences
}

const (
	c06FJSONDec  = "C06-json-decoder-ints-via-float64"
	c06FYAMLBig  = "C06-yaml-int-beyond-64bit-as-float"
	c06FYAMLU64  = "C06-yaml-int-above-int64-rejected"
	c06FCollide  = "C06-colliding-keys-duplicate-names"
	c06FMergeKey = "C06-string-key-merge-marker-dropped"
	c06FBlank    = "C06-yaml-out-block-scalar-leading-blank"
	c06FFromJSON = "C06-from-json-is-a-yaml-parser"
)

// c06Run describes one execution handed to the judge.
type c06Run struct {
	what    string
	out     string
	failed  bool // yq returned an error / non-zero exit
	errText string
	pan     *yqx.Panic
	cfg     c06Cfg
	wrapped bool // the result is a JSON string that holds JSON text
	viaYAML bool // the value was printed as YAML by yq on the way (round trip): finding C06-yaml-out-… may apply
}

func c06HasLeadingBlank(vs []*ref.V) bool {
	found := false
	for _, v := range vs {
		v.Walk(nil, func(_ []any, n *ref.V) {
			if n.K == ref.Str && c06LeadingBlank(n.S) {
				found = true
			}
			for _, e := range n.M {
				if c06LeadingBlank(e.K) {
					found = true
				}
			}
		})
	}
	return found
}

// c06Judge decides one execution against the ground truth.
func c06Judge(x c06Run, exp *c06Expect) c06Judgement {
	what, out, cfg := x.what, x.out, x.cfg
	v := func(format string, a ...any) c06Judgement {
		return c06Judgement{verdict: mon.Violated, detail: what + ": " + fmt.Sprintf(format, a...)}
	}
	if x.pan != nil {
		return v("PANIC %s: %s", x.pan.Sig(), x.pan.Value)
	}
	if x.failed {
		if exp.MustFail {
			return c06Judgement{verdict: mon.Held, detail: what + ": failed as required: " + clipStr(x.errText, 160)}
		}
		if exp.Collide {
			return c06Judgement{verdict: mon.Held, detail: what + ": colliding keys rejected with an error: " + clipStr(x.errText, 160)}
		}
		for _, lit := range exp.RangeLits {
			if strings.Contains(x.errText, `strconv.ParseInt: parsing "`+lit+`": value out of range`) {
				return c06Judgement{verdict: mon.Finding, finding: c06FYAMLU64, detail: what + ": integer " + lit + " (inside uint64, above int64) rejected: " + clipStr(x.errText, 200)}
			}
		}
		if x.viaYAML && strings.Contains(x.errText, "yaml: ") && c06HasLeadingBlank(exp.Want) {
			return c06Judgement{verdict: mon.Finding, finding: c06FBlank, provisional: true,
				detail: what + ": the YAML yq printed for a multi-line string with a leading blank is rejected by yq's own YAML reader: " + clipStr(x.errText, 200)}
		}
		return v("yq failed on a representable document: %s", clipStr(x.errText, 400))
	}
	if exp.MustFail {
		return v("document contains a non-finite float, yq must fail but printed: %s", clipStr(out, 300))
	}
	// raw comparison for an unwrapped single top-level scalar
	if cfg.Unwrap && !x.wrapped && len(exp.Want) == 1 && exp.Want[0].IsScalar() {
		w := exp.Want[0]
		if w.K == ref.Str {
			if out == w.S+"\n" {
				return c06Judgement{verdict: mon.Held, detail: what + ": raw string equal"}
			}
			return v("unwrapped top-level string: expected raw %q, observed %q", clipStr(w.S, 200), clipStr(out, 200))
		}
		t := strings.TrimSuffix(out, "\n")
		if exp.Src != "" && (t == exp.Src || (t == "" && exp.Src == "\x00empty")) {
			return c06Judgement{verdict: mon.Held, detail: what + ": raw scalar equals its source spelling " + t}
		}
		// otherwise it must be some JSON spelling of the value: fall through
	}
	gots, err := c06ParseJSONStream(out)
	if err != nil {
		return v("output is not valid JSON (%v): %s", err, clipStr(out, 400))
	}
	if x.wrapped {
		if len(gots) != 1 || gots[0].K != ref.Str {
			return v("expected one JSON string holding JSON text, observed %s", clipStr(out, 300))
		}
		inner, err := c06ParseJSONStream(gots[0].S)
		if err != nil {
			return v("the encoded string is not valid JSON (%v): %s", err, clipStr(gots[0].S, 400))
		}
		gots = inner
	}
	if len(gots) != len(exp.Want) {
		return v("expected %d JSON values, output has %d: %s", len(exp.Want), len(gots), clipStr(out, 400))
	}
	want := exp.Want
	stripped := false
	compareAll := func() []c06Diff {
		var all []c06Diff
		for i := range gots {
			all = append(all, c06Compare(want[i], gots[i], exp.Unordered, false, x.viaYAML)...)
		}
		return all
	}
	all := compareAll()
	if len(all) > 0 && exp.MergeKey {
		// quirk model of C06-string-key-merge-marker-dropped: every member named "<<" vanishes
		var w2 []*ref.V
		for _, w := range want {
			w2 = append(w2, c06StripMergeKeys(w))
		}
		want, stripped = w2, true
		if a2 := compareAll(); len(a2) < len(all) {
			all = a2
		} else {
			want, stripped = exp.Want, false
		}
	}
	if len(all) == 0 && !stripped {
		if !x.wrapped {
			if msg := c06Layout(out, gots, cfg.Indent); msg != "" {
				return v("layout: %s", msg)
			}
		}
		if exp.Collide {
			return c06Judgement{verdict: mon.Finding, finding: c06FCollide,
				detail: what + ": YAML keys of different type with equal text became duplicate JSON names, exit 0: " + clipStr(out, 200)}
		}
		return c06Judgement{verdict: mon.Held, detail: what + ": equal (" + clipStr(strings.TrimSpace(out), 120) + ")"}
	}
	// every difference must be explained exactly by a listed finding
	ids := map[string]string{}
	if stripped {
		ids[c06FMergeKey] = "the member named \"<<\" is missing"
	}
	var unexplained []c06Diff
	for _, d := range all {
		switch {
		case d.Kind == "num" && d.Want.K == ref.Int && c06Float64Of(d.Got) == c06Float64Of(d.Want):
			a := new(big.Int).Abs(d.Want.I)
			beyond64 := d.Want.I.Cmp(c06MinInt64) < 0 || d.Want.I.Cmp(c06Two64) >= 0
			switch {
			case exp.Route == "json" && a.Cmp(c06Two53) > 0:
				ids[c06FJSONDec] = d.String() + " = the float64 rounding of the expected integer"
			case exp.Route == "yaml" && beyond64:
				ids[c06FYAMLBig] = d.String() + " = the float64 rounding of the expected integer"
			default:
				unexplained = append(unexplained, d)
			}
		case d.Kind == "fstr" && c06BlankNorm(d.Got.S) == c06BlankNorm(d.Want.S):
			ids[c06FBlank] = d.String() + " (only leading blanks of the text / leading spaces of lines differ)"
		case d.Kind == "fstr" && strings.HasPrefix(c06BlankNorm(d.Want.S), "#") && strings.Trim(d.Got.S, "\n") == "":
			// the wrong indentation indicator ends the scalar at once and the text, starting with '#', is read as a comment
			ids[c06FBlank] = d.String() + " (the text after the leading blanks starts with '#' and was swallowed as a YAML comment)"
		default:
			unexplained = append(unexplained, d)
		}
	}
	if len(unexplained) == 0 && len(all) < 64 {
		j := c06Judgement{verdict: mon.Finding}
		var names []string
		for id := range ids {
			names = append(names, id)
		}
		sort.Strings(names)
		// the one that needs the extra check leads, otherwise alphabetical
		j.finding = names[0]
		if _, ok := ids[c06FBlank]; ok {
			j.finding, j.provisional = c06FBlank, true
		}
		for _, n := range names {
			if n != j.finding {
				j.also = append(j.also, n)
			}
			j.detail += n + ": " + ids[n] + "; "
		}
		j.detail = what + ": " + j.detail
		return j
	}
	if len(unexplained) == 0 {
		unexplained = all
	}
	var sb strings.Builder
	for i, d := range unexplained {
		if i >= 6 {
			break
		}
		if i > 0 {
			sb.WriteString("; ")
		}
		sb.WriteString(d.String())
	}
	return v("value differs: %s\noutput: %s", sb.String(), clipStr(out, 600))
}

// ---------------------------------------------------------------------------------------------
// execution

func c06LibEval(expr, input, inFmt string, enc yqlib.Encoder) (out string, err error, pan *yqx.Panic) {
	yqx.Init()
	dec := yqx.Decoder(inFmt)
	pan = yqx.Guard(func() {
		out, err = yqlib.NewStringEvaluator().Evaluate(expr, input, enc, dec)
	})
	return
}

func c06JSONEnc(cfg c06Cfg) yqlib.Encoder {
	return yqlib.NewJSONEncoder(yqlib.JsonPreferences{Indent: cfg.Indent, ColorsEnabled: false, UnwrapScalar: cfg.Unwrap})
}

func c06ErrText(err error) string {
	if err == nil {
		return ""
	}
	return err.Error()
}

func c06Dir(w *mon.Worker, idx int) string {
	dir := filepath.Join(w.Scratch, fmt.Sprintf("c06-%d", idx))
	_ = os.MkdirAll(dir, 0o755)
	return dir
}

// c06FromJSONModel is the quirk model of finding C06-from-json-is-a-yaml-parser: from_json reads
// the JSON text with the YAML decoder. The text is what yq's own to_json half printed (checked to
// be correct JSON for the expected value); the model value is what yaml.v3 reads from it.
type c06FromModel struct {
	ok      bool // the to_json half is right and the model is usable
	fails   bool // a YAML parser rejects the JSON text
	exp     c06Expect
	differs bool // the model value differs from the ground truth (or predicts a range error)
}

func c06FromJSONModel(c *c06Case, res *mon.Result) c06FromModel {
	var m c06FromModel
	i := strings.Index(c.Expr, " | from")
	if i < 0 {
		return m
	}
	half := c.Expr[:i]
	out, err, pan := c06LibEval(half, c.Input, c.In, c06JSONEnc(c06Cfg{Indent: 0}))
	res.Evals++
	if err != nil || pan != nil {
		return m
	}
	j := c06Judge(c06Run{what: "to_json half", out: out, cfg: c06Cfg{Indent: 0}, wrapped: true}, &c.exp)
	if j.verdict != mon.Held {
		return m
	}
	outer, err := c06ParseJSONStream(out)
	if err != nil || len(outer) != 1 || outer[0].K != ref.Str {
		return m
	}
	m.ok = true
	q, _, qerr := c06YAMLRead(outer[0].S)
	if qerr != nil || len(q) != 1 {
		m.fails = true
		m.differs = true
		return m
	}
	m.exp = c06Expect{Want: q, Route: "yaml"}
	q[0].Walk(nil, func(_ []any, n *ref.V) {
		if n.K == ref.Int && n.I.Sign() > 0 && n.I.BitLen() == 64 {
			m.exp.RangeLits = append(m.exp.RangeLits, n.I.String())
			m.differs = true
		}
	})
	if len(c06Compare(c.exp.Want[0], q[0], nil, false)) > 0 {
		m.differs = true
	}
	return m
}

// c06RunConvert: everything except the two-step round trip.
func c06RunConvert(w *mon.Worker, idx int, c *c06Case, res *mon.Result) []c06Judgement {
	var js []c06Judgement
	expr := c.Expr
	if expr == "" {
		expr = "."
	}
	var model c06FromModel
	modelDone := false
	judge := func(x c06Run) c06Judgement {
		j := c06Judge(x, &c.exp)
		if j.verdict != mon.Violated || !strings.Contains(c.Expr, " | from") {
			return j
		}
		if !modelDone {
			model, modelDone = c06FromJSONModel(c, res), true
		}
		if !model.ok || !model.differs {
			return j
		}
		if model.fails {
			if x.failed && x.pan == nil && strings.Contains(x.errText, "yaml: ") {
				return c06Judgement{verdict: mon.Finding, finding: c06FFromJSON,
					detail: x.what + ": from_json rejects the JSON text yq's own to_json printed, exactly as a YAML parser does: " + clipStr(x.errText, 200)}
			}
			return j
		}
		j2 := c06Judge(x, &model.exp)
		if j2.verdict == mon.Held || (j2.verdict == mon.Finding && j2.finding == c06FYAMLU64) {
			return c06Judgement{verdict: mon.Finding, finding: c06FFromJSON,
				detail: x.what + ": result equals what a YAML parser reads from the JSON text, not the JSON value: " + clipStr(j.detail, 400)}
		}
		return j
	}
	for _, cfg := range c.Cfgs {
		out, err, pan := c06LibEval(expr, c.Input, c.In, c06JSONEnc(cfg))
		res.Evals++
		what := fmt.Sprintf("library -p=%s -o=json -I%d unwrap=%v %s", c.In, cfg.Indent, cfg.Unwrap, expr)
		js = append(js, judge(c06Run{what: what, out: out, failed: err != nil, errText: c06ErrText(err), pan: pan, cfg: cfg, wrapped: c.Wrapped}))
	}
	if c.Binary {
		dir := c06Dir(w, idx)
		defer os.RemoveAll(dir)
		argv := append([]string{w.YqBin()}, c.BinArgs...)
		if c.Expr != "" {
			argv = append(argv, c.Expr)
		}
		var stdin []byte
		if idx%2 == 0 {
			f := filepath.Join(dir, "in."+c.In)
			_ = os.WriteFile(f, []byte(c.Input), 0o644)
			if c.Expr == "" && idx%4 == 0 {
				argv = append(argv, ".")
			}
			argv = append(argv, f)
		} else {
			stdin = []byte(c.Input)
		}
		br := mon.Run(mon.RunOpts{Dir: dir, Stdin: stdin}, argv...)
		res.Evals++
		res.Tags = append(res.Tags, "binary")
		if c06ExecTrouble(br) {
			js = append(js, c06Judgement{verdict: mon.Inconclusive, detail: "binary could not be run to completion (watchdog / exec error / SIGKILL): " + clipStr(string(br.Stderr), 200)})
		} else {
			js = append(js, judge(c06BinRun("binary "+strings.Join(argv[1:], " "), br, c.Cfgs[0], c.Wrapped, false)))
		}
	}
	return js
}

// c06ExecTrouble: the harness could not observe the binary (wall-clock watchdog, exec/pipe error of
// the runner under load, SIGKILL from outside): inconclusive, never a verdict.
func c06ExecTrouble(br mon.ExecResult) bool {
	return br.TimedOut || br.Exit == -2 || br.Signal == 9
}

func c06BinRun(what string, br mon.ExecResult, cfg c06Cfg, wrapped, viaYAML bool) c06Run {
	x := c06Run{what: what, out: string(br.Stdout), failed: br.Exit != 0, errText: string(br.Stderr), cfg: cfg, wrapped: wrapped, viaYAML: viaYAML}
	if br.Signal != 0 || strings.Contains(x.errText, "goroutine ") {
		x.pan = &yqx.Panic{Value: clipStr(x.errText, 600), Func: fmt.Sprintf("(binary died, signal %d)", br.Signal)}
	}
	return x
}

// c06RoundTripLib runs JSON -> yq -p=json -o=yaml -> yq -o=json in-process.
func c06RoundTripLib(input string, yamlInd int, unwrapYAML bool, exp *c06Expect, res *mon.Result) (c06Judgement, string) {
	final := c06Cfg{Indent: 0, Unwrap: false}
	prefs := yqlib.NewDefaultYamlPreferences()
	prefs.Indent = yamlInd
	prefs.UnwrapScalar = unwrapYAML
	mid, err, pan := c06LibEval(".", input, "json", yqlib.NewYamlEncoder(prefs))
	res.Evals++
	what := fmt.Sprintf("library -p=json -o=yaml -I%d unwrap=%v | -o=json", yamlInd, unwrapYAML)
	if err != nil || pan != nil {
		return c06Judge(c06Run{what: what + " (first leg)", failed: err != nil, errText: c06ErrText(err), pan: pan, cfg: final}, exp), ""
	}
	out, err2, pan2 := c06LibEval(".", mid, "yaml", c06JSONEnc(final))
	res.Evals++
	return c06Judge(c06Run{what: what, out: out, failed: err2 != nil, errText: c06ErrText(err2), pan: pan2, cfg: final, viaYAML: true}, exp), mid
}

// c06Neutralise replaces every string (value or member name) with the leading-blank feature by a
// harmless unique token: the same case without the structural feature of the finding.
func c06Neutralise(v *ref.V, ctr *int) *ref.V {
	tok := func() string {
		*ctr++
		return fmt.Sprintf("neutral-%d", *ctr)
	}
	c := &ref.V{K: v.K, B: v.B, I: v.I, F: v.F, S: v.S}
	switch v.K {
	case ref.Str:
		if c06LeadingBlank(v.S) {
			c.S = tok()
		}
	case ref.Seq:
		c.A = []*ref.V{}
		for _, x := range v.A {
			c.A = append(c.A, c06Neutralise(x, ctr))
		}
	case ref.Map:
		c.M = []ref.KV{}
		for _, e := range v.M {
			k := e.K
			if c06LeadingBlank(k) {
				k = tok()
			}
			c.M = append(c.M, ref.KV{K: k, V: c06Neutralise(e.V, ctr)})
		}
	}
	return c
}

// c06RunRoundTrip: JSON -> yq -p=json -o=yaml -> yq -o=json.
func c06RunRoundTrip(w *mon.Worker, idx int, c *c06Case, res *mon.Result) []c06Judgement {
	var js []c06Judgement
	unwrapYAML := c.Cfgs[0].Unwrap
	final := c06Cfg{Indent: 0, Unwrap: false}
	j, mid := c06RoundTripLib(c.Input, c.YamlInd, unwrapYAML, &c.exp, res)
	if j.verdict == mon.Violated && mid != "" {
		j.detail += "\nintermediate YAML: " + clipStr(mid, 600)
	}
	js = append(js, j)
	if c.Binary {
		dir := c06Dir(w, idx)
		defer os.RemoveAll(dir)
		a1 := []string{w.YqBin(), "-p=json", "-o=yaml", fmt.Sprintf("-I=%d", c.YamlInd)}
		if !unwrapYAML {
			a1 = append(a1, "-r=false")
		}
		b1 := mon.Run(mon.RunOpts{Dir: dir, Stdin: []byte(c.Input)}, a1...)
		res.Evals++
		res.Tags = append(res.Tags, "binary")
		what := "binary " + strings.Join(a1[1:], " ") + " | yq -o=json -I=0"
		switch {
		case c06ExecTrouble(b1):
			js = append(js, c06Judgement{verdict: mon.Inconclusive, detail: "binary could not be run to completion: " + clipStr(string(b1.Stderr), 200)})
		case b1.Exit != 0:
			js = append(js, c06Judge(c06BinRun(what+" (first leg)", b1, final, false, false), &c.exp))
		default:
			midf := filepath.Join(dir, "mid.yaml")
			_ = os.WriteFile(midf, b1.Stdout, 0o644)
			b2 := mon.Run(mon.RunOpts{Dir: dir}, w.YqBin(), "-o=json", "-I=0", midf)
			res.Evals++
			if c06ExecTrouble(b2) {
				js = append(js, c06Judgement{verdict: mon.Inconclusive, detail: "binary could not be run to completion: " + clipStr(string(b2.Stderr), 200)})
			} else {
				j := c06Judge(c06BinRun(what, b2, final, false, true), &c.exp)
				if j.verdict == mon.Violated {
					j.detail += "\nintermediate YAML: " + clipStr(string(b1.Stdout), 600)
				}
				js = append(js, j)
			}
		}
	}
	// provisional "leading-blank" explanations: the same case without those strings must pass
	need := false
	for _, j := range js {
		if j.provisional {
			need = true
		}
	}
	if need {
		ctr := 0
		var nv []*ref.V
		var sb strings.Builder
		for _, v := range c.exp.Want {
			n := c06Neutralise(v, &ctr)
			nv = append(nv, n)
			sb.WriteString(n.JSON() + "\n")
		}
		nexp := c06Expect{Want: nv, Route: "json"}
		nj, _ := c06RoundTripLib(sb.String(), c.YamlInd, unwrapYAML, &nexp, res)
		pass := nj.verdict == mon.Held || (nj.verdict == mon.Finding && !nj.provisional)
		for i := range js {
			if !js[i].provisional {
				continue
			}
			if pass {
				js[i].detail += " [confirmed: the case passes once its " + strconv.Itoa(ctr) + " leading-blank string(s) are replaced]"
			} else {
				js[i] = c06Judgement{verdict: mon.Violated, detail: js[i].detail + "\nNOT explained by the leading-blank finding: the case still fails after replacing those strings: " + nj.detail}
			}
		}
	}
	return js
}

// ---------------------------------------------------------------------------------------------
// deaths and floors

func (p c06) ClassifyDeath(w *mon.Worker, idx int, kind, stderr string) mon.Result {
	c := c06Gen(w, idx)
	res := mon.Result{Case: c, Evals: 1, Nontrivial: true, Sig: fmt.Sprintf("death|%d", idx), Tags: []string{"sub:" + c06Sub(c.Mode), "mode:" + c.Mode}}
	msg := ""
	if m := fatalRe.FindStringSubmatch(stderr); m != nil {
		msg = m[1]
	}
	switch {
	case kind == "cpu_hang":
		// The worker's CPU watchdog fired. CPU accounting of a busy VM can be wrong, so the hang is
		// confirmed through the second channel before it becomes an alarm: the same conversion in the
		// real binary under RLIMIT_CPU. Only a binary that is killed by the limit too is a violation.
		confirmed, note := c06ConfirmHang(w, c)
		if confirmed {
			res.Verdict = mon.Violated
			res.Detail = fmt.Sprintf("HANG: a %d byte document exceeded %v of CPU time in the JSON/YAML conversion, and the real binary exceeds its CPU limit on it too (%s)", len(c.Input), mon.CPUBudget, note)
		} else {
			res.Verdict = mon.Inconclusive
			res.Tags = append(res.Tags, "cpu_watchdog_not_confirmed")
			res.Detail = fmt.Sprintf("worker CPU watchdog fired on a %d byte document, but the real binary converts it within its CPU limit (%s): not confirmed", len(c.Input), note)
		}
	case msg != "":
		// checkptr (race build), stack overflow, concurrent map write: a conversion must not kill the process
		res.Verdict = mon.Violated
		res.Detail = "FATAL " + msg + " while converting\n" + clipStr(stderr, 2500)
	default:
		res.Verdict = mon.Inconclusive
		res.Detail = "worker died without a Go fatal error (memory/kill?)\n" + clipStr(stderr, 1500)
	}
	return res
}

// c06ConfirmHang re-runs the case's conversion(s) in the real binary with a 20 s CPU limit.
func c06ConfirmHang(w *mon.Worker, c *c06Case) (bool, string) {
	dir, err := os.MkdirTemp("", "c06hang")
	if err != nil {
		return false, "no scratch directory"
	}
	defer os.RemoveAll(dir)
	expr := c.Expr
	if expr == "" {
		expr = "."
	}
	type run struct {
		out    string
		indent int
		unwrap bool
	}
	var runs []run
	if c.Mode == "b-roundtrip" {
		runs = append(runs, run{"yaml", c.YamlInd, c.Cfgs[0].Unwrap}, run{"json", 0, false})
	} else {
		for _, cfg := range c.Cfgs {
			runs = append(runs, run{"json", cfg.Indent, cfg.Unwrap})
		}
	}
	note := ""
	for _, x := range runs {
		br := mon.Run(mon.RunOpts{Dir: dir, Stdin: []byte(c.Input), CPUSecs: 20}, w.YqBin(), "-p="+c.In, "-o="+x.out,
			fmt.Sprintf("-I=%d", x.indent), fmt.Sprintf("-r=%v", x.unwrap), expr)
		note += fmt.Sprintf("-o=%s -I=%d: exit=%d signal=%d timedout=%v; ", x.out, x.indent, br.Exit, br.Signal, br.TimedOut)
		// RLIMIT_CPU: SIGXCPU at the soft limit (the Go runtime ignores it), SIGKILL at the hard limit
		if !br.TimedOut && (br.Signal == 24 || br.Signal == 9) {
			return true, note
		}
	}
	return false, note
}

// Finish enforces the per-sub-oracle floor: when a sub-oracle has too few distinct non-trivial
// conclusive cases the run must not pass, so every result loses its non-trivial mark and the
// parent's floor fails (exit 3, INCONCLUSIVE) with a tag that names the starved sub-oracle.
func (p c06) Finish(w *mon.Worker, results []mon.Result) []mon.Result {
	seen := map[string]map[string]bool{"a": {}, "b": {}, "c": {}}
	for _, r := range results {
		if r.Race || !r.Nontrivial || r.Verdict == mon.Inconclusive || r.Verdict == mon.Violated {
			continue
		}
		for _, t := range r.Tags {
			if strings.HasPrefix(t, "sub:") && seen[t[4:]] != nil {
				seen[t[4:]][r.Sig] = true
			}
		}
	}
	mult := 1
	if w.Tier == "thorough" {
		mult = 50
	}
	starved := ""
	for _, s := range []string{"a", "b", "c"} {
		if len(seen[s]) < c06SubFloor[s]*mult {
			starved += fmt.Sprintf(" %s=%d<%d", s, len(seen[s]), c06SubFloor[s]*mult)
		}
	}
	if starved != "" {
		for i := range results {
			results[i].Nontrivial = false
		}
		results = append(results, mon.Result{Idx: -1, Verdict: mon.Inconclusive, Tags: []string{"sub_oracle_floor_starved"},
			Detail: "per-sub-oracle floor of distinct non-trivial conclusive cases not reached:" + starved})
	}
	return results
}
