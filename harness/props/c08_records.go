package props

import (
	"fmt"
	"math/rand/v2"
	"strings"

	"verifharness/mon"
	"verifharness/ref"
	"verifharness/yqx"
)

// Records family of C08: deep comparisons of COLLECTIONS that belong to the document.
//
// The documents of the main family rarely hold two maps with the same entries written in a different key order,
// and the pools of the other families subtract / compare scalars only. Here the document is an inventory: several
// sequences of records (maps over one key set, every record with its keys in an order of its own, nested maps and
// sequences as values), single records, and sequences of sequences of records; the later collections are derived
// from the first one (same entries in another key order - also below the top level -, one value changed, one key
// renamed at the same size, a key dropped / added, an exact copy). E compares them deeply: array subtraction
// (`.a - .b`, literal and indexed right operands, maps wrapped in sequences, sequences of sequences, nested
// `-` / `+`), and contains / unique / group_by / sort / pick / omit / + / * / == over the same collections.
//
// Oracles: (1) as everywhere in C08, the document printed after evaluating E in a read-only position is
// byte-identical to what `yq .` prints; (2) for the subtraction expressions the VALUE of E (JSON, key order
// significant) equals what a model of the generated records yields (an element stays iff it is deeply equal to no
// element of the right operand, maps compared regardless of key order; what stays keeps its own key order).

var c08RecKeys = []string{"name", "port", "host", "zone", "id", "tags", "meta", "owner", "env", "tier"}
var c08RecSubKeys = []string{"owner", "team", "rack", "dc", "prio"}
var c08RecStrs = []string{"web", "ssh", "db", "eu", "us", "cache", "blue"}
var c08RecInts = []int64{1, 2, 22, 80, 443, 5432}

type c08RecDoc struct {
	text   string
	keys   []string // the key set of the records
	lists  []string // names of the sequences of records
	maps   []string // names of the single records
	groups []string // names of the sequences of sequences of records
	val    map[string]*ref.V
}

func c08RecScalar(r *rand.Rand) *ref.V {
	switch r.IntN(9) {
	case 0, 1, 2, 3:
		return ref.IntV(c08RecInts[r.IntN(len(c08RecInts))])
	case 4, 5, 6:
		return ref.StrV(c08RecStrs[r.IntN(len(c08RecStrs))])
	case 7:
		return ref.BoolV(r.IntN(2) == 0)
	}
	return ref.NullV()
}

func c08RecSubMap(r *rand.Rand) *ref.V {
	n := 2 + r.IntN(2)
	perm := r.Perm(len(c08RecSubKeys))
	m := ref.MapV()
	for i := 0; i < n; i++ {
		m.M = append(m.M, ref.KV{K: c08RecSubKeys[perm[i]], V: c08RecScalar(r)})
	}
	return m
}

func c08RecValue(r *rand.Rand) *ref.V {
	switch r.IntN(20) {
	case 0, 1, 2:
		return c08RecSubMap(r)
	case 3, 4:
		n := 1 + r.IntN(3)
		s := ref.SeqV()
		for i := 0; i < n; i++ {
			s.A = append(s.A, c08RecScalar(r))
		}
		return s
	case 5:
		return ref.SeqV(c08RecSubMap(r), c08RecSubMap(r))
	}
	return c08RecScalar(r)
}

func c08RecFresh(r *rand.Rand, keys []string) *ref.V {
	m := ref.MapV()
	for _, i := range r.Perm(len(keys)) {
		m.M = append(m.M, ref.KV{K: keys[i], V: c08RecValue(r)})
	}
	return m
}

// c08RecPermute: a copy with the entries of every map (at any depth) in a random order; sequences keep theirs.
func c08RecPermute(r *rand.Rand, v *ref.V) *ref.V {
	switch v.K {
	case ref.Map:
		m := ref.MapV()
		for _, i := range r.Perm(len(v.M)) {
			m.M = append(m.M, ref.KV{K: v.M[i].K, V: c08RecPermute(r, v.M[i].V)})
		}
		return m
	case ref.Seq:
		s := ref.SeqV()
		for _, x := range v.A {
			s.A = append(s.A, c08RecPermute(r, x))
		}
		return s
	}
	return v.Copy()
}

// c08RecDerive: a record related to src; the returned string names the relation.
func c08RecDerive(r *rand.Rand, src *ref.V, keys []string) (*ref.V, string) {
	switch r.IntN(11) {
	case 0, 1, 2, 3:
		return c08RecPermute(r, src), "permuted"
	case 4, 5:
		c := c08RecPermute(r, src)
		i := r.IntN(len(c.M))
		for try := 0; try < 5; try++ {
			nv := c08RecValue(r)
			if !c08DeepEq(nv, c.M[i].V, nil) {
				c.M[i].V = nv
				break
			}
		}
		return c, "value_changed"
	case 6, 7:
		c := c08RecPermute(r, src)
		i := r.IntN(len(c.M))
		for _, k := range c08RecKeys {
			if _, has := c.Get(k); !has {
				c.M[i].K = k
				break
			}
		}
		return c, "key_renamed"
	case 8:
		c := c08RecPermute(r, src)
		if len(c.M) > 1 {
			i := r.IntN(len(c.M))
			c.M = append(c.M[:i:i], c.M[i+1:]...)
		}
		return c, "key_dropped"
	case 9:
		c := c08RecPermute(r, src)
		for _, k := range []string{"extra", "note", "rev", "spare_key"} {
			if _, has := c.Get(k); !has {
				c.M = append(c.M, ref.KV{K: k, V: c08RecScalar(r)})
				break
			}
		}
		return c, "key_added"
	}
	return src.Copy(), "same_order"
}

// c08DeepEq: deep equality as the property's operators define it: same kind, scalars by type and value (every
// null equals every null), sequences element by element, maps by key whatever the order. stat (optional) counts the
// comparisons of two maps of one size whose keys are not written in the same order.
func c08DeepEq(a, b *ref.V, stat *int) bool {
	if a.K != b.K {
		return false
	}
	switch a.K {
	case ref.Seq:
		if len(a.A) != len(b.A) {
			return false
		}
		for i := range a.A {
			if !c08DeepEq(a.A[i], b.A[i], stat) {
				return false
			}
		}
		return true
	case ref.Map:
		if len(a.M) != len(b.M) {
			return false
		}
		if stat != nil {
			for i := range a.M {
				if a.M[i].K != b.M[i].K {
					*stat++
					break
				}
			}
		}
		for _, kv := range a.M {
			o, has := b.Get(kv.K)
			if !has || !c08DeepEq(kv.V, o, stat) {
				return false
			}
		}
		return true
	}
	return ref.Equal(a, b)
}

// ---- emitter (own text, so that model and document correspond; flow and block records, comments) ----

func c08RecScalarText(v *ref.V) string {
	switch v.K {
	case ref.Null:
		return "null"
	case ref.Bool:
		if v.B {
			return "true"
		}
		return "false"
	case ref.Int:
		return v.I.String()
	}
	return v.S
}

func c08RecFlow(v *ref.V) string {
	switch v.K {
	case ref.Map:
		parts := make([]string, len(v.M))
		for i, kv := range v.M {
			parts[i] = kv.K + ": " + c08RecFlow(kv.V)
		}
		return "{" + strings.Join(parts, ", ") + "}"
	case ref.Seq:
		parts := make([]string, len(v.A))
		for i, x := range v.A {
			parts[i] = c08RecFlow(x)
		}
		return "[" + strings.Join(parts, ", ") + "]"
	}
	return c08RecScalarText(v)
}

// c08RecBlockMap writes the entries of m, one per line, at the given indentation; the first line gets `first`
// instead of the indentation (used for `- ` of a sequence item).
func c08RecBlockMap(sb *strings.Builder, r *rand.Rand, m *ref.V, indent string, first string) {
	for i, kv := range m.M {
		lead := indent
		if i == 0 && first != "" {
			lead = first
		}
		if kv.V.K == ref.Map && r.IntN(3) == 0 {
			fmt.Fprintf(sb, "%s%s:\n", lead, kv.K)
			c08RecBlockMap(sb, r, kv.V, indent+"  ", "")
			continue
		}
		if kv.V.K == ref.Seq && r.IntN(3) == 0 {
			fmt.Fprintf(sb, "%s%s:\n", lead, kv.K)
			for _, x := range kv.V.A {
				fmt.Fprintf(sb, "%s  - %s\n", indent, c08RecFlow(x))
			}
			continue
		}
		fmt.Fprintf(sb, "%s%s: %s\n", lead, kv.K, c08RecFlow(kv.V))
	}
}

func c08RecComment(r *rand.Rand) string {
	if r.IntN(7) == 0 {
		return " # " + []string{"legacy", "keep", "see ticket 12", "moved"}[r.IntN(4)]
	}
	return ""
}

func c08RecItem(sb *strings.Builder, r *rand.Rand, rec *ref.V, indent string) {
	switch r.IntN(5) {
	case 0, 1:
		c08RecBlockMap(sb, r, rec, indent+"  ", indent+"- ")
	case 2:
		fmt.Fprintf(sb, "%s- %s%s\n", indent, rec.JSON(), c08RecComment(r))
	default:
		fmt.Fprintf(sb, "%s- %s%s\n", indent, c08RecFlow(rec), c08RecComment(r))
	}
}

func c08RecordsDoc(r *rand.Rand) *c08RecDoc {
	d := &c08RecDoc{val: map[string]*ref.V{}}
	nk := 2 + r.IntN(3)
	perm := r.Perm(len(c08RecKeys))
	for i := 0; i < nk; i++ {
		d.keys = append(d.keys, c08RecKeys[perm[i]])
	}
	// the first sequence: fresh records, every one with its keys in an order of its own
	first := ref.SeqV()
	for i, n := 0, 2+r.IntN(4); i < n; i++ {
		if i > 0 && r.IntN(5) == 0 {
			first.A = append(first.A, c08RecPermute(r, first.A[r.IntN(i)])) // the same record twice, written differently
			continue
		}
		first.A = append(first.A, c08RecFresh(r, d.keys))
	}
	derived := func() *ref.V {
		if r.IntN(6) == 0 {
			return c08RecFresh(r, d.keys)
		}
		v, _ := c08RecDerive(r, first.A[r.IntN(len(first.A))], d.keys)
		return v
	}
	d.lists = []string{"servers", "retired", "standby"}[:2+r.IntN(2)]
	d.val["servers"] = first
	for _, name := range d.lists[1:] {
		s := ref.SeqV()
		for i, n := 0, 1+r.IntN(4); i < n; i++ {
			s.A = append(s.A, derived())
		}
		d.val[name] = s
	}
	d.maps = []string{"primary", "backup"}
	d.val["primary"] = derived()
	d.val["backup"], _ = c08RecDerive(r, d.val["primary"], d.keys)
	d.groups = []string{"racks", "spare"}
	g, h := ref.SeqV(), ref.SeqV()
	for i, n := 0, 1+r.IntN(3); i < n; i++ {
		grp := ref.SeqV()
		for j, m := 0, 1+r.IntN(2); j < m; j++ {
			grp.A = append(grp.A, derived())
		}
		g.A = append(g.A, grp)
		if r.IntN(4) > 0 {
			cp := ref.SeqV()
			for _, rec := range grp.A {
				if r.IntN(4) == 0 {
					x, _ := c08RecDerive(r, rec, d.keys)
					cp.A = append(cp.A, x)
				} else {
					cp.A = append(cp.A, c08RecPermute(r, rec))
				}
			}
			h.A = append(h.A, cp)
		}
	}
	if len(h.A) == 0 || r.IntN(3) == 0 {
		h.A = append(h.A, ref.SeqV(derived()))
	}
	d.val["racks"], d.val["spare"] = g, h

	var sb strings.Builder
	if r.IntN(3) == 0 {
		sb.WriteString("# inventory\n")
	}
	names := append(append(append([]string{}, d.lists...), d.maps...), d.groups...)
	r.Shuffle(len(names), func(i, j int) { names[i], names[j] = names[j], names[i] })
	for _, name := range names {
		v := d.val[name]
		switch {
		case name == "primary" || name == "backup":
			if r.IntN(2) == 0 {
				fmt.Fprintf(&sb, "%s: %s%s\n", name, c08RecFlow(v), c08RecComment(r))
			} else {
				fmt.Fprintf(&sb, "%s:\n", name)
				c08RecBlockMap(&sb, r, v, "  ", "")
			}
		case name == "racks" || name == "spare":
			fmt.Fprintf(&sb, "%s:\n", name)
			for _, grp := range v.A {
				if r.IntN(2) == 0 {
					fmt.Fprintf(&sb, "  - %s\n", c08RecFlow(grp))
					continue
				}
				for j, rec := range grp.A {
					lead := "    - "
					if j == 0 {
						lead = "  - - "
					}
					fmt.Fprintf(&sb, "%s%s%s\n", lead, c08RecFlow(rec), c08RecComment(r))
				}
			}
		default:
			if r.IntN(6) == 0 {
				fmt.Fprintf(&sb, "%s: %s\n", name, c08RecFlow(v))
				continue
			}
			fmt.Fprintf(&sb, "%s:\n", name)
			for _, rec := range v.A {
				c08RecItem(&sb, r, rec, "  ")
			}
		}
	}
	d.text = sb.String()
	return d
}

// ---- subtraction expressions with a model ----

type c08SubExpr struct {
	s    string
	v    *ref.V // a sequence
	atom bool
	tags []string
}

func (d *c08RecDoc) anyRecord(r *rand.Rand) *ref.V {
	l := d.val[d.lists[r.IntN(len(d.lists))]]
	return l.A[r.IntN(len(l.A))]
}

func (d *c08RecDoc) subAtom(r *rand.Rand, nested bool) c08SubExpr {
	list := func() string { return d.lists[r.IntN(len(d.lists))] }
	if nested {
		// sequences whose elements are sequences of records
		switch r.IntN(4) {
		case 0:
			n := d.groups[r.IntN(2)]
			return c08SubExpr{s: "." + n, v: d.val[n], atom: true, tags: []string{"groups"}}
		case 1:
			n := list()
			return c08SubExpr{s: "[." + n + "]", v: ref.SeqV(d.val[n]), atom: true, tags: []string{"wrapped_list"}}
		case 2:
			n := d.groups[r.IntN(2)]
			i := r.IntN(len(d.val[n].A))
			return c08SubExpr{s: fmt.Sprintf("[.%s[%d]]", n, i), v: ref.SeqV(d.val[n].A[i]), atom: true, tags: []string{"wrapped_group"}}
		default:
			n := d.groups[r.IntN(2)]
			grp := d.val[n].A[r.IntN(len(d.val[n].A))]
			lit := ref.SeqV()
			for _, rec := range grp.A {
				lit.A = append(lit.A, c08RecPermute(r, rec))
			}
			return c08SubExpr{s: "[" + lit.JSON() + "]", v: ref.SeqV(lit), atom: true, tags: []string{"literal_group"}}
		}
	}
	switch r.IntN(10) {
	case 0, 1, 2, 3:
		n := list()
		return c08SubExpr{s: "." + n, v: d.val[n], atom: true, tags: []string{"list"}}
	case 4:
		n := d.maps[r.IntN(2)]
		return c08SubExpr{s: "[." + n + "]", v: ref.SeqV(d.val[n]), atom: true, tags: []string{"wrapped_map"}}
	case 5:
		n, m := list(), list()
		i, j := r.IntN(len(d.val[n].A)), r.IntN(len(d.val[m].A))
		if r.IntN(2) == 0 {
			return c08SubExpr{s: fmt.Sprintf("[.%s[%d]]", n, i), v: ref.SeqV(d.val[n].A[i]), atom: true, tags: []string{"indexed"}}
		}
		return c08SubExpr{s: fmt.Sprintf("[.%s[%d], .%s[%d]]", n, i, m, j), v: ref.SeqV(d.val[n].A[i], d.val[m].A[j]), atom: true, tags: []string{"indexed"}}
	case 6, 7:
		lit := ref.SeqV()
		for i, n := 0, 1+r.IntN(2); i < n; i++ {
			x, _ := c08RecDerive(r, d.anyRecord(r), d.keys)
			lit.A = append(lit.A, x)
		}
		return c08SubExpr{s: lit.JSON(), v: lit, atom: true, tags: []string{"literal"}}
	case 8:
		n := d.groups[r.IntN(2)]
		i := r.IntN(len(d.val[n].A))
		return c08SubExpr{s: fmt.Sprintf(".%s[%d]", n, i), v: d.val[n].A[i], atom: true, tags: []string{"group_member"}}
	default:
		n := list()
		return c08SubExpr{s: "[." + n + "[]]", v: d.val[n], atom: true, tags: []string{"collected"}}
	}
}

func c08SeqSub(a, b *ref.V, permuted *int) *ref.V {
	out := ref.SeqV()
	for _, x := range a.A {
		keep := true
		for _, y := range b.A {
			if c08DeepEq(x, y, permuted) {
				keep = false
				break
			}
		}
		if keep {
			out.A = append(out.A, x)
		}
	}
	return out
}

func (d *c08RecDoc) subExpr(r *rand.Rand, depth int, nested bool, permuted *int) c08SubExpr {
	if depth == 0 {
		return d.subAtom(r, nested)
	}
	l := d.subExpr(r, r.IntN(depth), nested, permuted)
	rt := d.subExpr(r, r.IntN(depth), nested, permuted)
	par := func(e c08SubExpr) string {
		if e.atom && r.IntN(2) == 0 {
			return e.s
		}
		return "(" + e.s + ")"
	}
	tags := append(append([]string{}, l.tags...), rt.tags...)
	if depth > 1 && r.IntN(4) == 0 {
		sum := ref.SeqV(append(append([]*ref.V{}, l.v.A...), rt.v.A...)...)
		return c08SubExpr{s: par(l) + " + " + par(rt), v: sum, tags: append(tags, "plus")}
	}
	return c08SubExpr{s: par(l) + " - " + par(rt), v: c08SeqSub(l.v, rt.v, permuted), tags: tags}
}

// ---- other operators that compare, order or look up collections deeply (document oracle only) ----

// Expressions that read a key below a record carry `ro!`: a derived record may lack the key, and in a writable position
// such a read auto-creates it (the recorded deviation of the main family); they go to the read-only templates only.
func (d *c08RecDoc) deepExpr(r *rand.Rand) (string, string) {
	a := d.lists[r.IntN(len(d.lists))]
	b := d.lists[r.IntN(len(d.lists))]
	m, n := d.maps[r.IntN(2)], d.maps[r.IntN(2)]
	g := d.groups[r.IntN(2)]
	k1 := d.keys[r.IntN(len(d.keys))]
	k2 := d.keys[r.IntN(len(d.keys))]
	lit := c08RecPermute(r, d.anyRecord(r)).JSON()
	ia := r.IntN(len(d.val[a].A))
	ib := r.IntN(len(d.val[b].A))
	pool := [][2]string{
		{"sub_var", fmt.Sprintf(".%s as $b | .%s | map(select(([.] - $b | length) > 0))", b, a)},
		{"sub_each", fmt.Sprintf(".%s[] as $r | [$r] - .%s", a, b)},
		{"sub_each", fmt.Sprintf("[.%s[] | [.] - .%s | length]", a, b)},
		{"sub_each", fmt.Sprintf(".%s | map([.] - [%s])", a, lit)},
		{"sub_value", fmt.Sprintf("ro!.%s | map([.%s] - [.%s])", a, k1, k1)},
		{"sub_value", fmt.Sprintf("ro!.%s as $m | .%s | map([.%s] - [$m.%s])", m, a, k1, k1)},
		{"sub_len", fmt.Sprintf(".%s - .%s | length", a, b)},
		{"sub_flatten", fmt.Sprintf("(.%s | flatten) - .%s", g, a)},
		{"sub_flatten", fmt.Sprintf(".%s - (.%s | flatten(1))", a, g)},
		{"sub_any", fmt.Sprintf(".%s | any_c(([.] - [%s] | length) == 0)", a, lit)},
		{"sub_select", fmt.Sprintf("ro!.%s[] | select(([.] - .%s | length) == 0) | .%s", a, b, k1)},
		{"contains", fmt.Sprintf(".%s | contains(.%s)", a, b)},
		{"contains", fmt.Sprintf(".%s | contains([%s])", a, lit)},
		{"contains", fmt.Sprintf(".%s | contains(.%s)", m, n)},
		{"contains", fmt.Sprintf(".%s | contains([.%s[%d]])", a, b, ib)},
		{"contains", fmt.Sprintf(".%s | map(contains(%s))", a, lit)},
		{"unique", fmt.Sprintf(".%s | unique", a)},
		{"unique", fmt.Sprintf(".%s + .%s | unique", a, b)},
		{"unique", fmt.Sprintf(".%s | unique_by(.)", a)},
		{"unique", fmt.Sprintf("ro!.%s | unique_by(.%s)", a, k1)},
		{"group_by", fmt.Sprintf(".%s | group_by(.)", a)},
		{"group_by", fmt.Sprintf("ro!.%s + .%s | group_by(.%s)", a, b, k1)},
		{"sort", fmt.Sprintf(".%s | sort", a)},
		{"sort", fmt.Sprintf(".%s + .%s | sort", a, b)},
		{"sort", fmt.Sprintf(".%s | sort_by(.)", a)},
		{"sort", fmt.Sprintf("ro!.%s | sort_by(.%s)", a, k1)},
		{"sort", fmt.Sprintf(".%s | sort", g)},
		{"minmax", fmt.Sprintf(".%s | (min, max)", a)},
		{"pick", fmt.Sprintf(".%s | pick([%q, %q])", m, k2, k1)},
		{"pick", fmt.Sprintf(".%s | map(pick([%q, %q]))", a, k2, k1)},
		{"pick", fmt.Sprintf(".%s | pick([%d])", a, ia)},
		{"omit", fmt.Sprintf(".%s | omit([%q])", m, k1)},
		{"omit", fmt.Sprintf(".%s | map(omit([%q, %q]))", a, k1, k2)},
		{"omit", fmt.Sprintf(".%s | omit([%d])", a, ia)},
		{"add", fmt.Sprintf(".%s + .%s", m, n)},
		{"add", fmt.Sprintf(".%s as $n | .%s | map(. + $n)", n, a)},
		{"add", fmt.Sprintf(".%s | add", a)},
		{"merge", fmt.Sprintf(".%s * .%s", m, n)},
		{"merge", fmt.Sprintf(".%s[%d] * .%s[%d]", a, ia, b, ib)},
		{"merge", fmt.Sprintf(".%s *d .%s", a, b)},
		{"equals", fmt.Sprintf(".%s == .%s", m, n)},
		{"equals", fmt.Sprintf(".%s[%d] == .%s[%d]", a, ia, b, ib)},
		{"equals", fmt.Sprintf(".%s as $m | .%s | map(. == $m)", m, a)},
		{"equals", fmt.Sprintf("ro!.%s | map(.%s == .%s)", a, k1, k2)},
		{"equals", fmt.Sprintf(".%s != .%s", a, b)},
		{"has", fmt.Sprintf(".%s | map(has(%q))", a, k1)},
		{"keys", fmt.Sprintf(".%s | map(keys)", a)},
		{"keys", fmt.Sprintf(".%s | map(keys | sort)", a)},
		{"entries", fmt.Sprintf(".%s | map(to_entries)", a)},
		{"entries", fmt.Sprintf(".%s | map(with_entries(.))", a)},
		{"entries", fmt.Sprintf(".%s | to_entries | from_entries", m)},
		{"reverse", fmt.Sprintf(".%s | reverse", a)},
		{"flatten", fmt.Sprintf(".%s | flatten", g)},
		{"alternative", fmt.Sprintf(".%s[%d] // .%s", a, ia, m)},
		{"compare", fmt.Sprintf("ro!.%s[%d].%s < .%s[%d].%s", a, ia, k1, b, ib, k1)},
	}
	p := pool[r.IntN(len(pool))]
	return p[0], p[1]
}

func c08RecordsCase(w *mon.Worker, r *rand.Rand) mon.Result {
	d := c08RecordsDoc(r)
	var e, kind, op string
	var want *ref.V
	var tags []string
	permuted := 0
	if r.IntN(5) < 3 {
		kind = "sub"
		nested := r.IntN(5) == 0
		se := d.subExpr(r, 1+r.IntN(3), nested, &permuted)
		e, want, op = se.s, se.v, "subtract"
		for _, t := range se.tags {
			tags = append(tags, "records_operand:"+t)
		}
		if nested {
			tags = append(tags, "records_nested_sequences")
		}
		if permuted > 0 {
			tags = append(tags, "records_cmp:same_size_other_key_order")
		}
		if len(want.A) == 0 {
			tags = append(tags, "records_result:empty")
		} else {
			tags = append(tags, "records_result:some_kept")
		}
	} else {
		kind = "deep"
		op, e = d.deepExpr(r)
	}
	tpl := r.IntN(6)
	if strings.HasPrefix(e, "ro!") {
		e = strings.TrimPrefix(e, "ro!")
		tpl = []int{0, 1, 3}[r.IntN(3)]
		tags = append(tags, "records_reads_keys_read_only_position")
	}
	var expr string
	switch tpl {
	case 0:
		expr = "[" + e + "] as $x | ."
	case 1:
		expr = "select([" + e + "] | length > -1)"
	case 2:
		expr = "((" + e + ") | select(false)), ."
	case 3:
		expr = "select(([" + e + "] | length > -1) or true)"
	case 4:
		expr = "(((" + e + ") == 1) | select(false)), ."
	default:
		// the document printed after the value of E: what E hands out and the document share their nodes
		expr = "(" + e + "), ."
	}
	text := d.text
	res := mon.Result{Tags: append([]string{"tpl:records", fmt.Sprintf("records_tpl:%d", tpl), "records_kind:" + kind, "records_op:" + op}, tags...),
		Case: map[string]any{"doc": text, "expr": expr, "e": e}}
	res.Sig = fmt.Sprintf("records|%d|%x|%x", tpl, hashStr(skeleton(e)), hashStr(text))
	base, berr, bpan := yqx.Eval(".", text, "yaml", "yaml")
	res.Evals++
	if berr != nil || bpan != nil {
		res.Verdict, res.Detail = mon.Inconclusive, fmt.Sprintf("identity failed: %v %v", berr, bpan)
		return res
	}
	if bj, jerr, jpan := yqx.Eval(".", text, "yaml", "json"); jerr == nil && jpan == nil {
		// the generator's own text must mean the generator's own model (independent of the code under test it is not:
		// a disagreement makes the case inconclusive, never a verdict)
		res.Evals++
		model := ref.MapV()
		for _, kv := range mustStream(bj) {
			model = kv
		}
		for _, name := range append(append(append([]string{}, d.lists...), d.maps...), d.groups...) {
			v := d.val[name]
			got, has := model.Get(name)
			if !has || !ref.Equal(got, v) {
				res.Verdict, res.Detail = mon.Inconclusive, "generator disagreement: "+name+" is read as "+fmt.Sprint(got)+", model "+v.JSON()
				return res
			}
		}
	}
	out, err, pan := yqx.Eval(expr, text, "yaml", "yaml")
	res.Evals++
	if pan != nil || err != nil {
		if kind == "sub" {
			res.Verdict = mon.Violated
			res.Detail = fmt.Sprintf("`%s` is defined (sequences on both sides of every operator; the model yields %s) but failed: %v %v", expr, want.JSON(), err, pan)
			return res
		}
		res.Verdict, res.Detail = mon.Held, "E is not defined here (error): nothing to compare"
		res.Tags = append(res.Tags, "e_failed")
		return res
	}
	res.Nontrivial = true
	docPart := out
	if tpl == 5 {
		// value of E first (whatever it is), then the document: the output has to END with the document as `.` prints it
		if !strings.HasSuffix(out, base) {
			res.Verdict = mon.Violated
			res.Detail = fmt.Sprintf("after `%s` the document is not printed as `.` prints it\n--- yq . ---\n%s--- E, then the document ---\n%s", expr, clipStr(base, 900), clipStr(out, 1800))
			return res
		}
		docPart = base
	}
	if docPart != base {
		res.Verdict = mon.Violated
		res.Detail = fmt.Sprintf("evaluating `%s` changed the document\n--- yq . ---\n%s--- afterwards ---\n%s", expr, clipStr(base, 900), clipStr(out, 900))
		return res
	}
	if kind == "sub" {
		// the value: the model's, key order of what stays included
		vj, verr, vpan := yqx.Eval(e, text, "yaml", "json")
		res.Evals++
		if verr != nil || vpan != nil {
			res.Verdict = mon.Violated
			res.Detail = fmt.Sprintf("`%s` is defined (the model yields %s) but failed: %v %v", e, want.JSON(), verr, vpan)
			return res
		}
		got, perr := ref.ParseJSONStream(vj)
		if perr != nil || len(got) != 1 || !ref.Equal(got[0], want) {
			res.Verdict = mon.Violated
			res.Detail = fmt.Sprintf("value of `%s`\n expected (model): %s\n observed: %s", e, want.JSON(), clipStr(strings.TrimSpace(vj), 900))
			return res
		}
		res.Tags = append(res.Tags, "records_value_checked")
	}
	res.Verdict, res.Detail = mon.Held, "document unchanged"
	return res
}

func mustStream(s string) []*ref.V {
	vs, err := ref.ParseJSONStream(s)
	if err != nil {
		return nil
	}
	return vs
}
