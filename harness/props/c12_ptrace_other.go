//go:build !(linux && amd64)

package props

import (
	"errors"
	"time"
)

// The C12 tracer decodes x86-64 registers; elsewhere every C12 case is inconclusive.
const c12TracerAvailable = false

func c12PtraceRun(argv, env []string, dir, outPath, errPath string, faults []c12Inject, ro c12Roles, cpuSecs int, wall time.Duration) (*c12Trace, bool, error) {
	return &c12Trace{MainTid: -1}, false, errors.New("C12 tracer needs linux/amd64")
}
