package props

import (
	"bytes"
	"encoding/base64"
	"fmt"
	"strings"

	"verifharness/mon"
	"verifharness/ref"
)

// Family E — formats chosen automatically are those named by the FIRST file's extension.
//
//	e1  yq E f.EXT                 == yq -p=F -o=F E f.EXT      for every registered name/alias of every format
//	                                 that can be read (any letter case); unknown or missing extension => yaml
//	e2  yq E a.EXT1 b.EXT2         == yq -p=F1 -o=F1 E a.EXT1 b.EXT2   (the first file decides, also for the second file's decoder)
//	e3  yq -p=F E f.EXT            == yq -p=F -o=yaml E f.EXT   (documented backwards-compatibility branch)
//	    yq -o=G E f.EXT            == yq -p=F -o=G E f.EXT
//	e4  stdin ("-" or implicit)    == -p=yaml -o=yaml
//	e5  extension of an OUTPUT-ONLY format (.sh .s .shell): nothing documents what happens; required is only
//	    "no crash". The pinned tree dereferences a nil DecoderFactory => known finding C19-output-only-ext-panics.
//
// "==" is byte equality of stdout, equality of the exit status and of stderr emptiness. For json and yaml
// first files there is an independent anchor too: the json run's stdout must parse as the generated value.

type c19Fmt struct {
	name  string   // formal name usable with -p / -o
	exts  []string // every extension that selects it
	input bool
}

var c19Fmts = []c19Fmt{
	{"yaml", []string{"yaml", "yml", "y"}, true},
	{"json", []string{"json", "j"}, true},
	{"props", []string{"props", "properties", "p"}, true},
	{"csv", []string{"csv", "c"}, true},
	{"tsv", []string{"tsv", "t"}, true},
	{"xml", []string{"xml", "x"}, true},
	{"toml", []string{"toml"}, true},
	{"lua", []string{"lua", "l"}, true},
	{"base64", []string{"base64"}, true},
	{"uri", []string{"uri"}, true},
}

// (among them beginnings of format names that are not names themselves: an extension names a format or it does not)
var c19UnknownExts = []string{"txt", "conf", "bak", "data", "yamlx", "jsn", "", "tar.gz", "YAML2", "js", "ts", "cs", "pro", "b", "u", "to", "lu", "xm", "ya", "jso", "tom", "prop", "she", "base"}

// sample renders one small value in the given format.
func (c *c19ctx) sample(f string) (text string, v *ref.V) {
	s1, s2, s3 := c.str(), c.str(), c.str()
	n1 := c.intv()
	switch f {
	case "yaml", "json":
		v = ref.MapV(ref.KV{K: "a", V: s1}, ref.KV{K: "n", V: n1}, ref.KV{K: "m", V: ref.MapV(ref.KV{K: "b", V: s2})}, ref.KV{K: "l", V: ref.SeqV(s3, ref.BoolV(true))})
		return v.JSON() + "\n", v
	case "props":
		return fmt.Sprintf("a = %s\nn = %s\nm.b = %s\nl.0 = %s\n", s1.S, n1.JSON(), s2.S, s3.S), nil
	case "csv":
		return fmt.Sprintf("a,n\n%s,%s\n%s,7\n", s1.S, n1.JSON(), s2.S), nil
	case "tsv":
		return fmt.Sprintf("a\tn\n%s\t%s\n%s\t7\n", s1.S, n1.JSON(), s2.S), nil
	case "xml":
		return fmt.Sprintf("<root><a>%s</a><n>%s</n><m><b>%s</b></m></root>\n", s1.S, n1.JSON(), s2.S), nil
	case "toml":
		return fmt.Sprintf("a = \"%s\"\nn = %s\n\n[m]\nb = \"%s\"\n", s1.S, n1.JSON(), s2.S), nil
	case "lua":
		return fmt.Sprintf("return {\n\ta = \"%s\";\n\tn = %s;\n\tm = { b = \"%s\" };\n};\n", s1.S, n1.JSON(), s2.S), nil
	case "base64":
		return base64.StdEncoding.EncodeToString([]byte(s1.S)), nil
	case "uri":
		return s1.S + "%20" + s2.S, nil
	}
	return "", nil
}

func c19MixCase(c *c19ctx, s string) string {
	switch c.r.IntN(4) {
	case 0:
		return strings.ToUpper(s)
	case 1:
		if len(s) > 0 {
			return strings.ToUpper(s[:1]) + s[1:]
		}
	}
	return s
}

func c19SameRun(a, b mon.ExecResult) string {
	switch {
	case a.Exit != b.Exit:
		return fmt.Sprintf("exit status %d vs %d (stderr %q vs %q)", a.Exit, b.Exit, clipStr(string(a.Stderr), 160), clipStr(string(b.Stderr), 160))
	case !bytes.Equal(a.Stdout, b.Stdout):
		return fmt.Sprintf("stdout %q vs %q", clipStr(string(a.Stdout), 300), clipStr(string(b.Stdout), 300))
	case (len(bytes.TrimSpace(a.Stderr)) == 0) != (len(bytes.TrimSpace(b.Stderr)) == 0):
		return fmt.Sprintf("stderr %q vs %q", clipStr(string(a.Stderr), 160), clipStr(string(b.Stderr), 160))
	}
	return ""
}

func (c *c19ctx) familyE() {
	sub := c.idx / len(c19Families)
	exprs := []string{".", ".", ".a", "[.]", ".. | select(tag == \"!!str\")"}
	expr := exprs[c.r.IntN(len(exprs))]
	c.tag("expr:" + expr)
	switch sub % 8 {
	case 0, 1, 2: // e1 registered extension
		c.group = "E-ext"
		f := c19Fmts[(sub/8+sub%8*3)%len(c19Fmts)]
		ext := c19MixCase(c, f.exts[c.r.IntN(len(f.exts))])
		text, v := c.sample(f.name)
		name := []string{"in.", "dir.json/in.", ".", "a.yaml.", "x.y.z."}[c.r.IntN(5)] + ext
		c.write(name, text)
		c.tag("e1", "ext:"+strings.ToLower(ext), "fmt:"+f.name)
		auto := c.yq(nil, expr, name)
		expl := c.yq(nil, "-p="+f.name, "-o="+f.name, expr, name)
		if auto.TimedOut || expl.TimedOut {
			return
		}
		c.res.Nontrivial = f.name != "yaml"
		what := fmt.Sprintf("yq %s %s  vs  yq -p=%s -o=%s %s %s", expr, name, f.name, f.name, expr, name)
		if c19Crashed(auto) {
			c.violate("%s: crash: %s", what, clipStr(string(auto.Stderr), 300))
			return
		}
		if d := c19SameRun(auto, expl); d != "" {
			c.violate("%s: the automatic format is not the one named by the extension .%s: %s", what, ext, d)
			return
		}
		if f.name == "json" && expr == "." {
			got, err := ref.ParseJSON(string(auto.Stdout))
			if auto.Exit != 0 || err != nil || !ref.Equal(got, v) || !bytes.Contains(auto.Stdout, []byte("\n  \"")) {
				c.violate("yq . %s: output is not the indented JSON of the input: exit %d %q", name, auto.Exit, clipStr(string(auto.Stdout), 300))
				return
			}
			c.tag("json_anchor")
		}
		c.say(what + ": identical (exit " + fmt.Sprint(auto.Exit) + ")")
	case 3: // unknown extension => yaml
		c.group = "E-unknown"
		ext := c19UnknownExts[c.r.IntN(len(c19UnknownExts))]
		text, _ := c.sample("yaml")
		name := "in." + ext
		if ext == "" {
			name = []string{"noext", "dir.json/noext", "in."}[c.r.IntN(3)]
		}
		c.write(name, text)
		c.tag("e1-unknown", "ext:"+ext)
		auto := c.yq(nil, expr, name)
		expl := c.yq(nil, "-p=yaml", "-o=yaml", expr, name)
		if auto.TimedOut || expl.TimedOut {
			return
		}
		c.res.Nontrivial = true
		what := fmt.Sprintf("yq %s %s  vs  yq -p=yaml -o=yaml …", expr, name)
		if c19Crashed(auto) {
			c.violate("%s: crash: %s", what, clipStr(string(auto.Stderr), 300))
			return
		}
		if d := c19SameRun(auto, expl); d != "" {
			c.violate("%s: an unknown extension must mean yaml: %s", what, d)
			return
		}
		if auto.Exit != 0 {
			c.violate("%s: exit %d on valid YAML: %s", what, auto.Exit, clipStr(string(auto.Stderr), 200))
			return
		}
		c.say(what + ": identical")
	case 4, 5: // e2 two files, the first decides
		c.group = "E-first"
		// pairs whose second file is readable by the first file's decoder, so that both candidates ("first" and "last") succeed and differ visibly
		type pair struct{ f1, e1, f2, e2 string }
		pairs := []pair{
			{"json", "json", "yaml", "yaml"}, {"yaml", "yaml", "json", "json"}, {"json", "j", "yaml", "yml"}, {"yaml", "yml", "json", "json"},
			{"yaml", "txt", "json", "json"}, {"json", "json", "yaml", "txt"}, {"props", "properties", "yaml", "yaml"}, {"csv", "csv", "tsv", "tsv"},
			{"yaml", "yaml", "xml", "xml"}, {"json", "json", "props", "props"}, {"yaml", "yaml", "csv", "csv"}, {"xml", "xml", "json", "json"},
			// a first input WITHOUT an extension (or stdin) is yaml whatever the later files are called
			{"yaml", "", "json", "json"}, {"yaml", "", "xml", "xml"}, {"yaml", "", "props", "properties"}, {"yaml", "", "csv", "csv"},
			{"yaml", "-", "json", "json"}, {"yaml", "-", "xml", "xml"}, {"yaml", "", "lua", "lua"}, {"yaml", "-", "tsv", "tsv"},
		}
		p := pairs[c.r.IntN(len(pairs))]
		t1, _ := c.sample(p.f1)
		// the second file's TEXT is in the first file's format when that format is json/yaml (so it decodes), else in its own
		t2, _ := c.sample(p.f2)
		if p.f1 == "json" || p.f1 == "yaml" {
			t2, _ = c.sample("json")
		}
		n1, n2 := "first."+p.e1, "second."+p.e2
		var stdin []byte
		switch p.e1 {
		case "":
			n1 = []string{"first", "settings", "dir.json/first"}[c.r.IntN(3)]
			c.tag("e2-first-without-extension")
		case "-":
			n1, stdin = "-", []byte(t1)
			c.tag("e2-first-is-stdin")
		}
		if n1 != "-" {
			c.write(n1, t1)
		}
		c.write(n2, t2)
		c.tag("e2", "fmt:"+p.f1+"+"+p.f2)
		auto := c.yq(stdin, expr, n1, n2)
		expl := c.yq(stdin, "-p="+p.f1, "-o="+p.f1, expr, n1, n2)
		if auto.TimedOut || expl.TimedOut {
			return
		}
		c.res.Nontrivial = true
		what := fmt.Sprintf("yq %s %s %s  vs  yq -p=%s -o=%s …", expr, n1, n2, p.f1, p.f1)
		if c19Crashed(auto) {
			c.violate("%s: crash: %s", what, clipStr(string(auto.Stderr), 300))
			return
		}
		if d := c19SameRun(auto, expl); d != "" {
			c.violate("%s: the formats must be those of the FIRST file: %s", what, d)
			return
		}
		// the other candidate (last file decides) must be distinguishable, otherwise the case shows nothing
		other := c.yq(stdin, "-p="+p.f2, "-o="+p.f2, expr, n1, n2)
		if !other.TimedOut && c19SameRun(auto, other) == "" {
			c.res.Nontrivial = false
			c.tag("e2_indistinguishable")
		}
		c.say(what + ": identical (exit " + fmt.Sprint(auto.Exit) + ")")
	case 6: // e3 -p alone, -o alone
		c.group = "E-single-flag"
		f := c19Fmts[c.r.IntN(len(c19Fmts))]
		text, _ := c.sample(f.name)
		name := "in." + f.exts[0]
		c.write(name, text)
		if c.r.IntN(2) == 0 {
			c.tag("e3-p-alone", "fmt:"+f.name)
			alone := c.yq(nil, "-p="+f.name, expr, name)
			expl := c.yq(nil, "-p="+f.name, "-o=yaml", expr, name)
			if alone.TimedOut || expl.TimedOut {
				return
			}
			c.res.Nontrivial = f.name != "yaml"
			if alone.Exit != expl.Exit || !bytes.Equal(alone.Stdout, expl.Stdout) {
				c.violate("yq -p=%s %s %s must print yaml (backwards-compatibility branch): exit %d/%d stdout %q vs %q", f.name, expr, name, alone.Exit, expl.Exit, clipStr(string(alone.Stdout), 300), clipStr(string(expl.Stdout), 300))
				return
			}
			c.say("-p=" + f.name + " alone prints what -o=yaml prints")
		} else {
			g := c19OutFormats[c.r.IntN(len(c19OutFormats))]
			c.tag("e3-o-alone", "fmt:"+f.name+">"+g)
			alone := c.yq(nil, "-o="+g, expr, name)
			expl := c.yq(nil, "-p="+f.name, "-o="+g, expr, name)
			if alone.TimedOut || expl.TimedOut {
				return
			}
			c.res.Nontrivial = f.name != "yaml"
			if d := c19SameRun(alone, expl); d != "" {
				c.violate("yq -o=%s %s %s must read the file as %s: %s", g, expr, name, f.name, d)
				return
			}
			c.say("-o=" + g + " alone reads ." + f.exts[0] + " as " + f.name)
		}
	default: // e4 stdin, e5 output-only formats
		c.group = "E-stdin-or-outputonly"
		if c.r.IntN(3) == 0 {
			ext := []string{"sh", "s", "shell", "SH"}[c.r.IntN(4)]
			name := "vars." + ext
			c.write(name, "a=1\n")
			c.tag("e5-output-only-ext", "ext:"+ext)
			x := c.yq(nil, ".", name)
			if x.TimedOut {
				return
			}
			c.res.Nontrivial = true
			switch {
			case c19Crashed(x) && x.Exit == 2 && strings.Contains(string(x.Stderr), "nil pointer dereference") && strings.Contains(string(x.Stderr), "cmd.configureDecoder"):
				c.finding("C19-output-only-ext-panics", "yq . %s: the extension names the output-only format `shell`; yq dies with a nil-pointer panic in cmd.configureDecoder (exit 2, Go trace on stderr) instead of an error message", name)
			case c19Crashed(x):
				c.violate("yq . %s: crash: %s", name, clipStr(string(x.Stderr), 400))
			case x.Exit == 0:
				// falling back to yaml is fine if the content came through
				if !strings.Contains(string(x.Stdout), "a=1") {
					c.violate("yq . %s: exit 0 but the content is not in the output: %q", name, clipStr(string(x.Stdout), 200))
				}
				c.say("output-only extension: treated as some readable format")
			default:
				c.failedProperly(x, "yq . "+name)
				c.say("output-only extension: refused with a message")
			}
			return
		}
		text, _ := c.sample("json")
		c.write("ignored.json", text)
		c.tag("e4-stdin")
		var auto mon.ExecResult
		if c.r.IntN(2) == 0 {
			auto = c.yq([]byte(text), expr, "-")
		} else {
			auto = c.yq([]byte(text), expr)
		}
		expl := c.yq([]byte(text), "-p=yaml", "-o=yaml", expr, "-")
		if auto.TimedOut || expl.TimedOut {
			return
		}
		c.res.Nontrivial = true
		if d := c19SameRun(auto, expl); d != "" {
			c.violate("stdin must be read and printed as yaml: %s", d)
			return
		}
		if auto.Exit != 0 || len(auto.Stdout) == 0 {
			c.violate("yq %s - on valid input: exit %d stdout %q", expr, auto.Exit, clipStr(string(auto.Stdout), 100))
			return
		}
		c.say("stdin: yaml in, yaml out")
	}
}
