package props

import (
	"encoding/base64"
	"encoding/csv"
	"encoding/xml"
	"fmt"
	"io"
	"net/url"
	"sort"
	"strings"

	"verifharness/mon"
	"verifharness/ref"
)

// Per-format readers and the model of which encoder refuses which result (read off the encoder
// sources of the pinned tree). judge() is the one oracle shared by families A, B and F:
//
//	(exit 0  AND the output decodes to / contains every predicted result)  OR  (exit != 0 AND a message on stderr)
//
// and exit 0 is not allowed when the model says the encoder must refuse one of the results.

var c19OutFormats = []string{"yaml", "json", "props", "csv", "tsv", "xml", "toml", "base64", "uri", "shell", "lua"}

type c19Out struct {
	format     string
	nul        bool // -0
	noSep      bool // -N
	luaGlobals bool
	perDocMax  int // largest number of results one document contributed (yaml prints no separator between those)
	// constructed: the expression builds new nodes ([..], {..}, to_entries). Those carry no document index, so
	// the yaml printer puts no `---` between the results of different documents (C10's business): the
	// YAML text cannot be split into results again and only the in-order containment check applies.
	constructed bool
}

func (o c19Out) flags() []string {
	a := []string{"-o=" + o.format}
	if o.nul {
		a = append(a, "-0")
	}
	if o.noSep {
		a = append(a, "-N")
	}
	if o.luaGlobals {
		a = append(a, "--lua-globals")
	}
	return a
}

func c19AllScalars(vs []*ref.V) bool {
	for _, v := range vs {
		if !v.IsScalar() {
			return false
		}
	}
	return true
}

// c19Refuses: must the encoder of format f reject v? (second value: why)
func c19Refuses(o c19Out, v *ref.V) (bool, string) {
	switch o.format {
	case "csv", "tsv":
		switch v.K {
		case ref.Map:
			return true, "csv encoding only works for arrays"
		case ref.Seq:
			if len(v.A) == 0 {
				return false, ""
			}
			switch v.A[0].K {
			case ref.Seq:
				for _, row := range v.A {
					if row.K != ref.Seq || !c19AllScalars(row.A) {
						return true, "array of arrays must hold arrays of scalars only"
					}
				}
			case ref.Map:
				hdr := v.A[0]
				for _, row := range v.A {
					if row.K != ref.Map {
						return true, "array of objects must hold objects only"
					}
					for _, h := range hdr.M {
						if x, ok := row.Get(h.K); ok && !x.IsScalar() {
							return true, "object fields named by the header must be scalars"
						}
					}
				}
			default:
				if !c19AllScalars(v.A) {
					return true, "array of scalars must hold scalars only"
				}
			}
		}
	case "xml":
		if v.K == ref.Seq {
			return true, "only maps (and scalars) can be encoded at the top level"
		}
	case "toml":
		if !v.IsScalar() {
			return true, "only scalars are supported for TOML output"
		}
	case "base64", "uri":
		if v.K != ref.Str {
			return true, "can only operate on strings"
		}
	case "lua":
		if o.luaGlobals && v.K != ref.Map {
			return true, "--lua-globals requires a top level map"
		}
	}
	// "-0 … If unwrap scalar is also set, fail if unwrapped scalar contains NUL char": only a scalar that is printed
	// raw can carry a NUL into the output (json and nested yaml escape it)
	if o.nul && v.K == ref.Str && strings.ContainsRune(v.S, 0) {
		switch o.format {
		case "yaml", "props", "toml", "csv", "tsv":
			return true, "NUL inside an unwrapped scalar with NUL-separated output"
		}
	}
	return false, ""
}

// c19LeafTexts: the texts of the scalar leaves as format f prints them (lua prints nil for null).
func c19LeafTexts(o c19Out, vs []*ref.V) []string {
	var lv []*ref.V
	for _, v := range vs {
		c19Leaves(v, &lv)
	}
	out := make([]string, 0, len(lv))
	for _, l := range lv {
		t := c19Text(l)
		if o.format == "lua" && l.K == ref.Null {
			t = "nil"
		}
		out = append(out, t)
	}
	return out
}

// c19ContainsInOrder: every non-empty text occurs in s, in order, without overlap. Returns the index of the first missing one.
func c19ContainsInOrder(s string, texts []string) int {
	pos := 0
	for i, t := range texts {
		if t == "" {
			continue
		}
		j := strings.Index(s[pos:], t)
		if j < 0 {
			return i
		}
		pos += j + len(t)
	}
	return -1
}

func c19CSVRecords(v *ref.V) [][]string {
	row := func(xs []*ref.V) []string {
		r := make([]string, len(xs))
		for i, x := range xs {
			r[i] = c19Text(x)
		}
		return r
	}
	if v.IsScalar() {
		if c19Text(v) == "" {
			return nil // an empty line, which a CSV reader skips
		}
		return [][]string{{c19Text(v)}}
	}
	if len(v.A) == 0 {
		return nil
	}
	var recs [][]string
	switch v.A[0].K {
	case ref.Seq:
		for _, r := range v.A {
			recs = append(recs, row(r.A))
		}
	case ref.Map:
		hdr := v.A[0]
		h := make([]string, len(hdr.M))
		for i, e := range hdr.M {
			h[i] = e.K
		}
		recs = append(recs, h)
		for _, m := range v.A {
			r := make([]string, len(hdr.M))
			for i, e := range hdr.M {
				if x, ok := m.Get(e.K); ok {
					r[i] = c19Text(x)
				}
			}
			recs = append(recs, r)
		}
	default:
		recs = append(recs, row(v.A))
	}
	// records without fields, or with one empty field, are empty lines (which a CSV reader skips)
	out := recs[:0]
	for _, r := range recs {
		if len(r) > 1 || (len(r) == 1 && r[0] != "") {
			out = append(out, r)
		}
	}
	return out
}

func c19PropsLines(v *ref.V, path string, out *[]string) {
	join := func(k string) string {
		if path == "" {
			return k
		}
		return path + "." + k
	}
	switch v.K {
	case ref.Map:
		for _, e := range v.M {
			c19PropsLines(e.V, join(e.K), out)
		}
	case ref.Seq:
		for i, x := range v.A {
			c19PropsLines(x, join(fmt.Sprint(i)), out)
		}
	default:
		*out = append(*out, path+" = "+c19Text(v))
	}
}

func c19Lines(s string) []string {
	if s == "" {
		return nil
	}
	s = strings.TrimSuffix(s, "\n")
	return strings.Split(s, "\n")
}

func c19StripWS(s string) string {
	return strings.Map(func(r rune) rune {
		if r == ' ' || r == '\n' || r == '\t' || r == '\r' {
			return -1
		}
		return r
	}, s)
}

// c19ReadText decodes out (the output for results R in format o.format, NOT NUL separated) and compares.
// It returns "" when the output represents R, else a description. rereadYAML re-reads YAML text with
// `yq -p=yaml -o=json -I0 .` (nil results = the re-read could not be done).
func (c *c19ctx) readText(o c19Out, R []*ref.V, out string, piece bool) string {
	texts := c19LeafTexts(o, R)
	// (csv/tsv of objects documents that fields missing from the first object's header are left out: exact record reader below)
	if o.format != "base64" && o.format != "uri" && o.format != "csv" && o.format != "tsv" {
		if i := c19ContainsInOrder(out, texts); i >= 0 {
			return fmt.Sprintf("scalar leaf #%d %q of the results does not occur (in order) in the output", i, texts[i])
		}
	}
	nl := func(s string) string { // a NUL-separated piece had its last EOL removed
		if piece && s != "" && !strings.HasSuffix(s, "\n") {
			return s + "\n"
		}
		return s
	}
	// sameLines compares line-oriented output with the expected lines (a piece lost one final EOL)
	sameLines := func(got string, want []string, unit string) string {
		w := ""
		if len(want) > 0 {
			w = strings.Join(want, "\n") + "\n"
		}
		g := got
		if piece {
			w, g = strings.TrimSuffix(w, "\n"), strings.TrimSuffix(g, "\n")
		}
		if g == w {
			return ""
		}
		gl, wl := c19Lines(nl(got)), want
		if len(gl) != len(wl) {
			return fmt.Sprintf("%d %s, expected %d", len(gl), unit, len(wl))
		}
		for i := range wl {
			if gl[i] != wl[i] {
				return fmt.Sprintf("%s %d is %q, expected %q", unit, i, gl[i], wl[i])
			}
		}
		return fmt.Sprintf("%s differ: %q vs expected %q", unit, clipStr(g, 200), clipStr(w, 200))
	}
	switch o.format {
	case "json":
		got, err := ref.ParseJSONStream(out)
		if err != nil {
			return "output is not a stream of JSON texts: " + err.Error()
		}
		if len(got) != len(R) {
			return fmt.Sprintf("output holds %d JSON texts, expected %d results", len(got), len(R))
		}
		for i := range R {
			if !ref.Equal(got[i], R[i]) {
				return fmt.Sprintf("JSON text #%d is %s, expected %s", i, clipStr(got[i].JSON(), 200), clipStr(R[i].JSON(), 200))
			}
		}
	case "yaml":
		var lines []string
		for _, l := range c19Lines(nl(out)) {
			if l == "---" {
				continue
			}
			lines = append(lines, l)
		}
		switch {
		case c19AllScalars(R):
			want := make([]string, len(R))
			for i, v := range R {
				want[i] = c19Text(v)
			}
			g := ""
			if len(lines) > 0 {
				g = strings.Join(lines, "\n") + "\n"
			}
			if m := sameLines(g, want, "scalar lines"); m != "" {
				return m
			}
		case o.perDocMax <= 1 && !o.noSep && !piece && !o.constructed:
			allContainers := true
			for _, v := range R {
				if v.IsScalar() {
					allContainers = false
				}
			}
			if !allContainers {
				break
			}
			name := fmt.Sprintf("reread-%d.yaml", len(c.cmds))
			c.write(name, out)
			delete(c.files, name)
			x := c.yq(nil, "-p=yaml", "-o=json", "-I0", ".", name)
			if x.TimedOut {
				return ""
			}
			if x.Exit != 0 {
				c.tag("yaml_reread_failed")
				return "yq cannot read back its own YAML output: " + clipStr(string(x.Stderr), 200)
			}
			got, err := ref.ParseJSONStream(string(x.Stdout))
			if err != nil || len(got) != len(R) {
				return fmt.Sprintf("YAML output re-reads as %d documents, expected %d results", len(got), len(R))
			}
			for i := range R {
				if !ref.Equal(got[i], R[i]) {
					return fmt.Sprintf("YAML document #%d re-reads as %s, expected %s", i, clipStr(got[i].JSON(), 200), clipStr(R[i].JSON(), 200))
				}
			}
			c.tag("yaml_reread_exact")
		}
	case "props":
		var want []string
		for _, v := range R {
			if v.IsScalar() {
				want = append(want, c19Text(v))
			} else {
				c19PropsLines(v, "", &want)
			}
		}
		if m := sameLines(out, want, "property lines"); m != "" {
			return m
		}
	case "csv", "tsv":
		var want [][]string
		for _, v := range R {
			want = append(want, c19CSVRecords(v)...)
		}
		rd := csv.NewReader(strings.NewReader(out))
		rd.FieldsPerRecord = -1
		if o.format == "tsv" {
			rd.Comma = '\t'
		}
		got, err := rd.ReadAll()
		if err != nil {
			return "encoding/csv rejects the output: " + err.Error()
		}
		if len(got) != len(want) {
			return fmt.Sprintf("%d records, expected %d", len(got), len(want))
		}
		for i := range want {
			if strings.Join(got[i], "\x00") != strings.Join(want[i], "\x00") {
				return fmt.Sprintf("record %d is %q, expected %q", i, got[i], want[i])
			}
		}
	case "xml":
		dec := xml.NewDecoder(strings.NewReader(out))
		// every scalar leaf must be there as an attribute value or as character data; attributes are
		// written inside the start tag, so the order is not the document's: compared as multisets
		var parts []string
		depth, nattr := 0, 0
		for {
			tok, err := dec.Token()
			if err == io.EOF {
				break
			}
			if err != nil {
				return "encoding/xml rejects the output: " + err.Error()
			}
			switch t := tok.(type) {
			case xml.StartElement:
				depth++
				for _, a := range t.Attr {
					if a.Value != "" {
						parts = append(parts, a.Value)
					}
					nattr++
				}
			case xml.EndElement:
				depth--
			case xml.CharData:
				if x := c19StripWS(string(t)); x != "" {
					parts = append(parts, x)
				}
			}
		}
		if depth != 0 {
			return "unbalanced XML elements"
		}
		if nattr == 0 {
			// no attributes: the character data, in order, is exactly the leaves (top-level scalars are written without any separator)
			if got, want := strings.Join(parts, ""), strings.Join(texts, ""); got != want {
				return fmt.Sprintf("XML character data is %q, expected the leaves %q", clipStr(got, 200), clipStr(want, 200))
			}
			break
		}
		var wp []string
		for _, x := range texts {
			if x != "" {
				wp = append(wp, x)
			}
		}
		sort.Strings(parts)
		sort.Strings(wp)
		if got, want := strings.Join(parts, "\x00"), strings.Join(wp, "\x00"); got != want {
			return fmt.Sprintf("XML attribute values and character data are %q, expected the leaves %q", clipStr(got, 200), clipStr(want, 200))
		}
	case "toml":
		want := make([]string, len(R))
		for i, v := range R {
			want[i] = c19Text(v)
		}
		if m := sameLines(out, want, "toml lines"); m != "" {
			return m
		}
	case "base64", "uri":
		var sb strings.Builder
		for _, v := range R {
			if o.format == "base64" {
				sb.WriteString(base64.StdEncoding.EncodeToString([]byte(v.S)))
			} else {
				sb.WriteString(url.QueryEscape(v.S))
			}
		}
		if out != sb.String() {
			return fmt.Sprintf("output %q, expected %q", clipStr(out, 200), clipStr(sb.String(), 200))
		}
	case "shell":
		got := c19Lines(nl(out))
		if len(got) != len(texts) {
			return fmt.Sprintf("%d assignments, expected one per scalar leaf (%d)", len(got), len(texts))
		}
		for i, t := range texts {
			eq := strings.IndexByte(got[i], '=')
			if eq < 0 || (got[i][eq+1:] != t && got[i][eq+1:] != "'"+t+"'") {
				return fmt.Sprintf("assignment %d is %q, expected the value %q", i, got[i], t)
			}
		}
	case "lua":
		if !o.luaGlobals {
			if n := strings.Count(out, "return "); n != len(R) {
				return fmt.Sprintf("%d `return` statements, expected %d results", n, len(R))
			}
		}
		if strings.Count(out, "{") != strings.Count(out, "}") {
			return "unbalanced braces in the Lua output"
		}
	}
	return ""
}

// judge applies the shared oracle to one run. accepted = exit 0 and decoded.
func (c *c19ctx) judge(o c19Out, R []*ref.V, x mon.ExecResult, what string) (accepted bool) {
	if x.TimedOut {
		return false
	}
	c.tag("out:" + o.format)
	failIdx, why := -1, ""
	for i, v := range R {
		if no, w := c19Refuses(o, v); no {
			failIdx, why = i, w
			break
		}
	}
	if x.Exit != 0 || x.Signal != 0 {
		if c.failedProperly(x, what) {
			if failIdx < 0 {
				c.tag("refused_representable:" + o.format)
			} else {
				c.tag("refused_unrepresentable:" + o.format)
			}
		}
		return false
	}
	out := string(x.Stdout)
	if failIdx >= 0 {
		c.violate("%s: exit 0 although result #%d %s cannot be represented with %v (%s); stdout=%q", what, failIdx, clipStr(R[failIdx].JSON(), 200), o.flags(), why, clipStr(out, 300))
		return false
	}
	texts := c19LeafTexts(o, R)
	nonEmpty := false
	if o.format == "csv" || o.format == "tsv" {
		// documented: the first object of an array of objects fixes the header, other fields are left out
		for _, v := range R {
			nonEmpty = nonEmpty || len(c19CSVRecords(v)) > 0
		}
	} else {
		for _, t := range texts {
			if t != "" {
				nonEmpty = true
			}
		}
	}
	if nonEmpty && strings.Trim(out, "\x00\n") == "" {
		if id := c19NulDropFinding(o, R, out); id != "" {
			c.finding(id, "%s: exit 0 and the output holds only separators (%q) although the results have %d scalar leaves, e.g. %s", what, clipStr(out, 40), len(texts), clipStr(R[0].JSON(), 200))
			return false
		}
		c.violate("%s: SILENT DROP: exit 0 and empty output %q although the results have %d scalar leaves, e.g. %s", what, clipStr(out, 40), len(texts), clipStr(R[0].JSON(), 200))
		return false
	}
	var msg string
	if o.nul {
		pieces := strings.Split(out, "\x00")
		switch {
		case len(R) == 0:
			if out != "" {
				msg = "no results but non-empty output"
			}
		case pieces[len(pieces)-1] != "":
			msg = "NUL-separated output does not end with NUL"
		case len(pieces)-1 != len(R):
			msg = fmt.Sprintf("%d NUL-terminated pieces, expected %d results", len(pieces)-1, len(R))
		default:
			for i, v := range R {
				p := pieces[i]
				if o.format == "yaml" {
					p = strings.TrimPrefix(p, "---\n")
				}
				po := o
				po.perDocMax = 1
				if m := c.readText(po, []*ref.V{v}, p, true); m != "" {
					msg = fmt.Sprintf("piece %d: %s", i, m)
					break
				}
			}
		}
		if msg != "" {
			if id := c19NulDropFinding(o, R, out); id != "" {
				c.finding(id, "%s: %s; stdout=%q", what, msg, clipStr(out, 200))
				return false
			}
		}
	} else {
		msg = c.readText(o, R, out, false)
	}
	if msg != "" {
		c.violate("%s: exit 0 but the output does not represent the results: %s\nstdout=%q\nexpected results=%s", what, msg, clipStr(out, 500), clipStr(c19JSONList(R), 500))
		return false
	}
	c.tag("decoded:" + o.format)
	return true
}

func c19JSONList(R []*ref.V) string {
	var sb strings.Builder
	for _, v := range R {
		sb.WriteString(v.JSON() + "\n")
	}
	return sb.String()
}

// Known finding C19-nul-output-drops-csv-xml. Exact matcher: -0 is set, the format is csv, tsv or xml,
// and the output is, per result, exactly the scalar's text (scalars are written directly) or NOTHING for a
// container (its bytes stayed in a bufio.Writer the encoder never flushes), each followed by NUL; and at
// least one container result has a non-empty scalar leaf.
func c19NulDropFinding(o c19Out, R []*ref.V, out string) string {
	if !o.nul || (o.format != "csv" && o.format != "tsv" && o.format != "xml") {
		return ""
	}
	var sb strings.Builder
	dropped := false
	for _, v := range R {
		if v.IsScalar() {
			sb.WriteString(c19Text(v))
		} else {
			for _, t := range c19LeafTexts(o, []*ref.V{v}) {
				if t != "" {
					dropped = true
				}
			}
		}
		sb.WriteByte(0)
	}
	if dropped && out == sb.String() {
		return "C19-nul-output-drops-csv-xml"
	}
	return ""
}

var _ = mon.Held
