package props

import (
	"encoding/base64"
	"encoding/csv"
	"fmt"
	"math"
	"math/big"
	"math/rand/v2"
	"sort"
	"strconv"
	"strings"
	"unicode/utf8"

	"github.com/mikefarah/yq/v4/pkg/yqlib"

	"verifharness/gen"
	"verifharness/mon"
	"verifharness/ref"
	"verifharness/yqx"
)

// C14 — properties, CSV/TSV, XML, TOML, Lua, base64 and URI codecs are faithful.
//
// Per format and direction (see the cell table below):
//
//	ENCODE  ground truth V -> yq -o=FMT -> INDEPENDENT reader of the text -> must be V
//	DECODE  harness's own writer (varying the surface syntax) -> yq -p=FMT -o=json -> must be V
//	PAIRS   to_X | from_X composed inside one expression must be the identity
//
// Independent readers/writers live in harness/ref (c14_*.go) and share no code with the
// libraries yq uses for the format: own .properties reader/writer, own RFC 4180 reader/writer
// (plus encoding/csv as a second reader), own element-tree builder over encoding/xml's raw
// tokenizer, own TOML writer + semantics cross-validated by python3 tomllib, gopher-lua as a
// real consumer of -o=lua output, own percent-decoder, encoding/base64.
type c14 struct{}

func init() { mon.Register(c14{}) }

func (c14) ID() string    { return "C14" }
func (c14) Level() string { return "exploration" }
func (c14) Rule() string {
	return "case idx picks a cell round-robin (" + strings.Join(c14CellNames(), ", ") + "). ENCODE: generated ground truth V (as JSON text read by the YAML decoder) -> real encoder " +
		"(in-process, 1/12 also the real binary with the matching flags, bytes must agree) -> independent reader -> equal to V (by text for properties/CSV/XML, by type for Lua/JSON). " +
		"DECODE: the harness's own writer renders V with varying separators/escapes/quoting/whitespace/comments; the text is first read back by the harness's own reader (disagreement = inconclusive), then " +
		"`yq -p=FMT -o=json` must print V (TOML ground truth additionally cross-validated by python3 tomllib on 1/3 of the cases and on every disagreement). PAIRS: `to_X | from_X` on V must print V. " +
		"Preferences varied: properties separator/unwrapScalar/array brackets, CSV separator and auto-parse, TSV, XML attribute prefix/content name/indent/skip-proc-inst/skip-directives/keep-namespace, Lua unquoted keys/globals. " +
		"Non-trivial = the value has at least one entry that needs escaping or quoting in the format, or nesting/repetition (attributes, repeated children, tables, arrays of tables); " +
		"distinct by (cell, shape hash of V, feature tags). " +
		"Every 32nd case index (idx%32 == 23) goes to the family toml:headers (TOML table declaration order): a random table tree (tables with 0..2 key/values, implicit tables, arrays of tables as leaves, depth <= 3) whose header blocks " +
		"are emitted shuffled / super-table last / super-table after its descendants in mid-document / parent first, with empty, one-key and several-key bodies at each position (end of input, before comments and blank lines only, before another header); " +
		"`yq -p=toml -o=json` must print the meaning of the statement list (ref.TOMLBuild, cross-validated by python3 tomllib on every second case and on every disagreement)."
}
func (c14) Assumptions() []string {
	return []string{
		"strings are NUL-free valid UTF-8 (base64/URI are documented to carry UTF-8 strings, not binary)",
		"properties domain: nested maps/sequences with non-empty containers (empty ones are documented as not encoded); keys are non-empty, contain no '.', no line break, and are not integer spellings (those denote nesting / array positions); keys containing '*' or '?' only in the dedicated glob-key sub-workload",
		"properties, further exclusions that keep known defects from interacting (each defect alone stays in the workload as a known finding): with --properties-array-brackets keys have no '[' / ']'; a key cut at an unescaped '=' never equals a sibling key; '=' in keys, leading '#'/'!' of keys and leading blanks of values are neutralised in 9 of 10 cases; with CR LF line ends only all-letter values are continued over lines; the glob-key sub-workload has no comment lines (a commented entry additionally renames the matched keys)",
		"properties --unwrapScalar=false is only exercised with plain words/blanks (the documented 'encapsulated with double quotes' says nothing about quotes/backslashes inside)",
		"CSV/TSV decode types fields by YAML scalar rules (documented) and an empty field is null: string ground truth starts with a letter and contains no ': ' / ' #' / trailing ':' so that no YAML reading other than a plain string exists; typed fields are a separate sub-workload (decimal ints without leading zeros, floats, true/false, null/~/empty); header names are unique",
		"CSV encode of objects follows the documented rule: header = keys of the FIRST object, missing keys are blank, extra keys are dropped",
		"XML: leaves are strings (null, empty maps and empty sequences are outside the XML domain); names are valid XML names; repeated children are adjacent (the docs define consecutive repeats only); sequences directly inside sequences do not exist in XML; only characters allowed by XML 1.0, no C1 controls; decode ground truth trims blanks around every text chunk and reads an empty element as null (documented: whitespace is not conserved); text chunks are split at child elements, comments, processing instructions and CDATA boundaries (documented as 'multiple content texts are collected into a sequence'); first/last character of a text chunk is a letter, digit or punctuation",
		"XML encode is compared modulo: attributes before content/children (they live in the start tag), blanks around content of elements that also have child elements (indentation is inserted there)",
		"TOML is decode only (the encoder only prints scalars); inf/nan are left out (the JSON observation channel cannot carry them); an array-of-tables element always has a key/value directly after its header (an empty element crashes the decoder: C11's business); at most one finding-prone feature per document",
		"TOML offset date-times are compared as strings spelled exactly like the literal",
		"TOML family toml:headers: an empty table header that is followed by another header only names a table that already exists (for a new one yq drops it: finding C14-toml-empty-table-dropped stays in toml:decode); arrays of tables are leaves, never named by an all-digit key, and every element has a key/value directly after its header",
		"TOML: below an array-of-tables element no all-digit key is used in a header (yq takes it for an index: a different manifestation of finding C14-toml-subtable-under-array-table); glob characters only in top-level keys",
		"Lua: integers within ±2^53 (gopher-lua numbers are float64), no nil inside tables, arrays without holes, empty map == empty sequence (both are the empty table), map key order is not compared on decode (Lua tables are unordered); --lua-globals output is executed with _ENV pre-bound to the globals table because gopher-lua implements Lua 5.1",
		"to_json/from_json, to_yaml/from_yaml pairs: integers within ±2^53, no float that JSON prints as an integer beyond int64, no key '<<', no U+0085/U+2028/U+2029 (all of these are YAML<->JSON value questions of C06/C13, not codec questions)",
		"the key '<<' is never generated anywhere (the ground truth reaches yq as JSON text read by the YAML decoder, where it is the merge key)",
		"python3 with tomllib, when present, is a correct TOML 1.0 reader; when absent the cross-validation is skipped (never a violation)",
	}
}
func (c14) Cases(tier string) int {
	if tier == "thorough" {
		return 300000
	}
	return 7200
}
func (c14) RaceCases(tier string) int {
	if tier == "thorough" {
		return 5000
	}
	return 300
}
func (c14) Floor(tier string) int {
	if tier == "thorough" {
		return 20000
	}
	return 2000
}

// ---- cells -------------------------------------------------------------------------------

type c14Cell struct {
	name string
	run  func(c *c14ctx)
}

var c14Cells = []c14Cell{
	{"props:encode", c14PropsEncode},
	{"props:decode", c14PropsDecode},
	{"props:pair", c14PropsPair},
	{"csv:encode", func(c *c14ctx) { c14CSVEncode(c, false) }},
	{"csv:decode", func(c *c14ctx) { c14CSVDecode(c, false) }},
	{"csv:pair", func(c *c14ctx) { c14CSVPair(c, false) }},
	{"tsv:encode", func(c *c14ctx) { c14CSVEncode(c, true) }},
	{"tsv:decode", func(c *c14ctx) { c14CSVDecode(c, true) }},
	{"tsv:pair", func(c *c14ctx) { c14CSVPair(c, true) }},
	{"xml:encode", c14XMLEncode},
	{"xml:decode", c14XMLDecode},
	{"xml:pair", c14XMLPair},
	{"toml:decode", c14TOMLDecode},
	{"toml:decode2", c14TOMLDecode},
	{"lua:encode", c14LuaEncode},
	{"lua:decode", c14LuaDecode},
	{"base64", c14Base64},
	{"uri", c14URI},
	{"jsonyaml:pair", c14JSONYAMLPair},
}

func c14CellNames() []string {
	var out []string
	for _, c := range c14Cells {
		out = append(out, c.name)
	}
	return out
}

type c14ctx struct {
	w    *mon.Worker
	r    *rand.Rand
	idx  int
	res  mon.Result
	cs   map[string]any // the case written out
	tags map[string]bool
	bin  bool // cross-check this case against the real binary
	// errHook, when set, gets every error message of yq before it becomes a violation and may decide the case (known findings)
	errHook func(msg string) bool
	nt      bool
	sig     string
	done    bool
}

func (c *c14ctx) ch(n int) int { return c.r.IntN(n) }
func (c *c14ctx) tag(t ...string) {
	for _, x := range t {
		c.tags[x] = true
	}
}
func (c *c14ctx) finish(verdict, detail string) {
	if c.done {
		return
	}
	c.done = true
	c.res.Verdict = verdict
	c.res.Detail = detail
}
func (c *c14ctx) held(format string, a ...any) { c.finish(mon.Held, fmt.Sprintf(format, a...)) }
func (c *c14ctx) violated(format string, a ...any) {
	c.finish(mon.Violated, fmt.Sprintf(format, a...))
}
func (c *c14ctx) incon(format string, a ...any) {
	c.finish(mon.Inconclusive, fmt.Sprintf(format, a...))
}
func (c *c14ctx) finding(id, format string, a ...any) {
	if c.done {
		return
	}
	c.res.FindingID = id
	c.tag("finding:" + id)
	c.finish(mon.Finding, fmt.Sprintf(format, a...))
}

// eval runs the real library: `yq -p=<dec> -o=<enc> expr` on input.
func (c *c14ctx) eval(expr, input string, dec yqlib.Decoder, enc yqlib.Encoder) (string, error, *yqx.Panic) {
	yqx.Init()
	c.res.Evals++
	var out string
	var err error
	pan := yqx.Guard(func() {
		out, err = yqlib.NewStringEvaluator().Evaluate(expr, input, enc, dec)
	})
	return out, err, pan
}

// evalOK is eval for the cases where the reference expects a result: errors and panics end the case.
func (c *c14ctx) evalOK(what, expr, input string, dec yqlib.Decoder, enc yqlib.Encoder) (string, bool) {
	out, err, pan := c.eval(expr, input, dec, enc)
	if pan != nil {
		c.violated("%s: yq panicked: %s\n%s\ninput: %s", what, pan.Value, clipStr(pan.Stack, 600), clipStr(input, 600))
		return "", false
	}
	if err != nil {
		if c.errHook != nil && c.errHook(err.Error()) {
			return "", false
		}
		c.violated("%s: yq failed on an in-domain input: %v\ninput: %s", what, err, clipStr(input, 800))
		return "", false
	}
	return out, true
}

// binary runs the real executable; ok=false when the case was decided (timeout -> inconclusive).
func (c *c14ctx) binary(stdin string, args ...string) (stdout, stderr string, exit int, ok bool) {
	c.res.Evals++
	c.tag("binary_crosscheck")
	br := mon.Run(mon.RunOpts{Dir: c.w.Scratch, Stdin: []byte(stdin)}, append([]string{c.w.YqBin()}, args...)...)
	if br.TimedOut || br.Exit == -2 {
		c.incon("binary timed out or could not be run: %s", clipStr(string(br.Stderr), 200))
		return "", "", 0, false
	}
	return string(br.Stdout), string(br.Stderr), br.Exit, true
}

// sameAsBinary: the binary with the given flags must print exactly what the library printed.
func (c *c14ctx) sameAsBinary(lib, stdin string, args ...string) bool {
	out, serr, exit, ok := c.binary(stdin, args...)
	if !ok {
		return false
	}
	if exit != 0 && c.errHook != nil && c.errHook(serr) {
		return false
	}
	if exit != 0 || out != lib {
		c.violated("binary and library disagree: yq %s -> exit=%d stdout=%q stderr=%q; library printed %q\nstdin: %s",
			strings.Join(args, " "), exit, clipStr(out, 500), clipStr(serr, 300), clipStr(lib, 500), clipStr(stdin, 500))
		return false
	}
	return true
}

func (p c14) Run(w *mon.Worker, idx int) mon.Result {
	if idx%32 == 7 && !w.Race {
		return c14MultiFileDecode(w, idx)
	}
	if idx%16 == 15 {
		return c14MultiDoc(w, idx)
	}
	if idx%32 == 23 {
		return c14RunExtra(w, idx, c14HeadersCell) // TOML table declaration order (c14_r10.go)
	}
	cell := c14Cells[idx%len(c14Cells)]
	c := &c14ctx{w: w, r: w.Rand(idx), idx: idx, cs: map[string]any{"cell": cell.name}, tags: map[string]bool{}}
	c.bin = c.r.IntN(12) == 0
	cell.run(c)
	if !c.done {
		c.incon("cell %s did not reach a verdict (harness bug)", cell.name)
	}
	c.tag("cell:" + cell.name)
	tl := make([]string, 0, len(c.tags))
	for t := range c.tags {
		tl = append(tl, t)
	}
	sort.Strings(tl)
	c.res.Tags = tl
	c.res.Case = c.cs
	c.res.Nontrivial = c.nt
	c.res.Sig = fmt.Sprintf("%s|%s|%x", cell.name, c.sig, hashStr(strings.Join(tl, ",")))
	return c.res
}

// Finish enforces a per-cell floor: every format x direction must have been observed.
func (p c14) Finish(w *mon.Worker, results []mon.Result) []mon.Result {
	need := 60
	if w.Tier == "thorough" {
		need = 2000
	}
	count := map[string]int{}
	for _, r := range results {
		if r.Race || !r.Nontrivial || (r.Verdict != mon.Held) {
			continue
		}
		for _, t := range r.Tags {
			if strings.HasPrefix(t, "cell:") {
				count[t[5:]]++
			}
		}
	}
	for _, cell := range append(append([]c14Cell{}, c14Cells...), c14HeadersCell) {
		if count[cell.name] < need {
			results = append(results, mon.Result{Idx: -1, Verdict: mon.Inconclusive, Tags: []string{"floor_missed:" + cell.name},
				Detail: fmt.Sprintf("cell %s has only %d conclusive non-trivial held cases (floor %d): observed too little to say anything about it", cell.name, count[cell.name], need)})
		}
	}
	return results
}

// ---- shared helpers ----------------------------------------------------------------------

func c14ScalarText(v *ref.V) string {
	if v.K == ref.Str {
		return v.S
	}
	return v.JSON()
}

// c14Stringify replaces every scalar by the string of its text (formats without types).
func c14Stringify(v *ref.V) *ref.V {
	switch v.K {
	case ref.Map:
		out := &ref.V{K: ref.Map, M: []ref.KV{}}
		for _, e := range v.M {
			out.M = append(out.M, ref.KV{K: e.K, V: c14Stringify(e.V)})
		}
		return out
	case ref.Seq:
		out := &ref.V{K: ref.Seq, A: []*ref.V{}}
		for _, e := range v.A {
			out.A = append(out.A, c14Stringify(e))
		}
		return out
	}
	return ref.StrV(c14ScalarText(v))
}

// c14NaN replaces NaN floats by a marker so that EqualNum-style comparisons treat them as equal.
func c14NaN(v *ref.V) *ref.V {
	switch v.K {
	case ref.Map:
		out := &ref.V{K: ref.Map, M: []ref.KV{}}
		for _, e := range v.M {
			out.M = append(out.M, ref.KV{K: e.K, V: c14NaN(e.V)})
		}
		return out
	case ref.Seq:
		out := &ref.V{K: ref.Seq, A: []*ref.V{}}
		for _, e := range v.A {
			out.A = append(out.A, c14NaN(e))
		}
		return out
	case ref.Float:
		if math.IsNaN(v.F) {
			return ref.StrV("<NaN>")
		}
	}
	return v
}

// c14Eq compares typed values the way a JSON observation channel allows: integers exactly,
// anything involving a float by float64 value (yq prints 1e+21 as 1e+21 but 2.5e10 as 25000000000,
// both are the same JSON number), NaN equals NaN. Map key order is significant unless unordered.
func c14Eq(a, b *ref.V, unordered bool) bool {
	if a == nil || b == nil {
		return a == b
	}
	if a.IsNum() && b.IsNum() {
		if a.K == ref.Int && b.K == ref.Int {
			return a.I.Cmp(b.I) == 0
		}
		x, y := c14F64(a), c14F64(b)
		return x == y || (math.IsNaN(x) && math.IsNaN(y))
	}
	if a.K != b.K {
		return false
	}
	switch a.K {
	case ref.Seq:
		if len(a.A) != len(b.A) {
			return false
		}
		for i := range a.A {
			if !c14Eq(a.A[i], b.A[i], unordered) {
				return false
			}
		}
		return true
	case ref.Map:
		if len(a.M) != len(b.M) {
			return false
		}
		for i, e := range a.M {
			if unordered {
				o, ok := b.Get(e.K)
				if !ok || !c14Eq(e.V, o, unordered) {
					return false
				}
				continue
			}
			if e.K != b.M[i].K || !c14Eq(e.V, b.M[i].V, unordered) {
				return false
			}
		}
		return true
	}
	return ref.Equal(a, b)
}

func c14F64(v *ref.V) float64 {
	if v.K == ref.Int {
		f, _ := new(big.Float).SetInt(v.I).Float64()
		return f
	}
	return v.F
}

// c14RenameKeys applies f to every map key (keeping keys unique).
func c14RenameKeys(v *ref.V, f func(string) string) {
	v.Walk(nil, func(_ []any, n *ref.V) {
		if n.K != ref.Map {
			return
		}
		seen := map[string]bool{}
		for i := range n.M {
			k := f(n.M[i].K)
			for seen[k] {
				k += "_"
			}
			seen[k] = true
			n.M[i].K = k
		}
	})
}

func c14PlainWord(s string) bool {
	for i := 0; i < len(s); i++ {
		ch := s[i]
		if !(ch >= 'a' && ch <= 'z' || ch >= 'A' && ch <= 'Z' || ch >= '0' && ch <= '9' || ch == '_' || ch == '-') {
			return false
		}
	}
	return true
}

func c14OneJSON(c *c14ctx, what, out string) (*ref.V, bool) {
	vs, err := ref.ParseJSONStream(out)
	if err != nil || len(vs) != 1 {
		c.violated("%s: expected exactly one JSON result, got %d (parse error: %v)\noutput: %s", what, len(vs), err, clipStr(out, 600))
		return nil, false
	}
	return vs[0], true
}

func c14YAMLDec() yqlib.Decoder { return yqx.Decoder("yaml") }
func c14JSONEnc() yqlib.Encoder { return yqx.Encoder("json") }

// ---- properties --------------------------------------------------------------------------

func c14Flatten(v *ref.V, prefix string, brackets bool, out *[]ref.PropKV) {
	switch v.K {
	case ref.Map:
		for _, e := range v.M {
			p := e.K
			if prefix != "" {
				p = prefix + "." + e.K
			}
			c14Flatten(e.V, p, brackets, out)
		}
	case ref.Seq:
		for i, e := range v.A {
			p := strconv.Itoa(i)
			if prefix != "" {
				if brackets {
					p = fmt.Sprintf("%s[%d]", prefix, i)
				} else {
					p = prefix + "." + p
				}
			}
			c14Flatten(e, p, brackets, out)
		}
	default:
		*out = append(*out, ref.PropKV{K: prefix, V: c14ScalarText(v)})
	}
}

func c14PropPath(key string) []any {
	parts := strings.Split(key, ".")
	out := make([]any, len(parts))
	for i, p := range parts {
		if n, err := strconv.ParseInt(p, 10, 32); err == nil {
			out[i] = int(n)
		} else {
			out[i] = p
		}
	}
	return out
}

// c14PropsBuild gives an ordered pair list its meaning (documented mapping: '.' nests, integer
// segments are sequence positions, every value is a string).
func c14PropsBuild(pairs []ref.PropKV, glob bool) (*ref.V, error) {
	root := &ref.V{K: ref.Map, M: []ref.KV{}}
	for _, kv := range pairs {
		if err := ref.AssignPath(root, c14PropPath(kv.K), ref.StrV(kv.V), glob); err != nil {
			return nil, err
		}
	}
	return root, nil
}

func c14PairsEqual(a, b []ref.PropKV) bool {
	if len(a) != len(b) {
		return false
	}
	for i := range a {
		if a[i] != b[i] {
			return false
		}
	}
	return true
}

func c14PairsStr(p []ref.PropKV) string {
	var sb strings.Builder
	for _, kv := range p {
		fmt.Fprintf(&sb, "%q=%q ", kv.K, kv.V)
	}
	return clipStr(sb.String(), 700)
}

func c14PropsNontrivial(pairs []ref.PropKV) bool {
	for _, kv := range pairs {
		if !c14PlainWord(kv.K) || !c14PlainWord(kv.V) {
			return true
		}
	}
	return false
}

type c14PropsQuirks struct{ keyEq, keyCmt, valLead, valSep bool }

func c14PropsFeatures(pairs []ref.PropKV, sep string) (q c14PropsQuirks) {
	for _, kv := range pairs {
		if strings.Trim(sep, " \t") == "" && kv.V != "" && (kv.V[0] == '=' || kv.V[0] == ':') {
			q.valSep = true
		}
		if strings.Contains(kv.K, "=") {
			q.keyEq = true
		}
		if kv.K != "" && (kv.K[0] == '#' || kv.K[0] == '!') {
			q.keyCmt = true
		}
		if strings.HasPrefix(kv.V, " ") {
			q.valLead = true
		}
	}
	return
}

// c14PropsQuirkRead: what an independent reader sees when the pairs are written the way the
// known-defective encoder writes them (only the switches whose feature is present are on).
func c14PropsQuirkRead(pairs []ref.PropKV, sep string, q c14PropsQuirks) ([]ref.PropKV, string) {
	st := &ref.PropsStyle{FixedSep: sep, QuirkKeyEqualsRaw: q.keyEq, QuirkKeyCommentRaw: q.keyCmt, QuirkValueLeadRaw: q.valLead, QuirkValueSepRaw: q.valSep}
	text := ref.PropsWrite(pairs, st)
	got, _ := ref.PropsRead(text)
	return got, text
}

func (q c14PropsQuirks) id() string {
	switch {
	case q.keyEq || q.keyCmt:
		return "C14-props-key-unescaped"
	case q.valLead:
		return "C14-props-value-leading-space"
	case q.valSep:
		return "C14-props-blank-separator-value"
	}
	return ""
}

// c14PropsCalm keeps the two known encoder defects (keys with '=' / leading '#','!'; values with
// leading blanks) down to a small share of the cases so that the rest of the domain is observed cleanly.
func c14PropsCalm(c *c14ctx, v *ref.V) {
	if c.ch(10) != 0 {
		c14RenameKeys(v, func(k string) string {
			k = strings.ReplaceAll(k, "=", "e")
			if k != "" && (k[0] == '#' || k[0] == '!') {
				k = "h" + k[1:]
			}
			return k
		})
	}
	// a key cut at its unescaped '=' must not collide with a sibling (the two defects would interact)
	v.Walk(nil, func(_ []any, n *ref.V) {
		if n.K != ref.Map {
			return
		}
		for i := range n.M {
			if j := strings.IndexByte(n.M[i].K, '='); j >= 0 {
				// (... nor be the spelling of an integer: read back, that would be a position in an array)
				_, intErr := strconv.Atoi(strings.TrimSpace(n.M[i].K[:j]))
				if _, clash := n.Get(n.M[i].K[:j]); (clash || intErr == nil) && j > 0 {
					k := strings.ReplaceAll(n.M[i].K, "=", "e") + "_"
					for {
						if _, dup := n.Get(k); !dup {
							break
						}
						k += "_"
					}
					n.M[i].K = k
				}
			}
		}
	})
	if c.ch(10) != 0 {
		v.Walk(nil, func(_ []any, n *ref.V) {
			if n.K == ref.Str && strings.HasPrefix(n.S, " ") {
				n.S = "x" + n.S
			}
		})
	}
}

// c14PropsExpansionHook: the properties library validates "${...}" references in every value when
// a text is loaded AND when a value is set, although neither yq nor the format knows such a thing.
func c14PropsExpansionHook(c *c14ctx, pairs []ref.PropKV) func(string) bool {
	return func(msg string) bool {
		has := false
		for _, kv := range pairs {
			has = has || strings.Contains(kv.V, "${")
		}
		if has && (strings.Contains(msg, "malformed expression") || strings.Contains(msg, "circular reference in:") || strings.Contains(msg, "expansion too deep")) {
			c.finding("C14-props-dollar-brace-check", "a value containing \"${\" is rejected: %s", clipStr(strings.TrimSpace(msg), 200))
			return true
		}
		return false
	}
}

var c14PlainVals = []string{"Mike Wazowski", "list entry", "x y", "a", "cat", "two  blanks", "dog", "1", "true", "trail ", "a b c"}

func c14PropsEncode(c *c14ctx) {
	prefs := yqlib.NewDefaultPropertiesPreferences()
	var flags []string
	switch c.ch(6) {
	case 0:
		prefs.KeyValueSeparator = "="
	case 1:
		prefs.KeyValueSeparator = ":"
	case 2:
		prefs.KeyValueSeparator = " : "
	case 3:
		prefs.KeyValueSeparator = " "
	}
	if prefs.KeyValueSeparator != " = " {
		flags = append(flags, "--properties-separator="+prefs.KeyValueSeparator)
		c.tag("pref:separator")
	}
	v := gen.C14PropsValue(c.r, 3, false)
	c14PropsCalm(c, v)
	if c.ch(6) == 0 {
		prefs.UnwrapScalar = false
		flags = append(flags, "--unwrapScalar=false")
		c.tag("pref:unwrapScalar=false")
		v.Walk(nil, func(_ []any, n *ref.V) {
			if n.K == ref.Str {
				n.S = c14PlainVals[c.ch(len(c14PlainVals))]
			}
		})
	}
	if c.ch(5) == 0 {
		prefs.UseArrayBrackets = true
		flags = append(flags, "--properties-array-brackets")
		c.tag("pref:array-brackets")
		// with this preference '[' and ']' in a key are as ambiguous as '.' is
		c14RenameKeys(v, func(k string) string { return strings.NewReplacer("[", "(", "]", ")").Replace(k) })
	}
	var want []ref.PropKV
	c14Flatten(v, "", prefs.UseArrayBrackets, &want)
	if !prefs.UnwrapScalar {
		for i := range want {
			if strings.Contains(want[i].V, " ") {
				want[i].V = `"` + want[i].V + `"`
			}
		}
	}
	input := v.JSON()
	c.cs["input"] = input
	c.cs["flags"] = flags
	c.sig = fmt.Sprintf("%x", v.ShapeHash())
	c.nt = c14PropsNontrivial(want)
	c.tag("fmt:props:encode")
	c14PropsTags(c, want)
	c.errHook = c14PropsExpansionHook(c, want)
	text, ok := c.evalOK("props encode", ".", input, c14YAMLDec(), yqlib.NewPropertiesEncoder(prefs))
	if !ok {
		return
	}
	c.cs["yq_output"] = clipStr(text, 1500)
	if c.bin && !c.sameAsBinary(text, input, append([]string{"-o=props"}, append(flags, ".")...)...) {
		return
	}
	got, err := ref.PropsRead(text)
	if err != nil {
		c.violated("yq -o=props output is not a well-formed properties text: %v\noutput: %s", err, clipStr(text, 800))
		return
	}
	if c14PairsEqual(got, want) {
		c.held("%d pairs read back by the independent reader, e.g. %s", len(want), c14PairsStr(want[:1]))
		return
	}
	q := c14PropsFeatures(want, prefs.KeyValueSeparator)
	if id := q.id(); id != "" {
		if qr, _ := c14PropsQuirkRead(want, prefs.KeyValueSeparator, q); c14PairsEqual(got, qr) {
			c.finding(id, "independent reader sees %s instead of %s\nyq output: %s", c14PairsStr(got), c14PairsStr(want), clipStr(text, 600))
			return
		}
	}
	c.violated("an independent .properties reader does not read yq's output back to the value\nexpected: %s\nread:     %s\nyq output: %s\ninput: %s",
		c14PairsStr(want), c14PairsStr(got), clipStr(text, 800), clipStr(input, 600))
}

func c14PropsTags(c *c14ctx, pairs []ref.PropKV) {
	for _, kv := range pairs {
		if strings.Contains(kv.K, ".") || strings.Contains(kv.K, "[") {
			c.tag("props:nested_path")
		}
		if strings.ContainsAny(kv.K, " ") {
			c.tag("props:key_space")
		}
		if strings.ContainsAny(kv.K, ":=") {
			c.tag("props:key_separator_char")
		}
		if kv.K != "" && (kv.K[0] == '#' || kv.K[0] == '!') {
			c.tag("props:key_comment_char")
		}
		if strings.ContainsAny(kv.V, "\n\r\t\f") || strings.ContainsAny(kv.K, "\t\f") {
			c.tag("props:escape_ctl")
		}
		if strings.Contains(kv.V, "\\") || strings.Contains(kv.K, "\\") {
			c.tag("props:escape_backslash")
		}
		if strings.HasPrefix(kv.V, " ") {
			c.tag("props:value_leading_space")
		}
		if strings.HasSuffix(kv.V, " ") {
			c.tag("props:value_trailing_space")
		}
		if kv.V == "" {
			c.tag("props:empty_value")
		}
		for _, r := range kv.K + kv.V {
			if r > 0xFFFF {
				c.tag("props:non_bmp")
			} else if r >= 0x80 {
				c.tag("props:non_ascii")
			}
		}
	}
}

func c14PropsDecode(c *c14ctx) {
	v := gen.C14PropsValue(c.r, 3, true)
	var pairs []ref.PropKV
	c14Flatten(v, "", false, &pairs)
	st := &ref.PropsStyle{Choose: c.ch, UnicodeEscapes: c.ch(2) == 0, Continuations: c.ch(2) == 0, Comments: c.ch(2) == 0, CRLF: c.ch(8) == 0}
	st.PlainContOnly = st.CRLF // see finding C14-props-crlf-continuation: keep the mis-read fragments simple
	glob, surrogate := false, false
	switch c.ch(25) {
	case 0:
		// a key with glob metacharacters that matches an earlier top-level key
		for _, kv := range pairs {
			if len(kv.K) > 1 && c14PlainWord(kv.K) {
				gk := []string{kv.K[:len(kv.K)-1] + "*", "*", kv.K[:len(kv.K)-1] + "?"}[c.ch(3)]
				pairs = append(pairs, ref.PropKV{K: gk, V: "glob-value"})
				glob = true
				st.Comments = false // a commented entry also RENAMES the matched keys; kept out to stay exact
				c.tag("props:glob_key")
				break
			}
		}
	case 1:
		st.SurrogateEscapes = true
		pairs[c.ch(len(pairs))].V += "😀"
		surrogate = true
		c.tag("props:surrogate_pair_escape")
	}
	if !glob && c.ch(4) == 0 && len(pairs) > 1 {
		c.r.Shuffle(len(pairs), func(i, j int) { pairs[i], pairs[j] = pairs[j], pairs[i] })
		c.tag("props:shuffled_entries")
	}
	want, err := c14PropsBuild(pairs, false)
	if err != nil {
		c.incon("ground-truth builder rejected its own pairs: %v", err)
		return
	}
	text := ref.PropsWrite(pairs, st)
	c.cs["input"] = text
	c.sig = fmt.Sprintf("%x", want.ShapeHash())
	c.nt = c14PropsNontrivial(pairs)
	c.tag("fmt:props:decode")
	c14PropsTags(c, pairs)
	if st.Continuations && (strings.Contains(text, "\\\n    ") || strings.Contains(text, "\\\r\n    ")) {
		c.tag("props:line_continuation")
	}
	if st.CRLF {
		c.tag("props:crlf")
	}
	if st.Comments {
		c.tag("props:comments")
	}
	if back, err := ref.PropsRead(text); err != nil || !c14PairsEqual(back, pairs) {
		c.incon("generator disagreement: the harness's reader does not read the harness's writer back (%v)\ntext: %s", err, clipStr(text, 600))
		return
	}
	expHook := c14PropsExpansionHook(c, pairs)
	c.errHook = func(msg string) bool {
		if expHook(msg) {
			return true
		}
		if st.CRLF && c.tags["props:line_continuation"] && strings.Contains(msg, "properties: Line ") {
			if qr, err := ref.PropsRead(c14DropBackslashCR(text)); err == nil {
				for _, kv := range qr {
					if kv.K == "" {
						c.finding("C14-props-crlf-continuation", "a continuation line after CR LF is read as an entry of its own and has no key: %s\ntext: %q", strings.TrimSpace(msg), clipStr(text, 400))
						return true
					}
				}
			}
		}
		return false
	}
	out, ok := c.evalOK("props decode", ".", text, yqlib.NewPropertiesDecoder(), c14JSONEnc())
	if !ok {
		return
	}
	if c.bin && !c.sameAsBinary(out, text, "-p=props", "-o=json", "-I0", ".") {
		return
	}
	got, ok := c14OneJSON(c, "props decode", out)
	if !ok {
		return
	}
	if ref.Equal(got, want) {
		c.held("%d entries decoded to %s", len(pairs), clipStr(want.JSON(), 300))
		return
	}
	// known deviations compose: re-read the text the way the defective reader does, then rebuild
	crlfCont := st.CRLF && c.tags["props:line_continuation"]
	// (a key with `*` / `?` used to be decoded as a pattern over its earlier siblings: repaired in /repo, no longer excused)
	if surrogate || crlfCont {
		qtext := text
		if crlfCont {
			qtext = c14DropBackslashCR(text)
		}
		if qr, err := ref.PropsRead(qtext); err == nil {
			if surrogate {
				// (the quirk reader must see the escapes: write them back as the replacement pairs)
				for i := range qr {
					qr[i] = ref.PropKV{K: c14SurrogateQuirk(qr[i].K), V: c14SurrogateQuirk(qr[i].V)}
				}
			}
			// (a continuation fragment read as an entry of its own may itself be a glob key)
			if qv, err := c14PropsBuild(qr, false); err == nil && ref.Equal(got, qv) {
				id := "C14-props-crlf-continuation"
				if surrogate {
					id = "C14-props-surrogate-escape"
				}
				c.finding(id, "known reader defects (glob key=%v, surrogate escapes=%v, CR LF continuation=%v) explain the result exactly\nexpected: %s\ngot:      %s\ntext: %q",
					glob, surrogate, crlfCont, clipStr(want.JSON(), 400), clipStr(got.JSON(), 400), clipStr(text, 500))
				return
			}
		}
	}
	c.violated("yq -p=props does not yield the value the text denotes\nexpected: %s\ngot:      %s\ntext: %s", clipStr(want.JSON(), 800), clipStr(got.JSON(), 800), clipStr(text, 800))
}

// c14DropBackslashCR removes "\<CR>" of every continuation (odd run of backslashes before CR LF).
func c14DropBackslashCR(text string) string {
	var sb strings.Builder
	for i := 0; i < len(text); i++ {
		if text[i] == '\\' {
			j := i
			for j < len(text) && text[j] == '\\' {
				j++
			}
			n := j - i
			if n%2 == 1 && j+1 < len(text) && text[j] == '\r' && text[j+1] == '\n' {
				sb.WriteString(text[i : j-1])
				i = j // skip the CR as well; the LF ends the line
				continue
			}
			sb.WriteString(text[i:j])
			i = j - 1
			continue
		}
		sb.WriteByte(text[i])
	}
	return sb.String()
}

func c14SurrogateQuirk(s string) string {
	var sb strings.Builder
	for _, r := range s {
		if r > 0xFFFF {
			sb.WriteString("��")
		} else {
			sb.WriteRune(r)
		}
	}
	return sb.String()
}

func c14PropsPair(c *c14ctx) {
	v := gen.C14PropsValue(c.r, 3, true)
	c14PropsCalm(c, v)
	input := v.JSON()
	c.cs["input"] = input
	c.cs["expr"] = "to_props | from_props"
	var pairs []ref.PropKV
	c14Flatten(v, "", false, &pairs)
	c.sig = fmt.Sprintf("%x", v.ShapeHash())
	c.nt = c14PropsNontrivial(pairs)
	c.tag("pair:to_props|from_props")
	c14PropsTags(c, pairs)
	expr := "to_props | from_props"
	if c.ch(4) == 0 {
		expr = "@props | @propsd"
	}
	var out string
	qpairs := pairs
	viaBinary := c.bin
	// yq cannot read its own output back when an unescaped '=' / '#' / '!' leaves an entry without key
	expHook := c14PropsExpansionHook(c, pairs)
	emptyKeyQuirk := func(msg string) bool {
		if expHook(msg) {
			return true
		}
		q := c14PropsFeatures(pairs, " = ")
		if !(q.keyEq || q.keyCmt) || !strings.Contains(msg, "properties: Line ") {
			return false
		}
		qr, _ := c14PropsQuirkRead(pairs, " = ", q)
		for _, kv := range qr {
			if kv.K == "" {
				c.finding("C14-props-key-unescaped", "%s fails on yq's own to_props output (%s)\ninput: %s", expr, strings.TrimSpace(msg), clipStr(input, 500))
				return true
			}
		}
		return false
	}
	if viaBinary {
		// the real CLI with -o=json (the only way to read the result back exactly)
		o, serr, exit, ok := c.binary(input, "-o=json", "-I0", expr)
		if !ok {
			return
		}
		if exit != 0 {
			if !emptyKeyQuirk(serr) {
				c.violated("yq -o=json '%s' failed: exit=%d %s\ninput: %s", expr, exit, clipStr(serr, 300), clipStr(input, 500))
			}
			return
		}
		out = o
	} else {
		o, err, pan := c.eval(expr, input, c14YAMLDec(), c14JSONEnc())
		if pan != nil {
			c.violated("%s panicked: %s\n%s", expr, pan.Value, clipStr(pan.Stack, 500))
			return
		}
		if err != nil {
			if !emptyKeyQuirk(err.Error()) {
				c.violated("%s failed on an in-domain input: %v\ninput: %s", expr, err, clipStr(input, 600))
			}
			return
		}
		out = o
	}
	got, ok := c14OneJSON(c, "to_props|from_props", out)
	if !ok {
		return
	}
	if ref.Equal(got, v) {
		c.held("identity on %d leaves", len(pairs))
		return
	}
	// known deviations, reproduced exactly through the quirk writer and the independent reader
	leak := false
	if viaBinary {
		qpairs = make([]ref.PropKV, len(pairs))
		for i, kv := range pairs {
			qpairs[i] = kv
			if strings.Contains(kv.V, " ") {
				qpairs[i].V = strconv.Quote(kv.V)
				leak = true
			}
		}
	}
	q := c14PropsFeatures(qpairs, " = ")
	id := q.id()
	if leak {
		id = "C14-to-props-unwrap-leak"
	}
	if id != "" {
		qr, _ := c14PropsQuirkRead(qpairs, " = ", q)
		if qv, err := c14PropsBuild(qr, false); err == nil && ref.Equal(got, qv) {
			c.finding(id, "%s is not the identity\nexpected: %s\ngot:      %s", expr, clipStr(v.JSON(), 500), clipStr(got.JSON(), 500))
			return
		}
	}
	c.violated("%s is not the identity (binary=%v)\nexpected: %s\ngot:      %s", expr, viaBinary, clipStr(v.JSON(), 800), clipStr(got.JSON(), 800))
}

// ---- CSV / TSV ---------------------------------------------------------------------------

func c14Sep(c *c14ctx, tsv bool) (sep rune, prefs yqlib.CsvPreferences, flags []string, fmtName string) {
	if tsv {
		return '\t', yqlib.NewDefaultTsvPreferences(), nil, "tsv"
	}
	prefs = yqlib.NewDefaultCsvPreferences()
	if c.ch(4) == 0 {
		prefs.Separator = []rune{';', '|', ':'}[c.ch(3)]
		flags = append(flags, "--csv-separator="+string(prefs.Separator))
		c.tag("pref:csv-separator")
	}
	return prefs.Separator, prefs, flags, "csv"
}

func c14CSVFieldTags(c *c14ctx, f string, sep rune) bool {
	nt := false
	if strings.ContainsRune(f, sep) {
		c.tag("csv:separator_in_field")
		nt = true
	}
	if strings.Contains(f, `"`) {
		c.tag("csv:quote_in_field")
		nt = true
	}
	if strings.ContainsAny(f, "\n\r") {
		c.tag("csv:newline_in_field")
		nt = true
	}
	if f == "" {
		c.tag("csv:empty_field")
	}
	if f != "" && (f[0] == ' ' || f[len(f)-1] == ' ') {
		c.tag("csv:blank_edge")
		nt = true
	}
	return nt
}

func c14CSVScalar(c *c14ctx) *ref.V {
	switch c.ch(10) {
	case 0:
		return ref.IntV(int64(c.ch(2000) - 1000))
	case 1:
		return ref.FloatV(float64(c.ch(2000)-1000) / 8)
	case 2:
		return ref.BoolV(c.ch(2) == 0)
	case 3:
		return ref.NullV()
	case 4:
		return ref.StrV("")
	}
	return ref.StrV(gen.C14Text(c.r))
}

func c14CSVEncode(c *c14ctx, tsv bool) {
	sep, prefs, flags, name := c14Sep(c, tsv)
	var v *ref.V
	var want [][]string
	ncol := 1 + c.ch(4)
	nrow := 1 + c.ch(4)
	switch shape := c.ch(10); {
	case shape < 5:
		// array of flat objects; header = keys of the first one (documented)
		c.tag("csv:objects")
		var keys []string
		for len(keys) < ncol {
			k := gen.C14Text(c.r)
			dup := false
			for _, o := range keys {
				dup = dup || o == k
			}
			if !dup {
				keys = append(keys, k)
			}
		}
		want = append(want, keys)
		v = &ref.V{K: ref.Seq}
		for i := 0; i < nrow; i++ {
			obj := &ref.V{K: ref.Map, M: []ref.KV{}}
			row := make([]string, len(keys))
			order := c.r.Perm(len(keys))
			hetero := i > 0 && c.ch(4) == 0
			if !hetero {
				order = nil
			}
			idxs := make([]int, len(keys))
			for j := range idxs {
				idxs[j] = j
			}
			if hetero {
				c.tag("csv:heterogeneous_objects")
				idxs = order
			}
			for _, j := range idxs {
				if hetero && c.ch(3) == 0 {
					continue // missing key -> blank
				}
				s := c14CSVScalar(c)
				obj.M = append(obj.M, ref.KV{K: keys[j], V: s})
				row[j] = c14ScalarText(s)
			}
			if hetero && c.ch(2) == 0 {
				obj.M = append(obj.M, ref.KV{K: "extra-not-in-first", V: ref.StrV("dropped")})
			}
			v.A = append(v.A, obj)
			want = append(want, row)
		}
	case shape < 9:
		c.tag("csv:rows")
		v = &ref.V{K: ref.Seq}
		for i := 0; i < nrow; i++ {
			n := ncol
			if c.ch(4) == 0 {
				n = 1 + c.ch(5) // ragged rows are documented
			}
			rowV := &ref.V{K: ref.Seq, A: []*ref.V{}}
			var row []string
			for j := 0; j < n; j++ {
				s := c14CSVScalar(c)
				rowV.A = append(rowV.A, s)
				row = append(row, c14ScalarText(s))
			}
			v.A = append(v.A, rowV)
			want = append(want, row)
		}
	default:
		c.tag("csv:single_row")
		v = &ref.V{K: ref.Seq}
		var row []string
		for j := 0; j < ncol; j++ {
			s := c14CSVScalar(c)
			v.A = append(v.A, s)
			row = append(row, c14ScalarText(s))
		}
		want = append(want, row)
	}
	input := v.JSON()
	c.cs["input"] = input
	c.cs["flags"] = flags
	c.sig = fmt.Sprintf("%x", v.ShapeHash())
	c.tag("fmt:" + name + ":encode")
	hasCR := false
	for _, row := range want {
		for _, f := range row {
			if c14CSVFieldTags(c, f, sep) {
				c.nt = true
			}
			hasCR = hasCR || strings.Contains(f, "\r")
		}
	}
	text, ok := c.evalOK(name+" encode", ".", input, c14YAMLDec(), yqlib.NewCsvEncoder(prefs))
	if !ok {
		return
	}
	c.cs["yq_output"] = clipStr(text, 1500)
	if c.bin && !c.sameAsBinary(text, input, append([]string{"-o=" + name}, append(flags, ".")...)...) {
		return
	}
	got, _, err := ref.CSVRead(text, sep)
	if err != nil {
		c.violated("yq -o=%s output is not well-formed: %v\noutput: %q", name, err, clipStr(text, 800))
		return
	}
	if !c14RecordsEqual(got, want) {
		c.violated("an independent RFC 4180 reader does not read yq's %s output back to the rows (number of records %d, expected %d incl. header)\nexpected: %q\nread:     %q\noutput: %q\ninput: %s",
			name, len(got), len(want), want, got, clipStr(text, 800), clipStr(input, 600))
		return
	}
	if text != "" && !strings.HasSuffix(text, "\n") {
		c.violated("%s output does not end with a record terminator: %q", name, clipStr(text, 300))
		return
	}
	// second reader: encoding/csv (it drops blank lines and rewrites CRLF inside fields, so only when neither occurs)
	blank := false
	for _, row := range want {
		blank = blank || (len(row) == 1 && row[0] == "")
	}
	if !hasCR && !blank {
		rd := csv.NewReader(strings.NewReader(text))
		rd.Comma = sep
		rd.FieldsPerRecord = -1
		recs, err := rd.ReadAll()
		if err != nil || !c14RecordsEqual(recs, want) {
			c.violated("encoding/csv does not read yq's %s output back to the rows (%v)\nexpected: %q\nread:     %q\noutput: %q", name, err, want, recs, clipStr(text, 800))
			return
		}
		c.tag("csv:second_reader")
	}
	c.held("%d records read back by the independent reader, first: %q", len(want), want[0])
}

func c14RecordsEqual(a, b [][]string) bool {
	if len(a) != len(b) {
		return false
	}
	for i := range a {
		if len(a[i]) != len(b[i]) {
			return false
		}
		for j := range a[i] {
			if a[i][j] != b[i][j] {
				return false
			}
		}
	}
	return true
}

// c14SafeStr: a string whose only YAML reading is the plain string itself: starts with a letter,
// is not a null/bool word, has no ": " / " #" / trailing ':' and no control characters but \n.
func c14SafeStr(c *c14ctx, hard bool, sep rune) string {
	words := []string{"apple", "Bobo", "dog", "Samantha's Rabbit", "x y", "a1", "zed", "élan", "日本語", "cat😀", "NULLx", "nully", "truex", "a-b", "a_b", "v1.2.3", "e10", "o'clock", "a/b", "p(q)", "a*b", "a&b", "a!b", "a%b", "a@b", "a|b", "a>b", "a?b", "a=b"}
	s := words[c.ch(len(words))]
	if hard {
		switch c.ch(7) {
		case 0:
			s += string(sep) + "after"
		case 1:
			s += `"quoted"`
		case 2:
			s += "\nsecond line"
		case 3:
			s += `""` + string(sep) + "\n\""
		case 4:
			s += "  two blanks  "
		case 5:
			s += ",;|\t."
		case 6:
			s = s + ` "` + string(sep) + `" ` + s
		}
	}
	return s
}

type c14Cell2 struct {
	text string
	v    *ref.V
	vNo  *ref.V // meaning with auto-parse off
}

func c14CSVCell(c *c14ctx, sep rune, typed, structured bool) c14Cell2 {
	k := c.ch(10)
	switch {
	case typed && k == 0:
		n := int64(c.ch(2000) - 1000)
		t := strconv.FormatInt(n, 10)
		c.tag("csv:typed_int")
		return c14Cell2{t, ref.IntV(n), ref.IntV(n)}
	case typed && k == 1:
		f := float64(c.ch(2000)-1000)/8 + 0.0625
		t := strconv.FormatFloat(f, 'f', -1, 64)
		if c.ch(3) == 0 {
			t = strconv.FormatFloat(f, 'e', -1, 64)
		}
		c.tag("csv:typed_float")
		return c14Cell2{t, ref.FloatV(f), ref.FloatV(f)}
	case typed && k == 2:
		b := c.ch(2) == 0
		c.tag("csv:typed_bool")
		return c14Cell2{strconv.FormatBool(b), ref.BoolV(b), ref.BoolV(b)}
	case typed && k == 3:
		c.tag("csv:typed_null")
		t := []string{"", "null", "~", ""}[c.ch(4)]
		return c14Cell2{t, ref.NullV(), ref.NullV()}
	case structured && k == 4:
		c.tag("csv:structured_field")
		switch c.ch(3) {
		case 0:
			return c14Cell2{"cool: true", ref.MapV(ref.KV{K: "cool", V: ref.BoolV(true)}), ref.StrV("cool: true")}
		case 1:
			return c14Cell2{"[1, x]", ref.SeqV(ref.IntV(1), ref.StrV("x")), ref.StrV("[1, x]")}
		default:
			return c14Cell2{`{"a": "b"}`, ref.MapV(ref.KV{K: "a", V: ref.StrV("b")}), ref.StrV(`{"a": "b"}`)}
		}
	}
	s := c14SafeStr(c, c.ch(3) == 0, sep)
	return c14Cell2{s, ref.StrV(s), ref.StrV(s)}
}

func c14CSVDecode(c *c14ctx, tsv bool) {
	sep, prefs, flags, name := c14Sep(c, tsv)
	if c.ch(3) == 0 {
		prefs.AutoParse = false
		flags = append(flags, "--"+name+"-auto-parse=false")
		c.tag("pref:auto-parse=false")
	}
	ncol := 1 + c.ch(4)
	nrow := c.ch(5)
	if nrow == 0 && c.ch(3) != 0 {
		nrow = 1
	}
	var header []string
	for len(header) < ncol {
		k := c14SafeStr(c, c.ch(4) == 0, sep)
		if c.ch(3) == 0 {
			k = []string{"name", "numberOfCats", "likesApples", "height", "1", "true", "null", "a b", " lead", "x: y", "#h", "[k]"}[c.ch(12)]
		}
		dup := false
		for _, o := range header {
			dup = dup || o == k
		}
		if !dup {
			header = append(header, k)
		}
	}
	records := [][]string{header}
	want := &ref.V{K: ref.Seq, A: []*ref.V{}}
	crlfField := c.ch(30) == 0 && nrow > 0
	for i := 0; i < nrow; i++ {
		row := make([]string, ncol)
		obj := &ref.V{K: ref.Map, M: []ref.KV{}}
		for j := 0; j < ncol; j++ {
			cell := c14CSVCell(c, sep, true, true)
			if crlfField && i == 0 && j == 0 {
				cell = c14Cell2{"line one\r\nline two", ref.StrV("line one\r\nline two"), ref.StrV("line one\r\nline two")}
				c.tag("csv:crlf_in_field")
			}
			row[j] = cell.text
			if prefs.AutoParse {
				obj.M = append(obj.M, ref.KV{K: header[j], V: cell.v})
			} else {
				obj.M = append(obj.M, ref.KV{K: header[j], V: cell.vNo})
			}
		}
		records = append(records, row)
		want.A = append(want.A, obj)
	}
	st := &ref.CSVStyle{Choose: c.ch, QuoteAll: c.ch(6) == 0, CRLF: c.ch(4) == 0, NoFinal: c.ch(5) == 0}
	text := ref.CSVWrite(records, sep, st)
	if c.ch(10) == 0 {
		text = "\ufeff" + text
		c.tag("csv:bom")
	}
	if st.CRLF {
		c.tag("csv:crlf_terminators")
	}
	if st.QuoteAll {
		c.tag("csv:quote_all")
	}
	if nrow == 0 {
		c.tag("csv:header_only")
	}
	c.cs["input"] = text
	c.cs["flags"] = flags
	c.sig = fmt.Sprintf("%x", want.ShapeHash())
	c.tag("fmt:" + name + ":decode")
	for _, row := range records {
		for _, f := range row {
			if c14CSVFieldTags(c, f, sep) {
				c.nt = true
			}
		}
	}
	if c.tags["csv:typed_int"] || c.tags["csv:typed_float"] || c.tags["csv:typed_bool"] || c.tags["csv:typed_null"] || c.tags["csv:structured_field"] {
		c.nt = true
	}
	if back, _, err := ref.CSVRead(strings.TrimPrefix(text, "\ufeff"), sep); err != nil || !c14RecordsEqual(back, records) {
		c.incon("generator disagreement: the harness's CSV reader does not read the harness's writer back (%v)\ntext: %q", err, clipStr(text, 600))
		return
	}
	out, ok := c.evalOK(name+" decode", ".", text, yqlib.NewCSVObjectDecoder(prefs), c14JSONEnc())
	if !ok {
		return
	}
	if c.bin && !c.sameAsBinary(out, text, append([]string{"-p=" + name, "-o=json", "-I0"}, append(flags, ".")...)...) {
		return
	}
	got, ok := c14OneJSON(c, name+" decode", out)
	if !ok {
		return
	}
	if c14Eq(got, want, false) {
		c.held("%d data rows x %d columns decoded to %s", nrow, ncol, clipStr(want.JSON(), 300))
		return
	}
	if crlfField {
		q := want.Copy()
		q.A[0].M[0].V = ref.StrV("line one\nline two")
		if c14Eq(got, q, false) {
			c.finding("C14-csv-crlf-in-field", "CRLF inside a quoted field came out as LF\nexpected: %s\ngot:      %s", clipStr(want.JSON(), 400), clipStr(got.JSON(), 400))
			return
		}
	}
	c.violated("yq -p=%s does not yield the rows the text denotes\nexpected: %s\ngot:      %s\ntext: %q", name, clipStr(want.JSON(), 800), clipStr(got.JSON(), 800), clipStr(text, 800))
}

func c14CSVPair(c *c14ctx, tsv bool) {
	sep := ','
	name := "csv"
	expr := []string{"@csv | from_csv", "to_csv | @csvd"}[c.ch(2)]
	if tsv {
		sep, name = '\t', "tsv"
		expr = []string{"@tsv | from_tsv", "to_tsv | @tsvd"}[c.ch(2)]
	}
	ncol := 1 + c.ch(4)
	nrow := 1 + c.ch(4)
	var header []string
	for len(header) < ncol {
		k := c14SafeStr(c, c.ch(4) == 0, sep)
		dup := false
		for _, o := range header {
			dup = dup || o == k
		}
		if !dup {
			header = append(header, k)
		}
	}
	v := &ref.V{K: ref.Seq, A: []*ref.V{}}
	for i := 0; i < nrow; i++ {
		obj := &ref.V{K: ref.Map, M: []ref.KV{}}
		for j := 0; j < ncol; j++ {
			cell := c14CSVCell(c, sep, true, false)
			if cell.v.K == ref.Null && ncol == 1 {
				cell.v = ref.IntV(0) // a one-column row holding only an empty field is a blank line
			}
			obj.M = append(obj.M, ref.KV{K: header[j], V: cell.v})
			if c14CSVFieldTags(c, c14ScalarText(cell.v), sep) {
				c.nt = true
			}
		}
		v.A = append(v.A, obj)
	}
	for _, h := range header {
		if c14CSVFieldTags(c, h, sep) {
			c.nt = true
		}
	}
	if c.tags["csv:typed_int"] || c.tags["csv:typed_float"] || c.tags["csv:typed_bool"] || c.tags["csv:typed_null"] {
		c.nt = true
	}
	input := v.JSON()
	c.cs["input"] = input
	c.cs["expr"] = expr
	c.sig = fmt.Sprintf("%x", v.ShapeHash())
	c.tag("pair:" + strings.ReplaceAll(expr, " ", ""))
	var out string
	if c.bin {
		o, serr, exit, ok := c.binary(input, "-o=json", "-I0", expr)
		if !ok {
			return
		}
		if exit != 0 {
			c.violated("yq -o=json '%s' failed: exit=%d %s\ninput: %s", expr, exit, clipStr(serr, 300), clipStr(input, 500))
			return
		}
		out = o
	} else {
		o, ok := c.evalOK(expr, expr, input, c14YAMLDec(), c14JSONEnc())
		if !ok {
			return
		}
		out = o
	}
	got, ok := c14OneJSON(c, expr, out)
	if !ok {
		return
	}
	if c14Eq(got, v, false) {
		c.held("identity on %d rows x %d columns", nrow, ncol)
		return
	}
	c.violated("%s is not the identity\nexpected: %s\ngot:      %s", expr, clipStr(v.JSON(), 800), clipStr(got.JSON(), 800))
	_ = name
}

// ---- base64 / URI ------------------------------------------------------------------------

func c14ByteString(c *c14ctx) string {
	switch c.ch(4) {
	case 0:
		return gen.C14Text(c.r)
	case 1:
		// length sweep: all three padding classes
		n := c.ch(13)
		var sb strings.Builder
		for i := 0; i < n; i++ {
			sb.WriteByte("abcXYZ019 +/=-_.~%&?#"[c.ch(21)])
		}
		return sb.String()
	default:
		n := c.ch(40)
		var sb strings.Builder
		for i := 0; i < n; i++ {
			sb.WriteRune(gen.Rune(c.r))
		}
		return sb.String()
	}
}

func c14Base64(c *c14ctx) {
	s := c14ByteString(c)
	input := ref.QuoteJSON(s)
	c.cs["string"] = s
	c.sig = fmt.Sprintf("%x", hashStr(s))
	c.nt = len(s) > 0
	c.tag("fmt:base64:encode", "fmt:base64:decode", "pair:@base64|@base64d", fmt.Sprintf("base64:len%%3=%d", len(s)%3))
	// ENCODE
	enc, ok := c.evalOK("base64 encode", ".", input, c14YAMLDec(), yqlib.NewBase64Encoder())
	if !ok {
		return
	}
	raw, err := base64.StdEncoding.Strict().DecodeString(enc)
	if err != nil || string(raw) != s {
		c.violated("yq -o=base64 of %q printed %q, which a strict RFC 4648 reader maps to %q (%v)", s, enc, raw, err)
		return
	}
	if c.bin && !c.sameAsBinary(enc, input, "-o=base64", ".") {
		return
	}
	// in-expression form must agree with the output format
	enc2, ok := c.evalOK("@base64", "@base64", input, c14YAMLDec(), c14JSONEnc())
	if !ok {
		return
	}
	if v, ok := c14OneJSON(c, "@base64", enc2); !ok {
		return
	} else if v.K != ref.Str || v.S != enc {
		c.violated("@base64 of %q gives %s but -o=base64 prints %q", s, v.JSON(), enc)
		return
	}
	// DECODE (the empty text is the empty stream, not the empty string: left out)
	if s != "" {
		text := base64.StdEncoding.EncodeToString([]byte(s))
		out, ok := c.evalOK("base64 decode", ".", text, yqlib.NewBase64Decoder(), c14JSONEnc())
		if !ok {
			return
		}
		got, ok := c14OneJSON(c, "base64 decode", out)
		if !ok {
			return
		}
		if got.K != ref.Str || got.S != s {
			c.violated("yq -p=base64 of %q gives %s, the text denotes %q", text, got.JSON(), s)
			return
		}
		if c.bin && !c.sameAsBinary(out, text, "-p=base64", "-o=json", "-I0", ".") {
			return
		}
	}
	// PAIR
	out, ok := c.evalOK("@base64|@base64d", "@base64 | @base64d", input, c14YAMLDec(), c14JSONEnc())
	if !ok {
		return
	}
	got, ok := c14OneJSON(c, "@base64|@base64d", out)
	if !ok {
		return
	}
	if got.K != ref.Str || got.S != s {
		c.violated("@base64 | @base64d of %q gives %s", s, got.JSON())
		return
	}
	c.held("%q <-> %q", clipStr(s, 60), clipStr(enc, 80))
}

// c14URIDecode is the independent reader of application/x-www-form-urlencoded text (the escaping
// documented for @uri: blanks as '+').
func c14URIDecode(s string) (string, error) {
	var out []byte
	for i := 0; i < len(s); i++ {
		ch := s[i]
		switch {
		case ch == '+':
			out = append(out, ' ')
		case ch == '%':
			if i+2 >= len(s) {
				return "", fmt.Errorf("truncated escape")
			}
			n, err := strconv.ParseUint(s[i+1:i+3], 16, 8)
			if err != nil {
				return "", fmt.Errorf("bad escape %q", s[i:i+3])
			}
			out = append(out, byte(n))
			i += 2
		case ch >= 'a' && ch <= 'z' || ch >= 'A' && ch <= 'Z' || ch >= '0' && ch <= '9' || ch == '-' || ch == '_' || ch == '.' || ch == '~':
			out = append(out, ch)
		default:
			return "", fmt.Errorf("character %q must be escaped in a URI component", string(ch))
		}
	}
	return string(out), nil
}

func c14URIEncode(c *c14ctx, s string) string {
	var sb strings.Builder
	for i := 0; i < len(s); i++ {
		ch := s[i]
		unres := ch >= 'a' && ch <= 'z' || ch >= 'A' && ch <= 'Z' || ch >= '0' && ch <= '9' || ch == '-' || ch == '_' || ch == '.' || ch == '~'
		switch {
		case ch == ' ' && c.ch(2) == 0:
			sb.WriteByte('+')
		case unres && c.ch(8) != 0:
			sb.WriteByte(ch)
		case c.ch(2) == 0:
			fmt.Fprintf(&sb, "%%%02X", ch)
		default:
			fmt.Fprintf(&sb, "%%%02x", ch)
		}
	}
	return sb.String()
}

func c14URI(c *c14ctx) {
	s := c14ByteString(c)
	if c.ch(5) == 0 {
		// text that already looks escaped is text: it is escaped once more
		s = []string{"a+b", "C++", "1+1", "100%25", "x%2Fy", "tom+jerry%40example.org", "%41", "a%20b", "+", "%2B"}[c.ch(10)]
	}
	input := ref.QuoteJSON(s)
	c.cs["string"] = s
	c.sig = fmt.Sprintf("%x", hashStr(s))
	c.tag("fmt:uri:encode", "fmt:uri:decode", "pair:@uri|@urid")
	for i := 0; i < len(s); i++ {
		ch := s[i]
		if !(ch >= 'a' && ch <= 'z' || ch >= 'A' && ch <= 'Z' || ch >= '0' && ch <= '9') {
			c.nt = true
		}
		switch {
		case ch == ' ':
			c.tag("uri:blank")
		case ch == '+':
			c.tag("uri:plus")
		case ch == '%':
			c.tag("uri:percent")
		case ch >= 0x80:
			c.tag("uri:non_ascii")
		case strings.IndexByte("&=?#/", ch) >= 0:
			c.tag("uri:reserved")
		case strings.IndexByte("-_.~", ch) >= 0:
			c.tag("uri:unreserved_mark")
		}
	}
	enc, ok := c.evalOK("uri encode", ".", input, c14YAMLDec(), yqlib.NewUriEncoder())
	if !ok {
		return
	}
	back, err := c14URIDecode(enc)
	if err != nil || back != s {
		c.violated("yq -o=uri of %q printed %q, which an independent form-urlencoded reader maps to %q (%v)", s, enc, back, err)
		return
	}
	if c.bin && !c.sameAsBinary(enc, input, "-o=uri", ".") {
		return
	}
	enc2, ok := c.evalOK("@uri", "@uri", input, c14YAMLDec(), c14JSONEnc())
	if !ok {
		return
	}
	if v, ok := c14OneJSON(c, "@uri", enc2); !ok {
		return
	} else if v.K != ref.Str || v.S != enc {
		c.violated("@uri of %q gives %s but -o=uri prints %q", s, v.JSON(), enc)
		return
	}
	if s != "" {
		text := c14URIEncode(c, s)
		out, ok := c.evalOK("uri decode", ".", text, yqlib.NewUriDecoder(), c14JSONEnc())
		if !ok {
			return
		}
		got, ok := c14OneJSON(c, "uri decode", out)
		if !ok {
			return
		}
		if got.K != ref.Str || got.S != s {
			c.violated("yq -p=uri of %q gives %s, the text denotes %q", text, got.JSON(), s)
			return
		}
		if c.bin && !c.sameAsBinary(out, text, "-p=uri", "-o=json", "-I0", ".") {
			return
		}
	}
	out, ok := c.evalOK("@uri|@urid", "@uri | @urid", input, c14YAMLDec(), c14JSONEnc())
	if !ok {
		return
	}
	got, ok := c14OneJSON(c, "@uri|@urid", out)
	if !ok {
		return
	}
	if got.K != ref.Str || got.S != s {
		c.violated("@uri | @urid of %q gives %s", s, got.JSON())
		return
	}
	c.held("%q <-> %q", clipStr(s, 60), clipStr(enc, 80))
}

// ---- to_json/from_json, to_yaml/from_yaml ------------------------------------------------

func c14JSONYAMLPair(c *c14ctx) {
	p := gen.Default()
	p.NoBigInt = true
	v := gen.Value(c.r, p)
	// integers beyond ±2^53 belong to C06
	v.Walk(nil, func(_ []any, n *ref.V) {
		if n.K == ref.Int && n.I.IsInt64() {
			if x := n.I.Int64(); x > 1<<53 || x < -(1<<53) {
				n.I.SetInt64(x % (1 << 53))
			}
		}
	})
	// C06's business, kept out here: the YAML merge key, the line-break characters U+0085/U+2028/U+2029
	// (JSON prints them raw, the YAML reader behind from_json folds them) and floats that JSON prints
	// as integers beyond int64
	lb := strings.NewReplacer("\u0085", "x", "\u2028", "x", "\u2029", "x")
	c14RenameKeys(v, func(k string) string {
		if k == "<<" {
			return "<<k"
		}
		return lb.Replace(k)
	})
	v.Walk(nil, func(_ []any, n *ref.V) {
		if n.K == ref.Str {
			n.S = lb.Replace(n.S)
		}
		if n.K == ref.Float && math.Abs(n.F) >= 9e18 && math.Abs(n.F) < 1e21 {
			n.F /= 1e6
		}
	})
	exprs := []string{"to_json | from_json", "to_yaml | from_yaml", "@json | from_json", "to_json(0) | @jsond", "@yaml | @yamld", "to_yaml(4) | from_yaml", "tojson | fromjson", "to_json | from_yaml"}
	expr := exprs[c.ch(len(exprs))]
	input := v.JSON()
	c.cs["input"] = input
	c.cs["expr"] = expr
	c.sig = fmt.Sprintf("%x", v.ShapeHash())
	c.nt = !v.IsScalar()
	v.Walk(nil, func(_ []any, n *ref.V) {
		if n.K == ref.Str && !c14PlainWord(n.S) {
			c.nt = true
		}
	})
	c.tag("pair:" + strings.ReplaceAll(expr, " ", ""))
	// the JSON encoder prints U+007F and U+0080..U+009F (but U+0085) raw, and the reader behind
	// from_json/@jsond/from_yaml (the YAML decoder) rejects exactly these characters
	rawCtl := false
	if strings.Contains(strings.SplitN(expr, "|", 2)[0], "json") {
		v.Walk(nil, func(_ []any, n *ref.V) {
			ss := []string{n.S}
			for _, e := range n.M {
				ss = append(ss, e.K)
			}
			for _, s := range ss {
				for _, r := range s {
					if r == 0x7f || (r >= 0x80 && r <= 0x9f && r != 0x85) {
						rawCtl = true
					}
				}
			}
		})
	}
	if rawCtl {
		c.tag("json:raw_del_or_c1")
	}
	ctlQuirk := func(msg string) bool {
		if rawCtl && strings.Contains(msg, "yaml: control characters are not allowed") {
			c.finding("C14-json-raw-del-c1-not-rereadable", "%s fails: %s\ninput: %s", expr, strings.TrimSpace(msg), clipStr(input, 500))
			return true
		}
		return false
	}
	var out string
	if c.bin {
		o, serr, exit, ok := c.binary(input, "-o=json", "-I0", expr)
		if !ok {
			return
		}
		if exit != 0 {
			if !ctlQuirk(serr) {
				c.violated("yq -o=json '%s' failed: exit=%d %s\ninput: %s", expr, exit, clipStr(serr, 300), clipStr(input, 500))
			}
			return
		}
		out = o
	} else {
		o, err, pan := c.eval(expr, input, c14YAMLDec(), c14JSONEnc())
		if pan != nil {
			c.violated("%s panicked: %s\n%s", expr, pan.Value, clipStr(pan.Stack, 500))
			return
		}
		if err != nil {
			if !ctlQuirk(err.Error()) {
				c.violated("%s failed on an in-domain input: %v\ninput: %s", expr, err, clipStr(input, 600))
			}
			return
		}
		out = o
	}
	got, ok := c14OneJSON(c, expr, out)
	if !ok {
		return
	}
	if c14Eq(got, v, false) {
		c.held("identity on %s", clipStr(input, 200))
		return
	}
	c.violated("%s is not the identity\nexpected: %s\ngot:      %s", expr, clipStr(v.JSON(), 800), clipStr(got.JSON(), 800))
}

var _ = utf8.RuneError
