package props

import (
	"bytes"
	"fmt"
	"io"
	"os"
	"path/filepath"
	"strings"

	"github.com/mikefarah/yq/v4/pkg/yqlib"

	"verifharness/mon"
	"verifharness/yqx"
)

// ---- C10 execution layer -----------------------------------------------------------------
//
// Every C10 oracle is written against c10Exec: "run expression E over these files with these
// flags and give me stdout + whether it failed". Two implementations:
//   - binary:     the real yq executable (argv, real files, stdin)                [plain worker]
//   - in-process: yqlib.NewStreamEvaluator().EvaluateFiles / NewAllAtOnceEvaluator().EvaluateFiles
//     on the same real files with ONE parsed expression tree, ONE decoder and ONE printer shared
//     by all files and documents - the functions cmd/evaluate_sequence_command.go calls -
//     so the -race build sees exactly the reused state the property talks about.   [race worker + a share of plain cases]

type c10Flags struct {
	All   bool // eval-all
	NoSep bool // -N
	JSON  bool // -o=json -I=0
	Nul   bool // -0 (NUL separated results; only used by finding matchers to split results)
}

type c10Out struct {
	Stdout   string
	Stderr   string
	Failed   bool // exit status != 0 / error returned
	TimedOut bool
	Panic    *yqx.Panic
	Sig      int
}

type c10Exec struct {
	w      *mon.Worker
	dir    string
	inproc bool
	evals  int
	// firstCalls: for the in-process engine, the printer -> encoder call sequence of the first run of the
	// case (always the combined run): S = PrintDocumentSeparator, L = PrintLeadingContent with content,
	// E = Encode. Evidence only.
	firstCalls string
}

// c10EncLog decorates an Encoder (exported interface, no hook) and logs the calls the printer makes.
type c10EncLog struct {
	inner yqlib.Encoder
	log   *strings.Builder
}

func (e c10EncLog) Encode(w io.Writer, n *yqlib.CandidateNode) error {
	e.log.WriteByte('E')
	return e.inner.Encode(w, n)
}
func (e c10EncLog) PrintDocumentSeparator(w io.Writer) error {
	e.log.WriteByte('S')
	return e.inner.PrintDocumentSeparator(w)
}
func (e c10EncLog) PrintLeadingContent(w io.Writer, content string) error {
	if content != "" {
		e.log.WriteByte('L')
	}
	return e.inner.PrintLeadingContent(w, content)
}
func (e c10EncLog) CanHandleAliases() bool { return e.inner.CanHandleAliases() }

func (x *c10Exec) kind() string {
	if x.inproc {
		return "inproc"
	}
	return "binary"
}

// path returns the name under which a file living in x.dir is handed to yq. The binary runs
// with cwd = dir and gets the name as is; the in-process engine cannot change the worker's cwd
// per case, so it gets dir/name. filename bookkeeping always uses the value returned here.
func (x *c10Exec) path(name string) string {
	if name == "-" || filepath.IsAbs(name) {
		return name
	}
	if x.inproc {
		return filepath.Join(x.dir, name)
	}
	return name
}

// c10SideTok stands in an expression for the path of a constant side file next to the case's documents.
const c10SideTok = "SIDE.yaml"
const c10SideText = "tags: [base]\nn: 1\nsub: {k: v}\n"

func (x *c10Exec) run(expr string, names []string, fl c10Flags, stdin []byte) c10Out {
	if strings.Contains(expr, c10SideTok) {
		p := filepath.Join(x.dir, "c10side.yaml")
		if _, err := os.Stat(p); err != nil {
			_ = os.WriteFile(p, []byte(c10SideText), 0o644)
		}
		expr = strings.ReplaceAll(expr, c10SideTok, p)
	}
	x.evals++
	if x.inproc {
		o, calls := c10InProc(expr, names, fl)
		if x.evals == 1 {
			x.firstCalls = clipStr(calls, 160)
		}
		return o
	}
	argv := []string{x.w.YqBin()}
	if fl.All {
		argv = append(argv, "ea")
	}
	if fl.NoSep {
		argv = append(argv, "-N")
	}
	if fl.JSON {
		argv = append(argv, "-o=json", "-I=0")
	}
	if fl.Nul {
		argv = append(argv, "-0")
	}
	argv = append(argv, expr)
	argv = append(argv, names...)
	if stdin == nil {
		stdin = []byte{}
	}
	res := mon.Run(mon.RunOpts{Dir: x.dir, Stdin: stdin}, argv...)
	out := c10Out{Stdout: string(res.Stdout), Stderr: string(res.Stderr), Failed: res.Exit != 0, TimedOut: res.TimedOut, Sig: res.Signal}
	if res.Exit == -2 || res.Signal != 0 {
		// the harness could not run / collect the process (exec error, killed by a limit): never a verdict
		out.TimedOut = true
	}
	if out.Failed && !strings.Contains(out.Stderr, "Error:") && !strings.Contains(out.Stderr, "panic:") {
		// yq reports its own failures as "Error: …" (a crash as "panic: …"); anything else (fork/thread
		// exhaustion on a loaded machine, prlimit trouble) is the environment's failure: inconclusive
		out.TimedOut = true
	}
	return out
}

// c10InProc mirrors cmd/evaluate_sequence_command.go / evaluate_all_command.go with default flags.
func c10InProc(expr string, names []string, fl c10Flags) (out c10Out, calls string) {
	yqx.Init()
	prefs := yqlib.NewDefaultYamlPreferences()
	prefs.PrintDocSeparators = !fl.NoSep
	prefs.EvaluateTogether = fl.All
	dec := yqlib.NewYamlDecoder(prefs)
	var enc yqlib.Encoder
	if fl.JSON {
		enc = yqlib.NewJSONEncoder(yqlib.JsonPreferences{Indent: 0, ColorsEnabled: false, UnwrapScalar: false})
	} else {
		enc = yqlib.NewYamlEncoder(prefs)
	}
	var buf bytes.Buffer
	var callLog strings.Builder
	enc = c10EncLog{inner: enc, log: &callLog}
	printer := yqlib.NewPrinter(enc, yqlib.NewSinglePrinterWriter(&buf))
	if fl.Nul {
		printer.SetNulSepOutput(true)
	}
	var err error
	out.Panic = yqx.Guard(func() {
		if fl.All {
			err = yqlib.NewAllAtOnceEvaluator().EvaluateFiles(expr, names, printer, dec)
		} else {
			err = yqlib.NewStreamEvaluator().EvaluateFiles(expr, names, printer, dec)
		}
	})
	out.Stdout = buf.String()
	if err != nil {
		out.Failed = true
		out.Stderr = err.Error()
	}
	if out.Panic != nil {
		out.Failed = true
		out.Stderr = "PANIC " + out.Panic.Sig() + ": " + out.Panic.Value
	}
	return out, callLog.String()
}

// ---- case files ---------------------------------------------------------------------------

// c10File is one input file of a case: its documents (standalone texts, i.e. what the document
// looks like in a file of its own) and the assembled file text.
type c10File struct {
	Name  string   `json:"name"` // as generated (relative); "-" = stdin
	Docs  []string `json:"docs"` // standalone text of each document
	Text  string   `json:"text"` // file content
	Feat  []string `json:"features,omitempty"`
	Kinds []string `json:"-"` // per document: json | block | scalar | empty | comment | anchors
}

// c10Write writes the input files of a case (a name used twice is written once) and returns the
// argv names and the stdin bytes.
func c10Write(x *c10Exec, files []c10File) (names []string, stdin []byte, err error) {
	for _, f := range files {
		if f.Name == "-" {
			stdin = []byte(f.Text)
			names = append(names, "-")
			continue
		}
		p := filepath.Join(x.dir, f.Name)
		if err = os.MkdirAll(filepath.Dir(p), 0o755); err != nil {
			return
		}
		if err = os.WriteFile(p, []byte(f.Text), 0o644); err != nil {
			return
		}
		names = append(names, x.path(f.Name))
	}
	return
}

// c10Solo runs expr over one document in a file of its own (cached per (flags, expr, text)).
type c10SoloCache struct {
	x    *c10Exec
	n    int
	memo map[string]c10Out
	name map[string]string
}

func newSoloCache(x *c10Exec) *c10SoloCache {
	return &c10SoloCache{x: x, memo: map[string]c10Out{}, name: map[string]string{}}
}

// file returns the (written once) file holding exactly this document.
func (c *c10SoloCache) file(text string) string {
	if n, ok := c.name[text]; ok {
		return n
	}
	n := fmt.Sprintf("solo_%d.yaml", c.n)
	c.n++
	_ = os.WriteFile(filepath.Join(c.x.dir, n), []byte(text), 0o644)
	c.name[text] = n
	return n
}

func (c *c10SoloCache) run(expr, text string, fl c10Flags) c10Out {
	key := fmt.Sprintf("%v|%s|%s", fl, expr, text)
	if o, ok := c.memo[key]; ok {
		return o
	}
	o := c.x.run(expr, []string{c.x.path(c.file(text))}, fl, nil)
	c.memo[key] = o
	return o
}

// soloName is the filename yq is given for the standalone file of this document.
func (c *c10SoloCache) soloName(text string) string { return c.x.path(c.file(text)) }

func c10Clip(s string) string { return clipStr(strings.ReplaceAll(s, "\n", "\\n"), 700) }
