package props

import (
	"fmt"
	"math/rand/v2"
	"os"
	"path/filepath"
	"strings"

	"verifharness/gen"
	"verifharness/mon"
	"verifharness/ref"
	"verifharness/yqx"
)

// C03 — delete removes exactly the selected nodes and nothing else.
//
// Oracle: the selection is resolved to a set of concrete locations on the pure value model
// (ref.Resolve on the input of del, after computing any deriving function with ref.Eval), and the
// expected result is the input with exactly those locations removed.
type c03 struct{}

func init() { mon.Register(c03{}) }

func (c03) ID() string    { return "C03" }
func (c03) Level() string { return "exploration" }
func (c03) Rule() string {
	return "three families: (fresh) `del(s)` on a decoded document, s = path / multi-index / splat+select / recursive descent+select; " +
		"(union) `del(s1, s2)` and `del(s2, s1)` incl. overlapping and identical selections, both must equal the document minus the union; " +
		"(derived) `<path to a sequence> | f | del(s)` with f in sort, sort_by, reverse, slices, unique, map(.), `. + [..]`, `[.[] | select(p)]`, flatten, group_by(..)|.[0], " +
		"s = indices (+/-), several indices of one sequence, `.[] | select(p)`. Expected = input of del with exactly the selected locations removed, survivors in order. " +
		"Non-trivial = >=1 location deleted and >=1 survivor in the same container; distinct by (family, f, selection shape, document shape)."
}
func (c03) Assumptions() []string {
	return []string{"alias-free JSON-model documents; deleting the root itself is not generated (it yields no output)"}
}
func (c03) Cases(tier string) int {
	if tier == "thorough" {
		return 200000
	}
	return 30000
}
func (c03) RaceCases(tier string) int {
	if tier == "thorough" {
		return 5000
	}
	return 300
}
func (c03) Floor(tier string) int { return 2000 }

type c03Derive struct {
	name string
	mk   func(r *rand.Rand, seq *ref.V) *ref.Expr
}

var c03Derives = []c03Derive{
	{"sort", func(r *rand.Rand, s *ref.V) *ref.Expr { return ref.Fn0("sort") }},
	{"reverse", func(r *rand.Rand, s *ref.V) *ref.Expr { return ref.Fn0("reverse") }},
	{"unique", func(r *rand.Rand, s *ref.V) *ref.Expr { return ref.Fn0("unique") }},
	{"slice", func(r *rand.Rand, s *ref.V) *ref.Expr {
		n := len(s.A)
		a := r.IntN(n + 1)
		e := &ref.Expr{Op: ref.OpSlice, I: &a}
		if r.IntN(2) == 0 {
			b := a + r.IntN(n-a+1)
			e.J = &b
		}
		return e
	}},
	{"map(.)", func(r *rand.Rand, s *ref.V) *ref.Expr { return ref.Fn1("map", ref.Self()) }},
	{"+[..]", func(r *rand.Rand, s *ref.V) *ref.Expr {
		return ref.Bin("+", ref.Self(), &ref.Expr{Op: ref.OpCollect, L: ref.Union(ref.Lit(ref.IntV(int64(100+r.IntN(9)))), ref.Lit(ref.StrV("zz")))})
	}},
	{"[.[]|select]", func(r *rand.Rand, s *ref.V) *ref.Expr {
		return &ref.Expr{Op: ref.OpCollect, L: ref.Pipe(&ref.Expr{Op: ref.OpSplat}, ref.Fn1("select", ref.Bin("!=", ref.Self(), ref.Lit(gen.SimpleValue(r, 0)))))}
	}},
	{"flatten", func(r *rand.Rand, s *ref.V) *ref.Expr { return ref.Fn0("flatten") }},
	{"sort|reverse", func(r *rand.Rand, s *ref.V) *ref.Expr { return ref.Pipe(ref.Fn0("sort"), ref.Fn0("reverse")) }},
	{"sort_by(length)", func(r *rand.Rand, s *ref.V) *ref.Expr { return ref.Fn1("sort_by", ref.Fn0("length")) }},
}

// c03MergeKeyCase: maps that merge an anchored map (`<<: *d`) and have entries of their own, some of which replace a
// merged entry. Deleting an entry a map has itself removes that entry (one line of the text) and nothing else - the
// anchored map and the other maps that merge it keep everything.
func c03MergeKeyCase(r *rand.Rand) mon.Result {
	sc := func() string { return []string{"1", "3", "x", "w", "true", "2.5", "80", "app"}[r.IntN(8)] }
	type line struct{ text, id string }
	var ls []line
	add := func(t, id string) { ls = append(ls, line{t, id}) }
	add("defaults: &d", "")
	add("  replicas: "+sc(), "")
	add("  port: "+sc(), "")
	add("  tier: "+sc(), "")
	add("web:", "")
	// (own entries stand after the merge key: which side wins when the merge key comes later is the recorded C13 deviation)
	ownFirst := false
	if ownFirst {
		add("  replicas: 33", "web.replicas")
	}
	if r.IntN(4) == 0 {
		add("  <<: [*d]", "")
	} else {
		add("  <<: *d", "")
	}
	if !ownFirst {
		add("  replicas: 33", "web.replicas")
	}
	add("  name: "+sc(), "web.name")
	if r.IntN(2) == 0 {
		add("  tier: 77", "web.tier")
	}
	add("api:", "")
	add("  <<: *d", "")
	add("  own: "+sc(), "api.own")
	add("  port: 99", "api.port")
	add("last: "+sc(), "last")
	var ids []string
	for _, l := range ls {
		if l.id != "" {
			ids = append(ids, l.id)
		}
	}
	// one or two of the own entries, selected by path, by value or behind a predicate
	gone := map[string]bool{ids[r.IntN(len(ids))]: true}
	if r.IntN(3) == 0 {
		gone[ids[r.IntN(len(ids))]] = true
	}
	var sel []string
	for _, id := range ids {
		if !gone[id] {
			continue
		}
		switch {
		case id == "web.replicas" && r.IntN(3) == 0:
			sel = append(sel, ".. | select(. == 33)")
		case id == "api.port" && r.IntN(3) == 0:
			sel = append(sel, ".api | .port")
		case r.IntN(4) == 0 && id != "last":
			i := strings.Index(id, ".")
			sel = append(sel, "."+id[:i]+"[\""+id[i+1:]+"\"]")
		default:
			sel = append(sel, "."+id)
		}
	}
	if r.IntN(2) == 0 {
		for i, j := 0, len(sel)-1; i < j; i, j = i+1, j-1 {
			sel[i], sel[j] = sel[j], sel[i]
		}
	}
	expr := "del(" + strings.Join(sel, ", ") + ")"
	if len(sel) == 1 && r.IntN(4) == 0 {
		expr = "del(" + sel[0] + " | select(. != \"no such\"))"
	}
	var in, want strings.Builder
	for _, l := range ls {
		in.WriteString(l.text + "\n")
		if !gone[l.id] {
			want.WriteString(l.text + "\n")
		}
	}
	res := mon.Result{Tags: []string{"family:merge_key_maps"}, Nontrivial: true, Evals: 1}
	res.Case = map[string]any{"doc": in.String(), "expr": expr, "family": "merge_key_maps"}
	res.Sig = fmt.Sprintf("mergekey|%s|%v|%d", expr, ownFirst, len(ls))
	out, err, pan := yqx.Eval(expr, in.String(), "yaml", "yaml")
	out = strings.ReplaceAll(out, "!!merge <<:", "<<:") // (the printer spells the merge key's tag out; not this property's matter)
	switch {
	case pan != nil || err != nil:
		res.Verdict, res.Detail = mon.Violated, fmt.Sprintf("`%s` failed: %v %v\n%s", expr, err, pan, in.String())
	case out != want.String():
		res.Verdict, res.Detail = mon.Violated, fmt.Sprintf("`%s` must remove the selected own entries and nothing else\n input:\n%s expected:\n%s observed:\n%s", expr, in.String(), want.String(), out)
	default:
		res.Verdict, res.Detail = mon.Held, fmt.Sprintf("%d own entr(ies) removed, the merged map untouched", len(gone))
	}
	return res
}

func (p c03) Run(w *mon.Worker, idx int) mon.Result {
	r := w.Rand(idx)
	if idx%45 == 17 {
		return c03MergeKeyCase(r)
	}
	if idx%30 == 11 {
		return c03NeutralCase(r, idx)
	}
	if idx%60 == 23 {
		return c03TypedKeysCase(r, idx)
	}
	pr := gen.Default()
	pr.NoBigInt, pr.SmallInts = true, true
	pr.MaxDepth = 2 + r.IntN(3)
	pr.MaxWidth = 2 + r.IntN(4)
	pr.Keys = []string{"a", "b", "c", "d", "x", "y"}
	doc := gen.Value(r, pr)
	if doc.IsScalar() {
		doc = ref.SeqV(doc, ref.IntV(1), ref.IntV(2))
	}
	// a quarter of the float-free documents go through the JSON decoder (it builds the node tree on its own)
	inFmt := "yaml"
	{
		hasFloat := false
		doc.Walk(nil, func(_ []any, n *ref.V) {
			if n.K == ref.Float {
				hasFloat = true
			}
		})
		if !hasFloat && r.IntN(4) == 0 {
			inFmt = "json"
		}
	}
	evalDoc := func(expr string, d *ref.V) (*ref.V, []*ref.V, error) { return evalDocFmt(expr, d, inFmt) }
	fam := []string{"fresh", "union", "derived", "fresh", "union", "derived", "side", "mapderived", "exploded"}[idx%9]
	res := mon.Result{Tags: []string{"family:" + fam}}
	cs := map[string]any{"doc": doc.JSON(), "family": fam}
	res.Case = cs
	fail := func(f string, a ...any) mon.Result {
		res.Verdict = mon.Violated
		res.Detail = fmt.Sprintf(f, a...)
		return res
	}
	skip := func(d string) mon.Result {
		res.Verdict, res.Detail, res.Nontrivial = mon.Held, d, false
		res.Tags = append(res.Tags, "excluded")
		return res
	}
	sel := func(in *ref.V) (ref.PathExpr, []ref.Target, error) {
		pe := c03Selection(r, in)
		ts, err := ref.Resolve(in, pe, false)
		return pe, ts, err
	}
	paths := func(ts []ref.Target) [][]any {
		var out [][]any
		for _, t := range ts {
			if len(t.Path) > 0 {
				out = append(out, t.Path)
			}
		}
		return out
	}
	nontrivial := func(in *ref.V, ts []ref.Target) bool {
		for _, t := range ts {
			if len(t.Path) == 0 {
				continue
			}
			parent, ok := in.GetPath(t.Path[:len(t.Path)-1])
			if ok && (len(parent.A) > 1 || len(parent.M) > 1) {
				return true
			}
		}
		return false
	}
	hasRoot := func(ts []ref.Target) bool {
		for _, t := range ts {
			if len(t.Path) == 0 {
				return true
			}
		}
		return false
	}

	if fam == "fresh" && idx%12 == 0 {
		// keys that look like patterns: the entry selected by a predicate on its VALUE must be the only one removed
		globs := []string{"*", "a*", "?", "*c", "??", "k*", "*.example.com", "a?c"}
		sibs := []string{"a", "ab", "c", "abc", "kk", "k1", "www.example.com", "x"}
		m := &ref.V{K: ref.Map, M: []ref.KV{}}
		for i := 0; i < 2+r.IntN(3); i++ {
			k := sibs[r.IntN(len(sibs))]
			if _, dup := m.Get(k); !dup {
				m.M = append(m.M, ref.KV{K: k, V: gen.SimpleValue(r, 1)})
			}
		}
		gk := globs[r.IntN(len(globs))]
		pos := r.IntN(len(m.M) + 1)
		m.M = append(m.M[:pos:pos], append([]ref.KV{{K: gk, V: ref.StrV("VICTIM")}}, m.M[pos:]...)...)
		wrap := ref.MapV(ref.KV{K: "keep", V: ref.IntV(1)}, ref.KV{K: "m", V: m})
		doc = wrap
		cs["doc"] = doc.JSON()
		expr := []string{`del(.m[] | select(. == "VICTIM"))`, `del(.. | select(. == "VICTIM"))`, `del(.m | .[] | select(tag == "!!str" and . == "VICTIM"))`}[r.IntN(3)]
		cs["expr"] = expr
		res.Tags = append(res.Tags, "glob_key")
		res.Sig = fmt.Sprintf("globkey|%s|%x", gk, doc.ShapeHash())
		want := ref.DeletePaths(doc, [][]any{{"m", gk}})
		got, _, yerr := evalDoc(expr, doc)
		res.Evals++
		if yerr != nil {
			return fail("`%s` failed: %v", expr, yerr)
		}
		if got == nil || !ref.EqualNum(got, want) {
			return fail("`%s`\n input    %s\n expected %s\n observed %s", expr, doc, want, got)
		}
		res.Verdict, res.Nontrivial, res.Detail = mon.Held, true, "only the selected entry removed"
		return res
	}
	if fam == "fresh" && (idx/8)%4 == 1 {
		// a selection that reads one past the end of a sequence (and goes on from there) selects nothing:
		// nothing is deleted and, above all, nothing is added
		var seqs [][]any
		doc.Walk(nil, func(pth []any, n *ref.V) {
			if n.K == ref.Seq && len(pth) <= 2 {
				for _, k := range pth {
					if s, isS := k.(string); isS && !identOK(s) {
						return
					}
				}
				seqs = append(seqs, append([]any{}, pth...))
			}
		})
		if len(seqs) == 0 {
			return skip("no sequence")
		}
		sp := seqs[r.IntN(len(seqs))]
		seq, _ := doc.GetPath(sp)
		pe := ref.PathExpr{}
		for _, k := range sp {
			switch kk := k.(type) {
			case string:
				pe.Steps = append(pe.Steps, ref.Step{Kind: "key", Key: kk})
			case int:
				pe.Steps = append(pe.Steps, ref.Step{Kind: "idx", Idx: kk})
			}
		}
		P := pe.String()
		if P == "." {
			P = ""
		}
		n := len(seq.A)
		var expr string
		switch r.IntN(4) {
		case 0:
			expr = fmt.Sprintf("del(%s[%d].zz)", P, n)
		case 1:
			expr = fmt.Sprintf("del(%s[%d][0])", P, n)
		case 2:
			expr = fmt.Sprintf(`del(%s[] | select(.[%d] == "no such value"))`, P, r.IntN(3))
		default:
			expr = fmt.Sprintf(`del(.. | select(kind == "seq") | select(.[length] == "no such value"))`)
		}
		if strings.HasPrefix(expr, "del([") {
			expr = "del(." + expr[4:]
		}
		cs["expr"] = expr
		res.Tags = append(res.Tags, "read_past_end")
		res.Sig = fmt.Sprintf("pastend|%s|%x", expr, doc.ShapeHash())
		got, _, yerr := evalDoc(expr, doc)
		res.Evals++
		if yerr != nil {
			return skip("selection not defined on this document: " + yerr.Error())
		}
		if got == nil || !ref.EqualNum(got, doc) {
			return fail("`%s` selects nothing, the document must come back unchanged\n input    %s\n observed %s", expr, doc, got)
		}
		res.Verdict, res.Nontrivial, res.Detail = mon.Held, true, "nothing selected, nothing changed"
		return res
	}
	switch fam {
	case "fresh":
		pe, ts, err := sel(doc)
		if err != nil {
			return skip("selection not defined on this document")
		}
		if hasRoot(ts) {
			return skip("selection contains the root")
		}
		if (idx/9)%5 == 4 {
			// the document as YAML text with comments that belong to the document as a whole (after a blank line at the end,
			// before the next `---`): deleting direct children of the root works as anywhere else
			tail := []string{"\n\n# trailing comment\n", "\n# end of document\n", "\n\n# note\n---\nsecond: doc\n", "\n"}[r.IntN(4)]
			head := []string{"", "# leading\n", "---\n"}[r.IntN(3)]
			text := head + doc.JSON() + tail
			expr := "select(document_index == 0) | del(" + pe.String() + ")"
			cs["expr"], cs["doc"] = expr, text
			res.Tags = append(res.Tags, "yaml_text_with_document_comments")
			res.Sig = fmt.Sprintf("doccomment|%s|%x", pathShape(pe), doc.ShapeHash())
			want := ref.DeletePaths(doc, paths(ts))
			out, yerr, pan := yqx.Eval(expr, text, "yaml", "json")
			res.Evals++
			if pan != nil || yerr != nil {
				return fail("`%s` failed on the document with comments: %v %v", expr, yerr, pan)
			}
			gots, perr := ref.ParseJSONStream(out)
			if perr != nil || len(gots) != 1 || !ref.EqualNum(gots[0], want) {
				return fail("`%s`\n input (YAML text)\n%s expected %s\n observed %s", expr, text, want, clipStr(out, 400))
			}
			res.Verdict, res.Nontrivial = mon.Held, nontrivial(doc, ts)
			res.Detail = fmt.Sprintf("%d location(s) removed", len(ts))
			return res
		}
		if (idx/9)%5 == 0 && idx%2 == 1 {
			// a predicate that gives SEVERAL answers for some elements and none for others: an element goes when one of
			// ITS answers is true
			n := 3 + r.IntN(3)
			var els []*ref.V
			want := &ref.V{K: ref.Seq, A: []*ref.V{}}
			total := 0
			for i := 0; i < n; i++ {
				k := []int{2, 0, 1, 3, 0, 1}[(i+r.IntN(6))%6]
				tags := &ref.V{K: ref.Seq, A: []*ref.V{}}
				hit := false
				for j := 0; j < k; j++ {
					t := []string{"tmp-a", "keep", "tmp-b", "x"}[r.IntN(4)]
					hit = hit || strings.HasPrefix(t, "tmp")
					tags.A = append(tags.A, ref.StrV(t))
				}
				total += k
				el := ref.MapV(ref.KV{K: "name", V: ref.StrV(fmt.Sprintf("c%d", i))}, ref.KV{K: "tags", V: tags})
				els = append(els, el)
				if !hit {
					want.A = append(want.A, el)
				}
			}
			sdoc := ref.MapV(ref.KV{K: "containers", V: ref.SeqV(els...)}, ref.KV{K: "keep", V: ref.IntV(1)})
			expr := []string{`del(.containers[] | select(.tags[] | test("^tmp")))`, `.containers |= sort_by(.name) | del(.containers[] | select(.tags[] | test("^tmp")))`,
				`del(.containers[] | select(.tags[] == ("tmp-a", "tmp-b")))`}[r.IntN(3)]
			cs["expr"], cs["doc"] = expr, sdoc.JSON()
			res.Tags = append(res.Tags, "predicate_with_several_answers")
			if total == n {
				res.Tags = append(res.Tags, "answers_sum_to_candidates")
			}
			res.Sig = fmt.Sprintf("multianswer|%s|%x", expr, sdoc.ShapeHash())
			wdoc := ref.MapV(ref.KV{K: "containers", V: want}, ref.KV{K: "keep", V: ref.IntV(1)})
			got, _, yerr := evalDoc(expr, sdoc)
			res.Evals++
			if yerr != nil {
				return fail("`%s` failed: %v", expr, yerr)
			}
			if got == nil || !ref.EqualNum(got, wdoc) {
				return fail("`%s`\n input    %s\n expected %s\n observed %s", expr, sdoc, wdoc, got)
			}
			res.Verdict, res.Nontrivial, res.Detail = mon.Held, true, "elements with a true answer of their own removed"
			return res
		}
		if (idx/9)%5 == 3 && doc.K == ref.Map && len(doc.M) >= 2 {
			// the list of entries of a map is a list like any other: deleting entries of it removes exactly those
			keysOK := true
			for _, kv := range doc.M {
				keysOK = keysOK && identOK(kv.K)
			}
			if keysOK {
				n := len(doc.M)
				i, j := r.IntN(n), r.IntN(n)
				type form struct {
					expr string
					gone map[int]bool
				}
				f := []form{
					{fmt.Sprintf("to_entries | del(.[%d]) | from_entries", i), map[int]bool{i: true}},
					{fmt.Sprintf("to_entries | del(.[%d], .[%d]) | from_entries", i, j), map[int]bool{i: true, j: true}},
					{fmt.Sprintf("to_entries | del(.[] | select(.key == %q)) | from_entries", doc.M[i].K), map[int]bool{i: true}},
					{fmt.Sprintf("with_entries(.) | to_entries | del(.[-1]) | from_entries"), map[int]bool{n - 1: true}},
				}[r.IntN(4)]
				want := &ref.V{K: ref.Map, M: []ref.KV{}}
				for x, kv := range doc.M {
					if !f.gone[x] {
						want.M = append(want.M, kv)
					}
				}
				cs["expr"] = f.expr
				res.Tags = append(res.Tags, "entries_list")
				res.Sig = fmt.Sprintf("entries|%s|%x", f.expr, doc.ShapeHash())
				got, _, yerr := evalDoc(f.expr, doc)
				res.Evals++
				if yerr != nil {
					return fail("`%s` failed: %v", f.expr, yerr)
				}
				if got == nil || !ref.EqualNum(got, want) {
					return fail("`%s`\n input    %s\n expected %s\n observed %s", f.expr, doc, want, got)
				}
				res.Verdict, res.Nontrivial, res.Detail = mon.Held, true, "entries removed from the list of entries"
				return res
			}
		}
		if (idx/9)%5 == 2 {
			// the document comes out of a file read with load(): every load of the file is a document of its own, a
			// delete in one of them removes nothing from the next one
			lf := filepath.Join(w.Scratch, fmt.Sprintf("c03-load-%d.yaml", idx))
			if werr := os.WriteFile(lf, []byte(doc.JSON()+"\n"), 0o644); werr != nil {
				return skip("cannot write the file to load")
			}
			defer os.Remove(lf)
			L := fmt.Sprintf("load(%q)", lf)
			D := "del(" + pe.String() + ")"
			var expr string
			var wantL []*ref.V
			after := ref.DeletePaths(doc, paths(ts))
			switch r.IntN(4) {
			case 0:
				expr, wantL = fmt.Sprintf("[%s | %s, %s | %s]", L, D, L, D), []*ref.V{after, after}
			case 1:
				expr, wantL = fmt.Sprintf("[%s | %s, %s]", L, D, L), []*ref.V{after, doc}
			case 2:
				expr, wantL = fmt.Sprintf("[1, 2, 3] | map(%s | %s)", L, D), []*ref.V{after, after, after}
			default:
				expr, wantL = fmt.Sprintf("[%s, (%s | %s), %s]", L, L, D, L), []*ref.V{doc, after, doc}
			}
			cs["expr"] = strings.ReplaceAll(expr, lf, "f.yaml")
			res.Tags = append(res.Tags, "loaded_file")
			res.Sig = fmt.Sprintf("loaded|%s|%x", pathShape(pe), doc.ShapeHash())
			want := ref.SeqV(wantL...)
			got, _, yerr := evalDocFmt(expr, ref.NullV(), "yaml")
			res.Evals++
			if yerr != nil {
				return fail("`%s` failed: %v", cs["expr"], yerr)
			}
			if got == nil || !ref.EqualNum(got, want) {
				return fail("`%s` (f.yaml holds %s)\n expected %s\n observed %s", cs["expr"], doc, want, got)
			}
			res.Verdict, res.Nontrivial = mon.Held, nontrivial(doc, ts)
			res.Detail = fmt.Sprintf("%d location(s) removed from each loaded copy", len(ts))
			return res
		}
		expr := "del(" + pe.String() + ")"
		cs["expr"] = expr
		res.Sig = fmt.Sprintf("fresh|%s|%x", pathShape(pe), doc.ShapeHash())
		want := ref.DeletePaths(doc, paths(ts))
		got, _, yerr := evalDoc(expr, doc)
		res.Evals++
		if yerr != nil {
			return fail("`%s` failed: %v", expr, yerr)
		}
		if got == nil || !ref.EqualNum(got, want) {
			return fail("`%s`\n input    %s\n expected %s\n observed %s", expr, doc, want, got)
		}
		res.Verdict, res.Nontrivial = mon.Held, nontrivial(doc, ts)
		res.Detail = fmt.Sprintf("%d location(s) removed", len(ts))
		return res

	case "union":
		p1, t1, e1 := sel(doc)
		p2, t2, e2 := sel(doc)
		if r.IntN(5) == 0 {
			p2, t2, e2 = p1, t1, e1 // the very same selection twice
			res.Tags = append(res.Tags, "identical_selections")
		}
		if e1 != nil || e2 != nil {
			return skip("selection not defined on this document")
		}
		if hasRoot(t1) || hasRoot(t2) {
			return skip("selection contains the root")
		}
		all := append(append([]ref.Target{}, t1...), t2...)
		want := ref.DeletePaths(doc, paths(all))
		res.Sig = fmt.Sprintf("union|%s|%s|%x", pathShape(p1), pathShape(p2), doc.ShapeHash())
		overlap := false
		seen := map[string]bool{}
		for _, t := range t1 {
			seen[ref.PathString(t.Path)] = true
		}
		for _, t := range t2 {
			if seen[ref.PathString(t.Path)] {
				overlap = true
			}
		}
		if overlap {
			res.Tags = append(res.Tags, "overlapping_selections")
		}
		for _, expr := range []string{"del(" + p1.String() + ", " + p2.String() + ")", "del(" + p2.String() + ", " + p1.String() + ")"} {
			cs["expr"] = expr
			got, _, yerr := evalDoc(expr, doc)
			res.Evals++
			if yerr != nil {
				return fail("`%s` failed: %v", expr, yerr)
			}
			if got == nil || !ref.EqualNum(got, want) {
				return fail("`%s`\n input    %s\n expected %s (document minus the union of both selections)\n observed %s", expr, doc, want, got)
			}
		}
		res.Verdict, res.Nontrivial = mon.Held, nontrivial(doc, all)
		res.Detail = fmt.Sprintf("%d+%d location(s), both orders agree", len(t1), len(t2))
		return res

	case "exploded":
		// a document just exploded: entries that came in through merge keys are entries of the map they were merged
		// into; deleting one removes it there (and nowhere else)
		text := c16MergeDoc(r)
		cs["doc"] = text
		exOut, e0, p0 := yqx.Eval("explode(.)", text, "yaml", "json")
		res.Evals++
		if e0 != nil || p0 != nil {
			return skip("explode failed")
		}
		dv, pe := ref.ParseJSONStream(exOut)
		if pe != nil || len(dv) != 1 || dv[0].K != ref.Map {
			return skip("explode output not a single map")
		}
		derived := dv[0]
		var holders []string
		for _, kv := range derived.M {
			if kv.V.K == ref.Map && len(kv.V.M) >= 2 && kv.K != "base" && kv.K != "extra" {
				holders = append(holders, kv.K)
			}
		}
		if len(holders) == 0 {
			return skip("no merging map")
		}
		hk := holders[r.IntN(len(holders))]
		h, _ := derived.Get(hk)
		e1 := h.M[r.IntN(len(h.M))].K
		e2 := h.M[r.IntN(len(h.M))].K
		var expr string
		var del [][]any
		switch r.IntN(3) {
		case 0:
			expr, del = fmt.Sprintf("explode(.) | del(.%s.%s)", hk, e1), [][]any{{hk, e1}}
		case 1:
			expr, del = fmt.Sprintf("explode(.) | del(.%s.%s, .%s.%s)", hk, e1, hk, e2), [][]any{{hk, e1}, {hk, e2}}
		default:
			if hk == "nested" {
				// (an anchored map others merge: what is deleted from it is, rightly, gone for them too)
				return skip("holder is an anchored map")
			}
			expr, del = fmt.Sprintf("explode(.%s) | del(.%s.%s)", hk, hk, e1), nil
			// only that sub-tree is exploded: the expectation is taken from yq's own `explode(.hk)` output
			o2, e2x, p2x := yqx.Eval(fmt.Sprintf("explode(.%s)", hk), text, "yaml", "json")
			res.Evals++
			if e2x != nil || p2x != nil {
				return skip("partial explode failed")
			}
			d2, pe2 := ref.ParseJSONStream(o2)
			if pe2 != nil || len(d2) != 1 {
				return skip("partial explode output")
			}
			derived, del = d2[0], [][]any{{hk, e1}}
		}
		cs["expr"] = expr
		res.Sig = fmt.Sprintf("exploded|%s|%x", expr, hashStr(text))
		want := ref.DeletePaths(derived, del)
		gotOut, e3, p3 := yqx.Eval(expr, text, "yaml", "json")
		res.Evals++
		if e3 != nil || p3 != nil {
			return fail("`%s` failed: %v %v", expr, e3, p3)
		}
		gv, pe3 := ref.ParseJSONStream(gotOut)
		if pe3 != nil || len(gv) != 1 || !ref.EqualNum(gv[0], want) {
			return fail("`%s`\n input of del %s\n expected     %s\n observed     %s", expr, derived, want, clipStr(gotOut, 900))
		}
		res.Verdict, res.Nontrivial, res.Detail = mon.Held, true, "entry removed from the map it was merged into"
		return res

	case "mapderived":
		// a MAP just produced by + or * of two maps that share keys: deleting an entry of the result removes
		// that entry of the result (whichever operand its value came from)
		keys := []string{"x", "y", "z", "w", "v"}
		mk := func() *ref.V {
			m := &ref.V{K: ref.Map, M: []ref.KV{}}
			for _, k := range keys {
				if r.IntN(5) < 3 {
					m.M = append(m.M, ref.KV{K: k, V: gen.SimpleValue(r, 1)})
				}
			}
			return m
		}
		a, b := mk(), mk()
		d2 := ref.MapV(ref.KV{K: "a", V: a}, ref.KV{K: "b", V: b}, ref.KV{K: "keep", V: ref.IntV(1)})
		f := []string{".a + .b", ".a * .b", ".b + .a", `.a + {"y": 5, "q": 6}`, `.a * {"x": {"n": 1}}`, ".a *+ .b", `{"y": 0, "z": 0} + .b`, ".a + .b + .a"}[r.IntN(8)]
		derived, _, derr := evalDoc(f, d2)
		res.Evals++
		if derr != nil || derived == nil || derived.K != ref.Map || len(derived.M) == 0 {
			return skip("deriving expression not defined here")
		}
		var selStr string
		var del [][]any
		pickKey := func() string { return derived.M[r.IntN(len(derived.M))].K }
		switch r.IntN(4) {
		case 0:
			k := pickKey()
			selStr, del = "."+k, [][]any{{k}}
		case 1:
			k1, k2 := pickKey(), pickKey()
			selStr, del = "."+k1+", ."+k2, [][]any{{k1}, {k2}}
		case 2:
			kv := derived.M[r.IntN(len(derived.M))]
			// (numbers are not used: the value is read back from JSON, where 100.0 is spelled 100)
			// (nor booleans / strings spelled like another type: `"true" == true` holds for yq's ==)
			if !(kv.V.K == ref.Str && ref.ExprStringOK(kv.V.S) && !hasGlob(kv.V.S) && !c06LooksTyped(kv.V.S) && kv.V.S != "") {
				return skip("no plain string to select by")
			}
			selStr = ".[] | select(. == " + ref.Lit(kv.V).String() + ")"
			for _, o := range derived.M {
				if ref.NodeEqual(o.V, kv.V) {
					del = append(del, []any{o.K})
				}
			}
		default:
			k := pickKey()
			selStr, del = `.["`+k+`"]`, [][]any{{k}}
		}
		for _, p := range del {
			if !identOK(fmt.Sprint(p[0])) {
				return skip("key not printable as a path element")
			}
		}
		expr := f + " | del(" + selStr + ")"
		cs["expr"], cs["doc"] = expr, d2.JSON()
		res.Tags = append(res.Tags, "f:"+f)
		res.Sig = fmt.Sprintf("mapderived|%s|%s|%x", f, selStr, d2.ShapeHash())
		want := ref.DeletePaths(derived, del)
		got, _, yerr := evalDoc(expr, d2)
		res.Evals++
		if yerr != nil {
			return fail("`%s` failed: %v", expr, yerr)
		}
		if got == nil || !ref.EqualNum(got, want) {
			return fail("`%s`\n input of del %s\n expected     %s\n observed     %s", expr, derived, want, got)
		}
		res.Verdict, res.Nontrivial = mon.Held, len(derived.M) > len(del)
		res.Detail = fmt.Sprintf("%d of %d entries removed from the result of %s", len(del), len(derived.M), f)
		return res

	case "side":
		// a side computation over a container (bound to a variable, or stored next to it) before the delete:
		// the delete still removes exactly the selection from the container it addresses, the other one is untouched
		if doc.K != ref.Map {
			doc = ref.MapV(ref.KV{K: "a", V: doc})
			cs["doc"] = doc.JSON()
		}
		var conts [][]any
		doc.Walk(nil, func(pth []any, n *ref.V) {
			if (n.K == ref.Seq || n.K == ref.Map) && len(n.A)+len(n.M) >= 1 && len(pth) >= 1 && len(pth) <= 2 {
				for _, k := range pth {
					if s, isS := k.(string); isS && !identOK(s) {
						return
					}
				}
				conts = append(conts, append([]any{}, pth...))
			}
		})
		if len(conts) == 0 {
			return skip("no container")
		}
		sp := conts[r.IntN(len(conts))]
		src, _ := doc.GetPath(sp)
		pathTo := ref.PathExpr{}
		for _, k := range sp {
			switch kk := k.(type) {
			case string:
				pathTo.Steps = append(pathTo.Steps, ref.Step{Kind: "key", Key: kk})
			case int:
				pathTo.Steps = append(pathTo.Steps, ref.Step{Kind: "idx", Idx: kk})
			}
		}
		SP := pathTo.String()
		var f *ref.Expr
		fname := "[.[]]"
		if src.K == ref.Seq && r.IntN(3) > 0 {
			d := c03Derives[r.IntN(len(c03Derives))]
			f, fname = d.mk(r, src), d.name
		} else {
			f = &ref.Expr{Op: ref.OpCollect, L: &ref.Expr{Op: ref.OpSplat}}
		}
		dl, err := ref.Eval(f, []*ref.V{src.Copy()}, ref.Env{T: &ref.Trace{}})
		if err != nil || len(dl) != 1 || dl[0].K != ref.Seq || len(dl[0].A) == 0 {
			return skip("deriving function not defined here")
		}
		derived := dl[0]
		res.Tags = append(res.Tags, "f:"+fname)
		form := r.IntN(4)
		if src.K == ref.Map && form < 2 {
			form = 2
		}
		if form == 3 {
			// the delete works on the DERIVED value inside an assignment; the source it was derived from is still there
			// afterwards (also when the deriving function had nothing to do: one element, already sorted ...)
			selStr, ts, ok := c03SeqSelection(r, derived)
			if !ok {
				return skip("selection not defined")
			}
			var exprS string
			wantS := doc.Copy()
			after := ref.DeletePaths(derived, paths(ts))
			switch r.IntN(3) {
			case 0:
				exprS = fmt.Sprintf(".zz_side = (%s | %s | del(%s))", SP, f.String(), selStr)
				_ = ref.SetPath(wantS, []any{"zz_side"}, after)
			case 1:
				exprS = fmt.Sprintf("(%s | %s | del(%s)) as $r | .zz_side = $r", SP, f.String(), selStr)
				_ = ref.SetPath(wantS, []any{"zz_side"}, after)
			default:
				exprS = fmt.Sprintf("[%s, (%s | %s | del(%s))] as $p | .zz_side = $p", SP, SP, f.String(), selStr)
				_ = ref.SetPath(wantS, []any{"zz_side"}, ref.SeqV(src.Copy(), after))
			}
			cs["expr"] = exprS
			res.Tags = append(res.Tags, "side_form:3")
			res.Sig = fmt.Sprintf("side|3|%s|%x", fname, doc.ShapeHash())
			gotS, _, yerrS := evalDoc(exprS, doc)
			res.Evals++
			if yerrS != nil {
				return fail("`%s` failed: %v", exprS, yerrS)
			}
			if gotS == nil || !ref.EqualNum(gotS, wantS) {
				return fail("`%s`\n input    %s\n expected %s\n observed %s", exprS, doc, wantS, gotS)
			}
			res.Verdict, res.Nontrivial, res.Detail = mon.Held, true, "delete on the derived value leaves its source alone"
			return res
		}
		var expr string
		want := doc.Copy()
		var nt bool
		switch form {
		case 0, 1: // delete from the source after the side computation
			selStr, ts, ok := c03SeqSelection(r, src)
			if !ok {
				return skip("selection not defined")
			}
			if form == 0 {
				expr = fmt.Sprintf("(%s | %s | length) as $n | del(%s | %s)", SP, f.String(), SP, selStr)
			} else {
				expr = fmt.Sprintf(".zz_side = (%s | %s) | del(%s | %s)", SP, f.String(), SP, selStr)
				_ = ref.SetPath(want, []any{"zz_side"}, derived)
			}
			var full [][]any
			for _, t := range ts {
				full = append(full, append(append([]any{}, sp...), t.Path...))
			}
			want = ref.DeletePaths(want, full)
			nt = nontrivial(src, ts)
		default: // delete from the derived copy: the source keeps its entries and its keys
			selStr, ts, ok := c03SeqSelection(r, derived)
			if !ok {
				return skip("selection not defined")
			}
			expr = fmt.Sprintf(".zz_side = (%s | %s) | del(.zz_side | %s)", SP, f.String(), selStr)
			_ = ref.SetPath(want, []any{"zz_side"}, derived)
			var full [][]any
			for _, t := range ts {
				full = append(full, append([]any{"zz_side"}, t.Path...))
			}
			want = ref.DeletePaths(want, full)
			nt = nontrivial(derived, ts)
		}
		res.Tags = append(res.Tags, fmt.Sprintf("side_form:%d", form))
		cs["expr"] = expr
		res.Sig = fmt.Sprintf("side|%d|%s|%x", form, fname, doc.ShapeHash())
		got, _, yerr := evalDoc(expr, doc)
		res.Evals++
		if yerr != nil {
			return fail("`%s` failed: %v", expr, yerr)
		}
		if got == nil || !ref.EqualNum(got, want) {
			return fail("`%s`\n input    %s\n expected %s\n observed %s", expr, doc, want, got)
		}
		res.Verdict, res.Nontrivial, res.Detail = mon.Held, nt, "side computation does not disturb the delete"
		return res

	case "derived":
		// find a sequence in the document
		var seqs [][]any
		doc.Walk(nil, func(pth []any, n *ref.V) {
			if n.K == ref.Seq && len(n.A) >= 2 && len(pth) <= 2 {
				ok := true
				for _, k := range pth {
					if s, isS := k.(string); isS && !identOK(s) {
						ok = false
					}
				}
				if ok {
					seqs = append(seqs, append([]any{}, pth...))
				}
			}
		})
		if len(seqs) == 0 {
			return skip("no sequence to derive from")
		}
		sp := seqs[r.IntN(len(seqs))]
		seq, _ := doc.GetPath(sp)
		d := c03Derives[r.IntN(len(c03Derives))]
		f := d.mk(r, seq)
		res.Tags = append(res.Tags, "f:"+d.name)
		derivedL, err := ref.Eval(f, []*ref.V{seq.Copy()}, ref.Env{T: &ref.Trace{}})
		if err != nil || len(derivedL) != 1 || derivedL[0].K != ref.Seq {
			return skip("deriving function not defined here")
		}
		derived := derivedL[0]
		if len(derived.A) == 0 {
			return skip("derived sequence is empty")
		}
		// selection inside the derived sequence
		var pe ref.PathExpr
		switch r.IntN(4) {
		case 0:
			pe = ref.PathExpr{Steps: []ref.Step{{Kind: "idx", Idx: r.IntN(len(derived.A))}}}
		case 1:
			pe = ref.PathExpr{Steps: []ref.Step{{Kind: "idx", Idx: -1 - r.IntN(len(derived.A))}}}
		case 2:
			// several indices of the one sequence: .[i, j, k] is printed through an Index expression
			pe = ref.PathExpr{Steps: []ref.Step{{Kind: "splat"}}, Pred: ref.Bin("==", ref.Self(), ref.Lit(pickScalar(r, derived)))}
		default:
			pe = ref.PathExpr{Steps: []ref.Step{{Kind: "splat"}}, Pred: ref.Bin("!=", ref.Self(), ref.Lit(pickScalar(r, derived)))}
		}
		var selStr string
		var ts []ref.Target
		if r.IntN(4) == 0 && len(derived.A) >= 2 {
			// multi-index form
			i, j := r.IntN(len(derived.A)), r.IntN(len(derived.A))
			selStr = fmt.Sprintf(".[%d, %d]", i, j)
			ts = []ref.Target{{Path: []any{i}}, {Path: []any{j}}}
			res.Tags = append(res.Tags, "sel:multi_index")
		} else {
			var rerr error
			ts, rerr = ref.Resolve(derived, pe, false)
			if rerr != nil {
				return skip("selection not defined")
			}
			selStr = pe.String()
			res.Tags = append(res.Tags, "sel:"+pathShape(pe))
		}
		pathTo := ref.PathExpr{}
		for _, k := range sp {
			switch kk := k.(type) {
			case string:
				pathTo.Steps = append(pathTo.Steps, ref.Step{Kind: "key", Key: kk})
			case int:
				pathTo.Steps = append(pathTo.Steps, ref.Step{Kind: "idx", Idx: kk})
			}
		}
		expr := pathTo.String() + " | " + f.String() + " | del(" + selStr + ")"
		cs["expr"] = expr
		res.Sig = fmt.Sprintf("derived|%s|%s|%x", d.name, selStr, seq.ShapeHash())
		want := ref.DeletePaths(derived, paths(ts))
		got, _, yerr := evalDoc(expr, doc)
		res.Evals++
		if yerr != nil {
			return fail("`%s` failed: %v", expr, yerr)
		}
		if got == nil || !ref.EqualNum(got, want) {
			return fail("`%s`\n input of del %s\n expected     %s\n observed     %s", expr, derived, want, got)
		}
		res.Verdict, res.Nontrivial = mon.Held, nontrivial(derived, ts)
		res.Detail = fmt.Sprintf("%d of %d element(s) removed from the %s result", len(ts), len(derived.A), d.name)
		return res
	}
	return skip("?")
}

// c03SeqSelection picks a selection inside one sequence: an index, an index from the end, two indices, or
// the elements (not) equal to one of its scalars. The string is relative to the sequence (`.[1]`, `.[] | select(..)`).
func c03SeqSelection(r *rand.Rand, seq *ref.V) (string, []ref.Target, bool) {
	n := len(seq.A)
	if n == 0 {
		return "", nil, false
	}
	var pe ref.PathExpr
	switch r.IntN(5) {
	case 0:
		pe = ref.PathExpr{Steps: []ref.Step{{Kind: "idx", Idx: r.IntN(n)}}}
	case 1:
		pe = ref.PathExpr{Steps: []ref.Step{{Kind: "idx", Idx: -1 - r.IntN(n)}}}
	case 2:
		i, j := r.IntN(n), r.IntN(n)
		return fmt.Sprintf(".[%d, %d]", i, j), []ref.Target{{Path: []any{i}}, {Path: []any{j}}}, true
	case 3:
		pe = ref.PathExpr{Steps: []ref.Step{{Kind: "splat"}}, Pred: ref.Bin("==", ref.Self(), ref.Lit(pickScalar(r, seq)))}
	default:
		pe = ref.PathExpr{Steps: []ref.Step{{Kind: "splat"}}, Pred: ref.Bin("!=", ref.Self(), ref.Lit(pickScalar(r, seq)))}
	}
	ts, err := ref.Resolve(seq, pe, false)
	if err != nil {
		return "", nil, false
	}
	return pe.String(), ts, true
}

func identOK(s string) bool {
	if s == "" {
		return false
	}
	for i, c := range s {
		if !(c == '_' || c >= 'a' && c <= 'z' || c >= 'A' && c <= 'Z' || (i > 0 && c >= '0' && c <= '9')) {
			return false
		}
	}
	return true
}

func pickScalar(r *rand.Rand, seq *ref.V) *ref.V {
	var sc []*ref.V
	for _, x := range seq.A {
		if x.IsScalar() && x.K != ref.Float && (x.K != ref.Str || (ref.ExprStringOK(x.S) && !hasGlob(x.S))) {
			sc = append(sc, x)
		}
	}
	if len(sc) == 0 {
		return ref.IntV(1)
	}
	return sc[r.IntN(len(sc))].Copy()
}

func hasGlob(s string) bool {
	for _, c := range s {
		if c == '*' || c == '?' || c == '"' || c < 0x20 {
			return true
		}
	}
	return false
}

// c03Selection builds a read-only selection on doc.
func c03Selection(r *rand.Rand, doc *ref.V) ref.PathExpr {
	if r.IntN(5) == 0 {
		// several indices / keys of one container through a splat + predicate on its children
		pe := gen.RandomPath(r, doc, gen.PathOpts{NoRoot: true})
		// replace the last step by a splat with a predicate
		if len(pe.Steps) > 0 && pe.Pred == nil {
			pe.Steps[len(pe.Steps)-1] = ref.Step{Kind: "splat"}
			ts, err := ref.Resolve(doc, pe, false)
			if err == nil && len(ts) > 0 {
				if x, ok := doc.GetPath(ts[r.IntN(len(ts))].Path); ok && x.IsScalar() && x.K != ref.Float && (x.K != ref.Str || (ref.ExprStringOK(x.S) && !hasGlob(x.S))) {
					pe.Pred = ref.Bin([]string{"==", "!="}[r.IntN(2)], ref.Self(), ref.Lit(x.Copy()))
				}
			}
			return pe
		}
	}
	return gen.RandomPath(r, doc, gen.PathOpts{AllowMulti: true, NoRoot: true})
}
