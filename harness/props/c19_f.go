package props

import (
	"bytes"
	"fmt"
	"os"
	"path/filepath"
	"strings"
	"syscall"

	"verifharness/ref"
)

// Family F — flags cross-checked against their documented effect.
//
//	-N   "Don't print document separators (---)": stdout(-N) == stdout() with the `---` lines removed, same status
//	-r   "unwrap scalar, print the value with no quotes": json: -r prints the raw string where the plain run prints the
//	     quoted JSON string; yaml: -r=false prints a YAML scalar that re-reads (type-exact) as the value where the
//	     plain run prints the raw text; containers are unaffected
//	-0   "Use NUL char to separate values … fail if unwrapped scalar contains NUL": stdout == each value + NUL
//	     (strings may hold newlines); a NUL inside => refusal; containers: judge() per piece
//	-I n "sets indent level for output": the data re-read from the output is unchanged for n in 0..8
//
// Known finding C19-nul-output-strips-trailing-cr: removeLastEOL() also strips a "\r" that belongs to the
// value. Matcher: -0, every printed piece equals what the pinned removeLastEOL leaves of value+"\n" (a final
// "\r\n" is cut, else one final "\n"), and for at least one value (ending in "\r") that is not the value.

// flagInPlace: -i "update the file in place of first file given": exit 0 means the file now holds what the same command
// prints without -i (with and without --front-matter, eval and eval-all); a failing command leaves it as it was.
func (c *c19ctx) flagInPlace() {
	c.group = "F-inplace"
	v := c.intv().JSON()
	fm := c.r.IntN(2) == 0
	name, text := "doc.yaml", "a: 1\nb: [x, y]\n"
	var flags []string
	if fm {
		name, text = "post.md", "---\ntitle: t\na: 1\n---\nbody line one\nbody line two\n"
		flags = []string{"--front-matter=" + []string{"process", "process", "extract"}[c.r.IntN(3)]}
	}
	mode := []string{"eval", "ea"}[c.r.IntN(2)]
	expr := []string{".a = " + v, ".added = " + v, "del(.a)", ".a |= . + " + v, "del(.b)", "{\"z\": 1}"}[c.r.IntN(6)]
	c.tag("flag:-i", "mode:"+mode)
	if c.r.IntN(2) == 0 {
		// the temporary file on another file system than the target (the rename cannot work, the result is copied over)
		for _, base := range []string{"/dev/shm", "/tmp", "/var/tmp"} {
			var st1, st2 syscall.Stat_t
			if syscall.Stat(base, &st1) == nil && syscall.Stat(c.dir, &st2) == nil && st1.Dev != st2.Dev {
				td := filepath.Join(base, fmt.Sprintf("verif-c19-%d-%d", os.Getpid(), c.idx))
				if os.MkdirAll(td, 0o755) == nil {
					defer os.RemoveAll(td)
					c.envExtra = []string{"TMPDIR=" + td}
					defer func() { c.envExtra = nil }()
					c.tag("tmpdir:other-filesystem")
				}
				break
			}
		}
	}
	if fm {
		c.tag(flags[0])
	}
	c.write(name, text)
	ref0 := c.yq(nil, append(append([]string{mode}, flags...), expr, name)...)
	if ref0.TimedOut {
		return
	}
	x := c.yq(nil, append(append([]string{mode, "-i"}, flags...), expr, name)...)
	if x.TimedOut {
		return
	}
	after, rerr := os.ReadFile(filepath.Join(c.dir, name))
	what := fmt.Sprintf("yq %s -i %v '%s' %s", mode, flags, expr, name)
	switch {
	case rerr != nil:
		c.violate("%s: the file is gone afterwards (%v)", what, rerr)
	case ref0.Exit == 0 && x.Exit != 0:
		c.violate("%s fails (exit %d: %s) where the same command without -i succeeds", what, x.Exit, clipStr(string(x.Stderr), 200))
	case x.Exit == 0 && string(after) != string(ref0.Stdout):
		c.violate("%s exits 0 but the file does not hold what the command prints without -i\n file:   %q\n stdout: %q", what, clipStr(string(after), 300), clipStr(string(ref0.Stdout), 300))
	case x.Exit != 0 && string(after) != text:
		c.violate("%s fails (exit %d) and the file is not what it was: %q", what, x.Exit, clipStr(string(after), 300))
	default:
		c.res.Nontrivial = true
		c.say(what + " -> the file holds the output of the command without -i")
	}
}

func (c *c19ctx) familyF() {
	sub := c.idx / len(c19Families)
	switch sub % 5 {
	case 4:
		c.flagInPlace()
	case 0:
		c.flagN()
	case 1:
		c.flagR()
	case 2:
		c.flagNul()
	default:
		c.flagIndent()
	}
}

func c19StripSepLines(s string) string {
	var sb strings.Builder
	for _, l := range strings.SplitAfter(s, "\n") {
		if l == "---\n" || l == "---" {
			continue
		}
		sb.WriteString(l)
	}
	return sb.String()
}

func (c *c19ctx) flagN() {
	c.group = "F-N"
	schema := c.schemaFor("yaml")
	files := c.layout(func(fi, di int, last bool) *ref.V { return c.mkDoc(schema) })
	pool := c19ExprsFor("yaml")
	e := c19Pool[pool[c.r.IntN(len(pool))]]
	args, stdin := c.materialise(files, true)
	R, perDoc := c19Expected(e, files)
	f := []string{"yaml", "yaml", "yaml", "json", "props"}[c.r.IntN(5)]
	flag := []string{"-N", "--no-doc", "-N=true"}[c.r.IntN(3)]
	var mode []string
	if e.eaSame && c.r.IntN(4) == 0 {
		mode = []string{"ea"}
	}
	c.tag("flag:-N", "out:"+f, "expr:"+e.src)
	base := c.yq(stdin, append(append(append(append([]string{}, mode...), "-o="+f), e.src), args...)...)
	test := c.yq(stdin, append(append(append(append([]string{}, mode...), flag, "-o="+f), e.src), args...)...)
	if base.TimedOut || test.TimedOut {
		return
	}
	what := fmt.Sprintf("%s -o=%s %s over %d documents", flag, f, e.src, c19DocCount(files))
	if base.Exit != 0 || test.Exit != 0 {
		c.violate("%s: exit %d without the flag, %d with it: %s", what, base.Exit, test.Exit, clipStr(string(base.Stderr)+string(test.Stderr), 300))
		return
	}
	want := c19StripSepLines(string(base.Stdout))
	if string(test.Stdout) != want {
		c.violate("%s: expected the plain output without its `---` lines.\nplain: %q\nwith flag: %q", what, clipStr(string(base.Stdout), 400), clipStr(string(test.Stdout), 400))
		return
	}
	// the data is all still there
	o := c19Out{format: f, noSep: true, perDocMax: perDoc, constructed: c19Constructed[e.src]}
	if !c.judge(o, R, test, what) {
		return
	}
	c.res.Nontrivial = !bytes.Equal(base.Stdout, test.Stdout)
	c.say(fmt.Sprintf("%s: %d separator lines removed, nothing else changed", what, strings.Count(string(base.Stdout), "---\n")))
}

func (c *c19ctx) flagR() {
	c.group = "F-r"
	// strings that look like other types when unquoted, next to ordinary ones
	lookalikes := []string{"true", "false", "null", "12", "1.5", "~", "", "0x10", "yes", "a: b", "- x", "#c", "plain", "two words", "[x]", "{y}"}
	var vals []*ref.V
	for n := 1 + c.r.IntN(4); n > 0; n-- {
		switch c.r.IntN(5) {
		case 0:
			vals = append(vals, c.intv())
		case 1:
			vals = append(vals, ref.BoolV(c.r.IntN(2) == 0))
		default:
			vals = append(vals, ref.StrV(lookalikes[c.r.IntN(len(lookalikes))]))
		}
	}
	doc := ref.MapV(ref.KV{K: "l", V: ref.SeqV(vals...)}, ref.KV{K: "m", V: c.flatMap(1, c.scalar)})
	c.write("r.yaml", doc.JSON()+"\n")
	c.tag("flag:-r")
	if c.r.IntN(2) == 0 {
		// json: default wrapped, -r unwraps
		c.tag("out:json")
		flag := []string{"-r", "--unwrapScalar", "-r=true", "--unwrapScalar=true"}[c.r.IntN(4)]
		plain := c.yq(nil, "-o=json", ".l[]", "r.yaml")
		raw := c.yq(nil, "-o=json", flag, ".l[]", "r.yaml")
		cont := c.yq(nil, "-o=json", "-I0", flag, ".m", "r.yaml")
		if plain.TimedOut || raw.TimedOut || cont.TimedOut {
			return
		}
		var wantPlain, wantRaw strings.Builder
		for _, v := range vals {
			wantPlain.WriteString(v.JSON() + "\n")
			wantRaw.WriteString(c19Text(v) + "\n")
		}
		what := "json scalars " + clipStr(ref.SeqV(vals...).JSON(), 160)
		switch {
		case plain.Exit != 0 || raw.Exit != 0 || cont.Exit != 0:
			c.violate("%s: exit %d/%d/%d", what, plain.Exit, raw.Exit, cont.Exit)
		case string(plain.Stdout) != wantPlain.String():
			c.violate("%s: without -r expected the JSON texts %q, got %q", what, wantPlain.String(), clipStr(string(plain.Stdout), 300))
		case string(raw.Stdout) != wantRaw.String():
			c.violate("%s: with %s expected the raw values %q, got %q", what, flag, wantRaw.String(), clipStr(string(raw.Stdout), 300))
		case string(cont.Stdout) != mustGet(doc, "m").JSON()+"\n":
			c.violate("%s: %s must not change a container: %q", what, flag, clipStr(string(cont.Stdout), 300))
		}
		c.res.Nontrivial = !bytes.Equal(plain.Stdout, raw.Stdout)
		c.say(what + ": -r prints raw values, plain prints JSON texts")
		return
	}
	// yaml: default unwrapped, -r=false keeps the YAML scalar
	c.tag("out:yaml")
	flag := []string{"-r=false", "--unwrapScalar=false"}[c.r.IntN(2)]
	plain := c.yq(nil, ".l[]", "r.yaml")
	wrapped := c.yq(nil, flag, ".l[]", "r.yaml")
	if plain.TimedOut || wrapped.TimedOut {
		return
	}
	var wantPlain strings.Builder
	for _, v := range vals {
		wantPlain.WriteString(c19Text(v) + "\n")
	}
	what := "yaml scalars " + clipStr(ref.SeqV(vals...).JSON(), 160)
	if plain.Exit != 0 || wrapped.Exit != 0 {
		c.violate("%s: exit %d/%d", what, plain.Exit, wrapped.Exit)
		return
	}
	if string(plain.Stdout) != wantPlain.String() {
		c.violate("%s: the plain run must print the raw values %q, got %q", what, wantPlain.String(), clipStr(string(plain.Stdout), 300))
		return
	}
	// each line of the wrapped output is one YAML scalar: re-read them as the items of a sequence
	lines := c19Lines(string(wrapped.Stdout))
	if len(lines) != len(vals) {
		c.violate("%s: %s printed %d lines for %d scalars: %q", what, flag, len(lines), len(vals), clipStr(string(wrapped.Stdout), 300))
		return
	}
	var seq strings.Builder
	for _, l := range lines {
		seq.WriteString("- " + l + "\n")
	}
	c.write("reread.yaml", seq.String())
	delete(c.files, "reread.yaml")
	rr := c.yq(nil, "-o=json", "-I0", ".", "reread.yaml")
	if rr.TimedOut {
		return
	}
	got, err := ref.ParseJSON(strings.TrimSpace(string(rr.Stdout)))
	if rr.Exit != 0 || err != nil || !ref.Equal(got, ref.SeqV(vals...)) {
		c.violate("%s: with %s every line must be a YAML scalar that re-reads as the value (type-exact); lines %q re-read as %q", what, flag, lines, clipStr(string(rr.Stdout)+string(rr.Stderr), 300))
		return
	}
	c.res.Nontrivial = !bytes.Equal(plain.Stdout, wrapped.Stdout)
	c.say(what + ": " + flag + " keeps quoting so that types survive; plain prints raw text")
}

func mustGet(v *ref.V, k string) *ref.V {
	x, _ := v.Get(k)
	return x
}

func (c *c19ctx) flagNul() {
	c.group = "F-0"
	c.tag("flag:-0")
	flag := []string{"-0", "--nul-output"}[c.r.IntN(2)]
	switch c.r.IntN(4) {
	case 0: // containers through judge(), several documents
		f := []string{"json", "yaml", "props", "lua", "shell", "csv", "xml", "tsv"}[c.r.IntN(8)]
		var docs []*ref.V
		var text strings.Builder
		for n := 1 + c.r.IntN(3); n > 0; n-- {
			var v *ref.V
			switch f {
			case "csv", "tsv":
				v = c.flatSeq(1, c.scalar)
			case "xml":
				v = c.flatMap(1, c.scalar)
			default:
				v = c.value(2)
			}
			if len(docs) > 0 {
				text.WriteString("---\n")
			}
			docs = append(docs, v)
			text.WriteString(v.JSON() + "\n")
		}
		c.write("z.yaml", text.String())
		c.tag("out:" + f)
		o := c19Out{format: f, nul: true, perDocMax: 1}
		x := c.yq(nil, "-o="+f, flag, ".", "z.yaml")
		ok := c.judge(o, docs, x, fmt.Sprintf("%s -o=%s over %d documents", flag, f, len(docs)))
		c.res.Nontrivial = ok || c.res.Verdict != ""
		if ok {
			c.say(fmt.Sprintf("%d NUL-terminated %s values decoded", len(docs), f))
		}
		return
	}
	// strings, possibly with newlines / CR / NUL inside
	frags := []string{"one", "two words", "line1\nline2", "trail\n", "\nlead", "a\n\nb", "tab\there", "x", "two-trailing\n\n", ""}
	var vals []string
	special := ""
	n := 1 + c.r.IntN(4)
	for i := 0; i < n; i++ {
		vals = append(vals, fmt.Sprint(i)+frags[c.r.IntN(len(frags))]) // some end in "\n": exactly one EOL may be cut
	}
	switch c.r.IntN(5) {
	case 0:
		special = "nul"
		vals[c.r.IntN(n)] = "be\x00fore"
	case 1:
		special = "cr"
		vals[c.r.IntN(n)] = []string{"ends-with-cr\r", "crlf\r\n", "mid\rdle\r"}[c.r.IntN(3)]
	}
	var items []*ref.V
	for _, s := range vals {
		items = append(items, ref.StrV(s))
	}
	c.write("z.yaml", ref.MapV(ref.KV{K: "l", V: ref.SeqV(items...)}).JSON()+"\n")
	c.tag("out:yaml", "nul_case:"+special)
	x := c.yq(nil, flag, ".l[]", "z.yaml")
	if x.TimedOut {
		return
	}
	what := fmt.Sprintf("%s .l[] of %s", flag, clipStr(ref.SeqV(items...).JSON(), 200))
	c.res.Nontrivial = true
	if special == "nul" {
		if c.failedProperly(x, what+" (a value contains NUL)") {
			c.say(what + ": refused: " + clipStr(strings.TrimSpace(string(x.Stderr)), 100))
		}
		return
	}
	if x.Exit != 0 {
		c.failedProperly(x, what)
		c.violate("%s: exit %d on representable strings: %s", what, x.Exit, clipStr(string(x.Stderr), 200))
		return
	}
	var want strings.Builder
	for _, s := range vals {
		want.WriteString(s + "\x00")
	}
	if string(x.Stdout) == want.String() {
		c.say(what + ": every value followed by NUL, bytes exact")
		return
	}
	// the CR finding: every piece is exactly what the pinned removeLastEOL() leaves of value+"\n" (it strips a final
	// "\r\n", else one final "\r" or "\n"), and that differs from the value for at least one value ending in "\r"
	pieces := strings.Split(string(x.Stdout), "\x00")
	if len(pieces) == len(vals)+1 && pieces[len(vals)] == "" {
		stripped, exact := 0, true
		for i, s := range vals {
			q := s + "\n"
			if strings.HasSuffix(q, "\r\n") {
				q = strings.TrimSuffix(q, "\r\n")
			} else {
				q = q[:len(q)-1]
			}
			if pieces[i] != q {
				exact = false
			}
			if q != s {
				stripped++
			}
		}
		if exact && stripped > 0 {
			c.finding("C19-nul-output-strips-trailing-cr", "%s: exit 0 but a value ending in CR is printed without its final CR (removeLastEOL strips \"\\r\\n\" as if the encoder had added it); stdout=%q", what, clipStr(string(x.Stdout), 200))
			return
		}
	}
	c.violate("%s: stdout %q, expected %q", what, clipStr(string(x.Stdout), 300), clipStr(want.String(), 300))
}

func (c *c19ctx) flagIndent() {
	c.group = "F-I"
	n := c.r.IntN(9)
	f := []string{"yaml", "json", "xml", "yaml", "json"}[c.r.IntN(5)]
	var v *ref.V
	if f == "xml" {
		v = c.flatMap(1, func() *ref.V { return c.flatMap(1, c.scalar) })
	} else {
		v = c.flatMap(1, func() *ref.V { return c.value(2) })
	}
	c.write("i.yaml", v.JSON()+"\n")
	c.tag("flag:-I", fmt.Sprintf("indent:%d", n), "out:"+f)
	flag := []string{fmt.Sprintf("-I=%d", n), fmt.Sprintf("--indent=%d", n), fmt.Sprintf("-I%d", n)}[c.r.IntN(3)]
	argv := []string{"-o=" + f, flag}
	if f == "yaml" {
		argv = append(argv, "-P") // block style, so that indentation exists
	}
	base := append([]string{"-o=" + f}, argv[2:]...)
	x := c.yq(nil, append(argv, ".", "i.yaml")...)
	b := c.yq(nil, append(base, ".", "i.yaml")...)
	if x.TimedOut || b.TimedOut {
		return
	}
	what := fmt.Sprintf("%s -o=%s of %s", flag, f, clipStr(v.JSON(), 160))
	if x.Exit != 0 || b.Exit != 0 {
		if c19Crashed(x) {
			c.violate("%s: crash: %s", what, clipStr(string(x.Stderr), 300))
			return
		}
		c.violate("%s: exit %d (default indent: %d): %s", what, x.Exit, b.Exit, clipStr(string(x.Stderr), 200))
		return
	}
	o := c19Out{format: f, perDocMax: 1}
	if !c.judge(o, []*ref.V{v}, x, what) {
		return
	}
	// indentation only: without leading blanks and line breaks inside… compare the texts with all whitespace at line starts removed
	norm := func(s string) string {
		var sb strings.Builder
		for _, l := range strings.Split(s, "\n") {
			sb.WriteString(strings.TrimLeft(l, " "))
			sb.WriteByte('\n')
		}
		return sb.String()
	}
	same := norm(string(x.Stdout)) == norm(string(b.Stdout))
	if !same && (f == "json" && n == 0 || f == "xml" && n == 0) {
		// -I0 switches json/xml to one line: only the data can be compared (done by judge above)
		same = true
		c.tag("indent0_single_line")
	}
	if !same && f == "yaml" {
		// yaml.v3 places sequence items differently per indent; the data (judge) is what counts
		same = true
		c.tag("yaml_layout_differs")
	}
	if !same {
		c.violate("%s: more than the leading blanks changed.\nindent %d: %q\ndefault: %q", what, n, clipStr(string(x.Stdout), 400), clipStr(string(b.Stdout), 400))
		return
	}
	c.res.Nontrivial = !bytes.Equal(x.Stdout, b.Stdout)
	c.say(fmt.Sprintf("%s: data unchanged, only leading blanks differ", what))
}
