package props

import (
	"fmt"
	"os"
	"path/filepath"
	"regexp"
	"sort"
	"strings"

	"github.com/mikefarah/yq/v4/pkg/yqlib"

	"verifharness/gen"
	"verifharness/mon"
	"verifharness/ref"
	"verifharness/yqx"
)

// C05 — `yq .` on YAML preserves data and presentation, and is idempotent.
//
// Workload: gen.GenYAML (own emitter, ground-truth tree + presentation plan, 1–4 documents).
// Every text is first read by yaml.v3 inside the harness; a parse that disagrees with the
// generator's ground truth drops the case as inconclusive ("generator_disagreement").
//
//	O1 data          yq's output re-read by yaml.v3: document count and per document the canonical
//	                 data rendering (structure, key order, scalar text + resolved tag, custom tags,
//	                 anchor -> alias topology) equal the ground truth.
//	O2 presentation  per-path table (scalar style, block/flow, anchor name, explicit tag, line comment)
//	                 and the linearised comment stream of the INPUT and of yq's OUTPUT are equal — for
//	                 every attribute / gap that the bare library round trip (yaml.v3 decode -> encode of
//	                 the same text, no yqlib) itself preserves; what the library loses is counted as
//	                 lib_unfaithful:<attr> and not asserted.
//	O3 idempotence   yq(yq(x)) == yq(x) byte for byte.
//	binary           `yq . file` (and `yq .` on stdin for a sample) prints exactly the in-process text.
type c05 struct{}

func init() { mon.Register(c05{}) }

func (c05) ID() string    { return "C05" }
func (c05) Level() string { return "exploration" }
func (c05) Rule() string {
	return "case = one generated YAML stream (own emitter: ground-truth tree + presentation plan; 1-4 documents; block/flow collections, " +
		"plain/single/double/literal/folded scalars, head/line/foot comments, anchors/aliases, explicit and custom tags, '---'/'...' markers, " +
		"leading comment blocks, comment-only and empty documents). Asserted on `yq .` (in-process stream evaluator; real binary on a file for 1 case in 3, stdin for 1 in 9): " +
		"O1 data == ground truth per document, O2 per-path presentation table and linearised comment stream of output == input wherever the bare yaml.v3 " +
		"decode->encode round trip keeps them, O3 second pass byte-identical. Non-trivial = the stream carries >= 2 distinct presentation features " +
		"(non-plain scalar style, flow collection, comment position, anchor/alias, tag, document-boundary feature); distinct by hash of (shape, presentation plan)."
}
func (c05) Assumptions() []string {
	return []string{
		"gopkg.in/yaml.v3's parser is the independent reader: ground truth is only trusted when yaml.v3's parse of the generated text equals it (else the case is inconclusive)",
		"presentation attributes the bare yaml.v3 decode->encode round trip does not keep (blank lines, column alignment, '...' markers, re-folded '>' text, explicit !!map/!!seq tags …) are library limits and not asserted",
		"own-line comments are compared by position between leaves (linearised stream), not by the node yaml.v3 attaches them to; comment moves across a '---' marker that do not cross a leaf are invisible",
		"`yq .` means the default flags (unwrapScalar on); the documented unwrapping of a document whose root is a scalar is reported as known finding C05-root-scalar-unwrapped only when the same stream passes every oracle with --unwrapScalar=false",
	}
}
func (c05) Cases(tier string) int {
	if tier == "thorough" {
		return 80000
	}
	return 10000
}
func (c05) RaceCases(tier string) int {
	if tier == "thorough" {
		return 4000
	}
	return 150
}
func (c05) Floor(tier string) int {
	if tier == "thorough" {
		return 20000
	}
	return 2500
}

// ---- shared helpers (C05, C07) ---------------------------------------------------------------

// c05YqYAML runs expr over text with the YAML decoder/encoder; unwrap selects --unwrapScalar.
func c05YqYAML(expr, text string, unwrap bool) (out string, err error, pan *yqx.Panic) {
	if unwrap {
		return yqx.Eval(expr, text, "yaml", "yaml")
	}
	yqx.Init()
	prefs := yqlib.NewDefaultYamlPreferences()
	prefs.UnwrapScalar = false
	dec, enc := yqlib.NewYamlDecoder(prefs), yqlib.NewYamlEncoder(prefs)
	pan = yqx.Guard(func() {
		out, err = yqlib.NewStringEvaluator().Evaluate(expr, text, enc, dec)
	})
	return
}

// c05GlobalStream concatenates the per-document streams; leaves are prefixed with the document index.
func c05GlobalStream(docs []ref.YDoc) []ref.YTok {
	var out []ref.YTok
	for i, d := range docs {
		for _, t := range d.Stream {
			if !t.C {
				t.Text = fmt.Sprintf("d%d:%s", i, t.Text)
			}
			out = append(out, t)
		}
	}
	return out
}

func c05EqStrs(a, b []string) bool {
	if len(a) != len(b) {
		return false
	}
	for i := range a {
		if a[i] != b[i] {
			return false
		}
	}
	return true
}

// c05RowAttr returns the presentation attribute of a row by name.
func c05RowAttr(r ref.YRow, attr string) string {
	switch attr {
	case "style":
		return r.Style
	case "anchor":
		return r.Anchor
	case "explicit_tag":
		if r.Explicit {
			return "explicit " + r.Tag
		}
		return "implicit"
	case "line_comment":
		return r.Line
	case "data":
		return r.Kind + " " + r.Tag + " " + ref.QuoteJSON(r.Value) + " -> " + r.AliasOf
	}
	return ""
}

var c05PresAttrs = []string{"style", "anchor", "explicit_tag", "line_comment"}

// c05TruthDisagreement compares the ground truth with yaml.v3's parse of the generated text.
func c05TruthDisagreement(truth, parsed []ref.YDoc) string {
	if len(truth) != len(parsed) {
		return fmt.Sprintf("documents: truth %d, yaml.v3 %d", len(truth), len(parsed))
	}
	for i := range truth {
		if truth[i].Data != parsed[i].Data {
			return fmt.Sprintf("doc %d data: truth %s | yaml.v3 %s", i, clipStr(truth[i].Data, 300), clipStr(parsed[i].Data, 300))
		}
		if len(truth[i].Rows) != len(parsed[i].Rows) {
			return fmt.Sprintf("doc %d rows: %d vs %d", i, len(truth[i].Rows), len(parsed[i].Rows))
		}
		for j := range truth[i].Rows {
			a, b := truth[i].Rows[j], parsed[i].Rows[j]
			if a.Path != b.Path {
				return fmt.Sprintf("doc %d row %d path %s vs %s", i, j, a.Path, b.Path)
			}
			for _, at := range append([]string{"data"}, c05PresAttrs...) {
				if c05RowAttr(a, at) != c05RowAttr(b, at) {
					return fmt.Sprintf("%s of doc %d %s: truth %q, yaml.v3 %q", at, i, a.Path, c05RowAttr(a, at), c05RowAttr(b, at))
				}
			}
		}
	}
	ga, gb := c05GlobalStream(truth), c05GlobalStream(parsed)
	if ref.StreamString(ga) != ref.StreamString(gb) {
		return fmt.Sprintf("comment stream: truth %s | yaml.v3 %s", clipStr(ref.StreamString(ga), 400), clipStr(ref.StreamString(gb), 400))
	}
	return ""
}

// c05Fail is one failed assertion.
type c05Fail struct {
	Doc    int // first document the failure belongs to; -1 = not attributable
	DocTo  int // last document (a comment gap between documents belongs to the whole range)
	Oracle string
	Detail string
	Comma  bool // O3 failure where the two passes differ only in a "," before a closing "}" / "]"
	Short  bool // O3 failure where the passes differ only in blank lines and fewer than 4 bytes follow the leading block
}

func c05DocOfLeaf(leaf string) int {
	if !strings.HasPrefix(leaf, "d") {
		return -1
	}
	n := 0
	i := 1
	for ; i < len(leaf) && leaf[i] >= '0' && leaf[i] <= '9'; i++ {
		n = n*10 + int(leaf[i]-'0')
	}
	if i == 1 {
		return -1
	}
	return n
}

// c05PresentationCompare asserts table (a) and stream (b) of out against in wherever lib kept them.
// lib == nil: nothing is known about the library, nothing is asserted.
func c05PresentationCompare(in, lib, out []ref.YDoc, tags map[string]bool) (fails []c05Fail) {
	if len(in) != len(out) || len(in) == 0 {
		return nil // O1 reports the count; nothing to compare in a stream c07Without documents
	}
	libOK := lib != nil && len(lib) == len(in)
	if !libOK {
		tags["lib_unfaithful:documents"] = true
		return nil
	}
	for d := range in {
		if len(in[d].Rows) != len(out[d].Rows) {
			continue // data differs: O1's business
		}
		libRows := len(lib[d].Rows) == len(in[d].Rows)
		if !libRows {
			tags["lib_unfaithful:data"] = true
			continue
		}
		for j := range in[d].Rows {
			a, l, o := in[d].Rows[j], lib[d].Rows[j], out[d].Rows[j]
			if a.Path != o.Path || a.Path != l.Path {
				continue
			}
			for _, at := range c05PresAttrs {
				if c05RowAttr(a, at) != c05RowAttr(l, at) {
					tags["lib_unfaithful:"+at] = true
					continue
				}
				if c05RowAttr(a, at) != c05RowAttr(o, at) {
					fails = append(fails, c05Fail{Doc: d, DocTo: d, Oracle: "O2-" + at,
						Detail: fmt.Sprintf("%s of doc %d %s: input %q, yq %q (library round trip keeps it)", at, d, a.Path, c05RowAttr(a, at), c05RowAttr(o, at))})
				}
			}
		}
	}
	gi, gl, gout := ref.Gaps(c05GlobalStream(in)), ref.Gaps(c05GlobalStream(lib)), ref.Gaps(c05GlobalStream(out))
	if len(gi) != len(gout) {
		// leaf sequences differ although the data agree: a collection changed between block/flow/empty; the table reports it
		return fails
	}
	libShape := len(gl) == len(gi)
	if !libShape {
		tags["lib_unfaithful:stream_shape"] = true
	}
	for k := range gi {
		if gi[k].Before != gout[k].Before {
			return fails
		}
		if libShape && (gl[k].Before != gi[k].Before || !c05EqStrs(gl[k].Comments, gi[k].Comments)) || !libShape && len(gi[k].Comments) > 0 {
			if len(gi[k].Comments) > 0 || libShape && len(gl[k].Comments) > 0 {
				tags["lib_unfaithful:comment"] = true
			}
			continue
		}
		if !c05EqStrs(gi[k].Comments, gout[k].Comments) {
			doc, docTo := c05DocOfLeaf(gi[k].After), c05DocOfLeaf(gi[k].Before)
			if gi[k].After == "^" {
				doc = 0
			}
			if gi[k].Before == "$" {
				docTo = len(in) - 1
			}
			fails = append(fails, c05Fail{Doc: doc, DocTo: docTo, Oracle: "O2-comments",
				Detail: fmt.Sprintf("comments between %s and %s: input %q, yq %q (library round trip keeps them)", gi[k].After, gi[k].Before, gi[k].Comments, gout[k].Comments)})
		}
	}
	return fails
}

// c05DataCompare is O1.
func c05DataCompare(truth, lib, out []ref.YDoc, tags map[string]bool) (fails []c05Fail) {
	if len(truth) != len(out) {
		return []c05Fail{{Doc: -1, Oracle: "O1-count", Detail: fmt.Sprintf("documents: input %d, yq output %d", len(truth), len(out))}}
	}
	for d := range truth {
		if lib != nil && len(lib) == len(truth) && lib[d].Data != truth[d].Data {
			tags["lib_unfaithful:data"] = true
			continue
		}
		if truth[d].Data != out[d].Data {
			fails = append(fails, c05Fail{Doc: d, DocTo: d, Oracle: "O1-data", Detail: fmt.Sprintf("doc %d data: expected %s | yq %s", d, clipStr(truth[d].Data, 500), clipStr(out[d].Data, 500))})
		}
	}
	return fails
}

// c05Pass runs all oracles against one way of calling yq (unwrap on/off) and returns the failures.
func c05Pass(text string, truth, in, lib []ref.YDoc, unwrap bool, tags map[string]bool, evals *int) (out, out2 string, fails []c05Fail, abort *mon.Result) {
	out, err, pan := c05YqYAML(".", text, unwrap)
	*evals++
	if pan != nil {
		return out, "", nil, &mon.Result{Verdict: mon.Violated, Detail: "yq panicked on `.`: " + pan.Value + "\n" + clipStr(pan.Stack, 1500)}
	}
	if err != nil {
		return out, "", nil, &mon.Result{Verdict: mon.Violated, Detail: "yq rejects a stream yaml.v3 accepts and the generator vouches for: " + err.Error()}
	}
	od, perr := ref.ExtractYAML(out)
	if perr != nil {
		return out, "", []c05Fail{{Doc: -1, Oracle: "O1-parse", Detail: "yq's output is not readable by yaml.v3: " + perr.Error()}}, nil
	}
	fails = append(fails, c05DataCompare(truth, lib, od, tags)...)
	pf := c05PresentationCompare(in, lib, od, tags)
	if c05LostComments(out, od) {
		// yaml.v3 drops an own-line comment when reading yq's output back: it cannot referee the comment stream
		tags["reader_lost_comment"] = true
		kept := pf[:0]
		for _, f := range pf {
			if f.Oracle != "O2-comments" {
				kept = append(kept, f)
			}
		}
		pf = kept
	}
	fails = append(fails, pf...)
	// the leading "---" is carried by yq's own leading-content mechanism (yaml.v3 cannot see it): text level
	if a, b := ref.LeadingSeparator(text), ref.LeadingSeparator(out); a != b && len(in) > 0 {
		fails = append(fails, c05Fail{Doc: 0, DocTo: 0, Oracle: "O2-leading-separator", Detail: fmt.Sprintf("leading '---': input %v, yq output %v", a, b)})
	}
	// O3
	out2, err2, pan2 := c05YqYAML(".", out, unwrap)
	if err2 != nil || pan2 != nil {
		out2 = ""
	}
	*evals++
	switch {
	case pan2 != nil:
		fails = append(fails, c05Fail{Doc: -1, Oracle: "O3-idempotence", Detail: "second pass panicked: " + pan2.Value})
	case err2 != nil:
		fails = append(fails, c05Fail{Doc: -1, Oracle: "O3-idempotence", Detail: "second pass fails: " + err2.Error()})
	case out2 != out:
		// Is the instability the library's? (a) yaml.v3 decode->encode is itself not idempotent on this input,
		// or (b) yaml.v3 alone cannot carry yq's first output through a round trip c07Without changing its extracts.
		if why := c05LibCannotRoundTrip(text, out, od); why != "" {
			tags["lib_unfaithful:idempotence"] = true
			tags["lib_unfaithful:idempotence:"+why] = true
			break
		}
		fails = append(fails, c05Fail{Doc: -1, Oracle: "O3-idempotence", Comma: c05CommaNorm(out) == c05CommaNorm(out2),
			Short:  c05NoBlankLines(out) == c05NoBlankLines(out2) && len(c05AfterLeadingBlock(out)) < 4,
			Detail: fmt.Sprintf("yq(yq(x)) != yq(x) (the bare library round trip is stable on this input):\n%s", c05LineDiff(out, out2))})
	}
	return out, out2, fails, nil
}

var c05TrailingComma = regexp.MustCompile(`,([}\]])`)

func c05CommaNorm(s string) string { return c05TrailingComma.ReplaceAllString(s, "$1") }

func c05NoBlankLines(s string) string {
	var keep []string
	for _, ln := range strings.Split(s, "\n") {
		if strings.TrimSpace(ln) != "" {
			keep = append(keep, ln)
		}
	}
	return strings.Join(keep, "\n")
}

// c05AfterLeadingBlock returns what follows the leading run of blank, comment and "---" lines (what yq's
// leading-content scanner hands to the YAML parser).
func c05AfterLeadingBlock(s string) string {
	for s != "" {
		nl := strings.IndexByte(s, '\n')
		ln := s
		if nl >= 0 {
			ln = s[:nl]
		}
		t := strings.TrimSpace(ln)
		if !(t == "" || strings.HasPrefix(t, "#") || ln == "---") {
			return s
		}
		if nl < 0 {
			return ""
		}
		s = s[nl+1:]
	}
	return ""
}

// c05LibCannotRoundTrip returns a reason when instability of a second pass is attributable to yaml.v3.
func c05LibCannotRoundTrip(text, out string, od []ref.YDoc) string {
	l1, err := ref.LibRoundTrip(text)
	if err != nil {
		return "encode_error"
	}
	l2, err := ref.LibRoundTrip(l1)
	if err != nil || l1 != l2 {
		return "library_not_idempotent_on_input"
	}
	lo, err := ref.LibRoundTrip(out)
	if err != nil {
		return "encode_error"
	}
	ld, err := ref.ExtractYAML(lo)
	if err != nil {
		return "library_output_unreadable"
	}
	if c05TruthDisagreement(od, ld) != "" {
		return "library_changes_first_output"
	}
	return ""
}

// c05LineDiff shows the differing lines of two texts.
func c05LineDiff(a, b string) string {
	la, lb := strings.Split(a, "\n"), strings.Split(b, "\n")
	var sb strings.Builder
	n := 0
	for i := 0; i < len(la) || i < len(lb); i++ {
		var x, y string
		if i < len(la) {
			x = la[i]
		}
		if i < len(lb) {
			y = lb[i]
		}
		if x != y {
			fmt.Fprintf(&sb, "line %d\n  first : %s\n  second: %s\n", i+1, clipStr(x, 300), clipStr(y, 300))
			n++
			if n >= 6 {
				sb.WriteString("  …\n")
				break
			}
		}
	}
	return sb.String()
}

// c05BinSame: the binary prints what the library entry point prints. One documented difference of the command
// layer: an input c07Without any document and c07Without comments makes the CLI evaluate the expression against a
// fresh null (it prints an empty line) while the library's stream evaluator prints nothing.
func c05BinSame(bin, lib, input string) bool {
	return bin == lib || lib == "" && bin == "\n" && strings.TrimSpace(input) == ""
}

var c05BlockScalarHeader = regexp.MustCompile(`(^|[ ])[|>][+-]?( #.*)?$`)

// c05OwnLineCommentCount counts the own-line comments of a text at text level (block scalar bodies skipped).
func c05OwnLineCommentCount(text string) int {
	n := 0
	inBlock, blockInd := false, 0
	for _, ln := range strings.Split(text, "\n") {
		t := strings.TrimSpace(ln)
		ind := len(ln) - len(strings.TrimLeft(ln, " "))
		if inBlock {
			if t == "" || ind > blockInd {
				continue
			}
			inBlock = false
		}
		if strings.HasPrefix(t, "#") {
			n++
			continue
		}
		if c05BlockScalarHeader.MatchString(ln) {
			inBlock, blockInd = true, ind
		}
	}
	return n
}

// c05LostComments: the text shows more own-line comments than yaml.v3's parse carries (the parser drops comments
// in a few positions); such a text cannot be refereed by that parser.
func c05LostComments(text string, docs []ref.YDoc) bool {
	have := 0
	for _, d := range docs {
		for _, t := range d.Stream {
			if t.C {
				have++
			}
		}
	}
	return c05OwnLineCommentCount(text) > have
}

func c05CommentLinesOfText(text string) []string {
	var out []string
	for _, ln := range strings.Split(text, "\n") {
		t := strings.TrimSpace(ln)
		if strings.HasPrefix(t, "#") {
			out = append(out, t)
		}
	}
	return out
}

func c05FailText(fs []c05Fail) string {
	var sb strings.Builder
	for i, f := range fs {
		if i >= 6 {
			fmt.Fprintf(&sb, "… %d more\n", len(fs)-i)
			break
		}
		sb.WriteString("[" + f.Oracle + "] " + f.Detail + "\n")
	}
	return sb.String()
}

// c05RootScalarFeature: does unwrapping the root scalar of this document destroy anything?
func c05RootScalarFeature(d ref.YDoc) bool {
	if len(d.Rows) == 0 || d.Rows[0].Kind != "scalar" {
		return false
	}
	return true
}

func c05FeatureCount(feats []string) int {
	n := 0
	for _, f := range feats {
		switch {
		case strings.HasPrefix(f, "docs:1"), f == "style:plain", f == "style:block", strings.HasPrefix(f, "type:"), strings.HasPrefix(f, "text:"), strings.HasPrefix(f, "alias:"), strings.HasPrefix(f, "anchor:"):
		default:
			n++
		}
	}
	return n
}

func c05PlanSig(in []ref.YDoc) string {
	var shape, plan strings.Builder
	for _, d := range in {
		shape.WriteString("|D")
		for _, r := range d.Rows {
			fmt.Fprintf(&shape, "%s%d,", r.Kind[:1], len(r.P))
			fmt.Fprintf(&plan, "%s/%t/%t/%t,", r.Style, r.Anchor != "", r.Explicit, r.Line != "")
		}
	}
	for _, g := range ref.Gaps(c05GlobalStream(in)) {
		fmt.Fprintf(&plan, "%d", len(g.Comments))
	}
	return fmt.Sprintf("%x-%x", hashStr(shape.String()), hashStr(plan.String()))
}

func (p c05) Run(w *mon.Worker, idx int) mon.Result {
	r := w.Rand(idx)
	if idx%25 == 7 {
		return c05LongCase(w, r)
	}
	st := gen.GenYAML(r, gen.YDefault())
	// byte-level variants of the generated text whose meaning is taken from the independent reader alone (the
	// generator's own ground truth describes the text as generated)
	mut := ""
	plainStream := !st.ZeroDocs
	for _, f := range st.Features() {
		// (empty / comment-only documents, tags with nothing behind them and comments have bookkeeping of their own in the
		// generator's truth: which comment yaml.v3 itself moves, and where, is judged against it)
		if f == "tag:explicit_empty" || strings.HasPrefix(f, "bound:empty_doc") || strings.HasPrefix(f, "bound:comment_only_doc") || strings.HasPrefix(f, "comment:") {
			plainStream = false
		}
	}
	noMarkers := plainStream && !strings.Contains("\n"+st.Text, "\n---") && !strings.Contains("\n"+st.Text, "\n...") && !strings.Contains("\n"+st.Text, "\n%")
	switch {
	case !plainStream:
	case idx%10 == 2 && noMarkers && !st.ZeroDocs:
		// the whole (single, marker-free) document shifted four columns to the right: the same document
		var sb strings.Builder
		for _, ln := range strings.SplitAfter(st.Text, "\n") {
			if strings.TrimSpace(ln) != "" {
				sb.WriteString("    ")
			}
			sb.WriteString(ln)
		}
		st.Text, mut = sb.String(), "indented_root"
	case (idx%10 == 4 || idx%10 == 6 || idx%10 == 8) && !st.ZeroDocs && strings.HasSuffix(st.Text, "\n") && !strings.HasSuffix(st.Text, "\n\n"):
		st.Text, mut = st.Text[:len(st.Text)-1], "no_final_newline"
	case idx%10 == 9 && !st.ZeroDocs && !strings.Contains(st.Text, "#") && !strings.HasPrefix(st.Text, "-") && !strings.HasPrefix(st.Text, "%") && !strings.Contains(st.Text, "\r"):
		st.Text, mut = strings.ReplaceAll(st.Text, "\n", "\r"), "cr_line_breaks"
	}
	feats := st.Features()
	if mut != "" {
		feats = append(feats, "mutation:"+mut)
	}
	res := mon.Result{Case: map[string]any{"text": st.Text, "features": feats}}
	tags := map[string]bool{}
	for _, f := range feats {
		tags[f] = true
	}
	finish := func() mon.Result {
		for t := range tags {
			res.Tags = append(res.Tags, t)
		}
		sort.Strings(res.Tags)
		return res
	}
	// ---- ground truth vs the independent reader
	var truth []ref.YDoc
	if !st.ZeroDocs {
		for _, d := range st.Docs {
			truth = append(truth, ref.ExtractNode(d.Node()))
		}
	}
	in, perr := ref.ExtractYAML(st.Text)
	if perr != nil {
		res.Verdict, res.Detail = mon.Inconclusive, "yaml.v3 rejects the generated text: "+perr.Error()
		tags["generator_disagreement"] = true
		tags["generator_disagreement:rejected"] = true
		return finish()
	}
	if mut != "" {
		truth = in
	}
	if why := c05TruthDisagreement(truth, in); why != "" {
		res.Verdict, res.Detail = mon.Inconclusive, "generator disagreement: "+why
		tags["generator_disagreement"] = true
		return finish()
	}
	res.Sig = c05PlanSig(in)
	res.Nontrivial = c05FeatureCount(feats) >= 2
	// ---- the bare library round trip
	var lib []ref.YDoc
	if lt, err := ref.LibRoundTrip(st.Text); err == nil {
		if ld, err := ref.ExtractYAML(lt); err == nil {
			lib = ref.AlignLib(in, ld)
			if len(ld) != len(in) {
				tags["lib_unfaithful:document_count"] = true
			}
		} else {
			tags["lib_unfaithful:unreadable_output"] = true
		}
	} else {
		tags["lib_unfaithful:encode_error"] = true
	}
	// ---- yq, default flags
	out, out2, fails, abort := c05Pass(st.Text, truth, in, lib, true, tags, &res.Evals)
	if abort != nil {
		res.Verdict, res.Detail = abort.Verdict, abort.Detail+"\n--- input\n"+clipStr(st.Text, 1500)
		return finish()
	}
	if st.ZeroDocs {
		// no document for yaml.v3: the comments (if any) are checked at text level
		want, got := c05CommentLinesOfText(st.Text), c05CommentLinesOfText(out)
		if !c05EqStrs(want, got) {
			fails = append(fails, c05Fail{Doc: -1, Oracle: "O2-comments", Detail: fmt.Sprintf("comment-only input: comments %q, yq printed %q", want, got)})
		}
	}
	// ---- the real binary
	if len(fails) == 0 && idx%3 == 0 {
		dir := filepath.Join(w.Scratch, fmt.Sprintf("c05-%d", idx))
		_ = os.MkdirAll(dir, 0o755)
		defer os.RemoveAll(dir)
		f := filepath.Join(dir, "in.yaml")
		_ = os.WriteFile(f, []byte(st.Text), 0o644)
		br := mon.Run(mon.RunOpts{Dir: dir}, w.YqBin(), ".", f)
		res.Evals++
		tags["binary:file"] = true
		if br.TimedOut || br.Exit == -2 {
			res.Verdict, res.Detail = mon.Inconclusive, "binary timed out / could not be run: "+clipStr(string(br.Stderr), 200)
			return finish()
		}
		bout := string(br.Stdout)
		if br.Exit != 0 || !c05BinSame(bout, out, st.Text) {
			res.Verdict = mon.Violated
			res.Detail = fmt.Sprintf("`yq . file` (exit %d, stderr %q) and the library entry point disagree:\n--- binary\n%s\n--- library\n%s\n--- input\n%s", br.Exit, clipStr(string(br.Stderr), 300), clipStr(bout, 1200), clipStr(out, 1200), clipStr(st.Text, 1200))
			return finish()
		}
		if idx%9 == 0 {
			sr := mon.Run(mon.RunOpts{Dir: dir, Stdin: []byte(st.Text)}, w.YqBin(), ".")
			res.Evals++
			tags["binary:stdin"] = true
			if sr.TimedOut || sr.Exit == -2 {
				res.Verdict, res.Detail = mon.Inconclusive, "binary timed out"
				return finish()
			}
			if sr.Exit != 0 || string(sr.Stdout) != bout {
				res.Verdict = mon.Violated
				res.Detail = fmt.Sprintf("`yq .` on stdin (exit %d, stderr %q) differs from `yq . file`:\n--- stdin\n%s\n--- file\n%s", sr.Exit, clipStr(string(sr.Stderr), 300), clipStr(string(sr.Stdout), 1200), clipStr(bout, 1200))
				return finish()
			}
			// second pass through the binary (O3 is judged on the library text; the binary must print the same)
			f2 := filepath.Join(dir, "out1.yaml")
			_ = os.WriteFile(f2, br.Stdout, 0o644)
			b2 := mon.Run(mon.RunOpts{Dir: dir}, w.YqBin(), ".", f2)
			res.Evals++
			if b2.TimedOut || b2.Exit == -2 {
				res.Verdict, res.Detail = mon.Inconclusive, "binary timed out"
				return finish()
			}
			if b2.Exit != 0 || !c05BinSame(string(b2.Stdout), out2, bout) {
				res.Verdict = mon.Violated
				res.Detail = fmt.Sprintf("second pass: `yq . out1.yaml` (exit %d) differs from the library entry point:\n--- binary\n%s\n--- library\n%s", b2.Exit, clipStr(string(b2.Stdout), 1200), clipStr(out2, 1200))
				return finish()
			}
		}
	}
	if len(fails) == 0 {
		res.Verdict = mon.Held
		res.Detail = fmt.Sprintf("%d document(s), %d rows, features %v; output %d bytes, second pass identical", len(in), c05RowCount(in), feats, len(out))
		return finish()
	}
	// ---- known findings, each with an exact matcher
	nonComma := func(fs []c05Fail) (out []c05Fail) {
		for _, f := range fs {
			if !f.Comma && !f.Short {
				out = append(out, f)
			}
		}
		return
	}
	rest := nonComma(fails)
	if len(rest) == 0 && fails[0].Short {
		// C05-idempotence-short-tail: yq's leading-content scanner peeks 4 bytes; when fewer remain it stops in
		// front of a blank line it would otherwise keep, so the blank line survives only the first pass
		res.Verdict, res.FindingID = mon.Finding, "C05-idempotence-short-tail"
		res.Detail = c05FailText(fails) + "--- input\n" + clipStr(st.Text, 800)
		tags["finding:idempotence-short-tail"] = true
		return finish()
	}
	if len(rest) == 0 {
		// C05-idempotence-trailing-comma: the only failure is O3 and the two passes differ only in a trailing
		// "," inside a flow collection
		res.Verdict, res.FindingID = mon.Finding, "C05-idempotence-trailing-comma"
		res.Detail = c05FailText(fails) + "--- input\n" + clipStr(st.Text, 800)
		tags["finding:idempotence-trailing-comma"] = true
		return finish()
	}
	// C05-root-scalar-unwrapped: every remaining failure is attributable to a document whose root is a scalar
	// (or is unattributable while such a document exists), and the same stream passes every oracle with
	// --unwrapScalar=false.
	hasScalarRoot := false
	for _, d := range in {
		if c05RootScalarFeature(d) {
			hasScalarRoot = true
		}
	}
	if hasScalarRoot {
		ok := true
		for _, f := range rest {
			if f.Doc >= 0 {
				any := false
				for k := f.Doc; k <= f.DocTo && k < len(in); k++ {
					any = any || c05RootScalarFeature(in[k])
				}
				ok = ok && any
			}
		}
		// a root that is a plain number / boolean / null is printed with the very same text when unwrapped: there the
		// recorded deviation covers the dropped comments and nothing else (output that cannot be read back, other data,
		// a second pass that differs are not part of it)
		plainOnly := true
		for _, d := range in {
			if c05RootScalarFeature(d) {
				r0 := d.Rows[0]
				if r0.Style != "plain" || r0.Explicit || r0.Anchor != "" || !(r0.Tag == "!!null" || r0.Tag == "!!int" || r0.Tag == "!!bool" || r0.Tag == "!!float") {
					plainOnly = false
				}
			}
		}
		if plainOnly {
			for _, f := range rest {
				ok = ok && strings.HasPrefix(f.Oracle, "O2")
			}
		}
		if ok {
			tags2 := map[string]bool{}
			_, _, fails2, abort2 := c05Pass(st.Text, truth, in, lib, false, tags2, &res.Evals)
			if abort2 == nil && len(nonComma(fails2)) == 0 {
				res.Verdict, res.FindingID = mon.Finding, "C05-root-scalar-unwrapped"
				res.Detail = "with default flags: " + c05FailText(rest) + "all oracles pass with --unwrapScalar=false\n--- input\n" + clipStr(st.Text, 800) + "\n--- yq .\n" + clipStr(out, 800)
				tags["finding:root-scalar-unwrapped"] = true
				return finish()
			}
		}
	}
	res.Verdict = mon.Violated
	res.Detail = c05FailText(fails) + "--- input\n" + clipStr(st.Text, 1500) + "\n--- yq .\n" + clipStr(out, 1500)
	return finish()
}

func c05RowCount(ds []ref.YDoc) int {
	n := 0
	for _, d := range ds {
		n += len(d.Rows)
	}
	return n
}
