package props

import (
	"fmt"
	"strings"
	"time"

	"verifharness/mon"
	"verifharness/ref"
)

// Family G — the output cannot be written. stdout is /dev/full (every write fails with ENOSPC): the
// results were NOT "encoded completely to the output", so yq must exit non-zero with a message,
// whatever the size of the output (smaller or larger than the printer's buffer), the number of
// documents, the mode (eval, eval-all, -n) and the output format.
func (c *c19ctx) familyG() {
	c.group = "G-stdout-full"
	r := c.r
	small := r.IntN(3) > 0
	var docs []string
	nd := 1 + r.IntN(3)
	for i := 0; i < nd; i++ {
		v := c.flatMap(1, c.scalar)
		if !small {
			// > 64 KiB so that the writer has to flush long before the end
			big := &ref.V{K: ref.Seq, A: []*ref.V{}}
			for j := 0; j < 3000; j++ {
				big.A = append(big.A, ref.StrV(fmt.Sprintf("element-%05d-%s", j, c.str().S)))
			}
			v = ref.MapV(ref.KV{K: "big", V: big})
		}
		docs = append(docs, v.JSON())
	}
	c.write("in.yaml", strings.Join(docs, "\n---\n")+"\n")
	format := []string{"yaml", "json", "props", "csv", "xml", "yaml", "yaml"}[r.IntN(7)]
	var args []string
	switch r.IntN(5) {
	case 0:
		args = []string{"-n", "-o=" + format, `{"a": "x", "b": [1, 2]}`}
		if format == "csv" {
			args = []string{"-n", "-o=csv", `[["a", "b"], ["c", "d"]]`}
		}
		if format == "xml" {
			args = []string{"-n", "-o=xml", `{"r": {"a": "x"}}`}
		}
	case 1:
		args = []string{"ea", "-o=" + format, ".", "in.yaml"}
	default:
		args = []string{"-o=" + format, ".", "in.yaml"}
	}
	if format == "csv" && args[0] != "-n" {
		c.write("in.yaml", `[["a","b"],["c","d"]]`+"\n")
	}
	if format == "xml" && args[0] != "-n" {
		c.write("in.yaml", `{"r": {"a": "x", "b": "y"}}`+"\n")
	}
	c.tag("out:"+format, map[bool]string{true: "size:small", false: "size:large"}[small])
	// control: the same command with a working stdout must succeed and print something
	ok := c.yq(nil, args...)
	if ok.TimedOut {
		return
	}
	if ok.Exit != 0 || len(ok.Stdout) == 0 {
		c.say("control run does not print: nothing to check")
		return
	}
	c.res.Evals++
	line := c19Quote(args) + " > /dev/full"
	c.cmds = append(c.cmds, line)
	sh := `exec "$0" "$@" > /dev/full`
	x := mon.Run(mon.RunOpts{Dir: c.dir, Wall: 45 * time.Second}, append([]string{"/bin/sh", "-c", sh, c.w.YqBin()}, args...)...)
	if x.TimedOut || x.Exit == -2 {
		c.timedOut = true
		return
	}
	c.res.Nontrivial = true
	what := fmt.Sprintf("stdout is /dev/full (%d bytes of output could not be written): %s", len(ok.Stdout), line)
	if c.failedProperly(x, what) {
		c.say(what + ": refused with " + clipStr(strings.TrimSpace(string(x.Stderr)), 120))
	}
}
