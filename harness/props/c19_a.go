package props

import (
	"fmt"
	"strings"

	"verifharness/ref"
)

// Family A — COMPLETE-OR-FAIL.
//
// 1-3 files x 1-4 documents; the last document of the last file is a SENTINEL whose leaves carry
// the marker ZZSENTINEL. The expected result list comes from the independent evaluator
// (c19Pool). Every run (json always, plus three other output formats chosen for the case)
// must either exit 0 with an output that decodes to exactly that list — so the sentinel, i.e. every
// document of every file, was consumed and nothing was dropped — or fail with a message.

const c19Sentinel = "ZZSENTINEL"

type c19Schema struct {
	a func(c *c19ctx) *ref.V
	l func(c *c19ctx) *ref.V
}

// schemaFor picks document shapes that format f can represent for expression e (so that exit-0 cases
// exist for the picky formats), and with probability 1/5 ignores that (natural refusals).
func (c *c19ctx) schemaFor(f string) c19Schema {
	anyA := func(c *c19ctx) *ref.V { return c.value(2) }
	anyL := func(c *c19ctx) *ref.V {
		return c.flatSeq(0, func() *ref.V { return c.value(1) })
	}
	if c.r.IntN(5) == 0 {
		c.tag("schema:free")
		return c19Schema{anyA, anyL}
	}
	switch f {
	case "csv", "tsv":
		return c19Schema{
			a: func(c *c19ctx) *ref.V {
				if c.r.IntN(2) == 0 {
					return c.scalar()
				}
				return c.flatSeq(0, c.scalar)
			},
			l: func(c *c19ctx) *ref.V {
				switch c.r.IntN(3) {
				case 0:
					return c.flatSeq(0, c.scalar)
				case 1:
					return c.flatSeq(1, func() *ref.V { return c.flatSeq(0, c.scalar) })
				default:
					return c.flatSeq(1, func() *ref.V { return c.flatMap(0, c.scalar) })
				}
			},
		}
	case "xml":
		return c19Schema{
			a: func(c *c19ctx) *ref.V {
				if c.r.IntN(4) == 0 {
					return c.scalar()
				}
				return c.flatMap(0, func() *ref.V { return c.value(1) })
			},
			l: func(c *c19ctx) *ref.V {
				return c.flatSeq(0, func() *ref.V { return c.flatMap(1, c.scalar) })
			},
		}
	case "toml":
		return c19Schema{a: func(c *c19ctx) *ref.V { return c.scalar() }, l: func(c *c19ctx) *ref.V { return c.flatSeq(0, c.scalar) }}
	case "base64", "uri":
		return c19Schema{a: func(c *c19ctx) *ref.V { return c.str() }, l: func(c *c19ctx) *ref.V { return c.flatSeq(0, c.str) }}
	}
	return c19Schema{anyA, anyL}
}

// exprsFor: expressions whose results format f can represent under schemaFor(f).
func c19ExprsFor(f string) []string {
	switch f {
	case "csv", "tsv":
		return []string{".a", ".l", ".l", ".l[]", "[.a, .b]"}
	case "xml":
		return []string{".", ".a", ".a", `{"k": .a}`, ".l[]", "select(.b != null)", `.. | select(tag == "!!str")`}
	case "toml", "base64", "uri":
		return []string{".a", ".l[]", `.. | select(tag == "!!str")`}
	}
	return []string{".", ".a", ".l", ".a, .b", ".l[]", "[.a, .b]", `{"k": .a}`, `.a // "dflt"`, "select(.b != null)", "to_entries", `.. | select(tag == "!!str")`}
}

func (c *c19ctx) sentinelDoc(f string) *ref.V {
	s := ref.StrV(c19Sentinel)
	var a, l *ref.V
	switch f {
	case "csv", "tsv":
		a, l = s, ref.SeqV(ref.StrV(c19Sentinel+"l"))
	case "xml":
		a, l = ref.MapV(ref.KV{K: "x", V: s}), ref.SeqV(ref.MapV(ref.KV{K: "y", V: ref.StrV(c19Sentinel + "l")}))
	default:
		a, l = s, ref.SeqV(ref.StrV(c19Sentinel+"l"))
	}
	return ref.MapV(ref.KV{K: "a", V: a}, ref.KV{K: "b", V: ref.StrV(c19Sentinel + "b")}, ref.KV{K: "l", V: l})
}

func (c *c19ctx) mkDoc(s c19Schema) *ref.V {
	b := c.scalar()
	if c.r.IntN(3) == 0 {
		b = ref.NullV()
	}
	return ref.MapV(ref.KV{K: "a", V: s.a(c)}, ref.KV{K: "b", V: b}, ref.KV{K: "l", V: s.l(c)})
}

// expected evaluates e over the files; perDocMax = largest number of results from one document.
func c19Expected(e c19Expr, files []*c19File) (R []*ref.V, perDocMax int) {
	for _, f := range files {
		for _, d := range f.docs {
			rs := e.eval(d.v)
			if len(rs) > perDocMax {
				perDocMax = len(rs)
			}
			R = append(R, rs...)
		}
	}
	return
}

func (c *c19ctx) familyA() {
	c.group = "A"
	// the focus format decides the document shapes; two more formats ride along
	focus := c19OutFormats[(c.idx/len(c19Families))%len(c19OutFormats)]
	schema := c.schemaFor(focus)
	files := c.layout(func(fi, di int, last bool) *ref.V {
		if last {
			return c.sentinelDoc(focus)
		}
		return c.mkDoc(schema)
	})
	pool := c19ExprsFor(focus)
	e := c19Pool[pool[c.r.IntN(len(pool))]]
	ea := e.eaSame && c.r.IntN(4) == 0
	args, stdin := c.materialise(files, true)
	R, perDoc := c19Expected(e, files)
	ndocs := c19DocCount(files)
	c.tag("expr:"+e.src, fmt.Sprintf("files:%d", len(files)), fmt.Sprintf("docs:%d", ndocs))
	c.note("expr", e.src)
	c.note("expected_results", clipStr(c19JSONList(R), 1500))
	mode := []string{}
	if ea {
		mode = []string{"ea"}
		c.tag("mode:ea")
	} else if c.r.IntN(3) == 0 {
		mode = []string{"eval"}
	}
	// sentinel sanity of the model itself
	if len(R) == 0 || !strings.Contains(R[len(R)-1].JSON(), c19Sentinel) {
		c.inconclusive("generator: the sentinel is not reflected by %s", e.src)
		return
	}
	formats := []string{"json", focus}
	for len(formats) < 4 {
		f := c19OutFormats[c.r.IntN(len(c19OutFormats))]
		dup := false
		for _, g := range formats {
			dup = dup || g == f
		}
		if !dup {
			formats = append(formats, f)
		}
	}
	if focus == "json" {
		formats = formats[1:]
	}
	accepted := 0
	for _, f := range formats {
		o := c19Out{format: f, perDocMax: perDoc, constructed: c19Constructed[e.src]}
		argv := append(append(append([]string{}, mode...), o.flags()...), e.src)
		argv = append(argv, args...)
		x := c.yq(stdin, argv...)
		what := fmt.Sprintf("[%s] %s over %d file(s)/%d document(s)", f, e.src, len(files), ndocs)
		if c.judge(o, R, x, what) {
			accepted++
			// explicit sentinel check (redundant with the reader, kept as the plain-language oracle)
			if f != "base64" && !strings.Contains(string(x.Stdout), c19Sentinel) {
				c.violate("%s: exit 0 but the sentinel of the last document is not in the output: %q", what, clipStr(string(x.Stdout), 400))
			}
		}
		if c.bad() {
			return
		}
	}
	c.res.Nontrivial = ndocs >= 2 && accepted > 0
	c.say(fmt.Sprintf("%s over %d files/%d docs -> %d results; %d of %d formats exited 0 and decoded, the rest refused with a message", e.src, len(files), ndocs, len(R), accepted, len(formats)))
}
