package props

import (
	"fmt"
	"math/rand/v2"
	"os"
	"path/filepath"
	"strings"

	"verifharness/gen"
	"verifharness/mon"
	"verifharness/ref"
	"verifharness/yqx"
)

// Encoder-state family of C14: an encoder object serves every document of a run, so what it writes
// for document k must not depend on documents 1..k-1. Oracle (metamorphic, through the real code
// on both sides): the text written for a stream of documents / several files equals the
// concatenation of the texts written for each document alone. Documents deliberately differ in key
// order, key names and shape (that is what a cached layout would get wrong).
func c14MultiDoc(w *mon.Worker, idx int) mon.Result {
	r := w.Rand(idx)
	format := []string{"csv", "tsv", "props", "xml", "json", "lua", "shell", "yaml"}[r.IntN(8)]
	res := mon.Result{Tags: []string{"cell:multidoc:" + format}}
	n := 2 + r.IntN(3)
	docs := make([]*ref.V, n)
	keys := []string{"name", "cats", "id", "zz", "k"}
	for i := range docs {
		docs[i] = c14FlatDoc(r, format, keys)
	}
	var texts []string
	for i, d := range docs {
		t := d.JSON()
		// the first document may carry a leading comment: what an encoder keeps from it must not show up in
		// front of the next document
		// (the first document only: how comments between two documents of one stream are attached is the parser's
		// business and differs from the leading-content path of a file's first document)
		if (format == "xml" || format == "props") && r.IntN(2) == 0 && i == 0 {
			t = fmt.Sprintf("# lead %d\n%s", i, t)
			res.Tags = append(res.Tags, "leading_comment")
		}
		texts = append(texts, t)
	}
	res.Case = map[string]any{"format": format, "docs": texts}
	res.Sig = fmt.Sprintf("multidoc|%s|%x", format, hashStr(strings.Join(texts, "\n")))
	res.Nontrivial = true
	var parts []string
	for _, t := range texts {
		o, err, pan := yqx.Eval(".", t+"\n", "yaml", format)
		res.Evals++
		if err != nil || pan != nil {
			res.Verdict, res.Nontrivial, res.Detail = mon.Held, false, "a document is not encodable in this format"
			res.Tags = append(res.Tags, "not_encodable")
			return res
		}
		parts = append(parts, o)
	}
	sep := ""
	if format == "yaml" {
		sep = "---\n"
	}
	want := strings.Join(parts, sep)
	// one stream, in-process (one encoder object for all documents)
	stream := strings.Join(texts, "\n---\n") + "\n"
	got, err, pan := yqx.Eval(".", stream, "yaml", format)
	res.Evals++
	if err != nil || pan != nil {
		res.Verdict = mon.Violated
		res.Detail = fmt.Sprintf("-o=%s works for each document alone but fails on the stream: %v %v", format, err, pan)
		return res
	}
	if got != want {
		res.Verdict = mon.Violated
		res.Detail = fmt.Sprintf("-o=%s of a %d-document stream differs from the documents encoded one by one\n documents: %v\n one by one:\n%s stream:\n%s", format, n, texts, clipStr(want, 700), clipStr(got, 700))
		return res
	}
	// several files through the real binary
	if !w.Race && r.IntN(2) == 0 {
		dir := filepath.Join(w.Scratch, fmt.Sprintf("c14md-%d", idx))
		_ = os.MkdirAll(dir, 0o755)
		defer os.RemoveAll(dir)
		args := []string{w.YqBin(), "-o=" + format, "."}
		for i, t := range texts {
			f := filepath.Join(dir, fmt.Sprintf("f%d.yaml", i))
			_ = os.WriteFile(f, []byte(t+"\n"), 0o644)
			args = append(args, f)
		}
		var single []string
		ok := true
		for i := range texts {
			br := mon.Run(mon.RunOpts{Dir: dir}, w.YqBin(), "-o="+format, ".", filepath.Join(dir, fmt.Sprintf("f%d.yaml", i)))
			res.Evals++
			if br.TimedOut || br.Exit != 0 {
				ok = false
				break
			}
			single = append(single, string(br.Stdout))
		}
		br := mon.Run(mon.RunOpts{Dir: dir}, args...)
		res.Evals++
		if ok && !br.TimedOut {
			res.Tags = append(res.Tags, "binary_files")
			if br.Exit != 0 || string(br.Stdout) != strings.Join(single, sep) {
				res.Verdict = mon.Violated
				res.Detail = fmt.Sprintf("yq -o=%s . f0..f%d (exit %d) differs from the files encoded one by one\n files: %v\n one by one:\n%s together:\n%s", format, n-1, br.Exit, texts, clipStr(strings.Join(single, sep), 700), clipStr(string(br.Stdout), 700))
				return res
			}
		}
	}
	res.Verdict = mon.Held
	res.Detail = fmt.Sprintf("%d documents, stream == one by one", n)
	return res
}

// c14FlatDoc builds a document every listed format can encode: for csv/tsv an array of flat objects
// (or of scalar rows), for xml a single-rooted map, otherwise a small map.
func c14FlatDoc(r *rand.Rand, format string, keys []string) *ref.V {
	val := func() *ref.V {
		switch r.IntN(3) {
		case 0:
			return ref.IntV(int64(r.IntN(50)))
		case 1:
			return ref.StrV([]string{"Ann", "Bob", "x y", "q,r", "t\tu", "v"}[r.IntN(6)])
		default:
			return ref.BoolV(r.IntN(2) == 0)
		}
	}
	flat := func() *ref.V {
		m := &ref.V{K: ref.Map, M: []ref.KV{}}
		perm := r.Perm(len(keys))
		for _, i := range perm[:1+r.IntN(len(keys)-1)] {
			m.M = append(m.M, ref.KV{K: keys[i], V: val()})
		}
		return m
	}
	switch format {
	case "csv", "tsv":
		s := &ref.V{K: ref.Seq, A: []*ref.V{}}
		first := flat()
		s.A = append(s.A, first)
		for i := 0; i < r.IntN(3); i++ {
			// same keys as the first row of THIS document (the documented header rule), own values
			row := &ref.V{K: ref.Map, M: []ref.KV{}}
			for _, kv := range first.M {
				row.M = append(row.M, ref.KV{K: kv.K, V: val()})
			}
			s.A = append(s.A, row)
		}
		return s
	case "xml":
		return ref.MapV(ref.KV{K: "root", V: flat()})
	}
	m := flat()
	if r.IntN(3) == 0 {
		m.M = append(m.M, ref.KV{K: "nested", V: gen.SimpleValue(r, 1)})
	}
	return m
}
