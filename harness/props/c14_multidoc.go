package props

import (
	"fmt"
	"math/rand/v2"
	"os"
	"path/filepath"
	"strings"

	"verifharness/gen"
	"verifharness/mon"
	"verifharness/ref"
	"verifharness/yqx"
)

// Encoder-state family of C14: an encoder object serves every document of a run, so what it writes
// for document k must not depend on documents 1..k-1. Oracle (metamorphic, through the real code
// on both sides): the text written for a stream of documents / several files equals the
// concatenation of the texts written for each document alone. Documents deliberately differ in key
// order, key names and shape (that is what a cached layout would get wrong).
func c14MultiDoc(w *mon.Worker, idx int) mon.Result {
	r := w.Rand(idx)
	format := []string{"csv", "tsv", "props", "xml", "json", "lua", "shell", "yaml"}[r.IntN(8)]
	res := mon.Result{Tags: []string{"cell:multidoc:" + format}}
	n := 2 + r.IntN(3)
	docs := make([]*ref.V, n)
	keys := []string{"name", "cats", "id", "zz", "k"}
	for i := range docs {
		docs[i] = c14FlatDoc(r, format, keys)
	}
	var texts []string
	for i, d := range docs {
		t := d.JSON()
		// the first document may carry a leading comment: what an encoder keeps from it must not show up in
		// front of the next document
		// (the first document only: how comments between two documents of one stream are attached is the parser's
		// business and differs from the leading-content path of a file's first document)
		if (format == "xml" || format == "props") && r.IntN(2) == 0 && i == 0 {
			t = fmt.Sprintf("# lead %d\n%s", i, t)
			res.Tags = append(res.Tags, "leading_comment")
		}
		texts = append(texts, t)
	}
	res.Case = map[string]any{"format": format, "docs": texts}
	res.Sig = fmt.Sprintf("multidoc|%s|%x", format, hashStr(strings.Join(texts, "\n")))
	res.Nontrivial = true
	var parts []string
	for _, t := range texts {
		o, err, pan := yqx.Eval(".", t+"\n", "yaml", format)
		res.Evals++
		if err != nil || pan != nil {
			res.Verdict, res.Nontrivial, res.Detail = mon.Held, false, "a document is not encodable in this format"
			res.Tags = append(res.Tags, "not_encodable")
			return res
		}
		parts = append(parts, o)
	}
	sep := ""
	if format == "yaml" {
		sep = "---\n"
	}
	want := strings.Join(parts, sep)
	// one stream, in-process (one encoder object for all documents)
	stream := strings.Join(texts, "\n---\n") + "\n"
	got, err, pan := yqx.Eval(".", stream, "yaml", format)
	res.Evals++
	if err != nil || pan != nil {
		res.Verdict = mon.Violated
		res.Detail = fmt.Sprintf("-o=%s works for each document alone but fails on the stream: %v %v", format, err, pan)
		return res
	}
	if got != want {
		res.Verdict = mon.Violated
		res.Detail = fmt.Sprintf("-o=%s of a %d-document stream differs from the documents encoded one by one\n documents: %v\n one by one:\n%s stream:\n%s", format, n, texts, clipStr(want, 700), clipStr(got, 700))
		return res
	}
	// several files through the real binary
	if !w.Race && r.IntN(2) == 0 {
		dir := filepath.Join(w.Scratch, fmt.Sprintf("c14md-%d", idx))
		_ = os.MkdirAll(dir, 0o755)
		defer os.RemoveAll(dir)
		args := []string{w.YqBin(), "-o=" + format, "."}
		for i, t := range texts {
			f := filepath.Join(dir, fmt.Sprintf("f%d.yaml", i))
			_ = os.WriteFile(f, []byte(t+"\n"), 0o644)
			args = append(args, f)
		}
		var single []string
		ok := true
		for i := range texts {
			br := mon.Run(mon.RunOpts{Dir: dir}, w.YqBin(), "-o="+format, ".", filepath.Join(dir, fmt.Sprintf("f%d.yaml", i)))
			res.Evals++
			if br.TimedOut || br.Exit != 0 {
				ok = false
				break
			}
			single = append(single, string(br.Stdout))
		}
		br := mon.Run(mon.RunOpts{Dir: dir}, args...)
		res.Evals++
		if ok && !br.TimedOut {
			res.Tags = append(res.Tags, "binary_files")
			if br.Exit != 0 || string(br.Stdout) != strings.Join(single, sep) {
				res.Verdict = mon.Violated
				res.Detail = fmt.Sprintf("yq -o=%s . f0..f%d (exit %d) differs from the files encoded one by one\n files: %v\n one by one:\n%s together:\n%s", format, n-1, br.Exit, texts, clipStr(strings.Join(single, sep), 700), clipStr(string(br.Stdout), 700))
				return res
			}
		}
	}
	res.Verdict = mon.Held
	res.Detail = fmt.Sprintf("%d documents, stream == one by one", n)
	return res
}

// c14FlatDoc builds a document every listed format can encode: for csv/tsv an array of flat objects
// (or of scalar rows), for xml a single-rooted map, otherwise a small map.
func c14FlatDoc(r *rand.Rand, format string, keys []string) *ref.V {
	val := func() *ref.V {
		switch r.IntN(3) {
		case 0:
			return ref.IntV(int64(r.IntN(50)))
		case 1:
			return ref.StrV([]string{"Ann", "Bob", "x y", "q,r", "t\tu", "v"}[r.IntN(6)])
		default:
			return ref.BoolV(r.IntN(2) == 0)
		}
	}
	flat := func() *ref.V {
		m := &ref.V{K: ref.Map, M: []ref.KV{}}
		perm := r.Perm(len(keys))
		for _, i := range perm[:1+r.IntN(len(keys)-1)] {
			m.M = append(m.M, ref.KV{K: keys[i], V: val()})
		}
		return m
	}
	switch format {
	case "csv", "tsv":
		s := &ref.V{K: ref.Seq, A: []*ref.V{}}
		first := flat()
		s.A = append(s.A, first)
		for i := 0; i < r.IntN(3); i++ {
			// same keys as the first row of THIS document (the documented header rule), own values
			row := &ref.V{K: ref.Map, M: []ref.KV{}}
			for _, kv := range first.M {
				row.M = append(row.M, ref.KV{K: kv.K, V: val()})
			}
			s.A = append(s.A, row)
		}
		return s
	case "xml":
		return ref.MapV(ref.KV{K: "root", V: flat()})
	}
	m := flat()
	if r.IntN(3) == 0 {
		m.M = append(m.M, ref.KV{K: "nested", V: gen.SimpleValue(r, 1)})
	}
	return m
}

// Decoder-state family: the command layer builds ONE decoder per run and calls Init on it for every input file,
// so what it yields for file k must not depend on files 1..k-1. Oracle (metamorphic, real binary on both sides):
// `yq -p=F -o=json . f0 f1 ..` prints the concatenation of what `yq -p=F -o=json . fi` prints for each file alone.
func c14MultiFileDecode(w *mon.Worker, idx int) mon.Result {
	r := w.Rand(idx)
	format := []string{"toml", "xml", "json", "csv", "tsv", "props", "yaml", "toml", "xml"}[r.IntN(9)]
	res := mon.Result{Tags: []string{"cell:multifile-decode:" + format}}
	n := 2 + r.IntN(2)
	keys := []string{"name", "cats", "id", "zz", "k"}
	var texts []string
	for i := 0; i < n; i++ {
		if format == "toml" {
			texts = append(texts, c14TomlText(r, keys))
			continue
		}
		d := c14FlatDoc(r, format, keys)
		o, err, pan := yqx.Eval(".", d.JSON()+"\n", "yaml", format)
		res.Evals++
		if err != nil || pan != nil {
			res.Verdict, res.Detail = mon.Held, "a document is not encodable in this format"
			res.Tags = append(res.Tags, "not_encodable")
			return res
		}
		texts = append(texts, o)
	}
	res.Case = map[string]any{"input_format": format, "files": texts}
	res.Sig = fmt.Sprintf("multifile|%s|%x", format, hashStr(strings.Join(texts, "\x00")))
	res.Nontrivial = true
	dir := filepath.Join(w.Scratch, fmt.Sprintf("c14mf-%d", idx))
	_ = os.MkdirAll(dir, 0o755)
	defer os.RemoveAll(dir)
	var names, single []string
	for i, t := range texts {
		f := filepath.Join(dir, fmt.Sprintf("f%d.%s", i, format))
		_ = os.WriteFile(f, []byte(t), 0o644)
		names = append(names, f)
		br := mon.Run(mon.RunOpts{Dir: dir}, w.YqBin(), "-p="+format, "-o=json", "-I=0", ".", f)
		res.Evals++
		if br.TimedOut || br.Exit != 0 {
			res.Verdict, res.Nontrivial, res.Detail = mon.Held, false, "a file is not readable on its own: "+clipStr(string(br.Stderr), 200)
			res.Tags = append(res.Tags, "single_file_unreadable")
			return res
		}
		single = append(single, string(br.Stdout))
	}
	for _, mode := range []string{"eval", "eval-all"} {
		br := mon.Run(mon.RunOpts{Dir: dir}, append([]string{w.YqBin(), mode, "-p=" + format, "-o=json", "-I=0", "."}, names...)...)
		res.Evals++
		if br.TimedOut {
			res.Verdict, res.Detail = mon.Inconclusive, "timed out"
			return res
		}
		if br.Exit != 0 || string(br.Stdout) != strings.Join(single, "") {
			res.Verdict = mon.Violated
			res.Detail = fmt.Sprintf("yq %s -p=%s -o=json . f0..f%d (exit %d) differs from the files read one by one\n files: %q\n one by one:\n%s together:\n%s%s", mode, format, n-1, br.Exit, texts, clipStr(strings.Join(single, ""), 700), clipStr(string(br.Stdout), 700), clipStr(string(br.Stderr), 300))
			return res
		}
	}
	res.Verdict = mon.Held
	res.Detail = fmt.Sprintf("%d %s files, together == one by one", n, format)
	return res
}

// c14TomlText: a small TOML file: top-level keys, a table and an array of tables, each drawn from one key pool
// (so that what an earlier file left behind would show up under the same names in a later one).
func c14TomlText(r *rand.Rand, keys []string) string {
	val := func() string {
		switch r.IntN(3) {
		case 0:
			return fmt.Sprint(r.IntN(50))
		case 1:
			return fmt.Sprintf("%q", []string{"Ann", "Bob", "x y", "q,r", "v"}[r.IntN(5)])
		default:
			return fmt.Sprint(r.IntN(2) == 0)
		}
	}
	var sb strings.Builder
	kv := func() {
		perm := r.Perm(len(keys))
		for _, i := range perm[:1+r.IntN(len(keys)-1)] {
			fmt.Fprintf(&sb, "%s = %s\n", keys[i], val())
		}
	}
	kv()
	if r.IntN(2) == 0 {
		sb.WriteString("\n[server]\n")
		kv()
	}
	if r.IntN(2) == 0 {
		sb.WriteString("\n[server.tls]\n")
		kv()
	}
	for i := 0; i < r.IntN(3); i++ {
		sb.WriteString("\n[[items]]\n")
		kv()
	}
	return sb.String()
}
