package props

import (
	"fmt"
	"math/rand/v2"
	"sort"
	"strings"

	yaml "gopkg.in/yaml.v3"

	"verifharness/mon"
	"verifharness/ref"
	"verifharness/yqx"
)

// Comment-ownership family of C07: elements are ADDED to a sequence (append / prepend / concatenation, in all
// the spellings yq offers) of a hand-maintained looking document in which block sequences carry comments that
// belong to single elements: a head comment above an element, a line comment, and the comment that trails a
// block sequence (yaml.v3 hangs it, as foot comment, on the last element).
//
// The tree family compares the linearised comment stream, which is blind to WHICH node a comment hangs on when
// the update only inserts nodes next to it. Here `yq .` and `yq u` are both read back with yaml.v3 (no yq code)
// and the per-path table (head / line / foot comment of key and value, kind, value, tag, style, anchor,
// position among siblings) must be the same for every node that is not one of the added elements; the
// sequence must have grown by exactly the added elements; and, the update being a pure addition, every line
// of `yq .` must still be there, in order.

type c07fSeq struct {
	p       []any  // path of the sequence
	n       int    // elements
	kind    string // scalars | maps | flow | nested
	trail   bool   // the generator wrote a comment that trails the sequence
	topOnly bool   // every step is a string key (a `*+` merge can address it)
}

type c07fDoc struct {
	text string
	seqs []c07fSeq
}

type c07fGen struct {
	r    *rand.Rand
	sb   strings.Builder
	cn   int
	seqs []c07fSeq
}

func (g *c07fGen) cm() string {
	g.cn++
	return fmt.Sprintf("# %s %d", []string{"note", "keep", "add new ones above", "end of", "see", "TODO"}[g.r.IntN(6)], g.cn)
}

func (g *c07fGen) scal() string {
	g.cn++
	return fmt.Sprintf([]string{"alpha%d", "%d", "'q%d'", "\"d%d\"", "v%d.0", "x%d y"}[g.r.IntN(6)], g.cn)
}

// seq writes a block sequence of scalars at the given indentation.
func (g *c07fGen) seq(ind string, p []any, trailP int) {
	r := g.r
	n := 1 + r.IntN(4)
	for i := 0; i < n; i++ {
		if r.IntN(5) == 0 {
			fmt.Fprintf(&g.sb, "%s%s\n", ind, g.cm()) // above an element
		}
		ln := ""
		if r.IntN(3) == 0 {
			ln = " " + g.cm()
		}
		fmt.Fprintf(&g.sb, "%s- %s%s\n", ind, g.scal(), ln)
	}
	s := c07fSeq{p: p, n: n, kind: "scalars", topOnly: true}
	for _, st := range p {
		if _, ok := st.(string); !ok {
			s.topOnly = false
		}
	}
	if r.IntN(100) < trailP {
		s.trail = true
		for k := 0; k < 1+r.IntN(4)/3; k++ {
			fmt.Fprintf(&g.sb, "%s%s\n", ind, g.cm())
		}
		if r.IntN(3) == 0 {
			g.sb.WriteString("\n")
		}
	}
	g.seqs = append(g.seqs, s)
}

func c07FootGen(r *rand.Rand) c07fDoc {
	g := &c07fGen{r: r}
	if r.IntN(2) == 0 {
		g.sb.WriteString(g.cm() + " (hand maintained)\n")
		if r.IntN(2) == 0 {
			g.sb.WriteString("\n")
		}
	}
	type block func()
	var blocks []block
	names := []string{"ports", "hosts", "args", "steps", "env", "items"}
	r.Shuffle(len(names), func(i, j int) { names[i], names[j] = names[j], names[i] })
	ns := 2 + r.IntN(3)
	for i := 0; i < ns; i++ {
		k := names[i]
		blocks = append(blocks, func() {
			fmt.Fprintf(&g.sb, "%s:\n", k)
			g.seq("  ", []any{k}, 75)
		})
	}
	blocks = append(blocks, func() {
		ln := ""
		if r.IntN(3) == 0 {
			ln = " " + g.cm()
		}
		fmt.Fprintf(&g.sb, "name: %s%s\n", g.scal(), ln)
	})
	if r.IntN(2) == 0 {
		// sequences below one and two levels of maps
		blocks = append(blocks, func() {
			g.sb.WriteString("cfg:\n")
			if r.IntN(2) == 0 {
				fmt.Fprintf(&g.sb, "  mode: %s\n", g.scal())
			}
			g.sb.WriteString("  allow:\n")
			g.seq("    ", []any{"cfg", "allow"}, 75)
			if r.IntN(2) == 0 {
				g.sb.WriteString("  deep:\n    list:\n")
				g.seq("      ", []any{"cfg", "deep", "list"}, 75)
			}
			if r.IntN(2) == 0 {
				fmt.Fprintf(&g.sb, "  after: %s\n", g.scal())
			}
		})
	}
	if r.IntN(2) == 0 {
		// a sequence of sequences: the inner ones and the outer one may each be trailed by a comment
		blocks = append(blocks, func() {
			g.sb.WriteString("matrix:\n")
			m := 1 + r.IntN(3)
			for i := 0; i < m; i++ {
				// "- - a" : first inner element on the dash line
				var inner c07fGen
				inner.r, inner.cn = r, g.cn
				inner.seq("    ", []any{"matrix", i}, 60)
				g.cn = inner.cn
				txt := inner.sb.String()
				if strings.HasPrefix(txt, "    - ") {
					txt = "  - " + txt[4:]
					g.sb.WriteString(txt)
					g.seqs = append(g.seqs, inner.seqs...)
				} else {
					// the inner sequence starts with a comment line: write a plain scalar element instead
					fmt.Fprintf(&g.sb, "  - %s\n", g.scal())
				}
			}
			s := c07fSeq{p: []any{"matrix"}, n: m, kind: "nested", topOnly: true}
			if r.IntN(2) == 0 {
				s.trail = true
				fmt.Fprintf(&g.sb, "  %s\n", g.cm())
			}
			g.seqs = append(g.seqs, s)
		})
	}
	if r.IntN(2) == 0 {
		// a sequence of maps: the trailing comment hangs on the last key of the last map
		blocks = append(blocks, func() {
			g.sb.WriteString("jobs:\n")
			m := 1 + r.IntN(3)
			for i := 0; i < m; i++ {
				fmt.Fprintf(&g.sb, "  - name: %s\n    image: %s\n", g.scal(), g.scal())
			}
			s := c07fSeq{p: []any{"jobs"}, n: m, kind: "maps", topOnly: true}
			if r.IntN(2) == 0 {
				s.trail = true
				fmt.Fprintf(&g.sb, "  %s\n", g.cm())
			}
			g.seqs = append(g.seqs, s)
		})
	}
	if r.IntN(2) == 0 {
		blocks = append(blocks, func() {
			m := 1 + r.IntN(3)
			var xs []string
			for i := 0; i < m; i++ {
				xs = append(xs, fmt.Sprintf("t%d", i))
			}
			ln := ""
			if r.IntN(2) == 0 {
				ln = " " + g.cm()
			}
			fmt.Fprintf(&g.sb, "tags: [%s]%s\n", strings.Join(xs, ", "), ln)
			g.seqs = append(g.seqs, c07fSeq{p: []any{"tags"}, n: m, kind: "flow", topOnly: true})
		})
	}
	r.Shuffle(len(blocks), func(i, j int) { blocks[i], blocks[j] = blocks[j], blocks[i] })
	for _, b := range blocks {
		b()
	}
	if r.IntN(3) == 0 {
		g.sb.WriteString(g.cm() + " (end of file)\n")
	}
	return c07fDoc{text: g.sb.String(), seqs: g.seqs}
}

// ---- the independent reader: per-path presentation table from yaml.v3 nodes

type c07fRow struct {
	kind, value, tag, style, anchor string
	head, line, foot                string
	pos                             string
}

type c07fTable struct {
	rows  map[string]c07fRow
	order []string
	paths map[string][]any
}

func c07fPathKey(p []any) string {
	var b strings.Builder
	for _, s := range p {
		switch k := s.(type) {
		case string:
			fmt.Fprintf(&b, ".%q", k)
		case int:
			fmt.Fprintf(&b, "[%d]", k)
		}
	}
	if b.Len() == 0 {
		return "."
	}
	return b.String()
}

func c07fNorm(c string) string { return strings.Join(ref.CommentLines(c), "\n") }

func (t *c07fTable) walk(n *yaml.Node, p []any, pos string, key *yaml.Node) {
	r := c07fRow{kind: fmt.Sprint(n.Kind), tag: n.ShortTag(), style: fmt.Sprint(n.Style), anchor: n.Anchor,
		head: c07fNorm(n.HeadComment), line: c07fNorm(n.LineComment), foot: c07fNorm(n.FootComment), pos: pos}
	if n.Kind == yaml.ScalarNode || n.Kind == yaml.AliasNode {
		r.value = n.Value
	}
	if key != nil {
		r.head = c07fNorm(key.HeadComment) + " | " + r.head
		r.line = c07fNorm(key.LineComment) + " | " + r.line
		r.foot = c07fNorm(key.FootComment) + " | " + r.foot
		r.style = fmt.Sprint(key.Style) + " | " + r.style
		r.anchor = key.Anchor + " | " + r.anchor
	}
	pk := c07fPathKey(p)
	if _, dup := t.rows[pk]; dup {
		pk += fmt.Sprintf("?dup%d", len(t.order))
	}
	t.rows[pk] = r
	t.order = append(t.order, pk)
	t.paths[pk] = p
	switch n.Kind {
	case yaml.MappingNode:
		prev := "^"
		for i := 0; i+1 < len(n.Content); i += 2 {
			k := n.Content[i]
			name := k.Value
			if k.Kind != yaml.ScalarNode {
				name = fmt.Sprintf("?complex%d", i/2)
			}
			t.walk(n.Content[i+1], append(append([]any{}, p...), name), "after "+prev, k)
			prev = name
		}
	case yaml.SequenceNode:
		for i, c := range n.Content {
			t.walk(c, append(append([]any{}, p...), i), "", nil)
		}
	}
}

// c07fLoad reads a one-document text; docHead/docFoot are the comments of the document node.
func c07fLoad(text string) (t *c07fTable, docHead, docFoot string, err error) {
	docs, err := ref.ParseYAMLNodes(text)
	if err != nil {
		return nil, "", "", err
	}
	if len(docs) != 1 || docs[0].Kind != yaml.DocumentNode || len(docs[0].Content) != 1 {
		return nil, "", "", fmt.Errorf("%d documents", len(docs))
	}
	t = &c07fTable{rows: map[string]c07fRow{}, paths: map[string][]any{}}
	t.walk(docs[0].Content[0], nil, "", nil)
	return t, c07fNorm(docs[0].HeadComment), c07fNorm(docs[0].FootComment), nil
}

// c07fAdd is one addition to a sequence: cnt elements come in at the end (or, front=true, at the start).
type c07fAdd struct {
	s     c07fSeq
	cnt   int
	front bool
}

func c07fLit(r *rand.Rand, i int) string {
	switch r.IntN(8) {
	case 0:
		return fmt.Sprintf("%d", 8000+r.IntN(999))
	case 1:
		return "true"
	case 2:
		return fmt.Sprintf(`"two words %d"`, i)
	case 3:
		return fmt.Sprintf(`[%d, "in"]`, r.IntN(9))
	case 4:
		return fmt.Sprintf(`{"zz_k": %d}`, r.IntN(9))
	}
	return fmt.Sprintf(`"zz_new%d"`, i)
}

func c07FootCase(w *mon.Worker, r *rand.Rand) mon.Result {
	d := c07FootGen(r)
	res := mon.Result{}
	tags := map[string]bool{"family:foot": true}
	finish := func() mon.Result {
		for t := range tags {
			res.Tags = append(res.Tags, t)
		}
		sort.Strings(res.Tags)
		return res
	}
	// ---- the update
	s := d.seqs[r.IntN(len(d.seqs))]
	for try := 0; try < 3 && !(s.kind == "scalars" && s.trail); try++ {
		s = d.seqs[r.IntN(len(d.seqs))] // mostly (not always) a sequence of scalars that a comment trails
	}
	pe := c07PathExpr(s.p)
	m := 1 + r.IntN(3)
	var lits []string
	for i := 0; i < m; i++ {
		lits = append(lits, c07fLit(r, i))
	}
	list := "[" + strings.Join(lits, ", ") + "]"
	adds := []c07fAdd{{s: s, cnt: m}}
	var expr, form string
	switch form = []string{"pluseq_list", "pluseq_list", "pluseq_one", "update_plus", "assign_plus", "assign_pipe_plus", "pluseq_seq_of_doc", "prepend",
		"twice", "two_targets", "with", "merge_append", "collect", "plus_chain", "update_plus_twice"}[r.IntN(15)]; form {
	case "pluseq_list":
		expr = pe + " += " + list
	case "pluseq_one":
		// a single non-sequence right-hand side is appended as one element
		lit := lits[0]
		if strings.HasPrefix(lit, "[") {
			lit = `"zz_one"`
		}
		expr = pe + " += " + lit
		adds[0].cnt = 1
	case "update_plus":
		expr = pe + " |= . + " + list
	case "assign_plus":
		expr = pe + " = " + pe + " + " + list
	case "assign_pipe_plus":
		expr = pe + " = (" + pe + " | . + " + list + ")"
	case "pluseq_seq_of_doc":
		// another sequence of the document is appended (its elements bring their own comments: they are inside T)
		o := d.seqs[r.IntN(len(d.seqs))]
		if c07fPathKey(o.p) == c07fPathKey(s.p) || c07IsPrefix(s.p, o.p) || c07IsPrefix(o.p, s.p) {
			expr = pe + " += " + list
			form = "pluseq_list"
		} else {
			expr = pe + " += " + c07PathExpr(o.p)
			adds[0].cnt = o.n
		}
	case "prepend":
		expr = pe + " = " + list + " + " + pe
		adds[0].front = true
	case "twice":
		expr = pe + " += " + list + " | " + pe + ` += ["zz_again"]`
		adds[0].cnt = m + 1
	case "two_targets":
		var o *c07fSeq
		for _, c := range r.Perm(len(d.seqs)) {
			x := d.seqs[c]
			if !c07IsPrefix(s.p, x.p) && !c07IsPrefix(x.p, s.p) {
				o = &x
				break
			}
		}
		if o == nil {
			expr = pe + " += " + list
			form = "pluseq_list"
		} else {
			expr = "(" + pe + ", " + c07PathExpr(o.p) + ") += " + list
			adds = append(adds, c07fAdd{s: *o, cnt: m})
		}
	case "with":
		expr = "with(" + pe + "; . += " + list + ")"
	case "merge_append":
		if !s.topOnly {
			expr = pe + " += " + list
			form = "pluseq_list"
		} else {
			obj := list
			for i := len(s.p) - 1; i >= 0; i-- {
				obj = fmt.Sprintf(`{%q: %s}`, s.p[i].(string), obj)
			}
			expr = ". *+ " + obj
		}
	case "collect":
		expr = pe + " |= [.[], " + strings.Join(lits, ", ") + "]"
	case "plus_chain":
		expr = pe + " = " + pe + " + " + list + ` + ["zz_tail"]`
		adds[0].cnt = m + 1
	case "update_plus_twice":
		expr = pe + " |= (. + " + list + ` | . + ["zz_tail"])`
		adds[0].cnt = m + 1
	}
	tags["foot:form:"+form] = true
	tags["foot:seq:"+s.kind] = true
	res.Case = map[string]any{"text": d.text, "update": expr, "kind": "foot_" + form}
	res.Sig = fmt.Sprintf("foot|%x|%s", hashStr(d.text), expr)
	// ---- yq . and yq u
	base, e1, p1 := yqx.Eval(".", d.text, "yaml", "yaml")
	res.Evals++
	if e1 != nil || p1 != nil {
		res.Verdict, res.Detail = mon.Inconclusive, fmt.Sprintf("`yq .` fails on the document: %v %v", e1, p1)
		return finish()
	}
	got, e2, p2 := yqx.Eval(expr, d.text, "yaml", "yaml")
	res.Evals++
	if p2 != nil {
		res.Verdict, res.Detail = mon.Violated, fmt.Sprintf("yq panicked on %s: %s\n%s", expr, p2.Value, clipStr(p2.Stack, 1200))
		return finish()
	}
	if e2 != nil {
		res.Verdict, res.Detail = mon.Inconclusive, fmt.Sprintf("yq rejects the update %s: %v", expr, e2)
		tags["update_error"] = true
		return finish()
	}
	show := func() string {
		return fmt.Sprintf("--- update\n%s\n--- yq .\n%s\n--- yq u\n%s", expr, clipStr(base, 1500), clipStr(got, 1500))
	}
	in, _, _, e0 := c07fLoad(d.text)
	bt, bh, bf, e3 := c07fLoad(base)
	if e0 != nil || e3 != nil || len(in.order) != len(bt.order) {
		res.Verdict, res.Detail = mon.Inconclusive, fmt.Sprintf("the reader does not find the generator's nodes in the input / in `yq .` (C05's business): %v %v", e0, e3)
		tags["base_differs"] = true
		return finish()
	}
	for _, a := range adds {
		if row, ok := bt.rows[c07fPathKey(a.s.p)]; !ok || row.kind != fmt.Sprint(yaml.SequenceNode) {
			res.Verdict, res.Detail = mon.Inconclusive, "generator disagreement: the sequence is not where the generator put it"
			tags["generator_disagreement"] = true
			return finish()
		}
		if _, ok := bt.rows[c07fPathKey(append(append([]any{}, a.s.p...), a.s.n))]; ok {
			res.Verdict, res.Detail = mon.Inconclusive, "generator disagreement: sequence length"
			tags["generator_disagreement"] = true
			return finish()
		}
	}
	ut, uh, uf, e4 := c07fLoad(got)
	if e4 != nil {
		res.Verdict, res.Detail = mon.Violated, "the output of the update is not readable by yaml.v3 as one document: "+e4.Error()+"\n"+show()
		return finish()
	}
	// (coverage: what hangs on the last element of the sequence that grows)
	for _, a := range adds {
		last := bt.rows[c07fPathKey(append(append([]any{}, a.s.p...), a.s.n-1))]
		if last.foot != "" && !a.front {
			tags["foot:last_element_has_foot_comment"] = true
		}
		if last.line != "" {
			tags["foot:last_element_has_line_comment"] = true
		}
		if first := bt.rows[c07fPathKey(append(append([]any{}, a.s.p...), 0))]; first.head != "" && a.front {
			tags["foot:first_element_has_head_comment"] = true
		}
	}
	// ---- compare
	var fails []string
	toU := func(p []any) []any { // base coordinates -> coordinates after the update
		for _, a := range adds {
			if a.front && len(p) > len(a.s.p) && c07IsPrefix(a.s.p, p) {
				if i, ok := p[len(a.s.p)].(int); ok {
					q := append([]any{}, p...)
					q[len(a.s.p)] = i + a.cnt
					return q
				}
			}
		}
		return p
	}
	inT := func(p []any) bool { // coordinates after the update
		for _, a := range adds {
			if len(p) > len(a.s.p) && c07IsPrefix(a.s.p, p) {
				if i, ok := p[len(a.s.p)].(int); ok {
					if a.front && i < a.cnt || !a.front && i >= a.s.n {
						return true
					}
				}
			}
		}
		return false
	}
	outside, commented := 0, 0
	for _, pk := range bt.order {
		b := bt.rows[pk]
		p := bt.paths[pk]
		uk := c07fPathKey(toU(p))
		if strings.Contains(pk, "?dup") {
			uk = pk
		}
		u, ok := ut.rows[uk]
		if !ok {
			fails = append(fails, fmt.Sprintf("node %s (outside T) is gone after the update", pk))
			continue
		}
		outside++
		if b.head != "" || b.line != "" || b.foot != "" {
			commented++
		}
		chk := func(attr, x, y string) {
			if x != y {
				fails = append(fails, fmt.Sprintf("node %s (outside T): %s %q in `yq .`, %q after the update", pk, attr, x, y))
			}
		}
		chk("kind", b.kind, u.kind)
		chk("value", b.value, u.value)
		chk("tag", b.tag, u.tag)
		chk("style", b.style, u.style)
		chk("anchor", b.anchor, u.anchor)
		chk("position", b.pos, u.pos)
		chk("head comment", b.head, u.head)
		chk("line comment", b.line, u.line)
		chk("foot comment", b.foot, u.foot)
	}
	nT := 0
	for _, pk := range ut.order {
		if inT(ut.paths[pk]) {
			nT++
		}
	}
	if len(ut.order)-nT != len(bt.order) && len(fails) == 0 {
		fails = append(fails, fmt.Sprintf("%d nodes in `yq .`, %d nodes outside T after the update", len(bt.order), len(ut.order)-nT))
	}
	for _, a := range adds {
		// the sequence grew by exactly the added elements
		if _, ok := ut.rows[c07fPathKey(append(append([]any{}, a.s.p...), a.s.n+a.cnt-1))]; !ok {
			fails = append(fails, fmt.Sprintf("%s has fewer than %d+%d elements after the update", c07fPathKey(a.s.p), a.s.n, a.cnt))
		}
		if _, ok := ut.rows[c07fPathKey(append(append([]any{}, a.s.p...), a.s.n+a.cnt))]; ok {
			fails = append(fails, fmt.Sprintf("%s has more than %d+%d elements after the update", c07fPathKey(a.s.p), a.s.n, a.cnt))
		}
	}
	if bh != uh {
		fails = append(fails, fmt.Sprintf("document head comment %q in `yq .`, %q after the update", bh, uh))
	}
	if bf != uf {
		fails = append(fails, fmt.Sprintf("document foot comment %q in `yq .`, %q after the update", bf, uf))
	}
	// pure addition: every line of `yq .` is still there, in order (a flow sequence is one line: cut it out of both)
	bl, gl := strings.Split(base, "\n"), strings.Split(got, "\n")
	for _, a := range adds {
		if a.s.kind == "flow" {
			var rb, rg []string
			rb, _ = cutBlock(strings.Join(bl, "\n"), a.s.p[0].(string))
			rg, _ = cutBlock(strings.Join(gl, "\n"), a.s.p[0].(string))
			bl, gl = rb, rg
		}
	}
	dashLine := false // an element put in front of an inner sequence takes over the "- - " line of the outer element
	for _, a := range adds {
		if _, inner := a.s.p[len(a.s.p)-1].(int); inner && a.front {
			dashLine = true
		}
	}
	if !dashLine && !subsequence(bl, gl) {
		fails = append(fails, "the update only adds elements, but lines of `yq .` changed or disappeared")
	}
	res.Nontrivial = nT > 0 && commented > 0
	if len(fails) == 0 {
		res.Verdict = mon.Held
		res.Detail = fmt.Sprintf("%s: |T|=%d, %d nodes outside T (%d with comments) keep their presentation", expr, nT, outside, commented)
		return finish()
	}
	if len(fails) > 6 {
		fails = append(fails[:6], fmt.Sprintf("… %d more", len(fails)-6))
	}
	res.Verdict = mon.Violated
	res.Detail = strings.Join(fails, "\n") + "\n" + show()
	return finish()
}
