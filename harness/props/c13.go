package props

import (
	"fmt"
	"math/rand/v2"
	"sort"
	"strings"

	"gopkg.in/yaml.v3"

	"verifharness/mon"
	"verifharness/ref"
	"verifharness/yqx"
)

// C13 — aliases and merge keys read as the YAML specification resolves them.
//
// Oracle: the generator keeps its own tree (anchors, aliases, `<<` entries) and resolves it with an
// own implementation of the merge-key rules (explicit keys win wherever written; earlier entries
// of a merge list win; nested merges resolve recursively), cross-checked against yaml.v3's
// decoding of the same text. Three routes through yq must give that value: reading every path of
// the un-exploded document, `explode(.)`, and conversion to JSON.
type c13 struct{}

func init() { mon.Register(c13{}) }

func (c13) ID() string    { return "C13" }
func (c13) Level() string { return "exploration" }
func (c13) Rule() string {
	return "case = block-style YAML written by an own emitter: 2-4 anchored definitions (maps, scalars, sequences; maps may merge earlier ones), aliases in value positions " +
		"(map values, sequence items), maps with `<<: *a`, `<<: [*a, *b]` with overlapping keys, explicit keys before and after the merge, nested merges, merges inside sequence items. " +
		"Routes: `yq -o=json .`, `yq -o=json 'explode(.)'` (plus: the YAML printed by explode contains no `*`, `&`, `<<`), and `yq -o=json PATH` for every leaf path of the resolved value. " +
		"Maps are compared as unordered (the merge-key rules say nothing about key order). Non-trivial = the document has >=1 merge with an overlapping key or >=2 aliases; distinct by hash of the text."
}
func (c13) Assumptions() []string {
	return []string{
		"the generator's own resolution must agree with yaml.v3's decoding of the same text, otherwise the case is inconclusive (generator_disagreement)",
		"key order of resolved maps is not compared",
	}
}
func (c13) Cases(tier string) int {
	if tier == "thorough" {
		return 60000
	}
	return 8000
}
func (c13) RaceCases(tier string) int {
	if tier == "thorough" {
		return 2000
	}
	return 150
}
func (c13) Floor(tier string) int { return 800 }

// ---- generator tree ------------------------------------------------------------------------

type aNode struct {
	tag     string // a local tag written on an anchored map (`&a1 !settings`): a map all the same
	kind    string // scalar | seq | map | alias
	val     *ref.V // scalar
	items   []*aNode
	entries []aEntry
	anchor  string
	target  string // alias name
	ref     *aNode // the node the alias is bound to: the LATEST definition of the name before the alias
}

type aEntry struct {
	key       string
	keyAnchor string   // `&name key: v`: an anchor on the KEY node (never aliased; explode must still strip it)
	merge     []string // non-nil: this entry is `<<: *a` (len 1, single) or `<<: [*a, *b]`
	refs      []*aNode // the nodes those names are bound to at this point of the text
	list      bool
	v         *aNode
}

type c13Gen struct {
	r       *rand.Rand
	anchors map[string]*aNode
	mapAnch []string
	allAnch []string
	merges  int
	redefs  int
	overlap bool
	aliases int
	keyAnch int
	tagged  int
}

var c13Keys = []string{"x", "y", "z", "k", "j"}

func (g *c13Gen) scalar() *aNode {
	r := g.r
	switch r.IntN(5) {
	case 0:
		return &aNode{kind: "scalar", val: ref.IntV(int64(r.IntN(100)))}
	case 1:
		return &aNode{kind: "scalar", val: ref.BoolV(r.IntN(2) == 0)}
	case 2:
		return &aNode{kind: "scalar", val: ref.NullV()}
	default:
		if r.IntN(3) == 0 {
			// a VALUE spelled like one of the key names (a resolver that mixes up key and value positions shows)
			return &aNode{kind: "scalar", val: ref.StrV(c13Keys[r.IntN(len(c13Keys))])}
		}
		return &aNode{kind: "scalar", val: ref.StrV([]string{"a", "text", "v1", "hello world", "x y"}[r.IntN(5)])}
	}
}

func (g *c13Gen) value(depth int) *aNode {
	r := g.r
	if len(g.allAnch) > 0 && r.IntN(4) == 0 {
		g.aliases++
		name := g.allAnch[r.IntN(len(g.allAnch))]
		return &aNode{kind: "alias", target: name, ref: g.anchors[name]}
	}
	if depth <= 0 || r.IntN(2) == 0 {
		return g.scalar()
	}
	if r.IntN(3) == 0 {
		n := &aNode{kind: "seq"}
		for i := 0; i < 1+r.IntN(3); i++ {
			n.items = append(n.items, g.value(depth-1))
		}
		return n
	}
	return g.mapNode(depth-1, true)
}

func (g *c13Gen) mapNode(depth int, allowMerge bool) *aNode {
	r := g.r
	n := &aNode{kind: "map"}
	used := map[string]bool{}
	addKeys := func(cnt int) {
		for i := 0; i < cnt; i++ {
			k := c13Keys[r.IntN(len(c13Keys))]
			if used[k] {
				continue
			}
			used[k] = true
			e := aEntry{key: k, v: g.value(depth)}
			if r.IntN(8) == 0 {
				g.keyAnch++
				e.keyAnchor = fmt.Sprintf("ka%d", g.keyAnch)
			}
			n.entries = append(n.entries, e)
		}
	}
	addKeys(r.IntN(3))
	if allowMerge && len(g.mapAnch) > 0 && r.IntN(3) > 0 {
		e := aEntry{key: "<<"}
		if len(g.mapAnch) >= 2 && r.IntN(2) == 0 {
			a := g.mapAnch[r.IntN(len(g.mapAnch))]
			b := g.mapAnch[r.IntN(len(g.mapAnch))]
			e.merge, e.list = []string{a, b}, true
			if r.IntN(4) == 0 && len(g.mapAnch) >= 3 {
				e.merge = append(e.merge, g.mapAnch[r.IntN(len(g.mapAnch))])
			}
		} else {
			e.merge = []string{g.mapAnch[r.IntN(len(g.mapAnch))]}
			e.list = r.IntN(5) == 0
		}
		for _, name := range e.merge {
			e.refs = append(e.refs, g.anchors[name])
		}
		n.entries = append(n.entries, e)
		g.merges++
	}
	addKeys(r.IntN(3))
	if len(n.entries) == 0 {
		n.entries = append(n.entries, aEntry{key: "k", v: g.scalar()})
	}
	return n
}

func (g *c13Gen) doc() *aNode {
	r := g.r
	root := &aNode{kind: "map"}
	nd := 2 + r.IntN(3)
	for i := 0; i < nd; i++ {
		name := fmt.Sprintf("a%d", i+1)
		if i >= 1 && r.IntN(3) == 0 {
			// an anchor name defined again: aliases after this point bind to the new definition
			name = fmt.Sprintf("a%d", 1+r.IntN(i))
			g.redefs++
		}
		var d *aNode
		// the new value of a re-used name must not refer to that name (yaml.v3: "anchor value contains itself")
		savedAll, savedMap := g.allAnch, g.mapAnch
		g.allAnch, g.mapAnch = without(g.allAnch, name), without(g.mapAnch, name)
		switch r.IntN(6) {
		case 0:
			d = g.scalar()
		case 1:
			d = &aNode{kind: "seq", items: []*aNode{g.scalar(), g.scalar()}}
		default:
			d = g.mapNode(1, true)
		}
		g.allAnch, g.mapAnch = savedAll, savedMap
		d.anchor = name
		g.anchors[name] = d
		if d.kind == "map" && r.IntN(8) == 0 {
			d.tag = []string{"!settings", "!base", "!!map"}[r.IntN(3)]
			g.tagged++
		}
		if d.kind == "map" && r.IntN(3) == 0 {
			// a scalar INSIDE the anchored map carries an anchor of its own (aliased further down)
			for ei := range d.entries {
				if e := d.entries[ei]; e.merge == nil && e.v != nil && e.v.kind == "scalar" && e.v.anchor == "" {
					in := fmt.Sprintf("s%d", i+1)
					e.v.anchor = in
					g.anchors[in] = e.v
					g.allAnch = append(g.allAnch, in)
					break
				}
			}
		}
		known := false
		for _, x := range g.allAnch {
			if x == name {
				known = true
			}
		}
		if !known {
			g.allAnch = append(g.allAnch, name)
		}
		// the name is usable in a merge only while its latest definition is a map
		var ma []string
		for _, x := range g.mapAnch {
			if x != name {
				ma = append(ma, x)
			}
		}
		g.mapAnch = ma
		if d.kind == "map" {
			g.mapAnch = append(g.mapAnch, name)
		}
		root.entries = append(root.entries, aEntry{key: fmt.Sprintf("d%d", i+1), v: d})
	}
	if r.IntN(8) == 0 {
		// a LARGE anchored sequence (more than a hundred nodes) reached through an alias
		big := &aNode{kind: "seq", anchor: "big"}
		for i := 0; i < 105+r.IntN(30); i++ {
			big.items = append(big.items, &aNode{kind: "scalar", val: ref.IntV(int64(i))})
		}
		g.anchors["big"] = big
		root.entries = append(root.entries, aEntry{key: "dbig", v: big}, aEntry{key: "ubig", v: &aNode{kind: "alias", target: "big", ref: big}})
		g.aliases++
	}
	nu := 2 + r.IntN(4)
	for i := 0; i < nu; i++ {
		var v *aNode
		if r.IntN(2) == 0 {
			v = g.mapNode(2, true)
		} else {
			v = g.value(2)
		}
		root.entries = append(root.entries, aEntry{key: fmt.Sprintf("u%d", i+1), v: v})
	}
	return root
}

// ---- emitter -------------------------------------------------------------------------------

func scalarText(v *ref.V) string {
	if v.K == ref.Str {
		return ref.QuoteJSON(v.S)
	}
	return v.JSON()
}

func (n *aNode) emit(sb *strings.Builder, indent int, inline bool) {
	pad := strings.Repeat("  ", indent)
	anc := ""
	if n.anchor != "" {
		anc = "&" + n.anchor + " "
	}
	switch n.kind {
	case "scalar":
		sb.WriteString(" " + anc + scalarText(n.val) + "\n")
	case "alias":
		sb.WriteString(" *" + n.target + "\n")
	case "seq":
		if len(n.items) == 0 {
			sb.WriteString(" " + anc + "[]\n")
			return
		}
		sb.WriteString(" " + strings.TrimRight(anc, " ") + "\n")
		for _, it := range n.items {
			sb.WriteString(pad + "-")
			it.emitValue(sb, indent+1)
		}
	case "map":
		if n.tag != "" && n.anchor != "" {
			anc += n.tag + " "
		}
		if len(n.entries) == 0 {
			sb.WriteString(" " + anc + "{}\n")
			return
		}
		sb.WriteString(" " + strings.TrimRight(anc, " ") + "\n")
		n.emitEntries(sb, indent)
	}
}

func (n *aNode) emitEntries(sb *strings.Builder, indent int) {
	pad := strings.Repeat("  ", indent)
	for _, e := range n.entries {
		if e.merge != nil {
			if e.list {
				parts := make([]string, len(e.merge))
				for i, m := range e.merge {
					parts[i] = "*" + m
				}
				sb.WriteString(pad + "<<: [" + strings.Join(parts, ", ") + "]\n")
			} else {
				sb.WriteString(pad + "<<: *" + e.merge[0] + "\n")
			}
			continue
		}
		if e.keyAnchor != "" {
			sb.WriteString(pad + "&" + e.keyAnchor + " " + e.key + ":")
		} else {
			sb.WriteString(pad + e.key + ":")
		}
		e.v.emitValue(sb, indent+1)
	}
}

// emitValue writes the value after "key:" or "-".
func (n *aNode) emitValue(sb *strings.Builder, indent int) { n.emit(sb, indent, false) }

func (n *aNode) text() string {
	var sb strings.Builder
	n.emitEntries(&sb, 0)
	return sb.String()
}

// ---- resolution ----------------------------------------------------------------------------

type c13Quirks struct {
	mergeOverridesEarlier bool // a `<<` written after an explicit key overrides it
	listLastWins          bool // in a merge list later entries win
}

func (g *c13Gen) resolve(n *aNode, q c13Quirks) *ref.V {
	switch n.kind {
	case "scalar":
		return n.val.Copy()
	case "alias":
		return g.resolve(n.ref, q)
	case "seq":
		s := &ref.V{K: ref.Seq, A: []*ref.V{}}
		for _, it := range n.items {
			s.A = append(s.A, g.resolve(it, q))
		}
		return s
	}
	m := &ref.V{K: ref.Map, M: []ref.KV{}}
	explicit := map[string]bool{}
	if !q.mergeOverridesEarlier {
		for _, e := range n.entries {
			if e.merge == nil {
				explicit[e.key] = true
			}
		}
	}
	for _, e := range n.entries {
		if e.merge == nil {
			m.Set(e.key, g.resolve(e.v, q))
			explicit[e.key] = true
			continue
		}
		// the merged-in map: earlier list entries win (or later, under the quirk)
		merged := &ref.V{K: ref.Map, M: []ref.KV{}}
		for _, srcNode := range e.refs {
			src := g.resolve(srcNode, q)
			for _, kv := range src.M {
				if _, have := merged.Get(kv.K); have && !q.listLastWins {
					continue
				}
				merged.Set(kv.K, kv.V)
			}
		}
		for _, kv := range merged.M {
			if q.mergeOverridesEarlier {
				// overrides what was written before, later explicit keys override it again
				m.Set(kv.K, kv.V)
				continue
			}
			if explicit[kv.K] {
				continue
			}
			if _, have := m.Get(kv.K); !have {
				m.Set(kv.K, kv.V)
			}
		}
	}
	return m
}

// ---- comparison (maps unordered) -------------------------------------------------------------

func canon(v *ref.V) *ref.V {
	switch v.K {
	case ref.Seq:
		out := &ref.V{K: ref.Seq, A: make([]*ref.V, len(v.A))}
		for i, x := range v.A {
			out.A[i] = canon(x)
		}
		return out
	case ref.Map:
		out := &ref.V{K: ref.Map, M: make([]ref.KV, len(v.M))}
		for i, kv := range v.M {
			out.M[i] = ref.KV{K: kv.K, V: canon(kv.V)}
		}
		sort.SliceStable(out.M, func(i, j int) bool { return out.M[i].K < out.M[j].K })
		return out
	}
	return v
}

func sameUnordered(a, b *ref.V) bool { return ref.EqualNum(canon(a), canon(b)) }

func fromYamlAny(x any) *ref.V {
	switch t := x.(type) {
	case nil:
		return ref.NullV()
	case bool:
		return ref.BoolV(t)
	case int:
		return ref.IntV(int64(t))
	case int64:
		return ref.IntV(t)
	case float64:
		return ref.FloatV(t)
	case string:
		return ref.StrV(t)
	case []any:
		s := &ref.V{K: ref.Seq, A: []*ref.V{}}
		for _, y := range t {
			s.A = append(s.A, fromYamlAny(y))
		}
		return s
	case map[string]any:
		m := &ref.V{K: ref.Map, M: []ref.KV{}}
		for k, y := range t {
			m.M = append(m.M, ref.KV{K: k, V: fromYamlAny(y)})
		}
		return m
	}
	return ref.StrV(fmt.Sprint(x))
}

func (p c13) Run(w *mon.Worker, idx int) mon.Result {
	r := w.Rand(idx)
	g := &c13Gen{r: r, anchors: map[string]*aNode{}}
	root := g.doc()
	text := root.text()
	res := mon.Result{Case: map[string]any{"doc": text}}
	res.Sig = fmt.Sprintf("%x", hashStr(text))
	want := g.resolve(root, c13Quirks{})
	// second opinion on the generator: yaml.v3's own decoding resolves aliases and merges
	var anyv map[string]any
	if err := yaml.Unmarshal([]byte(text), &anyv); err != nil {
		res.Verdict, res.Detail = mon.Inconclusive, "yaml.v3 rejects the generated text: "+err.Error()
		res.Tags = append(res.Tags, "generator_disagreement")
		return res
	}
	if lib := fromYamlAny(anyv); !sameUnordered(lib, want) {
		res.Verdict = mon.Inconclusive
		res.Detail = fmt.Sprintf("generator and yaml.v3 disagree on the resolved value\n own %s\n lib %s", canon(want), canon(lib))
		res.Tags = append(res.Tags, "generator_disagreement")
		return res
	}
	res.Nontrivial = g.merges >= 1 || g.aliases >= 2
	res.Tags = append(res.Tags, fmt.Sprintf("merges:%d", min(g.merges, 4)), fmt.Sprintf("aliases:%d", min(g.aliases, 5)))
	if g.redefs > 0 {
		res.Tags = append(res.Tags, "anchor_redefined")
	}
	if g.keyAnch > 0 {
		res.Tags = append(res.Tags, "anchor_on_key")
	}
	if g.tagged > 0 {
		res.Tags = append(res.Tags, "tagged_anchored_map")
	}

	type route struct {
		name   string
		quirks [][2]bool // admissible quirk combinations for findings on this route (override-earlier, list-last-wins)
	}
	// candidates: which recorded deviations could explain a mismatch on which route
	explain := func(got *ref.V, wantAt func(q c13Quirks) *ref.V, traversal bool) (string, bool) {
		cands := []struct {
			q  c13Quirks
			id string
		}{
			{c13Quirks{mergeOverridesEarlier: true}, "C13-merge-overrides-earlier-explicit-key"},
		}
		if traversal {
			cands = append(cands,
				struct {
					q  c13Quirks
					id string
				}{c13Quirks{listLastWins: true}, "C13-merge-list-last-wins-in-traversal"},
				struct {
					q  c13Quirks
					id string
				}{c13Quirks{mergeOverridesEarlier: true, listLastWins: true}, "C13-merge-list-last-wins-in-traversal"})
		}
		for _, c := range cands {
			if x := wantAt(c.q); x != nil && sameUnordered(got, x) {
				return c.id, true
			}
		}
		return "", false
	}
	finding := ""
	fail := func(f string, a ...any) mon.Result {
		res.Verdict = mon.Violated
		res.Detail = fmt.Sprintf(f, a...)
		return res
	}
	whole := func(q c13Quirks) *ref.V { return g.resolve(root, q) }

	// route 1: conversion to JSON
	out, err, pan := yqx.Eval(".", text, "yaml", "json")
	res.Evals++
	if err != nil || pan != nil {
		return fail("`yq -o=json .` failed: %v %v\n%s", err, pan, text)
	}
	vs, perr := ref.ParseJSONStream(out)
	if perr != nil || len(vs) != 1 {
		return fail("`yq -o=json .` printed %q", clipStr(out, 300))
	}
	if !sameUnordered(vs[0], want) {
		id, ok := explain(vs[0], whole, false)
		if !ok {
			return fail("JSON conversion resolves aliases/merges differently\n doc:\n%s expected %s\n observed %s", text, canon(want), canon(vs[0]))
		}
		finding = id
		res.Tags = append(res.Tags, "json:"+id)
	}
	// route 2: explode
	out2, err2, pan2 := yqx.Eval("explode(.)", text, "yaml", "json")
	res.Evals++
	if err2 != nil || pan2 != nil {
		return fail("`explode(.)` failed: %v %v\n%s", err2, pan2, text)
	}
	vs2, perr2 := ref.ParseJSONStream(out2)
	if perr2 != nil || len(vs2) != 1 {
		return fail("`explode(.)` printed %q", clipStr(out2, 300))
	}
	if !sameUnordered(vs2[0], want) {
		id, ok := explain(vs2[0], whole, false)
		if !ok {
			return fail("explode(.) resolves aliases/merges differently\n doc:\n%s expected %s\n observed %s", text, canon(want), canon(vs2[0]))
		}
		finding = id
		res.Tags = append(res.Tags, "explode:"+id)
	}
	yout, yerr, ypan := yqx.Eval("explode(.)", text, "yaml", "yaml")
	res.Evals++
	if yerr != nil || ypan != nil {
		return fail("`explode(.)` (yaml) failed: %v", yerr)
	}
	for _, ln := range strings.Split(yout, "\n") {
		t := strings.TrimSpace(ln)
		if strings.HasPrefix(t, "<<:") || strings.HasPrefix(t, "&") || strings.HasPrefix(t, "*") || strings.HasPrefix(t, "- &ka") || strings.Contains(t, ": *") || strings.Contains(t, ": &") || strings.HasPrefix(t, "- *") || strings.HasPrefix(t, "- &") || strings.HasSuffix(t, ": &") {
			return fail("explode(.) left an alias, anchor or merge key behind: %q\n%s", ln, yout)
		}
	}
	// route 2b: the document after one pass through yq itself (`yq .` writes merge keys back as `!!merge <<`
	// and may re-style nodes): exploding / converting THAT text must give the same value
	if idx%3 == 0 {
		saved, serr, span := yqx.Eval(".", text, "yaml", "yaml")
		res.Evals++
		if serr != nil || span != nil {
			return fail("`yq .` failed: %v %v\n%s", serr, span, text)
		}
		res.Tags = append(res.Tags, "second_pass")
		for _, ex := range []string{"explode(.)", "."} {
			o, e, pn := yqx.Eval(ex, saved, "yaml", "json")
			res.Evals++
			if e != nil || pn != nil {
				return fail("after one pass through `yq .`, `%s` (to JSON) fails: %v %v\n--- yq . ---\n%s", ex, e, pn, saved)
			}
			vv, pe := ref.ParseJSONStream(o)
			if pe != nil || len(vv) != 1 {
				return fail("after one pass through `yq .`, `%s` printed %q", ex, clipStr(o, 300))
			}
			if !sameUnordered(vv[0], want) {
				if _, ok := explain(vv[0], whole, false); !ok {
					return fail("after one pass through `yq .`, `%s` resolves aliases/merges differently\n--- yq . ---\n%s expected %s\n observed %s", ex, saved, canon(want), canon(vv[0]))
				}
			}
		}
	}
	// route 2e: an assignment whose right-hand side yields an alias, then a read through the assigned node in the same
	// evaluation: the node reads as what it was given
	if idx%4 == 1 {
		var aliasKeys []string
		for _, e := range root.entries {
			if e.v != nil && e.v.kind == "alias" {
				aliasKeys = append(aliasKeys, e.key)
			}
		}
		for i, k := range aliasKeys {
			if i >= 2 {
				break
			}
			direct, e1, p1 := yqx.Eval("."+k, text, "yaml", "json")
			res.Evals++
			if e1 != nil || p1 != nil {
				continue
			}
			forms := []string{fmt.Sprintf(".zz_new = .%s | .zz_new", k), fmt.Sprintf(".zz_new |= 1 | .zz_new = .%s | .zz_new", k)}
			if len(aliasKeys) >= 2 {
				other := aliasKeys[(i+1)%len(aliasKeys)]
				forms = append(forms, fmt.Sprintf(".%s = .%s | .%s", other, k, other))
			}
			for _, f := range forms {
				via, e2, p2 := yqx.Eval(f, text, "yaml", "json")
				res.Evals++
				if p2 != nil || e2 != nil || via != direct {
					return fail("`.%s` reads %s; after `%s` the assigned node reads %s (err %v %v)\n%s", k, clipStr(direct, 200), f, clipStr(via, 200), e2, p2, text)
				}
			}
			res.Tags = append(res.Tags, "assigned_alias_read")
		}
	}
	// route 2d: the conversion done by an encoder INSIDE the expression (it works on a copy of the document) resolves every
	// alias and merge key to what the document itself resolves them to
	if idx%2 == 0 {
		oj, ej, pj := yqx.Eval("to_json | from_json", text, "yaml", "json")
		res.Evals++
		if ej != nil || pj != nil {
			return fail("`to_json | from_json` failed: %v %v\n%s", ej, pj, text)
		}
		vj, perr := ref.ParseJSONStream(oj)
		if perr != nil || len(vj) != 1 {
			return fail("`to_json | from_json` printed %q", clipStr(oj, 300))
		}
		if !sameUnordered(vj[0], want) {
			if _, ok := explain(vj[0], whole, false); !ok {
				return fail("`to_json | from_json` resolves aliases/merges differently from the document\n doc:\n%s expected %s\n observed %s", text, canon(want), canon(vj[0]))
			}
		}
		res.Tags = append(res.Tags, "in_expression_encoder")
	}
	// route 2c: two steps in one evaluation. Every alias is encoded once (which resolves it), THEN the anchored scalars
	// are given a new value, then the document is exploded: the aliases resolve to what their anchors hold at that
	// moment, exactly as without the encoding step in front
	if idx%3 == 1 && g.aliases >= 2 {
		edit := `((.. | select(anchor != "" and kind == "scalar")) = "edited") | explode(.)`
		if idx%2 == 0 {
			edit = `((.. | select(anchor != "" and kind == "map") | .[] | select(kind == "scalar")) = "edited") | explode(.)`
		}
		pre := `([.. | select(alias != "") | to_json] | length) as $n | `
		o1, e1, p1 := yqx.Eval(edit, text, "yaml", "json")
		o2, e2, p2 := yqx.Eval(pre+edit, text, "yaml", "json")
		res.Evals += 2
		if p1 != nil || p2 != nil {
			return fail("panic in the two-step route: %v %v\n%s", p1, p2, text)
		}
		if (e1 == nil) != (e2 == nil) || (e1 == nil && o1 != o2) {
			return fail("resolving the aliases once (to_json) before the anchored values are edited changes what explode gives afterwards\n `%s`: %s %v\n `%s`: %s %v\n%s", edit, clipStr(o1, 400), e1, pre+edit, clipStr(o2, 400), e2, text)
		}
		if e1 == nil {
			res.Tags = append(res.Tags, "two_step")
		}
	}
	// route 3: reading every leaf path of the un-exploded document
	var leaves [][]any
	want.Walk(nil, func(pth []any, n *ref.V) {
		if n.IsScalar() || (len(n.A) == 0 && len(n.M) == 0) {
			leaves = append(leaves, append([]any{}, pth...))
		}
	})
	if len(leaves) > 40 {
		leaves = leaves[:40]
	}
	// ... and every non-empty container below the root: converting a SUB-tree resolves the aliases and merge
	// keys in it without the rest of the document having been exploded first
	nc := 0
	want.Walk(nil, func(pth []any, n *ref.V) {
		if !n.IsScalar() && len(n.A)+len(n.M) > 0 && len(pth) > 0 && nc < 12 {
			leaves = append(leaves, append([]any{}, pth...))
			nc++
		}
	})
	if nc > 0 {
		res.Tags = append(res.Tags, "subtree_conversion")
	}
	for _, pth := range leaves {
		var sb strings.Builder
		for _, k := range pth {
			switch kk := k.(type) {
			case string:
				sb.WriteString("." + kk)
			case int:
				fmt.Fprintf(&sb, "[%d]", kk)
			}
		}
		expr := sb.String()
		o, e, pn := yqx.Eval(expr, text, "yaml", "json")
		res.Evals++
		if pn != nil {
			return fail("reading `%s` panicked: %v\n%s", expr, pn, text)
		}
		// what yq showed: an error, no result, or one value
		obsKind, obsVal := "error", (*ref.V)(nil)
		if e == nil {
			rs, pe := ref.ParseJSONStream(o)
			switch {
			case pe != nil || len(rs) > 1:
				return fail("reading `%s` printed %q\n%s", expr, clipStr(o, 200), text)
			case len(rs) == 0:
				obsKind = "none"
			default:
				obsKind, obsVal = "value", rs[0]
			}
		}
		// the same read as SECOND document of a stream and through a copy of the top-level value made by an operator
		// (`[.k] | .[0]…`, `.k as $v | $v…`): what a path reads does not depend on where the document stands
		if idx%5 == 3 && len(pth) >= 2 && e == nil {
			if k0, isKey := pth[0].(string); isKey {
				rest := expr[len("."+k0):]
				if strings.HasPrefix(rest, "[") {
					rest = " | ." + rest
				}
				// (the first document has none of the keys: it reads null)
				e2 := fmt.Sprintf("[.%s] | .[0]%s", k0, rest)
				lead := "null\n"
				if len(pth)%2 == 0 {
					// (the left side of `as` is read-only: the missing key of the first document binds nothing)
					e2, lead = fmt.Sprintf(".%s as $v | $v%s", k0, rest), ""
				}
				o2, er2, pn2 := yqx.Eval(e2, "first: 0\n---\n"+text, "yaml", "json")
				res.Evals++
				if pn2 != nil || er2 != nil || o2 != lead+o {
					return fail("`%s` on the document alone prints %q; as second document of a stream, `%s` prints %q (err %v %v)\n%s", expr, clipStr(o, 200), e2, clipStr(o2, 200), er2, pn2, text)
				}
				res.Tags = append(res.Tags, "second_document_copy")
			}
		}
		// the path is followed with traversal semantics (qt), the node reached is then printed,
		// i.e. exploded, with explode semantics (qv)
		matches := func(qt, qv c13Quirks) bool {
			k, v := g.walkAST(root, pth, qt, qv)
			if k != obsKind {
				return false
			}
			return k != "value" || sameUnordered(v, obsVal)
		}
		if matches(c13Quirks{}, c13Quirks{}) {
			continue
		}
		explained := ""
		f1 := c13Quirks{mergeOverridesEarlier: true}
		f2 := c13Quirks{listLastWins: true}
		f12 := c13Quirks{mergeOverridesEarlier: true, listLastWins: true}
		for _, c := range []struct {
			qt, qv c13Quirks
			id     string
		}{
			{f1, c13Quirks{}, "C13-merge-overrides-earlier-explicit-key"},
			{c13Quirks{}, f1, "C13-merge-overrides-earlier-explicit-key"},
			{f1, f1, "C13-merge-overrides-earlier-explicit-key"},
			{f2, c13Quirks{}, "C13-merge-list-last-wins-in-traversal"},
			{f2, f1, "C13-merge-list-last-wins-in-traversal"},
			{f12, c13Quirks{}, "C13-merge-list-last-wins-in-traversal"},
			{f12, f1, "C13-merge-list-last-wins-in-traversal"},
		} {
			if matches(c.qt, c.qv) {
				explained = c.id
				break
			}
		}
		if explained == "" {
			wv, _ := want.GetPath(pth)
			return fail("reading `%s` through the un-exploded document gives %s %v, the merge-key rules give %s\n%s", expr, obsKind, obsVal, wv, text)
		}
		finding = explained
		res.Tags = append(res.Tags, "traverse:"+explained)
	}
	// route 4: exploding one sub-tree in place leaves a document that can still be read, with the same value
	// (anchors other aliases refer to must survive)
	if idx%4 == 2 && finding == "" {
		n4 := 0
		var perr4 string
		want.Walk(nil, func(pth []any, n *ref.V) {
			if perr4 != "" || n.IsScalar() || len(n.A)+len(n.M) == 0 || len(pth) == 0 || len(pth) > 2 || n4 >= 4 {
				return
			}
			// only sub-trees that define no anchor themselves: explode strips the anchors INSIDE what it explodes
			// (by design), and an alias elsewhere to such an anchor is then left dangling
			if an := c13ASTAt(root, pth); an == nil || c13HasAnchor(an) {
				return
			}
			var sb strings.Builder
			for _, k := range pth {
				switch kk := k.(type) {
				case string:
					sb.WriteString("." + kk)
				case int:
					fmt.Fprintf(&sb, "[%d]", kk)
				}
			}
			n4++
			ex := "explode(" + sb.String() + ")"
			yo, e1, p1 := yqx.Eval(ex, text, "yaml", "yaml")
			res.Evals++
			if e1 != nil || p1 != nil {
				perr4 = fmt.Sprintf("`%s` failed: %v %v", ex, e1, p1)
				return
			}
			jo, e2, p2 := yqx.Eval(".", yo, "yaml", "json")
			res.Evals++
			if e2 != nil || p2 != nil {
				perr4 = fmt.Sprintf("the document printed by `%s` cannot be read back: %v %v\n--- output ---\n%s", ex, e2, p2, clipStr(yo, 900))
				return
			}
			vv, pe := ref.ParseJSONStream(jo)
			if pe != nil || len(vv) != 1 {
				perr4 = fmt.Sprintf("after `%s` the document converts to %q", ex, clipStr(jo, 200))
				return
			}
			if !sameUnordered(vv[0], want) {
				if _, ok := explain(vv[0], whole, false); !ok {
					perr4 = fmt.Sprintf("after `%s` the document means something else\n expected %s\n observed %s\n--- output ---\n%s", ex, canon(want), canon(vv[0]), clipStr(yo, 900))
				}
			}
		})
		if perr4 != "" {
			return fail("%s\n--- input ---\n%s", perr4, text)
		}
		if n4 > 0 {
			res.Tags = append(res.Tags, "partial_explode")
		}
	}
	if finding != "" {
		res.Verdict, res.FindingID = mon.Finding, finding
		res.Detail = "resolution differs from the merge-key rules exactly as the recorded deviation predicts"
		return res
	}
	res.Verdict = mon.Held
	res.Detail = fmt.Sprintf("%d leaves read, three routes agree", len(leaves))
	return res
}

// c13Walk follows a path the way a read traversal does: a missing key of a map reads as null,
// a scalar on the way yields nothing, a non-numeric key on a sequence is an error.
func c13Walk(v *ref.V, path []any) (string, *ref.V) {
	cur := v
	for _, p := range path {
		switch cur.K {
		case ref.Map:
			x, ok := cur.Get(fmt.Sprint(p))
			if !ok {
				return "value", ref.NullV()
			}
			cur = x
		case ref.Seq:
			i, isInt := p.(int)
			if !isInt {
				return "error", nil
			}
			if i >= len(cur.A) {
				return "value", ref.NullV()
			}
			cur = cur.A[i]
		case ref.Null:
			return "value", ref.NullV()
		default:
			return "none", nil
		}
	}
	return "value", cur
}

// lookup finds key in a map node of the generator tree with the given traversal semantics.
func (g *c13Gen) lookup(n *aNode, key string, q c13Quirks) *aNode {
	for n != nil && n.kind == "alias" {
		n = n.ref
	}
	if n == nil || n.kind != "map" {
		return nil
	}
	fromMerge := func(e aEntry) *aNode {
		var found *aNode
		for _, srcNode := range e.refs {
			if r := g.lookup(srcNode, key, q); r != nil {
				if found == nil || q.listLastWins {
					found = r
				}
			}
		}
		return found
	}
	if !q.mergeOverridesEarlier {
		for _, e := range n.entries {
			if e.merge == nil && e.key == key {
				return e.v
			}
		}
		for _, e := range n.entries {
			if e.merge != nil {
				if r := fromMerge(e); r != nil {
					return r
				}
			}
		}
		return nil
	}
	var found *aNode
	for _, e := range n.entries {
		if e.merge == nil {
			if e.key == key {
				found = e.v
			}
			continue
		}
		if r := fromMerge(e); r != nil {
			found = r
		}
	}
	return found
}

// walkAST follows path through the un-exploded generator tree like a read traversal (qt) and
// resolves the node it reaches like explode does (qv).
func (g *c13Gen) walkAST(root *aNode, path []any, qt, qv c13Quirks) (string, *ref.V) {
	cur := root
	for _, p := range path {
		for cur.kind == "alias" {
			cur = cur.ref
		}
		switch cur.kind {
		case "map":
			nx := g.lookup(cur, fmt.Sprint(p), qt)
			if nx == nil {
				return "value", ref.NullV()
			}
			cur = nx
		case "seq":
			i, isInt := p.(int)
			if !isInt {
				return "error", nil
			}
			if i >= len(cur.items) {
				return "value", ref.NullV()
			}
			cur = cur.items[i]
		default:
			if cur.val != nil && cur.val.K == ref.Null {
				return "value", ref.NullV()
			}
			return "none", nil
		}
	}
	return "value", g.resolve(cur, qv)
}

func without(xs []string, x string) []string {
	var out []string
	for _, y := range xs {
		if y != x {
			out = append(out, y)
		}
	}
	return out
}

// c13ASTAt follows a path of explicit keys / positions through the generator tree (nil when a step goes
// through an alias or a merged-in key: those are not sub-trees of the text at that place).
func c13ASTAt(n *aNode, pth []any) *aNode {
	for _, k := range pth {
		if n == nil {
			return nil
		}
		switch kk := k.(type) {
		case string:
			if n.kind != "map" {
				return nil
			}
			var next *aNode
			for _, e := range n.entries {
				if e.merge == nil && e.key == kk {
					next = e.v // the last explicit entry of that name wins
				}
			}
			n = next
		case int:
			if n.kind != "seq" || kk >= len(n.items) {
				return nil
			}
			n = n.items[kk]
		}
	}
	return n
}

func c13HasAnchor(n *aNode) bool {
	if n == nil {
		return false
	}
	if n.anchor != "" {
		return true
	}
	for _, it := range n.items {
		if c13HasAnchor(it) {
			return true
		}
	}
	for _, e := range n.entries {
		if e.keyAnchor != "" || c13HasAnchor(e.v) {
			return true
		}
	}
	return false
}
