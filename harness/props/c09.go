package props

import (
	"fmt"
	"math/rand/v2"
	"os"
	"path/filepath"
	"reflect"
	"sort"
	"strings"
	"sync"

	"github.com/mikefarah/yq/v4/pkg/yqlib"

	"verifharness/gen"
	"verifharness/mon"
	"verifharness/yqx"
)

// C09 — parsing honours operator precedence, grouping and layout-insensitivity; malformed
// expressions are rejected.
//
// One case = one generated AST (gen/c09_expr.go) with a forced operator pair at its core.
//
//	O1 trees     tree(parse(minimal-parenthesis spelling)) == tree(parse(fully parenthesised
//	             spelling)), modulo re-association of chains of ONE associative operator; every
//	             layout / redundant-parenthesis variant of the minimal spelling parses to exactly
//	             the tree of the minimal spelling. A well-formed expression that does not parse is
//	             a violation.
//	O2 results   all spellings print byte-identical JSON on three documents (error vs success
//	             must agree; error text may differ).
//	O3 rejection token lists with one bracket removed / duplicated / replaced by another kind, or
//	             one operand of an infix operator / the argument group of a prefix function
//	             removed, or an operator moved behind its operands, must be parse errors.
//	O4 coverage  case idx forces ordered pair number (idx-1) mod 882 of the 21x21x{L,R} matrix.
//
// The minimal spelling is computed from the harness's FROZEN copy of the precedence table; case
// 0 compares the live table (yqlib.VerifOpTable) with the frozen one.
type c09 struct{}

func init() { mon.Register(c09{}) }

func (c09) ID() string    { return "C09" }
func (c09) Level() string { return "exploration" }
func (c09) Rule() string {
	return "case = (typed expression AST with a forced ordered operator pair A-inside-B-as-left/right-child, 3 documents, " +
		"4-5 layout/parenthesis variants, up to 6 rejection mutants). Held iff the minimal-parenthesis and the fully " +
		"parenthesised spelling parse to the same tree (chains of one associative operator flattened) and every layout or " +
		"redundant-parenthesis variant parses to exactly the tree of the minimal spelling, all spellings print identical " +
		"JSON on the 3 documents, and every rejection mutant is a parse error. Non-trivial = the AST has >= 2 operators of " +
		"different precedence; distinct by AST skeleton hash (operators, functions, bracket structure; literals collapsed). " +
		"Case 0 checks the live operator table against the frozen copy."
}
func (c09) Assumptions() []string {
	return []string{
		"spec = operator table of operation.go at the pinned commit (frozen in gen/c09_expr.go); a child is bracketed in the minimal spelling iff it binds looser than its parent, or equally with a different operator, or equally with the same non-associative operator; prefix functions count as operators with their own precedence (del = 40), so nothing is asserted about equal-precedence neighbours of different operators or about an unbracketed del(...) next to an operator of precedence >= 40",
		"associative (any grouping asserted): | , and or // (the last three checked on 2187 operand triples incl. empty and multiple streams); + and * are NOT associative in yq ([1] + 2 + 3; float rounding) and are always bracketed, as are - / % comparisons and assignments",
		"`e as $x | body`: the binding is a distinct operator of pipe precedence; its body may be an unbracketed pipe chain (documented scope: variable-operators.md), a binding inside a pipe chain is always bracketed; variable names are unique per expression (no shadowing)",
		"layout is varied only at token boundaries where the documented lexer rules cut the same tokens: a separator is REQUIRED (so never removed) after a path element or a bare `.` unless the next character is one of ' ;}{:[],|.()=\\n!' (the path rule swallows + - * / % < > # etc.: `.a+1` is the key 'a+1', `.a>=1` is `.a> = 1`), between `-` and a digit or another `-` (negative literal), after `*`/`*=` before any of '+|?cdn=' (merge flags), after `=`/`|=` before 'c' (clobber flag), after `$name` before a word character or '-', between two word characters (keywords are fused otherwise: `trueandfalse` lexes), after a number before '.' or a word character; comments are always preceded by a space or newline; `\\r` and form feed are never generated (not white space for yq)",
		"a TAB glued directly behind a path element / bare `.` is generated only in a dedicated variant: yq's path rule swallows it (known finding C09-tab-after-path); everywhere else tabs are ordinary white space",
		"redundant parentheses go around value sub-expressions only: never around the `$x` of `as`, an object key/entry, a `;` block, or inside a postfix chain (`(.a.b)[0]` re-hangs the chain; C01's domain)",
		"union operands that may return one shared result list (., $x, assignments, del, with, flatten, map_values, {}, pipes ending in one) are limited to one per union chain: two of them are yielded once by the union operator (C01's known union defect) which makes 4-chains grouping-sensitive; kept out of this monitor",
		"rejection family: calibrated kinds only (removal of a whole operand always leaves the operand count one short, so no implicit-operand reading exists; `[x]`->`[]`, `{x}`->`{}` and slices are not in the family; the argument group of a call followed by a postfix suffix is not removed because `has[0]` reads as has([0]))",
		"a worker death (fatal error / CPU budget) on a case is inconclusive here and left to C11",
	}
}
func (c09) Cases(tier string) int {
	if tier == "thorough" {
		return 1 + 24*gen.C09NumPairs()
	}
	return 1 + 2*gen.C09NumPairs()
}
func (c09) RaceCases(tier string) int {
	if tier == "thorough" {
		return 3000
	}
	return 100
}
func (c09) Floor(tier string) int {
	if tier == "thorough" {
		return 8 * gen.C09NumPairs()
	}
	return gen.C09NumPairs()
}

// Known findings (listed in known_findings.jsonl with their matchers).
const (
	c09FindTab     = "C09-tab-after-path"
	c09FindPostfix = "C09-operator-after-operands-accepted"
	c09FindLow     = "C09-min-max-operand-precedence"
)

// ---------------------------------------------------------------------------------------
// tree of a parsed expression
// ---------------------------------------------------------------------------------------

var c09FlatOps = map[string]bool{"PIPE": true, "UNION": true, "AND": true, "OR": true, "ALTERNATIVE": true}

func c09Label(n *yqlib.ExpressionNode) (typ, label string) {
	op := n.Operation
	if op == nil || op.OperationType == nil {
		return "?", "?"
	}
	t := op.OperationType.Type
	switch t {
	case "TRAVERSE_PATH":
		label = fmt.Sprintf("PATH[%v]%s", op.Value, c09Prefs(op.Preferences))
	case "VALUE":
		label = fmt.Sprintf("VALUE[%T:%v", op.Value, op.Value)
		if op.CandidateNode != nil {
			label += "|" + op.CandidateNode.Tag + "|" + op.CandidateNode.Value
		}
		label += "]"
	case "STRING_INT":
		label = "STR[" + op.StringValue + "]"
	case "GET_VARIABLE":
		label = "VAR[" + op.StringValue + "]"
	default:
		label = t + c09Prefs(op.Preferences)
	}
	if op.UpdateAssign {
		label += "!U"
	}
	if t == "PIPE" && n.LHS != nil && n.LHS.Operation != nil && n.LHS.Operation.OperationType != nil &&
		n.LHS.Operation.OperationType.Type == "ASSIGN_VARIABLE" {
		t, label = "BIND", "BIND"
	}
	return t, label
}

// c09Prefs prints operator preferences; zero-valued preference structs print as nothing.
func c09Prefs(p interface{}) string {
	if p == nil {
		return ""
	}
	if v := reflect.ValueOf(p); v.IsValid() && v.IsZero() {
		return ""
	}
	return fmt.Sprintf("%+v", p)
}

// c09Where shows where two tree texts part.
func c09Where(a, b string) string {
	i := 0
	for i < len(a) && i < len(b) && a[i] == b[i] {
		i++
	}
	from := i - 60
	if from < 0 {
		from = 0
	}
	cut := func(s string) string {
		to := i + 160
		if to > len(s) {
			to = len(s)
		}
		return s[from:to]
	}
	return fmt.Sprintf("trees part at offset %d:\n      …%s\n      …%s", i, cut(a), cut(b))
}

// c09Tree serialises the expression tree. flat: chains of one associative operator become
// n-ary lists (so any grouping of such a chain gives the same text).
func c09Tree(n *yqlib.ExpressionNode, flat bool) string {
	if n == nil {
		return "nil"
	}
	var sb strings.Builder
	c09TreeInto(&sb, n, flat)
	return sb.String()
}

func c09TreeInto(sb *strings.Builder, n *yqlib.ExpressionNode, flat bool) {
	if n == nil {
		sb.WriteString("_")
		return
	}
	t, label := c09Label(n)
	if flat && c09FlatOps[t] {
		var items []*yqlib.ExpressionNode
		var collect func(x *yqlib.ExpressionNode)
		collect = func(x *yqlib.ExpressionNode) {
			if x != nil {
				if xt, xl := c09Label(x); xt == t && xl == label {
					collect(x.LHS)
					collect(x.RHS)
					return
				}
			}
			items = append(items, x)
		}
		collect(n)
		sb.WriteString(label + "[")
		for i, it := range items {
			if i > 0 {
				sb.WriteString(" ; ")
			}
			c09TreeInto(sb, it, flat)
		}
		sb.WriteString("]")
		return
	}
	sb.WriteString(label)
	if n.LHS == nil && n.RHS == nil {
		return
	}
	sb.WriteString("(")
	c09TreeInto(sb, n.LHS, flat)
	sb.WriteString(" , ")
	c09TreeInto(sb, n.RHS, flat)
	sb.WriteString(")")
}

// ---------------------------------------------------------------------------------------
// observation of one spelling
// ---------------------------------------------------------------------------------------

type c09Obs struct {
	text   string
	exact  string // tree, exact
	flat   string // tree, associative chains flattened
	perr   string // parse error text ("" = parsed)
	ppanic string
	outs   []string // per document: printed JSON, or "ERROR"/"PANIC: ..."
}

type c09Run struct {
	light bool // -race build: a parse costs ~30-100 ms, so variants are compared by tree only, base spellings on 1 document
	docs  []string
	cache map[string]*c09Obs
	evals int
}

func (cr *c09Run) parseOnly(text string) *c09Obs {
	o := &c09Obs{text: text}
	node, err, pan := yqx.Parse(text)
	cr.evals++
	switch {
	case pan != nil:
		o.ppanic = pan.Sig() + ": " + pan.Value
	case err != nil:
		o.perr = err.Error()
	default:
		o.exact, o.flat = c09Tree(node, false), c09Tree(node, true)
	}
	return o
}

func (cr *c09Run) observe(text string, eval bool) *c09Obs {
	if o, ok := cr.cache[text]; ok {
		return o
	}
	o := cr.parseOnly(text)
	cr.cache[text] = o
	if cr.light && !eval {
		return o
	}
	for _, d := range cr.docs {
		out, err, pan := yqx.Eval(text, d, "yaml", "json")
		cr.evals++
		switch {
		case pan != nil:
			out = "PANIC: " + pan.Sig()
		case err != nil:
			out = "ERROR"
		}
		o.outs = append(o.outs, out)
	}
	return o
}

func (o *c09Obs) parsed() bool { return o.perr == "" && o.ppanic == "" }

func (o *c09Obs) status() string {
	switch {
	case o.ppanic != "":
		return "PANIC " + o.ppanic
	case o.perr != "":
		return "parse error: " + o.perr
	}
	return "parsed"
}

// c09Diff lists the differences between the reference spelling a and spelling b.
func c09Diff(a, b *c09Obs, exact bool) []string {
	var d []string
	if a.ppanic != "" || b.ppanic != "" {
		d = append(d, fmt.Sprintf("parser panic: %q -> %s | %q -> %s", a.text, a.status(), b.text, b.status()))
		return d
	}
	if a.parsed() != b.parsed() {
		d = append(d, fmt.Sprintf("one spelling parses, the other does not:\n    %q -> %s\n    %q -> %s", a.text, a.status(), b.text, b.status()))
	} else if !a.parsed() {
		d = append(d, fmt.Sprintf("well-formed expression rejected in both spellings:\n    %q -> %s\n    %q -> %s", a.text, a.status(), b.text, b.status()))
	} else {
		ta, tb := a.flat, b.flat
		if exact {
			ta, tb = a.exact, b.exact
		}
		if ta != tb {
			d = append(d, fmt.Sprintf("different expression trees:\n    %q\n    %q\n    %s", a.text, b.text, c09Where(ta, tb)))
		}
	}
	for i := range a.outs {
		if i < len(b.outs) && a.outs[i] != b.outs[i] {
			d = append(d, fmt.Sprintf("different results on document %d:\n    %q\n      -> %s\n    %q\n      -> %s",
				i, a.text, clipStr(a.outs[i], 300), b.text, clipStr(b.outs[i], 300)))
			break
		}
	}
	return d
}

// ---------------------------------------------------------------------------------------
// rejection mutants
// ---------------------------------------------------------------------------------------

type c09Mutant struct {
	Kind string `json:"kind"`
	Text string `json:"text"`
}

func c09BracketName(k gen.C09TokKind) string {
	switch k {
	case gen.C09OpenParen:
		return "open-paren"
	case gen.C09CloseParen:
		return "close-paren"
	case gen.C09OpenCollect:
		return "open-collect"
	case gen.C09CloseCollect:
		return "close-collect"
	case gen.C09OpenObj:
		return "open-object"
	case gen.C09CloseObj:
		return "close-object"
	}
	return ""
}

func c09Without(toks []gen.C09Tok, from, to int) []gen.C09Tok {
	out := append([]gen.C09Tok{}, toks[:from]...)
	return append(out, toks[to:]...)
}

// c09Mutants derives the rejection family from the minimal spelling.
func c09Mutants(r *rand.Rand, p gen.C09Printed) []c09Mutant {
	toks := p.Toks
	var out []c09Mutant
	var brackets []int
	for i, t := range toks {
		if c09BracketName(t.Kind) != "" {
			brackets = append(brackets, i)
		}
	}
	for n := 0; n < 3 && len(brackets) > 0; n++ {
		i := brackets[r.IntN(len(brackets))]
		name := c09BracketName(toks[i].Kind)
		switch r.IntN(3) {
		case 0:
			out = append(out, c09Mutant{"rm-" + name, gen.C09Canonical(c09Without(toks, i, i+1))})
		case 1:
			dup := append([]gen.C09Tok{}, toks[:i+1]...)
			dup = append(dup, toks[i:]...)
			out = append(out, c09Mutant{"dup-" + name, gen.C09Canonical(dup)})
		default:
			var pool []gen.C09Tok
			if toks[i].IsCloser() {
				pool = []gen.C09Tok{{Text: ")", Kind: gen.C09CloseParen, Tight: true}, {Text: "]", Kind: gen.C09CloseCollect, Tight: true}, {Text: "}", Kind: gen.C09CloseObj, Tight: true}}
			} else {
				pool = []gen.C09Tok{{Text: "(", Kind: gen.C09OpenParen}, {Text: "[", Kind: gen.C09OpenCollect}, {Text: "{", Kind: gen.C09OpenObj}}
			}
			var alt []gen.C09Tok
			for _, c := range pool {
				if c.Kind != toks[i].Kind {
					alt = append(alt, c)
				}
			}
			repl := alt[r.IntN(len(alt))]
			repl.Tight = toks[i].Tight
			sw := append([]gen.C09Tok{}, toks...)
			sw[i] = repl
			out = append(out, c09Mutant{"swap-" + name, gen.C09Canonical(sw)})
		}
	}
	var sites []gen.C09Site
	for _, s := range p.Sites {
		if s.Kind == "call" && s.Adjacent {
			continue
		}
		sites = append(sites, s)
	}
	// brackets that balance in number but close before they open: `L ) op ( R` around an operator that
	// sits outside every bracket of the minimal spelling
	depthAt := func(i int) int {
		d := 0
		for _, t := range toks[:i] {
			if t.IsOpener() {
				d++
			} else if t.IsCloser() {
				d--
			}
		}
		return d
	}
	for _, s := range sites {
		if s.Kind == "bin" && s.LT <= s.RF && depthAt(s.LF) == 0 && depthAt(s.RF) == 0 {
			m := append([]gen.C09Tok{}, toks[:s.LT]...)
			m = append(m, gen.C09Tok{Text: ")", Kind: gen.C09CloseParen, Tight: true})
			m = append(m, toks[s.LT:s.RF]...)
			m = append(m, gen.C09Tok{Text: "(", Kind: gen.C09OpenParen})
			m = append(m, toks[s.RF:]...)
			out = append(out, c09Mutant{"close-before-open:" + s.Name, gen.C09Canonical(m)})
			break
		}
	}
	for n := 0; n < 3 && len(sites) > 0; n++ {
		s := sites[r.IntN(len(sites))]
		if s.Kind == "bin" {
			if r.IntN(2) == 0 {
				out = append(out, c09Mutant{"rm-lhs:" + s.Name, gen.C09Canonical(c09Without(toks, s.LF, s.LT))})
			} else {
				out = append(out, c09Mutant{"rm-rhs:" + s.Name, gen.C09Canonical(c09Without(toks, s.RF, s.RT))})
			}
		} else {
			if r.IntN(2) == 0 {
				out = append(out, c09Mutant{"rm-args:" + s.Name, gen.C09Canonical(c09Without(toks, s.RF, s.RT))})
			} else {
				out = append(out, c09Mutant{"empty-args:" + s.Name, gen.C09Canonical(c09Without(toks, s.RF+1, s.RT-1))})
			}
		}
	}
	return out
}

// ---------------------------------------------------------------------------------------
// case 0: the operator table
// ---------------------------------------------------------------------------------------

func c09TableCase() mon.Result {
	res := mon.Result{Sig: "operator-table", Evals: 1, Case: map[string]any{"check": "live operator table == frozen table"}}
	if os.Getenv("VERIF_C09_NOTABLE") == "1" { // sensitivity experiments: behavioural oracles on their own
		res.Verdict, res.Tags = mon.Held, []string{"table:skipped"}
		return res
	}
	live := map[string]yqlib.VerifOp{}
	for _, o := range yqlib.VerifOpTable() {
		live[o.Var] = o
	}
	var diffs []string
	for _, f := range gen.C09Frozen {
		l, ok := live[f.Var]
		switch {
		case !ok:
			diffs = append(diffs, fmt.Sprintf("%s: gone (frozen: precedence %d, %d args)", f.Var, f.Prec, f.NumArgs))
		case l.Precedence != f.Prec || l.NumArgs != f.NumArgs || l.CheckForPostTraverse != f.PostTraverse:
			diffs = append(diffs, fmt.Sprintf("%s: frozen {precedence %d, args %d, postTraverse %v} live {precedence %d, args %d, postTraverse %v}",
				f.Var, f.Prec, f.NumArgs, f.PostTraverse, l.Precedence, l.NumArgs, l.CheckForPostTraverse))
		}
		delete(live, f.Var)
	}
	res.Tags = []string{fmt.Sprintf("table:frozen-ops=%d", len(gen.C09Frozen))}
	if len(live) > 0 {
		res.Tags = append(res.Tags, fmt.Sprintf("table:new-ops=%d", len(live)))
	}
	if len(diffs) > 0 {
		res.Verdict = mon.Violated
		res.Detail = "precedence table changed (live operation.go table differs from the frozen spec table):\n  " + strings.Join(diffs, "\n  ")
		return res
	}
	res.Verdict = mon.Held
	res.Detail = "live table equals the frozen table"
	return res
}

// ---------------------------------------------------------------------------------------
// Run
// ---------------------------------------------------------------------------------------

type c09CaseOut struct {
	Minimal  string            `json:"minimal"`
	Full     string            `json:"full"`
	Forced   string            `json:"forced_pair"`
	Variants map[string]string `json:"variants"`
	Mutants  []c09Mutant       `json:"rejection_mutants"`
	Docs     []string          `json:"docs"`
	Repro    string            `json:"repro,omitempty"`
}

type c09Fail struct {
	oracle  string
	detail  string
	finding string // id of the known finding that explains it exactly, or ""
}

var c09Init sync.Once

func (p c09) Run(w *mon.Worker, idx int) mon.Result {
	c09Init.Do(yqx.Init)
	if idx == 0 {
		return c09TableCase()
	}
	r := w.Rand(idx)
	if idx%40 == 3 {
		return c09ArgCase(w, r)
	}
	if idx%40 == 23 {
		return c09InterpCase(w, r)
	}
	if idx%40 == 33 {
		return c09PrefixFnCase(w, r)
	}
	if idx%40 == 13 {
		return c09UnionChainCase(w, r)
	}
	cs := gen.C09Generate(r, idx-1)
	e := cs.Expr
	st := e.Stats()
	docs, shapes := gen.C09Docs(r)
	cr := &c09Run{light: w.Race, docs: docs, cache: map[string]*c09Obs{}}
	if cr.light {
		cr.docs = docs[:1] // under -race only the two base spellings are evaluated, on one document
	}

	// With a nullary min/max directly under an operator of precedence >= 40 (known finding
	// C09-min-max-operand-precedence) the base spelling brackets those atoms, and the spelling
	// without those brackets is compared separately below.
	low := st.LowSites > 0
	minP := gen.C09Print(e, gen.C09Mode{WrapLow: low})
	fullP := gen.C09Print(e, gen.C09Mode{Full: true})
	minS, fullS := gen.C09Canonical(minP.Toks), gen.C09Canonical(fullP.Toks)
	out := c09CaseOut{Minimal: minS, Full: fullS, Forced: cs.Forced, Variants: map[string]string{}, Docs: docs}
	res := mon.Result{Sig: e.Sig(), Nontrivial: st.Ops >= 2 && len(st.Precs) >= 2}
	tags := map[string]bool{"forced-" + cs.Forced: true, fmt.Sprintf("depth:%d", st.Depth): true}
	for _, t := range st.Pairs {
		tags[t] = true
	}
	for _, f := range st.Fns {
		tags["fn:"+f] = true
	}
	for _, s := range shapes {
		tags[s] = true
	}
	if st.Postfix > 0 {
		tags["postfix-after-bracket-or-call"] = true
	}
	if st.Binds > 0 {
		tags["as-binding"] = true
	}
	var fails []c09Fail

	// O1 + O2: minimal vs full
	base, full := cr.observe(minS, true), cr.observe(fullS, true)
	if d := c09Diff(full, base, false); len(d) > 0 {
		fails = append(fails, c09Fail{oracle: "O1/O2 minimal vs fully parenthesised", detail: strings.Join(d, "\n  ")})
	}
	if low {
		rawS := gen.C09Canonical(gen.C09Print(e, gen.C09Mode{}).Toks)
		out.Variants["minimal-without-brackets-around-min-max"] = rawS
		tags["min-max-operand-under-precedence>=40"] = true
		if d := c09Diff(full, cr.observe(rawS, true), false); len(d) > 0 {
			f := c09Fail{oracle: "O1/O2 minimal (nullary min/max unbracketed) vs fully parenthesised", detail: strings.Join(d, "\n  ")}
			// matcher: the only difference to the agreeing base spelling are the brackets around the
			// min/max atoms that sit directly under an operator of precedence >= 40
			if len(c09Diff(full, base, false)) == 0 {
				f.finding = c09FindLow
				f.detail += "\n  explained: with the min/max operands bracketed (" + minS + ") everything agrees"
				out.Repro = "yq -n '[3,4] | 10 + min'   # prints 3: parsed as ([3,4] + 10) | min; 13 with (min)"
			}
			fails = append(fails, f)
		}
	}
	tags["result:"+c09ResultClass(full)] = true

	// ties: operators of one level written without brackets group to the right (`a - b - c` is `a - (b - c)`,
	// `a * b - c` is `a * (b - c)`): the spelling that leaves the brackets of such right operands out means the same
	if tieP := gen.C09Print(e, gen.C09Mode{WrapLow: low, TieRight: true}); tieP.Ties > 0 && !cr.light {
		tieS := gen.C09Canonical(tieP.Toks)
		out.Variants["equal-levels-unbracketed"] = tieS
		tags["layout:equal-levels-unbracketed"] = true
		if d := c09Diff(base, cr.observe(tieS, true), false); len(d) > 0 {
			fails = append(fails, c09Fail{oracle: "O1/O2 right operand of the same level unbracketed vs bracketed", detail: strings.Join(d, "\n  ")})
		}
	}

	// variants of the minimal spelling: layout and redundant parentheses
	k1 := gen.C09Layouts[idx%len(gen.C09Layouts)]
	variant := func(name string, text string, exact bool) {
		out.Variants[name] = text
		tags["layout:"+name] = true
		if d := c09Diff(base, cr.observe(text, false), exact); len(d) > 0 {
			fails = append(fails, c09Fail{oracle: "O1/O2 variant " + name, detail: strings.Join(d, "\n  ")})
		}
	}
	variant(k1, gen.C09Render(minP.Toks, gen.C09Layout(r, minP.Toks, k1)), true)
	if k1 != "dense" {
		variant("dense", gen.C09Render(minP.Toks, gen.C09Layout(r, minP.Toks, "dense")), true)
	}
	extra := map[int]int{}
	for i := 0; i < cs.Nodes; i++ {
		if r.IntN(3) == 0 {
			extra[i] = 1 + r.IntN(2)
		}
	}
	redP := gen.C09Print(e, gen.C09Mode{WrapLow: low, Extra: extra})
	k2 := gen.C09Layouts[r.IntN(len(gen.C09Layouts))]
	// (a redundant bracket around part of an associative chain re-groups it: compared flattened)
	variant("redundant-parens", gen.C09Canonical(redP.Toks), false)
	variant("redundant-parens+"+k2, gen.C09Render(redP.Toks, gen.C09Layout(r, redP.Toks, k2)), false)
	k3 := gen.C09Layouts[r.IntN(len(gen.C09Layouts))]
	{
		name, text := "full+"+k3, gen.C09Render(fullP.Toks, gen.C09Layout(r, fullP.Toks, k3))
		out.Variants[name] = text
		tags["layout:"+name] = true
		if d := c09Diff(full, cr.observe(text, false), true); len(d) > 0 {
			fails = append(fails, c09Fail{oracle: "O1/O2 variant " + name, detail: strings.Join(d, "\n  ")})
		}
	}
	if idx%16 == 1 {
		tabbed, repaired, n := gen.C09TabAfterGreedy(r, minP.Toks)
		if n > 0 {
			text := gen.C09Render(minP.Toks, tabbed)
			out.Variants["tab-after-path"] = text
			tags["layout:tab-after-path"] = true
			if d := c09Diff(base, cr.observe(text, false), true); len(d) > 0 {
				f := c09Fail{oracle: "O1/O2 variant tab-after-path", detail: strings.Join(d, "\n  ")}
				// matcher of C09-tab-after-path: the same text with exactly those tabs turned into
				// spaces agrees with the minimal spelling in tree and results
				if len(c09Diff(base, cr.observe(gen.C09Render(minP.Toks, repaired), false), true)) == 0 {
					f.finding = c09FindTab
					f.detail += "\n  explained: with the TAB behind the path element replaced by a space everything agrees"
					out.Repro = `printf 'a: 1\n' | yq '.a<TAB>| . + 1'   # prints 1 (key "a\t"), with a space: 2`
				}
				fails = append(fails, f)
			}
		}
	}

	// the same layout through the command line: an expression FILE means what its text means as an argument
	if !w.Race && idx%8 == 5 {
		r2 := rand.New(rand.NewPCG(uint64(idx), 0xc09f))
		kind := []string{"comments", "mixed", "newlines"}[r2.IntN(3)]
		text := gen.C09Render(minP.Toks, gen.C09Layout(r2, minP.Toks, kind))
		if r2.IntN(3) == 0 {
			text = strings.ReplaceAll(text, "\n", "\r\n")
		}
		dir := filepath.Join(w.Scratch, fmt.Sprintf("c09-%d", idx))
		_ = os.MkdirAll(dir, 0o755)
		ef, df := filepath.Join(dir, "e.yq"), filepath.Join(dir, "d.json")
		_ = os.WriteFile(ef, []byte(text), 0o644)
		_ = os.WriteFile(df, []byte(docs[0]+"\n"), 0o644)
		fa := mon.Run(mon.RunOpts{Dir: dir}, w.YqBin(), "-p=json", "-o=json", "-I=0", "--from-file", ef, df)
		ar := mon.Run(mon.RunOpts{Dir: dir}, w.YqBin(), "-p=json", "-o=json", "-I=0", "--expression", strings.ReplaceAll(text, "\r\n", "\n"), df)
		cr.evals += 2
		_ = os.RemoveAll(dir)
		out.Variants["expression-file:"+kind] = text
		if fa.TimedOut || ar.TimedOut {
			tags["expression-file:timeout"] = true
		} else {
			tags["expression-file"] = true
			if (fa.Exit == 0) != (ar.Exit == 0) || (fa.Exit == 0 && string(fa.Stdout) != string(ar.Stdout)) {
				fails = append(fails, c09Fail{oracle: "O1/O2 expression file vs argument", detail: fmt.Sprintf("yq --from-file (exit %d): %s %s\n  yq --expression (exit %d): %s %s\n  text: %q",
					fa.Exit, clipStr(string(fa.Stdout), 200), clipStr(string(fa.Stderr), 200), ar.Exit, clipStr(string(ar.Stdout), 200), clipStr(string(ar.Stderr), 200), text)})
			}
		}
	}

	// O3: rejection
	muts := c09Mutants(r, minP)
	if idx%16 == 2 { // an operator moved behind its operands
		var cand []*gen.C09Expr
		e.Walk(func(n, _ *gen.C09Expr, _ bool) {
			if (n.Kind == gen.C09Bin && n.Op.Free) || (n.Kind == gen.C09Call && n.Fn.NArgs == 1) {
				cand = append(cand, n)
			}
		})
		if len(cand) > 0 {
			n := cand[r.IntN(len(cand))]
			kind := "operator-after-operands:"
			if n.Kind == gen.C09Bin {
				kind += n.Op.Name
			} else {
				kind += n.Fn.Name
			}
			text := gen.C09Canonical(gen.C09Print(e, gen.C09Mode{WrapLow: low, Special: map[*gen.C09Expr]int{n: 1}}).Toks)
			ref := gen.C09Canonical(gen.C09Print(e, gen.C09Mode{WrapLow: low, Special: map[*gen.C09Expr]int{n: 2}}).Toks)
			muts = append(muts, c09Mutant{kind, text})
			out.Variants["reference-of-operator-after-operands"] = ref
		}
	}
	seen := map[string]bool{}
	uniq := muts[:0]
	for _, m := range muts {
		if !seen[m.Text] {
			seen[m.Text] = true
			uniq = append(uniq, m)
		}
	}
	muts = uniq
	out.Mutants = muts
	for _, m := range muts {
		kind := m.Kind
		if i := strings.IndexByte(kind, ':'); i >= 0 {
			kind = kind[:i]
		}
		tags["reject:"+kind] = true
		o := cr.parseOnly(m.Text)
		switch {
		case o.ppanic != "":
			fails = append(fails, c09Fail{oracle: "O3 " + m.Kind, detail: fmt.Sprintf("parser panicked on %q: %s", m.Text, o.ppanic)})
		case o.perr == "":
			f := c09Fail{oracle: "O3 " + m.Kind, detail: fmt.Sprintf("malformed expression accepted: %q -> %s", m.Text, o.exact)}
			if kind == "operator-after-operands" {
				// matcher of C09-operator-after-operands-accepted: accepted with exactly the tree of
				// the normally written expression
				ref := cr.parseOnly(out.Variants["reference-of-operator-after-operands"])
				if ref.parsed() && ref.exact == o.exact {
					f.finding = c09FindPostfix
					f.detail += "\n  explained: same tree as " + ref.text
					out.Repro = "yq -n '(3) (1) -'   # prints 2"
				}
			}
			fails = append(fails, f)
		default:
			tags["rejected"] = true
		}
	}

	res.Evals = cr.evals
	res.Case = out
	for t := range tags {
		res.Tags = append(res.Tags, t)
	}
	sort.Strings(res.Tags)
	if len(fails) == 0 {
		res.Verdict = mon.Held
		res.Detail = fmt.Sprintf("%d spellings agree (tree and results on 3 documents); %d malformed mutants rejected", len(cr.cache), len(muts))
		return res
	}
	var sb strings.Builder
	res.Verdict = mon.Finding
	for _, f := range fails {
		if f.finding == "" {
			res.Verdict = mon.Violated
		} else {
			if res.FindingID == "" {
				res.FindingID = f.finding
			}
			res.Tags = append(res.Tags, "finding:"+f.finding)
		}
		fmt.Fprintf(&sb, "%s\n  %s\n", f.oracle, f.detail)
	}
	if res.Verdict == mon.Violated {
		res.FindingID = ""
	}
	res.Detail = sb.String()
	return res
}

func c09ResultClass(o *c09Obs) string {
	nerr := 0
	for _, s := range o.outs {
		if s == "ERROR" || strings.HasPrefix(s, "PANIC") {
			nerr++
		}
	}
	switch {
	case !o.parsed():
		return "unparsed"
	case nerr == 0:
		return "values-on-all-docs"
	case nerr == len(o.outs):
		return "error-on-all-docs"
	}
	return "mixed"
}

// Finish reports the coverage of the ordered-pair matrix.
func (p c09) Finish(w *mon.Worker, results []mon.Result) []mon.Result {
	pairs := map[string]bool{}
	for _, r := range results {
		if r.Verdict == mon.Inconclusive {
			continue
		}
		for _, t := range r.Tags {
			if strings.HasPrefix(t, "pair:") {
				pairs[t] = true
			}
		}
	}
	total := gen.C09NumPairs()
	var missing []string
	for _, a := range gen.C09Ops {
		for _, b := range gen.C09Ops {
			for _, s := range []string{"L", "R"} {
				if t := "pair:" + a.Name + "<" + b.Name + ":" + s; !pairs[t] {
					missing = append(missing, t)
				}
			}
		}
	}
	sum := mon.Result{Idx: len(results), Sig: "pair-matrix", Evals: 0,
		Tags: []string{fmt.Sprintf("pairs-distinct:%d-of-%d", total-len(missing), total)},
		Case: map[string]any{"pairs_observed": total - len(missing), "pairs_total": total, "missing": missing}}
	need := total * 9 / 10
	if w.Tier == "thorough" {
		need = total
	}
	if total-len(missing) < need {
		sum.Verdict = mon.Inconclusive
		sum.Detail = fmt.Sprintf("operator-pair matrix: only %d of %d ordered pairs observed (need %d)", total-len(missing), total, need)
	} else {
		sum.Verdict = mon.Held
		sum.Detail = fmt.Sprintf("operator-pair matrix: %d of %d ordered pairs observed", total-len(missing), total)
	}
	return append(results, sum)
}
